// blas_gen.hpp — case generator of harness/blas.cpp (included there).
//
// mode "mix": a SYSTEMATIC part that enumerates every (operation, operand variant, padding, size class) combination
// (the space in which the dispatch chains branch; independent of the seed, split over 16 workers by index) followed by
// a RANDOM part derived from the seed (element types, scalars, offsets, strided parents, sizes up to 4, all forms).
#pragma once

struct MatSpec { long n0 = 0, n1 = 0; char var = 'N'; long pad = 0, r0 = 0, c0 = 0, rs = 1, cs = 1, off = 0; };

static MatR make_mat(int region, MatSpec const& s) {
	bool tr = (s.var == 'T' || s.var == 'H');
	long p0 = tr ? s.n1 : s.n0, p1 = tr ? s.n0 : s.n1;
	MatR r; r.off = region * REG + s.off; r.rs = s.rs; r.cs = s.cs; r.var = s.var;
	r.r0 = s.r0; r.r1 = s.r0 + p0 * s.rs; r.c0 = s.c0; r.c1 = s.c0 + p1 * s.cs;
	r.R = r.r1 + (s.pad ? 1 : 0); r.C = r.c1 + s.pad;
	if(r.R < 1) r.R = 1;   // a parent with a zero extent reports every extent as 0 and could not be sliced
	if(r.C < 1) r.C = 1;
	return r;
}
static VecR make_vec(int region, long n, long inc, char var, long off) { VecR v; v.off = region * REG + off; v.n = n; v.inc = inc; v.var = var; return v; }

static G sc_of(int k, bool cplx) {  // scalar palette: 0, 1, -2 (+ genuinely complex ones for complex element types)
	switch(k) { case 0: return {0, 0}; case 1: return {1, 0}; case 2: return {-2, 0}; case 3: return cplx ? G{0, 1} : G{1, 0}; default: return cplx ? G{1, -2} : G{-2, 0}; }
}

static long g_k = 0;        // programs emitted
static long g_limit = 0;
static std::uint64_t g_pseed = 0;
static bool emit_case(Case& c) {
	if(g_k >= g_limit) return false;
	std::fprintf(fprog, "prog %ld %llu\n", g_k, static_cast<unsigned long long>(g_pseed));
	std::fprintf(fans, "prog %ld %llu\n", g_k, static_cast<unsigned long long>(g_pseed));
	run_case(c, true);
	++g_k;
	return true;
}

static char const* VAR4 = "NTJH";

// ---- systematic part ----------------------------------------------------------------------------
// calls f(case) for every systematic case whose global index is congruent to w modulo W
template<class F> void systematic(long w, long W, F&& f) {
	long idx = 0;
	auto mine = [&]() { return (idx++ % W) == w; };
	for(char ty : {'d', 'z'}) {
		bool cplx = ty == 'z'; int nv = cplx ? 4 : 2;
		G al = cplx ? G{1, -2} : G{1, 0}, be = cplx ? G{-2, 1} : G{-2, 0};
		// gemm
		for(int va = 0; va < nv; ++va) for(int vb = 0; vb < nv; ++vb) for(int vc = 0; vc < nv; ++vc) for(int pads = 0; pads < 8; ++pads)
			for(long m = 0; m < 5; ++m) for(long n = 0; n < 5; ++n) for(long k = 0; k < 5; ++k) {
				if(!mine()) continue;
				Case c; c.op = "gemm"; c.form = "inplace"; c.ty = ty; c.dseed = 1000 + static_cast<std::uint64_t>(idx); c.alpha = al; c.beta = be;
				MatSpec a{m, k, VAR4[va], (pads & 1) ? 2 : 0}, b{k, n, VAR4[vb], (pads & 2) ? 1 : 0}, cc{m, n, VAR4[vc], (pads & 4) ? 3 : 0};
				if(pads & 1) { a.r0 = 1; a.c0 = 1; a.off = 2; }
				if(pads & 4) { cc.c0 = 2; cc.off = 1; }
				c.m = {make_mat(0, a), make_mat(1, b), make_mat(2, cc)};
				if(!f(c)) return;
			}
		// gemm range / operator forms with an inner dimension that does not fit (they assert nothing about it)
		if(ND == 0) for(char const* form : {"assign", "pluseq", "opmul", "opmulpe"}) for(int vb = 0; vb < 2; ++vb) {
			if(!mine()) continue;
			Case c; c.op = "gemm"; c.form = form; c.ty = ty; c.dseed = 1000 + static_cast<std::uint64_t>(idx); c.alpha = {1, 0}; c.beta = (c.form == "assign" || c.form == "opmul") ? G{0, 0} : G{1, 0};
			MatSpec a{2, 2, 'N', 0}, b{3, 2, VAR4[vb], 0}, cc{2, 2, 'N', 0};
			c.m = {make_mat(0, a), make_mat(1, b), make_mat(2, cc)};
			if(!f(c)) return;
		}
		// gemv
		for(int va = 0; va < nv; ++va) for(int pad = 0; pad < 2; ++pad) for(long ix = 1; ix <= 2; ++ix) for(long iy = 1; iy <= 2; ++iy)
			for(long m = 0; m < 5; ++m) for(long n = 0; n < 5; ++n) {
				if(!mine()) continue;
				Case c; c.op = "gemv"; c.form = "inplace"; c.ty = ty; c.dseed = 1000 + static_cast<std::uint64_t>(idx); c.alpha = al; c.beta = be;
				MatSpec a{m, n, VAR4[va], pad ? 2 : 0}; if(pad) { a.r0 = 1; a.c0 = 1; }
				c.m = {make_mat(0, a)}; c.v = {make_vec(1, n, ix, 'N', ix == 2 ? 3 : 0), make_vec(2, m, iy, 'N', iy == 2 ? 1 : 0)};
				if(!f(c)) return;
			}
		// herk (complex: zherk, real: forwarded to syrk by the library) and syrk
		for(char const* op : {"herk", "syrk"}) {
			int na = (std::string(op) == "herk") ? nv : 2, nc = na;
			// nonunit = 1 / 2: A / C gets an inner stride of 2 (BLAS cannot express it; herk and syrk check no stride at all)
			for(int va = 0; va < na; ++va) for(int vc = 0; vc < nc; ++vc) for(int pads = 0; pads < 4; ++pads) for(char fill : {'u', 'l'}) for(int nonunit = 0; nonunit < 3; ++nonunit)
				for(long n = 0; n < 5; ++n) for(long k = 0; k < 5; ++k) {
					if(nonunit && (n == 0 || pads == 3)) continue;
					if(!mine()) continue;
					Case c; c.op = op; c.form = "inplace"; c.ty = ty; c.dseed = 1000 + static_cast<std::uint64_t>(idx); c.f1 = fill;
					c.alpha = (c.op == "herk") ? G{1, 0} : al; c.beta = (c.op == "herk") ? G{-2, 0} : be;
					MatSpec a{n, k, VAR4[va], (pads & 1) ? 2 : 0}, cc{n, n, VAR4[vc], (pads & 2) ? 3 : 0};
					if(pads & 1) { a.r0 = 1; a.c0 = 1; }
					if(pads & 2) { cc.c0 = 1; cc.off = 2; }
					if(nonunit == 1) a.cs = 2;
					if(nonunit == 2) cc.cs = 2;
					c.m = {make_mat(0, a), make_mat(2, cc)};
					if(!f(c)) return;
				}
		}
		// trsm
		for(int va = 0; va < nv; ++va) for(int vb = 0; vb < nv; ++vb) for(int pads = 0; pads < 4; ++pads) for(char side : {'l', 'r'}) for(char fill : {'u', 'l'}) for(char diag : {'n', 'u'})
			for(long m = 0; m < 5; ++m) for(long n = 0; n < 5; ++n) {
				if(va >= 2 && vb >= 2) continue;   // both conjugated does not compile
				if(!mine()) continue;
				Case c; c.op = "trsm"; c.form = "inplace"; c.ty = ty; c.dseed = 1000 + static_cast<std::uint64_t>(idx); c.f1 = side; c.f2 = fill; c.f3 = diag;
				c.alpha = cplx ? G{0, 1} : G{-2, 0};
				long na = side == 'l' ? m : n;
				MatSpec a{na, na, VAR4[va], (pads & 1) ? 2 : 0}, b{m, n, VAR4[vb], (pads & 2) ? 1 : 0};
				if(pads & 1) { a.r0 = 1; a.c0 = 2; }
				if(pads & 2) { b.r0 = 1; b.off = 1; }
				c.m = {make_mat(0, a), make_mat(1, b)};
				if(!f(c)) return;
			}
	}
	// level 1: every element type (the float and complex dot paths differ from the double path)
	for(char ty : {'s', 'd', 'c', 'z'}) {
		bool cplx = (ty == 'c' || ty == 'z');
		G al = cplx ? G{1, -2} : G{-2, 0};
		for(long ix = 1; ix <= 3; ix += 2) for(long iy = 1; iy <= 2; ++iy) for(long n : {0L, 1L, 3L}) {
			auto base = [&](char const* op, char const* form) { Case c; c.op = op; c.form = form; c.ty = ty; c.dseed = 1000 + static_cast<std::uint64_t>(idx); c.alpha = al; return c; };
			for(char const* form : {"res", "ret", "opcomma"}) for(int cx = 0; cx < (cplx ? 3 : 1); ++cx) {
				if(!mine()) continue;
				Case c = base("dot", form); c.v = {make_vec(0, n, ix, cx == 1 ? 'C' : 'N', 2), make_vec(1, n, iy, cx == 2 ? 'C' : 'N', 0)}; c.saddr = 3 * REG + 5;
				if(!f(c)) return;
			}
			for(char const* form : {"inplace", "pluseq", "minuseq", "opadd", "opsub", "opscaled"}) { if(!mine()) continue; Case c = base("axpy", form); c.v = {make_vec(0, n, ix, 'N', 1), make_vec(1, n, iy, 'N', 4)}; if(!f(c)) return; }
			for(char const* form : {"inplace", "assign", "opshl"}) { if(!mine()) continue; Case c = base("copy", form); c.v = {make_vec(0, n, ix, 'N', 1), make_vec(1, n, iy, 'N', 4)}; if(!f(c)) return; }
			for(char const* form : {"inplace"}) { if(!mine()) continue; Case c = base("swap", form); c.v = {make_vec(0, n, ix, 'N', 1), make_vec(1, n, iy, 'N', 4)}; if(!f(c)) return; }
			if(iy == 1) {
				for(char const* form : {"inplace", "opmuleq"}) { if(!mine()) continue; Case c = base("scal", form); c.v = {make_vec(0, n, ix, 'N', 1)}; if(!f(c)) return; }
				for(char const* op : {"nrm2", "asum"}) for(char const* form : {"res", "ret"}) { if(std::string(op) == "asum" && std::string(form) == "ret") continue; if(!mine()) continue; Case c = base(op, form); c.v = {make_vec(0, n, ix, 'N', 1)}; if(!f(c)) return; }
				if(n > 0) { if(!mine()) continue; Case c = base("iamax", "range"); c.v = {make_vec(0, n, ix, 'N', 1)}; if(!f(c)) return; }
			}
		}
	}
}

// ---- random part --------------------------------------------------------------------------------
static long rsize(Rng& r) { return r.pick({3, 4, 3, 3, 3}); }  // 0..4, corners over-weighted
static char rvar(Rng& r, bool cplx) { (void)cplx; return VAR4[r.pick({4, 4, 3, 3})]; }
static MatSpec rmat(Rng& r, long n0, long n1, bool cplx, bool allow_bad) {
	MatSpec s; s.n0 = n0; s.n1 = n1; s.var = rvar(r, cplx);
	s.pad = r.coin(50) ? 0 : r.range(1, 3);
	if(s.pad) { s.r0 = r.range(0, 1); s.c0 = r.range(0, 2); }
	s.off = r.range(0, 3);
	if(r.coin(8)) s.rs = 2;
	if(allow_bad && r.coin(3)) s.cs = 2;   // neither stride is 1: BLAS cannot express it
	return s;
}

static void random_case(Rng& r, Case& c) {
	static char const TY[4] = {'s', 'd', 'c', 'z'};
	c.ty = TY[r.pick({2, 3, 2, 3})]; bool cplx = (c.ty == 'c' || c.ty == 'z');
	c.dseed = r.next() % 1000000007ULL;
	c.alpha = sc_of(r.pick({2, 3, 3, 1, 2}), cplx); c.beta = sc_of(r.pick({3, 3, 3, 1, 1}), cplx);
	int op = r.pick({30, 12, 8, 6, 10, 4, 5, 3, 4, 3, 3, 3, 2});
	bool bad = (ND == 0) && r.coin(4);   // deliberately mismatched sizes (assertion-enabled build only): must be rejected
	switch(op) {
		case 0: {
			c.op = "gemm"; long m = rsize(r), n = rsize(r), k = rsize(r);
			if(c.ty == 'c') c.ty = 'z';   // gemm on complex<float> does not compile (see blas.cpp)
			static char const* F[5] = {"inplace", "assign", "pluseq", "opmul", "opmulpe"};
			c.form = F[r.pick({6, 2, 2, 1, 1})];
			MatSpec a = rmat(r, m, k, cplx, ND == 0), b = rmat(r, bad ? k + 1 : k, n, cplx, ND == 0), cc = rmat(r, m, n, cplx, ND == 0);
			if(c.form != "inplace" && (cc.var == 'J' || cc.var == 'H')) cc.var = (cc.var == 'J') ? 'N' : 'T';
			c.m = {make_mat(0, a), make_mat(1, b), make_mat(2, cc)};
			if(c.form == "assign" || c.form == "opmul") c.beta = {0, 0};
			if(c.form == "pluseq" || c.form == "opmulpe") c.beta = {1, 0};
			if(c.form == "opmul" || c.form == "opmulpe") c.alpha = {1, 0};
			break; }
		case 1: {
			c.op = "gemv"; long m = rsize(r), n = rsize(r);
			static char const* F[3] = {"inplace", "assign", "pluseq"}; c.form = F[r.pick({4, 1, 1})];
			MatSpec a = rmat(r, m, n, cplx, ND == 0);
			c.m = {make_mat(0, a)}; c.v = {make_vec(1, bad ? n + 1 : n, r.range(1, 3), 'N', r.range(0, 3)), make_vec(2, m, r.range(1, 3), 'N', r.range(0, 3))};
			if(c.form == "assign") c.beta = {0, 0};
			if(c.form == "pluseq") c.beta = {1, 0};
			break; }
		case 2: case 3: {
			c.op = (op == 2) ? "herk" : "syrk"; long n = rsize(r), k = rsize(r);
			c.form = "inplace"; c.f1 = r.coin(50) ? 'u' : 'l';
			MatSpec a = rmat(r, n, k, cplx, ND == 0 || true), cc = rmat(r, bad ? n + 1 : n, n, cplx, ND == 0 || true);   // syrk/herk check no stride at all: non-unit strides in both builds
			if(c.op == "syrk") { if(a.var == 'J') a.var = 'N'; if(a.var == 'H') a.var = 'T'; if(cc.var == 'J') cc.var = 'N'; if(cc.var == 'H') cc.var = 'T'; }
			if(c.op == "herk") { c.alpha.im = 0; c.beta.im = 0; if(r.coin(15)) { c.form = "both"; c.f1 = 'b'; c.beta = {0, 0}; } }
			c.m = {make_mat(0, a), make_mat(2, cc)};
			break; }
		case 4: {
			c.op = "trsm"; long m = rsize(r), n = rsize(r);
			c.f1 = r.coin(50) ? 'l' : 'r'; c.f2 = r.coin(50) ? 'u' : 'l'; c.f3 = r.coin(70) ? 'n' : 'u';
			c.form = r.coin(85) ? "inplace" : "op";
			long na = c.f1 == 'l' ? m : n;
			MatSpec a = rmat(r, na, na, cplx, false), b = rmat(r, m, n, cplx, false);
			if(cplx && (a.var == 'J' || a.var == 'H') && (b.var == 'J' || b.var == 'H')) b.var = (b.var == 'J') ? 'N' : 'T';   // both conjugated does not compile
			if(c.form == "op") { c.alpha = {1, 0}; c.f3 = 'n'; if(b.var == 'J') b.var = 'N'; if(b.var == 'H') b.var = 'T'; }
			if(c.alpha == G{0, 0}) c.alpha = {1, 0};
			c.m = {make_mat(0, a), make_mat(1, b)};
			break; }
		default: {
			long n = rsize(r); long ix = r.range(1, 3), iy = r.range(1, 3); long ox = r.range(0, 4), oy = r.range(0, 4);
			long ny = bad ? n + 1 : n;
			switch(op) {
				case 5: { c.op = "dot"; static char const* F[3] = {"res", "ret", "opcomma"}; c.form = F[r.pick({2, 2, 1})]; int cx = cplx ? r.pick({2, 1, 1}) : 0;
					c.v = {make_vec(0, n, ix, cx == 1 ? 'C' : 'N', ox), make_vec(1, ny, iy, cx == 2 ? 'C' : 'N', oy)}; c.saddr = 3 * REG + r.range(0, 9); break; }
				case 6: { c.op = "axpy"; static char const* F[6] = {"inplace", "pluseq", "minuseq", "opadd", "opsub", "opscaled"}; c.form = F[r.pick({4, 1, 1, 1, 1, 1})];
					c.v = {make_vec(0, n, ix, 'N', ox), make_vec(1, ny, iy, 'N', oy)};
					break; }
				case 7: { c.op = "scal"; c.form = r.coin(60) ? "inplace" : "opmuleq"; c.v = {make_vec(0, n, ix, 'N', ox)}; break; }
				case 8: { c.op = "copy"; static char const* F[3] = {"inplace", "assign", "opshl"}; c.form = F[r.pick({3, 1, 1})]; c.v = {make_vec(0, n, ix, 'N', ox), make_vec(1, ny, iy, 'N', oy)}; break; }
				case 9: { c.op = "swap"; c.form = "inplace"; c.v = {make_vec(0, n, ix, 'N', ox), make_vec(1, ny, iy, 'N', oy)}; break; }
				case 10: { c.op = "nrm2"; c.form = r.coin(50) ? "res" : "ret"; c.v = {make_vec(0, n, ix, 'N', ox)}; break; }
				case 11: { c.op = "asum"; c.form = "res"; c.v = {make_vec(0, n, ix, 'N', ox)}; break; }
				default: { c.op = "iamax"; c.form = "range"; if(n == 0) n = 1; c.v = {make_vec(0, n, ix, 'N', ox)}; break; }
			}
		}
	}
}

static void run_generated(std::uint64_t seed, long nprog, std::string const& mode) {
	g_limit = nprog; g_k = 0; g_pseed = seed;
	long const W = 16; long w = static_cast<long>(seed % 1000) % W;
	if(mode != "random") systematic(w, W, [&](Case& c) { return emit_case(c); });
	if(mode == "systematic") return;
	Rng rng(seed);
	while(g_k < g_limit) { Case c; random_case(rng, c); if(!emit_case(c)) break; }
}
