// algos.cpp — differential harness for C03: standard algorithms on array / view ranges act as on independent values.
// For every generated case (algorithm × range kind × view × data) the real std:: algorithm is run on the real library's
// range — begin()/end() of a view (proxy sub-views when D > 1) or its elements() range — and the SAME algorithm with the
// same arguments on a std::vector of independent values (std::vector<int>, or std::vector<multi::array<int, D-1>> for rows).
// Compared: the viewed contents afterwards, the returned position / value, and that every cell of the storage outside
// the view(s) written by the algorithm — guard cells included — is unchanged.  One line per case: `algo ok`, or
// `algo FAIL <what>`; the Lean driver echoes `algo ok` for every `x algo` line (the oracle is the reference computed here,
// DESIGN §6 C03), so a FAIL shows up in the diff.
//
// usage: algos <seed> <nprograms> <mode: all> <prog-out> <answers-out> [--replay <prog-file>]
//
//   x algo <name> <rows|elems> <regA> <regB> <dataseed> <k1> <k2>
#include "common/viewreg.hpp"

#include <fstream>
#include <unistd.h>
#include <numeric>
#include <type_traits>

constexpr long NCELL = 4096;
constexpr long GUARD = 8;

static std::vector<VT> g_store;
static VT* g_mem = nullptr;
static FILE* fprog = nullptr;
static FILE* fans = nullptr;
static std::vector<AnyView> regs(64);
static long g_next = 16;

static long init_cell(long a) { return (a * 7 + 3) % 11; }
static void reset_memory() { for(long a = 0; a < NCELL; ++a) g_mem[a] = static_cast<VT>(init_cell(a)); }

static char const* const ALGOS[] = {"sort", "stable_sort", "partial_sort", "nth_element", "rotate", "reverse", "partition", "unique", "remove", "copy",
	"copy_backward", "move", "swap_ranges", "fill", "transform", "find", "equal", "is_sorted", "accumulate", "lexicographical_compare"};
constexpr int NALGOS = 20;
static bool needs_b(std::string const& n) { return n == "copy" || n == "swap_ranges" || n == "transform" || n == "find" || n == "equal" || n == "lexicographical_compare"; }
static bool writes_b(std::string const& n) { return n == "copy" || n == "swap_ranges" || n == "transform"; }

// canonical-order element values / addresses of anything indexable with chained brackets
template<class X> std::vector<long> flat_values(X const& x) {
	std::vector<long> r;
	if constexpr(std::is_arithmetic_v<X>) { r.push_back(static_cast<long>(x)); }
	else { auto idxs = box(exts_of(x)); for(auto const& idx : idxs) r.push_back(static_cast<long>(*addr_bracket(x, idx.data()))); }
	return r;
}
template<class X> std::vector<long> image_of(X const& x) {
	std::vector<long> r; auto idxs = box(exts_of(x));
	for(auto const& idx : idxs) r.push_back(static_cast<long>(addr_bracket(x, idx.data()) - g_mem));
	return r;
}
template<class X> long sum_of(X const& x) { long s = 0; for(long v : flat_values(x)) s += v; return s; }
inline void bump(int& y) { y += 1; }
template<class A> auto bump(A& y) -> decltype(y.elements(), void()) { for(auto& e : y.elements()) e += 1; }

static std::uint64_t mix(std::uint64_t z) { z += 0x9E3779B97F4A7C15ULL; z = (z ^ (z >> 30)) * 0xBF58476D1CE4E5B9ULL; z = (z ^ (z >> 27)) * 0x94D049BB133111EBULL; return z ^ (z >> 31); }

// can libstdc++'s ordering algorithms be instantiated on this iterator?  They compare a saved value with a proxy
// (`value_type < reference` and `reference < value_type`).  With raw pointers both are the same class; with a fancy
// pointer whose default allocator hands out raw pointers the saved value is an array over T* and the proxy a view over the
// fancy pointer — the library has a heterogeneous `==` but (unless fixes/C11-hetero-less.patch is applied) no heterogeneous `<`.
template<class A, class B, class = void> struct has_less : std::false_type {};
template<class A, class B> struct has_less<A, B, std::void_t<decltype(std::declval<A const&>() < std::declval<B const&>())>> : std::true_type {};
template<class It> constexpr bool orderable_v =
	has_less<typename std::iterator_traits<It>::value_type, typename std::iterator_traits<It>::reference>::value &&
	has_less<typename std::iterator_traits<It>::reference, typename std::iterator_traits<It>::value_type>::value;
static bool needs_order(std::string const& n) { return n == "sort" || n == "stable_sort" || n == "partial_sort" || n == "nth_element"; }

// the same std:: algorithm on any pair of ranges; returns the position (as a distance) or value the algorithm returns
template<class I1, class I2> long apply_algo(std::string const& name, I1 first, I1 last, I2 first2, I2 last2, long k1) {
	auto n = static_cast<long>(last - first);
	auto pred = [](auto const& x) { return sum_of(x) % 2 == 0; };
	if constexpr(orderable_v<I1>) {
		if(name == "sort") { std::sort(first, last); return 0; }
		if(name == "stable_sort") { std::stable_sort(first, last); return 0; }
		if(name == "partial_sort") { std::partial_sort(first, first + k1, last); return 0; }
		if(name == "nth_element") { if(k1 < n) std::nth_element(first, first + k1, last); return 0; }
	} else { if(needs_order(name)) { std::fprintf(stderr, "harness: %s is not instantiable on this range\n", name.c_str()); std::abort(); } }
	if(name == "rotate") { return static_cast<long>(std::rotate(first, first + k1, last) - first); }
	if(name == "reverse") { std::reverse(first, last); return 0; }
	if(name == "partition") { return static_cast<long>(std::partition(first, last, pred) - first); }
	if(name == "unique") { return static_cast<long>(std::unique(first, last) - first); }
	if(name == "remove") { if(n == 0) return 0; auto val = +(*(first + k1 % n)); return static_cast<long>(std::remove(first, last, val) - first); }
	if(name == "copy") { return static_cast<long>(std::copy(first, last, first2) - first2); }
	if(name == "copy_backward") { return static_cast<long>(std::copy_backward(first, last - k1, last) - first); }
	if(name == "move") { return static_cast<long>(std::move(first + k1, last, first) - first); }
	if(name == "swap_ranges") { return static_cast<long>(std::swap_ranges(first, last, first2) - first2); }
	if(name == "fill") { if(n == 0) return 0; auto val = +(*(first + k1 % n)); std::fill(first, last, val); return 0; }
	if(name == "transform") { return static_cast<long>(std::transform(first, last, first2, [](auto const& x) { auto y = +x; bump(y); return y; }) - first2); }
	if(name == "find") { if(n == 0) return 0; auto val = +(*(first2 + k1 % n)); return static_cast<long>(std::find(first, last, val) - first); }
	if(name == "equal") { return std::equal(first, last, first2) ? 1 : 0; }
	if(name == "is_sorted") { return std::is_sorted(first, last) ? 1 : 0; }
	if(name == "accumulate") { return std::accumulate(first, last, 0L, [](long a, auto const& x) { return (a * 3 + sum_of(x)) % 1000003; }); }
	if(name == "lexicographical_compare") { return std::lexicographical_compare(first, last, first2, last2) ? 1 : 0; }
	std::fprintf(stderr, "harness: unknown algorithm %s\n", name.c_str()); std::abort();
}

static void fill_data(std::vector<long> const& img, std::uint64_t seed, long modulus) {
	for(std::size_t i = 0; i < img.size(); ++i) g_mem[img[i]] = static_cast<VT>(mix(seed * 1315423911ULL + i) % static_cast<std::uint64_t>(modulus));
}

template<multi::dimensionality_type D, bool Elems> void run_case(std::string const& name, VS<D> const& sa, VS<D> const* sb, std::uint64_t dseed, long k1, long k2) {
	auto A = mk(sa);
	auto imgA = image_of(A);
	// data with duplicates; B equal to A, equal up to one element, or independent
	long modulus = 2 + static_cast<long>(dseed % 5);
	fill_data(imgA, dseed, modulus);
	std::vector<long> imgB;
	if(sb != nullptr) {
		auto B = mk(*sb); imgB = image_of(B);
		if(k2 % 3 == 2) fill_data(imgB, dseed + 77, modulus);
		else { for(std::size_t i = 0; i < imgB.size() && i < imgA.size(); ++i) g_mem[imgB[i]] = g_mem[imgA[i]];
			if(k2 % 3 == 1 && !imgB.empty()) { auto& c = g_mem[imgB[static_cast<std::size_t>(k2) % imgB.size()]]; c = static_cast<VT>(c + ((k2 & 4) ? 1 : -1)); } }
	}
	std::vector<VT> snapshot(g_mem, g_mem + NCELL);
	using Val = std::conditional_t<(Elems || D == 1), VT, multi::array<VT, (D > 1 ? D - 1 : 1)>>;
	std::vector<Val> refA, refB;
	long ri = 0, rr = 0;
	auto with_ranges = [&](auto ab, auto ae, auto bb, auto be) {
		refA.assign(ab, ae); refB.assign(bb, be);                         // independent values
		long n = static_cast<long>(ae - ab);
		if(k1 > n) k1 = n;
		ri = apply_algo(name, ab, ae, bb, be, k1);
		rr = apply_algo(name, refA.begin(), refA.end(), refB.begin(), refB.end(), k1);
	};
	if(sb != nullptr) {
		auto B = mk(*sb);
		if constexpr(Elems) { with_ranges(A.elements().begin(), A.elements().end(), B.elements().begin(), B.elements().end()); }
		else { with_ranges(A.begin(), A.end(), B.begin(), B.end()); }
	} else {
		if constexpr(Elems) { with_ranges(A.elements().begin(), A.elements().end(), A.elements().begin(), A.elements().begin()); }
		else { with_ranges(A.begin(), A.end(), A.begin(), A.begin()); }
	}
	// compare: returned position / value, viewed contents, everything else unchanged
	std::string fail;
	if(ri != rr) fail += " returned=" + std::to_string(ri) + " reference=" + std::to_string(rr);
	auto flat_ref = [](std::vector<Val> const& r) { std::vector<long> f; for(auto const& x : r) { auto v = flat_values(x); f.insert(f.end(), v.begin(), v.end()); } return f; };
	auto gotA = flat_values(A); auto wantA = flat_ref(refA);
	if(name == "remove" || name == "unique" || name == "move") {
		// elements past the returned position are moved-from (valid but unspecified; a moved-from multi::array is empty): compare the specified prefix
		long rowlen = (Elems || D == 1 || A.size() == 0) ? 1 : static_cast<long>(gotA.size()) / static_cast<long>(A.size());
		auto keep = static_cast<std::size_t>(std::max<long>(0, std::min<long>(rr, ri)) * rowlen);
		if(gotA.size() > keep) gotA.resize(keep);
		if(wantA.size() > keep) wantA.resize(keep);
	}
	if(gotA != wantA) fail += " contents-of-A got=[" + join(gotA) + "] want=[" + join(wantA) + "]";
	if(sb != nullptr) { auto B = mk(*sb); auto gotB = flat_values(B); auto wantB = flat_ref(refB); if(gotB != wantB) fail += " contents-of-B got=[" + join(gotB) + "] want=[" + join(wantB) + "]"; }
	std::vector<char> may(static_cast<std::size_t>(NCELL), 0);
	for(long a : imgA) may[static_cast<std::size_t>(a)] = 1;
	if(sb != nullptr && writes_b(name)) { for(long a : imgB) may[static_cast<std::size_t>(a)] = 1; }
	int nout = 0;
	for(long a = 0; a < NCELL; ++a) { if(!may[static_cast<std::size_t>(a)] && g_mem[a] != snapshot[static_cast<std::size_t>(a)]) { if(nout++ < 6) fail += " outside-write@" + std::to_string(a) + "=" + std::to_string(g_mem[a]); } }
	if(fail.empty()) std::fprintf(fans, "algo ok\n");
	else std::fprintf(fans, "algo FAIL %s %s D=%d n=%ld k1=%ld%s\n", name.c_str(), Elems ? "elems" : "rows", static_cast<int>(D), static_cast<long>(A.size()), k1, fail.c_str());
}

// `x tr …`: the real std:: algorithm on a std::vector<long> of independent values — the Lean driver runs the hand-transcribed
// loop (MultiProofs/AlgoProgs.lean) on the same values and must print the same position and the same contents, cell for
// cell (lean/Driver/AlgoTr.lean has the table of parameters).  Ties the transcriptions to libstdc++.
static void run_tr(std::vector<std::string> const& w) {
	std::string name = w[2]; long p1 = std::stol(w[3]), p2 = std::stol(w[4]), p3 = std::stol(w[5]); long n = std::stol(w[6]);
	std::vector<long> x; for(long i = 0; i < n; ++i) x.push_back(std::stol(w[7 + static_cast<std::size_t>(i)]));
	auto b = x.begin(); long pos = 0;
	if(name == "reverse") { std::reverse(x.begin(), x.end()); }
	else if(name == "sort") { std::sort(x.begin(), x.end()); }
	else if(name == "fill") { std::fill(b + p1, b + p1 + p2, p3); pos = p1 + p2; }
	else if(name == "partition") { pos = std::partition(x.begin(), x.end(), [](long v) { return v % 2 == 0; }) - b; }
	else if(name == "unique") { pos = std::unique(x.begin(), x.end()) - b; }
	else if(name == "remove") { pos = std::remove(x.begin(), x.end(), p1) - b; }
	else if(name == "find") { pos = std::find(x.begin(), x.end(), p1) - b; }
	else if(name == "is_sorted") { pos = std::is_sorted(x.begin(), x.end()) ? 1 : 0; }
	else if(name == "accumulate") { pos = std::accumulate(x.begin(), x.end(), p1, [](long a, long v) { return (a * 3 + v) % 1000003; }); }
	else if(name == "copy") { pos = std::copy(b + p1, b + p1 + p3, b + p2) - b; }
	else if(name == "copy_backward") { pos = std::copy_backward(b + p1 - p3, b + p1, b + p2) - b; }
	else if(name == "swap_ranges") { pos = std::swap_ranges(b + p1, b + p1 + p3, b + p2) - b; }
	else if(name == "transform") { pos = std::transform(b + p1, b + p1 + p3, b + p2, [](long v) { return 2 * v + 1; }) - b; }
	else if(name == "equal") { pos = std::equal(b + p1, b + p1 + p3, b + p2) ? 1 : 0; }
	else if(name == "lexcmp") { pos = std::lexicographical_compare(b + p1, b + p1 + p3 / 16, b + p2, b + p2 + p3 % 16) ? 1 : 0; }
	else { std::fprintf(stderr, "harness: unknown transcription %s\n", name.c_str()); std::abort(); }
	std::string out = "tr " + std::to_string(pos);
	for(long v : x) out += " " + std::to_string(v);
	std::fprintf(fans, "%s\n", out.c_str());
}

static char const* const TRS[] = {"reverse", "fill", "partition", "unique", "remove", "find", "is_sorted", "accumulate", "copy", "copy_backward",
	"swap_ranges", "transform", "equal", "lexcmp", "sort"};
constexpr int NTRS = 15;
// one generated `x tr` line: values with duplicates (modulus 2..6), sometimes sorted, length 0..12; parameters made valid here
static std::string gen_tr(Rng& rng) {
	std::string name = TRS[rng.range(0, NTRS - 1)];
	long n = rng.range(0, 12); long modulus = rng.range(2, 6);   // n <= 16: std::sort is __insertion_sort
	std::vector<long> x; for(long i = 0; i < n; ++i) x.push_back(rng.range(0, modulus - 1));
	if(rng.coin(name == "is_sorted" ? 60 : 15)) std::sort(x.begin(), x.end());
	long p1 = 0, p2 = 0, p3 = 0;
	if(name == "fill") { p1 = rng.range(0, n); p2 = rng.range(0, n - p1); p3 = rng.range(0, 9); }
	else if(name == "remove" || name == "find") { p1 = rng.range(0, modulus); }
	else if(name == "accumulate") { p1 = rng.range(0, 1000); }
	else if(name == "copy" || name == "transform") { p3 = rng.range(0, n); p1 = rng.range(0, n - p3); p2 = rng.range(0, n - p3); if(!(p2 <= p1 || p1 + p3 <= p2)) p2 = p1; }
	else if(name == "copy_backward") { p3 = rng.range(0, n); p1 = p3 + rng.range(0, n - p3); p2 = p3 + rng.range(0, n - p3); if(!(p1 <= p2 || p2 + p3 <= p1)) p2 = p1; }
	else if(name == "swap_ranges") { p3 = rng.range(0, n / 2); p1 = rng.range(0, n - p3); p2 = rng.range(0, n - p3); if(!(p1 + p3 <= p2 || p2 + p3 <= p1)) p3 = 0; }
	else if(name == "equal") { p3 = rng.range(0, n); p1 = rng.range(0, n - p3); p2 = rng.coin(40) ? p1 : rng.range(0, n - p3); }
	else if(name == "lexcmp") { long n1 = rng.range(0, n), n2 = rng.range(0, n); p1 = rng.range(0, n - n1); p2 = rng.coin(30) ? std::min(p1, n - n2) : rng.range(0, n - n2); p3 = n1 * 16 + n2; }
	std::string line = "x tr " + name + " " + std::to_string(p1) + " " + std::to_string(p2) + " " + std::to_string(p3) + " " + std::to_string(n);
	for(long v : x) line += " " + std::to_string(v);
	return line;
}

// C11: with the bounds-tracking pointer every dereference outside the roots' storage is counted; one line per program
static std::vector<std::pair<long, long>> g_roots;
static void report_oob() {
#if PTR_KIND == 2
	if(fancy::g_oob_deref != 0) { std::fprintf(fans, "OOB-DEREF %ld dereferences outside the storage\n", fancy::g_oob_deref); fancy::g_oob_deref = 0; }
#endif
}
#if PTR_KIND == 2
static bool in_roots(std::ptrdiff_t byte_off) {
	if(byte_off < 0) return false;
	long a = static_cast<long>(byte_off / static_cast<std::ptrdiff_t>(sizeof(VT)));
	for(auto const& r : g_roots) { if(a >= r.first && a < r.second) return true; }
	return false;
}
#endif

static void exec_line(std::string const& line) {
	std::fprintf(fprog, "%s\n", line.c_str()); std::fflush(fprog); std::fflush(fans);
	auto w = words_of(line);
	if(w.empty() || w[0] == "#") return;
	if(w[0] == "prog") { report_oob(); std::fprintf(fans, "%s\n", line.c_str()); reset_memory(); g_roots.clear(); return; }
	if(w[0] == "root") {
		int reg = std::stoi(w[1]); long base = std::stol(w[2]); int D = std::stoi(w[3]);
		std::vector<Ex> ex;
		for(int k = 0; k < D; ++k) ex.push_back(Ex{std::stol(w[4 + 2 * static_cast<std::size_t>(k)]), std::stol(w[5 + 2 * static_cast<std::size_t>(k)])});
		regs[static_cast<std::size_t>(reg)] = make_root_any(ex, make_ptr(base));
		long ne = 1; for(auto const& e : ex) ne *= e.size();
		g_roots.push_back(std::make_pair(base, base + ne));
		return;
	}
	if(w[0] == "v") { regs[static_cast<std::size_t>(std::stoi(w[1]))] = apply_any(regs[static_cast<std::size_t>(std::stoi(w[2]))], parse_op(w)); return; }
	if(w[0] == "x" && w[1] == "tr") { run_tr(w); return; }
	if(w[0] == "x" && w[1] == "algo") {
		std::string name = w[2]; bool elems = w[3] == "elems"; int ra = std::stoi(w[4]); int rb = std::stoi(w[5]);
		std::uint64_t dseed = std::strtoull(w[6].c_str(), nullptr, 10); long k1 = std::stol(w[7]); long k2 = std::stol(w[8]);
		std::visit([&](auto const& sa) {
			using SA = std::decay_t<decltype(sa)>;
			if constexpr(std::is_same_v<SA, VS<1>> || std::is_same_v<SA, VS<2>> || std::is_same_v<SA, VS<3>>) {
				SA const* sb = nullptr;
				if(rb >= 0) sb = &std::get<SA>(regs[static_cast<std::size_t>(rb)]);
				constexpr auto D = std::decay_t<decltype(mk(sa))>::rank_v;
				if(elems) run_case<D, true>(name, sa, sb, dseed, k1, k2); else run_case<D, false>(name, sa, sb, dseed, k1, k2);
			} else { std::fprintf(stderr, "harness: algo needs D in 1..3\n"); std::abort(); }
		}, regs[static_cast<std::size_t>(ra)]);
		return;
	}
}

// generation ----------------------------------------------------------------------------------------------------------
// whether the ordering algorithms can be instantiated on the rows of a D-dimensional view of the pointer kind under test
template<multi::dimensionality_type D> constexpr bool rows_orderable_v = orderable_v<decltype(std::declval<multi::subarray<VT, D, VPtr>&>().begin())>;
static bool rows_orderable(int D) { return D == 1 ? rows_orderable_v<1> : D == 2 ? rows_orderable_v<2> : rows_orderable_v<3>; }

static long alloc_root(long ne, Rng& rng) {
	long base = g_next + GUARD + rng.range(0, 5);
	g_next = base + ne + GUARD;
	if(g_next > NCELL - 16) { std::fprintf(stderr, "harness: storage exhausted\n"); std::abort(); }
	return base;
}
static void emit_root(int reg, long base, std::vector<long> const& n) {
	std::string rl = "root " + std::to_string(reg) + " " + std::to_string(base) + " " + std::to_string(n.size());
	for(long x : n) rl += " 0 " + std::to_string(x);
	exec_line(rl);
}
static void emit_v(int dst, int src, std::string const& name, std::vector<long> const& a = {}) { Op op; op.name = name; op.a = a; exec_line(op_line(dst, src, op)); }

// a view with sizes z embedded in a fresh root (offsets, stride factors, padding, permuted storage order): rows, columns,
// sub-blocks and strided views of arrays
static void build_embedded(std::vector<long> const& z, int rootreg, int viewreg, Rng& rng, bool plain) {
	int D = static_cast<int>(z.size());
	std::vector<int> sigma(static_cast<std::size_t>(D)); for(int k = 0; k < D; ++k) sigma[static_cast<std::size_t>(k)] = k;
	if(!plain) { for(int k = D - 1; k > 0; --k) { int j = static_cast<int>(rng.range(0, k)); std::swap(sigma[static_cast<std::size_t>(k)], sigma[static_cast<std::size_t>(j)]); } }
	std::vector<long> f(static_cast<std::size_t>(D)), a(static_cast<std::size_t>(D)), p(static_cast<std::size_t>(D)), n(static_cast<std::size_t>(D));
	for(int tries = 0;; ++tries) {
		long tot = 1;
		for(int j = 0; j < D; ++j) {
			auto J = static_cast<std::size_t>(j);
			bool small = plain || tries > 3;
			f[J] = small ? 1 : 1 + rng.pick({50, 32, 18}); a[J] = small ? 0 : rng.pick({50, 30, 20}); p[J] = small ? 0 : rng.pick({60, 40});
			n[J] = a[J] + z[static_cast<std::size_t>(sigma[J])] * f[J] + p[J];
			tot *= std::max<long>(n[J], 1);
		}
		if(tot <= 500 || tries > 3) break;
	}
	long ne = 1; for(long x : n) ne *= x;
	emit_root(rootreg, alloc_root(ne, rng), n);
	int cur = rootreg;
	for(int j = 0; j < D; ++j) {
		auto J = static_cast<std::size_t>(j);
		long zz = z[static_cast<std::size_t>(sigma[J])];
		if(ne != 0) {
			if(a[J] != 0 || p[J] != 0 || f[J] != 1) { emit_v(viewreg, cur, "sliced", {a[J], a[J] + zz * f[J]}); cur = viewreg; }
			if(f[J] != 1) { emit_v(viewreg, cur, "strided", {f[J]}); cur = viewreg; }
		}
		if(D > 1) { emit_v(viewreg, cur, "rotated"); cur = viewreg; }
	}
	std::vector<int> c = sigma;
	for(int pos = 0; pos < D; ++pos) {
		int i = pos; while(c[static_cast<std::size_t>(i)] != pos) ++i;
		while(i > pos) {
			int k = i - 1;
			for(int t = 0; t < k; ++t) { emit_v(viewreg, cur, "rotated"); cur = viewreg; }
			emit_v(viewreg, cur, "transposed"); cur = viewreg;
			for(int t = 0; t < k; ++t) { emit_v(viewreg, cur, "unrotated"); cur = viewreg; }
			std::swap(c[static_cast<std::size_t>(i - 1)], c[static_cast<std::size_t>(i)]); --i;
		}
	}
	if(cur == rootreg) { emit_v(viewreg, rootreg, "taked", {any_sizes(regs[static_cast<std::size_t>(rootreg)])[0]}); }
}

static void run_generated(std::uint64_t seed, long nprog) {
	Rng rng(seed);
	for(long p = 0; p < nprog; ++p) {
		exec_line("prog " + std::to_string(p) + " " + std::to_string(seed));
		g_next = 16 + rng.range(0, 9);
		int D = 1 + rng.pick({40, 38, 22});
		std::vector<long> z;
		long lead = (long[]){0, 1, 2, 3, 4, 5, 6, 8}[rng.pick({6, 8, 12, 16, 16, 16, 14, 12})];
		z.push_back(lead);
		long inner = 1;
		// inner extents >= 1: a row with no elements decays to an array with collapsed extents that compares unequal to the row
		// (the empty-operand corner that C07's statement sets aside), so value-based algorithms are not comparable there
		for(int k = 1; k < D; ++k) { long s = (long[]){1, 2, 3, 4}[rng.pick({18, 36, 30, 16})]; if(inner * std::max<long>(s, 1) > 12) s = 1; inner *= std::max<long>(s, 1); z.push_back(s); }
		int kindw = rng.pick({25, 60, 15});   // plain array | embedded view | random walk of view operations
		if(kindw == 2) {
			int RD = 1 + rng.pick({30, 40, 30});
			std::vector<long> n; long ne = 1; for(int k = 0; k < RD; ++k) { long s = rng.range(0, 5); n.push_back(s); ne *= s; }
			emit_root(0, alloc_root(ne, rng), n);
			int cur = 0; int nops = static_cast<int>(rng.range(1, 4));
			for(int k = 0; k < nops; ++k) { Op op; if(!gen_any(regs[static_cast<std::size_t>(cur)], rng, op, 3)) break; exec_line(op_line(1, cur, op)); cur = 1; }
			if(cur == 0) emit_v(1, 0, "taked", {any_sizes(regs[0])[0]});
			z = any_sizes(regs[1]);
			if(z.empty() || z.size() > 3) continue;
		} else { build_embedded(z, 0, 1, rng, kindw == 0); }
		build_embedded(z, 10, 11, rng, rng.coin(30));
		if(rng.coin(20)) {   // re-based operands (C19): the same index bases -3..3 (mixed signs included) on both views
			int RD = rank_of(regs[1]);
			if(RD >= 1) {
				int kk = static_cast<int>(rng.range(1, std::min<long>(RD, 3)));
				std::vector<long> b; for(int j = 0; j < kk; ++j) b.push_back(rng.range(-3, 3));
				bool both = rank_of(regs[11]) == RD && any_exts(regs[1]) == any_exts(regs[11]);
				emit_v(1, 1, "reindexed", b);
				if(both) emit_v(11, 11, "reindexed", b);
			}
		}
		bool same = rank_of(regs[1]) == rank_of(regs[11]) && any_exts(regs[1]) == any_exts(regs[11]);
		long n = any_sizes(regs[1])[0];
		long ne = any_num_elements(regs[1]);
		int ncases = static_cast<int>(rng.range(2, 5));
		for(int c = 0; c < ncases; ++c) {
			std::string name = ALGOS[rng.range(0, NALGOS - 1)];
			bool elems = rng.coin(40);
			if(ne == 0 && n != 0) elems = true;   // rows without elements: see above
			if(needs_b(name) && !same) continue;
			if(!elems && needs_order(name) && !rows_orderable(rank_of(regs[1]))) continue;   // see has_less above (C11 finding)
			long len = elems ? ne : n;
			long k1 = len == 0 ? 0 : rng.range(0, len);
			exec_line("x algo " + name + " " + (elems ? "elems" : "rows") + " 1 " + (needs_b(name) ? "11" : "-1") + " " + std::to_string(rng.next() % 100000) + " " + std::to_string(k1) + " " + std::to_string(rng.range(0, 50)));
		}
		{ int ntr = static_cast<int>(rng.range(1, 3)); for(int c = 0; c < ntr; ++c) exec_line(gen_tr(rng)); }
	}
}

static void run_replay(char const* path) {
	std::ifstream in(path); std::string line;
	reset_memory();
	while(std::getline(in, line)) exec_line(line);
}

int main(int argc, char** argv) {
	if(argc < 6) { std::fprintf(stderr, "usage: algos <seed> <nprograms> <all> <prog-out> <answers-out> [--replay file]\n"); return 2; }
	std::uint64_t seed = std::strtoull(argv[1], nullptr, 10);
	long nprog = std::strtol(argv[2], nullptr, 10);
	fprog = std::fopen(argv[4], "w"); fans = std::fopen(argv[5], "w");
	if(!fprog || !fans) { std::perror("fopen"); return 2; }
	// watchdog: a library change that makes a loop run away must end as a crash (reported, shrunk), not as a hang
	alarm((argc >= 8 && std::string(argv[6]) == "--replay") ? 20 : static_cast<unsigned>(60 + nprog / 200));
	g_store.assign(static_cast<std::size_t>(NCELL), 0); g_mem = g_store.data(); g_vr_origin = g_mem;
#if PTR_KIND != 0
	fancy::g_origin = g_mem;
#endif
#if PTR_KIND == 2
	fancy::g_in_bounds = &in_roots;
#endif
	reset_memory();
	if(argc >= 8 && std::string(argv[6]) == "--replay") run_replay(argv[7]); else run_generated(seed, nprog);
	report_oob();
	std::fclose(fprog); std::fclose(fans);
	return 0;
}
