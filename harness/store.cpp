// store.cpp — correspondence harness for C05 (assignment through views) and C07 (equality and ordering).
// Drives the real boost::multi templates (headers from /repo's working tree): pairs / triples of views of equal
// extents but different layouts (sub-blocks, strided, permuted axes, different roots, int and long elements, views /
// array_refs / owning arrays) are assigned, filled, swapped and compared; after every mutating operation the full
// contents of the storage around every root (guard cells included) are printed, and the rest of the storage is
// checked against its initial contents.  The Lean driver `mmdrv_store` predicts the same lines from the model.
//
// usage: store <seed> <nprograms> <mode: c05|c07> <prog-out> <answers-out> [--replay <prog-file>]
//
// One address space: addresses [0, 4096) are `VT` (int) cells, [4096, 8192) are `long` cells; cell a initially holds
// (a*7 + 3) mod 11.  Every `prog` line resets the storage.  -DTRACKED: VT is a type whose move assignment leaves -1 in
// the source (observes "moving from a view moves from exactly the viewed elements").
#ifdef TRACKED
struct Cell {
	int v = 0;
	Cell() = default;
	Cell(int x) : v(x) {}  // NOLINT
	Cell(Cell const&) = default;
	Cell(Cell&& o) noexcept : v(o.v) { o.v = -1; }
	Cell& operator=(Cell const&) = default;
	Cell& operator=(Cell&& o) noexcept { int t = o.v; o.v = -1; v = t; return *this; }
	friend bool operator==(Cell const& a, Cell const& b) { return a.v == b.v; }
	friend bool operator!=(Cell const& a, Cell const& b) { return a.v != b.v; }
	friend bool operator<(Cell const& a, Cell const& b) { return a.v < b.v; }
	friend bool operator>(Cell const& a, Cell const& b) { return a.v > b.v; }
	friend bool operator<=(Cell const& a, Cell const& b) { return a.v <= b.v; }
	friend bool operator>=(Cell const& a, Cell const& b) { return a.v >= b.v; }
};
#define VR_ELEMENT
using VT = Cell;
static long val_of(Cell const& c) { return c.v; }
#endif
#include "common/viewreg.hpp"

#include <fstream>
#include <new>
#include <unistd.h>
#include <initializer_list>

static long val_of(int x) { return x; }
static long val_of(long x) { return x; }

constexpr long NCELL = 4096;
constexpr long LOFF = NCELL / 2;   // offset, in longs, of the long cells from the origin
constexpr long GUARD = 8;

// one allocation: NCELL cells of VT (4 bytes each) followed by NCELL cells of long, so that both element spaces are
// addressable as typed offsets from one origin (what fancy::xptr needs)
static VT* g_mem = nullptr;
static long* g_lmem = nullptr;
static_assert(sizeof(VT) == 4, "layout of the shared buffer");
static FILE* fprog = nullptr;
static FILE* fans = nullptr;
static int g_internal = 0;
static void internal(char const* what) { ++g_internal; std::fprintf(fans, "INTERNAL %s\n", what); }

static long init_cell(long a) { return (a * 7 + 3) % 11; }
static void reset_memory() {
	for(long a = 0; a < NCELL; ++a) { g_mem[a] = VT(static_cast<int>(init_cell(a))); g_lmem[a] = init_cell(a + NCELL); }
}

struct Reg { AnyView v; bool is_long = false; bool is_root = false; };
static std::vector<Reg> regs(64);
struct Win { long lo, hi; };
static std::vector<Win> g_wins;
static std::vector<Win> g_roots;   // the storages proper (no guard cells): what a bounds-tracking pointer may dereference

// pointer to long cell `local` in the pointer kind under test
#if PTR_KIND == 0
static long* lptr(long local) { return g_lmem + local; }
#else
static fancy::xptr<long> lptr(long local) { return fancy::xptr<long>::at(LOFF + local); }
#endif
template<multi::dimensionality_type D> auto mkl(VS<D> const& s) { return multi::subarray<long, D, PtrOf<long>>(s.lay, lptr(off_of(s.base))); }

// the operand in the form the protocol names: v = view, c = view through pointer-to-const, r = array_ref over the whole root,
// a = owning array holding a copy of the view
template<multi::dimensionality_type D, class F> void with_operand(char form, bool is_long, VS<D> const& s, F&& f) {
	if constexpr(D == 0) { auto v = mk(s); f(v); return; }
	else if constexpr(D > 4) { std::fprintf(stderr, "harness: D > 4 operand\n"); std::abort(); }
	else {
		if(!is_long) {
			switch(form) {
				case 'v': { auto v = mk(s); f(v); return; }
				case 'c': { multi::subarray<VT, D, PtrOf<VT const>> c(s.lay, s.base); f(c); return; }
				case 'r': { multi::array_ref<VT, D, VPtr> r(s.base, mk(s).extensions()); f(r); return; }
				case 'a': { multi::array<VT, D> a = mk(s); f(a); return; }
				default: break;
			}
		} else {
#ifndef TRACKED
			switch(form) {
				case 'v': { auto v = mkl(s); f(v); return; }
				case 'r': { multi::array_ref<long, D, PtrOf<long>> r(lptr(off_of(s.base)), mk(s).extensions()); f(r); return; }
				case 'a': { multi::array<long, D> a = mkl(s); f(a); return; }
				default: break;
			}
#endif
		}
		std::fprintf(stderr, "harness: bad operand form %c\n", form); std::abort();
	}
}

template<class F> void visit2(Reg const& a, Reg const& b, F&& f) {
	std::visit([&](auto const& sa) {
		std::visit([&](auto const& sb) {
			using SA = std::decay_t<decltype(sa)>; using SB = std::decay_t<decltype(sb)>;
			if constexpr(std::is_same_v<SA, SB>) { f(sa, sb); }
			else { std::fprintf(stderr, "harness: operands of different dimensionality\n"); std::abort(); }
		}, b.v);
	}, a.v);
}

// reference values: the elements of x in canonical index order, read through chained brackets
template<class X> std::vector<long> flat_values(X const& x) {
	std::vector<long> r;
	auto idxs = box(exts_of(x));
	for(auto const& idx : idxs) r.push_back(val_of(*addr_bracket(x, idx.data())));
	return r;
}
// lexicographic order over the leading dimension, recursively, on (sizes, canonical values)
static bool nested_lt(std::vector<long> const& sa, long const* va, std::vector<long> const& sb, long const* vb, std::size_t k) {
	if(k == sa.size()) return *va < *vb;
	long ra = 1, rb = 1;
	for(std::size_t j = k + 1; j < sa.size(); ++j) { ra *= sa[j]; rb *= sb[j]; }
	long n = std::min(sa[k], sb[k]);
	for(long i = 0; i < n; ++i) {
		if(nested_lt(sa, va + i * ra, sb, vb + i * rb, k + 1)) return true;
		if(nested_lt(sb, vb + i * rb, sa, va + i * ra, k + 1)) return false;
	}
	return sa[k] < sb[k];
}

template<class A, class B> void do_compare(std::string const& op, A const& a, B const& b) {
	constexpr auto D = A::rank_v;
	constexpr bool same_ptr = std::is_same_v<typename A::element_ptr, typename B::element_ptr>;
	bool have = false, res = false;
	if(op == "eq") { res = (a == b); have = true; }
	else if(op == "ne") { res = (a != b); have = true; }
	if constexpr(same_ptr) {
		if(op == "lt") { res = (a < b); have = true; }
		else if(op == "gt") { res = (a > b); have = true; }
		else if(op == "le") { res = (a <= b); have = true; }
		if constexpr(D <= 1) { if(op == "ge") { res = (a >= b); have = true; } }
	}
	if(!have) { std::fprintf(fans, "%s none\n", op.c_str()); return; }
	std::fprintf(fans, "%s %d\n", op.c_str(), res ? 1 : 0);
	// independent reference on plain values (non-empty operands only: for empty ones only ==/!= consistency is required)
	auto sa = sizes_of(a), sb = sizes_of(b);
	auto va = flat_values(a), vb = flat_values(b);
	if(!va.empty() && !vb.empty()) {
		bool req = (exts_of(a) == exts_of(b)) && (va == vb);   // same extents (index bases included) and same elements
		bool rlt = nested_lt(sa, va.data(), sb, vb.data(), 0), rgt = nested_lt(sb, vb.data(), sa, va.data(), 0);
		bool want = op == "eq" ? req : op == "ne" ? !req : op == "lt" ? rlt : op == "gt" ? rgt : op == "le" ? (rlt || req) : (rgt || req);
		if(want != res) std::fprintf(fans, "REF-MISMATCH %s impl=%d reference=%d\n", op.c_str(), res ? 1 : 0, want ? 1 : 0);
	}
}

static long uaddr(Reg const& r, VT const* p) { return static_cast<long>(p - g_mem) + (r.is_long ? NCELL : 0); }

// queries ----------------------------------------------------------------------------------------------------------
template<multi::dimensionality_type D> void q_shape(VS<D> const& s) {
	auto&& v = mk(s);
	auto ex = exts_of(v); auto sz = sizes_of(v); auto st = strides_of(v);
	long ne = static_cast<long>(v.num_elements());
	std::string e, t;
	for(std::size_t k = 0; k < ex.size(); ++k) { if(k) { e += ' '; t += ' '; } e += std::to_string(ex[k].first) + ":" + std::to_string(ex[k].last); t += (ne != 0 && sz[k] >= 2) ? std::to_string(st[k]) : std::string("_"); }
	bool empty = false;
	if constexpr(D > 0) { empty = v.is_empty(); }
	std::fprintf(fans, "shape %d | %s | %s | %ld %d | %s\n", static_cast<int>(D), e.c_str(), join(sz).c_str(), ne, empty ? 1 : 0, t.c_str());
}

static void q_mem(long lo, long hi) {
	std::vector<long> c;
	for(long a = lo; a < hi; ++a) {
		if(a >= 0 && a < NCELL) c.push_back(val_of(g_mem[a]));
		else if(a >= NCELL && a < 2 * NCELL) c.push_back(g_lmem[a - NCELL]);
		else c.push_back(init_cell(a));
	}
	std::fprintf(fans, "mem %ld : %s\n", lo, join(c).c_str());
}

static void q_rest() {
	std::string bad; int nbad = 0;
	for(long a = 0; a < 2 * NCELL; ++a) {
		bool in = false;
		for(auto const& w : g_wins) { if(a >= w.lo && a < w.hi) { in = true; break; } }
		if(in) continue;
		long v = a < NCELL ? val_of(g_mem[a]) : g_lmem[a - NCELL];
		if(v != init_cell(a)) { if(nbad++ < 8) bad += " " + std::to_string(a) + "=" + std::to_string(v); }
	}
	if(nbad == 0) std::fprintf(fans, "rest ok\n"); else std::fprintf(fans, "rest CHANGED%s\n", bad.c_str());
}

// mutating operations ----------------------------------------------------------------------------------------------
template<class V, class S> void check_same(V const& v, S const& s) {
	if(!(v.layout() == s.lay)) internal("layout of the destination changed");
}

static void x_assign(char fd, int rd, char fs, int rs) {
	Reg const& D = regs[static_cast<std::size_t>(rd)]; Reg const& S = regs[static_cast<std::size_t>(rs)];
	visit2(D, S, [&](auto const& sd, auto const& ss) {
		using SD = std::decay_t<decltype(sd)>;
		if constexpr(std::is_same_v<SD, VS<0>> || std::is_same_v<SD, VS<5>> || std::is_same_v<SD, VS<6>>) { std::fprintf(stderr, "harness: assign on D=0 or D>4\n"); std::abort(); }
		else {
			auto with_src = [&](auto& dst) {
				if(rd == rs && fd == 'v' && fs == 'v') { auto& same = dst; dst = same; return; }   // self-assignment: the same object
				with_operand(fs, S.is_long, ss, [&](auto& src) { dst = src; });
			};
			if(!D.is_long) {
				if(fd == 'v') { auto v = mk(sd); auto b0 = v.base(); with_src(v); if(v.base() != b0) internal("base of the destination changed"); check_same(v, sd); }
				else if(fd == 'r') { multi::array_ref<VT, std::decay_t<decltype(mk(sd))>::rank_v, VPtr> r(sd.base, mk(sd).extensions()); auto b0 = r.data_elements(); auto x0 = r.extensions(); with_src(r); if(r.data_elements() != b0 || !(r.extensions() == x0)) internal("array_ref changed"); }
				else { std::abort(); }
			} else {
#ifndef TRACKED
				if(fd == 'v') { auto v = mkl(sd); auto b0 = v.base(); with_src(v); if(v.base() != b0) internal("base of the destination changed"); check_same(v, sd); }
				else { std::abort(); }
#endif
			}
		}
	});
	std::fprintf(fans, "ok\n");
}

// d (op) s for two plain views of the same element type
template<class F> void both_views(int rd, int rs, F&& f) {
	Reg const& D = regs[static_cast<std::size_t>(rd)]; Reg const& S = regs[static_cast<std::size_t>(rs)];
	visit2(D, S, [&](auto const& sd, auto const& ss) {
		using SD = std::decay_t<decltype(sd)>;
		if constexpr(std::is_same_v<SD, VS<0>> || std::is_same_v<SD, VS<5>> || std::is_same_v<SD, VS<6>>) { std::abort(); }
		else {
			if(D.is_long != S.is_long) { std::fprintf(stderr, "harness: element types differ\n"); std::abort(); }
			if(!D.is_long) { auto d = mk(sd); auto s = mk(ss); f(d, s); check_same(d, sd); check_same(s, ss); }
#ifndef TRACKED
			else { auto d = mkl(sd); auto s = mkl(ss); f(d, s); check_same(d, sd); check_same(s, ss); }
#endif
		}
	});
	std::fprintf(fans, "ok\n");
}

template<class V, class T> void assign_ilist(V& v, std::vector<T> const& x) {
	switch(x.size()) {
		case 0: { std::initializer_list<T> il = {}; v = il; break; }
		case 1: { std::initializer_list<T> il = {x[0]}; v = il; break; }
		case 2: { std::initializer_list<T> il = {x[0], x[1]}; v = il; break; }
		case 3: { std::initializer_list<T> il = {x[0], x[1], x[2]}; v = il; break; }
		case 4: { std::initializer_list<T> il = {x[0], x[1], x[2], x[3]}; v = il; break; }
		case 5: { std::initializer_list<T> il = {x[0], x[1], x[2], x[3], x[4]}; v = il; break; }
		case 6: { std::initializer_list<T> il = {x[0], x[1], x[2], x[3], x[4], x[5]}; v = il; break; }
		default: std::fprintf(stderr, "harness: initializer list too long\n"); std::abort();
	}
}

template<class E, class V> void x_vals_1d(std::string const& cmd, V& v, std::vector<long> const& vals) {
	std::vector<E> x; for(long t : vals) x.push_back(E(static_cast<int>(t)));
	if(cmd == "ilist") assign_ilist(v, x);
	else if(cmd == "range") { v = x; }
	else if(cmd == "assign1") { v.assign(x.begin()); }
	// (assign(first, last) exists only in the 1-D const base class, is hidden by subarray::assign(first) and does not compile for a mutable view)
	else if(cmd == "fill") { v.fill(x.at(0)); }
}

static void x_vals(std::string const& cmd, int rd, std::vector<long> const& vals) {
	Reg const& D = regs[static_cast<std::size_t>(rd)];
	std::visit([&](auto const& sd) {
		using SD = std::decay_t<decltype(sd)>;
		if constexpr(std::is_same_v<SD, VS<1>>) {
			if(!D.is_long) { auto v = mk(sd); x_vals_1d<VT>(cmd, v, vals); check_same(v, sd); }
#ifndef TRACKED
			else { auto v = mkl(sd); x_vals_1d<long>(cmd, v, vals); check_same(v, sd); }
#endif
		} else { std::fprintf(stderr, "harness: %s needs a 1-D view\n", cmd.c_str()); std::abort(); }
	}, D.v);
	std::fprintf(fans, "ok\n");
}

template<class E, multi::dimensionality_type D, class V> void x_rows_typed(bool as_range, V& v, VS<D> const& sd, long nrows, long rowlen, std::vector<long> const& vals) {
	if(as_range) {
		if constexpr(D == 2) {
			std::vector<std::vector<E>> vv;
			for(long r = 0; r < nrows; ++r) { std::vector<E> row; for(long k = 0; k < rowlen; ++k) row.push_back(E(static_cast<int>(vals[static_cast<std::size_t>(r * rowlen + k)]))); vv.push_back(row); }
			v = vv;
		} else { std::abort(); }
	} else {
		using Row = multi::array<E, D - 1>;
		std::vector<Row> rows;
		for(long r = 0; r < nrows; ++r) {
			Row row(sd.lay.sub().extensions());
			if(static_cast<long>(row.num_elements()) != rowlen) { std::fprintf(stderr, "harness: row length\n"); std::abort(); }
			for(long k = 0; k < rowlen; ++k) row.data_elements()[k] = E(static_cast<int>(vals[static_cast<std::size_t>(r * rowlen + k)]));
			rows.push_back(std::move(row));
		}
		assign_ilist(v, rows);
	}
}

static void x_rows(bool as_range, int rd, long nrows, long rowlen, std::vector<long> const& vals) {
	Reg const& D = regs[static_cast<std::size_t>(rd)];
	std::visit([&](auto const& sd) {
		using SD = std::decay_t<decltype(sd)>;
		if constexpr(std::is_same_v<SD, VS<2>> || std::is_same_v<SD, VS<3>> || std::is_same_v<SD, VS<4>>) {
			if(!D.is_long) { auto v = mk(sd); x_rows_typed<VT>(as_range, v, sd, nrows, rowlen, vals); check_same(v, sd); }
#ifndef TRACKED
			else { auto v = mkl(sd); x_rows_typed<long>(as_range, v, sd, nrows, rowlen, vals); check_same(v, sd); }
#endif
		} else { std::fprintf(stderr, "harness: rows needs D in 2..4\n"); std::abort(); }
	}, D.v);
	std::fprintf(fans, "ok\n");
}

// C11: with the bounds-tracking pointer every dereference outside the roots' storage is counted; one line per program
static void report_oob() {
#if PTR_KIND == 2
	if(fancy::g_oob_deref != 0) { std::fprintf(fans, "OOB-DEREF %ld dereferences outside the storage\n", fancy::g_oob_deref); fancy::g_oob_deref = 0; }
#endif
}
#if PTR_KIND == 2
static bool in_roots(std::ptrdiff_t byte_off) {
	long a = byte_off < NCELL * 4 ? static_cast<long>(byte_off / 4) : NCELL + static_cast<long>((byte_off - NCELL * 4) / 8);
	if(byte_off < 0) return false;
	for(auto const& r : g_roots) { if(a >= r.lo && a < r.hi) return true; }
	return false;
}
#endif

// executes one protocol line on the real library (generation and replay share this) --------------------------------
static void exec_line(std::string const& line) {
	std::fprintf(fprog, "%s\n", line.c_str()); std::fflush(fprog); std::fflush(fans);   // a crash must leave the offending line on disk
	auto w = words_of(line);
	if(w.empty() || w[0] == "#") return;
	if(w[0] == "prog") { report_oob(); std::fprintf(fans, "%s\n", line.c_str()); reset_memory(); g_wins.clear(); g_roots.clear(); return; }
	if(w[0] == "root") {
		int reg = std::stoi(w[1]); long base = std::stol(w[2]); int D = std::stoi(w[3]);
		std::vector<Ex> ex; long ne = 1;
		for(int k = 0; k < D; ++k) { ex.push_back(Ex{std::stol(w[4 + 2 * static_cast<std::size_t>(k)]), std::stol(w[5 + 2 * static_cast<std::size_t>(k)])}); ne *= ex.back().size(); }
		Reg r; r.is_long = base >= NCELL; r.is_root = true;
		r.v = make_root_any(ex, make_ptr(base - (r.is_long ? NCELL : 0)));
		g_roots.push_back(Win{base, base + ne});
		regs[static_cast<std::size_t>(reg)] = r;
		g_wins.push_back(Win{base - GUARD, base + ne + GUARD});
		return;
	}
	if(w[0] == "v") {
		int dst = std::stoi(w[1]); int src = std::stoi(w[2]);
		Op op = parse_op(w);
		Reg r = regs[static_cast<std::size_t>(src)];
		r.v = apply_any(r.v, op); r.is_root = false;
		regs[static_cast<std::size_t>(dst)] = r;
		return;
	}
	if(w[0] == "x") {
		auto const& c = w[1];
		auto opnd = [&](std::string const& s, char& f, int& r) { f = s[0]; r = std::stoi(s.substr(1)); };
		if(c == "assign") { char fd, fs; int rd, rs; opnd(w[2], fd, rd); opnd(w[3], fs, rs); x_assign(fd, rd, fs, rs); return; }
		if(c == "assignmv" || c == "elems" || c == "emoved" || c == "emovedt" || c == "swap" || c == "eswap") {
			char fd, fs; int rd, rs; opnd(w[2], fd, rd); opnd(w[3], fs, rs);
			if(c == "assignmv") both_views(rd, rs, [](auto& d, auto& s) { d = std::move(s); });
			else if(c == "elems") both_views(rd, rs, [](auto& d, auto& s) { d.elements() = s.elements(); });
			else if(c == "emoved" || c == "emovedt") both_views(rd, rs, [](auto& d, auto& s) { d = s.element_moved(); });
			else if(c == "swap") both_views(rd, rs, [](auto& d, auto& s) { swap(std::move(d), std::move(s)); });
			else both_views(rd, rs, [](auto& d, auto& s) { d.elements().swap(s.elements()); });
			return;
		}
		if(c == "set") {
			long a = std::stol(w[2]); long v = std::stol(w[3]);
			if(a < NCELL) g_mem[a] = VT(static_cast<int>(v)); else g_lmem[a - NCELL] = v;
			std::fprintf(fans, "ok\n"); return;
		}
		if(c == "assign0") {
			Reg const& D = regs[static_cast<std::size_t>(std::stoi(w[2]))]; long v = std::stol(w[3]);
			auto const& s0 = std::get<VS<0>>(D.v);
			multi::const_subarray<VT, 0, VPtr> cs(s0.lay, s0.base);
			cs = VT(static_cast<int>(v));
			std::fprintf(fans, "ok\n"); return;
		}
		if(c == "aref0") {
			auto const& d0 = std::get<VS<0>>(regs[static_cast<std::size_t>(std::stoi(w[2]))].v); auto const& s0 = std::get<VS<0>>(regs[static_cast<std::size_t>(std::stoi(w[3]))].v);
			multi::array_ref<VT, 0, VPtr> rd(d0.base, {}); multi::array_ref<VT, 0, VPtr> rs(s0.base, {});
			rd = rs;
			std::fprintf(fans, "ok\n"); return;
		}
		if(c == "fill" || c == "ilist" || c == "range" || c == "assign1") {
			std::vector<long> vals; for(std::size_t k = 3; k < w.size(); ++k) vals.push_back(std::stol(w[k]));
			x_vals(c, std::stoi(w[2]), vals); return;
		}
		if(c == "rows" || c == "rrows") {
			std::vector<long> vals; for(std::size_t k = 5; k < w.size(); ++k) vals.push_back(std::stol(w[k]));
			x_rows(c == "rrows", std::stoi(w[2]), std::stol(w[3]), std::stol(w[4]), vals); return;
		}
		std::fprintf(stderr, "harness: unknown x command %s\n", c.c_str()); std::abort();
	}
	if(w[0] == "q") {
		if(w[1] == "mem") { q_mem(std::stol(w[2]), std::stol(w[3])); return; }
		if(w[1] == "rest") { q_rest(); return; }
		if(w[1] == "shape") { std::visit([](auto const& s) { q_shape(s); }, regs[static_cast<std::size_t>(std::stoi(w[2]))].v); return; }
		char fa = w[2][0], fb = w[3][0]; int ra = std::stoi(w[2].substr(1)), rb = std::stoi(w[3].substr(1));
		Reg const& A = regs[static_cast<std::size_t>(ra)]; Reg const& B = regs[static_cast<std::size_t>(rb)];
		visit2(A, B, [&](auto const& sa, auto const& sb) {
			using SA = std::decay_t<decltype(sa)>;
			if constexpr(std::is_same_v<SA, VS<5>> || std::is_same_v<SA, VS<6>>) { std::abort(); }
			else { with_operand(fa, A.is_long, sa, [&](auto& a) { with_operand(fb, B.is_long, sb, [&](auto& b) { do_compare(w[1], a, b); }); }); }
		});
		return;
	}
}

// generation ----------------------------------------------------------------------------------------------------------
static long g_next[2];  // bump allocators of the two element spaces (local addresses)
static long alloc_root(bool is_long, long ne, Rng& rng) {
	long& n = g_next[is_long ? 1 : 0];
	long base = n + GUARD + rng.range(0, 5);
	n = base + ne + GUARD;
	if(n > NCELL - 16) { std::fprintf(stderr, "harness: storage exhausted\n"); std::abort(); }
	return base + (is_long ? NCELL : 0);
}

static void emit_root(int reg, long base, std::vector<long> const& n) {
	std::string rl = "root " + std::to_string(reg) + " " + std::to_string(base) + " " + std::to_string(n.size());
	for(long x : n) rl += " 0 " + std::to_string(x);
	exec_line(rl);
}
static void emit_v(int dst, int src, std::string const& name, std::vector<long> const& a = {}) {
	Op op; op.name = name; op.a = a; exec_line(op_line(dst, src, op));
}

// the whole of src as a view in dst (taked(size()) is the identity)
static void emit_whole(int dst, int src) { emit_v(dst, src, "taked", {any_sizes(regs[static_cast<std::size_t>(src)].v)[0]}); }

static long pick_size(Rng& rng) { return (long[]){0, 1, 2, 3, 4, 5}[rng.pick({6, 14, 26, 24, 18, 12})]; }

static std::vector<long> pick_sizes(Rng& rng, int D, long cap) {
	std::vector<long> z; long ne = 1;
	for(int k = 0; k < D; ++k) { long s = pick_size(rng); if(ne * std::max<long>(s, 1) > cap) s = (ne * 2 <= cap) ? 2 : 1; ne *= std::max<long>(s, 1); z.push_back(s); }
	return z;
}

// a view with sizes z embedded in a fresh root: per axis an offset, a stride factor and padding; axes stored in a random
// order and brought back by rotated/transposed/unrotated.  Leaves the root in `rootreg` and the view in `viewreg`.
static void build_embedded(std::vector<long> const& z, bool is_long, int rootreg, int viewreg, Rng& rng, bool plain) {
	int D = static_cast<int>(z.size());
	std::vector<int> sigma(static_cast<std::size_t>(D)); for(int k = 0; k < D; ++k) sigma[static_cast<std::size_t>(k)] = k;
	if(!plain) { for(int k = D - 1; k > 0; --k) { int j = static_cast<int>(rng.range(0, k)); std::swap(sigma[static_cast<std::size_t>(k)], sigma[static_cast<std::size_t>(j)]); } }
	std::vector<long> f(static_cast<std::size_t>(D)), a(static_cast<std::size_t>(D)), p(static_cast<std::size_t>(D)), n(static_cast<std::size_t>(D));
	for(int tries = 0;; ++tries) {
		long tot = 1;
		for(int j = 0; j < D; ++j) {
			auto J = static_cast<std::size_t>(j);
			bool small = plain || tries > 3;
			f[J] = small ? 1 : 1 + rng.pick({50, 32, 18}); a[J] = small ? 0 : rng.pick({50, 30, 20}); p[J] = small ? 0 : rng.pick({60, 40});
			n[J] = a[J] + z[static_cast<std::size_t>(sigma[J])] * f[J] + p[J];
			tot *= std::max<long>(n[J], 1);
		}
		if(tot <= 360 || tries > 3) break;
	}
	long ne = 1; for(long x : n) ne *= x;
	emit_root(rootreg, alloc_root(is_long, ne, rng), n);
	int cur = rootreg;
	for(int j = 0; j < D; ++j) {
		auto J = static_cast<std::size_t>(j);
		long zz = z[static_cast<std::size_t>(sigma[J])];
		if(ne != 0) {   // an empty root reports every extension as [0,0): nothing to slice
			if(a[J] != 0 || p[J] != 0 || f[J] != 1 || rng.coin(15)) { emit_v(viewreg, cur, "sliced", {a[J], a[J] + zz * f[J]}); cur = viewreg; }
			if(f[J] != 1) { emit_v(viewreg, cur, "strided", {f[J]}); cur = viewreg; }
		}
		if(D > 1) { emit_v(viewreg, cur, "rotated"); cur = viewreg; }
	}
	// sort the axes: adjacent transposition (k, k+1) = rotated^k ; transposed ; unrotated^k
	std::vector<int> c = sigma;
	for(int pos = 0; pos < D; ++pos) {
		int i = pos; while(c[static_cast<std::size_t>(i)] != pos) ++i;
		while(i > pos) {
			int k = i - 1;
			for(int t = 0; t < k; ++t) { emit_v(viewreg, cur, "rotated"); cur = viewreg; }
			emit_v(viewreg, cur, "transposed"); cur = viewreg;
			for(int t = 0; t < k; ++t) { emit_v(viewreg, cur, "unrotated"); cur = viewreg; }
			std::swap(c[static_cast<std::size_t>(i - 1)], c[static_cast<std::size_t>(i)]); --i;
		}
	}
	if(cur == rootreg) { emit_whole(viewreg, rootreg); }
}

static void emit_mem_queries() {
	for(auto const& w : g_wins) exec_line("q mem " + std::to_string(w.lo) + " " + std::to_string(w.hi));
	exec_line("q rest");
}

static bool same_shape(int ra, int rb) {
	auto const& A = regs[static_cast<std::size_t>(ra)]; auto const& B = regs[static_cast<std::size_t>(rb)];
	return rank_of(A.v) == rank_of(B.v) && any_exts(A.v) == any_exts(B.v);
}

static std::string vals_str(Rng& rng, long n) { std::string s; for(long k = 0; k < n; ++k) { s += " " + std::to_string(rng.range(0, 12) + 20); } return s; }

// unified address of a random element of the view in reg (or -1 if it has none)
static long random_element_addr(int reg, Rng& rng) {
	Reg const& R = regs[static_cast<std::size_t>(reg)];
	return std::visit([&](auto const& s) -> long {
		auto&& v = mk(s);
		auto idxs = box(exts_of(v));
		if(idxs.empty()) return -1;
		auto const& idx = idxs[static_cast<std::size_t>(rng.range(0, static_cast<long>(idxs.size()) - 1))];
#ifndef TRACKED
		if(R.is_long) { using SS = std::decay_t<decltype(s)>; if constexpr(!std::is_same_v<SS, VS<5>> && !std::is_same_v<SS, VS<6>>) { auto lv = mkl(s); return static_cast<long>(addr_bracket(lv, idx.data()) - g_lmem) + NCELL; } }
#endif
		return uaddr(R, addr_bracket(v, idx.data()));
	}, R.v);
}
static long cell_value(long a) { return a < NCELL ? val_of(g_mem[a]) : g_lmem[a - NCELL]; }

static char src_form(Rng& rng, Reg const& S) {
	if(any_num_elements(S.v) == 0) return 'v';   // an owning copy of an empty view has collapsed extensions: not assignable to the view's shape
	if(S.is_long) return rng.coin(75) ? 'v' : 'a';
	return "vca"[rng.pick({55, 22, 23})];
}

// mutating operations between a destination view (reg d) and a source view (reg s) of equal extents
static void gen_mutations(int d, int s, Rng& rng, bool disjoint_ok) {
	Reg const& D = regs[static_cast<std::size_t>(d)]; Reg const& S = regs[static_cast<std::size_t>(s)];
	int dim = rank_of(D.v);
	auto sz = any_sizes(D.v);
	long ne = any_num_elements(D.v);
	bool same_type = D.is_long == S.is_long;
	int nops = static_cast<int>(rng.range(1, 3));
	for(int k = 0; k < nops; ++k) {
		int c = rng.pick({30, 8, 10, 8, 10, 8, 6, 5, 5, 4, 6, 4, 3});
		std::string ds = "v" + std::to_string(d), ss = "v" + std::to_string(s);
		bool done = true;
		switch(c) {
			case 0: exec_line(std::string("x assign ") + ds + " " + src_form(rng, S) + std::to_string(s)); break;
			case 1: if(same_type) exec_line("x assignmv " + ds + " " + ss); else done = false; break;
			case 2: if(same_type) exec_line("x elems " + ds + " " + ss); else done = false; break;
			case 3: if(same_type) {
#ifdef TRACKED
				exec_line("x emovedt " + ds + " " + ss);
#else
				exec_line("x emoved " + ds + " " + ss);
#endif
				} else done = false; break;
			case 4: if(same_type) exec_line("x swap " + ds + " " + ss); else done = false; break;
			case 5: if(same_type) exec_line("x eswap " + ds + " " + ss); else done = false; break;
			case 6: if(dim == 1) exec_line("x fill " + std::to_string(d) + " " + std::to_string(rng.range(20, 40))); else done = false; break;
			case 7: if(dim == 1 && sz[0] <= 6) exec_line("x ilist " + std::to_string(d) + vals_str(rng, sz[0])); else done = false; break;
			case 8: if(dim == 1) exec_line("x range " + std::to_string(d) + vals_str(rng, sz[0])); else done = false; break;
			case 9: if(dim == 1) exec_line("x assign1 " + std::to_string(d) + vals_str(rng, sz[0])); else done = false; break;
			case 10: { long rowlen = 1; for(std::size_t j = 1; j < sz.size(); ++j) rowlen *= sz[j];
				// (a row array with no elements has collapsed extensions and is not assignable to a row of another empty shape)
				if(dim >= 2 && dim <= 4 && sz[0] <= 6 && rowlen > 0) exec_line("x rows " + std::to_string(d) + " " + std::to_string(sz[0]) + " " + std::to_string(rowlen) + vals_str(rng, sz[0] * rowlen)); else done = false; break; }
			case 11: if(dim == 2) exec_line("x rrows " + std::to_string(d) + " " + std::to_string(sz[0]) + " " + std::to_string(sz[1]) + vals_str(rng, sz[0] * sz[1])); else done = false; break;
			case 12: exec_line("x assign " + ds + " " + ds); break;   // self-assignment
			default: done = false; break;
		}
		(void)disjoint_ok; (void)ne;
		if(done) emit_mem_queries(); else --k;
	}
}

static void gen_zero_d(Rng& rng, bool compare_only) {
	// two 0-D views: elements of two small arrays
	for(int t = 0; t < 2; ++t) {
		int D = 1 + rng.pick({60, 40});
		std::vector<long> n; long ne = 1; for(int k = 0; k < D; ++k) { n.push_back(rng.range(1, 4)); ne *= n.back(); }
		int root = t * 10, view = t * 10 + 1;
		emit_root(root, alloc_root(false, ne, rng), n);
		int cur = root;
		for(int k = 0; k < D; ++k) { emit_v(view, cur, "index", {rng.range(0, n[static_cast<std::size_t>(k)] - 1)}); cur = view; }
	}
	exec_line("q shape 1");
	auto cmp = [&] { for(char const* op : {"eq", "ne", "lt", "gt", "le", "ge"}) { exec_line(std::string("q ") + op + " v1 v11"); exec_line(std::string("q ") + op + " v11 v1"); } exec_line("q eq v1 v1"); exec_line("q lt v1 v1"); };
	if(compare_only || rng.coin(50)) cmp();
	int nops = static_cast<int>(rng.range(1, 3));
	for(int k = 0; k < nops; ++k) {
		if(rng.coin(50)) exec_line("x assign0 1 " + std::to_string(rng.range(0, 10))); else exec_line("x aref0 1 11");
		emit_mem_queries();
		if(rng.coin(60)) cmp();
	}
}

// the same index bases (-3..3, mixed signs included) on both operands: extents stay equal, both become re-based views (C19)
static void maybe_rebase_pair(int ra, int rb, Rng& rng, int pct) {
	if(!rng.coin(pct)) return;
	int D = rank_of(regs[static_cast<std::size_t>(ra)].v);
	if(D < 1 || D != rank_of(regs[static_cast<std::size_t>(rb)].v)) return;
	int k = static_cast<int>(rng.range(1, std::min<long>(D, 3)));
	std::vector<long> b; for(int j = 0; j < k; ++j) b.push_back(rng.range(-3, 3));
	emit_v(ra, ra, "reindexed", b);
	emit_v(rb, rb, "reindexed", b);
}

static void gen_c05(Rng& rng) {
	g_next[0] = 16 + rng.range(0, 9); g_next[1] = 16 + rng.range(0, 9);
	int kind = rng.pick({7, 48, 17, 15, 13});
#ifdef TRACKED
	bool dl = false, sl = false;
#else
	bool dl = rng.coin(20), sl = rng.coin(25);
#endif
	if(kind == 0) { gen_zero_d(rng, false); return; }
	if(kind == 1 || kind == 2) {
		int D = 1 + rng.pick({30, 35, 25, 10});
		std::vector<long> z = pick_sizes(rng, D, 60);
		if(kind == 1) { build_embedded(z, dl, 0, 1, rng, rng.coin(15)); }
		else {
			// destination by a random walk of view-forming operations from a random array
			int RD = 1 + rng.pick({25, 35, 30, 10});
			std::vector<long> n = pick_sizes(rng, RD, 120); long ne = 1; for(long x : n) ne *= x;
			emit_root(0, alloc_root(dl, ne, rng), n);
			int cur = 0; int nops = static_cast<int>(rng.range(1, 4));
			for(int k = 0; k < nops; ++k) { Op op; if(!gen_any(regs[static_cast<std::size_t>(cur)].v, rng, op, 4)) break; exec_line(op_line(1, cur, op)); cur = 1; }
			if(cur == 0) emit_whole(1, 0);
			z = any_sizes(regs[1].v);
			if(z.empty() || z.size() > 4) return;
		}
		build_embedded(z, sl, 10, 11, rng, rng.coin(15));
		if(same_shape(1, 11)) maybe_rebase_pair(1, 11, rng, 22);
		exec_line("q shape 1"); exec_line("q shape 11");
		if(!same_shape(1, 11)) { exec_line("q eq v1 v11"); exec_line("q ne v1 v11"); return; }   // an empty extent collapsed one side
		gen_mutations(1, 11, rng, true);
		if(rng.coin(40)) { exec_line("q eq v1 v11"); exec_line("q ne v11 v1"); }
		return;
	}
	if(kind == 3) {
		// two disjoint parts of one array: halves or the even / odd positions of the leading dimension
		int D = 1 + rng.pick({30, 35, 25, 10});
		std::vector<long> n = pick_sizes(rng, D, 60);
		long h = rng.range(0, 3);
		bool odd = rng.coin(50);
		n[0] = 2 * h + (odd ? 1 : 0);
		long ne = 1; for(long x : n) ne *= x;
		emit_root(0, alloc_root(dl, ne, rng), n);
		long n0 = any_sizes(regs[0].v)[0];   // the real leading size (0 when some other extent is empty)
		h = n0 / 2;
		if(rng.coin(50)) { emit_v(1, 0, "sliced", {0, h}); emit_v(11, 0, "sliced", {h, 2 * h}); }
		else if(n0 % 2 == 1) { emit_v(1, 0, "taked", {2 * h}); emit_v(1, 1, "strided", {2}); emit_v(11, 0, "dropped", {1}); emit_v(11, 11, "strided", {2}); }
		else { emit_v(1, 0, "taked", {h}); emit_v(11, 0, "dropped", {h}); }
		// the same axis permutation on both sides keeps the extents equal
		int np = static_cast<int>(rng.range(0, 2));
		for(int k = 0; k < np; ++k) { char const* nm = (D >= 2 && rng.coin(50)) ? "transposed" : (rng.coin(50) ? "rotated" : "unrotated"); emit_v(1, 1, nm); emit_v(11, 11, nm); }
		if(same_shape(1, 11)) maybe_rebase_pair(1, 11, rng, 22);
		exec_line("q shape 1");
		if(!same_shape(1, 11)) return;
		gen_mutations(1, 11, rng, true);
		return;
	}
	// whole arrays: array_ref <- array_ref / array / view
	{
		int D = 1 + rng.pick({30, 35, 25, 10});
		std::vector<long> n = pick_sizes(rng, D, 48); long ne = 1; for(long x : n) ne *= x;
		emit_root(0, alloc_root(false, ne, rng), n);
		bool embedded = rng.coin(35);
		if(embedded) { build_embedded(n, sl, 10, 11, rng, false); }
		else { emit_root(10, alloc_root(sl, ne, rng), n); emit_whole(11, 10); }
		emit_whole(1, 0);
		if(!same_shape(1, 11)) return;
		int nops = static_cast<int>(rng.range(1, 3));
		for(int k = 0; k < nops; ++k) {
			int c = rng.pick({30, 20, 25, 25});
			if(c == 0 && !embedded) exec_line("x assign r0 r10");
			else if(c == 1 && !embedded) exec_line("x assign r0 a10");
			else if(c == 2) exec_line(std::string("x assign r0 ") + src_form(rng, regs[11]) + "11");
			else if(!embedded && !sl) exec_line("x assign v1 r10");
			else exec_line("x assign r0 v11");
			emit_mem_queries();
		}
		if(!embedded && rng.coin(50)) { exec_line("q eq r0 r10"); exec_line("q ne r0 r10"); }
	}
}

#ifdef TRACKED
static bool long_coin(Rng& rng, int pct) { (void)rng.coin(pct); return false; }   // tracked elements: int-like only
#else
static bool long_coin(Rng& rng, int pct) { return rng.coin(pct); }
#endif

// ordering needs operands of one element type and one pointer type: c is a pointer-to-const view; with fancy pointers an
// owning array (form a) still has raw pointers
static int ptr_class(char f) {
	if(f == 'c') return 1;
#if PTR_KIND != 0
	if(f == 'a') return 2;
#endif
	return 0;
}
static bool order_ok(char fa, bool la, char fb, bool lb) { return la == lb && ptr_class(fa) == ptr_class(fb); }

static char any_form(Rng& rng, Reg const& R) {
	if(R.is_long) return rng.coin(70) ? 'v' : 'a';
	if(R.is_root && rng.coin(50)) return 'r';
	return "vca"[rng.pick({55, 20, 25})];
}

static void gen_compare(int ra, int rb, Rng& rng, bool all) {
	Reg const& A = regs[static_cast<std::size_t>(ra)]; Reg const& B = regs[static_cast<std::size_t>(rb)];
	int dim = rank_of(A.v);
	char fa = any_form(rng, A), fb = any_form(rng, B);
	std::string a = std::string(1, fa) + std::to_string(ra), b = std::string(1, fb) + std::to_string(rb);
	exec_line("q eq " + a + " " + b);
	exec_line("q ne " + a + " " + b);
	if(!order_ok(fa, A.is_long, fb, B.is_long)) {
		// ordering needs operands of one element and pointer type: ask again with plain views when possible
		if(A.is_long != B.is_long) return;
		fa = 'v'; fb = 'v'; a = "v" + std::to_string(ra); b = "v" + std::to_string(rb);
	}
	for(char const* op : {"lt", "le", "gt"}) { if(all || rng.coin(75)) exec_line(std::string("q ") + op + " " + a + " " + b); }
	if(dim == 1) exec_line("q ge " + a + " " + b);
}

static void perturb(int reg, Rng& rng) {
	long a = random_element_addr(reg, rng);
	if(a < 0) return;
	long old = cell_value(a);
	long nv = rng.coin(60) ? old + (rng.coin(50) ? 1 : -1) : rng.range(0, 10);
	exec_line("x set " + std::to_string(a) + " " + std::to_string(nv));
}

static void gen_c07(Rng& rng) {
	g_next[0] = 16 + rng.range(0, 9); g_next[1] = 16 + rng.range(0, 9);
	int kind = rng.pick({8, 52, 22, 18});
	if(kind == 0) { gen_zero_d(rng, true); return; }
	int D = 1 + rng.pick({30, 35, 25, 10});
	std::vector<long> z = pick_sizes(rng, D, 36);
	if(kind == 3) {
		// whole arrays (array_ref / array operands), equal or different extents
		std::vector<long> z2 = z;
		if(rng.coin(35)) { auto k = static_cast<std::size_t>(rng.range(0, D - 1)); z2[k] = std::max<long>(0, z2[k] + (rng.coin(50) ? 1 : -1)); }
		else if(rng.coin(20) && D >= 2) { std::swap(z2[0], z2[1]); }
		long n1 = 1, n2 = 1; for(long x : z) n1 *= x; for(long x : z2) n2 *= x;
		emit_root(0, alloc_root(false, n1, rng), z);
		emit_root(10, alloc_root(long_coin(rng, 25), n2, rng), z2);
		exec_line("q shape 0"); exec_line("q shape 10");
		if(z == z2 && rng.coin(70)) { exec_line("x assign r0 r10"); if(rng.coin(50)) perturb(rng.coin(50) ? 0 : 10, rng); }
		for(int t = 0; t < 2; ++t) { gen_compare(0, 10, rng, true); gen_compare(10, 0, rng, true); }
		gen_compare(0, 0, rng, false);
		return;
	}
	bool l1 = long_coin(rng, 15), l2 = long_coin(rng, 20), l3 = long_coin(rng, 15);
	build_embedded(z, l1, 0, 1, rng, rng.coin(20));
	std::vector<long> zb = z, zc = z;
	if(kind == 2) {
		// different extents: one size changed, or two sizes exchanged
		auto k = static_cast<std::size_t>(rng.range(0, D - 1));
		if(D >= 2 && rng.coin(30)) { std::swap(zb[0], zb[static_cast<std::size_t>(D - 1)]); } else { zb[k] = std::max<long>(0, zb[k] + (rng.coin(55) ? -1 : 1)); }
		if(rng.coin(50)) { auto j = static_cast<std::size_t>(rng.range(0, D - 1)); zc[j] = zc[j] + 1; }
	}
	build_embedded(zb, l2, 10, 11, rng, rng.coin(20));
	build_embedded(zc, l3, 20, 21, rng, rng.coin(20));
	exec_line("q shape 1"); exec_line("q shape 11"); exec_line("q shape 21");
	// make (some of) them equal, then perturb single elements
	if(same_shape(11, 1) && rng.coin(75)) { exec_line("x assign v11 v1"); if(rng.coin(55)) perturb(rng.coin(50) ? 11 : 1, rng); }
	{ int from = rng.coin(50) ? 1 : 11; if(same_shape(21, from) && rng.coin(65)) { exec_line("x assign v21 v" + std::to_string(from)); if(rng.coin(55)) perturb(21, rng); } }
	if(kind == 2 && rng.coin(50)) {
		// a proper prefix: copy the common leading block
		if(rank_of(regs[1].v) == rank_of(regs[11].v)) {
			auto s1 = any_sizes(regs[1].v), s2 = any_sizes(regs[11].v);
			bool inner_same = true; for(std::size_t j = 1; j < s1.size(); ++j) inner_same = inner_same && s1[j] == s2[j];
			if(inner_same && s1[0] != s2[0]) {
				long m = std::min(s1[0], s2[0]);
				emit_v(2, 1, "taked", {m}); emit_v(12, 11, "taked", {m});
				if(same_shape(2, 12)) exec_line("x assign v12 v2");
			}
		}
	}
	int pairs[7][2] = {{1, 11}, {11, 1}, {1, 21}, {21, 1}, {11, 21}, {21, 11}, {1, 1}};
	for(auto& pr : pairs) { if(rank_of(regs[static_cast<std::size_t>(pr[0])].v) == rank_of(regs[static_cast<std::size_t>(pr[1])].v)) gen_compare(pr[0], pr[1], rng, pr[0] != pr[1]); }
}

static void run_generated(std::uint64_t seed, long nprog, std::string const& mode) {
	Rng rng(seed);
	for(long p = 0; p < nprog; ++p) {
		exec_line("prog " + std::to_string(p) + " " + std::to_string(seed));
		if(mode == "c07") gen_c07(rng); else gen_c05(rng);
	}
}

static void run_replay(char const* path) {
	std::ifstream in(path);
	std::string line;
	reset_memory();
	while(std::getline(in, line)) exec_line(line);
}

int main(int argc, char** argv) {
	if(argc < 6) { std::fprintf(stderr, "usage: store <seed> <nprograms> <c05|c07> <prog-out> <answers-out> [--replay file]\n"); return 2; }
	std::uint64_t seed = std::strtoull(argv[1], nullptr, 10);
	long nprog = std::strtol(argv[2], nullptr, 10);
	std::string mode = argv[3];
	fprog = std::fopen(argv[4], "w"); fans = std::fopen(argv[5], "w");
	if(!fprog || !fans) { std::perror("fopen"); return 2; }
	// watchdog: a library change that makes a loop run away must end as a crash (reported, shrunk), not as a hang
	alarm((argc >= 8 && std::string(argv[6]) == "--replay") ? 20 : static_cast<unsigned>(60 + nprog / 200));
	{
		void* raw = ::operator new(static_cast<std::size_t>(NCELL) * 4 + static_cast<std::size_t>(NCELL) * sizeof(long), std::align_val_t{alignof(long)});
		g_mem = new(raw) VT[static_cast<std::size_t>(NCELL)];
		g_lmem = new(static_cast<char*>(raw) + NCELL * 4) long[static_cast<std::size_t>(NCELL)];
		g_vr_origin = g_mem;
#if PTR_KIND != 0
		fancy::g_origin = raw;
#endif
#if PTR_KIND == 2
		fancy::g_in_bounds = &in_roots;
#endif
	}
	reset_memory();
	if(argc >= 8 && std::string(argv[6]) == "--replay") run_replay(argv[7]);
	else run_generated(seed, nprog, mode);
	report_oob();
	std::fclose(fprog); std::fclose(fans);
	return g_internal ? 3 : 0;
}
