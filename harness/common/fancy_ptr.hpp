// Pointer types for C11.
//   PTR_KIND 1: minimal offset pointer — stores an element offset from a global origin, has NO conversion to or from T*,
//               proxy-free references, and only the operations a random-access pointer-like type must have.
//   PTR_KIND 2: the same representation plus provenance/bounds tracking: every dereference outside the storage
//               registered with xptr_bounds(lo, hi) is counted (and reported by the harness as OOB-DEREF).
#pragma once
#include <cstddef>
#include <iterator>
#include <memory>
#include <type_traits>

namespace fancy {

inline void* g_origin = nullptr;            // start of the address space the offsets refer to
inline std::ptrdiff_t g_lo = 0, g_hi = 0;   // registered storage [lo, hi) (element offsets)
inline long g_oob_deref = 0;                // dereferences outside the registered storage
inline void xptr_bounds(std::ptrdiff_t lo, std::ptrdiff_t hi) { g_lo = lo; g_hi = hi; }
// optional: a harness with several storages / element types registers a predicate on the BYTE offset from g_origin instead
inline bool (*g_in_bounds)(std::ptrdiff_t byte_off) = nullptr;

// Owning arrays: the registered storage is a SET of live blocks (byte offsets from g_origin), maintained by the allocator
// (harness/common/fancy_alloc.hpp).  Once a block has been added the tracking pointer checks dereferences against the set
// instead of the single range above (which views.cpp keeps using unchanged).
struct xptr_block { std::ptrdiff_t lo, hi; };  // [lo, hi) in bytes
inline bool g_use_blocks = false;
inline int g_nblocks = 0;
inline xptr_block g_blocks[4096];
inline void xptr_block_add(std::ptrdiff_t lo, std::ptrdiff_t hi) {
	g_use_blocks = true;
	if(g_nblocks < 4096) { g_blocks[g_nblocks++] = xptr_block{lo, hi}; }
}
inline void xptr_block_remove(std::ptrdiff_t lo) {
	for(int i = 0; i < g_nblocks; ++i) { if(g_blocks[i].lo == lo) { g_blocks[i] = g_blocks[--g_nblocks]; return; } }
}
inline bool xptr_in_blocks(std::ptrdiff_t lo, std::ptrdiff_t hi) {
	for(int i = 0; i < g_nblocks; ++i) { if(g_blocks[i].lo <= lo && hi <= g_blocks[i].hi) { return true; } }
	return false;
}

constexpr std::ptrdiff_t null_off = -(static_cast<std::ptrdiff_t>(1) << 60);

template<class T>
class xptr {
	std::ptrdiff_t off_ = null_off;
	template<class> friend class xptr;

 public:
	using element_type = T;
	using value_type = std::remove_cv_t<T>;
	using difference_type = std::ptrdiff_t;
	using reference = T&;
	using pointer = xptr;
	using iterator_category = std::random_access_iterator_tag;
	template<class U> using rebind = xptr<U>;
	using default_allocator_type = std::allocator<value_type>;

	constexpr xptr() = default;
	constexpr xptr(std::nullptr_t) {}  // NOLINT
	static constexpr xptr at(std::ptrdiff_t off) { xptr p; p.off_ = off; return p; }
	// non-const -> const only
	template<class U, std::enable_if_t<std::is_convertible_v<U*, T*> && !std::is_same_v<U, T>, int> = 0>
	constexpr xptr(xptr<U> const& o) : off_{o.off_} {}  // NOLINT

	constexpr std::ptrdiff_t off() const { return off_; }

	reference operator*() const {
#if PTR_KIND == 2
		if(g_in_bounds != nullptr) {
			if(!g_in_bounds(off_ * static_cast<std::ptrdiff_t>(sizeof(T)))) { ++g_oob_deref; }
		} else if(g_use_blocks) {
			auto const b = off_ * static_cast<std::ptrdiff_t>(sizeof(T));
			if(!xptr_in_blocks(b, b + static_cast<std::ptrdiff_t>(sizeof(T)))) { ++g_oob_deref; }
		} else if(off_ < g_lo || off_ >= g_hi) { ++g_oob_deref; }
#endif
		return *(static_cast<T*>(const_cast<std::remove_cv_t<T>*>(static_cast<std::remove_cv_t<T> const*>(g_origin))) + off_);
	}
	T* operator->() const { return &**this; }
	reference operator[](difference_type n) const { return *(*this + n); }

	constexpr xptr operator+(difference_type n) const { return at(off_ + n); }
	constexpr xptr operator-(difference_type n) const { return at(off_ - n); }
	constexpr xptr& operator+=(difference_type n) { off_ += n; return *this; }
	constexpr xptr& operator-=(difference_type n) { off_ -= n; return *this; }
	constexpr xptr& operator++() { ++off_; return *this; }
	constexpr xptr& operator--() { --off_; return *this; }
	constexpr xptr operator++(int) { auto t = *this; ++off_; return t; }
	constexpr xptr operator--(int) { auto t = *this; --off_; return t; }
	friend constexpr xptr operator+(difference_type n, xptr const& p) { return p + n; }

	template<class U> constexpr difference_type operator-(xptr<U> const& o) const { return off_ - o.off_; }
	template<class U> constexpr bool operator==(xptr<U> const& o) const { return off_ == o.off_; }
	template<class U> constexpr bool operator!=(xptr<U> const& o) const { return off_ != o.off_; }
	template<class U> constexpr bool operator<(xptr<U> const& o) const { return off_ < o.off_; }
	template<class U> constexpr bool operator>(xptr<U> const& o) const { return off_ > o.off_; }
	template<class U> constexpr bool operator<=(xptr<U> const& o) const { return off_ <= o.off_; }
	template<class U> constexpr bool operator>=(xptr<U> const& o) const { return off_ >= o.off_; }
	constexpr bool operator==(std::nullptr_t) const { return off_ == null_off; }
	constexpr bool operator!=(std::nullptr_t) const { return off_ != null_off; }
	constexpr explicit operator bool() const { return off_ != null_off; }
};

template<class T> xptr<std::remove_const_t<T>> to_mut(xptr<T> const& p) { return xptr<std::remove_const_t<T>>::at(p.off()); }

}  // namespace fancy
