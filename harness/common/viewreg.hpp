// viewreg.hpp — run-time registers holding views of the real library (shared by store.cpp and algos.cpp).
// Same representation and the same `root` / `v` protocol lines as harness/views.cpp: a view is held as
// (layout_t<D>, element pointer) in a std::variant over D and rebuilt as a real multi::subarray for every call.
// The element type is VT (default int).
#pragma once
#include <boost/multi/array.hpp>

#include <algorithm>
#include <array>
#include <cstdio>
#include <cstdlib>
#include <sstream>
#include <string>
#include <tuple>
#include <utility>
#include <variant>
#include <vector>

#include "prng.hpp"

namespace multi = boost::multi;
#ifndef VR_ELEMENT
using VT = int;
#endif
using idx_t = multi::index;

constexpr int MAXD = 5;

// Pointer type of the views (C11): PTR_KIND 0 = raw VT*, 1 = minimal offset pointer fancy::xptr (no conversion to or from
// VT*), 2 = the same with bounds tracking.  `g_vr_origin` is the start of the VT address space (offset 0).
#ifndef PTR_KIND
#define PTR_KIND 0
#endif
inline VT* g_vr_origin = nullptr;
#if PTR_KIND == 0
using VPtr = VT*;
template<class U> using PtrOf = U*;
template<class U> VT* to_mut(U* p) { return const_cast<VT*>(static_cast<VT const*>(p)); }
inline VPtr make_ptr(long off) { return g_vr_origin + off; }
template<class U> PtrOf<U> make_ptr_of(U* origin, long off) { return origin + off; }
inline long off_of(VT const* p) { return static_cast<long>(p - g_vr_origin); }
#else
#include "fancy_ptr.hpp"
using VPtr = fancy::xptr<VT>;
template<class U> using PtrOf = fancy::xptr<U>;
using fancy::to_mut;
inline VPtr make_ptr(long off) { return VPtr::at(off); }
inline long off_of(VT const* p) { return static_cast<long>(p - g_vr_origin); }
template<class U> long off_of(fancy::xptr<U> const& p) { return static_cast<long>(p.off()); }
#endif

template<multi::dimensionality_type D> struct VS { multi::layout_t<D> lay; VPtr base; };
using AnyView = std::variant<VS<0>, VS<1>, VS<2>, VS<3>, VS<4>, VS<5>, VS<6>>;

template<multi::dimensionality_type D> auto mk(VS<D> const& s) { return multi::subarray<VT, D, VPtr>(s.lay, s.base); }

template<class V> auto store(V&& v) -> decltype(std::decay_t<V>::rank_v, AnyView{}) {
	constexpr auto D = std::decay_t<V>::rank_v;
	return AnyView{VS<D>{v.layout(), to_mut(v.base())}};
}
inline AnyView store(VT& e) { return AnyView{VS<0>{multi::layout_t<0>{multi::extensions_t<0>{}}, make_ptr(off_of(&e))}}; }
inline AnyView store(VT const& e) { return AnyView{VS<0>{multi::layout_t<0>{multi::extensions_t<0>{}}, make_ptr(off_of(&e))}}; }

inline int rank_of(AnyView const& av) { return static_cast<int>(av.index()); }

struct Ex { long first, last; long size() const { return last - first; } };
inline bool operator==(Ex const& a, Ex const& b) { return a.first == b.first && a.last == b.last; }

template<class V> std::vector<Ex> exts_of(V const& v) {
	std::vector<Ex> r;
	if constexpr(std::decay_t<V>::rank_v > 0) {
		std::apply([&](auto const&... e) { (r.push_back(Ex{static_cast<long>(e.first()), static_cast<long>(e.last())}), ...); }, v.extensions().base());
	}
	return r;
}
template<class V> std::vector<long> sizes_of(V const& v) {
	std::vector<long> r;
	if constexpr(std::decay_t<V>::rank_v > 0) { std::apply([&](auto... s) { (r.push_back(static_cast<long>(s)), ...); }, v.sizes()); }
	return r;
}
template<class V> std::vector<long> strides_of(V const& v) {
	std::vector<long> r;
	if constexpr(std::decay_t<V>::rank_v > 0) { std::apply([&](auto... s) { (r.push_back(static_cast<long>(s)), ...); }, v.layout().strides()); }
	return r;
}
inline std::vector<Ex> any_exts(AnyView const& av) { return std::visit([](auto const& s) { return exts_of(mk(s)); }, av); }
inline std::vector<long> any_sizes(AnyView const& av) { return std::visit([](auto const& s) { return sizes_of(mk(s)); }, av); }
inline long any_num_elements(AnyView const& av) { return std::visit([](auto const& s) { return static_cast<long>(mk(s).num_elements()); }, av); }

// all index tuples of a box, canonical order
inline void box_rec(std::vector<Ex> const& ex, std::size_t k, std::vector<long>& cur, std::vector<std::vector<long>>& out) {
	if(k == ex.size()) { out.push_back(cur); return; }
	for(long i = ex[k].first; i < ex[k].last; ++i) { cur.push_back(i); box_rec(ex, k + 1, cur, out); cur.pop_back(); }
}
inline std::vector<std::vector<long>> box(std::vector<Ex> const& ex) { std::vector<std::vector<long>> out; std::vector<long> cur; box_rec(ex, 0, cur, out); return out; }

// address of the element at a full index tuple, as a raw pointer (taken from the reference the library hands out)
template<class V> auto* addr_bracket(V&& v, long const* idx) {
	constexpr auto D = std::decay_t<V>::rank_v;
	if constexpr(D == 0) { return &*v.base(); }
	else if constexpr(D == 1) { return &v[idx[0]]; }
	else { return addr_bracket(v[idx[0]], idx + 1); }
}

inline std::string join(std::vector<long> const& v) { std::string s; for(std::size_t i = 0; i < v.size(); ++i) { if(i) s += ' '; s += std::to_string(v[i]); } return s; }

// operations --------------------------------------------------------------------------------------------------
struct CallArg { int kind; long a, b; };  // 0 = index, 1 = range, 2 = ALL

template<class V, class... As> AnyView call_rec(V&& v, CallArg const* a, int k, As... as) {
	if(k == 0) { return store(v(as...)); }
	if constexpr(sizeof...(As) < 3 && sizeof...(As) < static_cast<std::size_t>(std::decay_t<V>::rank_v)) {
		switch(a->kind) {
			case 0: return call_rec(v, a + 1, k - 1, as..., static_cast<idx_t>(a->a));
			case 1: return call_rec(v, a + 1, k - 1, as..., multi::irange{a->a, a->b});
			default: return call_rec(v, a + 1, k - 1, as..., multi::ALL);
		}
	} else { std::abort(); }
}

struct Op { std::string name; std::vector<long> a; std::vector<CallArg> call; };

template<class V, std::size_t... I> AnyView do_reindexed(V&& v, long const* b, std::index_sequence<I...>) { return store(v.reindexed(b[I]...)); }

template<multi::dimensionality_type D> AnyView apply_op(VS<D> const& s, Op const& op) {
	auto&& mv = mk(s);
	auto const& cv = mv;
	auto const& n = op.name; auto const& a = op.a;
	if constexpr(D >= 1) {
		if(n == "index") return store(mv[a[0]]);
		if(n == "sliced") return store(mv.sliced(a[0], a[1]));
		if(n == "range") return store(mv.range({a[0], a[1]}));
		if(n == "strided") return store(mv.strided(a[0]));
		if(n == "dropped") return store(mv.dropped(a[0]));
		if(n == "taked") return store(mv.taked(a[0]));
		if(n == "rotated") return store(mv.rotated());
		if(n == "unrotated") return store(mv.unrotated());
		if(n == "reversed") return store(mv.reversed());
		if(n == "reindexed") {
			if(a.size() == 1) return store(mv.reindexed(a[0]));
			if constexpr(D >= 2) { if(a.size() == 2) return do_reindexed(mv, a.data(), std::make_index_sequence<2>{}); }
			if constexpr(D >= 3) { if(a.size() == 3) return do_reindexed(mv, a.data(), std::make_index_sequence<3>{}); }
		}
		if(n == "call") {
			int k = static_cast<int>(op.call.size());
			if(k <= static_cast<int>(D) && k <= 3) { return call_rec(mv, op.call.data(), k); }
		}
	}
	if constexpr(D >= 1 && D < MAXD) {
		if(n == "partitioned") return store(mv.partitioned(a[0]));
		if(n == "chunked") return store(cv.chunked(a[0]));
	}
	if constexpr(D >= 2) {
		if(n == "transposed") return store(mv.transposed());
		if(n == "diagonal") return store(mv.diagonal());
		if(n == "flatted") return store(mv.flatted());
	}
	std::fprintf(stderr, "harness: op %s not applicable to D=%d\n", n.c_str(), static_cast<int>(D));
	std::abort();
}
inline AnyView apply_any(AnyView const& av, Op const& op) { return std::visit([&](auto const& s) { return apply_op(s, op); }, av); }

inline std::string op_line(int dst, int src, Op const& op) {
	std::string s = "v " + std::to_string(dst) + " " + std::to_string(src) + " " + op.name;
	if(op.name == "call") {
		for(auto const& c : op.call) { s += ' '; if(c.kind == 0) s += "i" + std::to_string(c.a); else if(c.kind == 1) s += "r" + std::to_string(c.a) + ":" + std::to_string(c.b); else s += "a"; }
	} else { for(long x : op.a) { s += ' '; s += std::to_string(x); } }
	return s;
}

// parses the words of a `v <dst> <src> <op> args...` line
inline Op parse_op(std::vector<std::string> const& w) {
	Op op; op.name = w[3];
	for(std::size_t k = 4; k < w.size(); ++k) {
		if(op.name == "call") {
			if(w[k] == "a") op.call.push_back(CallArg{2, 0, 0});
			else if(w[k][0] == 'i') op.call.push_back(CallArg{0, std::stol(w[k].substr(1)), 0});
			else { auto c = w[k].find(':'); op.call.push_back(CallArg{1, std::stol(w[k].substr(1, c - 1)), std::stol(w[k].substr(c + 1))}); }
		} else op.a.push_back(std::stol(w[k]));
	}
	return op;
}

// random in-domain view-forming operation drawn from the real view's current shape (zero-based views)
template<multi::dimensionality_type D> bool gen_op(VS<D> const& s, Rng& rng, Op& op, int maxd) {
	auto&& v = mk(s);
	auto ex = exts_of(v); auto sz = sizes_of(v);
	if constexpr(D == 0) { return false; }
	else {
		long f = ex[0].first, l = ex[0].last, n = sz[0];
		bool allzero = std::all_of(ex.begin(), ex.end(), [](Ex const& e) { return e.first == 0; });
		for(int tries = 0; tries < 40; ++tries) {
			int c = rng.pick({10, 14, 8, 8, 8, 10, 8, 10, 6, 5, 5, 4, 4, 10});
			op = Op{};
			switch(c) {
				case 0: if(n > 0 && D > 1) { op.name = "index"; op.a = {rng.range(f, l - 1)}; return true; } break;
				case 1: { long x = rng.range(f, l); long y = rng.range(x, l); op.name = rng.coin(70) ? "sliced" : "range"; op.a = {x, y}; return true; }
				case 2: { std::vector<long> cand; for(long k = 1; k <= (n == 0 ? 3 : n); ++k) { if((n == 0 || n % k == 0) && (f % k == 0)) cand.push_back(k); }
					if(!cand.empty()) { op.name = "strided"; op.a = {cand[static_cast<std::size_t>(rng.range(0, static_cast<long>(cand.size()) - 1))]}; return true; } break; }
				case 3: op.name = "dropped"; op.a = {rng.range(0, n)}; return true;
				case 4: op.name = "taked"; op.a = {rng.range(0, n)}; return true;
				case 5: op.name = "rotated"; return true;
				case 6: op.name = "unrotated"; return true;
				case 7: if constexpr(D >= 2) { op.name = "transposed"; return true; } break;
				case 8: op.name = "reversed"; return true;
				case 9: if constexpr(D >= 2) { if(ex[0].first == 0 && ex[1].first == 0) { op.name = "diagonal"; return true; } } break;
				case 10: if constexpr(D < MAXD) { if(static_cast<int>(D) < maxd) { std::vector<long> cand; for(long k = 1; k <= (n == 0 ? 3 : n); ++k) { if(n == 0 || n % k == 0) cand.push_back(k); }
					op.name = "partitioned"; op.a = {cand[static_cast<std::size_t>(rng.range(0, static_cast<long>(cand.size()) - 1))]}; return true; } } break;
				case 11: if constexpr(D < MAXD) { if(n > 0 && static_cast<int>(D) < maxd) { std::vector<long> cand; for(long k = 1; k <= n; ++k) { if(n % k == 0) cand.push_back(k); }
					op.name = "chunked"; op.a = {cand[static_cast<std::size_t>(rng.range(0, static_cast<long>(cand.size()) - 1))]}; return true; } } break;
				case 12: if constexpr(D >= 2) { if(allzero && v.is_flattable()) { op.name = "flatted"; return true; } } break;
				case 13: { int k = static_cast<int>(rng.range(1, std::min<long>(static_cast<long>(D), 3)));
					op.name = "call"; bool ok = true; int nidx = 0;
					for(int j = 0; j < k; ++j) {
						long fj = ex[static_cast<std::size_t>(j)].first, lj = ex[static_cast<std::size_t>(j)].last;
						int kind = rng.pick({30, 45, 25});
						if(kind == 0) { if(lj - fj <= 0 || nidx + 1 >= static_cast<int>(D)) { ok = false; break; } ++nidx; op.call.push_back(CallArg{0, rng.range(fj, lj - 1), 0}); }
						else if(kind == 1) { long x = rng.range(fj, lj); long y = rng.range(x, lj); op.call.push_back(CallArg{1, x, y}); }
						else { op.call.push_back(CallArg{2, 0, 0}); }
					}
					if(ok) return true; break; }
				default: break;
			}
		}
		return false;
	}
}
inline bool gen_any(AnyView const& av, Rng& rng, Op& op, int maxd) { return std::visit([&](auto const& s) { return gen_op(s, rng, op, maxd); }, av); }

template<multi::dimensionality_type D> AnyView make_root(std::vector<Ex> const& ex, VPtr base) {
	auto xs = std::apply([](auto... e) { return multi::extensions_t<D>{e...}; }, [&] {
		std::array<multi::iextension, static_cast<std::size_t>(D)> arr;
		for(std::size_t k = 0; k < static_cast<std::size_t>(D); ++k) arr[k] = multi::iextension{ex[k].first, ex[k].last};
		return arr; }());
	multi::array_ref<VT, D, VPtr> ref(base, xs);
	return store(ref());
}

inline AnyView make_root_any(std::vector<Ex> const& ex, VPtr base) {
	switch(ex.size()) {
		case 1: return make_root<1>(ex, base);
		case 2: return make_root<2>(ex, base);
		case 3: return make_root<3>(ex, base);
		case 4: return make_root<4>(ex, base);
		default: std::abort();
	}
}

inline std::vector<std::string> words_of(std::string const& line) { std::istringstream is(line); std::vector<std::string> w; std::string t; while(is >> t) w.push_back(t); return w; }
