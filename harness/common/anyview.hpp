// anyview.hpp — run-time held views over a buffer of HARNESS_T, generated view-forming operations and their protocol
// lines (`root`, `v`), shared by serial.cpp (C17) and mpi.cpp (C18).  Same representation and same operation
// vocabulary as harness/views.cpp (C01): a view is (layout_t<D>, pointer) in a std::variant over D and a real
// multi::subarray<T, D> is rebuilt for every call, so that run-time op sequences exercise the real templates.
#pragma once
#include <boost/multi/array.hpp>

#include <algorithm>
#include <array>
#include <cstdio>
#include <cstdlib>
#include <sstream>
#include <string>
#include <tuple>
#include <utility>
#include <variant>
#include <vector>

#include "common/prng.hpp"

#ifndef HARNESS_T
#define HARNESS_T int
#endif

namespace av {
namespace multi = boost::multi;
using T = HARNESS_T;
using idx_t = multi::index;
using Ptr = T*;

constexpr int MAXD = 5;

template<multi::dimensionality_type D> struct VS { multi::layout_t<D> lay; Ptr base; };
using AnyView = std::variant<VS<0>, VS<1>, VS<2>, VS<3>, VS<4>, VS<5>, VS<6>>;

template<multi::dimensionality_type D> auto mk(VS<D> const& s) { return multi::subarray<T, D, Ptr>(s.lay, s.base); }

template<class V> auto store(V&& v) -> decltype(std::decay_t<V>::rank_v, AnyView{}) {
	constexpr auto D = std::decay_t<V>::rank_v;
	return AnyView{VS<D>{v.layout(), const_cast<Ptr>(static_cast<T const*>(v.base()))}};
}
inline AnyView store(T& e) { return AnyView{VS<0>{multi::layout_t<0>{multi::extensions_t<0>{}}, &e}}; }
inline AnyView store(T const& e) { return AnyView{VS<0>{multi::layout_t<0>{multi::extensions_t<0>{}}, const_cast<T*>(&e)}}; }

struct Ex { long first, last; long size() const { return last - first; } };

template<class V> std::vector<Ex> exts_of(V const& v) {
	std::vector<Ex> r;
	if constexpr(std::decay_t<V>::rank_v > 0) {
		std::apply([&](auto const&... e) { (r.push_back(Ex{static_cast<long>(e.first()), static_cast<long>(e.last())}), ...); }, v.extensions().base());
	}
	return r;
}
template<class V> std::vector<long> sizes_of(V const& v) {
	std::vector<long> r;
	if constexpr(std::decay_t<V>::rank_v > 0) { std::apply([&](auto... s) { (r.push_back(static_cast<long>(s)), ...); }, v.sizes()); }
	return r;
}

inline int dim_of(AnyView const& a) { return static_cast<int>(a.index()); }

struct CallArg { int kind; long a, b; };  // 0 = index, 1 = range, 2 = ALL

template<class V, class... As> AnyView call_rec(V&& v, CallArg const* a, int k, As... as) {
	if(k == 0) { return store(v(as...)); }
	if constexpr(sizeof...(As) < 3 && sizeof...(As) < static_cast<std::size_t>(std::decay_t<V>::rank_v)) {
		switch(a->kind) {
			case 0: return call_rec(v, a + 1, k - 1, as..., static_cast<idx_t>(a->a));
			case 1: return call_rec(v, a + 1, k - 1, as..., multi::irange{a->a, a->b});
			default: return call_rec(v, a + 1, k - 1, as..., multi::ALL);
		}
	} else { std::abort(); }
}

template<class V, std::size_t... I> AnyView do_reindexed(V&& v, long const* b, std::index_sequence<I...>) { return store(v.reindexed(b[I]...)); }
template<class V, std::size_t... I> AnyView do_stenciled(V&& v, Ex const* e, std::index_sequence<I...>) { return store(v.stenciled(multi::iextension{e[I].first, e[I].last}...)); }

struct Op { std::string name; std::vector<long> a; std::vector<CallArg> call; };

template<multi::dimensionality_type D> AnyView apply_op(VS<D> const& s, Op const& op) {
	auto&& mv = mk(s);
	auto const& n = op.name; auto const& a = op.a;
	if constexpr(D >= 1) {
		if(n == "index") return store(mv[a[0]]);
		if(n == "sliced") return store(mv.sliced(a[0], a[1]));
		if(n == "range") return store(mv.range({a[0], a[1]}));
		if(n == "strided") return store(mv.strided(a[0]));
		if(n == "dropped") return store(mv.dropped(a[0]));
		if(n == "taked") return store(mv.taked(a[0]));
		if(n == "rotated") return store(mv.rotated());
		if(n == "unrotated") return store(mv.unrotated());
		if(n == "reversed") return store(mv.reversed());
		if(n == "blocked") return store(mv.blocked(a[0], a[1]));
		if(n == "reindexed") {
			if(a.size() == 1) return store(mv.reindexed(a[0]));
			if constexpr(D >= 2) { if(a.size() == 2) return do_reindexed(mv, a.data(), std::make_index_sequence<2>{}); }
			if constexpr(D >= 3) { if(a.size() == 3) return do_reindexed(mv, a.data(), std::make_index_sequence<3>{}); }
		}
		if(n == "stenciled") {
			std::vector<Ex> es; for(std::size_t k = 0; k + 1 < a.size(); k += 2) es.push_back(Ex{a[k], a[k + 1]});
			if(es.size() == 1) return store(mv.stenciled(multi::iextension{es[0].first, es[0].last}));
			if constexpr(D >= 2) { if(es.size() == 2) return do_stenciled(mv, es.data(), std::make_index_sequence<2>{}); }
			if constexpr(D >= 3) { if(es.size() == 3) return do_stenciled(mv, es.data(), std::make_index_sequence<3>{}); }
		}
		if(n == "call") {
			int k = static_cast<int>(op.call.size());
			if(k <= static_cast<int>(D) && k <= 3) { return call_rec(mv, op.call.data(), k); }
		}
	}
	if constexpr(D >= 1 && D < MAXD) {
		if(n == "partitioned") return store(mv.partitioned(a[0]));
		if(n == "chunked") return store(std::as_const(mv).chunked(a[0]));
	}
	if constexpr(D >= 2) {
		if(n == "transposed") return store(mv.transposed());
		if(n == "diagonal") return store(mv.diagonal());
		if(n == "flatted") return store(mv.flatted());
	}
	std::fprintf(stderr, "harness: op %s not applicable to D=%d\n", n.c_str(), static_cast<int>(D));
	std::abort();
}

inline std::string op_line(int dst, int src, Op const& op) {
	std::string s = "v " + std::to_string(dst) + " " + std::to_string(src) + " " + op.name;
	if(op.name == "call") {
		for(auto const& c : op.call) { s += ' '; if(c.kind == 0) s += "i" + std::to_string(c.a); else if(c.kind == 1) s += "r" + std::to_string(c.a) + ":" + std::to_string(c.b); else s += "a"; }
	} else { for(long x : op.a) { s += ' '; s += std::to_string(x); } }
	return s;
}

// an in-domain operation drawn from the real view's current shape (C01's vocabulary; `rebased` adds C19's).
// `keepdim`: only operations that keep D in 1..4 (no `index` on D = 1, no partition on D = 4).
template<multi::dimensionality_type D> bool gen_op(VS<D> const& s, Rng& rng, bool rebased, Op& op) {
	auto&& v = mk(s);
	auto ex = exts_of(v); auto sz = sizes_of(v);
	if constexpr(D == 0) { return false; }
	else {
		long f = ex[0].first, l = ex[0].last, n = sz[0];
		bool allzero = std::all_of(ex.begin(), ex.end(), [](Ex const& e) { return e.first == 0; });
		for(int tries = 0; tries < 40; ++tries) {
			int c = rng.pick({8, 14, 8, 8, 8, 10, 8, 12, 8, 5, 6, 5, 4, 14, rebased ? 8 : 0, rebased ? 6 : 0, rebased ? 4 : 0});
			op = Op{};
			switch(c) {
				case 0: if(n > 0 && D > 1) { op.name = "index"; op.a = {rng.range(f, l - 1)}; return true; } break;
				case 1: { long x = rng.range(f, l); long y = rng.range(x, l); op.name = rng.coin(70) ? "sliced" : "range"; op.a = {x, y}; return true; }
				case 2: { std::vector<long> cand; for(long k = 1; k <= (n == 0 ? 3 : n); ++k) { if((n == 0 || n % k == 0) && (f % k == 0)) cand.push_back(k); }
					if(!cand.empty()) { op.name = "strided"; op.a = {cand[static_cast<std::size_t>(rng.range(0, static_cast<long>(cand.size()) - 1))]}; return true; } break; }
				case 3: op.name = "dropped"; op.a = {rng.range(0, n)}; return true;
				case 4: op.name = "taked"; op.a = {rng.range(0, n)}; return true;
				case 5: op.name = "rotated"; return true;
				case 6: op.name = "unrotated"; return true;
				case 7: if constexpr(D >= 2) { op.name = "transposed"; return true; } break;
				case 8: op.name = "reversed"; return true;
				case 9: if constexpr(D >= 2) { if(ex[0].first == 0 && ex[1].first == 0) { op.name = "diagonal"; return true; } } break;
				case 10: if constexpr(D < 4) { std::vector<long> cand; for(long k = 1; k <= (n == 0 ? 3 : n); ++k) { if(n == 0 || n % k == 0) cand.push_back(k); }
					op.name = "partitioned"; op.a = {cand[static_cast<std::size_t>(rng.range(0, static_cast<long>(cand.size()) - 1))]}; return true; } break;
				case 11: if constexpr(D < 4) { if(n > 0) { std::vector<long> cand; for(long k = 1; k <= n; ++k) { if(n % k == 0) cand.push_back(k); }
					op.name = "chunked"; op.a = {cand[static_cast<std::size_t>(rng.range(0, static_cast<long>(cand.size()) - 1))]}; return true; } } break;
				case 12: if constexpr(D >= 2) { if(allzero && v.is_flattable()) { op.name = "flatted"; return true; } } break;
				case 13: { int k = static_cast<int>(rng.range(1, std::min<long>(static_cast<long>(D), 3)));
					op.name = "call"; bool ok = true; int nidx = 0;
					for(int j = 0; j < k; ++j) {
						long fj = ex[static_cast<std::size_t>(j)].first, lj = ex[static_cast<std::size_t>(j)].last;
						int kind = rng.pick({25, 50, 25});
						if(kind == 0) { if(lj - fj <= 0 || nidx + 1 >= static_cast<int>(D)) { ok = false; break; } ++nidx; op.call.push_back(CallArg{0, rng.range(fj, lj - 1), 0}); }
						else if(kind == 1) { long x = rng.range(fj, lj); long y = rng.range(x, lj); op.call.push_back(CallArg{1, x, y}); }
						else { op.call.push_back(CallArg{2, 0, 0}); }
					}
					if(ok) return true; break; }
				case 14: { int k = static_cast<int>(rng.range(1, std::min<long>(static_cast<long>(D), 3))); op.name = "reindexed"; for(int j = 0; j < k; ++j) op.a.push_back(rng.range(-3, 3)); return true; }
				case 15: { long x = rng.range(f, l); long y = rng.range(x, l); if(x < y) { op.name = "blocked"; op.a = {x, y}; return true; } break; }
				case 16: { int k = static_cast<int>(rng.range(1, std::min<long>(static_cast<long>(D), 3))); op.name = "stenciled"; bool ok = true;
					for(int j = 0; j < k; ++j) { long fj = ex[static_cast<std::size_t>(j)].first, lj = ex[static_cast<std::size_t>(j)].last; long x = rng.range(fj, lj); long y = rng.range(x, lj); if(x >= y) { ok = false; break; } op.a.push_back(x); op.a.push_back(y); }
					if(ok) return true; break; }
				default: break;
			}
		}
		return false;
	}
}

template<multi::dimensionality_type D> AnyView make_root(std::vector<Ex> const& ex, Ptr base) {
	auto xs = std::apply([](auto... e) { return multi::extensions_t<D>{e...}; }, [&] {
		std::array<multi::iextension, static_cast<std::size_t>(D)> arr;
		for(std::size_t k = 0; k < static_cast<std::size_t>(D); ++k) arr[k] = multi::iextension{ex[k].first, ex[k].last};
		return arr; }());
	multi::array_ref<T, D, Ptr> ref(base, xs);
	return store(ref());
}

inline AnyView make_root_any(std::vector<Ex> const& ex, Ptr base) {
	switch(ex.size()) {
		case 1: return make_root<1>(ex, base);
		case 2: return make_root<2>(ex, base);
		case 3: return make_root<3>(ex, base);
		case 4: return make_root<4>(ex, base);
		default: std::abort();
	}
}

inline std::vector<std::string> words(std::string const& line) { std::istringstream is(line); std::vector<std::string> w; std::string t; while(is >> t) w.push_back(t); return w; }

// parses a `root` line:  root <reg> <base> <D> f0 l0 ...
inline AnyView parse_root(std::vector<std::string> const& w, Ptr mem, int& reg) {
	reg = std::stoi(w[1]); long base = std::stol(w[2]); int D = std::stoi(w[3]);
	std::vector<Ex> ex;
	for(int k = 0; k < D; ++k) ex.push_back(Ex{std::stol(w[4 + 2 * static_cast<std::size_t>(k)]), std::stol(w[5 + 2 * static_cast<std::size_t>(k)])});
	return make_root_any(ex, mem + base);
}
// parses a `v` line:  v <dst> <src> <op> args...
inline Op parse_op(std::vector<std::string> const& w, int& dst, int& src) {
	dst = std::stoi(w[1]); src = std::stoi(w[2]);
	Op op; op.name = w[3];
	for(std::size_t k = 4; k < w.size(); ++k) {
		if(op.name == "call") {
			if(w[k] == "a") op.call.push_back(CallArg{2, 0, 0});
			else if(w[k][0] == 'i') op.call.push_back(CallArg{0, std::stol(w[k].substr(1)), 0});
			else { auto c = w[k].find(':'); op.call.push_back(CallArg{1, std::stol(w[k].substr(1, c - 1)), std::stol(w[k].substr(c + 1))}); }
		} else op.a.push_back(std::stol(w[k]));
	}
	return op;
}

// generates a root array (D 1..4, sizes 0..6, <= maxelems elements) at `mem + base` and 0..maxops operations on it;
// writes the `root`/`v` lines to `fprog`; register `reg0` holds the root, `reg0 + 1` the final view.  Returns the final view
// and the register that holds it.  Only views of dimensionality 1..4 are produced.
inline AnyView gen_view(Rng& rng, bool rebased, Ptr mem, long base, long maxelems, int maxops, int reg0, FILE* fprog, int& reg_out, int& nops_out) {
	int D = 1 + rng.pick({20, 35, 30, 15});
	std::vector<Ex> ex; long ne = 1;
	for(int k = 0; k < D; ++k) {
		long sz = (long[]){0, 1, 2, 3, 4, 5, 6}[rng.pick({6, 12, 24, 22, 18, 10, 8})];
		if(rng.coin(3)) { sz = (long[]){15, 16, 17, 31, 32, 33}[rng.range(0, 5)]; }  // now and then beyond the small sizes (maxelems still applies)
		if(ne * sz > maxelems) sz = 2;
		if(ne * sz > maxelems) sz = 1;
		ne *= sz;
		long f = rebased ? rng.range(-3, 3) : 0;
		ex.push_back(Ex{f, f + sz});
	}
	std::string rl = "root " + std::to_string(reg0) + " " + std::to_string(base) + " " + std::to_string(D);
	for(auto const& e : ex) rl += " " + std::to_string(e.first) + " " + std::to_string(e.last);
	std::fprintf(fprog, "%s\n", rl.c_str());
	AnyView cur = make_root_any(ex, mem + base);
	int nops = static_cast<int>(rng.range(0, maxops));
	int src = reg0; nops_out = 0;
	for(int k = 0; k < nops; ++k) {
		Op op;
		bool ok = std::visit([&](auto const& s) { return gen_op(s, rng, rebased, op); }, cur);
		if(!ok) break;
		AnyView nxt = std::visit([&](auto const& s) { return apply_op(s, op); }, cur);
		if(dim_of(nxt) < 1 || dim_of(nxt) > 4) continue;
		std::fprintf(fprog, "%s\n", op_line(reg0 + 1, src, op).c_str());
		cur = nxt; src = reg0 + 1; ++nops_out;
	}
	reg_out = src;
	return cur;
}

}  // namespace av
