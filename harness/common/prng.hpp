// splitmix64: every random choice of a harness run derives from one state seeded by VERIF_SEED.
#pragma once
#include <cstdint>
#include <initializer_list>
struct Rng {
	std::uint64_t s;
	// the seed is hashed first: consecutive seeds must not give shifted copies of one stream
	explicit Rng(std::uint64_t seed) : s(0) {
		std::uint64_t z = (seed + 0x1234567ULL) * 0xD6E8FEB86659FD93ULL;
		z = (z ^ (z >> 32)) * 0xD6E8FEB86659FD93ULL;
		z = (z ^ (z >> 32)) * 0xD6E8FEB86659FD93ULL;
		s = z ^ (z >> 32);
	}
	std::uint64_t next() {
		std::uint64_t z = (s += 0x9E3779B97F4A7C15ULL);
		z = (z ^ (z >> 30)) * 0xBF58476D1CE4E5B9ULL;
		z = (z ^ (z >> 27)) * 0x94D049BB133111EBULL;
		return z ^ (z >> 31);
	}
	// uniform in [lo, hi]
	long range(long lo, long hi) { return lo + static_cast<long>(next() % static_cast<std::uint64_t>(hi - lo + 1)); }
	bool coin(int percent) { return static_cast<int>(next() % 100) < percent; }
	// weighted pick: returns index
	int pick(std::initializer_list<int> weights) {
		int tot = 0; for(int w : weights) tot += w;
		int r = static_cast<int>(next() % static_cast<std::uint64_t>(tot));
		int i = 0; for(int w : weights) { if(r < w) return i; r -= w; ++i; }
		return i - 1;
	}
};
