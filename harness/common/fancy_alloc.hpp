// Allocator for C11 (owning arrays): `pointer` is fancy::xptr<T> — an element offset from fancy::g_origin with no conversion to or
// from T*.  Memory comes from one arena (bump allocation, never reused inside a program: every program of the value harness runs in
// its own forked child, and a dereference of released storage is therefore outside every live block).  With PTR_KIND == 2 the live
// blocks are registered with the tracking pointer (fancy::xptr_block_add / xptr_block_remove).
#pragma once
#include "fancy_ptr.hpp"

#include <cstddef>
#include <cstdlib>
#include <new>
#include <type_traits>

namespace fancy {

inline constexpr std::size_t arena_bytes = std::size_t{1} << 24;
alignas(64) inline unsigned char g_arena[arena_bytes];
inline std::size_t g_arena_top = 64;  // offset 0 is never handed out

inline void arena_init() { g_origin = g_arena; }

template<class T>
struct fancy_alloc {
	using value_type = T;
	using pointer = xptr<T>;
	using const_pointer = xptr<T const>;
	using void_pointer = xptr<T>;              // no xptr<void>: the hint of allocate(n, hint) is a typed pointer
	using const_void_pointer = xptr<T const>;
	using size_type = std::size_t;
	using difference_type = std::ptrdiff_t;
	using propagate_on_container_move_assignment = std::true_type;
	using is_always_equal = std::true_type;
	template<class U> struct rebind { using other = fancy_alloc<U>; };

	fancy_alloc() = default;
	template<class U> fancy_alloc(fancy_alloc<U> const& /*other*/) {}  // NOLINT

	pointer allocate(size_type n) {
		std::size_t pos = (g_arena_top + sizeof(T) - 1) / sizeof(T) * sizeof(T);
		std::size_t bytes = n * sizeof(T);
		if(pos + bytes > arena_bytes) { throw std::bad_alloc{}; }
		g_arena_top = pos + bytes + sizeof(T);  // a gap between blocks: one-past-the-end of a block is not the start of the next
#if PTR_KIND == 2
		xptr_block_add(static_cast<std::ptrdiff_t>(pos), static_cast<std::ptrdiff_t>(pos + bytes));
#endif
		return pointer::at(static_cast<std::ptrdiff_t>(pos / sizeof(T)));
	}
	pointer allocate(size_type n, const_void_pointer /*hint*/) { return allocate(n); }
	void deallocate(pointer p, size_type /*n*/) {
#if PTR_KIND == 2
		xptr_block_remove(p.off() * static_cast<std::ptrdiff_t>(sizeof(T)));
#else
		(void)p;
#endif
	}
	template<class U> bool operator==(fancy_alloc<U> const& /*other*/) const { return true; }
	template<class U> bool operator!=(fancy_alloc<U> const& /*other*/) const { return false; }
};

}  // namespace fancy
