// value.cpp — correspondence harness for C04 (value semantics of owning arrays) and C06 (reextent / clear / reshape / assign).
// Drives the real multi::array<T, D> (headers from /repo's working tree) with generated operation histories over a pool of
// named arrays, writes the op lines (for the Lean driver `mmdrv_value`) and, after every step, what it observes through the
// public API.  Inside the harness every step is also checked against a reference model (extents + flat std::vector of
// values, written from the documentation, not from the library's code): `REF-MISMATCH` / `OVERLAP` lines appear in the
// answer stream (the Lean side never prints them, so they show up in the diff).
//
// usage: value <seed> <nprograms> <mode> <prog-out> <answers-out> [--replay <prog-file>]
//   mode: int | str   element type int (trivial) or Str (holds a std::string); other element type long / int.
//         +c06        operation weights of C06 (reextent / clear / reshape / assign) instead of C04's
//         +full       also the input classes of the findings recorded in findings/C0x.json (assign-inner-extents, empty-range,
//                     reextent-index-bases, assign-empty-view: all fixed in /repo by now; before the fixes they aborted the
//                     library, so the plain streams stay clear of them and a regression there cannot mask everything else),
//                     and, in half of the programs, more weight on lists / ranges / reextent
// Every program runs in a forked child, so an assertion failure or crash of the library costs one program, not the stream.
#include <boost/multi/array.hpp>

#include <algorithm>
#include <array>
#include <cstdio>
#include <cstdlib>
#include <cstring>
#include <fstream>
#include <optional>
#include <sstream>
#include <string>
#include <tuple>
#include <utility>
#include <variant>
#include <vector>

#include <sys/wait.h>
#include <unistd.h>

#include "common/prng.hpp"

// C11: the same histories over arrays whose allocator hands out a user-defined pointer type (harness/common/fancy_ptr.hpp):
//   PTR_KIND 0 (default) std::allocator / raw pointers;  1 minimal offset pointer;  2 offset pointer that counts dereferences outside the
//   live blocks (reported as `OOB-DEREF <n>` at the end of the program).  The answer lines are the same in all three builds.
#ifndef PTR_KIND
#define PTR_KIND 0
#endif
#if PTR_KIND != 0
#include "common/fancy_alloc.hpp"
#endif

namespace multi = boost::multi;
using idx_t     = multi::index;

static FILE* fprog = nullptr;
static FILE* fans  = nullptr;
static int   g_internal = 0;
static int   g_crashes = 0;  // programs of this stream that died; the stream is given up after a few (the first one is what gets reported)

struct Ex {
	long first, last;
	long size() const { return last - first; }
	bool empty() const { return first == last; }
};
static bool ex_eqv(Ex a, Ex b) { return (a.empty() && b.empty()) || (a.first == b.first && a.last == b.last); }  // index_range.hpp operator==
static bool exs_eqv(std::vector<Ex> const& a, std::vector<Ex> const& b) {
	if(a.size() != b.size()) return false;
	for(std::size_t k = 0; k < a.size(); ++k) if(!ex_eqv(a[k], b[k])) return false;
	return true;
}
static long nelems(std::vector<Ex> const& ex) { long n = 1; for(auto const& e : ex) n *= e.size(); return n; }
// extents an array reports after being built from `ex`: a dimension is [0,0) as soon as it or a later one is empty
static std::vector<Ex> collapse(std::vector<Ex> ex) {
	for(std::size_t k = 0; k < ex.size(); ++k) {
		long n = 1; for(std::size_t j = k; j < ex.size(); ++j) n *= ex[j].size();
		if(n == 0) ex[k] = Ex{0, 0};
	}
	return ex;
}
static void box_rec(std::vector<Ex> const& ex, std::size_t k, std::vector<long>& cur, std::vector<std::vector<long>>& out) {
	if(k == ex.size()) { out.push_back(cur); return; }
	for(long i = ex[k].first; i < ex[k].last; ++i) { cur.push_back(i); box_rec(ex, k + 1, cur, out); cur.pop_back(); }
}
static std::vector<std::vector<long>> box(std::vector<Ex> const& ex) { std::vector<std::vector<long>> out; std::vector<long> cur; box_rec(ex, 0, cur, out); return out; }
static bool in_box(std::vector<Ex> const& ex, std::vector<long> const& idx) {
	for(std::size_t k = 0; k < ex.size(); ++k) if(idx[k] < ex[k].first || idx[k] >= ex[k].last) return false;
	return true;
}
static long row_major(std::vector<Ex> const& ex, std::vector<long> const& idx) {
	long pos = 0; for(std::size_t k = 0; k < ex.size(); ++k) pos = pos * ex[k].size() + (idx[k] - ex[k].first);
	return pos;
}
static std::string fmt_exts(std::vector<Ex> const& ex) {
	std::string s; for(std::size_t k = 0; k < ex.size(); ++k) { if(k) s += ' '; s += std::to_string(ex[k].first) + ":" + std::to_string(ex[k].last); }
	return s;
}
static std::vector<std::string> split(std::string const& s, char c) {
	std::vector<std::string> out; std::string cur;
	for(char ch : s) { if(ch == c) { out.push_back(cur); cur.clear(); } else cur += ch; }
	out.push_back(cur); return out;
}

// ---------------------------------------------------------------------------------------------------- element types
struct Str {  // not trivially copyable, not trivially default constructible; Str{} prints as 0
	std::string s;
	Str() = default;
	Str(long v) : s("#" + std::to_string(v) + "#........................") {}  // NOLINT: implicit on purpose (conversion from the other element type)
};
static long to_long(int v) { return v; }
static long to_long(long v) { return v; }
static long to_long(Str const& v) { return v.s.empty() ? 0 : std::stol(v.s.substr(1)); }
template<class T> T from_long(long v) { return T(v); }

using Val = std::optional<long>;  // nullopt = indeterminate (uninitialised storage of a trivial element type)

struct Ref {  // reference value of one pool slot
	bool live = false;
	int D = 0;
	std::vector<Ex> ex;
	std::vector<Val> el;
};

template<multi::dimensionality_type D> multi::extensions_t<D> mk_exts(std::vector<Ex> const& ex) {
	if constexpr(D == 0) { return multi::extensions_t<0>{}; }
	else {
		std::array<multi::iextension, static_cast<std::size_t>(D)> arr;
		for(std::size_t k = 0; k < static_cast<std::size_t>(D); ++k) arr[k] = multi::iextension{ex[k].first, ex[k].last};
		return std::apply([](auto... e) { return multi::extensions_t<D>{e...}; }, arr);
	}
}
template<class V> std::vector<Ex> exts_of(V const& v) {
	std::vector<Ex> r;
	if constexpr(std::decay_t<V>::rank_v > 0) {
		std::apply([&](auto const&... e) { (r.push_back(Ex{static_cast<long>(e.first()), static_cast<long>(e.last())}), ...); }, v.extensions().base());
	}
	return r;
}
template<class V> decltype(auto) at(V&& v, long const* idx) {
	constexpr auto D = std::decay_t<V>::rank_v;
	if constexpr(D == 1) { return v[idx[0]]; } else { return at(v[idx[0]], idx + 1); }
}

struct CallArg { int kind; long a, b; };  // 0 index, 1 range, 2 ALL

// Two groups of operations do not compile against some trees (open findings assign-extensions-compile and zero-dim-debug-asserts);
// tools/value_common.py probes the tree and defines these macros when they do.
#ifdef VALUE_HAVE_ASSIGN_FILL
constexpr bool have_assign_fill = true;
#else
constexpr bool have_assign_fill = false;
#endif
#ifdef VALUE_HAVE_ZERO_D
constexpr bool have_zero_d = true;
#else
constexpr bool have_zero_d = false;
#endif

template<class T, class U>
struct H {
	static constexpr bool trivial = std::is_trivially_default_constructible_v<T>;
#if PTR_KIND == 0
	template<multi::dimensionality_type D> using A  = multi::array<T, D>;
	template<multi::dimensionality_type D> using UA = multi::array<U, D>;
	using Ptr = T*;
	template<class P> static char const* raw_pos(P p) { return reinterpret_cast<char const*>(p); }
	static Ptr to_mut_ptr(T const* p) { return const_cast<T*>(p); }
#else
	template<multi::dimensionality_type D> using A  = multi::array<T, D, fancy::fancy_alloc<T>>;
	template<multi::dimensionality_type D> using UA = multi::array<U, D, fancy::fancy_alloc<U>>;
	using Ptr = fancy::xptr<T>;
	// position of a pointer as an address, computed from the offset — never by dereferencing
	template<class E> static char const* raw_pos(fancy::xptr<E> const& p) {
		return static_cast<char const*>(fancy::g_origin) + p.off() * static_cast<std::ptrdiff_t>(sizeof(E));
	}
	template<class E> static Ptr to_mut_ptr(fancy::xptr<E> const& p) { return Ptr::at(p.off()); }
#endif
	using Slot  = std::variant<std::monostate, A<0>, A<1>, A<2>, A<3>, A<4>>;
	using USlot = std::variant<std::monostate, UA<1>, UA<2>, UA<3>, UA<4>>;
	static constexpr int NT = 8, NU = 2, NS = NT + NU, NV = 4;

	template<multi::dimensionality_type D> struct VS { static constexpr multi::dimensionality_type rank = D; multi::layout_t<D> lay; Ptr base; };
	using AnyView = std::variant<VS<1>, VS<2>, VS<3>, VS<4>>;
	struct VReg { bool valid = false; int src = -1; AnyView av; };

	Slot  slots[NT];
	USlot uslots[NU];
	Ref   refs[NS];
	VReg  vregs[NV];

	// ------------------------------------------------------------------------------------------------ access helpers
	template<class F> void with(int k, F&& f) {
		if(k < NT) std::visit([&](auto& a) { if constexpr(!std::is_same_v<std::decay_t<decltype(a)>, std::monostate>) f(a); else die("empty slot"); }, slots[k]);
		else std::visit([&](auto& a) { if constexpr(!std::is_same_v<std::decay_t<decltype(a)>, std::monostate>) f(a); else die("empty slot"); }, uslots[k - NT]);
	}
	template<class F> void with_t(int k, F&& f) {
		if(k >= NT) die("T slot expected");
		std::visit([&](auto& a) { if constexpr(!std::is_same_v<std::decay_t<decltype(a)>, std::monostate>) f(a); else die("empty slot"); }, slots[k]);
	}
	template<class F> void with_tt(int a, int b, F&& f) {  // two T arrays of the same dimensionality (possibly the same object)
		std::visit([&](auto& x, auto& y) {
			using X = std::decay_t<decltype(x)>; using Y = std::decay_t<decltype(y)>;
			if constexpr(std::is_same_v<X, Y> && !std::is_same_v<X, std::monostate>) f(x, y); else die("dimension mismatch");
		}, slots[a], slots[b]);
	}
	template<class F> void with_tu(int a, int b, F&& f) {  // T array and U array of the same dimensionality
		std::visit([&](auto& x, auto& y) {
			using X = std::decay_t<decltype(x)>; using Y = std::decay_t<decltype(y)>;
			if constexpr(!std::is_same_v<X, std::monostate> && !std::is_same_v<Y, std::monostate>) {
				if constexpr(X::rank_v == Y::rank_v) f(x, y); else die("dimension mismatch");
			} else die("empty slot");
		}, slots[a], uslots[b - NT]);
	}
	[[noreturn]] static void die(char const* what) { std::fprintf(stderr, "harness: %s\n", what); std::fflush(nullptr); std::_Exit(9); }
	static void internal(char const* what) { ++g_internal; std::fprintf(fans, "INTERNAL %s\n", what); }

	bool live(int k) const { return k < NT ? slots[k].index() != 0 : uslots[k - NT].index() != 0; }

	struct Info { int D = 0; std::vector<Ex> ex; long n = 0; char const* p = nullptr; std::size_t bytes = 0; };
	Info info(int k) {
		Info r;
		with(k, [&](auto& a) {
			using AT = std::decay_t<decltype(a)>;
			r.D = static_cast<int>(AT::rank_v); r.ex = exts_of(a); r.n = static_cast<long>(a.num_elements());
			r.p = raw_pos(a.data_elements()); r.bytes = static_cast<std::size_t>(r.n) * sizeof(typename AT::element_type);
			if constexpr(AT::rank_v > 0) {
				if(static_cast<long>(a.size()) != (r.ex.empty() ? 0 : r.ex[0].size())) internal("size() != extension().size()");
				if(a.is_empty() != (a.size() == 0)) internal("is_empty() != (size() == 0)");
			}
		});
		return r;
	}
	// element values in canonical order through operator[] chains; positions the reference marks indeterminate are not read
	std::vector<Val> values(int k, std::vector<Val> const* mask) {
		std::vector<Val> out;
		with(k, [&](auto& a) {
			using AT = std::decay_t<decltype(a)>;
			auto const& ca = a;
			if constexpr(AT::rank_v == 0) {
				bool det = !mask || (mask->size() == 1 && (*mask)[0].has_value());
				out.push_back(det ? Val{to_long(*ca.base())} : Val{});
			} else {
				auto idxs = box(exts_of(a));
				bool usemask = mask && mask->size() == idxs.size();
				for(std::size_t i = 0; i < idxs.size(); ++i) {
					if(usemask && !(*mask)[i].has_value()) { out.push_back(Val{}); continue; }
					out.push_back(Val{to_long(at(ca, idxs[i].data()))});
				}
				// the flat range and the storage order designate the same elements
				if(static_cast<long>(idxs.size()) != static_cast<long>(a.num_elements())) internal("box size != num_elements()");
				else {
					long i = 0; bool ok = true;
					for(auto it = ca.elements().begin(); it != ca.elements().end(); ++it, ++i) { if(&*it != &at(ca, idxs[static_cast<std::size_t>(i)].data())) ok = false; }
					if(i != static_cast<long>(idxs.size())) ok = false;
					for(std::size_t j = 0; j < idxs.size(); ++j) { if(raw_pos(ca.data_elements() + static_cast<std::ptrdiff_t>(j)) != reinterpret_cast<char const*>(&at(ca, idxs[j].data()))) ok = false; }
					if(!ok) std::fprintf(fans, "REF-MISMATCH slot %d: elements() / data_elements() order differs from operator[] order\n", k);
				}
			}
		});
		return out;
	}
	static std::string fmt_vals(std::vector<Val> const& v) {
		std::string s; for(std::size_t i = 0; i < v.size(); ++i) { if(i) s += ' '; s += v[i] ? std::to_string(*v[i]) : std::string("?"); }
		return s;
	}
	std::string token(int k, Info const& ik) {
		if(ik.n == 0) return "-";
		for(int j = 0; j < NS; ++j) {
			if(!live(j)) continue;
			Info ij = (j == k) ? ik : info(j);
			if(ij.n == 0) continue;
			if(ij.p < ik.p + ik.bytes && ik.p < ij.p + ij.bytes) return std::to_string(j);
		}
		return "?";
	}
	void print_arr(int k) {
		Info ik = info(k);
		auto vals = values(k, refs[k].live ? &refs[k].el : nullptr);
		std::fprintf(fans, "arr %d %d | %s | %ld | %s | st=%s\n", k, ik.D, fmt_exts(ik.ex).c_str(), ik.n, fmt_vals(vals).c_str(), token(k, ik).c_str());
		// reference check
		Ref const& r = refs[k];
		if(!r.live) { std::fprintf(fans, "REF-MISMATCH slot %d: live in the pool, dead in the reference\n", k); return; }
		bool ok = r.D == ik.D && r.ex.size() == ik.ex.size() && static_cast<long>(r.el.size()) == ik.n && vals.size() == r.el.size();
		if(ok) for(std::size_t d = 0; d < r.ex.size(); ++d) if(r.ex[d].first != ik.ex[d].first || r.ex[d].last != ik.ex[d].last) ok = false;
		if(ok) for(std::size_t i = 0; i < vals.size(); ++i) if(r.el[i].has_value() && (!vals[i].has_value() || *vals[i] != *r.el[i])) ok = false;
		if(!ok) std::fprintf(fans, "REF-MISMATCH slot %d: reference %d | %s | %zu | %s\n", k, r.D, fmt_exts(r.ex).c_str(), r.el.size(), fmt_vals(r.el).c_str());
	}
	void q_all() {
		for(int k = 0; k < NS; ++k) if(live(k)) print_arr(k);
		// pairwise disjointness of the data_elements() ranges of live arrays
		for(int a = 0; a < NS; ++a) for(int b = a + 1; b < NS; ++b) {
			if(!live(a) || !live(b)) continue;
			Info ia = info(a), ib = info(b);
			if(ia.n == 0 || ib.n == 0) continue;
			if(ia.p < ib.p + ib.bytes && ib.p < ia.p + ia.bytes) std::fprintf(fans, "OVERLAP %d %d\n", a, b);
		}
		for(int k = 0; k < NS; ++k) if(refs[k].live && !live(k)) std::fprintf(fans, "REF-MISMATCH slot %d: dead in the pool, live in the reference\n", k);
	}

	// ------------------------------------------------------------------------------------------------ views
	template<multi::dimensionality_type D> static auto mk(VS<D> const& s) { return multi::subarray<T, D, Ptr>(s.lay, s.base); }
	template<class V> static AnyView store(V&& v) {
		constexpr auto D = std::decay_t<V>::rank_v;
		if constexpr(D >= 1 && D <= 4) { return AnyView{VS<D>{v.layout(), to_mut_ptr(v.base())}}; }
		else { die("view dimensionality out of range"); }
	}
	static int view_dim(AnyView const& av) { return static_cast<int>(av.index()) + 1; }

	template<class V, class... As> static AnyView call_rec(V&& v, CallArg const* a, int k, As... as) {
		if(k == 0) {
			if constexpr(sizeof...(As) == 0) { return store(v()); }
			else {
				using R = decltype(v(as...));
				if constexpr(std::is_reference_v<R> && !std::is_class_v<std::remove_reference_t<R>>) { die("call yields an element"); }
				else if constexpr(std::is_same_v<std::decay_t<R>, T>) { die("call yields an element"); }
				else { return store(v(as...)); }
			}
		}
		if constexpr(sizeof...(As) < 3 && sizeof...(As) < static_cast<std::size_t>(std::decay_t<V>::rank_v)) {
			switch(a->kind) {
				case 0: return call_rec(v, a + 1, k - 1, as..., static_cast<idx_t>(a->a));
				case 1: return call_rec(v, a + 1, k - 1, as..., multi::irange{a->a, a->b});
				default: return call_rec(v, a + 1, k - 1, as..., multi::ALL);
			}
		} else { die("too many call arguments"); }
	}
	static std::vector<CallArg> parse_call(std::string const& s) {
		std::vector<CallArg> out;
		for(auto const& t : split(s, ',')) {
			if(t == "a") out.push_back(CallArg{2, 0, 0});
			else if(t[0] == 'i') out.push_back(CallArg{0, std::stol(t.substr(1)), 0});
			else { auto u = t.find('_'); out.push_back(CallArg{1, std::stol(t.substr(1, u - 1)), std::stol(t.substr(u + 1))}); }
		}
		return out;
	}
	template<multi::dimensionality_type D> static AnyView apply_view_op(VS<D> const& s, std::string const& tok) {
		auto&& v = mk(s);
		auto w = split(tok, ':');
		auto const& n = w[0];
		auto num = [&](std::size_t i) { return std::stol(w[i]); };
		if(n == "rotated") return store(v.rotated());
		if(n == "unrotated") return store(v.unrotated());
		if(n == "reversed") return store(v.reversed());
		if(n == "sliced") return store(v.sliced(num(1), num(2)));
		if(n == "strided") return store(v.strided(num(1)));
		if(n == "dropped") return store(v.dropped(num(1)));
		if(n == "taked") return store(v.taked(num(1)));
		if(n == "call") { auto c = parse_call(w[1]); if(static_cast<int>(c.size()) <= static_cast<int>(D)) return call_rec(v, c.data(), static_cast<int>(c.size())); }
		if constexpr(D >= 2) {
			if(n == "transposed") return store(v.transposed());
			if(n == "index") return store(v[num(1)]);
		}
		die("view op not applicable");
	}
	AnyView root_view(int src) {
		AnyView out;
		with_t(src, [&](auto& a) {
			using AT = std::decay_t<decltype(a)>;
			if constexpr(AT::rank_v >= 1) out = store(a()); else die("view of a 0-D array");
		});
		return out;
	}
	AnyView build_view(int src, std::vector<std::string> const& ops) {
		AnyView cur = root_view(src);
		for(auto const& t : ops) cur = std::visit([&](auto const& s) { return apply_view_op(s, t); }, cur);
		return cur;
	}
	// extents and element values (from the REFERENCE of the source array, located through the element addresses)
	void view_value(AnyView const& av, int src, std::vector<Ex>& ex, std::vector<Val>& vals, bool from_ref) {
		Info is = info(src);
		std::visit([&](auto const& s) {
			auto&& v = mk(s);
			ex = exts_of(v);
			for(auto const& idx : box(ex)) {
				T const* p = &at(v, idx.data());
				long off = static_cast<long>(p - reinterpret_cast<T const*>(is.p));
				if(off < 0 || off >= is.n) { std::fprintf(fans, "REF-MISMATCH view of slot %d designates an element outside the array (offset %ld)\n", src, off); vals.push_back(Val{}); continue; }
				if(from_ref) vals.push_back(refs[src].el[static_cast<std::size_t>(off)]);
				else vals.push_back(refs[src].el[static_cast<std::size_t>(off)].has_value() ? Val{to_long(*p)} : Val{});
			}
		}, av);
	}

	// ------------------------------------------------------------------------------------------------ nested lists
	template<multi::dimensionality_type D> using value_type_t = typename A<D>::value_type;

	template<multi::dimensionality_type D, std::size_t... I> static A<D> il_ctor(std::vector<value_type_t<D>> const& rows, std::index_sequence<I...> /*unused*/) {
		std::initializer_list<value_type_t<D>> il{rows[I]...};
		return A<D>(il);
	}
	template<multi::dimensionality_type D> static A<D> il_ctor_n(std::vector<value_type_t<D>> const& rows) {
		switch(rows.size()) {
			case 0: return il_ctor<D>(rows, std::make_index_sequence<0>{});
			case 1: return il_ctor<D>(rows, std::make_index_sequence<1>{});
			case 2: return il_ctor<D>(rows, std::make_index_sequence<2>{});
			case 3: return il_ctor<D>(rows, std::make_index_sequence<3>{});
			case 4: return il_ctor<D>(rows, std::make_index_sequence<4>{});
			default: die("initializer list too long");
		}
	}
	template<multi::dimensionality_type D, std::size_t... I> static void il_assign(A<D>& a, std::vector<value_type_t<D>> const& rows, std::index_sequence<I...> /*unused*/) {
		std::initializer_list<value_type_t<D>> il{rows[I]...};
		a = il;
	}
	template<multi::dimensionality_type D> static void il_assign_n(A<D>& a, std::vector<value_type_t<D>> const& rows) {
		switch(rows.size()) {
			case 0: a = {}; return;
			case 1: il_assign<D>(a, rows, std::make_index_sequence<1>{}); return;
			case 2: il_assign<D>(a, rows, std::make_index_sequence<2>{}); return;
			case 3: il_assign<D>(a, rows, std::make_index_sequence<3>{}); return;
			case 4: il_assign<D>(a, rows, std::make_index_sequence<4>{}); return;
			default: die("initializer list too long");
		}
	}
	// the rows of a D-dimensional nested list with the given sizes, values consumed in order; inner arrays are themselves
	// built from initializer lists
	template<multi::dimensionality_type D> static std::vector<value_type_t<D>> build_rows(long const* sizes, long const*& vals) {
		std::vector<value_type_t<D>> rows;
		for(long i = 0; i < sizes[0]; ++i) {
			if constexpr(D == 1) { rows.push_back(from_long<T>(*vals++)); }
			else { rows.push_back(il_ctor_n<D - 1>(build_rows<D - 1>(sizes + 1, vals))); }
		}
		return rows;
	}

	// ------------------------------------------------------------------------------------------------ executing one op line
	static std::vector<Ex> read_exts(std::vector<std::string> const& w, std::size_t& i) {
		int D = std::stoi(w[i++]);
		std::vector<Ex> ex;
		for(int k = 0; k < D; ++k) { long f = std::stol(w[i]); long l = std::stol(w[i + 1]); i += 2; ex.push_back(Ex{f, l}); }
		return ex;
	}
	struct List { int D; std::vector<long> sizes; std::vector<long> vals; };
	static List read_list(std::vector<std::string> const& w, std::size_t& i) {
		List l; l.D = std::stoi(w[i++]);
		for(int k = 0; k < l.D; ++k) l.sizes.push_back(std::stol(w[i++]));
		if(i < w.size() && w[i] == ":") ++i;
		while(i < w.size()) l.vals.push_back(std::stol(w[i++]));
		return l;
	}
	struct ViewSpec { int src; std::vector<std::string> ops; };
	static ViewSpec read_view(std::vector<std::string> const& w, std::size_t& i) {
		ViewSpec v; v.src = std::stoi(w[i++]); int k = std::stoi(w[i++]);
		for(int j = 0; j < k; ++j) v.ops.push_back(w[i++]);
		return v;
	}
	void invalidate_views(int slot) { for(auto& r : vregs) if(r.src == slot) r.valid = false; }

	template<class F> static void dimD(int D, F&& f) {
		switch(D) {
			case 0: f(std::integral_constant<multi::dimensionality_type, 0>{}); return;
			case 1: f(std::integral_constant<multi::dimensionality_type, 1>{}); return;
			case 2: f(std::integral_constant<multi::dimensionality_type, 2>{}); return;
			case 3: f(std::integral_constant<multi::dimensionality_type, 3>{}); return;
			case 4: f(std::integral_constant<multi::dimensionality_type, 4>{}); return;
			default: die("dimensionality out of range");
		}
	}
	template<class F> static void dimD1(int D, F&& f) { if(D == 0) die("D >= 1 expected"); dimD(D, [&](auto d) { if constexpr(decltype(d)::value >= 1) f(d); }); }

	Val dflt_val() const { return trivial ? Val{} : Val{0}; }
	static char const* rel(bool b) { return b ? "1" : "0"; }

	void set_ref(int k, int D, std::vector<Ex> const& requested, std::vector<Val> vals) {
		refs[k].live = true; refs[k].D = D; refs[k].ex = collapse(requested); refs[k].el = std::move(vals);
	}
	void set_ref_empty(int k, int D) { refs[k].live = true; refs[k].D = D; refs[k].ex.assign(static_cast<std::size_t>(D), Ex{0, 0}); refs[k].el.clear(); }

	std::string note_assign(int dst, List const& l) {
		Info id = info(dst);
		long size0 = id.ex.empty() ? 0 : id.ex[0].size();
		std::vector<Ex> inner, row;
		for(std::size_t k = 1; k < l.sizes.size(); ++k) inner.push_back(Ex{0, l.sizes[k]});
		for(std::size_t k = 1; k < id.ex.size(); ++k) row.push_back(id.ex[k]);
		long count = l.sizes[0];
		std::string inn = count == 0 ? "none" : (exs_eqv(inner, row) ? "eq" : "ne");
		return "note assign D=" + std::to_string(id.D) + " count=" + std::to_string(count) + " outer=" + (count == size0 ? "eq" : "ne") + " inner=" + inn;
	}
	// reference of assign(first,last) / operator=(initializer_list): the requested contents; the extents (index bases) are kept
	// when the shape already matches
	void ref_assign_list(int dst, List const& l) {
		Ref& r = refs[dst];
		std::vector<Ex> inner, row;
		for(std::size_t k = 1; k < l.sizes.size(); ++k) inner.push_back(Ex{0, l.sizes[k]});
		for(std::size_t k = 1; k < r.ex.size(); ++k) row.push_back(r.ex[k]);
		long count = l.sizes[0];
		std::vector<Val> vals; for(long v : l.vals) vals.push_back(Val{v});
		if(count == r.ex[0].size() && (count == 0 || exs_eqv(inner, row))) { if(count != 0) r.el = vals; return; }
		std::vector<Ex> ex; for(long s : l.sizes) ex.push_back(Ex{0, s});
		if(count == 0) for(std::size_t k = 1; k < ex.size(); ++k) ex[k] = Ex{0, 0};
		set_ref(dst, r.D, ex, vals);
	}

	void exec(std::vector<std::string> const& w) {
		std::string const& op = w[1];
		std::size_t i = 3;
		int dst = w.size() > 2 ? std::stoi(w[2]) : -1;
		std::string facts;
		if(op == "dflt") {
			int D = std::stoi(w[3]);
			dimD(D, [&](auto d) {
				constexpr auto DD = decltype(d)::value;
				if constexpr(DD == 0 && !have_zero_d) die("0-D default constructor not available in this tree"); else slots[dst].template emplace<A<DD>>();
			});
			if(D == 0) set_ref(dst, 0, {}, {dflt_val()}); else set_ref_empty(dst, D);
		} else if(op == "exts") {
			auto ex = read_exts(w, i); int D = static_cast<int>(ex.size());
			dimD(D, [&](auto d) {
				constexpr auto DD = decltype(d)::value;
				if constexpr(DD == 0 && !have_zero_d) die("0-D constructor from extensions not available in this tree"); else slots[dst].template emplace<A<DD>>(mk_exts<DD>(ex));
			});
			set_ref(dst, D, ex, std::vector<Val>(static_cast<std::size_t>(nelems(ex)), dflt_val()));
		} else if(op == "fill") {
			auto ex = read_exts(w, i); int D = static_cast<int>(ex.size()); long v = std::stol(w[i]);
			bool us = dst >= NT;
			dimD(D, [&](auto d) {
				constexpr auto DD = decltype(d)::value;
				if(us) { if constexpr(DD >= 1) uslots[dst - NT].template emplace<UA<DD>>(mk_exts<DD>(ex), from_long<U>(v)); else die("0-D U array"); }
				else if constexpr(DD == 0) slots[dst].template emplace<A<0>>(from_long<T>(v));
				else slots[dst].template emplace<A<DD>>(mk_exts<DD>(ex), from_long<T>(v));
			});
			set_ref(dst, D, ex, std::vector<Val>(static_cast<std::size_t>(nelems(ex)), Val{v}));
		} else if(op == "copy") {
			int src = std::stoi(w[3]);
			with_t(src, [&](auto& a) {
				using AT = std::decay_t<decltype(a)>; auto const& ca = a;
				if constexpr(AT::rank_v == 0 && !have_zero_d) die("0-D copy constructor not available in this tree"); else slots[dst].template emplace<AT>(ca);
			});
			refs[dst] = refs[src];
		} else if(op == "conv") {
			int src = std::stoi(w[3]);
			with(src, [&](auto& a) {
				using AT = std::decay_t<decltype(a)>;
				if constexpr(std::is_same_v<typename AT::element_type, U> && !std::is_same_v<T, U>) { auto const& ca = a; slots[dst].template emplace<A<AT::rank_v>>(ca); }
				else die("conv: source must be an array of the other element type");
			});
			refs[dst] = refs[src];
		} else if(op == "move") {
			int src = std::stoi(w[3]);
			Info before = info(src);
			with_t(src, [&](auto& a) { using AT = std::decay_t<decltype(a)>; if constexpr(AT::rank_v >= 1) slots[dst].template emplace<AT>(std::move(a)); else die("move of a 0-D array"); });
			Info after = info(dst);
			facts = std::string(" xfer=") + (before.n == 0 ? "-" : rel(after.p == before.p && after.n == before.n));
			refs[dst] = refs[src]; set_ref_empty(src, refs[dst].D);
			invalidate_views(src);
		} else if(op == "vctor" || op == "decayv") {
			auto vs = read_view(w, i);
			AnyView av = build_view(vs.src, vs.ops);
			std::vector<Ex> ex; std::vector<Val> vals; view_value(av, vs.src, ex, vals, true);
			int how = (i < w.size()) ? std::stoi(w[i]) : 0;
			std::visit([&](auto const& s) {
				using S = std::decay_t<decltype(s)>;
				constexpr auto DD = S::rank;
				auto&& v = mk(s);
				if(op == "vctor") {
					if(how == 0) slots[dst].template emplace<A<DD>>(v);
					else if(how == 1) slots[dst].template emplace<A<DD>>(mk(s));
					else slots[dst].template emplace<A<DD>>(static_cast<multi::const_subarray<T, DD, Ptr> const&>(v));
				} else {
					if(how == 0) slots[dst].template emplace<A<DD>>(+v);
					else if(how == 1) slots[dst].template emplace<A<DD>>(v.decay());
					else slots[dst].template emplace<A<DD>>(decay(static_cast<multi::const_subarray<T, DD, Ptr> const&>(v)));
				}
			}, av);
			set_ref(dst, view_dim(av), ex, vals);
		} else if(op == "il" || op == "rctor") {
			auto l = read_list(w, i);
			bool us = dst >= NT;
			dimD1(l.D, [&](auto d) {
				constexpr auto DD = decltype(d)::value;
				long const* vp = l.vals.data();
				if(us) {
					if(l.D != 1) die("U arrays from lists are 1-D");
					std::vector<U> row; for(long v : l.vals) row.push_back(from_long<U>(v));
					if constexpr(DD == 1) uslots[dst - NT].template emplace<UA<1>>(row.begin(), row.end());
				} else {
					auto rows = build_rows<DD>(l.sizes.data(), vp);
					if(op == "il") slots[dst].template emplace<A<DD>>(il_ctor_n<DD>(rows));
					else slots[dst].template emplace<A<DD>>(rows.begin(), rows.end());
				}
			});
			if(op == "rctor") std::fprintf(fans, "note range D=%d count=%ld\n", l.D, l.sizes[0]);
			std::vector<Ex> ex; for(long s : l.sizes) ex.push_back(Ex{0, s});
			if(l.sizes[0] == 0) for(std::size_t k = 1; k < ex.size(); ++k) ex[k] = Ex{0, 0};
			std::vector<Val> vals; for(long v : l.vals) vals.push_back(Val{v});
			set_ref(dst, l.D, ex, vals);
		} else if(op == "massign") {
			int src = std::stoi(w[3]);
			Info before = info(src);
			with_tt(dst, src, [&](auto& a, auto& b) { using AT = std::decay_t<decltype(a)>; if constexpr(AT::rank_v >= 1) a = std::move(b); else die("move of a 0-D array"); });
			Info after = info(dst);
			facts = std::string(" xfer=") + ((before.n == 0 || dst == src) ? "-" : rel(after.p == before.p && after.n == before.n));
			if(dst != src) { refs[dst] = refs[src]; set_ref_empty(src, refs[dst].D); invalidate_views(src); }
			invalidate_views(dst);
		} else if(op == "cassign") {
			int src = std::stoi(w[3]);
			with_tt(dst, src, [&](auto& a, auto& b) { auto const& cb = b; a = cb; });
			if(dst != src) refs[dst] = refs[src];
			invalidate_views(dst);
		} else if(op == "vassign" || op == "rassign") {
			auto vs = read_view(w, i);
			AnyView av = build_view(vs.src, vs.ops);
			std::vector<Ex> ex; std::vector<Val> vals; view_value(av, vs.src, ex, vals, true);
			if(op == "rassign") { Info id = info(dst); std::fprintf(fans, "note rassign n=%ld vn=%ld eqv=%d\n", id.n, nelems(ex), exs_eqv(id.ex, ex) ? 1 : 0); }
			with_t(dst, [&](auto& a) {
				using AT = std::decay_t<decltype(a)>;
				std::visit([&](auto const& s) {
					using S = std::decay_t<decltype(s)>;
					constexpr auto DD = S::rank;
					if constexpr(DD == AT::rank_v) {
						auto&& v = mk(s);
						if(op == "vassign") a = static_cast<multi::const_subarray<T, DD, Ptr> const&>(v);  // array::operator=(const_subarray const&)
						else a = v;                                                                        // array::operator=(Range&&)
					} else die("view/array dimension mismatch");
				}, av);
			});
			// the extents of the target are kept when they already equal the view's
			if(!exs_eqv(refs[dst].ex, ex)) set_ref(dst, refs[dst].D, ex, vals); else refs[dst].el = vals;
			invalidate_views(dst);
		} else if(op == "convassign") {
			int src = std::stoi(w[3]);
			with_tu(dst, src, [&](auto& a, auto& b) { auto const& cb = b; a = cb; });
			refs[dst] = refs[src];
			invalidate_views(dst);
		} else if(op == "ilassign" || op == "assignr") {
			auto l = read_list(w, i);
			std::fprintf(fans, "%s\n", note_assign(dst, l).c_str());
			with_t(dst, [&](auto& a) {
				using AT = std::decay_t<decltype(a)>;
				if constexpr(AT::rank_v >= 1) {
					if(l.D != static_cast<int>(AT::rank_v)) die("list/array dimension mismatch");
					long const* vp = l.vals.data();
					auto rows = build_rows<AT::rank_v>(l.sizes.data(), vp);
					if(op == "ilassign") il_assign_n<AT::rank_v>(a, rows);
					else a.assign(rows.begin(), rows.end());
				} else die("list assignment to a 0-D array");
			});
			if(op == "ilassign" && l.sizes[0] == 0) set_ref_empty(dst, refs[dst].D);  // `A = {}` clears
			else ref_assign_list(dst, l);
			invalidate_views(dst);
		} else if(op == "assignf") {
			auto ex = read_exts(w, i); long v = std::stol(w[i]);
			with_t(dst, [&](auto& a) {
				using AT = std::decay_t<decltype(a)>;
				if constexpr(AT::rank_v >= 1 && have_assign_fill) a.assign(mk_exts<AT::rank_v>(ex), from_long<T>(v)); else die("assign(extensions, value) not available");
			});
			if(exs_eqv(refs[dst].ex, ex)) std::fill(refs[dst].el.begin(), refs[dst].el.end(), Val{v});
			else set_ref(dst, refs[dst].D, ex, std::vector<Val>(static_cast<std::size_t>(nelems(ex)), Val{v}));
			invalidate_views(dst);
		} else if(op == "swap") {
			int src = std::stoi(w[3]); std::string kind = w[4];
			Info ba = info(dst), bb = info(src);
			with_tt(dst, src, [&](auto& a, auto& b) {
				using AT = std::decay_t<decltype(a)>;
				if constexpr(AT::rank_v >= 1) {
					if(kind == "member") a.swap(b);
					else if(kind == "adl") { using std::swap; swap(a, b); }
					else std::swap(a, b);
				} else die("swap of 0-D arrays");
			});
			Info aa = info(dst), ab = info(src);
			if(dst == src) facts = " xchg=-";
			else facts = std::string(" xchg=") + (bb.n == 0 ? "-" : rel(aa.p == bb.p && aa.n == bb.n)) + (ba.n == 0 ? "-" : rel(ab.p == ba.p && ab.n == ba.n));
			if(dst != src) std::swap(refs[dst], refs[src]);
			invalidate_views(dst); invalidate_views(src);
		} else if(op == "decay") {
			int src = std::stoi(w[3]); std::string kind = w[4];
			with_t(src, [&](auto& a) {
				using AT = std::decay_t<decltype(a)>; auto const& ca = a;
				if constexpr(AT::rank_v >= 1) {
					if(kind == "plus") slots[dst].template emplace<AT>(+ca);
					else slots[dst].template emplace<AT>(ca.decay());   // array_ref::decay(): returned a dangling reference for non-T* pointers until 84c5929
				} else die("decay of a 0-D array");
			});
			refs[dst] = refs[src];
		} else if(op == "write") {
			std::vector<long> xs; for(std::size_t j = 3; j < w.size(); ++j) xs.push_back(std::stol(w[j]));
			long v = xs.back(); xs.pop_back();
			with_t(dst, [&](auto& a) {
				using AT = std::decay_t<decltype(a)>;
				if constexpr(AT::rank_v == 0) a = from_long<T>(v);
				else { if(xs.size() != static_cast<std::size_t>(AT::rank_v)) die("index tuple length"); at(a, xs.data()) = from_long<T>(v); }
			});
			if(refs[dst].D == 0) refs[dst].el[0] = Val{v}; else refs[dst].el[static_cast<std::size_t>(row_major(refs[dst].ex, xs))] = Val{v};
		} else if(op == "clear") {
			with_t(dst, [&](auto& a) { using AT = std::decay_t<decltype(a)>; if constexpr(AT::rank_v >= 1) a.clear(); else die("0-D"); });
			set_ref_empty(dst, refs[dst].D);
			invalidate_views(dst);
		} else if(op == "reshape") {
			auto ex = read_exts(w, i);
			Info before = info(dst);
			with_t(dst, [&](auto& a) { using AT = std::decay_t<decltype(a)>; if constexpr(AT::rank_v >= 1) a.reshape(mk_exts<AT::rank_v>(ex)); else die("0-D"); });
			Info after = info(dst);
			facts = std::string(" keep=") + (before.n == 0 ? "-" : rel(after.p == before.p && after.n == before.n));
			refs[dst].ex = collapse(ex);
			invalidate_views(dst);
		} else if(op == "reext" || op == "reextv" || op == "reextm") {
			auto ex = read_exts(w, i);
			long v = op == "reextv" ? std::stol(w[i]) : 0;
			Info before = info(dst);
			bool same = exs_eqv(ex, before.ex);
			with_t(dst, [&](auto& a) {
				using AT = std::decay_t<decltype(a)>;
				if constexpr(AT::rank_v >= 1) {
					auto xs = mk_exts<AT::rank_v>(ex);
					if(op == "reext") a.reextent(xs);
					else if(op == "reextv") a.reextent(xs, from_long<T>(v));
					else std::move(a).reextent(xs);
				} else die("0-D");
			});
			Info after = info(dst);
			facts = std::string(" keep=") + (!same ? "-" : (before.n == 0 ? "-" : rel(after.p == before.p && after.n == before.n)));
			if(same) {
				// reextent to the current extents keeps the storage: views taken before stay valid (not invalidated here on purpose)
				if(before.n != 0 && after.p != before.p) std::fprintf(fans, "REF-MISMATCH slot %d: reextent to the same extents changed data_elements()\n", dst);
			} else {
				Ref old = refs[dst];
				auto nex = collapse(ex);
				std::vector<Val> vals;
				for(auto const& idx : box(nex)) {
					if(op != "reextm" && in_box(old.ex, idx)) vals.push_back(old.el[static_cast<std::size_t>(row_major(old.ex, idx))]);
					else vals.push_back(op == "reextv" ? Val{v} : dflt_val());
				}
				set_ref(dst, old.D, ex, vals);
				invalidate_views(dst);
			}
		} else if(op == "destroy") {
			if(dst < NT) slots[dst].template emplace<std::monostate>(); else uslots[dst - NT].template emplace<std::monostate>();
			refs[dst] = Ref{};
			invalidate_views(dst);
		} else if(op == "view") {
			auto vs = read_view(w, i);
			vregs[dst].av = build_view(vs.src, vs.ops); vregs[dst].src = vs.src; vregs[dst].valid = true;
		} else die("unknown op");
		std::fprintf(fans, "ok %s%s\n", op.c_str(), facts.c_str());
	}

	void q_view(int r) {
		VReg const& vr = vregs[r];
		if(!vr.valid) { std::fprintf(fans, "view none\n"); return; }
		std::vector<Ex> ex; std::vector<Val> vals, want;
		view_value(vr.av, vr.src, ex, vals, false);
		view_value(vr.av, vr.src, ex, want, true);
		Info is = info(vr.src);
		std::fprintf(fans, "view %d %d | %s | %ld | %s | in=%s\n", r, view_dim(vr.av), fmt_exts(ex).c_str(), nelems(ex), fmt_vals(vals).c_str(), nelems(ex) == 0 ? "-" : token(vr.src, is).c_str());
		if(vals != want) std::fprintf(fans, "REF-MISMATCH view %d: reference %s\n", r, fmt_vals(want).c_str());
	}

	void run_line(std::string const& line) {
		std::istringstream is(line); std::vector<std::string> w; std::string t; while(is >> t) w.push_back(t);
		if(w.empty() || w[0] == "#") return;
		if(w[0] == "prog") { std::fprintf(fans, "%s\n", line.c_str()); return; }
		if(w[0] == "cfg") return;
		if(w[0] == "o") { exec(w); return; }
		if(w[0] == "q") {
			if(w[1] == "all") q_all();
			else if(w[1] == "arr") { int k = std::stoi(w[2]); if(live(k)) print_arr(k); else std::fprintf(fans, "arr none\n"); }
			else if(w[1] == "view") q_view(std::stoi(w[2]));
		}
	}
	void emit(std::string const& line) { std::fprintf(fprog, "%s\n", line.c_str()); std::fflush(fprog); run_line(line); }

	// ------------------------------------------------------------------------------------------------ generation
	bool rebased = false;
	bool full = false;      // include the input classes of the recorded findings
	bool c06 = false;       // operation weights of C06 (reextent / clear / reshape / assign) instead of C04 (copy / move / assign / swap)
	bool il_focus = false;  // more weight on lists / ranges / reextent (drawn per program in the +full streams)
	long next_val = 1;
	long fresh(Rng& /*rng*/) { long v = next_val; next_val = next_val % 97 + 1; return v; }

	static long pick_size(Rng& rng) { if(rng.coin(3)) { return (long[]){16, 17, 33}[rng.range(0, 2)]; }  /* now and then beyond the small sizes (the caps of the callers still apply) */ return (long[]){0, 1, 2, 3, 4}[rng.pick({14, 20, 30, 24, 12})]; }
	std::vector<Ex> gen_exts(Rng& rng, int D, long cap = 36) {
		std::vector<Ex> ex; long ne = 1;
		for(int k = 0; k < D; ++k) {
			long sz = pick_size(rng);
			if(ne * sz > cap) sz = 1;
			ne *= sz;
			long f = (rebased && rng.coin(60)) ? rng.range(-2, 3) : 0;
			ex.push_back(Ex{f, f + sz});
		}
		return ex;
	}
	// extents related to `ex`: per dimension same / shrink / grow / shifted / empty
	std::vector<Ex> derive_exts(Rng& rng, std::vector<Ex> const& ex, long cap = 48) {
		std::vector<Ex> out; long ne = 1;
		for(auto e : ex) {
			Ex n = e;
			switch(rng.pick({30, 18, 18, rebased ? 12 : 0, 6, 10, rebased ? 6 : 0})) {
				case 0: break;
				case 1: if(n.size() > 0) { if(rng.coin(50)) n.last -= rng.range(1, n.size()); else n.first += rebased ? rng.range(1, n.size()) : 0; } break;
				case 2: n.last += rng.range(1, 2); break;
				case 3: { long s = rng.range(-2, 2); n.first += s; n.last += s; break; }
				case 4: n.last = n.first; break;
				case 5: { long s = pick_size(rng); n.last = n.first + s; break; }
				default: { long s = rng.range(1, 3); n.first -= s; break; }
			}
			if(ne * n.size() > cap) n.last = n.first + 1;
			ne *= n.size();
			out.push_back(n);
		}
		return out;
	}
	// extents with the same number of elements as `ex` (for reshape and the reshape shortcut of assignment)
	std::vector<Ex> same_count_exts(Rng& rng, std::vector<Ex> const& ex) {
		std::vector<long> sz; for(auto const& e : ex) sz.push_back(e.size());
		long n = nelems(ex);
		int how = rng.pick({35, 35, 30});
		if(how == 0) { for(std::size_t k = sz.size(); k > 1; --k) std::swap(sz[k - 1], sz[static_cast<std::size_t>(rng.range(0, static_cast<long>(k) - 1))]); }
		else if(how == 1 && n > 0) {  // refactor: n into D factors
			long rest = n; for(std::size_t k = 0; k + 1 < sz.size(); ++k) { std::vector<long> divs; for(long d = 1; d <= rest; ++d) if(rest % d == 0) divs.push_back(d); sz[k] = divs[static_cast<std::size_t>(rng.range(0, static_cast<long>(divs.size()) - 1))]; rest /= sz[k]; }
			sz.back() = rest;
		}
		std::vector<Ex> out;
		for(std::size_t k = 0; k < sz.size(); ++k) { long f = (rebased && rng.coin(50)) ? rng.range(-2, 3) : (how == 2 ? ex[k].first : 0); out.push_back(Ex{f, f + sz[k]}); }
		return out;
	}
	static std::string exts_words(std::vector<Ex> const& ex) {
		std::string s = std::to_string(ex.size());
		for(auto const& e : ex) s += " " + std::to_string(e.first) + " " + std::to_string(e.last);
		return s;
	}
	// in a nested list an empty level has nothing below it: `{ {}, {} }` holds two empty arrays whatever was "meant" inside
	static void normalise_sizes(std::vector<long>& sizes) {
		bool zero = false;
		for(auto& z : sizes) { if(zero) z = 0; if(z == 0) zero = true; }
	}
	std::string list_words(Rng& rng, std::vector<long> const& sizes) {
		std::string s = std::to_string(sizes.size());
		long n = 1; for(long z : sizes) { s += " " + std::to_string(z); n *= z; }
		s += " :";
		for(long k = 0; k < n; ++k) s += " " + std::to_string(fresh(rng));
		return s;
	}

	std::vector<int> slots_where(bool want_live, int lo, int hi, int D = -1, int minD = 0) {
		std::vector<int> out;
		for(int k = lo; k < hi; ++k) {
			if(live(k) != want_live) continue;
			if(want_live) { int d = refs[k].D; if(D >= 0 && d != D) continue; if(d < minD) continue; }
			out.push_back(k);
		}
		return out;
	}
	static int choose(Rng& rng, std::vector<int> const& v) { return v[static_cast<std::size_t>(rng.range(0, static_cast<long>(v.size()) - 1))]; }

	// a chain of view-forming operations on slot `src`; `target` = required dimensionality of the result (or -1)
	bool gen_view(Rng& rng, int src, int target, bool identity_like, std::vector<std::string>& ops, AnyView& out) {
		for(int attempt = 0; attempt < 12; ++attempt) {
			ops.clear();
			AnyView cur = root_view(src);
			int nops = identity_like ? rng.pick({40, 60}) : static_cast<int>(rng.range(0, 3));
			// "permutation" views: a longer chain of rotated/unrotated/transposed only.  Whole arrays with permuted dimensions are compact
			// (no gaps) but not in canonical order, whichever dimensions are exchanged (leading, inner or middle ones): the layouts on
			// which a contiguity shortcut keyed on a few strides goes wrong.
			bool const perm = !identity_like && !refs[src].el.empty() && rng.coin(18);
			if(perm) nops = static_cast<int>(rng.range(2, 6));
			bool ok = true;
			for(int k = 0; k < nops && ok; ++k) {
				std::string tok;
				ok = std::visit([&](auto const& s) {
					using S = std::decay_t<decltype(s)>;
					constexpr int D = static_cast<int>(S::rank);
					auto&& v = mk(s);
					auto ex = exts_of(v);
					long f = ex[0].first, l = ex[0].last, n = ex[0].size();
					if(identity_like && refs[src].el.empty()) { tok = "rotated"; return true; }
					if(identity_like) { tok = "call:"; for(int j = 0; j < (D < 3 ? D : 3); ++j) { tok += (j ? "," : ""); tok += rng.coin(50) ? std::string("a") : ("r" + std::to_string(ex[static_cast<std::size_t>(j)].first) + "_" + std::to_string(ex[static_cast<std::size_t>(j)].last)); } return true; }
					if(perm) { if(D < 2) { tok = "rotated"; return true; } switch(rng.pick({35, 30, 35})) { case 0: tok = "rotated"; break; case 1: tok = "unrotated"; break; default: tok = "transposed"; } return true; }
					bool nostorage = refs[src].el.empty();  // no elements, possibly a null base_: only operations that do no pointer arithmetic
					for(int tries = 0; tries < 20; ++tries) {
						switch(nostorage ? rng.pick({30, 25, 25, 0, 0, 0, 0, 20, 0, 0}) : rng.pick({12, 8, 8, 8, 8, 12, 10, 8, 14, 14})) {
							case 0: tok = "rotated"; return true;
							case 1: tok = "unrotated"; return true;
							case 2: tok = "reversed"; return true;
							case 3: tok = "dropped:" + std::to_string(rng.range(0, n)); return true;
							case 4: tok = "taked:" + std::to_string(rng.range(0, n)); return true;
							case 5: { long x = rng.range(f, l); long y = rng.range(x, l); tok = "sliced:" + std::to_string(x) + ":" + std::to_string(y); return true; }
							case 6: { std::vector<long> cand; for(long k2 = 1; k2 <= (n == 0 ? 2 : n); ++k2) if((n == 0 || n % k2 == 0) && f % k2 == 0) cand.push_back(k2);
								if(!cand.empty()) { tok = "strided:" + std::to_string(cand[static_cast<std::size_t>(rng.range(0, static_cast<long>(cand.size()) - 1))]); return true; } break; }
							case 7: if(D >= 2) { tok = "transposed"; return true; } break;
							case 8: if(D >= 2 && n > 0 && (target < 0 || D > target)) { tok = "index:" + std::to_string(rng.range(f, l - 1)); return true; } break;
							default: {
								int kk = static_cast<int>(rng.range(1, D < 3 ? D : 3)); std::string t = "call:"; bool good = true; int nidx = 0;
								for(int j = 0; j < kk; ++j) {
									long fj = ex[static_cast<std::size_t>(j)].first, lj = ex[static_cast<std::size_t>(j)].last;
									int kind = rng.pick({(target < 0 || D - nidx > target) ? 30 : 0, 45, 25});
									if(j) t += ",";
									if(kind == 0) { if(lj - fj <= 0 || nidx + 1 >= D) { good = false; break; } t += "i" + std::to_string(rng.range(fj, lj - 1)); ++nidx; }
									else if(kind == 1) { long x = rng.range(fj, lj); long y = rng.range(x, lj); t += "r" + std::to_string(x) + "_" + std::to_string(y); }
									else t += "a";
								}
								if(good) { tok = t; return true; } break; }
						}
					}
					return false;
				}, cur);
				if(!ok) break;
				ops.push_back(tok);
				cur = std::visit([&](auto const& s) { return apply_view_op(s, tok); }, cur);
			}
			if(!ok) continue;
			if(target >= 0 && view_dim(cur) != target) continue;
			out = cur;
			return true;
		}
		return false;
	}
	static std::string view_words(int src, std::vector<std::string> const& ops) {
		std::string s = std::to_string(src) + " " + std::to_string(ops.size());
		for(auto const& t : ops) s += " " + t;
		return s;
	}

	// extents for a new array: fresh, or related to a live one (so that assignments meet equal / same-count / different extents)
	std::vector<Ex> new_exts(Rng& rng, int D) {
		if(D == 0) return {};
		auto same = slots_where(true, 0, NS, D);
		if(!same.empty() && rng.coin(55)) {
			auto const& base = refs[choose(rng, same)].ex;
			int how = rng.pick({35, 30, 35});
			if(how == 0) return base;
			if(how == 1) return same_count_exts(rng, base);
			return derive_exts(rng, base);
		}
		return gen_exts(rng, D);
	}

	bool gen_op(Rng& rng, std::string& line) {
		auto liveT = slots_where(true, 0, NT), emptyT = slots_where(false, 0, NT);
		auto liveT1 = slots_where(true, 0, NT, -1, 1);
		auto liveU = slots_where(true, NT, NS), emptyU = slots_where(false, NT, NS);
		for(int tries = 0; tries < 60; ++tries) {
			int c = il_focus ? rng.pick({4, 4, 6, 4, 2, 3, 2, 14, 3, 4, 2, 2, 2, 18, 2, 2, 6, 3, 2, 14, 4, 3, 3, 2, 4, 1, 8})
			      : c06      ? rng.pick({3, 7, 10, 4, 3, 3, 1, 5, 3, 4, 2, 2, 1, 9, 3, 2, 14, 5, 8, 9, 8, 16, 14, 6, 5, 3, 1})
			                 : rng.pick({3, 7, 9, 7, 6, 7, 4, 5, 7, 8, 6, 6, 5, 5, 7, 5, 12, 4, 4, 4, 5, 8, 7, 4, 5, 3, 2});
			switch(c) {
				case 0: if(!emptyT.empty()) { line = "o dflt " + std::to_string(choose(rng, emptyT)) + " " + std::to_string(rng.pick({have_zero_d ? 10 : 0, 30, 30, 20, 10})); return true; } break;
				case 1: if(!emptyT.empty()) { int D = rng.pick({have_zero_d ? 6 : 0, 28, 32, 22, 12}); line = "o exts " + std::to_string(choose(rng, emptyT)) + " " + exts_words(new_exts(rng, D)); return true; } break;
				case 2: if(!emptyT.empty()) { int D = rng.pick({6, 28, 32, 22, 12}); line = "o fill " + std::to_string(choose(rng, emptyT)) + " " + exts_words(new_exts(rng, D)) + " " + std::to_string(fresh(rng)); return true; } break;
				case 3: if(!emptyT.empty() && !liveT.empty()) { auto const& from = have_zero_d ? liveT : liveT1; if(from.empty()) break; line = "o copy " + std::to_string(choose(rng, emptyT)) + " " + std::to_string(choose(rng, from)); return true; } break;
				case 4: if(!emptyT.empty() && !liveT1.empty()) { line = "o move " + std::to_string(choose(rng, emptyT)) + " " + std::to_string(choose(rng, liveT1)); return true; } break;
				case 5: if(!emptyT.empty() && !liveT1.empty()) {
					int src = choose(rng, liveT1); std::vector<std::string> ops; AnyView av;
					if(gen_view(rng, src, -1, false, ops, av)) { line = std::string(rng.coin(60) ? "o vctor " : "o decayv ") + std::to_string(choose(rng, emptyT)) + " " + view_words(src, ops) + " " + std::to_string(rng.pick({40, 30, 30})); return true; } } break;
				case 6: if(!emptyT.empty() && !liveU.empty()) { line = "o conv " + std::to_string(choose(rng, emptyT)) + " " + std::to_string(choose(rng, liveU)); return true; } break;
				case 7: if(!emptyT.empty()) {
					int D = rng.pick({0, 40, 35, 18, 7}); std::vector<long> sizes; long n = 1;
					for(int k = 0; k < D; ++k) { long s = (k == 0) ? rng.pick({12, 28, 30, 20, 10}) : rng.pick({6, 30, 34, 22, 8}); if(n * s > 36) s = 1; n *= s; sizes.push_back(s); }
					if(sizes[0] == 0 && rng.coin(70)) sizes[0] = 2;
					bool rng_ctor = rng.coin(35) && sizes[0] > 0;
					if(full && rng.coin(15)) { sizes[0] = 0; rng_ctor = true; }
					normalise_sizes(sizes);
					line = std::string(rng_ctor ? "o rctor " : "o il ") + std::to_string(choose(rng, emptyT)) + " " + list_words(rng, sizes); return true; } break;
				case 8: if(liveT1.size() >= 1) {
					int a = choose(rng, liveT1); auto cand = slots_where(true, 0, NT, refs[a].D);
					int b = rng.coin(8) ? a : choose(rng, cand);
					line = "o massign " + std::to_string(a) + " " + std::to_string(b); return true; } break;
				case 9: if(!liveT.empty()) {
					int a = choose(rng, liveT); auto cand = slots_where(true, 0, NT, refs[a].D);
					int b = rng.coin(10) ? a : choose(rng, cand);
					if(refs[a].D == 0 && false) break;
					line = "o cassign " + std::to_string(a) + " " + std::to_string(b); return true; } break;
				case 10: case 11: if(!liveT1.empty()) {
					int a = choose(rng, liveT1); int D = refs[a].D;
					std::vector<int> cand; for(int k : liveT1) if(k != a && (refs[k].D == D || refs[k].D == D + 1)) cand.push_back(k);
					if(cand.empty()) break;
					// prefer a source with the same extents half of the time
					std::vector<int> samex; for(int k : cand) if(refs[k].D == D && exs_eqv(refs[k].ex, refs[a].ex)) samex.push_back(k);
					bool ident = !samex.empty() && rng.coin(50);
					int src = ident ? choose(rng, samex) : choose(rng, cand);
					std::vector<std::string> ops; AnyView av;
					if(gen_view(rng, src, D, ident, ops, av)) {
						// class of the open finding assign-empty-view: `A = view` (Range&& overload) with no elements on either side and different extensions
						if(c == 11 && !full && refs[a].el.empty()) {
							std::vector<Ex> vex; std::vector<Val> vv; view_value(av, src, vex, vv, true);
							if(vv.empty() && !exs_eqv(refs[a].ex, vex)) break;
						}
						line = std::string(c == 10 ? "o vassign " : "o rassign ") + std::to_string(a) + " " + view_words(src, ops); return true; } } break;
				case 12: if(!liveT1.empty() && !liveU.empty()) {
					int b = choose(rng, liveU); auto cand = slots_where(true, 0, NT, refs[b].D);
					if(!cand.empty()) { line = "o convassign " + std::to_string(choose(rng, cand)) + " " + std::to_string(b); return true; } } break;
				case 13: case 19: if(!liveT1.empty()) {
					int a = choose(rng, liveT1); int D = refs[a].D; auto const& ex = refs[a].ex;
					std::vector<long> sizes; long n = 1;
					int how = rng.pick({40, 25, 20, 15});  // same shape / same outer other inner / other / empty
					for(int k = 0; k < D; ++k) {
						long s = ex[static_cast<std::size_t>(k)].size();
						if(how == 1 && k > 0) { s = rng.pick({5, 30, 35, 20, 10}); }
						if(how == 2) s = (k == 0) ? rng.pick({10, 28, 30, 20, 12}) : rng.pick({5, 30, 35, 20, 10});
						if(s > 4) s = 4;
						if(n * s > 36) s = 1; n *= s; sizes.push_back(s);
					}
					if(how == 3) { for(auto& s : sizes) s = 0; }
					normalise_sizes(sizes);
					bool range = (c == 19);
					// class of the open finding assign-inner-extents (same number of rows, other inner extents): only in the +il streams
					if(!full && D >= 2 && sizes[0] != 0 && sizes[0] == ex[0].size()) {
						std::vector<Ex> inner, row;
						for(int k = 1; k < D; ++k) { inner.push_back(Ex{0, sizes[static_cast<std::size_t>(k)]}); row.push_back(ex[static_cast<std::size_t>(k)]); }
						if(!exs_eqv(inner, row)) break;
					}
					// class of the open finding empty-range: assign(first, last) of an empty range to a non-empty D >= 2 array
					if(range && sizes[0] == 0 && D >= 2 && !full) break;
					line = std::string(range ? "o assignr " : "o ilassign ") + std::to_string(a) + " " + list_words(rng, sizes); return true; } break;
				case 14: if(liveT1.size() >= 1) {
					int a = choose(rng, liveT1); auto cand = slots_where(true, 0, NT, refs[a].D);
					int b = rng.coin(6) ? a : choose(rng, cand);
					line = "o swap " + std::to_string(a) + " " + std::to_string(b) + " " + (char const*[]){"member", "adl", "std"}[rng.pick({40, 35, 25})]; return true; } break;
				case 15: if(!emptyT.empty() && !liveT1.empty()) { line = "o decay " + std::to_string(choose(rng, emptyT)) + " " + std::to_string(choose(rng, liveT1)) + " " + (rng.coin(50) ? "plus" : "decay"); return true; } break;
				case 16: if(!liveT.empty()) {
					int a = choose(rng, liveT); auto const& r = refs[a];
					if(r.D == 0) { line = "o write " + std::to_string(a) + " " + std::to_string(fresh(rng)); return true; }
					if(r.el.empty()) break;
					auto idxs = box(r.ex); auto const& idx = idxs[static_cast<std::size_t>(rng.range(0, static_cast<long>(idxs.size()) - 1))];
					line = "o write " + std::to_string(a); for(long x : idx) line += " " + std::to_string(x); line += " " + std::to_string(fresh(rng)); return true; } break;
				case 17: if(!liveT1.empty()) { line = "o clear " + std::to_string(choose(rng, liveT1)); return true; } break;
				case 18: if(!liveT1.empty()) { int a = choose(rng, liveT1); line = "o reshape " + std::to_string(a) + " " + exts_words(same_count_exts(rng, refs[a].ex)); return true; } break;
				case 20: if(have_assign_fill && !liveT1.empty()) {
					int a = choose(rng, liveT1); auto ex = rng.coin(30) ? refs[a].ex : (rng.coin(50) ? derive_exts(rng, refs[a].ex) : gen_exts(rng, refs[a].D));
					line = "o assignf " + std::to_string(a) + " " + exts_words(ex) + " " + std::to_string(fresh(rng)); return true; } break;
				case 21: case 22: case 23: if(!liveT1.empty()) {
					int a = choose(rng, liveT1);
					auto ex = rng.coin(12) ? refs[a].ex : (rng.coin(75) ? derive_exts(rng, refs[a].ex) : gen_exts(rng, refs[a].D));
					// class of the open finding reextent-index-bases: reextent(x) / reextent(x, v) with a non-zero index base on either side
					// (an array without elements can hide a non-zero offset behind its [0,0) extensions, so the whole program must be zero-based)
					if(c != 23 && !full && rebased) break;
					if(c == 21) line = "o reext " + std::to_string(a) + " " + exts_words(ex);
					else if(c == 22) line = "o reextv " + std::to_string(a) + " " + exts_words(ex) + " " + std::to_string(fresh(rng));
					else line = "o reextm " + std::to_string(a) + " " + exts_words(ex);
					return true; } break;
				case 24: if(liveT.size() + liveU.size() > 2 || (emptyT.empty() && !liveT.empty())) {
					std::vector<int> all = liveT; all.insert(all.end(), liveU.begin(), liveU.end());
					line = "o destroy " + std::to_string(choose(rng, all)); return true; } break;
				case 25: if(!liveT1.empty()) {
					int src = choose(rng, liveT1); std::vector<std::string> ops; AnyView av;
					if(gen_view(rng, src, -1, false, ops, av)) { line = "o view " + std::to_string(rng.range(0, NV - 1)) + " " + view_words(src, ops); return true; } } break;
				default: if(!emptyU.empty()) {
					int D = rng.pick({0, 40, 35, 18, 7});
					if(rng.coin(30)) { long n = rng.range(1, 4); line = "o rctor " + std::to_string(choose(rng, emptyU)) + " " + list_words(rng, {n}); return true; }
					line = "o fill " + std::to_string(choose(rng, emptyU)) + " " + exts_words(new_exts(rng, D)) + " " + std::to_string(fresh(rng)); return true; } break;
			}
		}
		return false;
	}

	void run_program(Rng& rng) {
		rebased = rng.coin(50);
		int nops = static_cast<int>(rng.range(1, 40));
		if(rng.coin(35)) nops = static_cast<int>(rng.range(1, 12));
		for(int k = 0; k < nops; ++k) {
			std::string line;
			if(!gen_op(rng, line)) break;
			emit(line);
			emit("q all");
			for(int r = 0; r < NV; ++r) if(vregs[r].valid && rng.coin(60)) emit("q view " + std::to_string(r));
			if(rng.coin(25)) all_distinct(rng);
		}
	}

	// "+perm" programs: one array of D = 2..4 with extents 2..3 and all-distinct values, a view of it with PERMUTED dimensions (a chain of
	// rotated / unrotated / transposed: compact, no gaps, but not in canonical order), and one operation that consumes the view
	// (construction, decay, the two view assignments over an empty / equal-extents / other-extents target).  This is the class of
	// layouts on which contiguity shortcuts keyed on a few strides go wrong; the random histories reach it too rarely for D = 4.
	void run_perm_program(Rng& rng) {
		rebased = false;
		int D = 2 + rng.pick({20, 35, 45});
		std::vector<Ex> ex; for(int d = 0; d < D; ++d) ex.push_back(Ex{0, rng.range(2, 3)});
		emit("o fill 1 " + exts_words(ex) + " " + std::to_string(fresh(rng)));
		{ auto idxs = box(refs[1].ex);
		  for(auto const& idx : idxs) { std::string line = "o write 1"; for(long x : idx) line += " " + std::to_string(x); line += " " + std::to_string(fresh(rng)); emit(line); } }
		emit("q all");
		std::vector<std::string> ops; int n = static_cast<int>(rng.range(1, 6));
		for(int k = 0; k < n; ++k) ops.push_back((char const*[]){"rotated", "unrotated", "transposed"}[rng.pick({35, 30, 35})]);
		AnyView av = build_view(1, ops);
		std::vector<Ex> vex = std::visit([&](auto const& vs) { return exts_of(mk(vs)); }, av);
		std::string vw = view_words(1, ops);
		switch(rng.pick({22, 18, 10, 10, 10, 10, 10, 10})) {
			case 0: emit("o vctor 2 " + vw + " " + std::to_string(rng.pick({40, 30, 30}))); break;
			case 1: emit("o decayv 2 " + vw + " " + std::to_string(rng.pick({40, 30, 30}))); break;
			case 2: emit("o dflt 2 " + std::to_string(D)); emit("o vassign 2 " + vw); break;
			case 3: emit("o dflt 2 " + std::to_string(D)); emit("o rassign 2 " + vw); break;
			case 4: emit("o fill 2 " + exts_words(vex) + " " + std::to_string(fresh(rng))); emit("o vassign 2 " + vw); break;
			case 5: emit("o fill 2 " + exts_words(vex) + " " + std::to_string(fresh(rng))); emit("o rassign 2 " + vw); break;
			case 6: { std::vector<Ex> other(static_cast<std::size_t>(D), Ex{0, 1}); other[0] = Ex{0, 2}; emit("o fill 2 " + exts_words(other) + " " + std::to_string(fresh(rng))); emit("o vassign 2 " + vw); break; }
			default: { std::vector<Ex> other(static_cast<std::size_t>(D), Ex{0, 1}); other[0] = Ex{0, 2}; emit("o fill 2 " + exts_words(other) + " " + std::to_string(fresh(rng))); emit("o rassign 2 " + vw); break; }
		}
		emit("q all");
	}

	// gives every element of one live array a distinct value (a run of `write` operations): arrays built by fill / value-initialisation
	// hold one repeated value, on which an operation that permutes elements (a copy in memory order instead of index order) is invisible
	void all_distinct(Rng& rng) {
		auto live = slots_where(true, 0, NT, -1, 1);
		if(live.empty()) return;
		int a = choose(rng, live); auto const& r = refs[a];
		if(r.D == 0 || r.el.size() < 2 || r.el.size() > 64) return;
		auto idxs = box(r.ex);
		for(auto const& idx : idxs) {
			std::string line = "o write " + std::to_string(a); for(long x : idx) line += " " + std::to_string(x); line += " " + std::to_string(fresh(rng));
			emit(line);
		}
		emit("q all");
	}
};

// ---------------------------------------------------------------------------------------------------- program isolation
static void report_oob() {
#if PTR_KIND == 2
	if(fancy::g_oob_deref != 0) { std::fprintf(fans, "OOB-DEREF %ld\n", fancy::g_oob_deref); fancy::g_oob_deref = 0; }
#endif
}
static bool g_perm_mode = false;  // mode suffix "+perm"
template<class HT> static int child_generated(std::uint64_t seed, long p, bool full, bool c06) {
	HT h; h.c06 = c06;
	h.full = full;
	Rng rng(seed * 1000003ULL + static_cast<std::uint64_t>(p) + (HT::trivial ? 0ULL : 500009ULL) + (full ? 250007ULL : 0ULL) + (c06 ? 125003ULL : 0ULL));  // streams of different modes differ
	h.il_focus = full && rng.coin(50);
	if(g_perm_mode) h.run_perm_program(rng); else h.run_program(rng);
	report_oob();
	return g_internal ? 3 : 0;
}
template<class HT> static int child_replay(std::vector<std::string> const& lines) {
	HT h;
	for(auto const& l : lines) { std::fprintf(fprog, "%s\n", l.c_str()); std::fflush(fprog); h.run_line(l); }
	report_oob();
	return g_internal ? 3 : 0;
}
template<class F> static int isolated(F&& body) {
	std::fflush(fprog); std::fflush(fans);
	pid_t pid = fork();
	if(pid == 0) { alarm(8); int rc = body(); std::fflush(fprog); std::fflush(fans); std::_Exit(rc); }  // a program that hangs (corrupted heap ...) ends as `CRASH signal 14`
	int status = 0; waitpid(pid, &status, 0);
	if(WIFSIGNALED(status)) { ++g_crashes; std::fprintf(fans, "CRASH signal %d\n", WTERMSIG(status)); std::fflush(fans); return 0; }
	return WEXITSTATUS(status);
}

int main(int argc, char** argv) {
	if(argc < 6) { std::fprintf(stderr, "usage: value <seed> <nprograms> <int|str>[+c06][+full] <prog-out> <answers-out> [--replay file]\n"); return 2; }
	std::uint64_t seed = std::strtoull(argv[1], nullptr, 10);
	long nprog = std::strtol(argv[2], nullptr, 10);
	std::string mode = argv[3];
	bool str = mode.rfind("str", 0) == 0;
	bool il = mode.find("+full") != std::string::npos;
	bool c06 = mode.find("+c06") != std::string::npos;
	g_perm_mode = mode.find("+perm") != std::string::npos;
	fprog = std::fopen(argv[4], "w"); fans = std::fopen(argv[5], "w");
	if(!fprog || !fans) { std::perror("fopen"); return 2; }
	setvbuf(fprog, nullptr, _IOLBF, 0); setvbuf(fans, nullptr, _IOLBF, 0);  // a crash must not lose the lines already produced
#if PTR_KIND != 0
	fancy::arena_init();
#endif
	int worst = 0;
	using HI = H<int, long>;
	using HS = H<Str, int>;
	if(argc >= 8 && std::string(argv[6]) == "--replay") {
		std::ifstream in(argv[7]); std::string line; std::vector<std::string> lines;
		while(std::getline(in, line)) lines.push_back(line);
		int rc = isolated([&] { return str ? child_replay<HS>(lines) : child_replay<HI>(lines); });
		worst = std::max(worst, rc);
	} else {
		char const* only = std::getenv("VALUE_ONLY");  // debugging aid: run one program of the stream, in this process
		if(only) {
			long p = std::strtol(only, nullptr, 10);
			std::fprintf(fprog, "prog %ld %llu\ncfg trivial %d\n", p, static_cast<unsigned long long>(seed), str ? 0 : 1);
			return str ? child_generated<HS>(seed, p, il, c06) : child_generated<HI>(seed, p, il, c06);
		}
		for(long p = 0; p < nprog; ++p) {
			std::fprintf(fprog, "prog %ld %llu\n", p, static_cast<unsigned long long>(seed)); std::fprintf(fans, "prog %ld %llu\n", p, static_cast<unsigned long long>(seed));
			std::fprintf(fprog, "cfg trivial %d\n", str ? 0 : 1);
			int rc = isolated([&] { return str ? child_generated<HS>(seed, p, il, c06) : child_generated<HI>(seed, p, il, c06); });
			worst = std::max(worst, rc);
			if(g_crashes >= 4) { std::fprintf(fans, "ABORT stream after %d crashed programs\n", g_crashes); break; }
		}
	}
	std::fclose(fprog); std::fclose(fans);
	return worst == 3 ? 3 : (worst ? 1 : 0);
}
