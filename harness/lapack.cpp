// lapack.cpp — correspondence harness for C14 (LAPACK adaptor: potrf, geqrf, gesvd).
// `dpotrf_`, `dgeqrf_`, `dgesvd_` are interposed (defined here, forwarded to the real library through
// dlsym(RTLD_NEXT)): the arguments the adaptor passes are printed (pointers as element offsets from the buffer start)
// and compared with what MultiModel/Lapack.lean builds.  Numerics are only VALIDATED: the factors read back through the
// views must reconstruct the logical input within a scaled tolerance (`num ok|FAIL`), only the documented outputs may
// change (`tri`, `frame`: bitwise comparison of the whole guarded buffer).
//
// usage: lapack <seed> <nprograms> <mode> <prog-out> <answers-out> [--replay <prog-file>]   link: -llapack -lopenblas -ldl
#ifndef _GNU_SOURCE
#define _GNU_SOURCE
#endif
#include <dlfcn.h>

#include <boost/multi/array.hpp>
// potrf.hpp and geqrf.hpp cannot be included in one translation unit at the pinned commit (geqrf.hpp:36 `using blas::filling;`
// inside namespace lapack conflicts with lapack::filling of lapack/filling.hpp), so the harness is built twice:
//   -DLAPACK_PART=1  potrf + gesvd          -DLAPACK_PART=2  geqrf + gesvd          -DLAPACK_PART=3  syev
// (syev.hpp has the same `using blas::filling;`, so it cannot share a translation unit with potrf.hpp either)
#ifndef LAPACK_PART
#define LAPACK_PART 1
#endif
#if LAPACK_PART == 1
#include <boost/multi/adaptors/lapack/potrf.hpp>
#elif LAPACK_PART == 2
#include <boost/multi/adaptors/lapack/geqrf.hpp>
#else
#include <boost/multi/adaptors/lapack/syev.hpp>
#endif
#include <boost/multi/adaptors/lapack/gesvd.hpp>

#include <algorithm>
#include <cmath>
#include <cstdio>
#include <cstdlib>
#include <cstring>
#include <fstream>
#include <limits>
#include <sstream>
#include <stdexcept>
#include <string>
#include <variant>
#include <vector>

#include "common/prng.hpp"

namespace multi = boost::multi;
using T = double;

constexpr std::size_t NBUF = 1 << 19;  // capacity; only the first g_len cells (the roots of the current program + guards) are filled, snapshotted and compared
static std::size_t g_len = 0;
static std::vector<double> g_buf;
static FILE* fprog = nullptr;
static FILE* fans = nullptr;
static int g_internal = 0;
static long off_of(void const* p) { return static_cast<long>(static_cast<double const*>(p) - g_buf.data()); }
static bool in_buf(void const* p) { auto* q = static_cast<double const*>(p); return q >= g_buf.data() && q < g_buf.data() + NBUF; }

// ------------------------------------------------------------------------------------------------ interposition
static std::vector<std::string> g_calls;
static int g_depth = 0;  // calls that LAPACK makes internally (dgesvd -> dgeqrf ...) also reach the interposers: only depth 0 is the adaptor
struct Depth { Depth() { ++g_depth; } ~Depth() { --g_depth; } };
template<class F> static F real_fn(char const* name) {
	void* p = dlsym(RTLD_NEXT, name);
	if(p == nullptr) { std::fprintf(stderr, "harness: cannot resolve the real %s\n", name); std::abort(); }
	return reinterpret_cast<F>(p);
}
static std::string ptr_str(void const* p) { return in_buf(p) ? std::to_string(off_of(p)) : std::string("ext"); }

#if LAPACK_PART == 1
extern "C" void dpotrf_(char const& uplo, int const& n, double* a, int const& lda, int& info) {
	static auto real = real_fn<void (*)(char const&, int const&, double*, int const&, int&)>("dpotrf_");
	if(g_depth == 0) g_calls.push_back(std::string("potrf ") + uplo + " " + std::to_string(n) + " " + ptr_str(a) + " " + std::to_string(lda));
	Depth d; real(uplo, n, a, lda, info);
}
#elif LAPACK_PART == 2
extern "C" void dgeqrf_(int const& m, int const& n, double* a, int const& lda, double* tau, double* work, int const& lwork, int const& info) {
	static auto real = real_fn<void (*)(int const&, int const&, double*, int const&, double*, double*, int const&, int const&)>("dgeqrf_");
	if(g_depth == 0) g_calls.push_back("geqrf " + std::to_string(m) + " " + std::to_string(n) + " " + ptr_str(a) + " " + std::to_string(lda) + " " + ptr_str(tau) + (lwork == -1 ? " query" : " compute"));
	Depth d; real(m, n, a, lda, tau, work, lwork, info);
}
#else
extern "C" void dsyev_(char const& jobz, char const& uplo, int const& n, double* a, int const& lda, double* w, double* work, int const& lwork, int& info) {
	static auto real = real_fn<void (*)(char const&, char const&, int const&, double*, int const&, double*, double*, int const&, int&)>("dsyev_");
	if(g_depth == 0) g_calls.push_back(std::string("syev ") + jobz + " " + uplo + " " + std::to_string(n) + " " + ptr_str(a) + " " + std::to_string(lda) + " " + ptr_str(w) + " " + ptr_str(work) + " " + std::to_string(lwork));
	Depth d; real(jobz, uplo, n, a, lda, w, work, lwork, info);
}
#endif
extern "C" void dgesvd_(char const& jobu, char const& jobvt, int const& m, int const& n, double* a, int const& lda, double* s, double* u, int const& ldu, double* vt, int const& ldvt, double* work, int const& lwork, int& info) {
	static auto real = real_fn<void (*)(char const&, char const&, int const&, int const&, double*, int const&, double*, double*, int const&, double*, int const&, double*, int const&, int&)>("dgesvd_");
	if(g_depth == 0) g_calls.push_back(std::string("gesvd ") + jobu + " " + jobvt + " " + std::to_string(m) + " " + std::to_string(n) + " " + ptr_str(a) + " " + std::to_string(lda) + " " + ptr_str(s) + " " +
	                  ptr_str(u) + " " + std::to_string(ldu) + " " + ptr_str(vt) + " " + std::to_string(ldvt) + (lwork == -1 ? " query" : " compute"));
	Depth d; real(jobu, jobvt, m, n, a, lda, s, u, ldu, vt, ldvt, work, lwork, info);
}

// LAPACK drivers the adaptor is not modelled to call: if one is reached from the adaptor (depth 0) its name is printed — a
// correspondence difference by itself; the numeric and frame verdicts decide whether it is a failing input
#define UNEXPECTED(NAME, PARAMS, ARGS) \
	extern "C" void NAME PARAMS { \
		static auto real = real_fn<void (*) PARAMS>(#NAME); \
		if(g_depth == 0) g_calls.push_back(std::string("unexpected ") + #NAME); \
		Depth d; real ARGS; \
	}
// the two syevd signatures are the ones lapack/core.hpp's (commented-out) xSYEVD macro declares
UNEXPECTED(dsyevd_, (char const& jobz, char const& uplo, int const& n, double* a, int const& lda, double* w, double* work, int const& lwork, int* iwork, int const& liwork, int& info), (jobz, uplo, n, a, lda, w, work, lwork, iwork, liwork, info))
UNEXPECTED(ssyevd_, (char const& jobz, char const& uplo, int const& n, float* a, int const& lda, float* w, float* work, int const& lwork, int* iwork, int const& liwork, int& info), (jobz, uplo, n, a, lda, w, work, lwork, iwork, liwork, info))
UNEXPECTED(dsyevr_, (char const* jobz, char const* range, char const* uplo, int const* n, double* a, int const* lda, double const* vl, double const* vu, int const* il, int const* iu, double const* abstol, int* m, double* w, double* z, int const* ldz, int* isuppz, double* work, int const* lwork, int* iwork, int const* liwork, int* info), (jobz, range, uplo, n, a, lda, vl, vu, il, iu, abstol, m, w, z, ldz, isuppz, work, lwork, iwork, liwork, info))
UNEXPECTED(dsyevx_, (char const* jobz, char const* range, char const* uplo, int const* n, double* a, int const* lda, double const* vl, double const* vu, int const* il, int const* iu, double const* abstol, int* m, double* w, double* z, int const* ldz, double* work, int const* lwork, int* iwork, int* ifail, int* info), (jobz, range, uplo, n, a, lda, vl, vu, il, iu, abstol, m, w, z, ldz, work, lwork, iwork, ifail, info))
UNEXPECTED(dgesdd_, (char const* jobz, int const* m, int const* n, double* a, int const* lda, double* s, double* u, int const* ldu, double* vt, int const* ldvt, double* work, int const* lwork, int* iwork, int* info), (jobz, m, n, a, lda, s, u, ldu, vt, ldvt, work, lwork, iwork, info))
UNEXPECTED(dgeqp3_, (int const* m, int const* n, double* a, int const* lda, int* jpvt, double* tau, double* work, int const* lwork, int* info), (m, n, a, lda, jpvt, tau, work, lwork, info))
UNEXPECTED(dgeqr2_, (int const* m, int const* n, double* a, int const* lda, double* tau, double* work, int* info), (m, n, a, lda, tau, work, info))
UNEXPECTED(dgeqrfp_, (int const* m, int const* n, double* a, int const* lda, double* tau, double* work, int const* lwork, int* info), (m, n, a, lda, tau, work, lwork, info))
UNEXPECTED(dgeqrt_, (int const* m, int const* n, int const* nb, double* a, int const* lda, double* t, int const* ldt, double* work, int* info), (m, n, nb, a, lda, t, ldt, work, info))
UNEXPECTED(dpotrf2_, (char const* uplo, int const* n, double* a, int const* lda, int* info), (uplo, n, a, lda, info))
UNEXPECTED(dpotf2_, (char const* uplo, int const* n, double* a, int const* lda, int* info), (uplo, n, a, lda, info))
UNEXPECTED(spotrf_, (char const& uplo, int const& n, float* a, int const& lda, int& info), (uplo, n, a, lda, info))
#if LAPACK_PART != 3
UNEXPECTED(dsyev_, (char const& jobz, char const& uplo, int const& n, double* a, int const& lda, double* w, double* work, int const& lwork, int& info), (jobz, uplo, n, a, lda, w, work, lwork, info))
#endif
#if LAPACK_PART != 1
UNEXPECTED(dpotrf_, (char const& uplo, int const& n, double* a, int const& lda, int& info), (uplo, n, a, lda, info))
#endif
#if LAPACK_PART != 2
UNEXPECTED(dgeqrf_, (int const* m, int const* n, double* a, int const* lda, double* tau, double* work, int const* lwork, int* info), (m, n, a, lda, tau, work, lwork, info))
#endif

// ------------------------------------------------------------------------------------------------ runtime views
template<multi::dimensionality_type D> struct VS { multi::layout_t<D> lay; T* base; };
using AnyView = std::variant<VS<1>, VS<2>>;
template<multi::dimensionality_type D> auto mk(VS<D> const& s) { return multi::subarray<T, D>(s.lay, s.base); }
template<class V> AnyView store(V&& v) {
	constexpr auto D = std::decay_t<V>::rank_v;
	if constexpr(D >= 1 && D <= 2) { return AnyView{VS<D>{v.layout(), const_cast<T*>(static_cast<T const*>(v.base()))}}; } else { std::abort(); }
}
struct Ex { long first, last; };
struct Op { std::string name; std::vector<long> a; };
template<multi::dimensionality_type D> AnyView apply_op(VS<D> const& s, Op const& op) {
	auto&& mv = mk(s);
	auto const& n = op.name; auto const& a = op.a;
	if(n == "sliced") return store(mv.sliced(a[0], a[1]));
	if(n == "strided") return store(mv.strided(a[0]));
	if(n == "rotated") return store(mv.rotated());
	if(n == "unrotated") return store(mv.unrotated());
	if constexpr(D >= 2) { if(n == "transposed") return store(mv.transposed()); }
	std::fprintf(stderr, "harness: op %s not applicable\n", n.c_str()); std::abort();
}
static std::string op_line(int dst, int src, Op const& op) {
	std::string s = "v " + std::to_string(dst) + " " + std::to_string(src) + " " + op.name;
	for(long x : op.a) { s += ' '; s += std::to_string(x); }
	return s;
}
static AnyView make_root_any(std::vector<Ex> const& ex, T* base) {
	if(ex.size() == 1) { multi::array_ref<T, 1> r(base, multi::extensions_t<1>{multi::iextension{ex[0].first, ex[0].last}}); return store(r()); }
	multi::array_ref<T, 2> r(base, multi::extensions_t<2>{multi::iextension{ex[0].first, ex[0].last}, multi::iextension{ex[1].first, ex[1].last}});
	return store(r());
}

static std::vector<AnyView> g_regs(64);
static VS<2> const& mat(int r) { return std::get<VS<2>>(g_regs[static_cast<std::size_t>(r)]); }
static VS<1> const& vec(int r) { return std::get<VS<1>>(g_regs[static_cast<std::size_t>(r)]); }

static void fill_guard() { for(std::size_t p = 0; p < g_len; ++p) g_buf[p] = -777000.0 - static_cast<double>(p % 97); }
static std::string join(std::vector<long> const& v) { std::string s; for(std::size_t i = 0; i < v.size(); ++i) { if(i) s += ' '; s += std::to_string(v[i]); } return s; }
static void flush_calls() { for(auto const& c : g_calls) std::fprintf(fans, "%s\n", c.c_str()); g_calls.clear(); }

// cells outside `allowed` that changed
static long frame_changes(std::vector<double> const& before, std::vector<char> const& allowed) {
	long c = 0;
	for(std::size_t p = 0; p < g_len; ++p) if(!allowed[p] && std::memcmp(&g_buf[p], &before[p], sizeof(double)) != 0) ++c;
	return c;
}
template<class V> void mark(V&& v, std::vector<char>& m) {
	if constexpr(std::decay_t<V>::rank_v == 1) { for(auto i = v.extension().first(); i < v.extension().last(); ++i) m[static_cast<std::size_t>(off_of(&v[i]))] = 1; }
	else { for(auto i = v.extension().first(); i < v.extension().last(); ++i) mark(v[i], m); }
}

// ------------------------------------------------------------------------------------------------ potrf
// x potrf <reg> <U|L> <dataseed> <fail_k>      U = logical upper (filling::upper), L = logical lower
static void do_potrf(int reg, bool upper, std::uint64_t dseed, long fail_k) {
#if LAPACK_PART == 1
	auto&& A = mk(mat(reg));
	long n = static_cast<long>(A.size());
	Rng rng(dseed);
	std::vector<std::vector<double>> M(static_cast<std::size_t>(n), std::vector<double>(static_cast<std::size_t>(n))), S = M;
	for(auto& row : M) for(auto& x : row) x = static_cast<double>(rng.range(-3, 3));
	for(long i = 0; i < n; ++i) for(long j = 0; j < n; ++j) { double acc = (i == j) ? static_cast<double>(n) : 0.0; for(long k = 0; k < n; ++k) acc += M[static_cast<std::size_t>(i)][static_cast<std::size_t>(k)] * M[static_cast<std::size_t>(j)][static_cast<std::size_t>(k)]; S[static_cast<std::size_t>(i)][static_cast<std::size_t>(j)] = acc; }
	if(fail_k > 0) S[static_cast<std::size_t>(fail_k - 1)][static_cast<std::size_t>(fail_k - 1)] = -5.0;
	fill_guard();
	double const nan = std::numeric_limits<double>::quiet_NaN();
	for(long i = 0; i < n; ++i) for(long j = 0; j < n; ++j) { bool sel = upper ? (i <= j) : (j <= i); A[i][j] = sel ? S[static_cast<std::size_t>(i)][static_cast<std::size_t>(j)] : nan; }  // the other triangle must not be read
	std::vector<double> before(g_buf.begin(), g_buf.begin() + static_cast<long>(g_len));
	g_calls.clear();
	auto&& ret = multi::lapack::potrf(upper ? multi::lapack::filling::upper : multi::lapack::filling::lower, A);
	flush_calls();
	long r = static_cast<long>(ret.size());
	std::fprintf(fans, "order %ld\n", r);
	// the returned view: extents and element offsets
	{
		std::vector<long> as;
		for(auto i = ret.extension().first(); i < ret.extension().last(); ++i) for(auto j = ret[i].extension().first(); j < ret[i].extension().last(); ++j) as.push_back(off_of(&ret[i][j]));
		auto e0 = ret.extension(); auto e1 = (ret.size() > 0) ? ret[e0.first()].extension() : decltype(e0){};
		std::fprintf(fans, "ret %ld:%ld %ld:%ld | %zu : %s\n", static_cast<long>(e0.first()), static_cast<long>(e0.last()), static_cast<long>(e1.first()), static_cast<long>(e1.last()), as.size(), as.size() > 100 ? "_" : join(as).c_str());
	}
	// numerics on the leading r x r block of the LOGICAL view
	double maxerr = 0, scale = 1;
	for(long i = 0; i < r; ++i) for(long j = 0; j < r; ++j) {
		bool sel = upper ? (i <= j) : (j <= i);
		if(!sel) continue;
		double acc = 0;
		if(upper) { for(long k = 0; k <= i; ++k) acc += A[k][i] * A[k][j]; } else { for(long k = 0; k <= j; ++k) acc += A[i][k] * A[j][k]; }
		double want = S[static_cast<std::size_t>(i)][static_cast<std::size_t>(j)];
		double e = std::abs(acc - want); if(!(e <= 1e300)) e = 1e300;
		maxerr = std::max(maxerr, e); scale = std::max(scale, std::abs(want));
	}
	bool num_ok = maxerr <= 1e-12 * scale * static_cast<double>(n + 1);
	// only the selected logical triangle of the view may have changed
	std::vector<char> tri(g_len, 0), whole(g_len, 0);
	for(long i = 0; i < n; ++i) for(long j = 0; j < n; ++j) { whole[static_cast<std::size_t>(off_of(&A[i][j]))] = 1; if(upper ? (i <= j) : (j <= i)) tri[static_cast<std::size_t>(off_of(&A[i][j]))] = 1; }
	long tri_viol = 0; for(std::size_t p = 0; p < g_len; ++p) if(whole[p] && !tri[p] && std::memcmp(&g_buf[p], &before[p], sizeof(double)) != 0) ++tri_viol;
	long frame = frame_changes(before, whole);
	if(!num_ok) std::fprintf(stderr, "harness: potrf num FAIL maxerr=%g scale=%g n=%ld r=%ld\n", maxerr, scale, n, r);
	std::fprintf(fans, "num %s | tri %s | frame %s\n", num_ok ? "ok" : "FAIL", tri_viol == 0 ? "ok" : "FAIL", frame == 0 ? "ok" : "FAIL");
#else
	(void)reg; (void)upper; (void)dseed; (void)fail_k; std::fprintf(stderr, "harness: built without potrf\n"); std::abort();
#endif
}

// ------------------------------------------------------------------------------------------------ geqrf
// x geqrf <reg> <taureg> <dataseed>
static void do_geqrf(int reg, int taureg, std::uint64_t dseed) {
#if LAPACK_PART == 2
	auto&& aa = mk(mat(reg)); auto&& tau = mk(vec(taureg));
	long p = static_cast<long>(aa.size()), q = static_cast<long>((~aa).size());
	long m = q, n = p, k = std::min(m, n);
	Rng rng(dseed);
	fill_guard();
	for(long i = 0; i < p; ++i) for(long j = 0; j < q; ++j) aa[i][j] = static_cast<double>(rng.range(-5, 5));
	std::vector<double> before(g_buf.begin(), g_buf.begin() + static_cast<long>(g_len));
	std::vector<std::vector<double>> B(static_cast<std::size_t>(m), std::vector<double>(static_cast<std::size_t>(n)));
	for(long i = 0; i < m; ++i) for(long j = 0; j < n; ++j) B[static_cast<std::size_t>(i)][static_cast<std::size_t>(j)] = aa[j][i];  // LAPACK's matrix is the transpose of the logical view
	g_calls.clear();
	std::string outcome = "ok";
	try { multi::lapack::geqrf(aa, tau); } catch(std::runtime_error const&) { outcome = "throw:runtime_error"; }
	flush_calls();
	std::fprintf(fans, "outcome %s\n", outcome.c_str());
	// reconstruct B = H_1 ... H_k R from what the views hold now
	auto Bout = [&](long i, long j) { return static_cast<double>(aa[j][i]); };
	std::vector<std::vector<double>> X(static_cast<std::size_t>(m), std::vector<double>(static_cast<std::size_t>(n), 0.0));
	for(long i = 0; i < m; ++i) for(long j = 0; j < n; ++j) if(i <= j) X[static_cast<std::size_t>(i)][static_cast<std::size_t>(j)] = Bout(i, j);
	for(long h = k - 1; h >= 0; --h) {
		std::vector<double> v(static_cast<std::size_t>(m), 0.0); v[static_cast<std::size_t>(h)] = 1.0; for(long l = h + 1; l < m; ++l) v[static_cast<std::size_t>(l)] = Bout(l, h);
		double t = tau[h];
		for(long j = 0; j < n; ++j) { double dotp = 0; for(long l = 0; l < m; ++l) dotp += v[static_cast<std::size_t>(l)] * X[static_cast<std::size_t>(l)][static_cast<std::size_t>(j)]; for(long l = 0; l < m; ++l) X[static_cast<std::size_t>(l)][static_cast<std::size_t>(j)] -= t * v[static_cast<std::size_t>(l)] * dotp; }
	}
	double maxerr = 0, scale = 1;
	for(long i = 0; i < m; ++i) for(long j = 0; j < n; ++j) { double e = std::abs(X[static_cast<std::size_t>(i)][static_cast<std::size_t>(j)] - B[static_cast<std::size_t>(i)][static_cast<std::size_t>(j)]); if(!(e <= 1e300)) e = 1e300; maxerr = std::max(maxerr, e); scale = std::max(scale, std::abs(B[static_cast<std::size_t>(i)][static_cast<std::size_t>(j)])); }
	bool num_ok = outcome == "ok" && maxerr <= 1e-12 * scale * static_cast<double>(m + n);
	std::vector<char> allowed(g_len, 0); mark(aa, allowed); mark(tau, allowed);
	long frame = frame_changes(before, allowed);
	if(!num_ok) std::fprintf(stderr, "harness: geqrf num FAIL maxerr=%g\n", maxerr);
	std::fprintf(fans, "num %s | frame %s\n", num_ok ? "ok" : "FAIL", frame == 0 ? "ok" : "FAIL");
#else
	(void)reg; (void)taureg; (void)dseed; std::fprintf(stderr, "harness: built without geqrf\n"); std::abort();
#endif
}

// ------------------------------------------------------------------------------------------------ gesvd
// x gesvd <regA> <regU> <regS> <regV> <dataseed>
static void do_gesvd(int ra, int ru, int rs, int rv, std::uint64_t dseed) {
	auto&& AA = mk(mat(ra)); auto&& UU = mk(mat(ru)); auto&& ss = mk(vec(rs)); auto&& VV = mk(mat(rv));
	long p = static_cast<long>(AA.size()), q = static_cast<long>((~AA).size()), k = std::min(p, q);
	Rng rng(dseed);
	fill_guard();
	std::vector<std::vector<double>> A0(static_cast<std::size_t>(p), std::vector<double>(static_cast<std::size_t>(q)));
	for(long i = 0; i < p; ++i) for(long j = 0; j < q; ++j) { A0[static_cast<std::size_t>(i)][static_cast<std::size_t>(j)] = static_cast<double>(rng.range(-5, 5)); AA[i][j] = A0[static_cast<std::size_t>(i)][static_cast<std::size_t>(j)]; }
	std::vector<double> before(g_buf.begin(), g_buf.begin() + static_cast<long>(g_len));
	g_calls.clear();
	std::string outcome = "ok";
	try { multi::lapack::gesvd(AA, UU, ss, VV); } catch(std::runtime_error const&) { outcome = "throw:runtime_error"; }
	flush_calls();
	std::fprintf(fans, "outcome %s\n", outcome.c_str());
	double maxerr = 0, scale = 1;
	for(long i = 0; i < p; ++i) for(long j = 0; j < q; ++j) { double acc = 0; for(long l = 0; l < k; ++l) acc += UU[i][l] * ss[l] * VV[l][j];
		double e = std::abs(acc - A0[static_cast<std::size_t>(i)][static_cast<std::size_t>(j)]); if(!(e <= 1e300)) e = 1e300; maxerr = std::max(maxerr, e); scale = std::max(scale, std::abs(A0[static_cast<std::size_t>(i)][static_cast<std::size_t>(j)])); }
	bool ordered = true; for(long l = 0; l < k; ++l) { if(!(ss[l] >= 0)) ordered = false; if(l + 1 < k && !(ss[l] >= ss[l + 1])) ordered = false; }
	double orth = 0;
	for(long i = 0; i < p; ++i) for(long j = 0; j < p; ++j) { double acc = 0; for(long l = 0; l < p; ++l) acc += UU[l][i] * UU[l][j]; orth = std::max(orth, std::abs(acc - (i == j ? 1.0 : 0.0))); }
	for(long i = 0; i < q; ++i) for(long j = 0; j < q; ++j) { double acc = 0; for(long l = 0; l < q; ++l) acc += VV[i][l] * VV[j][l]; orth = std::max(orth, std::abs(acc - (i == j ? 1.0 : 0.0))); }
	bool num_ok = outcome == "ok" && maxerr <= 1e-12 * scale * static_cast<double>(p + q) * 8 && orth <= 1e-12 * static_cast<double>(p + q) * 8;
	std::vector<char> allowed(g_len, 0); mark(AA, allowed); mark(UU, allowed); mark(ss, allowed); mark(VV, allowed);
	long frame = frame_changes(before, allowed);
	if(!num_ok) std::fprintf(stderr, "harness: gesvd num FAIL maxerr=%g orth=%g\n", maxerr, orth);
	std::fprintf(fans, "num %s | order %s | frame %s\n", num_ok ? "ok" : "FAIL", ordered ? "ok" : "FAIL", frame == 0 ? "ok" : "FAIL");
}

// ------------------------------------------------------------------------------------------------ syev
// x syev <reg> <wreg> <workreg> <U|L> <dataseed> <api>
//   api 0: syev(uplo, a, w, work)   1: syev(uplo, a, w)   2: w = syev(uplo, a)   3: vecs = syev(uplo, const a, w)   4: {vecs, vals} = syev(uplo, const a)
static void do_syev(int reg, int wreg, int workreg, bool upper, std::uint64_t dseed, int api) {
#if LAPACK_PART == 3
	auto&& a = mk(mat(reg)); auto&& w = mk(vec(wreg)); auto&& work = mk(vec(workreg));
	auto const& ca = a;
	long n = static_cast<long>(a.size());
	Rng rng(dseed);
	std::vector<std::vector<double>> S(static_cast<std::size_t>(n), std::vector<double>(static_cast<std::size_t>(n)));
	for(long i = 0; i < n; ++i) for(long j = i; j < n; ++j) { double x = static_cast<double>(rng.range(-5, 5)); S[static_cast<std::size_t>(i)][static_cast<std::size_t>(j)] = x; S[static_cast<std::size_t>(j)][static_cast<std::size_t>(i)] = x; }
	fill_guard();
	double const nan = std::numeric_limits<double>::quiet_NaN();
	for(long i = 0; i < n; ++i) for(long j = 0; j < n; ++j) { bool sel = upper ? (i <= j) : (j <= i); a[i][j] = sel ? S[static_cast<std::size_t>(i)][static_cast<std::size_t>(j)] : nan; }  // the other triangle must not be read
	std::vector<double> before(g_buf.begin(), g_buf.begin() + static_cast<long>(g_len));
	auto uplo = upper ? multi::blas::filling::upper : multi::blas::filling::lower;
	// eigenvectors (V[k] = k-th vector) and eigenvalues as the overload returns them
	std::vector<std::vector<double>> V(static_cast<std::size_t>(n), std::vector<double>(static_cast<std::size_t>(n)));
	std::vector<double> ev(static_cast<std::size_t>(n));
	bool rows = ((~a).stride() == 1);  // in place: LAPACK's columns are the rows of a view with unit inner stride, the columns otherwise
	std::vector<char> allowed(g_len, 0);
	g_calls.clear();
	std::string ret = "ret none";
	auto ret_of = [&](auto&& r) {
		std::vector<long> as;
		for(auto i = r.extension().first(); i < r.extension().last(); ++i) for(auto j = r[i].extension().first(); j < r[i].extension().last(); ++j) as.push_back(off_of(&r[i][j]));
		auto e0 = r.extension(); auto e1 = (r.size() > 0) ? r[e0.first()].extension() : decltype(e0){};
		return "ret " + std::to_string(e0.first()) + ":" + std::to_string(e0.last()) + " " + std::to_string(e1.first()) + ":" + std::to_string(e1.last()) + " | " + std::to_string(as.size()) + " : " + (as.size() > 100 ? std::string("_") : join(as));
	};
	auto take_inplace = [&] { for(long k = 0; k < n; ++k) for(long l = 0; l < n; ++l) V[static_cast<std::size_t>(k)][static_cast<std::size_t>(l)] = rows ? a[k][l] : a[l][k]; };
	switch(api) {
		case 0: { auto&& r = multi::lapack::syev(uplo, a, w, work); ret = ret_of(r); take_inplace(); for(long k = 0; k < n; ++k) ev[static_cast<std::size_t>(k)] = w[k]; mark(a, allowed); mark(w, allowed); mark(work, allowed); break; }
		case 1: { auto&& r = multi::lapack::syev(uplo, a, w); ret = ret_of(r); take_inplace(); for(long k = 0; k < n; ++k) ev[static_cast<std::size_t>(k)] = w[k]; mark(a, allowed); mark(w, allowed); break; }
		case 2: { auto vals = multi::lapack::syev(uplo, a); take_inplace(); for(long k = 0; k < n; ++k) ev[static_cast<std::size_t>(k)] = vals[k]; mark(a, allowed); break; }
		case 3: { auto vecs = multi::lapack::syev(uplo, ca, w); for(long k = 0; k < n; ++k) for(long l = 0; l < n; ++l) V[static_cast<std::size_t>(k)][static_cast<std::size_t>(l)] = vecs[k][l]; for(long k = 0; k < n; ++k) ev[static_cast<std::size_t>(k)] = w[k]; mark(w, allowed); break; }
		default: { auto sys = multi::lapack::syev(uplo, ca); for(long k = 0; k < n; ++k) for(long l = 0; l < n; ++l) V[static_cast<std::size_t>(k)][static_cast<std::size_t>(l)] = sys.eigenvectors[k][l]; for(long k = 0; k < n; ++k) ev[static_cast<std::size_t>(k)] = sys.eigenvalues[k]; break; }
	}
	flush_calls();
	std::fprintf(fans, "%s\n", ret.c_str());
	// S v_k = w_k v_k, V orthonormal, w ascending
	double maxerr = 0, scale = 1, orth = 0;
	for(long i = 0; i < n; ++i) for(long j = 0; j < n; ++j) scale = std::max(scale, std::abs(S[static_cast<std::size_t>(i)][static_cast<std::size_t>(j)]));
	for(long k = 0; k < n; ++k) for(long i = 0; i < n; ++i) { double acc = 0; for(long j = 0; j < n; ++j) acc += S[static_cast<std::size_t>(i)][static_cast<std::size_t>(j)] * V[static_cast<std::size_t>(k)][static_cast<std::size_t>(j)];
		double e = std::abs(acc - ev[static_cast<std::size_t>(k)] * V[static_cast<std::size_t>(k)][static_cast<std::size_t>(i)]); if(!(e <= 1e300)) e = 1e300; maxerr = std::max(maxerr, e); }
	for(long k = 0; k < n; ++k) for(long l = 0; l < n; ++l) { double acc = 0; for(long j = 0; j < n; ++j) acc += V[static_cast<std::size_t>(k)][static_cast<std::size_t>(j)] * V[static_cast<std::size_t>(l)][static_cast<std::size_t>(j)]; double e = std::abs(acc - (k == l ? 1.0 : 0.0)); if(!(e <= 1e300)) e = 1e300; orth = std::max(orth, e); }
	bool ordered = true; for(long k = 0; k + 1 < n; ++k) if(!(ev[static_cast<std::size_t>(k)] <= ev[static_cast<std::size_t>(k + 1)])) ordered = false;
	bool num_ok = maxerr <= 1e-12 * scale * static_cast<double>(n) * 16 && orth <= 1e-12 * static_cast<double>(n) * 16;
	long frame = frame_changes(before, allowed);
	if(!num_ok) std::fprintf(stderr, "harness: syev num FAIL maxerr=%g orth=%g api=%d rows=%d\n", maxerr, orth, api, rows ? 1 : 0);
	std::fprintf(fans, "num %s | order %s | frame %s\n", num_ok ? "ok" : "FAIL", ordered ? "ok" : "FAIL", frame == 0 ? "ok" : "FAIL");
#else
	(void)reg; (void)wreg; (void)workreg; (void)upper; (void)dseed; (void)api; std::fprintf(stderr, "harness: built without syev\n"); std::abort();
#endif
}

static std::vector<std::string> words(std::string const& line) { std::istringstream is(line); std::vector<std::string> w; std::string t; while(is >> t) w.push_back(t); return w; }
static void do_query(std::vector<std::string> const& w) {
	if(w[1] == "potrf") do_potrf(std::stoi(w[2]), w[3] == "U", std::stoull(w[4]), std::stol(w[5]));
	else if(w[1] == "geqrf") do_geqrf(std::stoi(w[2]), std::stoi(w[3]), std::stoull(w[4]));
	else if(w[1] == "syev") do_syev(std::stoi(w[2]), std::stoi(w[3]), std::stoi(w[4]), w[5] == "U", std::stoull(w[6]), std::stoi(w[7]));
	else if(w[1] == "gesvd") do_gesvd(std::stoi(w[2]), std::stoi(w[3]), std::stoi(w[4]), std::stoi(w[5]), std::stoull(w[6]));
	else { std::fprintf(stderr, "harness: bad query\n"); std::abort(); }
}

// ------------------------------------------------------------------------------------------------ generation
static void emit_root(int reg, long base, std::vector<Ex> const& ex) {
	std::string rl = "root " + std::to_string(reg) + " " + std::to_string(base) + " " + std::to_string(ex.size());
	for(auto const& e : ex) rl += " " + std::to_string(e.first) + " " + std::to_string(e.last);
	std::fprintf(fprog, "%s\n", rl.c_str());
	g_regs[static_cast<std::size_t>(reg)] = make_root_any(ex, g_buf.data() + base);
	long ne = 1; for(auto const& e : ex) ne *= (e.last - e.first);
	g_len = std::max(g_len, static_cast<std::size_t>(base + ne + 64));
}
static void emit_op(int dst, int src, Op const& op) {
	std::fprintf(fprog, "%s\n", op_line(dst, src, op).c_str());
	g_regs[static_cast<std::size_t>(dst)] = std::visit([&](auto const& s) { return apply_op(s, op); }, g_regs[static_cast<std::size_t>(src)]);
}
// a rows x cols matrix view in register `reg` (root in `reg+1`): row-major (unit inner stride) or its transpose-stored twin
// (unit leading stride), contiguous or a padded sub-block; returns the number of buffer cells of the root
static long gen_matrix(Rng& rng, int reg, long base, long rows, long cols, bool colmajor, bool allow_pad) {
	long R = colmajor ? cols : rows, C = colmajor ? rows : cols;  // root shape (row-major storage)
	long r0 = 0, r1 = 0, c0 = 0, c1 = 0;
	if(allow_pad && rng.coin(55)) { r0 = rng.range(0, 2); r1 = rng.range(0, 2); c0 = rng.range(0, 2); c1 = rng.range(0, 3); }
	emit_root(reg + 1, base, {Ex{0, R + r0 + r1}, Ex{0, C + c0 + c1}});
	int src = reg + 1;
	if(r0 + r1 > 0 || rng.coin(15)) { emit_op(reg, src, Op{"sliced", {r0, r0 + R}}); src = reg; }
	if(c0 + c1 > 0 || rng.coin(15)) { emit_op(reg, src, Op{"rotated", {}}); emit_op(reg, reg, Op{"sliced", {c0, c0 + C}}); emit_op(reg, reg, Op{"unrotated", {}}); src = reg; }
	if(colmajor) { emit_op(reg, src, Op{rng.coin(50) ? "transposed" : "rotated", {}}); src = reg; }
	if(src != reg) { emit_op(reg, src, Op{"rotated", {}}); emit_op(reg, reg, Op{"unrotated", {}}); }
	return (R + r0 + r1) * (C + c0 + c1);
}
static long gen_vector(Rng& rng, int reg, long base, long n) {
	long pad0 = rng.coin(40) ? rng.range(1, 2) : 0, pad1 = rng.coin(40) ? rng.range(1, 2) : 0;
	emit_root(reg + 1, base, {Ex{0, n + pad0 + pad1}});
	emit_op(reg, reg + 1, Op{"sliced", {pad0, pad0 + n}});
	return n + pad0 + pad1;
}

static void gen_program(Rng& rng, long pnum, long nprog, std::uint64_t seed) {
	std::fprintf(fprog, "prog %ld %llu\n", pnum, static_cast<unsigned long long>(seed)); std::fprintf(fans, "prog %ld %llu\n", pnum, static_cast<unsigned long long>(seed));
	long base = 40 + rng.range(0, 7);
	g_len = 0;
	// sizes: 1..8 as a rule; in a few % of the programs a size around a power of two or well beyond (size-dependent code paths)
	static long const TH[] = {15, 16, 17, 31, 32, 33, 63, 64, 65, 127, 128, 129, 130, 200, 257};
	bool large = rng.coin(4);
	auto th = [&] { return TH[rng.pick({8, 8, 8, 7, 7, 7, 7, 7, 7, 6, 6, 9, 6, 4, 3})]; };
	auto small = [&] { return rng.range(1, 8); };
	int c = LAPACK_PART == 1 ? rng.pick({70, 0, 30}) : LAPACK_PART == 2 ? rng.pick({0, 65, 35}) : 3;
	std::string line;
	if(c == 3) {
		long n = large ? th() : small();
		bool colmajor = rng.coin(50);
		base += gen_matrix(rng, 1, base, n, n, colmajor, true) + 8;
		base += gen_vector(rng, 3, base, n) + 8;
		base += gen_vector(rng, 5, base, std::max(1L, 3 * n - 1) + (rng.coin(30) ? rng.range(1, 4) : 0)) + 8;
		int api = rng.pick({35, 25, 15, 15, 10});
		line = "x syev 1 3 5 " + std::string(rng.coin(50) ? "U" : "L") + " " + std::to_string(rng.next() % 1000000) + " " + std::to_string(api);
	} else if(c == 0) {
		long n = large ? th() : small();
		bool colmajor = rng.coin(50);
		base += gen_matrix(rng, 1, base, n, n, colmajor, true) + 8;
		long fail_k = rng.coin(30) ? rng.range(1, n) : 0;
		line = "x potrf 1 " + std::string(rng.coin(50) ? "U" : "L") + " " + std::to_string(rng.next() % 1000000) + " " + std::to_string(fail_k);
	} else if(c == 1) {
		long p = small(), q = small();
		if(large) { int k = rng.pick({35, 35, 30}); if(k == 0) p = th(); else if(k == 1) q = th(); else { p = std::min(th(), 65L); q = std::min(th(), 65L); } }
		base += gen_matrix(rng, 1, base, p, q, false, true) + 8;
		base += gen_vector(rng, 3, base, std::min(p, q)) + 8;
		line = "x geqrf 1 3 " + std::to_string(rng.next() % 1000000);
	} else {
		long p = small(), q = small();
		if(large) { int k = rng.pick({35, 35, 30}); if(k == 0) p = th(); else if(k == 1) q = th(); else { p = std::min(th(), 33L); q = std::min(th(), 33L); } }
		base += gen_matrix(rng, 1, base, p, q, false, true) + 8;
		base += gen_matrix(rng, 3, base, p, p, false, true) + 8;
		base += gen_vector(rng, 5, base, std::min(p, q)) + 8;
		base += gen_matrix(rng, 7, base, q, q, false, true) + 8;
		line = "x gesvd 1 3 5 7 " + std::to_string(rng.next() % 1000000);
	}
	if(static_cast<std::size_t>(base) + 64 > NBUF) { std::fprintf(stderr, "harness: buffer too small\n"); std::abort(); }
	std::fprintf(fprog, "%s\n", line.c_str());
	std::fflush(fprog); std::fflush(fans);
	do_query(words(line));
}

static void run_generated(std::uint64_t seed, long nprog) { Rng rng(seed); for(long p = 0; p < nprog; ++p) gen_program(rng, p, nprog, seed); }

static void run_replay(char const* path) {
	std::ifstream in(path);
	std::string line;
	while(std::getline(in, line)) {
		std::fprintf(fprog, "%s\n", line.c_str());
		auto w = words(line);
		if(w.empty() || w[0] == "#") continue;
		if(w[0] == "prog") { std::fprintf(fans, "%s\n", line.c_str()); g_len = 0; continue; }
		if(w[0] == "root") {
			int reg = std::stoi(w[1]); long base = std::stol(w[2]); int D = std::stoi(w[3]);
			std::vector<Ex> ex;
			for(int k = 0; k < D; ++k) ex.push_back(Ex{std::stol(w[4 + 2 * static_cast<std::size_t>(k)]), std::stol(w[5 + 2 * static_cast<std::size_t>(k)])});
			g_regs[static_cast<std::size_t>(reg)] = make_root_any(ex, g_buf.data() + base);
			long ne = 1; for(auto const& e : ex) ne *= (e.last - e.first);
			g_len = std::max(g_len, static_cast<std::size_t>(base + ne + 64));
			if(g_len > NBUF) { std::fprintf(stderr, "harness: buffer too small\n"); std::abort(); }
		} else if(w[0] == "v") {
			int dst = std::stoi(w[1]); int src = std::stoi(w[2]);
			Op op; op.name = w[3];
			for(std::size_t k = 4; k < w.size(); ++k) op.a.push_back(std::stol(w[k]));
			g_regs[static_cast<std::size_t>(dst)] = std::visit([&](auto const& s) { return apply_op(s, op); }, g_regs[static_cast<std::size_t>(src)]);
		} else if(w[0] == "x") {
			std::fflush(fprog); std::fflush(fans);
			do_query(w);
		}
	}
}

int main(int argc, char** argv) {
	if(argc < 6) { std::fprintf(stderr, "usage: lapack <seed> <nprograms> <mode> <prog-out> <answers-out> [--replay file]\n"); return 2; }
	std::uint64_t seed = std::strtoull(argv[1], nullptr, 10);
	long nprog = std::strtol(argv[2], nullptr, 10);
	fprog = std::fopen(argv[4], "w"); fans = std::fopen(argv[5], "w");
	if(!fprog || !fans) { std::perror("fopen"); return 2; }
	g_buf.assign(NBUF, 0.0);
	if(argc >= 8 && std::string(argv[6]) == "--replay") run_replay(argv[7]);
	else run_generated(seed, nprog);
	std::fclose(fprog); std::fclose(fans);
	return g_internal ? 3 : 0;
}
