// ledger.cpp — resource-discipline harness for C08 / C09 / C10 (DESIGN.md §6).
//
// Drives the REAL boost::multi::array<T, D, Alloc> (headers from $VERIF_REPO/include) with generated operation
// histories over a pool of arrays, with an instrumented element type (registry of live addresses, can throw on
// the k-th in-block construction/assignment) and an instrumented allocator (instance ids, configurable
// propagate_on_container_* / is_always_equal, ledger of blocks, can throw std::bad_alloc on the k-th call).
// Prints, per operation, the event stream the real code produced in the canonical line protocol that
// lean/Driver/LedgerProto.lean prints from the model.
//
//   ledger <seed> <nprograms> <mode> <prog-out> <answers-out> [--replay <program-file>]
//   modes: hist    no faults, all element/allocator configurations                       (C08)
//          semitriv  element types with logged construction but trivial / skipped destruction (C08)
//          faults  every history is re-run once per injection point k (forked children)  (C09)
//          alloc   no faults, unequal stateful allocators / pmr resources emphasised      (C10)
//
// Every execution of a program happens in a forked child, so that std::terminate, a sanitizer abort or a
// segmentation fault is an *outcome* (a line of the answer stream), not a crash of the checker.
//
// Line protocol (program side):
//   prog <k> <seed>
//   cfg <E|I|S|F> <D> <pocca> <pocma> <pocs> <iae> <socc: 0 identity | 1 even | 2 default> <pmr: 0|1> <fixes>
//   fault <k>|none                 the k-th (0-based) fallible step of the whole program throws
//   x <op> <args...>               one operation (see exec_op)
//   end
// Answer side: `prog` echoed; one `r ...` line per `x` line; `end ...` line.
//   r <tag> <status> | F <fallible events in order> | I <infallible events, sorted> | S <slots> | O <outstanding> | inv <verdict>
//   events: a<blk>:<n>@<alloc>  c<blk>.<off>  s<blk>.<off>  d<blk>.<off>  f<blk>:<n>@<alloc>
#include <boost/multi/array.hpp>

#include "common/prng.hpp"

#include <algorithm>
#include <array>
#include <cstdio>
#include <cstdlib>
#include <cstring>
#include <exception>
#include <fstream>
#include <memory_resource>
#include <new>
#include <set>
#include <sstream>
#include <string>
#include <vector>

#include <fcntl.h>
#include <sys/mman.h>
#include <sys/wait.h>
#include <unistd.h>

#if defined(__SANITIZE_ADDRESS__)
#include <sanitizer/asan_interface.h>
#include <sanitizer/common_interface_defs.h>
#define LEDGER_ASAN 1
#else
#define LEDGER_ASAN 0
#endif

namespace multi = boost::multi;

// =========================================================================================== ledger (global state)
namespace lg {

struct Blk { char* p; long n; long bytes; int alloc; bool freed; int freed_by; };
struct Ev { char kind; int blk; long x; int alloc; };

static char* g_arena = nullptr;
static long g_arena_size = 0, g_arena_top = 0;
static std::vector<Blk> g_blocks;
static std::vector<Ev> g_ev;            // events of the current operation
static std::set<void const*> g_live;    // live instrumented elements (in blocks and outside)
static long g_elem_size = 1;            // sizeof the element type of the running program
static long g_fuel = -1;                // >= 0: number of fallible steps still to succeed before the throw
static char g_fired = 0;                // class of the step that threw: 'a' allocation, 'c' construction, 's' assignment
static std::string g_viol;              // first discipline violation of the current operation (UB class)
static bool g_wrong_dealloc = false;    // the current operation returned a block through an allocator unequal to its producer
static bool g_iae = false;              // is_always_equal of the running configuration
static int g_socc = 0;                  // select_on_container_copy_construction mode
static std::string g_tag = "?";         // tag of the running operation (for terminate / sanitizer death)
static int g_out_fd = -1;               // answers of the child
static bool g_observe = true;           // element events observable (instrumented element type)
static bool g_trivdtor = false;         // the element type's destruction is trivial (or declared trivial): in-block objects end with their storage

inline bool eqv(int a, int b) { return g_iae || a == b; }

inline void violation(char const* why) { if(g_viol.empty()) g_viol = why; }

inline int find_block(void const* p) {
	char const* c = static_cast<char const*>(p);
	for(std::size_t i = g_blocks.size(); i-- > 0;) { auto const& b = g_blocks[i]; if(c >= b.p && c < b.p + b.bytes) return static_cast<int>(i); }
	return -1;
}

// the k-th fallible step throws (once)
inline bool tick(char cls) {
	if(g_fuel < 0) return false;
	if(g_fuel == 0) { g_fuel = -1; g_fired = cls; return true; }
	--g_fuel; return false;
}

inline void* allocate(int alloc, long n, long elem_size, long align) {
	if(tick('a')) throw std::bad_alloc{};
	long bytes = n * elem_size;
	long top = (g_arena_top + 64 + align - 1) / align * align;  // 64 bytes of (poisoned) red zone between blocks
	if(top + bytes + 64 > g_arena_size) { std::fprintf(stderr, "ledger: arena exhausted\n"); _exit(97); }
	char* p = g_arena + top;
	g_arena_top = top + bytes;
#if LEDGER_ASAN
	ASAN_UNPOISON_MEMORY_REGION(p, static_cast<std::size_t>(bytes));
#endif
	std::memset(p, 0xA5, static_cast<std::size_t>(bytes));  // pattern: "no write for trivial types" is observed on it
	g_blocks.push_back(Blk{p, n, bytes, alloc, false, -1});
	g_ev.push_back(Ev{'a', static_cast<int>(g_blocks.size()) - 1, n, alloc});
	return p;
}

inline void deallocate(int alloc, void* p, long n) {
	int id = -1;
	for(std::size_t i = 0; i < g_blocks.size(); ++i) if(g_blocks[i].p == static_cast<char*>(p)) id = static_cast<int>(i);
	if(id < 0) { violation("dealloc-unknown"); return; }
	Blk& b = g_blocks[static_cast<std::size_t>(id)];
	if(b.freed) { violation("dealloc-freed"); return; }
	if(b.n != n) { violation("dealloc-size"); return; }
	if(g_observe && !g_trivdtor) for(long k = 0; k < b.n; ++k) if(g_live.count(b.p + k * g_elem_size)) { violation("dealloc-live"); return; }
	if(g_observe && g_trivdtor) for(long k = 0; k < b.n; ++k) g_live.erase(b.p + k * g_elem_size);  // no destructor call is due: the objects end with the storage
	b.freed = true; b.freed_by = alloc;
	if(!eqv(alloc, b.alloc)) g_wrong_dealloc = true;
	g_ev.push_back(Ev{'f', id, n, alloc});
#if LEDGER_ASAN
	ASAN_POISON_MEMORY_REGION(b.p, static_cast<std::size_t>(b.bytes));
#endif
}

struct Boom {};  // what a throwing element operation throws

// returns false when the object must not be touched (violation recorded)
inline bool on_ctor(void const* p) {
	int id = find_block(p);
	if(id >= 0) {
		Blk const& b = g_blocks[static_cast<std::size_t>(id)];
		if(b.freed) { violation("ctor-freed"); return false; }
		if(tick('c')) throw Boom{};
		if(g_live.count(p)) { violation("ctor-live"); return false; }
		g_live.insert(p);
		g_ev.push_back(Ev{'c', id, (static_cast<char const*>(p) - b.p) / g_elem_size, 0});
		return true;
	}
	if(g_trivdtor) return true;  // objects outside the blocks (fill values, temporaries) of a type without destructor hook are not tracked
	if(g_live.count(p)) { violation("ctor-live"); return false; }
	g_live.insert(p);
	return true;
}
inline bool on_read(void const* p) {
	if(!g_live.count(p)) { if(g_trivdtor && find_block(p) < 0) return true; violation("read-dead"); return false; }
	return true;
}
inline bool on_assign(void const* p) {
	int id = find_block(p);
	if(id >= 0) {
		Blk const& b = g_blocks[static_cast<std::size_t>(id)];
		if(b.freed) { violation("assign-freed"); return false; }
		if(tick('s')) throw Boom{};
		if(!g_live.count(p)) { violation("assign-dead"); return false; }
		g_ev.push_back(Ev{'s', id, (static_cast<char const*>(p) - b.p) / g_elem_size, 0});
		return true;
	}
	if(!g_live.count(p)) { if(g_trivdtor) return true; violation("assign-dead"); return false; }
	return true;
}
inline void on_dtor(void const* p) {
	int id = find_block(p);
	if(!g_live.count(p)) { if(g_trivdtor && id < 0) return; violation("dtor-dead"); return; }
	g_live.erase(p);
	if(id >= 0) { Blk const& b = g_blocks[static_cast<std::size_t>(id)]; g_ev.push_back(Ev{'d', id, (static_cast<char const*>(p) - b.p) / g_elem_size, 0}); }
}

inline void raw(std::string const& t) { (void)!::write(g_out_fd, t.data(), t.size()); }
inline void out(std::string const& s) { raw(s + "\n"); }
// the answer line of an operation is opened BEFORE the operation runs ("r <tag>") and completed afterwards, so that a
// process death inside the operation (assertion, sanitizer abort, signal) leaves a recognisable partial line
static bool g_open = false;
inline void begin(std::string const& tag) { g_tag = tag; g_open = true; raw("r " + tag); }

}  // namespace lg

// =========================================================================================== instrumented element
struct Elem {
	int v;
	Elem() : v(0) { lg::on_ctor(this); }
	explicit Elem(int x) : v(x) { lg::on_ctor(this); }
	Elem(Elem const& o) : v(0) { bool r = lg::on_read(&o); if(lg::on_ctor(this) && r) v = o.v; }
	Elem(Elem&& o) noexcept(false) : v(0) { bool r = lg::on_read(&o); if(lg::on_ctor(this) && r) v = o.v; }
	auto operator=(Elem const& o) -> Elem& { bool r = lg::on_read(&o); if(lg::on_assign(this) && r) v = o.v; return *this; }
	auto operator=(Elem&& o) noexcept(false) -> Elem& { bool r = lg::on_read(&o); if(lg::on_assign(this) && r) v = o.v; return *this; }
	~Elem() { lg::on_dtor(this); }
	friend bool operator==(Elem const& a, Elem const& b) { return a.v == b.v; }
	friend bool operator!=(Elem const& a, Elem const& b) { return a.v != b.v; }
};
static_assert(!std::is_trivially_default_constructible_v<Elem> && !std::is_trivially_destructible_v<Elem>);

// Non-trivial (logged) default / copy construction and assignment, TRIVIAL destructor — the only mixed combination that exists
// (trivially default constructible implies trivially destructible).  Whether an element was ever constructed is observable:
// the registry knows exactly the in-block addresses a constructor ran on (they end with their storage, not by a destructor).
struct Semi {
	int v;
	Semi() : v(7) { lg::on_ctor(this); }
	explicit Semi(int x) : v(x) { lg::on_ctor(this); }
	Semi(Semi const& o) : v(0) { bool r = lg::on_read(&o); if(lg::on_ctor(this) && r) v = o.v; }
	auto operator=(Semi const& o) -> Semi& { bool r = lg::on_read(&o); if(lg::on_assign(this) && r) v = o.v; return *this; }
	friend bool operator==(Semi const& a, Semi const& b) { return a.v == b.v; }
	friend bool operator!=(Semi const& a, Semi const& b) { return a.v != b.v; }
};
static_assert(!std::is_trivially_default_constructible_v<Semi> && std::is_trivially_destructible_v<Semi>);

// Fully instrumented like Elem, but the library is told that destruction may be skipped (force_element_trivial_destruction):
// a destructor call on an in-block element would be logged — and must not happen.
struct Forced {
	int v;
	Forced() : v(0) { lg::on_ctor(this); }
	explicit Forced(int x) : v(x) { lg::on_ctor(this); }
	Forced(Forced const& o) : v(0) { bool r = lg::on_read(&o); if(lg::on_ctor(this) && r) v = o.v; }
	auto operator=(Forced const& o) -> Forced& { bool r = lg::on_read(&o); if(lg::on_assign(this) && r) v = o.v; return *this; }
	~Forced() { lg::on_dtor(this); }
	friend bool operator==(Forced const& a, Forced const& b) { return a.v == b.v; }
	friend bool operator!=(Forced const& a, Forced const& b) { return a.v != b.v; }
};
namespace boost::multi { template<> inline constexpr bool force_element_trivial_destruction<Forced> = true; }
static_assert(!std::is_trivially_default_constructible_v<Forced> && !std::is_trivially_destructible_v<Forced>);

// =========================================================================================== instrumented allocators
// CFG bits: 1 = propagate_on_container_copy_assignment, 2 = ..._move_assignment, 4 = ..._swap, 8 = is_always_equal
template<class T, int CFG>
struct LAlloc {
	using value_type = T;
	using propagate_on_container_copy_assignment = std::bool_constant<(CFG & 1) != 0>;
	using propagate_on_container_move_assignment = std::bool_constant<(CFG & 2) != 0>;
	using propagate_on_container_swap            = std::bool_constant<(CFG & 4) != 0>;
	using is_always_equal                        = std::bool_constant<(CFG & 8) != 0>;
	template<class U> struct rebind { using other = LAlloc<U, CFG>; };
	int id = 0;
	LAlloc() = default;
	explicit LAlloc(int i) : id(i) {}
	template<class U> LAlloc(LAlloc<U, CFG> const& o) : id(o.id) {}  // NOLINT
	auto allocate(std::size_t n) -> T* { return static_cast<T*>(lg::allocate(id, static_cast<long>(n), sizeof(T), alignof(T))); }
	void deallocate(T* p, std::size_t n) noexcept { lg::deallocate(id, p, static_cast<long>(n)); }
	auto select_on_container_copy_construction() const -> LAlloc { return lg::g_socc == 0 ? *this : lg::g_socc == 1 ? LAlloc(id & ~1) : LAlloc(0); }
	friend bool operator==(LAlloc const& a, LAlloc const& b) { return ((CFG & 8) != 0) || a.id == b.id; }
	friend bool operator!=(LAlloc const& a, LAlloc const& b) { return !(a == b); }
};

struct LRes : std::pmr::memory_resource {
	int id;
	long elem_size = 1;
	explicit LRes(int i) : id(i) {}
	void* do_allocate(std::size_t bytes, std::size_t align) override { return lg::allocate(id, static_cast<long>(bytes) / elem_size, elem_size, static_cast<long>(align)); }
	void do_deallocate(void* p, std::size_t bytes, std::size_t) override { lg::deallocate(id, p, static_cast<long>(bytes) / elem_size); }
	bool do_is_equal(std::pmr::memory_resource const& o) const noexcept override { return this == &o; }
};
static LRes g_res[4] = {LRes(0), LRes(1), LRes(2), LRes(3)};

template<int CFG> struct PolicyL {
	template<class T> using alloc = LAlloc<T, CFG>;
	template<class T> static auto make(int id) { return LAlloc<T, CFG>(id); }
	template<class A> static int idof(A const& a) { return a.id; }
	static constexpr int cfg = CFG;
	static constexpr bool pmr = false;
};
struct PolicyPmr {
	template<class T> using alloc = std::pmr::polymorphic_allocator<T>;
	template<class T> static auto make(int id) { return std::pmr::polymorphic_allocator<T>(&g_res[id]); }
	template<class A> static int idof(A const& a) { for(int i = 0; i < 4; ++i) if(a.resource() == &g_res[i]) return i; return -1; }
	static constexpr int cfg = 0;
	static constexpr bool pmr = true;
};

// =========================================================================================== program execution
using Ex = std::pair<long, long>;
static constexpr int P = 4;  // slots of the pool

static std::vector<std::string> words(std::string const& line) { std::istringstream is(line); std::vector<std::string> w; std::string t; while(is >> t) w.push_back(t); return w; }

template<int D> auto mkext(std::vector<Ex> const& ex) {
	std::array<multi::iextension, static_cast<std::size_t>(D)> arr;
	for(std::size_t k = 0; k < static_cast<std::size_t>(D); ++k) arr[k] = multi::iextension{ex[k].first, ex[k].second};
	return std::apply([](auto... e) { return multi::extensions_t<D>{e...}; }, arr);
}
template<class X> std::vector<Ex> exts_of(X const& x) {
	std::vector<Ex> r;
	std::apply([&](auto const&... e) { (r.push_back(Ex{static_cast<long>(e.first()), static_cast<long>(e.last())}), ...); }, x.base());
	return r;
}
static std::string ex_str(std::vector<Ex> const& ex) { std::string s; for(auto const& e : ex) s += " " + std::to_string(e.first) + " " + std::to_string(e.second); return s; }

template<class T> T mkval(int x) { if constexpr(std::is_same_v<T, int>) return x; else return T(x); }

template<class T, int D, class AP>
struct Runner {
	using A = typename AP::template alloc<T>;
	using Arr = multi::array<T, D, A>;
	using SArr = multi::static_array<T, D, A>;
	alignas(Arr) unsigned char buf[P][sizeof(Arr)];
	bool alive[P] = {false, false, false, false};

	Arr& at(int i) { return *std::launder(reinterpret_cast<Arr*>(buf[i])); }
	template<class F> void construct(int i, F&& f) { f(static_cast<void*>(buf[i])); alive[i] = true; }

	static std::string ev_str(lg::Ev const& e) {
		switch(e.kind) {
			case 'a': return "a" + std::to_string(e.blk) + ":" + std::to_string(e.x) + "@" + std::to_string(e.alloc);
			case 'f': return "f" + std::to_string(e.blk) + ":" + std::to_string(e.x) + "@" + std::to_string(e.alloc);
			default: return std::string(1, e.kind) + std::to_string(e.blk) + "." + std::to_string(e.x);
		}
	}

	// snapshot of the pool + outstanding blocks + the harness' own verdict on the invariant (independent of the model):
	// the set of defects present, in the fixed order invalid, wrongalloc, leak, shared, extleak, wrongdealloc
	std::string snapshot() {
		std::string s = " | S";
		bool invalid = false, wrongalloc = false, leak = false, shared = false, extleak = false;
		std::vector<int> owners(lg::g_blocks.size(), 0);
		for(int i = 0; i < P; ++i) {
			if(!alive[i]) { s += " -"; continue; }
			Arr& a = at(i);
			long n = static_cast<long>(a.num_elements());
			int al = AP::idof(a.get_allocator());
			s += " [@" + std::to_string(al) + " n" + std::to_string(n) + " b";
			if(n <= 0) { s += "_]"; continue; }
			void const* bp = static_cast<void const*>(a.base());
			int id = -1;
			for(std::size_t k = 0; k < lg::g_blocks.size(); ++k) if(lg::g_blocks[k].p == bp) id = static_cast<int>(k);
			if(bp == nullptr) { s += "null]"; invalid = true; continue; }
			if(id < 0) { s += "?]"; invalid = true; continue; }
			auto const& b = lg::g_blocks[static_cast<std::size_t>(id)];
			s += std::string(b.freed ? "x" : "") + std::to_string(id) + "]";
			if(b.freed || b.n != n) { invalid = true; continue; }
			++owners[static_cast<std::size_t>(id)];
			if(lg::g_observe) { for(long k = 0; k < n; ++k) if(!lg::g_live.count(b.p + k * lg::g_elem_size)) { invalid = true; break; } }
			if(!lg::eqv(al, b.alloc)) wrongalloc = true;
		}
		s += " | O";
		long inblock_live = 0;
		for(std::size_t k = 0; k < lg::g_blocks.size(); ++k) {
			auto const& b = lg::g_blocks[k];
			long lv = 0;
			if(lg::g_observe) for(long c = 0; c < b.n; ++c) if(lg::g_live.count(b.p + c * lg::g_elem_size)) ++lv;
			inblock_live += lv;
			if(b.freed) continue;
			s += " " + std::to_string(k) + ":" + std::to_string(b.n) + ":" + (lg::g_observe ? std::to_string(lv) : std::string("_"));
			if(owners[k] == 0) leak = true;
			if(owners[k] > 1) shared = true;
		}
		if(lg::g_observe && static_cast<long>(lg::g_live.size()) != inblock_live) extleak = true;
		std::string bad;
		auto add = [&](bool f, char const* w) { if(f) bad += (bad.empty() ? "" : ",") + std::string(w); };
		add(invalid, "invalid"); add(wrongalloc, "wrongalloc"); add(leak, "leak"); add(shared, "shared"); add(extleak, "extleak"); add(lg::g_wrong_dealloc, "wrongdealloc");
		s += " | inv " + (bad.empty() ? std::string("ok") : "BAD:" + bad);
		return s;
	}

	// number of cells of slot i's block that still hold the allocator's fill pattern (trivial element types only)
	long pattern_cells(int i) {
		if constexpr(std::is_same_v<T, int>) {
			Arr& a = at(i); long n = static_cast<long>(a.num_elements()); long c = 0;
			unsigned char const* p = reinterpret_cast<unsigned char const*>(a.base());
			for(long k = 0; k < n; ++k) { bool all = true; for(std::size_t b = 0; b < sizeof(int); ++b) if(p[static_cast<std::size_t>(k) * sizeof(int) + b] != 0xA5) all = false; if(all) ++c; }
			return c;
		}
		return 0;
	}

	bool same_ext(int i, std::vector<Ex> const& ex) { return at(i).extensions() == mkext<D>(ex); }
	// in-domain test for j.sliced(lo, hi), from the real array's current leading extension
	bool slice_ok(int j, long lo, long hi) { auto e = at(j).extension(); return static_cast<long>(e.first()) <= lo && lo <= hi && hi <= static_cast<long>(e.last()); }

	// executes one operation line on the real arrays; returns the tag (operation + branch) — may throw
	// D = 0 (array<T, 0>: exactly one element, no empty state).  Only the forms whose meaning coincides with the D >= 1 code the
	// model transcribes are part of a history: element/extension constructors, copy construction, copy assignment (always
	// in place), assignment of an element, destruction.  (Move construction and move assignment of a 0-D array copy/move the
	// element and leave the source alive - static_array semantics - and are not modelled.)
	std::string exec_op0(std::vector<std::string> const& w, std::string& extra) {
		std::string const& op = w[1];
		auto I = [&](std::size_t k) { return std::stoi(w[k]); };
		auto need = [&](int i, bool live) { return alive[i] == live; };
		if(op == "ctor_ext") { int i = I(2); if(!need(i, false)) return "skip"; lg::begin(op); construct(i, [&](void* p) { new(p) Arr(multi::extensions_t<0>{}, AP::template make<T>(I(3))); }); if constexpr(std::is_same_v<T, int>) extra = " pat " + std::to_string(pattern_cells(i)); return op; }
		if(op == "ctor_fill") { int i = I(2); if(!need(i, false)) return "skip"; lg::begin(op); T v = mkval<T>(7); construct(i, [&](void* p) { new(p) Arr(v, AP::template make<T>(I(3))); }); return op; }
		if(op == "ctor_copy") { int i = I(2), j = I(3); if(!need(i, false) || !need(j, true)) return "skip"; lg::begin(op); construct(i, [&](void* p) { new(p) Arr(at(j)); }); return op; }
		if(op == "dtor") { int i = I(2); if(!need(i, true)) return "skip"; lg::begin(op); alive[i] = false; at(i).~Arr(); return op; }
		if(op == "assign_copy") { int i = I(2), j = I(3); if(!need(i, true) || !need(j, true)) return "skip"; std::string tag = op + (i == j ? "/self" : "/same"); lg::begin(tag); Arr const& src = at(j); at(i) = src; return tag; }
		if(op == "assign_fill") { int i = I(2); if(!need(i, true)) return "skip"; std::string tag = op + "/same"; lg::begin(tag); T v = mkval<T>(5); at(i) = v; return tag; }
		return "bad-op";
	}

	std::string exec_op(std::vector<std::string> const& w, std::string& extra) {
		if constexpr(D == 0) { return exec_op0(w, extra); } else {
		std::string const& op = w[1];
		auto I = [&](std::size_t k) { return std::stoi(w[k]); };
		auto EX = [&](std::size_t k) { std::vector<Ex> ex; for(int d = 0; d < D; ++d) ex.push_back(Ex{std::stol(w[k + 2 * static_cast<std::size_t>(d)]), std::stol(w[k + 2 * static_cast<std::size_t>(d) + 1])}); return ex; };
		auto need = [&](int i, bool live) { return alive[i] == live; };
		if(op == "ctor_default") { int i = I(2); if(!need(i, false)) return "skip"; lg::begin(op); construct(i, [&](void* p) { new(p) Arr(AP::template make<T>(I(3))); }); return op; }
		if(op == "ctor_ext") { int i = I(2); if(!need(i, false)) return "skip"; lg::begin(op); auto x = mkext<D>(EX(4)); construct(i, [&](void* p) { new(p) Arr(x, AP::template make<T>(I(3))); }); if constexpr(std::is_same_v<T, int>) extra = " pat " + std::to_string(pattern_cells(i)); return op; }
		if(op == "ctor_fill") { int i = I(2); if(!need(i, false)) return "skip"; lg::begin(op); auto x = mkext<D>(EX(4)); T v = mkval<T>(7); construct(i, [&](void* p) { new(p) Arr(x, v, AP::template make<T>(I(3))); }); return op; }
		if(op == "ctor_copy") { int i = I(2), j = I(3); if(!need(i, false) || !need(j, true)) return "skip"; lg::begin(op); construct(i, [&](void* p) { new(p) Arr(at(j)); }); return op; }
		if(op == "ctor_copy_a") { int i = I(2), j = I(3); if(!need(i, false) || !need(j, true)) return "skip"; lg::begin(op); Arr const& src = at(j); construct(i, [&](void* p) { new(p) Arr(src, AP::template make<T>(I(4))); }); return op; }
		if(op == "ctor_view") {  // from a sub-view of slot j: j.sliced(lo, hi) along the leading dimension (lo = hi = -1: the whole array as a view)
			int i = I(2), j = I(3); if(!need(i, false) || !need(j, true)) return "skip"; long lo = std::stol(w[5]), hi = std::stol(w[6]); if(lo >= 0 && !slice_ok(j, lo, hi)) return "skip"; lg::begin(op);
			Arr const& src = at(j);
			if(lo < 0) construct(i, [&](void* p) { new(p) Arr(src(), AP::template make<T>(I(4))); }); else construct(i, [&](void* p) { new(p) Arr(src.sliced(lo, hi), AP::template make<T>(I(4))); });
			return op;
		}
		if(op == "ctor_range") {  // iterator-pair constructor from begin()/end() of slot j (non-empty)
			int i = I(2), j = I(3); if(!need(i, false) || !need(j, true)) return "skip"; lg::begin(op); Arr const& src = at(j);
			construct(i, [&](void* p) { new(p) Arr(src.begin(), src.end(), AP::template make<T>(I(4))); }); return op;
		}
		if(op == "ctor_move") { int i = I(2), j = I(3); if(!need(i, false) || !need(j, true)) return "skip"; lg::begin(op); construct(i, [&](void* p) { new(p) Arr(std::move(at(j))); }); return op; }
		if(op == "ctor_move_a") { int i = I(2), j = I(3); if(!need(i, false) || !need(j, true)) return "skip"; lg::begin(op); construct(i, [&](void* p) { new(p) Arr(std::move(at(j)), AP::template make<T>(I(4))); }); return op; }
		if(op == "dtor") { int i = I(2); if(!need(i, true)) return "skip"; lg::begin(op); alive[i] = false; at(i).~Arr(); return op; }
		if(op == "clear") { int i = I(2); if(!need(i, true)) return "skip"; lg::begin(op); at(i).clear(); return op; }
		if(op == "assign_copy") { int i = I(2), j = I(3); if(!need(i, true) || !need(j, true)) return "skip"; std::string tag = op + (i == j ? "/self" : at(i).extensions() == at(j).extensions() ? "/same" : "/diff"); lg::begin(tag); Arr const& src = at(j); at(i) = src; return tag; }
		if(op == "assign_move") { int i = I(2), j = I(3); if(!need(i, true) || !need(j, true)) return "skip"; std::string tag = op + (i == j ? "/self" : ""); lg::begin(tag); at(i) = std::move(at(j)); return tag; }
		if(op == "swap") { int i = I(2), j = I(3); if(!need(i, true) || !need(j, true)) return "skip"; if(!((AP::cfg & 4) != 0 || at(i).get_allocator() == at(j).get_allocator())) return "skip";  // swapping unequal non-propagating allocators is undefined (as for standard containers)
			lg::begin(op); at(i).swap(at(j)); return op; }
		if(op == "reextent" || op == "reextent_fill" || op == "reextent_rv") {
			int i = I(2); if(!need(i, true)) return "skip"; auto ex = EX(3); std::string tag = op + (same_ext(i, ex) ? "/same" : "/diff"); lg::begin(tag);
			bool diff = !same_ext(i, ex);
			if constexpr(std::is_same_v<T, int>) if(diff) { int* q = at(i).data_elements(); for(long k = 0; k < static_cast<long>(at(i).num_elements()); ++k) q[k] = 1; }  // the harness' own write: copied elements lose the pattern
			if(op == "reextent") at(i).reextent(mkext<D>(ex)); else if(op == "reextent_rv") std::move(at(i)).reextent(mkext<D>(ex)); else { T v = mkval<T>(9); at(i).reextent(mkext<D>(ex), v); }
			if constexpr(std::is_same_v<T, int>) if(op != "reextent_fill" && diff) extra = " pat " + std::to_string(pattern_cells(i));
			return tag;
		}
		if(op == "reshape") { int i = I(2); if(!need(i, true)) return "skip"; auto ex = EX(3); long n = 1; for(auto const& e : ex) n *= (e.second - e.first); if(n != static_cast<long>(at(i).num_elements())) return "skip"; lg::begin(op); at(i).reshape(mkext<D>(ex)); return op; }
		if(op == "assign_fill") { int i = I(2); if(!need(i, true)) return "skip"; auto ex = EX(3); std::string tag = op + (same_ext(i, ex) ? "/same" : "/diff"); lg::begin(tag); T v = mkval<T>(5); at(i).assign(mkext<D>(ex), v); return tag; }
		if(op == "assign_view" || op == "assign_viewl") {  // A = B.sliced(lo, hi) | A = B()   (assign_viewl: the view is a named lvalue)
			int i = I(2), j = I(3); if(!need(i, true) || !need(j, true) || i == j) return "skip"; long lo = std::stol(w[4]), hi = std::stol(w[5]); if(lo >= 0 && !slice_ok(j, lo, hi)) return "skip";
			Arr const& src = at(j); bool lv = op == "assign_viewl";
			if(lo < 0) { auto const& v = src(); std::string tag = op + (at(i).extensions() == v.extensions() ? "/same" : "/diff"); lg::begin(tag); if(lv) at(i) = v; else at(i) = src(); return tag; }
			auto const& v = src.sliced(lo, hi); std::string tag = op + (at(i).extensions() == v.extensions() ? "/same" : "/diff"); lg::begin(tag); if(lv) at(i) = v; else at(i) = src.sliced(lo, hi); return tag;
		}
		if(op == "assign_range") {  // A.assign(B.begin(), B.end()): in place iff same count and same inner extensions (array.hpp:1417-1426)
			int i = I(2), j = I(3); if(!need(i, true) || !need(j, true) || i == j) return "skip"; Arr const& src = at(j);
			bool same = src.size() == at(i).size() && (at(i).size() == 0 || multi::extensions(*src.begin()) == multi::extensions(*at(i).begin()));
			std::string tag = op + (same ? "/same" : "/diff"); lg::begin(tag); at(i).assign(src.begin(), src.end()); return tag;
		}
		if(op == "view_assign") {  // A() = B(): assignment through views, equal extensions only
			int i = I(2), j = I(3); if(!need(i, true) || !need(j, true) || i == j) return "skip"; if(!(at(i).extensions() == at(j).extensions())) return "skip"; lg::begin(op); Arr const& src = at(j); at(i)() = src(); return op;
		}
		if(op == "sa_move") {  // static_array move constructor (noexcept, allocates and moves element-wise): self-contained micro-history
			auto ex = EX(3); lg::begin(op); T v = mkval<T>(3);
			SArr s(mkext<D>(ex), v, AP::template make<T>(I(2)));
			SArr t(std::move(s));
			return op;
		}
		return "bad-op";
		}
	}

	// runs a whole program (lines after `cfg`), printing the answers
	void run(std::vector<std::string> const& lines) {
		lg::g_elem_size = static_cast<long>(sizeof(T));
		lg::g_observe = !std::is_same_v<T, int>;
		lg::g_trivdtor = std::is_same_v<T, Semi> || std::is_same_v<T, Forced>;
		for(auto& r : g_res) r.elem_size = static_cast<long>(sizeof(T));
		bool halted = false;
		bool poisoned = false;  // some array is in an invalid state (extents/base inconsistent): only destructors run from here on
		for(auto const& line : lines) {
			auto w = words(line);
			if(w.empty()) continue;
			if(w[0] == "fault") { lg::g_fuel = (w[1] == "none") ? -1 : std::stol(w[1]); continue; }
			if(w[0] == "end") {
				long nb = 0; for(auto const& b : lg::g_blocks) if(!b.freed) ++nb;
				bool anyalive = false; for(bool b : alive) anyalive = anyalive || b;
				std::string s = "end";
				if(halted) s += " halted";
				else if(anyalive) s += " arrays-alive";
				else if(nb != 0 || (lg::g_observe && !lg::g_live.empty())) s += " leak " + std::to_string(nb) + " " + std::to_string(lg::g_observe ? static_cast<long>(lg::g_live.size()) : 0L);
				else s += " clean";
				s += (lg::g_fuel >= 0) ? " fault-not-reached" : "";
				lg::out(s);
				continue;
			}
			if(w[0] != "x" || halted) continue;
			if(poisoned && w[1] != "dtor") { lg::out("r skip"); continue; }
			lg::g_ev.clear(); lg::g_viol.clear(); lg::g_fired = 0; lg::g_wrong_dealloc = false; lg::g_open = false;
			std::string tag, status = "ok", extra;
			try { tag = exec_op(w, extra); } catch(std::bad_alloc const&) { status = "threw:a"; tag = lg::g_tag; } catch(lg::Boom const&) { status = std::string("threw:") + lg::g_fired; tag = lg::g_tag; }
			if(!lg::g_open) { lg::out("r " + tag); continue; }  // skip | bad-op
			if(!lg::g_viol.empty()) { std::fprintf(stderr, "ledger: %s: %s\n", tag.c_str(), lg::g_viol.c_str()); lg::out(" CORRUPT"); lg::out("halt"); halted = true; continue; }
			std::string f, inf; std::vector<std::string> infs;
			for(auto const& e : lg::g_ev) { if(e.kind == 'a' || e.kind == 'c' || e.kind == 's') { if(e.kind == 'a' || lg::g_observe) f += " " + ev_str(e); } else infs.push_back(ev_str(e)); }
			std::sort(infs.begin(), infs.end());
			for(auto const& s : infs) inf += " " + s;
			std::string snap = snapshot();
			if(snap.find("invalid") != std::string::npos || snap.find("shared") != std::string::npos) poisoned = true;
			lg::out(" " + status + extra + " | F" + f + " | I" + inf + snap);
		}
	}
};

// ------------------------------------------------------------------------------------------- configuration dispatch
struct Cfg { char elem = 'E'; int D = 1; int traits = 0; int socc = 0; int pmr = 0; };

static Cfg parse_cfg(std::vector<std::string> const& w) {
	Cfg c; c.elem = w[1][0]; c.D = std::stoi(w[2]);
	c.traits = (std::stoi(w[3]) ? 1 : 0) | (std::stoi(w[4]) ? 2 : 0) | (std::stoi(w[5]) ? 4 : 0) | (std::stoi(w[6]) ? 8 : 0);
	c.socc = std::stoi(w[7]); c.pmr = std::stoi(w[8]);
	return c;
}
static std::string cfg_line(Cfg const& c) {
	return std::string("cfg ") + c.elem + " " + std::to_string(c.D) + " " + std::to_string(c.traits & 1) + " " + std::to_string((c.traits >> 1) & 1) + " " + std::to_string((c.traits >> 2) & 1) + " " + std::to_string((c.traits >> 3) & 1) + " " + std::to_string(c.socc) + " " + std::to_string(c.pmr);
}

template<class T, int D, class AP> static void run_as(std::vector<std::string> const& lines) { static Runner<T, D, AP> r; r.run(lines); }

using RunFn = void (*)(std::vector<std::string> const&);

template<class T, int D> static RunFn pick_traits(int traits) {
	switch(traits) {
#define LC(n) case n: return &run_as<T, D, PolicyL<n>>;
		LC(0) LC(1) LC(2) LC(3) LC(4) LC(5) LC(6) LC(7) LC(8) LC(9) LC(10) LC(11) LC(12) LC(13) LC(14) LC(15)
#undef LC
	}
	return nullptr;
}

// which (element, D, allocator) combinations are instantiated: Elem: D = 2 with all 16 trait configurations, D = 1, 3 with
// configurations 0 and 15, pmr at D = 1, 2;   int: D = 1..3 with configuration 0 (ledger + "no write" pattern only)
static RunFn pick(Cfg const& c) {
	if(c.D == 0) {   // array<T, 0>: non-propagating, not-always-equal allocators (all three select_on_container_copy_construction modes) and std::pmr
		if(c.pmr) return c.elem == 'E' ? &run_as<Elem, 0, PolicyPmr> : nullptr;
		if(c.traits != 0) return nullptr;
		if(c.elem == 'E') return &run_as<Elem, 0, PolicyL<0>>;
		if(c.elem == 'I') return &run_as<int, 0, PolicyL<0>>;
		if(c.elem == 'S') return &run_as<Semi, 0, PolicyL<0>>;
		return nullptr;
	}
	if(c.elem == 'E') {
		if(c.pmr) { if(c.D == 1) return &run_as<Elem, 1, PolicyPmr>; if(c.D == 2) return &run_as<Elem, 2, PolicyPmr>; return nullptr; }
		if(c.D == 2) return pick_traits<Elem, 2>(c.traits);
		if(c.D == 1) { if(c.traits == 0) return &run_as<Elem, 1, PolicyL<0>>; if(c.traits == 15) return &run_as<Elem, 1, PolicyL<15>>; return nullptr; }
		if(c.D == 3) { if(c.traits == 0) return &run_as<Elem, 3, PolicyL<0>>; if(c.traits == 15) return &run_as<Elem, 3, PolicyL<15>>; return nullptr; }
		return nullptr;
	}
	if(c.pmr || c.traits != 0) return nullptr;
	if(c.elem == 'S') { if(c.D == 1) return &run_as<Semi, 1, PolicyL<0>>; if(c.D == 2) return &run_as<Semi, 2, PolicyL<0>>; if(c.D == 3) return &run_as<Semi, 3, PolicyL<0>>; return nullptr; }
	if(c.elem == 'F') { if(c.D == 2) return &run_as<Forced, 2, PolicyL<0>>; return nullptr; }
	if(c.D == 1) return &run_as<int, 1, PolicyL<0>>;
	if(c.D == 2) return &run_as<int, 2, PolicyL<0>>;
	if(c.D == 3) return &run_as<int, 3, PolicyL<0>>;
	return nullptr;
}

static void on_terminate() { std::string st = std::string("TERMINATED:") + (lg::g_fired ? lg::g_fired : '?'); lg::out(lg::g_open ? " " + st : "r ? " + st); lg::out("halt"); lg::out("end halted"); _exit(0); }

// child: executes one program (lines after the `prog` line) and writes the answers to fd
static void child_main(std::vector<std::string> const& lines, int fd) {
	lg::g_out_fd = fd;
	std::set_terminate(on_terminate);
	lg::g_arena_size = 1L << 20;
	lg::g_arena = static_cast<char*>(::mmap(nullptr, static_cast<std::size_t>(lg::g_arena_size), PROT_READ | PROT_WRITE, MAP_PRIVATE | MAP_ANONYMOUS, -1, 0));
#if LEDGER_ASAN
	ASAN_POISON_MEMORY_REGION(lg::g_arena, static_cast<std::size_t>(lg::g_arena_size));
#endif
	std::pmr::set_default_resource(&g_res[0]);
	Cfg c; bool have = false; std::vector<std::string> body;
	for(auto const& l : lines) { auto w = words(l); if(!w.empty() && w[0] == "cfg") { c = parse_cfg(w); have = true; } else body.push_back(l); }
	RunFn f = have ? pick(c) : nullptr;
	if(f == nullptr) { lg::out("bad-cfg"); _exit(0); }
	lg::g_iae = (c.traits & 8) != 0; lg::g_socc = c.pmr ? 2 : c.socc;
	f(body);
	_exit(0);
}

// parent: runs the program in a child, returns the answer lines
static std::vector<std::string> run_forked(std::vector<std::string> const& lines) {
	int fd = ::memfd_create("ledger-answers", 0);
	pid_t pid = ::fork();
	if(pid == 0) { child_main(lines, fd); _exit(0); }
	int st = 0; ::waitpid(pid, &st, 0);
	std::string all; char bufc[4096]; ::lseek(fd, 0, SEEK_SET);
	for(;;) { ssize_t n = ::read(fd, bufc, sizeof bufc); if(n <= 0) break; all.append(bufc, static_cast<std::size_t>(n)); }
	::close(fd);
	std::vector<std::string> out; std::istringstream is(all); std::string l; while(std::getline(is, l)) out.push_back(l);
	// a child that died inside an operation (assertion, sanitizer abort, signal) leaves the partial line "r <tag>": that
	// operation's outcome is CORRUPT.  A program without an `end` line (a prefix tried by the shrinker) is not a crash.
	bool died = !WIFEXITED(st) || WEXITSTATUS(st) != 0;
	bool partial = !all.empty() && all.back() != '\n';
	if(died || partial) {
		if(partial && !out.empty()) out.back() += " CORRUPT"; else out.push_back("r ? CORRUPT");
		out.push_back("halt"); out.push_back("end halted");
	}
	return out;
}

// =========================================================================================== generation
// The generator keeps a shadow of the pool (alive, allocator, extents) that it updates from the answers of the real run:
// after every generated operation the whole prefix is NOT re-executed; instead the shadow is advanced by the documented
// effect of the operation on extents, and the final program is executed once in a child (no fault) — the answers of that
// run are the reference for the number of fallible steps F; then one more child per injection point k < F.
struct Shadow { bool alive = false; int alloc = 0; std::vector<Ex> ex; long n() const { long r = 1; for(auto const& e : ex) r *= (e.second - e.first); return r; } };

static std::vector<Ex> gen_ext(Rng& rng, int D, bool rebased) {
	std::vector<Ex> ex;
	long budget = 24;
	for(int d = 0; d < D; ++d) {
		long mx = std::max(1L, std::min(5L, budget));
		int pk = rng.pick({10, 14, 76});
		long sz = pk == 0 ? 0 : pk == 1 ? 1 : rng.range(1, mx);
		long f = 0; (void)rebased;  // zero-based extents only: index bases are C19's subject, and reextent of re-based arrays asserts (reported to C06/C19)
		ex.push_back(Ex{f, f + sz});
		if(sz > 0) budget /= sz;
	}
	return ex;
}
// reported extensions of an array constructed from ex: a dimension reports [0,0) when it or any later extent is empty
static std::vector<Ex> collapse(std::vector<Ex> ex) {
	long tail = 1;
	for(std::size_t k = ex.size(); k-- > 0;) { tail *= (ex[k].second - ex[k].first); if(tail == 0) ex[k] = Ex{0, 0}; }
	return ex;
}

// histories over array<T, 0> (see exec_op0)
static std::vector<std::string> gen_history0(Rng& rng, int maxops, std::string const& mode) {
	std::vector<std::string> L;
	bool alive[P] = {false, false, false, false};
	auto pick_alloc = [&]() { return (mode == "alloc" || rng.coin(55)) ? static_cast<int>(rng.range(0, 3)) : 1; };
	auto some = [&](bool want) { std::vector<int> v; for(int i = 0; i < P; ++i) if(alive[i] == want) v.push_back(i); return v; };
	auto any = [&](std::vector<int> const& v) { return v[static_cast<std::size_t>(rng.range(0, static_cast<long>(v.size()) - 1))]; };
	int nops = static_cast<int>(rng.range(1, maxops));
	for(int k = 0; k < nops; ++k) {
		auto lv = some(true), dd = some(false);
		if(!dd.empty() && (lv.empty() || rng.coin(lv.size() < 2 ? 70 : 35))) {
			int i = any(dd); int form = lv.empty() ? rng.pick({50, 50, 0}) : rng.pick({25, 25, 50});
			if(form == 0) L.push_back("x ctor_ext " + std::to_string(i) + " " + std::to_string(pick_alloc()));
			else if(form == 1) L.push_back("x ctor_fill " + std::to_string(i) + " " + std::to_string(pick_alloc()));
			else L.push_back("x ctor_copy " + std::to_string(i) + " " + std::to_string(any(lv)));
			alive[i] = true; continue;
		}
		if(lv.empty()) continue;
		int i = any(lv), j = any(lv);
		switch(rng.pick({25, 45, 30})) {
			case 0: L.push_back("x dtor " + std::to_string(i)); alive[i] = false; break;
			case 1: L.push_back("x assign_copy " + std::to_string(i) + " " + std::to_string(j)); break;
			default: L.push_back("x assign_fill " + std::to_string(i)); break;
		}
	}
	for(int i = 0; i < P; ++i) L.push_back("x dtor " + std::to_string(i));
	L.push_back("end");
	return L;
}

static std::vector<std::string> gen_history(Rng& rng, Cfg const& c, int maxops, std::string const& mode) {
	if(c.D == 0) return gen_history0(rng, maxops, mode);
	std::vector<std::string> L;
	Shadow sh[P];
	int nalloc = 4;
	auto pick_alloc = [&]() { return (mode == "alloc" || rng.coin(55)) ? static_cast<int>(rng.range(0, nalloc - 1)) : 1; };
	auto live = [&]() { std::vector<int> v; for(int i = 0; i < P; ++i) if(sh[i].alive) v.push_back(i); return v; };
	auto dead = [&]() { std::vector<int> v; for(int i = 0; i < P; ++i) if(!sh[i].alive) v.push_back(i); return v; };
	auto any = [&](std::vector<int> const& v) { return v[static_cast<std::size_t>(rng.range(0, static_cast<long>(v.size()) - 1))]; };
	auto near_ext = [&](std::vector<Ex> const& base) {  // extents related to an existing array: same, one dimension changed, or fresh
		int pk = rng.pick({25, 45, 30});
		if(pk == 0) return base;
		if(pk == 2) return gen_ext(rng, c.D, rng.coin(25));
		auto e = base; std::size_t d = static_cast<std::size_t>(rng.range(0, c.D - 1)); long sz = e[d].second - e[d].first; long nsz = std::max(0L, sz + rng.range(-2, 2)); e[d].second = e[d].first + nsz; if(Shadow{true, 0, e}.n() > 60) return base; return e;
	};
	int nops = static_cast<int>(rng.range(1, maxops));
	bool rebased = rng.coin(20);
	for(int k = 0; k < nops; ++k) {
		auto lv = live(), dd = dead();
		// weights: constructions when the pool is thin, otherwise mutations
		bool want_ctor = !dd.empty() && (lv.empty() || rng.coin(lv.size() < 2 ? 70 : 30));
		if(want_ctor) {
			int i = any(dd);
			int form = lv.empty() ? rng.pick({8, 30, 30, 0, 0, 0, 0, 0, 0}) : rng.pick({4, 14, 14, 14, 8, 12, 8, 12, 14});
			int a = pick_alloc();
			if(form == 0) { L.push_back("x ctor_default " + std::to_string(i) + " " + std::to_string(a)); sh[i] = Shadow{true, a, collapse(std::vector<Ex>(static_cast<std::size_t>(c.D), Ex{0, 0}))}; }
			else if(form == 1 || form == 2) { auto ex = gen_ext(rng, c.D, rebased); L.push_back(std::string("x ") + (form == 1 ? "ctor_ext " : "ctor_fill ") + std::to_string(i) + " " + std::to_string(a) + ex_str(ex)); sh[i] = Shadow{true, a, collapse(ex)}; }
			else {
				int j = any(lv);
				if(form == 3) { L.push_back("x ctor_copy " + std::to_string(i) + " " + std::to_string(j)); sh[i] = sh[j]; }
				else if(form == 4) { L.push_back("x ctor_copy_a " + std::to_string(i) + " " + std::to_string(j) + " " + std::to_string(a)); sh[i] = sh[j]; sh[i].alloc = a; }
				else if(form == 5) {
					long f = sh[j].ex[0].first, l = sh[j].ex[0].second;
					if(l - f >= 1 && rng.coin(65)) { long lo = f, hi = rng.range(lo, l); L.push_back("x ctor_view " + std::to_string(i) + " " + std::to_string(j) + " " + std::to_string(a) + " " + std::to_string(lo) + " " + std::to_string(hi)); auto e = sh[j].ex; e[0] = Ex{lo, hi}; sh[i] = Shadow{true, a, collapse(e)}; }
					else { L.push_back("x ctor_view " + std::to_string(i) + " " + std::to_string(j) + " " + std::to_string(a) + " -1 -1"); sh[i] = sh[j]; sh[i].alloc = a; }
				}
				else if(form == 6) { L.push_back("x ctor_range " + std::to_string(i) + " " + std::to_string(j) + " " + std::to_string(a)); sh[i] = sh[j]; sh[i].alloc = a; }
				else if(form == 7) { L.push_back("x ctor_move " + std::to_string(i) + " " + std::to_string(j)); sh[i] = sh[j]; sh[j].ex = collapse(std::vector<Ex>(static_cast<std::size_t>(c.D), Ex{0, 0})); }
				else { L.push_back("x ctor_move_a " + std::to_string(i) + " " + std::to_string(j) + " " + std::to_string(a)); sh[i] = sh[j]; sh[i].alloc = a; sh[j].ex = collapse(std::vector<Ex>(static_cast<std::size_t>(c.D), Ex{0, 0})); }
			}
			continue;
		}
		if(lv.empty()) continue;
		int i = any(lv);
		int j = any(lv);
		int kind = rng.pick({6, 4, 14, 10, 6, 9, 9, 5, 4, 7, 8, 6, 5, 3});
		std::string si = std::to_string(i), sj = std::to_string(j);
		switch(kind) {
			case 0: L.push_back("x dtor " + si); sh[i].alive = false; break;
			case 1: L.push_back("x clear " + si); sh[i].ex = collapse(std::vector<Ex>(static_cast<std::size_t>(c.D), Ex{0, 0})); break;
			case 2: L.push_back("x assign_copy " + si + " " + sj); if(i != j) sh[i].ex = sh[j].ex; break;
			case 3: L.push_back("x assign_move " + si + " " + sj); if(i != j) { sh[i].ex = sh[j].ex; sh[j].ex = collapse(std::vector<Ex>(static_cast<std::size_t>(c.D), Ex{0, 0})); } break;
			case 4: L.push_back("x swap " + si + " " + sj); if(i != j) std::swap(sh[i].ex, sh[j].ex); break;
			case 5: { auto e = near_ext(sh[i].ex); L.push_back("x reextent " + si + ex_str(e)); sh[i].ex = collapse(e); break; }
			case 6: { auto e = near_ext(sh[i].ex); L.push_back("x reextent_fill " + si + ex_str(e)); sh[i].ex = collapse(e); break; }
			case 7: { auto e = near_ext(sh[i].ex); L.push_back("x reextent_rv " + si + ex_str(e)); sh[i].ex = collapse(e); break; }
			case 8: {  // reshape to a permutation of the sizes (same number of elements)
				auto e = sh[i].ex; for(auto& x : e) x = Ex{0, x.second - x.first}; if(c.D >= 2) std::swap(e[0], e[static_cast<std::size_t>(c.D) - 1]);
				L.push_back("x reshape " + si + ex_str(e)); sh[i].ex = collapse(e); break;
			}
			case 9: { auto e = near_ext(sh[i].ex); L.push_back("x assign_fill " + si + ex_str(e)); sh[i].ex = collapse(e); break; }
			case 10: {
				if(i == j) { --k; continue; }
				long f = sh[j].ex[0].first, l = sh[j].ex[0].second;
				if(l - f >= 1 && rng.coin(60)) { long lo = f, hi = rng.range(lo, l); L.push_back(std::string(rng.coin(50) ? "x assign_view " : "x assign_viewl ") + si + " " + sj + " " + std::to_string(lo) + " " + std::to_string(hi)); auto e = sh[j].ex; e[0] = Ex{lo, hi}; sh[i].ex = collapse(e); }
				else { L.push_back(std::string(rng.coin(50) ? "x assign_view " : "x assign_viewl ") + si + " " + sj + " -1 -1"); sh[i].ex = sh[j].ex; }
				break;
			}
			case 11: { if(i == j) { --k; continue; } L.push_back("x assign_range " + si + " " + sj); sh[i].ex = sh[j].ex; break; }
			case 12: { if(i == j) { --k; continue; } L.push_back("x view_assign " + si + " " + sj); break; }
			case 13: { auto e = gen_ext(rng, c.D, false); L.push_back("x sa_move " + std::to_string(pick_alloc()) + ex_str(e)); break; }
		}
	}
	for(int i = 0; i < P; ++i) L.push_back("x dtor " + std::to_string(i));
	L.push_back("end");
	return L;
}

static FILE* fprog = nullptr;
static FILE* fans = nullptr;

static void emit(std::string const& head, std::vector<std::string> const& body, std::vector<std::string> const& answers) {
	std::fprintf(fprog, "%s\n", head.c_str()); std::fprintf(fans, "%s\n", head.c_str());
	for(auto const& l : body) std::fprintf(fprog, "%s\n", l.c_str());
	for(auto const& l : answers) std::fprintf(fans, "%s\n", l.c_str());
}

// number of fallible steps of a no-fault run = number of events in the F sections
static long count_fallible(std::vector<std::string> const& answers) {
	long c = 0;
	for(auto const& l : answers) {
		auto p = l.find(" | F"); if(p == std::string::npos) continue; auto q = l.find(" | I", p);
		std::istringstream is(l.substr(p + 4, q == std::string::npos ? std::string::npos : q - p - 4)); std::string t; while(is >> t) ++c;
	}
	return c;
}

static Cfg gen_cfg(Rng& rng, std::string const& mode) {
	Cfg c;
	if(rng.coin(7)) {   // array<T, 0>
		c.D = 0; c.traits = 0;
		if(mode == "trivial") { c.elem = 'I'; return c; }
		if(mode == "semitriv") { c.elem = 'S'; return c; }
		c.elem = 'E';
		if(rng.coin(25)) { c.pmr = 1; c.socc = 2; } else c.socc = static_cast<int>(rng.range(0, 2));
		return c;
	}
	if(mode == "trivial") { c.elem = 'I'; c.D = static_cast<int>(rng.range(1, 3)); return c; }
	if(mode == "semitriv") { if(rng.coin(25)) { c.elem = 'F'; c.D = 2; } else { c.elem = 'S'; c.D = static_cast<int>(rng.range(1, 3)); } return c; }
	if(mode == "hist" && rng.coin(12)) { c.elem = 'I'; c.D = static_cast<int>(rng.range(1, 3)); return c; }
	c.elem = 'E';
	int pk = rng.pick({50, 14, 14, 22});
	if(pk == 0) { c.D = 2; c.traits = static_cast<int>(rng.range(0, 15)); }
	else if(pk == 1) { c.D = 1; c.traits = rng.coin(50) ? 0 : 15; }
	else if(pk == 2) { c.D = 3; c.traits = rng.coin(50) ? 0 : 15; }
	else { c.pmr = 1; c.D = static_cast<int>(rng.range(1, 2)); c.traits = 0; }
	c.socc = c.pmr ? 2 : static_cast<int>(rng.range(0, 2));
	return c;
}

static void run_generated(std::uint64_t seed, long nprog, std::string const& mode_arg) {
	Rng rng(seed);
	long p = 0;
	// mode = <hist|faults|alloc|trivial>[<maxops>]: the suffix bounds the history length (default 8; the thorough tier uses 20)
	std::string mode = mode_arg; int maxops = 8;
	{ std::size_t d = mode.find_first_of("0123456789"); if(d != std::string::npos) { maxops = std::atoi(mode.c_str() + d); mode = mode.substr(0, d); } }
	char const* mo = std::getenv("VERIF_LEDGER_MAXOPS");
	if(mo) maxops = std::atoi(mo);
	char const* fx = std::getenv("VERIF_LEDGER_FIXED");
	std::string fixes = (fx && *fx) ? fx : "-";
	while(p < nprog) {
		Cfg c = gen_cfg(rng, mode);
		auto hist = gen_history(rng, c, maxops, mode);
		std::vector<std::string> body{cfg_line(c) + " " + fixes, "fault none"};
		body.insert(body.end(), hist.begin(), hist.end());
		auto ans = run_forked(body);
		emit("prog " + std::to_string(p) + " " + std::to_string(seed), body, ans);
		++p;
		if(mode != "faults") continue;
		long F = count_fallible(ans);
		for(long k = 0; k < F && p < nprog; ++k) {
			body[1] = "fault " + std::to_string(k);
			auto a2 = run_forked(body);
			emit("prog " + std::to_string(p) + " " + std::to_string(seed), body, a2);
			++p;
		}
	}
}

static void run_replay(char const* path) {
	std::ifstream in(path);
	std::string line, head; std::vector<std::string> body; bool open = false;
	auto flush = [&]() { if(!open) return; auto ans = run_forked(body); emit(head, body, ans); body.clear(); open = false; };
	while(std::getline(in, line)) {
		auto w = words(line);
		if(w.empty() || w[0] == "#") continue;
		if(w[0] == "prog") { flush(); head = line; open = true; continue; }
		if(!open) { head = "prog 0 0"; open = true; }
		body.push_back(line);
	}
	flush();
}

int main(int argc, char** argv) {
	if(argc < 6) { std::fprintf(stderr, "usage: ledger <seed> <nprograms> <hist|faults|alloc|trivial> <prog-out> <answers-out> [--replay file]\n"); return 2; }
	std::uint64_t seed = std::strtoull(argv[1], nullptr, 10);
	long nprog = std::strtol(argv[2], nullptr, 10);
	std::string mode = argv[3];
	fprog = std::fopen(argv[4], "w"); fans = std::fopen(argv[5], "w");
	if(!fprog || !fans) { std::perror("fopen"); return 2; }
	if(argc >= 8 && std::string(argv[6]) == "--replay") run_replay(argv[7]);
	else run_generated(seed, nprog, mode);
	std::fclose(fprog); std::fclose(fans);
	return 0;
}
