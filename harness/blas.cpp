// blas.cpp — correspondence + oracle harness for C13 (BLAS adaptor).
//
// Drives the real boost::multi::blas front ends (headers from /repo's working tree) with generated operand views.
// It DEFINES the Fortran BLAS entry points itself (dgemm_, zgemv_, ...: link-time interposition), records every
// call (routine, flags, sizes, scalars, leading dimensions, pointer offsets relative to the arena) and forwards
// to the real OpenBLAS routine found with dlsym(RTLD_NEXT).  In the same run the result is compared with a naive
// reference on exactly representable integer data (Gaussian integers), the whole arena (operand buffers + guard
// cells) is compared against "only the elements of the output view change", and the verdict is printed.
// Every case runs in a forked child: an assertion (SIGABRT) is reported as `res reject assert`.
//
// usage: blas <seed> <nprograms> <mode: mix> <prog-out> <answers-out> [--replay <prog-file>]
//
// One program = one case:
//   prog <k> <seed>
//   x <op> <form> <ty> <nd> <dataseed> <are> <aim> <bre> <bim> <f1> <f2> <f3> <operands...>
// operands:  M off R C r0 r1 c0 c1 rs cs var | base s0 s1 n0 n1 cj      (recipe | descriptor read from the real view)
//            V off n inc var | base inc n cj
//            S addr
// answers:   call <routine> <args...>     one per BLAS call that reached the interposer
//            xerbla <ROUTINE> <param>     the real library rejected the call (and did nothing)
//            res ok | res reject throw | res reject assert | res crash <sig>
//            vals <n> : ...               logical contents of the output view afterwards (re im pairs)
//            rval <re> <im>               scalar result (dot, nrm2^2, asum, iamax)
//            out <hash>                   hash of the whole arena afterwards
//            num ok | num rejected | num FAIL <kind>
#include <boost/multi/adaptors/blas.hpp>
#include <boost/multi/array.hpp>

#include <dlfcn.h>
#include <sys/resource.h>
#include <sys/wait.h>
#include <unistd.h>
#include <fcntl.h>

#include <cmath>
#include <complex>
#include <cstdio>
#include <cstdlib>
#include <cstring>
#include <fstream>
#include <sstream>
#include <string>
#include <utility>
#include <vector>

#include "common/prng.hpp"

namespace multi = boost::multi;
namespace blas  = boost::multi::blas;

#ifdef NDEBUG
constexpr int ND = 1;
#else
constexpr int ND = 0;
#endif

// ------------------------------------------------------------------------------------------------ arena
constexpr long REG = 128, NREG = 4, MARGIN = 256, TOTAL = 2 * MARGIN + NREG * REG;
alignas(64) static unsigned char g_raw[TOTAL * 16];
static long g_esize = 8;      // sizeof current element type
static int  g_cplx  = 0;
static char g_ty    = 'd';
static FILE* fprog = nullptr;
static FILE* fans  = nullptr;
static int g_internal = 0;

template<class T> T* Z() { return reinterpret_cast<T*>(g_raw) + MARGIN; }  // arena origin for element type T

struct G { long re = 0, im = 0; };
static G operator+(G a, G b) { return {a.re + b.re, a.im + b.im}; }
static G operator-(G a, G b) { return {a.re - b.re, a.im - b.im}; }
static G operator*(G a, G b) { return {a.re * b.re - a.im * b.im, a.re * b.im + a.im * b.re}; }
static bool operator==(G a, G b) { return a.re == b.re && a.im == b.im; }
static bool operator!=(G a, G b) { return !(a == b); }
static G cj(G a) { return {a.re, -a.im}; }
static G cjif(bool c, G a) { return c ? cj(a) : a; }

// initial contents: a pure function of (dataseed, address, component) — the Lean driver computes the same
static long val(std::uint64_t seed, long addr, int comp) {
	std::uint64_t h = (seed ^ 0x9E3779B97F4A7C15ULL) + static_cast<std::uint64_t>(addr + 100000) * 0xBF58476D1CE4E5B9ULL + static_cast<std::uint64_t>(comp) * 0x94D049BB133111EBULL;
	h ^= h >> 31; h *= 0xD6E8FEB86659FD93ULL; h ^= h >> 29;
	return static_cast<long>((h >> 33) % 7) - 3;
}

template<class T> struct is_cplx : std::false_type {};
template<class R> struct is_cplx<std::complex<R>> : std::true_type {};
template<class T> struct real_of { using type = T; };
template<class R> struct real_of<std::complex<R>> { using type = R; };

template<class T> T mk(G g) { if constexpr(is_cplx<T>{}) return T{static_cast<typename T::value_type>(g.re), static_cast<typename T::value_type>(g.im)}; else return static_cast<T>(g.re); }
template<class T> bool rd(T const& t, G& g) {  // exact integer read-back
	double re, im = 0;
	if constexpr(is_cplx<T>{}) { re = t.real(); im = t.imag(); } else { re = t; }
	if(!(std::isfinite(re) && std::isfinite(im)) || std::fabs(re) > 1e9 || std::fabs(im) > 1e9) { g = {999999999, 999999999}; return false; }
	g = {std::lround(re), std::lround(im)};
	return static_cast<double>(g.re) == re && static_cast<double>(g.im) == im;
}

template<class T> void fill_arena(std::uint64_t seed) {
	T* z = Z<T>();
	for(long a = -MARGIN; a < NREG * REG + MARGIN; ++a) z[a] = mk<T>(G{val(seed, a, 0), is_cplx<T>{} ? val(seed, a, 1) : 0});
}
template<class T> bool read_arena(std::vector<G>& out) {
	T* z = Z<T>(); bool ok = true; out.resize(TOTAL);
	for(long a = -MARGIN; a < NREG * REG + MARGIN; ++a) ok = rd(z[a], out[static_cast<std::size_t>(a + MARGIN)]) && ok;
	return ok;
}
static G& at(std::vector<G>& v, long a) { static G junk; if(a < -MARGIN || a >= NREG * REG + MARGIN) { g_internal = 1; return junk; } return v[static_cast<std::size_t>(a + MARGIN)]; }
static std::uint64_t hash_arena(std::vector<G> const& v) {
	std::uint64_t h = 1469598103934665603ULL;
	for(G const& g : v) { h = (h ^ static_cast<std::uint64_t>(g.re + 1000003)) * 1099511628211ULL; h = (h ^ static_cast<std::uint64_t>(g.im + 1000003)) * 1099511628211ULL; }
	return h;
}

// ------------------------------------------------------------------------------------------------ interposed BLAS
static std::string poff(void const* p) {
	auto const* c = static_cast<unsigned char const*>(p);
	long d = c - (g_raw + MARGIN * g_esize);
	if(c >= g_raw && c < g_raw + TOTAL * g_esize && d % g_esize == 0) return "@" + std::to_string(d / g_esize);
	return "@ext";
}
template<class S> std::string sc(S const& s) {
	G g; if(!rd(s, g)) return "s:?";
	return "s:" + std::to_string(g.re) + ":" + std::to_string(g.im);
}
static void emit(std::string const& s) { std::fprintf(fans, "%s\n", s.c_str()); std::fflush(fans); }
template<class F> F real_fn(char const* name) {
	void* p = dlsym(RTLD_NEXT, name);
	if(!p) { static void* h = dlopen("libopenblas.so.0", RTLD_NOW | RTLD_LOCAL); if(h) p = dlsym(h, name); }
	if(!p) { std::fprintf(stderr, "blas harness: cannot find real %s\n", name); std::_Exit(4); }
	return reinterpret_cast<F>(p);
}
#define REAL(name) static auto real = real_fn<decltype(&name)>(#name)
static std::string I(INT const& v) { return std::to_string(static_cast<long>(v)); }
static std::string Ch(char c) { return std::string(1, c); }

using cf = std::complex<float>;
using cd = std::complex<double>;

extern "C" {
int xerbla_(char* name, int* info, int len) {
	std::string n(name, static_cast<std::size_t>(len > 6 ? 6 : len)); while(!n.empty() && n.back() == ' ') n.pop_back();
	emit("xerbla " + n + " " + std::to_string(*info));
	return 0;
}
#define DEF_GEMM(P, T) void P##gemm_(const char& ta, const char& tb, INT const& m, INT const& n, INT const& k, T const& al, T const* A, INT const& lda, T const* B, INT const& ldb, T const& be, T const* C, INT const& ldc) { \
	emit("call " #P "gemm " + Ch(ta) + " " + Ch(tb) + " " + I(m) + " " + I(n) + " " + I(k) + " " + sc(al) + " " + poff(A) + " " + I(lda) + " " + poff(B) + " " + I(ldb) + " " + sc(be) + " " + poff(C) + " " + I(ldc)); \
	REAL(P##gemm_); real(ta, tb, m, n, k, al, A, lda, B, ldb, be, C, ldc); }
DEF_GEMM(s, float) DEF_GEMM(d, double) DEF_GEMM(c, cf) DEF_GEMM(z, cd)
#define DEF_GEMV(P, T) void P##gemv_(const char& tr, INT const& m, INT const& n, T const& al, T const* A, INT const& lda, T const* X, INT const& incx, T const& be, T* Y, INT const& incy) { \
	emit("call " #P "gemv " + Ch(tr) + " " + I(m) + " " + I(n) + " " + sc(al) + " " + poff(A) + " " + I(lda) + " " + poff(X) + " " + I(incx) + " " + sc(be) + " " + poff(Y) + " " + I(incy)); \
	REAL(P##gemv_); real(tr, m, n, al, A, lda, X, incx, be, Y, incy); }
DEF_GEMV(s, float) DEF_GEMV(d, double) DEF_GEMV(c, cf) DEF_GEMV(z, cd)
#define DEF_SYRK(P, T) void P##syrk_(const char& ul, const char& tr, INT const& n, INT const& k, T const& al, T const* A, INT const& lda, T const& be, T* C, INT const& ldc) { \
	emit("call " #P "syrk " + Ch(ul) + " " + Ch(tr) + " " + I(n) + " " + I(k) + " " + sc(al) + " " + poff(A) + " " + I(lda) + " " + sc(be) + " " + poff(C) + " " + I(ldc)); \
	REAL(P##syrk_); real(ul, tr, n, k, al, A, lda, be, C, ldc); }
DEF_SYRK(s, float) DEF_SYRK(d, double) DEF_SYRK(c, cf) DEF_SYRK(z, cd)
#define DEF_HERK(P, R, T) void P##herk_(const char& ul, const char& tr, INT const& n, INT const& k, R const& al, T const* A, INT const& lda, R const& be, T* C, INT const& ldc) { \
	emit("call " #P "herk " + Ch(ul) + " " + Ch(tr) + " " + I(n) + " " + I(k) + " " + sc(al) + " " + poff(A) + " " + I(lda) + " " + sc(be) + " " + poff(C) + " " + I(ldc)); \
	REAL(P##herk_); real(ul, tr, n, k, al, A, lda, be, C, ldc); }
DEF_HERK(c, float, cf) DEF_HERK(z, double, cd)
#define DEF_TRSM(P, T) void P##trsm_(const char& sd, const char& ul, const char& tr, const char& dg, INT const& m, INT const& n, T const& al, T const* A, INT const& lda, T const* B, INT const& ldb) { \
	emit("call " #P "trsm " + Ch(sd) + " " + Ch(ul) + " " + Ch(tr) + " " + Ch(dg) + " " + I(m) + " " + I(n) + " " + sc(al) + " " + poff(A) + " " + I(lda) + " " + poff(B) + " " + I(ldb)); \
	REAL(P##trsm_); real(sd, ul, tr, dg, m, n, al, A, lda, B, ldb); }
DEF_TRSM(s, float) DEF_TRSM(d, double) DEF_TRSM(c, cf) DEF_TRSM(z, cd)
#define DEF_L1_2(P, NAME, T) void P##NAME##_(INT const& n, T* x, INT const& incx, T* y, INT const& incy) { \
	emit("call " #P #NAME " " + I(n) + " " + poff(x) + " " + I(incx) + " " + poff(y) + " " + I(incy)); \
	REAL(P##NAME##_); real(n, x, incx, y, incy); }
DEF_L1_2(s, swap, float) DEF_L1_2(d, swap, double) DEF_L1_2(c, swap, cf) DEF_L1_2(z, swap, cd)
#define DEF_COPY(P, T) void P##copy_(INT const& n, T const* x, INT const& incx, T* y, INT const& incy) { \
	emit("call " #P "copy " + I(n) + " " + poff(x) + " " + I(incx) + " " + poff(y) + " " + I(incy)); \
	REAL(P##copy_); real(n, x, incx, y, incy); }
DEF_COPY(s, float) DEF_COPY(d, double) DEF_COPY(c, cf) DEF_COPY(z, cd)
#define DEF_SCAL(P, T) void P##scal_(INT const& n, T const& a, T* x, INT const& incx) { \
	emit("call " #P "scal " + I(n) + " " + sc(a) + " " + poff(x) + " " + I(incx)); \
	REAL(P##scal_); real(n, a, x, incx); }
DEF_SCAL(s, float) DEF_SCAL(d, double) DEF_SCAL(c, cf) DEF_SCAL(z, cd)
#define DEF_AXPY(P, T) void P##axpy_(INT const& n, T const* a, T const* x, INT const& incx, T* y, INT const& incy) { \
	emit("call " #P "axpy " + I(n) + " " + sc(*a) + " " + poff(x) + " " + I(incx) + " " + poff(y) + " " + I(incy)); \
	REAL(P##axpy_); real(n, a, x, incx, y, incy); }
DEF_AXPY(s, float) DEF_AXPY(d, double) DEF_AXPY(c, cf) DEF_AXPY(z, cd)
#define DEF_DOT(NAME, R, T) auto NAME##_(INT const& n, T const* x, INT const& incx, T const* y, INT const& incy) -> R { \
	emit("call " #NAME " " + I(n) + " " + poff(x) + " " + I(incx) + " " + poff(y) + " " + I(incy)); \
	REAL(NAME##_); return real(n, x, incx, y, incy); }
DEF_DOT(sdot, float, float) DEF_DOT(ddot, double, double)
DEF_DOT(cdotu, Complex_float, cf) DEF_DOT(zdotu, Complex_double, cd) DEF_DOT(cdotc, Complex_float, cf) DEF_DOT(zdotc, Complex_double, cd)
#define DEF_RED(NAME, R, T) auto NAME##_(INT const& n, T const* x, INT const& incx) -> R { \
	emit("call " #NAME " " + I(n) + " " + poff(x) + " " + I(incx)); \
	REAL(NAME##_); return real(n, x, incx); }
DEF_RED(snrm2, float, float) DEF_RED(dnrm2, double, double) DEF_RED(scnrm2, float, cf) DEF_RED(dznrm2, double, cd)
DEF_RED(sasum, float, float) DEF_RED(dasum, double, double) DEF_RED(scasum, float, cf) DEF_RED(dzasum, double, cd)
DEF_RED(isamax, INT, float) DEF_RED(idamax, INT, double) DEF_RED(icamax, INT, cf) DEF_RED(izamax, INT, cd)
}  // extern "C"

// ------------------------------------------------------------------------------------------------ operands
struct MatR { long off = 0, R = 0, C = 0, r0 = 0, r1 = 0, c0 = 0, c1 = 0, rs = 1, cs = 1; char var = 'N'; };
struct MatD { long base = 0, s0 = 0, s1 = 0, n0 = 0, n1 = 0; int cj = 0; };
struct VecR { long off = 0, n = 0, inc = 1; char var = 'N'; };
struct VecD { long base = 0, inc = 0, n = 0; int cj = 0; };

template<class T, class V> MatD desc_m(V& v) {
	MatD d;
	if constexpr(blas::is_conjugated<V>{}) { d.base = underlying(v.base()) - Z<T>(); d.cj = 1; } else { d.base = v.base() - Z<T>(); }
	d.s0 = v.stride(); d.n0 = v.size();
	auto&& r = v.rotated(); d.s1 = r.stride(); d.n1 = r.size();
	return d;
}
template<class T, class V> VecD desc_v(V& v) {
	VecD d;
	if constexpr(blas::is_conjugated<V>{}) { d.base = underlying(v.base()) - Z<T>(); d.cj = 1; } else { d.base = v.base() - Z<T>(); }
	d.inc = v.stride(); d.n = v.size();
	return d;
}
// builds the real view described by the recipe and hands it (as an lvalue) to f
template<class T, class F> void with_mat(MatR const& r, F&& f) {
	multi::array_ref<T, 2> P(Z<T>() + r.off, {r.R, r.C});
	auto&& v0 = P({r.r0, r.r1}, {r.c0, r.c1});
	auto&& v1 = v0.strided(r.rs);
	auto&& v2t = v1.rotated();
	auto&& v2s = v2t.strided(r.cs);
	auto&& v = v2s.rotated();
	switch(r.var) {
		case 'N': { f(v); break; }
		case 'T': { auto&& t = blas::T(v); f(t); break; }
		case 'J': { auto&& j = blas::J(v); f(j); break; }
		default : { auto&& h = blas::H(v); f(h); break; }
	}
}
template<class T, class F> void with_vec(VecR const& r, F&& f) {
	multi::array_ref<T, 1> P(Z<T>() + r.off, {r.n * r.inc});
	auto&& v = P.strided(r.inc);
	if(r.var == 'C') { auto&& c = blas::C(v); f(c); } else { f(v); }
}

static std::string str(MatR const& r, MatD const& d) {
	char b[256]; std::snprintf(b, sizeof b, "M %ld %ld %ld %ld %ld %ld %ld %ld %ld %c | %ld %ld %ld %ld %ld %d", r.off, r.R, r.C, r.r0, r.r1, r.c0, r.c1, r.rs, r.cs, r.var, d.base, d.s0, d.s1, d.n0, d.n1, d.cj); return b;
}
static std::string str(VecR const& r, VecD const& d) {
	char b[160]; std::snprintf(b, sizeof b, "V %ld %ld %ld %c | %ld %ld %ld %d", r.off, r.n, r.inc, r.var, d.base, d.inc, d.n, d.cj); return b;
}

// ------------------------------------------------------------------------------------------------ a case
struct Case {
	std::string op, form; char ty = 'd'; int nd = ND; std::uint64_t dseed = 0;
	G alpha{1, 0}, beta{0, 0}; char f1 = '-', f2 = '-', f3 = '-';
	std::vector<MatR> m; std::vector<VecR> v; long saddr = 0;
	// descriptors (filled from the real views)
	std::vector<MatD> md; std::vector<VecD> vd;
};

static std::string header(Case const& c) {
	char b[256]; std::snprintf(b, sizeof b, "x %s %s %c %d %llu %ld %ld %ld %ld %c %c %c", c.op.c_str(), c.form.c_str(), c.ty, c.nd, static_cast<unsigned long long>(c.dseed), c.alpha.re, c.alpha.im, c.beta.re, c.beta.im, c.f1, c.f2, c.f3); return b;
}

template<class T> void describe(Case& c) {
	c.md.clear(); c.vd.clear();
	for(auto const& r : c.m) with_mat<T>(r, [&](auto& a) { c.md.push_back(desc_m<T>(a)); });
	for(auto const& r : c.v) with_vec<T>(r, [&](auto& x) { c.vd.push_back(desc_v<T>(x)); });
}
static std::string line_of(Case const& c) {
	std::string s = header(c);
	for(std::size_t i = 0; i < c.m.size(); ++i) s += " " + str(c.m[i], c.md[i]);
	for(std::size_t i = 0; i < c.v.size(); ++i) s += " " + str(c.v[i], c.vd[i]);
	if(c.op == "dot") s += " S " + std::to_string(c.saddr);
	return s;
}

// image of a matrix / vector view (addresses)
static void image(MatD const& d, std::vector<char>& mark) { for(long i = 0; i < d.n0; ++i) for(long j = 0; j < d.n1; ++j) { long a = d.base + i * d.s0 + j * d.s1 + MARGIN; if(a >= 0 && a < TOTAL) mark[static_cast<std::size_t>(a)] = 1; } }
static void image(VecD const& d, std::vector<char>& mark) { for(long i = 0; i < d.n; ++i) { long a = d.base + i * d.inc + MARGIN; if(a >= 0 && a < TOTAL) mark[static_cast<std::size_t>(a)] = 1; } }

struct Verdict { std::string num; };

// compares the arena after the operation with `expect` (= snapshot with the specified elements of the output updated)
static std::string judge(std::vector<G> const& act, std::vector<G> const& expect, std::vector<char> const& outimg, bool intok) {
	if(!intok) return "num FAIL nonint";
	bool in = false, outside = false;
	for(std::size_t a = 0; a < act.size(); ++a) if(act[a] != expect[a]) { if(outimg[a]) in = true; else outside = true; }
	if(outside) return "num FAIL outside";
	if(in) return "num FAIL wrong";
	return "num ok";
}

template<class T> T scalar(G g) { return mk<T>(g); }

// the scalar result of reductions is reported through this
static bool g_has_rval = false; static G g_rval;

// ---- specifications (naive, exact) -------------------------------------------------------------
static G ld(std::vector<G>& m, MatD const& d, long i, long j) { return cjif(d.cj, at(m, d.base + i * d.s0 + j * d.s1)); }
static void st(std::vector<G>& m, MatD const& d, long i, long j, G x) { at(m, d.base + i * d.s0 + j * d.s1) = cjif(d.cj, x); }
static G ld(std::vector<G>& m, VecD const& d, long i) { return cjif(d.cj, at(m, d.base + i * d.inc)); }
static void st(std::vector<G>& m, VecD const& d, long i, G x) { at(m, d.base + i * d.inc) = cjif(d.cj, x); }

// unit for the diagonal of triangular solves: keeps the solve exact
static G unit_of(std::uint64_t seed, long i, bool cplx) {
	long k = (val(seed, 7000 + i, 2) + 3) % (cplx ? 4 : 2);
	switch(k) { case 0: return {1, 0}; case 1: return {-1, 0}; case 2: return {0, 1}; default: return {0, -1}; }
}

// returns false when the operands' sizes do not fit (the operation must then be rejected)
static bool spec(Case const& c, std::vector<G> snap, std::vector<G>& expect, std::vector<char>& outimg, G& rexp, bool& has_r) {
	expect = snap; outimg.assign(TOTAL, 0); has_r = false;
	bool cplx = (c.ty == 'c' || c.ty == 'z');
	if(c.op == "gemm") {
		MatD const &A = c.md[0], &B = c.md[1], &C = c.md[2];
		if(!(A.n0 == C.n0 && B.n1 == C.n1 && A.n1 == B.n0)) return false;
		image(C, outimg);
		for(long i = 0; i < C.n0; ++i) for(long j = 0; j < C.n1; ++j) {
			G s{0, 0}; for(long l = 0; l < A.n1; ++l) s = s + ld(snap, A, i, l) * ld(snap, B, l, j);
			st(expect, C, i, j, c.alpha * s + c.beta * ld(snap, C, i, j));
		}
		return true;
	}
	if(c.op == "gemv") {
		MatD const& A = c.md[0]; VecD const &X = c.vd[0], &Y = c.vd[1];
		if(!(A.n0 == Y.n && A.n1 == X.n)) return false;
		image(Y, outimg);
		for(long i = 0; i < Y.n; ++i) { G s{0, 0}; for(long l = 0; l < X.n; ++l) s = s + ld(snap, A, i, l) * ld(snap, X, l); st(expect, Y, i, c.alpha * s + c.beta * ld(snap, Y, i)); }
		return true;
	}
	if(c.op == "herk" || c.op == "syrk") {
		MatD const &A = c.md[0], &C = c.md[1];
		if(!(A.n0 == C.n0 && C.n0 == C.n1)) return false;
		image(C, outimg);
		bool herm = (c.op == "herk") && cplx;
		for(long i = 0; i < C.n0; ++i) for(long j = 0; j < C.n1; ++j) {
			bool intri = (c.f1 == 'b') || (c.f1 == 'u' ? i <= j : i >= j);
			if(!intri) continue;
			G s{0, 0}; for(long l = 0; l < A.n1; ++l) s = s + ld(snap, A, i, l) * (herm ? cj(ld(snap, A, j, l)) : ld(snap, A, j, l));
			st(expect, C, i, j, c.alpha * s + c.beta * ld(snap, C, i, j));
		}
		return true;
	}
	if(c.op == "trsm") {
		MatD const &A = c.md[0], &B = c.md[1];
		bool left = c.f1 == 'l';
		long n = left ? B.n0 : B.n1;
		if(!(A.n0 == n && A.n1 == n)) return false;
		image(B, outimg);
		bool unit = c.f3 == 'u'; bool upper = c.f2 == 'u';
		auto a = [&](long i, long j) { return ld(snap, A, i, j); };
		auto inv = [&](long i) { return unit ? G{1, 0} : cj(a(i, i)); };   // the diagonal holds units: 1/u = conj u
		if(left) {  // solve tri(A) X = alpha B, column by column
			for(long col = 0; col < B.n1; ++col) {
				std::vector<G> x(static_cast<std::size_t>(n));
				for(long t = 0; t < n; ++t) {
					long i = upper ? n - 1 - t : t;
					G s = c.alpha * ld(snap, B, i, col);
					if(upper) { for(long j = i + 1; j < n; ++j) s = s - a(i, j) * x[static_cast<std::size_t>(j)]; } else { for(long j = 0; j < i; ++j) s = s - a(i, j) * x[static_cast<std::size_t>(j)]; }
					x[static_cast<std::size_t>(i)] = s * inv(i);
				}
				for(long i = 0; i < n; ++i) st(expect, B, i, col, x[static_cast<std::size_t>(i)]);
			}
		} else {  // X tri(A) = alpha B, row by row
			for(long row = 0; row < B.n0; ++row) {
				std::vector<G> x(static_cast<std::size_t>(n));
				for(long t = 0; t < n; ++t) {
					long j = upper ? t : n - 1 - t;
					G s = c.alpha * ld(snap, B, row, j);
					if(upper) { for(long i = 0; i < j; ++i) s = s - x[static_cast<std::size_t>(i)] * a(i, j); } else { for(long i = j + 1; i < n; ++i) s = s - x[static_cast<std::size_t>(i)] * a(i, j); }
					x[static_cast<std::size_t>(j)] = s * inv(j);
				}
				for(long j = 0; j < n; ++j) st(expect, B, row, j, x[static_cast<std::size_t>(j)]);
			}
		}
		return true;
	}
	// level 1
	if(c.op == "dot") {
		VecD const &X = c.vd[0], &Y = c.vd[1];
		if(X.n != Y.n) return false;
		G s{0, 0}; for(long i = 0; i < X.n; ++i) s = s + ld(snap, X, i) * ld(snap, Y, i);
		rexp = s; has_r = true;
		if(c.form == "res") { outimg[static_cast<std::size_t>(c.saddr + MARGIN)] = 1; at(expect, c.saddr) = s; }
		return true;
	}
	if(c.op == "axpy") {
		VecD const &X = c.vd[0], &Y = c.vd[1];
		if(X.n != Y.n) return false;
		image(Y, outimg);
		G al = c.alpha;   // the scalar the operation stands for: `y -= axpy(a, x)` is y - a x, `y += x` is y + x, `y -= x` is y - x
		if(c.form == "minuseq") al = G{0, 0} - al;
		if(c.form == "opadd") al = {1, 0};
		if(c.form == "opsub") al = {-1, 0};
		for(long i = 0; i < Y.n; ++i) st(expect, Y, i, al * ld(snap, X, i) + ld(snap, Y, i));
		return true;
	}
	if(c.op == "scal") { VecD const& X = c.vd[0]; image(X, outimg); for(long i = 0; i < X.n; ++i) st(expect, X, i, c.alpha * ld(snap, X, i)); return true; }
	if(c.op == "copy") { VecD const &X = c.vd[0], &Y = c.vd[1]; if(X.n != Y.n) return false; image(Y, outimg); for(long i = 0; i < Y.n; ++i) st(expect, Y, i, ld(snap, X, i)); return true; }
	if(c.op == "swap") { VecD const &X = c.vd[0], &Y = c.vd[1]; if(X.n != Y.n) return false; image(X, outimg); image(Y, outimg); for(long i = 0; i < Y.n; ++i) { st(expect, Y, i, ld(snap, X, i)); st(expect, X, i, ld(snap, Y, i)); } return true; }
	if(c.op == "nrm2") { VecD const& X = c.vd[0]; G s{0, 0}; for(long i = 0; i < X.n; ++i) { G x = ld(snap, X, i); s.re += x.re * x.re + x.im * x.im; } rexp = s; has_r = true; return true; }
	if(c.op == "asum") { VecD const& X = c.vd[0]; G s{0, 0}; for(long i = 0; i < X.n; ++i) { G x = ld(snap, X, i); s.re += std::labs(x.re) + std::labs(x.im); } rexp = s; has_r = true; return true; }
	if(c.op == "iamax") { VecD const& X = c.vd[0]; long best = -1, bi = -1; for(long i = 0; i < X.n; ++i) { G x = ld(snap, X, i); long m = std::labs(x.re) + std::labs(x.im); if(m > best) { best = m; bi = i; } } rexp = {bi, 0}; has_r = true; return true; }
	g_internal = 1; return false;
}

// ---- executing the real operation ----------------------------------------------------------------
template<class T> using real_t = typename real_of<T>::type;

template<class T, class A, class B, class C> void do_gemm(Case const& c, A& a, B& b, C& cc) {
	T al = mk<T>(c.alpha), be = mk<T>(c.beta);
	if(c.form == "inplace") { blas::gemm(al, a, b, be, cc); return; }
	if constexpr(!blas::is_conjugated<C>{}) {
		if(c.form == "assign") { cc = blas::gemm(al, a, b); return; }
		if(c.form == "pluseq") { cc += blas::gemm(al, a, b); return; }
		using namespace blas::operators;
		if(c.form == "opmul") { cc = a * b; return; }
		if(c.form == "opmulpe") { cc += a * b; return; }
	}
	g_internal = 1;
}
template<class T, class A, class X, class Y> void do_gemv(Case const& c, A& a, X& x, Y& y) {
	T al = mk<T>(c.alpha), be = mk<T>(c.beta);
	if(c.form == "inplace") { blas::gemv(al, a, x, be, y); return; }
	if(c.form == "assign") { y = blas::gemv(al, a, x); return; }
	if(c.form == "pluseq") { y += blas::gemv(al, a, x); return; }
	g_internal = 1;
}
template<class T, class A, class C> void do_herk(Case const& c, A& a, C& cc) {
	auto fill = c.f1 == 'u' ? blas::filling::upper : blas::filling::lower;
	if(c.op == "syrk") {
		if constexpr(!blas::is_conjugated<A>{} && !blas::is_conjugated<C>{}) { blas::syrk(fill, mk<T>(c.alpha), a, mk<T>(c.beta), cc()); return; }
	} else {
		real_t<T> al = static_cast<real_t<T>>(c.alpha.re), be = static_cast<real_t<T>>(c.beta.re);
		if(c.form == "inplace") { blas::herk(fill, al, a, be, cc()); return; }
		if(c.form == "both") { blas::herk(al, a, cc()); return; }
	}
	g_internal = 1;
}
template<class T, class A, class B> void do_trsm(Case const& c, A& a, B& b) {
	auto side = c.f1 == 'l' ? blas::side::left : blas::side::right;
	auto fill = c.f2 == 'u' ? blas::filling::upper : blas::filling::lower;
	auto diag = c.f3 == 'u' ? blas::diagonal::unit : blas::diagonal::non_unit;
	if(c.form == "inplace") { blas::trsm(side, fill, diag, mk<T>(c.alpha), a, b); return; }
	if constexpr(!blas::is_conjugated<B>{}) {
		using namespace blas::operators;
		if(c.form == "op") {
			if(c.f1 == 'r') { if(c.f2 == 'u') b /= blas::U(a); else b /= blas::L(a); }
			else            { if(c.f2 == 'u') b |= blas::U(a); else b |= blas::L(a); }
			return;
		}
	}
	g_internal = 1;
}

// a result returned by value comes from a local of the library: poison the stack below us first, so that a result the
// library never writes is recognisably garbage instead of a lucky stale value
__attribute__((noinline)) static void poison_stack() { volatile unsigned char buf[16384]; for(std::size_t i = 0; i < sizeof buf; ++i) buf[i] = 0x5A; }

template<class T> void run_real(Case const& c) {
	poison_stack();
	using R = real_t<T>;
	// gemm on complex<float> does not compile (core.hpp: `*beta != 0.0` compares complex<float> with double): a compile-time rejection
	if constexpr(!std::is_same_v<T, cf>) if(c.op == "gemm") { with_mat<T>(c.m[0], [&](auto& a) { with_mat<T>(c.m[1], [&](auto& b) { with_mat<T>(c.m[2], [&](auto& cc) { do_gemm<T>(c, a, b, cc); }); }); }); return; }
	if(c.op == "gemv") { with_mat<T>(c.m[0], [&](auto& a) { with_vec<T>(c.v[0], [&](auto& x) { with_vec<T>(c.v[1], [&](auto& y) { if constexpr(!blas::is_conjugated<std::decay_t<decltype(x)>>{} && !blas::is_conjugated<std::decay_t<decltype(y)>>{}) do_gemv<T>(c, a, x, y); else g_internal = 1; }); }); }); return; }
	if(c.op == "herk" || c.op == "syrk") { with_mat<T>(c.m[0], [&](auto& a) { with_mat<T>(c.m[1], [&](auto& cc) { do_herk<T>(c, a, cc); }); }); return; }
	// trsm with both operands conjugated does not compile (trsm.hpp:107 names an undeclared `bbase`): a compile-time rejection
	if(c.op == "trsm") { with_mat<T>(c.m[0], [&](auto& a) { with_mat<T>(c.m[1], [&](auto& b) { if constexpr(!(blas::is_conjugated<std::decay_t<decltype(a)>>{} && blas::is_conjugated<std::decay_t<decltype(b)>>{})) do_trsm<T>(c, a, b); else g_internal = 1; }); }); return; }
	if(c.op == "dot") {
		with_vec<T>(c.v[0], [&](auto& x) { with_vec<T>(c.v[1], [&](auto& y) {
			if constexpr(!(blas::is_conjugated<std::decay_t<decltype(x)>>{} && blas::is_conjugated<std::decay_t<decltype(y)>>{})) {
				if(c.form == "res") { blas::dot(x, y, Z<T>()[c.saddr]); G g; bool ok = rd(Z<T>()[c.saddr], g); g_rval = ok ? g : G{999999999, 0}; g_has_rval = true; }
				else if(c.form == "ret") { T r = blas::dot(x, y); G g; bool ok = rd(r, g); g_rval = ok ? g : G{999999999, 0}; g_has_rval = true; }
				else { using namespace blas::operators; T r = (x, y); G g; bool ok = rd(r, g); g_rval = ok ? g : G{999999999, 0}; g_has_rval = true; }
			} else g_internal = 1;
		}); });
		return;
	}
	// the remaining level-1 operations take plain (non-conjugated) vectors only
	auto plain2 = [&](auto&& f) { with_vec<T>(c.v[0], [&](auto& x) { with_vec<T>(c.v[1], [&](auto& y) { if constexpr(!blas::is_conjugated<std::decay_t<decltype(x)>>{} && !blas::is_conjugated<std::decay_t<decltype(y)>>{}) f(x, y); else g_internal = 1; }); }); };
	auto plain1 = [&](auto&& f) { with_vec<T>(c.v[0], [&](auto& x) { if constexpr(!blas::is_conjugated<std::decay_t<decltype(x)>>{}) f(x); else g_internal = 1; }); };
	if(c.op == "axpy") { plain2([&](auto& x, auto& y) {
		T al = mk<T>(c.alpha);
		if(c.form == "inplace") blas::axpy(al, x, y);
		else if(c.form == "pluseq") y += blas::axpy(al, std::as_const(x));
		else if(c.form == "minuseq") y -= blas::axpy(al, std::as_const(x));
		else { using namespace blas::operators; if(c.form == "opadd") y += x; else if(c.form == "opsub") y -= x; else if(c.form == "opscaled") y() += al * x; else g_internal = 1; }
	}); return; }
	if(c.op == "scal") { plain1([&](auto& x) { T al = mk<T>(c.alpha); if(c.form == "inplace") blas::scal(al, x); else { using namespace blas::operators; x *= al; } }); return; }
	if(c.op == "copy") { plain2([&](auto& x, auto& y) { if(c.form == "inplace") blas::copy(x, y); else if(c.form == "assign") y = blas::copy(x); else { using namespace blas::operators; y << x; } }); return; }
	if(c.op == "swap") { plain2([&](auto& x, auto& y) { if(c.form == "inplace") blas::swap(x, y); else g_internal = 1; }); return; }
	if(c.op == "nrm2") { plain1([&](auto& x) { R r = -1; if(c.form == "res") blas::nrm2(x, r); else r = blas::nrm2(x); double q = static_cast<double>(r) * static_cast<double>(r); g_rval = {std::isfinite(q) && q < 1e9 ? std::lround(q) : 999999999, 0}; g_has_rval = true; }); return; }
	if(c.op == "asum") { plain1([&](auto& x) { R r = -1; if(c.form == "res") blas::asum(x, r); else g_internal = 1; double q = r; g_rval = {std::isfinite(q) && std::fabs(q) < 1e9 ? std::lround(q) : 999999999, 0}; g_has_rval = true; }); return; }
	if(c.op == "iamax") { plain1([&](auto& x) { auto i = blas::iamax(x.begin(), x.end()); g_rval = {static_cast<long>(i), 0}; g_has_rval = true; }); return; }
	g_internal = 1;
}

// data fix-ups that keep the operation exact (the driver applies the same rule)
template<class T> void fixups(Case const& c) {
	if(c.op == "trsm") { MatD const& A = c.md[0]; long n = A.n0 < A.n1 ? A.n0 : A.n1; for(long i = 0; i < n; ++i) Z<T>()[A.base + i * A.s0 + i * A.s1] = mk<T>(unit_of(c.dseed, i, is_cplx<T>{})); }
	if(c.op == "herk" && is_cplx<T>{}) { MatD const& C = c.md[1]; long n = C.n0 < C.n1 ? C.n0 : C.n1; for(long i = 0; i < n; ++i) { G g; rd(Z<T>()[C.base + i * C.s0 + i * C.s1], g); Z<T>()[C.base + i * C.s0 + i * C.s1] = mk<T>(G{g.re, 0}); } }
}

template<class T> void child_body(Case const& c) {
	g_esize = sizeof(T); g_cplx = is_cplx<T>{}; g_ty = c.ty;
	fill_arena<T>(c.dseed);
	fixups<T>(c);
	std::vector<G> snap; read_arena<T>(snap);
	std::vector<G> expect; std::vector<char> outimg; G rexp; bool has_r = false;
	bool fits = spec(c, snap, expect, outimg, rexp, has_r);
	bool thrown = false;
	g_has_rval = false;
	try { run_real<T>(c); } catch(std::exception const&) { thrown = true; } catch(...) { thrown = true; }
	emit(thrown ? "res reject throw" : "res ok");
	std::vector<G> act; bool intok = read_arena<T>(act);
	// logical contents of the output view
	std::string vals; long nv = 0;
	auto addv = [&](G g) { vals += " " + std::to_string(g.re) + " " + std::to_string(g.im); ++nv; };
	if(c.op == "gemm") { MatD const& C = c.md[2]; for(long i = 0; i < C.n0; ++i) for(long j = 0; j < C.n1; ++j) addv(ld(act, C, i, j)); }
	else if(c.op == "herk" || c.op == "syrk" || c.op == "trsm") { MatD const& C = c.md[1]; for(long i = 0; i < C.n0; ++i) for(long j = 0; j < C.n1; ++j) addv(ld(act, C, i, j)); }
	else if(c.op == "gemv" || c.op == "axpy" || c.op == "copy" || c.op == "swap") { VecD const& Y = c.vd[1]; for(long i = 0; i < Y.n; ++i) addv(ld(act, Y, i)); }
	else if(c.op == "scal") { VecD const& X = c.vd[0]; for(long i = 0; i < X.n; ++i) addv(ld(act, X, i)); }
	emit("vals " + std::to_string(nv) + " :" + vals);
	if(g_has_rval && !thrown) emit(g_rval.re == 999999999 ? std::string("rval ?") : "rval " + std::to_string(g_rval.re) + " " + std::to_string(g_rval.im));
	emit("out " + std::to_string(hash_arena(act)));
	std::string num;
	if(thrown) {
		bool outside = false; for(std::size_t a = 0; a < act.size(); ++a) if(act[a] != snap[a] && !(fits && outimg[a])) outside = true;
		num = outside ? "num FAIL outside" : "num rejected";
	} else if(!fits) {
		// operands whose sizes do not fit were accepted: harmless only if nothing at all was computed (e.g. an empty A)
		bool changed = false; for(std::size_t a = 0; a < act.size(); ++a) if(act[a] != snap[a]) changed = true;
		num = (changed || g_has_rval) ? "num FAIL accepted-mismatch" : "num ok";
	} else {
		num = judge(act, expect, outimg, intok);
		if(num == "num ok" && has_r && !(g_has_rval && g_rval == rexp)) num = "num FAIL wrong";
	}
	emit(num);
	if(g_internal) emit("internal");
}

static void dispatch_child(Case const& c) {
	switch(c.ty) { case 's': child_body<float>(c); break; case 'd': child_body<double>(c); break; case 'c': child_body<cf>(c); break; default: child_body<cd>(c); break; }
}
static void dispatch_describe(Case& c) {
	switch(c.ty) { case 's': describe<float>(c); break; case 'd': describe<double>(c); break; case 'c': describe<cf>(c); break; default: describe<cd>(c); break; }
}

// runs one case in a forked child; the parent reports how the child ended
static void run_case(Case& c, bool print_line) {
	dispatch_describe(c);
	if(print_line) std::fprintf(fprog, "%s\n", line_of(c).c_str());
	std::fflush(fprog); std::fflush(fans);
	pid_t pid = fork();
	if(pid == 0) {
		int dn = open("/dev/null", O_WRONLY); if(dn >= 0) { dup2(dn, 2); }
		dispatch_child(c);
		std::fflush(fans);
		std::_Exit(g_internal ? 3 : 0);
	}
	int st = 0; waitpid(pid, &st, 0);
	if(WIFSIGNALED(st)) {
		if(WTERMSIG(st) == SIGABRT) { emit("res reject assert"); emit("num rejected"); }
		else { emit("res crash " + std::to_string(WTERMSIG(st))); emit("num FAIL crash"); }
	} else if(WEXITSTATUS(st) == 3) g_internal = 1;
	else if(WEXITSTATUS(st) != 0) { emit("res crash exit" + std::to_string(WEXITSTATUS(st))); }
}

// ------------------------------------------------------------------------------------------------ parsing (replay)
static bool parse_case(std::vector<std::string> const& w, Case& c) {
	if(w.size() < 13 || w[0] != "x") return false;
	c.op = w[1]; c.form = w[2]; c.ty = w[3][0]; c.nd = ND; c.dseed = std::strtoull(w[5].c_str(), nullptr, 10);
	c.alpha = {std::stol(w[6]), std::stol(w[7])}; c.beta = {std::stol(w[8]), std::stol(w[9])};
	c.f1 = w[10][0]; c.f2 = w[11][0]; c.f3 = w[12][0];
	std::size_t i = 13;
	while(i < w.size()) {
		if(w[i] == "M" && i + 18 <= w.size()) { MatR r; r.off = std::stol(w[i + 1]); r.R = std::stol(w[i + 2]); r.C = std::stol(w[i + 3]); r.r0 = std::stol(w[i + 4]); r.r1 = std::stol(w[i + 5]); r.c0 = std::stol(w[i + 6]); r.c1 = std::stol(w[i + 7]); r.rs = std::stol(w[i + 8]); r.cs = std::stol(w[i + 9]); r.var = w[i + 10][0]; c.m.push_back(r); i += 18; }
		else if(w[i] == "V" && i + 10 <= w.size()) { VecR r; r.off = std::stol(w[i + 1]); r.n = std::stol(w[i + 2]); r.inc = std::stol(w[i + 3]); r.var = w[i + 4][0]; c.v.push_back(r); i += 10; }
		else if(w[i] == "S" && i + 1 < w.size()) { c.saddr = std::stol(w[i + 1]); i += 2; }
		else return false;
	}
	return true;
}

#include "blas_gen.hpp"

static void run_replay(char const* path) {
	std::ifstream in(path); std::string line;
	while(std::getline(in, line)) {
		std::istringstream is(line); std::vector<std::string> w; std::string t; while(is >> t) w.push_back(t);
		if(w.empty() || w[0] == "#") continue;
		if(w[0] == "prog") { std::fprintf(fprog, "%s\n", line.c_str()); std::fprintf(fans, "%s\n", line.c_str()); continue; }
		Case c;
		if(!parse_case(w, c)) { std::fprintf(fprog, "%s\n", line.c_str()); emit("bad-op"); continue; }
		dispatch_describe(c);
		// the descriptor part of a replayed line must be what the real views report now
		std::string now = line_of(c);
		std::fprintf(fprog, "%s\n", now.c_str());
		std::istringstream a(now), b(line); std::string ta, tb; bool same = true;
		while(true) { bool ra = static_cast<bool>(a >> ta), rb = static_cast<bool>(b >> tb); if(!ra || !rb) { same = same && (ra == rb); break; } if(ta != tb && !(ta == std::to_string(ND) && (tb == "0" || tb == "1"))) same = false; }
		if(!same) emit("descriptor-changed " + now);
		run_case(c, false);
	}
}

int main(int argc, char** argv) {
	if(argc < 6) { std::fprintf(stderr, "usage: blas <seed> <nprograms> <mode> <prog-out> <answers-out> [--replay file]\n"); return 2; }
	if(!std::getenv("OPENBLAS_NUM_THREADS")) { setenv("OPENBLAS_NUM_THREADS", "1", 1); execv("/proc/self/exe", argv); }
	{ struct rlimit rl{0, 0}; setrlimit(RLIMIT_CORE, &rl); }   // aborting children must not dump core
	std::uint64_t seed = std::strtoull(argv[1], nullptr, 10);
	long nprog = std::strtol(argv[2], nullptr, 10);
	std::string mode = argv[3];
	fprog = std::fopen(argv[4], "w"); fans = std::fopen(argv[5], "w");
	if(!fprog || !fans) { std::perror("fopen"); return 2; }
	if(argc >= 8 && std::string(argv[6]) == "--replay") run_replay(argv[7]);
	else run_generated(seed, nprog, mode);
	std::fclose(fprog); std::fclose(fans);
	return g_internal ? 3 : 0;
}
