// mpi.cpp — correspondence harness for C18 (MPI messages built from elements()).
// Compiled with mpicxx; one MPI_Init per process (singleton, no mpirun), all programs are generated inside one run.
// The MPI datatype calls of boost/multi/adaptors/mpi.hpp are intercepted through the PMPI profiling interface:
// every MPI_Type_create_hvector / create_resized / dup / vector / commit / free and every MPI_Pack / MPI_Unpack is logged
// with its arguments and with handle identities canonicalised by creation order (h0 = the builtin element type).
//
//   root/v lines as in views.cpp, then
//   x msg <reg> <sz>            message(view.elements()):  buffer offset, count | logged calls (construction, one MPI_Pack,
//                               destruction) | ledger <created> <freed exactly once> <never freed> <erroneous calls> |
//                               pack <n> : the packed elements (the source memory holds p at address p)
//   x unpack <src> <dst> <sz>   MPI_Pack of the source view's message, MPI_Unpack into the destination view's message over a
//                               second buffer holding -1-p at address p; prints every cell of that buffer that changed | ledger
//
// usage: mpi <seed> <nprograms> <mode: zero|rebased> <prog-out> <answers-out> [--replay <prog-file>]
#ifndef HARNESS_T
#define HARNESS_T int
#endif
#include "common/anyview.hpp"

#include <boost/multi/adaptors/mpi.hpp>

#include <cstring>
#include <fstream>
#include <map>

namespace multi = boost::multi;
using av::AnyView; using av::Ex; using av::VS;
using T = av::T;

static FILE* fprog = nullptr;
static FILE* fans = nullptr;
static int g_internal = 0;
static void internal(std::string const& what) { ++g_internal; std::fprintf(fans, "INTERNAL %s\n", what.c_str()); }

// --- the datatype ledger kept by the PMPI wrappers -------------------------------------------------------------
struct Rec { bool committed = false; int freed = 0; };
static std::map<MPI_Datatype, int> g_live;   // handle value -> id, for datatypes not yet freed
static std::map<MPI_Datatype, int> g_dead;   // last id a freed handle value had
static std::vector<Rec> g_recs;              // id 0 = the builtin element type
static std::vector<std::string> g_log;
static int g_errs = 0;
static bool g_logging = false;

static void ledger_reset() { g_live.clear(); g_dead.clear(); g_recs.assign(1, Rec{true, 0}); g_log.clear(); g_errs = 0; g_live[multi::mpi::datatype<T>] = 0; }
static std::string hname(MPI_Datatype t, bool* ok = nullptr) {
	if(ok) *ok = true;
	if(t == MPI_DATATYPE_NULL) { if(ok) *ok = false; return "null"; }
	auto it = g_live.find(t); if(it != g_live.end()) return "h" + std::to_string(it->second);
	if(ok) *ok = false;
	auto jt = g_dead.find(t); if(jt != g_dead.end()) return "h" + std::to_string(jt->second);
	return "unknown";
}
static std::string reg_new(MPI_Datatype t) { int id = static_cast<int>(g_recs.size()); g_recs.push_back(Rec{}); g_dead.erase(t); g_live[t] = id; return "h" + std::to_string(id); }

extern "C" {
int MPI_Type_create_hvector(int count, int blocklength, MPI_Aint stride, MPI_Datatype oldtype, MPI_Datatype* newtype) {
	if(!g_logging) return PMPI_Type_create_hvector(count, blocklength, stride, oldtype, newtype);
	bool ok = true; std::string o = hname(oldtype, &ok);
	if(!ok || count < 0 || blocklength < 0) { ++g_errs; }
	int rc = ok ? PMPI_Type_create_hvector(count, blocklength, stride, oldtype, newtype) : PMPI_Type_dup(multi::mpi::datatype<T>, newtype);
	g_log.push_back("hv " + std::to_string(count) + " " + std::to_string(blocklength) + " " + std::to_string(static_cast<long>(stride)) + " " + o + " " + reg_new(*newtype));
	return rc;
}
int MPI_Type_create_resized(MPI_Datatype oldtype, MPI_Aint lb, MPI_Aint extent, MPI_Datatype* newtype) {
	if(!g_logging) return PMPI_Type_create_resized(oldtype, lb, extent, newtype);
	bool ok = true; std::string o = hname(oldtype, &ok);
	if(!ok) { ++g_errs; }
	int rc = ok ? PMPI_Type_create_resized(oldtype, lb, extent, newtype) : PMPI_Type_dup(multi::mpi::datatype<T>, newtype);
	g_log.push_back("rs " + o + " " + std::to_string(static_cast<long>(lb)) + " " + std::to_string(static_cast<long>(extent)) + " " + reg_new(*newtype));
	return rc;
}
int MPI_Type_dup(MPI_Datatype oldtype, MPI_Datatype* newtype) {
	if(!g_logging) return PMPI_Type_dup(oldtype, newtype);
	bool ok = true; std::string o = hname(oldtype, &ok);
	if(!ok) { ++g_errs; }
	int rc = PMPI_Type_dup(ok ? oldtype : multi::mpi::datatype<T>, newtype);
	g_log.push_back("dup " + o + " " + reg_new(*newtype));
	return rc;
}
int MPI_Type_vector(int count, int blocklength, int stride, MPI_Datatype oldtype, MPI_Datatype* newtype) {
	if(!g_logging) return PMPI_Type_vector(count, blocklength, stride, oldtype, newtype);
	bool ok = true; std::string o = hname(oldtype, &ok);
	if(!ok) { ++g_errs; }
	int rc = PMPI_Type_vector(count, blocklength, stride, ok ? oldtype : multi::mpi::datatype<T>, newtype);
	g_log.push_back("vec " + std::to_string(count) + " " + std::to_string(blocklength) + " " + std::to_string(stride) + " " + o + " " + reg_new(*newtype));
	return rc;
}
int MPI_Type_commit(MPI_Datatype* t) {
	if(!g_logging) return PMPI_Type_commit(t);
	bool ok = true; std::string h = hname(*t, &ok);
	g_log.push_back("cm " + h);
	if(!ok) { ++g_errs; return MPI_SUCCESS; }
	g_recs[static_cast<std::size_t>(g_live[*t])].committed = true;
	return PMPI_Type_commit(t);
}
int MPI_Type_free(MPI_Datatype* t) {
	if(!g_logging) return PMPI_Type_free(t);
	bool ok = true; std::string h = hname(*t, &ok);
	g_log.push_back("fr " + h);
	if(*t == MPI_DATATYPE_NULL) { ++g_errs; return MPI_SUCCESS; }
	if(!ok) {  // freed before (or never created): count it, do not forward
		++g_errs;
		auto jt = g_dead.find(*t); if(jt != g_dead.end()) ++g_recs[static_cast<std::size_t>(jt->second)].freed;
		*t = MPI_DATATYPE_NULL;
		return MPI_SUCCESS;
	}
	int id = g_live[*t];
	++g_recs[static_cast<std::size_t>(id)].freed;
	if(id == 0) { ++g_errs; *t = MPI_DATATYPE_NULL; return MPI_SUCCESS; }  // a builtin datatype must not be freed
	g_dead[*t] = id; g_live.erase(*t);
	return PMPI_Type_free(t);
}
static bool note_use(MPI_Datatype t) {
	bool ok = true; std::string h = hname(t, &ok);
	g_log.push_back("use " + h);
	if(ok) ok = g_recs[static_cast<std::size_t>(g_live[t])].committed;
	if(!ok) ++g_errs;
	return ok;
}
int MPI_Pack(const void* inbuf, int incount, MPI_Datatype datatype, void* outbuf, int outsize, int* position, MPI_Comm comm) {
	if(g_logging && !note_use(datatype)) return MPI_SUCCESS;
	return PMPI_Pack(inbuf, incount, datatype, outbuf, outsize, position, comm);
}
int MPI_Unpack(const void* inbuf, int insize, int* position, void* outbuf, int outcount, MPI_Datatype datatype, MPI_Comm comm) {
	if(g_logging && !note_use(datatype)) return MPI_SUCCESS;
	return PMPI_Unpack(inbuf, insize, position, outbuf, outcount, datatype, comm);
}
}  // extern "C"

static std::string ledger_str() {
	int created = static_cast<int>(g_recs.size()) - 1, once = 0, leaked = 0;
	for(std::size_t k = 1; k < g_recs.size(); ++k) { if(g_recs[k].freed == 1) ++once; if(g_recs[k].freed == 0) ++leaked; }
	return "ledger " + std::to_string(created) + " " + std::to_string(once) + " " + std::to_string(leaked) + " " + std::to_string(g_errs);
}
static void release_leaked() { for(auto& kv : g_live) { if(kv.second != 0) { MPI_Datatype t = kv.first; PMPI_Type_free(&t); } } }

// --- memories -------------------------------------------------------------------------------------------------------
constexpr long MEMSZ = 1024;
static std::vector<T> g_a, g_b;
static T* g_mem = nullptr;    // source views live here:       g_mem[p] == p
static T* g_mem2 = nullptr;   // destination views live here:  g_mem2[p] == -1 - p
static void reset_mem() { for(long i = 0; i < MEMSZ; ++i) { g_mem[i] = static_cast<T>(i); g_mem2[i] = static_cast<T>(-1 - i); } }
static std::string num(T x) { return std::to_string(static_cast<long>(x)); }

template<multi::dimensionality_type D> std::vector<T> pack_view(VS<D> const& s, std::string* head) {
	auto&& v = av::mk(s);
	std::vector<T> out;
	{
		multi::mpi::message msg(v.elements());
		int bytes = 0; PMPI_Pack_size(static_cast<int>(msg.count()), msg.datatype(), MPI_COMM_WORLD, &bytes);
		std::vector<char> buf(static_cast<std::size_t>(bytes) + 16, 0); int pos = 0;
		MPI_Pack(msg.buffer(), static_cast<int>(msg.count()), msg.datatype(), buf.data(), static_cast<int>(buf.size()), &pos, MPI_COMM_WORLD);
		if(pos % static_cast<int>(sizeof(T)) != 0) internal("packed size is not a multiple of the element size");
		out.resize(static_cast<std::size_t>(pos) / sizeof(T));
		if(pos > 0) std::memcpy(out.data(), buf.data(), static_cast<std::size_t>(pos));
		// (the buffer address of a view without elements designates nothing: not compared)
		if(head) *head = "msg buf " + (v.num_elements() == 0 ? std::string("_") : std::to_string(static_cast<long>(static_cast<T const*>(msg.buffer()) - g_mem))) + " count " + std::to_string(static_cast<long>(msg.count()));
	}
	return out;
}

template<multi::dimensionality_type D> void do_msg(VS<D> const& s, long sz) {
	if constexpr(D == 0 || D > 4) { std::fprintf(fans, "msg none\n"); }
	else {
		if(sz != static_cast<long>(sizeof(T))) { std::fprintf(fans, "msg bad-size\n"); return; }
		ledger_reset(); g_logging = true;
		std::string head;
		auto packed = pack_view(s, &head);
		g_logging = false;
		// reference: the elements() sequence read through the library's own iterator
		{ auto&& v = av::mk(s); std::vector<T> ref(v.elements().begin(), v.elements().end()); if(ref != packed) internal("MPI_Pack differs from elements()"); }
		// canonical form: the stride of an hvector and the extent of the following resized are compared only for levels with
		// at least two elements of a non-empty view (the stride of a dimension of size 0 or 1 is not determined by the view, cf. C01)
		{
			auto&& v = av::mk(s); auto sizes = av::sizes_of(v); bool empty = v.num_elements() == 0;
			long nhv = 0; bool relevant = true;
			for(auto& line : g_log) {
				auto w = av::words(line);
				if(w[0] == "hv" && w.size() == 6) { long level = static_cast<long>(sizes.size()) - 1 - nhv; ++nhv; relevant = !empty && level >= 0 && sizes[static_cast<std::size_t>(level)] >= 2; if(!relevant) line = "hv " + w[1] + " " + w[2] + " _ " + w[4] + " " + w[5]; }
				else if(w[0] == "rs" && w.size() == 5) { if(!relevant) line = "rs " + w[1] + " " + w[2] + " _ " + w[4]; }
			}
		}
		std::string calls; for(std::size_t k = 0; k < g_log.size(); ++k) { if(k) calls += " ; "; calls += g_log[k]; }
		std::string pk = "pack " + std::to_string(packed.size()) + " :"; for(T x : packed) pk += " " + num(x);
		std::fprintf(fans, "%s | %s | %s | %s\n", head.c_str(), calls.c_str(), ledger_str().c_str(), pk.c_str());
		release_leaked();
	}
}

template<multi::dimensionality_type DS, multi::dimensionality_type DD> void do_unpack(VS<DS> const& s, VS<DD> const& d, long sz) {
	if constexpr(DS == 0 || DS > 4 || DD == 0 || DD > 4) { std::fprintf(fans, "unpack none\n"); }
	else {
		if(sz != static_cast<long>(sizeof(T))) { std::fprintf(fans, "unpack bad-size\n"); return; }
		reset_mem();
		ledger_reset(); g_logging = true;
		auto&& vs = av::mk(s); auto&& vd = av::mk(d);
		bool err = false;
		{
			multi::mpi::message ms(vs.elements());
			int bytes = 0; PMPI_Pack_size(static_cast<int>(ms.count()), ms.datatype(), MPI_COMM_WORLD, &bytes);
			std::vector<char> buf(static_cast<std::size_t>(bytes) + 16, 0); int pos = 0;
			MPI_Pack(ms.buffer(), static_cast<int>(ms.count()), ms.datatype(), buf.data(), static_cast<int>(buf.size()), &pos, MPI_COMM_WORLD);
			{
				multi::mpi::message md(vd.elements());
				int need = 0; PMPI_Pack_size(static_cast<int>(md.count()), md.datatype(), MPI_COMM_WORLD, &need);
				if(need != bytes) { err = true; }  // different element counts: the generator never does this
				else { int upos = 0; MPI_Unpack(buf.data(), pos, &upos, md.buffer(), static_cast<int>(md.count()), md.datatype(), MPI_COMM_WORLD); if(upos != pos) internal("MPI_Unpack did not consume the packed buffer"); }
			}
		}
		g_logging = false;
		std::string cells;
		for(long p = 0; p < MEMSZ; ++p) { if(g_mem2[p] != static_cast<T>(-1 - p)) cells += " " + std::to_string(p) + ":" + num(g_mem2[p]); }
		for(long p = 0; p < MEMSZ; ++p) { if(g_mem[p] != static_cast<T>(p)) { internal("source memory changed"); break; } }
		if(err) std::fprintf(fans, "unpack ERR\n"); else std::fprintf(fans, "unpack%s | %s\n", cells.c_str(), ledger_str().c_str());
		release_leaked();
		reset_mem();
	}
}

// --- generation ------------------------------------------------------------------------------------------------------
// a destination view with exactly n elements and an unrelated layout: a root array with guard cells around a strided
// sub-block whose sizes are a random factorisation of n, then a random permutation of the dimensions
static AnyView gen_dest(Rng& rng, long n, T* mem, long base, int reg0, FILE* out, int& reg_out) {
	int D = 1 + rng.pick({25, 35, 25, 15});
	std::vector<long> s(static_cast<std::size_t>(D), 1);
	if(n == 0) { for(auto& x : s) x = rng.range(1, 3); s[static_cast<std::size_t>(rng.range(0, D - 1))] = 0; }
	else { long m = n; for(long p = 2; m > 1;) { if(m % p == 0) { s[static_cast<std::size_t>(rng.range(0, D - 1))] *= p; m /= p; } else ++p; } }
	std::vector<long> t(static_cast<std::size_t>(D)), a(static_cast<std::size_t>(D)), c(static_cast<std::size_t>(D));
	for(int attempt = 0;; ++attempt) {
		long tot = 1;
		for(std::size_t k = 0; k < s.size(); ++k) {
			// (an array with an empty extent reports collapsed extensions: no guard cells or strides there)
			t[k] = (n == 0 || attempt > 6) ? 1 : (long[]){1, 2, 3}[rng.pick({55, 30, 15})];
			a[k] = (n == 0 || attempt > 8) ? 0 : (rng.coin(50) ? t[k] : 0);
			c[k] = (n == 0 || attempt > 8) ? 0 : rng.range(0, 1);
			tot *= a[k] + s[k] * t[k] + c[k];
		}
		if(tot <= 900 - base || attempt > 10) break;
	}
	std::vector<Ex> ex; for(std::size_t k = 0; k < s.size(); ++k) ex.push_back(Ex{0, a[k] + s[k] * t[k] + c[k]});
	std::string rl = "root " + std::to_string(reg0) + " " + std::to_string(base) + " " + std::to_string(D);
	for(auto const& e : ex) rl += " 0 " + std::to_string(e.last);
	std::fprintf(out, "%s\n", rl.c_str());
	AnyView cur = av::make_root_any(ex, mem + base);
	int src = reg0;
	auto apply = [&](av::Op const& op) { std::fprintf(out, "%s\n", av::op_line(reg0 + 1, src, op).c_str()); cur = std::visit([&](auto const& st) { return av::apply_op(st, op); }, cur); src = reg0 + 1; };
	for(std::size_t k = 0; k < s.size(); ++k) {
		if(a[k] != 0 || c[k] != 0) { av::Op op; op.name = "sliced"; op.a = {a[k], a[k] + s[k] * t[k]}; apply(op); }
		if(t[k] != 1) { av::Op op; op.name = "strided"; op.a = {t[k]}; apply(op); }
		if(D > 1) { av::Op op; op.name = "rotated"; apply(op); }
	}
	int extra = static_cast<int>(rng.range(0, 2));
	for(int k = 0; k < extra; ++k) {
		av::Op op; int c2 = rng.pick({30, 30, 20, 20});
		if(c2 == 0) op.name = "rotated"; else if(c2 == 1) op.name = "unrotated"; else if(c2 == 2) op.name = "reversed"; else { if(D < 2) continue; op.name = "transposed"; }
		apply(op);
	}
	reg_out = src;
	return cur;
}

static long count_of(AnyView const& v) {
	return std::visit([](auto const& s) -> long { using S = std::decay_t<decltype(s)>; if constexpr(std::is_same_v<S, VS<0>>) { return 1; } else { return static_cast<long>(av::mk(s).num_elements()); } }, v);
}

static void run_generated(std::uint64_t seed, long nprog, bool rebased) {
	Rng rng(seed);
	long const sz = static_cast<long>(sizeof(T));
	for(long p = 0; p < nprog; ++p) {
		std::fprintf(fprog, "prog %ld %llu\n", p, static_cast<unsigned long long>(seed)); std::fprintf(fans, "prog %ld %llu\n", p, static_cast<unsigned long long>(seed));
		int reg = 0, nops = 0;
		long base = 64 + rng.range(0, 9);
		AnyView src = av::gen_view(rng, rebased, g_mem, base, 160, 6, 0, fprog, reg, nops);
		std::fprintf(fprog, "x msg %d %ld\n", reg, sz);
		std::visit([&](auto const& s) { do_msg(s, sz); }, src);
		if(rng.coin(75)) {
			int dreg = 2;
			long base2 = 40 + rng.range(0, 30);
			AnyView dst = gen_dest(rng, count_of(src), g_mem2, base2, 2, fprog, dreg);
			if(count_of(dst) != count_of(src)) { std::fprintf(stderr, "harness: destination has %ld elements, source %ld\n", count_of(dst), count_of(src)); std::abort(); }
			std::fprintf(fprog, "x unpack %d %d %ld\n", reg, dreg, sz);
			std::visit([&](auto const& s, auto const& d) { do_unpack(s, d, sz); }, src, dst);
		}
	}
}

static void run_replay(char const* path) {
	std::ifstream in(path);
	std::string line;
	std::vector<AnyView> regs(64);
	while(std::getline(in, line)) {
		std::fprintf(fprog, "%s\n", line.c_str());
		auto w = av::words(line);
		if(w.empty() || w[0] == "#") continue;
		if(w[0] == "prog") { std::fprintf(fans, "%s\n", line.c_str()); continue; }
		// registers 0,1 hold views over the source memory, registers >= 2 over the destination memory
		if(w[0] == "root") { int reg = std::stoi(w[1]); auto v = av::parse_root(w, reg >= 2 ? g_mem2 : g_mem, reg); regs[static_cast<std::size_t>(reg)] = v; }
		else if(w[0] == "v") { int dst = 0, src = 0; auto op = av::parse_op(w, dst, src); regs[static_cast<std::size_t>(dst)] = std::visit([&](auto const& s) { return av::apply_op(s, op); }, regs[static_cast<std::size_t>(src)]); }
		else if(w[0] == "x" && w.size() >= 4 && w[1] == "msg") { long sz = std::stol(w[3]); std::visit([&](auto const& s) { do_msg(s, sz); }, regs[static_cast<std::size_t>(std::stoi(w[2]))]); }
		else if(w[0] == "x" && w.size() >= 5 && w[1] == "unpack") { long sz = std::stol(w[4]); std::visit([&](auto const& s, auto const& d) { do_unpack(s, d, sz); }, regs[static_cast<std::size_t>(std::stoi(w[2]))], regs[static_cast<std::size_t>(std::stoi(w[3]))]); }
		else if(w[0] == "x") std::fprintf(fans, "bad-op\n");
	}
}

int main(int argc, char** argv) {
	if(argc < 6) { std::fprintf(stderr, "usage: mpi <seed> <nprograms> <zero|rebased> <prog-out> <answers-out> [--replay file]\n"); return 2; }
	setenv("OMPI_ALLOW_RUN_AS_ROOT", "1", 0); setenv("OMPI_ALLOW_RUN_AS_ROOT_CONFIRM", "1", 0);
	std::uint64_t seed = std::strtoull(argv[1], nullptr, 10);
	long nprog = std::strtol(argv[2], nullptr, 10);
	bool rebased = std::string(argv[3]) == "rebased";
	fprog = std::fopen(argv[4], "w"); fans = std::fopen(argv[5], "w");
	if(!fprog || !fans) { std::perror("fopen"); return 2; }
	MPI_Init(&argc, &argv);
	g_a.assign(MEMSZ, 0); g_b.assign(MEMSZ, 0); g_mem = g_a.data(); g_mem2 = g_b.data(); reset_mem();
	if(argc >= 8 && std::string(argv[6]) == "--replay") run_replay(argv[7]);
	else run_generated(seed, nprog, rebased);
	std::fclose(fprog); std::fclose(fans);
	MPI_Finalize();
	return g_internal ? 3 : 0;
}
