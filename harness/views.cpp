// views.cpp — correspondence harness for C01 (view algebra), C02 (iterators / elements ranges) and C19 (index bases).
// Drives the real boost::multi templates (headers from /repo's working tree) with generated op sequences,
// writes the op lines (for the Lean driver `mmdrv`) and the answers observed through the public API.
//
// usage: views <seed> <nprograms> <mode: zero|rebased> <prog-out> <answers-out> [--replay <prog-file>]
#include <boost/multi/array.hpp>

#include <algorithm>
#include <array>
#include <cstdio>
#include <cstdlib>
#include <cstring>
#include <string>
#include <tuple>
#include <utility>
#include <variant>
#include <vector>
#include <sstream>
#include <fstream>
#include <sys/wait.h>
#include <sys/resource.h>
#include <unistd.h>
#include <csignal>

#include "common/prng.hpp"

namespace multi = boost::multi;
using T = int;
using idx_t = multi::index;

#ifndef PTR_KIND
#define PTR_KIND 0
#endif
#if PTR_KIND == 0
using Ptr = T*;
template<class U> T* to_mut(U* p) { return const_cast<T*>(p); }
#else
#include "common/fancy_ptr.hpp"
using Ptr = fancy::xptr<T>;
using fancy::to_mut;
#endif

constexpr int MAXD = 5;

template<multi::dimensionality_type D> struct VS { multi::layout_t<D> lay; Ptr base; };
using AnyView = std::variant<VS<0>, VS<1>, VS<2>, VS<3>, VS<4>, VS<5>, VS<6>>;

template<multi::dimensionality_type D> auto mk(VS<D> const& s) { return multi::subarray<T, D, Ptr>(s.lay, s.base); }

// result of an operation -> stored state (elements become 0-D states)
template<class V> auto store(V&& v) -> decltype(std::decay_t<V>::rank_v, AnyView{}) {
	constexpr auto D = std::decay_t<V>::rank_v;
	return AnyView{VS<D>{v.layout(), to_mut(v.base())}};
}

static T* g_mem = nullptr;  // start of the address space; addresses are reported relative to it
static long addr_of(T const* p) { return static_cast<long>(p - g_mem); }
#if PTR_KIND == 0
static Ptr make_ptr(long off) { return g_mem + off; }
#else
template<class U> static long addr_of(fancy::xptr<U> const& p) { return static_cast<long>(p.off()); }
static Ptr make_ptr(long off) { return Ptr::at(off); }
#endif
inline AnyView store(T& e) { return AnyView{VS<0>{multi::layout_t<0>{multi::extensions_t<0>{}}, make_ptr(addr_of(&e))}}; }
inline AnyView store(T const& e) { return AnyView{VS<0>{multi::layout_t<0>{multi::extensions_t<0>{}}, make_ptr(addr_of(&e))}}; }

static FILE* fprog = nullptr;
static FILE* fans = nullptr;

struct Ex { long first, last; long size() const { return last - first; } };

template<class V> std::vector<Ex> exts_of(V const& v) {
	std::vector<Ex> r;
	if constexpr(std::decay_t<V>::rank_v > 0) {
		std::apply([&](auto const&... e) { (r.push_back(Ex{static_cast<long>(e.first()), static_cast<long>(e.last())}), ...); }, v.extensions().base());
	}
	return r;
}
template<class V> std::vector<long> sizes_of(V const& v) {
	std::vector<long> r;
	if constexpr(std::decay_t<V>::rank_v > 0) { std::apply([&](auto... s) { (r.push_back(static_cast<long>(s)), ...); }, v.sizes()); }
	return r;
}
template<class V> std::vector<long> strides_of(V const& v) {
	std::vector<long> r;
	if constexpr(std::decay_t<V>::rank_v > 0) { std::apply([&](auto... s) { (r.push_back(static_cast<long>(s)), ...); }, v.layout().strides()); }
	return r;
}

// all index tuples of a box, canonical order
static void box_rec(std::vector<Ex> const& ex, std::size_t k, std::vector<long>& cur, std::vector<std::vector<long>>& out) {
	if(k == ex.size()) { out.push_back(cur); return; }
	for(long i = ex[k].first; i < ex[k].last; ++i) { cur.push_back(i); box_rec(ex, k + 1, cur, out); cur.pop_back(); }
}
static std::vector<std::vector<long>> box(std::vector<Ex> const& ex) { std::vector<std::vector<long>> out; std::vector<long> cur; box_rec(ex, 0, cur, out); return out; }

// access paths ---------------------------------------------------------------------------------------------
template<class V> T const* addr_bracket(V&& v, long const* idx) {
	constexpr auto D = std::decay_t<V>::rank_v;
	if constexpr(D == 0) { return &*v.base(); }
	else if constexpr(D == 1) { return &v[idx[0]]; }
	else { return addr_bracket(v[idx[0]], idx + 1); }
}
template<class V, std::size_t... I> T const* addr_call(V&& v, long const* idx, std::index_sequence<I...>) { return &v(idx[I]...); }
template<class V, std::size_t... I> T const* addr_apply(V&& v, long const* idx, std::index_sequence<I...>) {
	return &v.apply(std::array<idx_t, sizeof...(I)>{{idx[I]...}});
}
template<class C, int D> T const* addr_cursor(C const& c, long const* idx) {
	if constexpr(D == 1) { return &c[idx[0]]; } else { return addr_cursor<decltype(c[idx[0]]), D - 1>(c[idx[0]], idx + 1); }
}

static int g_internal = 0;  // harness-internal inconsistencies (e.g. const and mutable overloads disagree)
static void internal(char const* what) { ++g_internal; std::fprintf(fans, "INTERNAL %s\n", what); }

template<class A, class B> bool same_view(A const& a, B const& b) {
	if constexpr(std::is_same_v<std::decay_t<A>, T>) { return &a == &b; }
	else { return a.base() == b.base() && a.layout() == b.layout(); }
}

static std::string join(std::vector<long> const& v) { std::string s; for(std::size_t i = 0; i < v.size(); ++i) { if(i) s += ' '; s += std::to_string(v[i]); } return s; }

// queries ----------------------------------------------------------------------------------------------------
template<multi::dimensionality_type D> void q_shape(VS<D> const& s) {
	auto&& v = mk(s);
	auto ex = exts_of(v); auto sz = sizes_of(v); auto st = strides_of(v);
	long ne = static_cast<long>(v.num_elements());
	std::string e, z, t;
	for(std::size_t k = 0; k < ex.size(); ++k) { if(k) { e += ' '; t += ' '; } e += std::to_string(ex[k].first) + ":" + std::to_string(ex[k].last); t += (ne != 0 && sz[k] >= 2) ? std::to_string(st[k]) : std::string("_"); }
	z = join(sz);
	bool empty = false;
	if constexpr(D > 0) {
		empty = v.is_empty();
		if(static_cast<long>(v.size()) != (sz.empty() ? 0 : sz[0])) internal("size()!=sizes[0]");
		if(static_cast<long>(v.extension().first()) != ex[0].first || static_cast<long>(v.extension().last()) != ex[0].last) internal("extension()!=extensions[0]");
		if(v.empty() != v.is_empty()) internal("empty()!=is_empty()");
	}
	std::fprintf(fans, "shape %d | %s | %s | %ld %d | %s\n", static_cast<int>(D), e.c_str(), z.c_str(), ne, empty ? 1 : 0, t.c_str());
}

static long g_lo = 0, g_hi = 0;  // current root's storage [lo, hi)

template<multi::dimensionality_type D> void q_addrs(VS<D> const& s) {
	auto&& v = mk(s);
	auto idxs = box(exts_of(v));
	std::vector<long> as;
	for(auto const& idx : idxs) {
		long a = addr_of(addr_bracket(v, idx.data()));
		long a2 = addr_of(addr_bracket(std::as_const(v), idx.data()));
		if(a != a2) internal("bracket const/mutable differ");
		if(a < g_lo || a >= g_hi) std::fprintf(fans, "OOB addr %ld outside [%ld,%ld)\n", a, g_lo, g_hi);
		as.push_back(a);
	}
	std::fprintf(fans, "addrs %zu : %s\n", idxs.size(), join(as).c_str());
}

template<multi::dimensionality_type D> void q_paths(VS<D> const& s) {
	auto&& v = mk(s);
	auto ex = exts_of(v);
	auto idxs = box(ex);
	std::vector<long> call, cur;
	bool zero_based = std::all_of(ex.begin(), ex.end(), [](Ex const& e) { return e.first == 0; });
	for(auto const& idx : idxs) {
		if constexpr(D == 0) { call.push_back(addr_of(&*v.base())); if(zero_based) cur.push_back(addr_of(&*v.base())); }
		else {
			long c1 = addr_of(addr_call(v, idx.data(), std::make_index_sequence<D>{}));
			long c2 = addr_of(addr_call(std::as_const(v), idx.data(), std::make_index_sequence<D>{}));
			long ap = addr_of(addr_apply(v, idx.data(), std::make_index_sequence<D>{}));
			long ap2 = addr_of(addr_apply(std::as_const(v), idx.data(), std::make_index_sequence<D>{}));
			if(c1 != c2) internal("call const/mutable differ");
			if(ap != c1 || ap2 != c1) internal("apply differs from call");
			call.push_back(c1);
			if(zero_based) {
				auto h = v.home(); auto ch = std::as_const(v).home();
				long k1 = addr_of(addr_cursor<decltype(h), D>(h, idx.data()));
				long k2 = addr_of(addr_cursor<decltype(ch), D>(ch, idx.data()));
				if(k1 != k2) internal("cursor const/mutable differ");
				cur.push_back(k1);
			}
		}
	}
	std::fprintf(fans, "paths %zu : %s : %s\n", idxs.size(), join(call).c_str(), zero_based ? join(cur).c_str() : "_");
}

template<multi::dimensionality_type D> void q_iter(VS<D> const& s) {
	if constexpr(D == 0) { std::fprintf(fans, "iter none\n"); }
	else {
		auto&& v = mk(s);
		if(v.stride() == 0) { std::fprintf(fans, "iter stride0\n"); return; }
		auto b = v.begin(); auto e = v.end();
		auto cb = std::as_const(v).begin();
		long size = static_cast<long>(e - b);
		long first = static_cast<long>(v.extension().first());
		long viol = 0;
		auto chk = [&](bool ok) { if(!ok) ++viol; };
		std::vector<long> ds;
		for(long p = 0; p <= size; ++p) {
			auto it = b + p;
			chk(static_cast<long>(v.size()) == size);
			if(p < size) { auto t = it; ++t; --t; chk(t == it); auto u = it; auto old = u++; chk(old == it); chk(u == it + 1); }
			if(p > 0) { auto t = it; --t; ++t; chk(t == it); auto u = it; auto old = u--; chk(old == it); chk(u == it - 1); }
			if(p < size) { chk(same_view(*it, v[first + p])); }
			chk(it - b == p); chk(e - it == size - p);
			chk(p == size ? (it == e) : !(it == e));
			chk(p == size ? !(it != e) : (it != e));
			chk((cb + p) == it);  // const and mutable iterators to one position compare equal
			{ auto c = it; chk(c == it); auto c2 = b; c2 = it; chk(c2 == it); }
			for(long q = 0; q <= size; ++q) {
				long k = q - p;
				auto jt = it + k;
				chk((jt - k) == it); chk(jt - it == k);
				chk((it < jt) == (jt - it > 0)); chk((jt < it) == (it - jt > 0));
				chk((it <= jt) == (k >= 0)); chk((it > jt) == (k < 0)); chk((it >= jt) == (k <= 0));
				if(q < size) { chk(same_view(it[k], *jt)); }
				chk(jt == b + q);
				{ auto c = it; c += k; chk(c == jt); c -= k; chk(c == it); }
			}
			if(p < size) {
				if constexpr(D == 1) { ds.push_back(addr_of(&*it)); } else { ds.push_back(addr_of((*it).base())); }
			}
		}
		// assignment across views (same base, same extents, other strides): see q_elems
		if constexpr(D >= 2) {
			auto ex = exts_of(v);
			if(ex[0].first == ex[1].first && ex[0].last == ex[1].last && size > 0) {
				auto&& w = v.transposed();
				if(w.stride() != 0) {
					auto bw = w.begin();
					for(long p = 0; p <= size; ++p) for(long q = 0; q <= size; ++q) {
						{ auto it = b + p; auto jt = bw + q; it = jt; chk(it == jt); chk(it - bw == q); if(q < size) { chk(same_view(*it, w[first + q])); } if(q + 1 < size) { auto t = it; ++t; chk(same_view(*t, w[first + q + 1])); } }
						{ auto it = bw + q; auto jt = b + p; it = jt; chk(it == jt); chk(it - b == p); if(p < size) { chk(same_view(*it, v[first + p])); } if(p > 0) { auto t = it; --t; chk(same_view(*t, v[first + p - 1])); } }
					}
				}
			}
		}
		std::fprintf(fans, "iter %ld %ld : %s\n", size, viol, join(ds).c_str());
		if(viol != 0) std::fprintf(fans, "LAW-VIOLATION begin()/end() iterator laws: %ld checks failed\n", viol);
	}
}

template<multi::dimensionality_type D> void q_elems(VS<D> const& s) {
	if constexpr(D == 0) { std::fprintf(fans, "elems none\n"); }
	else {
		auto&& v = mk(s);
		auto idxs = box(exts_of(v));
		std::vector<long> want; for(auto const& idx : idxs) want.push_back(addr_of(addr_bracket(v, idx.data())));
		auto&& r = v.elements();
		auto const& cr = std::as_const(v).elements();
		long n = static_cast<long>(r.size());
		long viol = 0;
		auto chk = [&](bool ok) { if(!ok) ++viol; };
		chk(static_cast<long>(idxs.size()) == n);
		chk(static_cast<long>(cr.size()) == n);
		auto b = r.begin(); auto e = r.end();
		chk(e - b == n);
		std::vector<long> byinc;
		{ auto it = b; for(long k = 0; k < n; ++k) { byinc.push_back(addr_of(&*it)); ++it; } chk(it == e); }
		chk(byinc == want);
		{ std::vector<long> bydec(static_cast<std::size_t>(n)); auto it = e; for(long k = n - 1; k >= 0; --k) { --it; bydec[static_cast<std::size_t>(k)] = addr_of(&*it); } chk(it == b); chk(bydec == want); }
		for(long k = 0; k < n; ++k) {
			auto w = want[static_cast<std::size_t>(k)];
			chk(addr_of(&*(b + k)) == w);
			chk(addr_of(&*(e - (n - k))) == w);
			chk(addr_of(&r[k]) == w);
			chk(addr_of(&cr[k]) == w);
			chk(addr_of(&b[k]) == w);
			chk(addr_of(&*(cr.begin() + k)) == w);
		}
		if(n > 0) { chk(addr_of(&r.front()) == want.front()); chk(addr_of(&r.back()) == want.back()); chk(addr_of(&cr.front()) == want.front()); chk(addr_of(&cr.back()) == want.back()); }
		for(long p = 0; p <= n; ++p) {
			auto it = b + p;
			chk(it - b == p); chk(e - it == n - p);
			if(p < n) { auto t = it; ++t; --t; chk(t == it); chk(addr_of(&*t) == want[static_cast<std::size_t>(p)]); }
			if(p > 0) { auto t = it; --t; ++t; chk(t == it); if(p < n) { chk(addr_of(&*t) == want[static_cast<std::size_t>(p)]); } }
			// mixing ++/-- with arithmetic: (++it) - 1, (++it)[-1], (--it) + 1 must come back to the same element
			if(p < n) { auto w = want[static_cast<std::size_t>(p)]; auto t = it; ++t; auto u = t - 1; chk(addr_of(&*u) == w); chk(addr_of(&t[-1]) == w); auto d = t; --d; chk(addr_of(&*d) == w); chk(d == it); }
			if(p > 0 && p < n) { auto w = want[static_cast<std::size_t>(p)]; auto t = it; --t; auto u = t + 1; chk(addr_of(&*u) == w); auto t2 = t; ++t2; chk(addr_of(&*t2) == w); chk(t2 == it); }
			chk(p == n ? (it == e) : !(it == e));
			for(long q = 0; q <= n; ++q) {
				long k = q - p;
				auto jt = it + k;
				auto back = jt - k;
				chk(back == it); if(p < n) { chk(&*back == &*it); }
				chk(jt - it == k);
				chk(static_cast<bool>(it < jt) == (jt - it > 0));
				if(q < n) { chk(&it[k] == &*jt); chk(addr_of(&*jt) == want[static_cast<std::size_t>(q)]); }
				{ auto c = it; c = jt; chk(c == jt); if(q < n) { chk(&*c == &*jt); } }
				{ auto c = it; c += k; chk(c == jt); c -= k; chk(c == it); if(p < n) { chk(&*c == &*it); } }
			}
		}
		// assignment ACROSS views: an iterator assigned from an iterator of another view over the same base with the same
		// extents (the transposed twin of a view whose two leading extensions agree) must denote the source's position
		if constexpr(D >= 2) {
			auto ex = exts_of(v);
			if(ex[0].first == ex[1].first && ex[0].last == ex[1].last && n > 0) {
				auto&& w = v.transposed();
				auto idw = box(exts_of(w));
				std::vector<long> wantw; for(auto const& idx : idw) wantw.push_back(addr_of(addr_bracket(w, idx.data())));
				auto&& rw = w.elements();
				auto bw = rw.begin();
				chk(static_cast<long>(rw.size()) == n);
				for(long p = 0; p <= n; ++p) for(long q = 0; q <= n; q += (n > 12 ? 1 + (p % 3) : 1)) {
					{ auto it = b + p; auto jt = bw + q; it = jt; chk(it == jt); chk(it - bw == q);
					  if(q < n) { chk(addr_of(&*it) == wantw[static_cast<std::size_t>(q)]); }
					  if(q + 1 < n) { auto t = it; ++t; chk(addr_of(&*t) == wantw[static_cast<std::size_t>(q + 1)]); chk(addr_of(&it[1]) == wantw[static_cast<std::size_t>(q + 1)]); }
					  if(q > 0) { auto t = it; --t; chk(addr_of(&*t) == wantw[static_cast<std::size_t>(q - 1)]); auto u = it - 1; chk(addr_of(&*u) == wantw[static_cast<std::size_t>(q - 1)]); } }
					{ auto it = bw + q; auto jt = b + p; it = jt; chk(it == jt); chk(it - b == p);
					  if(p < n) { chk(addr_of(&*it) == want[static_cast<std::size_t>(p)]); }
					  if(p + 1 < n) { auto t = it; ++t; chk(addr_of(&*t) == want[static_cast<std::size_t>(p + 1)]); }
					  if(p > 0) { auto u = it - 1; chk(addr_of(&*u) == want[static_cast<std::size_t>(p - 1)]); } }
				}
			}
		}
		std::fprintf(fans, "elems %ld %ld : %s\n", n, viol, join(byinc).c_str());
		if(viol != 0) std::fprintf(fans, "LAW-VIOLATION elements() iterator laws: %ld checks failed\n", viol);
	}
}

// death tests (C20) --------------------------------------------------------------------------------------------
// runs f() in a forked child; reports how the child ended: "abort assert-in-multi" (SIGABRT with an assertion message
// naming a file under boost/multi), "abort other", "none" (returned normally), "sig<k>"
template<class F> std::string run_child(F&& f) {
	std::fflush(fprog); std::fflush(fans); std::fflush(stdout);
	int fds[2]; if(pipe(fds) != 0) return "pipe-failed";
	pid_t pid = fork();
	if(pid == 0) {
		struct rlimit rl{0, 0}; setrlimit(RLIMIT_CORE, &rl);
		dup2(fds[1], 2); close(fds[0]); close(fds[1]);
		f();
		_exit(0);
	}
	close(fds[1]);
	std::string err; char buf[512]; ssize_t n;
	while((n = read(fds[0], buf, sizeof buf)) > 0) err.append(buf, static_cast<std::size_t>(n));
	close(fds[0]);
	int st = 0; waitpid(pid, &st, 0);
	if(WIFEXITED(st)) return WEXITSTATUS(st) == 0 ? "none" : "exit" + std::to_string(WEXITSTATUS(st));
	if(WIFSIGNALED(st)) {
		if(WTERMSIG(st) == SIGABRT) return (err.find("Assertion") != std::string::npos && err.find("boost/multi") != std::string::npos) ? "abort assert-in-multi" : "abort other";
		return "sig" + std::to_string(WTERMSIG(st));
	}
	return "unknown";
}

static volatile T g_sink = 0;

template<multi::dimensionality_type D> void q_death_index(VS<D> const& s, long i, int variant) {
	if constexpr(D == 0) { std::fprintf(fans, "death none\n"); }
	else {
		auto r = run_child([&] {
			auto&& v = mk(s); auto const& cv = v;
			if(variant == 0) { if constexpr(D == 1) { auto&& e = v[i]; g_sink = e; } else { auto&& sub = v[i]; g_sink = static_cast<T>(sub.num_elements()); } }
			else if(variant == 1) { if constexpr(D == 1) { auto&& e = cv[i]; g_sink = e; } else { auto&& sub = cv[i]; g_sink = static_cast<T>(sub.num_elements()); } }
			else { if constexpr(D == 1) { auto&& e = mk(s)[i]; g_sink = e; } else { auto&& sub = cv(i); g_sink = static_cast<T>(sub.num_elements()); } }
		});
		std::fprintf(fans, "death %s\n", r.c_str());
	}
}

template<multi::dimensionality_type D> void q_death_assign(VS<D> const& a, AnyView const& bv, int variant) {
	if constexpr(D == 0) { std::fprintf(fans, "death none\n"); }
	else {
		if(!std::holds_alternative<VS<D>>(bv)) { std::fprintf(fans, "death bad-rank\n"); return; }
		auto const& b = std::get<VS<D>>(bv);
		auto r = run_child([&] {
			auto&& va = mk(a); auto&& vb = mk(b);
			if(variant == 0) { va = vb; } else if(variant == 1) { mk(a) = vb; } else { va = std::as_const(vb); }
		});
		std::fprintf(fans, "death %s\n", r.c_str());
	}
}

// operations --------------------------------------------------------------------------------------------------
struct CallArg { int kind; long a, b; };  // 0 = index, 1 = range, 2 = ALL, 3 = (multi::_ < a), 4 = (a <= multi::_)

template<class V, class... As> AnyView call_rec(V&& v, CallArg const* a, int k, As... as) {
	if(k == 0) { return store(v(as...)); }
	if constexpr(sizeof...(As) < 3 && sizeof...(As) < static_cast<std::size_t>(std::decay_t<V>::rank_v)) {
		switch(a->kind) {
			case 0: return call_rec(v, a + 1, k - 1, as..., static_cast<idx_t>(a->a));
			case 1: return call_rec(v, a + 1, k - 1, as..., multi::irange{a->a, a->b});
			case 3: return call_rec(v, a + 1, k - 1, as..., (multi::_ < static_cast<idx_t>(a->a)));
			case 4: return call_rec(v, a + 1, k - 1, as..., (static_cast<idx_t>(a->a) <= multi::_));
			default: return call_rec(v, a + 1, k - 1, as..., multi::ALL);
		}
	} else { std::abort(); }
}

template<class V, std::size_t... I> AnyView do_reindexed(V&& v, long const* b, std::index_sequence<I...>) { return store(v.reindexed(b[I]...)); }
template<class V, std::size_t... I> AnyView do_stenciled(V&& v, Ex const* e, std::index_sequence<I...>) { return store(v.stenciled(multi::iextension{e[I].first, e[I].last}...)); }

struct Op { std::string name; std::vector<long> a; std::vector<CallArg> call; };

// applies op to the state; `cq` selects the const& overload (true) or the & overload (false)
template<multi::dimensionality_type D> AnyView apply_op(VS<D> const& s, Op const& op, bool cq) {
	auto&& mv = mk(s);
	auto const& cv = mv;
	auto const& n = op.name; auto const& a = op.a;
#define BOTH(expr_m, expr_c) (cq ? store(expr_c) : store(expr_m))
	if constexpr(D >= 1) {
		if(n == "index") return BOTH(mv[a[0]], cv[a[0]]);
		if(n == "sliced") return BOTH(mv.sliced(a[0], a[1]), cv.sliced(a[0], a[1]));
		if(n == "range") return BOTH(mv.range({a[0], a[1]}), cv.range({a[0], a[1]}));
		if(n == "strided") return store(mv.strided(a[0]));
		if(n == "dropped") return store(mv.dropped(a[0]));
		if(n == "taked") return store(mv.taked(a[0]));
		if(n == "rotated") return BOTH(mv.rotated(), cv.rotated());
		if(n == "unrotated") return BOTH(mv.unrotated(), cv.unrotated());
		if(n == "reversed") return store(mv.reversed());
		if(n == "blocked") return store(mv.blocked(a[0], a[1]));
		if(n == "reindexed") {
			if(a.size() == 1) return store(mv.reindexed(a[0]));
			if constexpr(D >= 2) { if(a.size() == 2) return do_reindexed(mv, a.data(), std::make_index_sequence<2>{}); }
			if constexpr(D >= 3) { if(a.size() == 3) return do_reindexed(mv, a.data(), std::make_index_sequence<3>{}); }
		}
		if(n == "stenciled") {
			std::vector<Ex> es; for(std::size_t k = 0; k + 1 < a.size(); k += 2) es.push_back(Ex{a[k], a[k + 1]});
			if(es.size() == 1) return store(mv.stenciled(multi::iextension{es[0].first, es[0].last}));
			if constexpr(D >= 2) { if(es.size() == 2) return do_stenciled(mv, es.data(), std::make_index_sequence<2>{}); }
			if constexpr(D >= 3) { if(es.size() == 3) return do_stenciled(mv, es.data(), std::make_index_sequence<3>{}); }
		}
		if(n == "call") {
			int k = static_cast<int>(op.call.size());
			if(k <= static_cast<int>(D) && k <= 3) { return cq ? call_rec(cv, op.call.data(), k) : call_rec(mv, op.call.data(), k); }
		}
	}
	if constexpr(D >= 1 && D < MAXD) {
		if(n == "partitioned") return BOTH(mv.partitioned(a[0]), cv.partitioned(a[0]));
		if(n == "chunked") return store(cv.chunked(a[0]));
		if(n == "halved") return store(cv.halved());
	}
	if constexpr(D >= 2) {
		if(n == "transposed") return BOTH(mv.transposed(), cv.transposed());
		if(n == "diagonal") return BOTH(mv.diagonal(), cv.diagonal());
		if(n == "flatted") return BOTH(mv.flatted(), cv.flatted());
	}
#undef BOTH
	std::fprintf(stderr, "harness: op %s not applicable to D=%d\n", n.c_str(), static_cast<int>(D));
	std::abort();
}

static std::string op_line(int dst, int src, Op const& op) {
	std::string s = "v " + std::to_string(dst) + " " + std::to_string(src) + " " + op.name;
	if(op.name == "call") {
		for(auto const& c : op.call) { s += ' '; if(c.kind == 0) s += "i" + std::to_string(c.a); else if(c.kind == 1) s += "r" + std::to_string(c.a) + ":" + std::to_string(c.b); else if(c.kind == 3) s += "l" + std::to_string(c.a); else if(c.kind == 4) s += "g" + std::to_string(c.a); else s += "a"; }
	} else { for(long x : op.a) { s += ' '; s += std::to_string(x); } }
	return s;
}

// generation ----------------------------------------------------------------------------------------------------
template<multi::dimensionality_type D> bool gen_op(VS<D> const& s, Rng& rng, bool rebased, Op& op) {
	auto&& v = mk(s);
	auto ex = exts_of(v); auto sz = sizes_of(v);
	auto st = strides_of(v);
	if constexpr(D == 0) { return false; }
	else {
		long f = ex[0].first, l = ex[0].last, n = sz[0];
		bool zero0 = (f == 0);
		bool allzero = std::all_of(ex.begin(), ex.end(), [](Ex const& e) { return e.first == 0; });
		for(int tries = 0; tries < 40; ++tries) {
			int c = rng.pick({12, 12, 6, 8, 8, 8, 10, 10, 8, 6, 6, 6, 6, 6, 12, 3, rebased ? 8 : 0, rebased ? 6 : 0, rebased ? 4 : 0});
			op = Op{};
			switch(c) {
				case 0: if(n > 0 && (D > 1 || rng.coin(30))) { op.name = "index"; op.a = {rng.range(f, l - 1)}; return true; } break;
				case 1: { long x = rng.range(f, l); long y = rng.range(x, l); op.name = rng.coin(70) ? "sliced" : "range"; op.a = {x, y}; return true; }
				case 2: { std::vector<long> cand; for(long k = 1; k <= (n == 0 ? 3 : n); ++k) { if((n == 0 || n % k == 0) && (f % k == 0)) cand.push_back(k); }
					if(!cand.empty()) { op.name = "strided"; op.a = {cand[static_cast<std::size_t>(rng.range(0, static_cast<long>(cand.size()) - 1))]}; return true; } break; }
				case 3: op.name = "dropped"; op.a = {rng.range(0, n)}; return true;
				case 4: op.name = "taked"; op.a = {rng.range(0, n)}; return true;
				case 5: op.name = "rotated"; return true;
				case 6: op.name = "unrotated"; return true;
				case 7: if constexpr(D >= 2) { op.name = "transposed"; return true; } break;
				case 8: op.name = "reversed"; return true;
				case 9: if constexpr(D >= 2) { if(ex[0].first == 0 && ex[1].first == 0) { op.name = "diagonal"; return true; } } break;
				case 10: if constexpr(D < MAXD) { std::vector<long> cand; for(long k = 1; k <= (n == 0 ? 3 : n); ++k) { if(n == 0 || n % k == 0) cand.push_back(k); }
					op.name = "partitioned"; op.a = {cand[static_cast<std::size_t>(rng.range(0, static_cast<long>(cand.size()) - 1))]}; return true; } break;
				case 11: if constexpr(D < MAXD) { if(n > 0) { std::vector<long> cand; for(long k = 1; k <= n; ++k) { if(n % k == 0) cand.push_back(k); }
					op.name = "chunked"; op.a = {cand[static_cast<std::size_t>(rng.range(0, static_cast<long>(cand.size()) - 1))]}; return true; } } break;
				case 12: if constexpr(D >= 2) { if(allzero && v.is_flattable()) { op.name = "flatted"; return true; } } break;
				case 13: if constexpr(D < MAXD) { if(n % 2 == 0 && zero0) { op.name = "halved"; return true; } } break;
				case 14: { int k = static_cast<int>(rng.range(1, std::min<long>(static_cast<long>(D), 3)));
					// call syntax: the k-th argument acts on the k-th dimension of the original view
					op.name = "call"; bool ok = true;
					for(int j = 0; j < k; ++j) {
						long fj = ex[static_cast<std::size_t>(j)].first, lj = ex[static_cast<std::size_t>(j)].last;
						int kind = rng.pick({36, 36, 16, 6, 6});
						if(kind == 0) { if(lj - fj <= 0) { ok = false; break; } op.call.push_back(CallArg{0, rng.range(fj, lj - 1), 0}); }
						else if(kind == 1) { long x = rng.range(fj, lj); long y = rng.range(x, lj); op.call.push_back(CallArg{1, x, y}); }
						else if(kind == 3 || kind == 4) { op.call.push_back(CallArg{kind, rng.range(fj - 2, lj + 2), 0}); }   // clipping ranges, also entirely outside the extension
						else { op.call.push_back(CallArg{2, 0, 0}); }
					}
					if(ok) return true; break; }
				case 15: break;
				case 16: { int k = static_cast<int>(rng.range(1, std::min<long>(static_cast<long>(D), 3))); op.name = "reindexed"; for(int j = 0; j < k; ++j) op.a.push_back(rng.range(-3, 3)); return true; }
				case 17: { long x = rng.range(f, l); long y = rng.range(x, l); if(x < y) { op.name = "blocked"; op.a = {x, y}; return true; } break; }
				case 18: { int k = static_cast<int>(rng.range(1, std::min<long>(static_cast<long>(D), 3))); op.name = "stenciled"; bool ok = true;
					for(int j = 0; j < k; ++j) { long fj = ex[static_cast<std::size_t>(j)].first, lj = ex[static_cast<std::size_t>(j)].last; long x = rng.range(fj, lj); long y = rng.range(x, lj); if(x >= y) { ok = false; break; } op.a.push_back(x); op.a.push_back(y); }
					if(ok) return true; break; }
				default: break;
			}
		}
		return false;
	}
}

// which query families a run emits: C01 = shape/addrs/paths/bcast, C02 = iter/elems (+ shape), zero|rebased = all
static bool g_q_shape = true, g_q_iter = true, g_death = false;

// every in-domain operation (with every in-domain argument) applicable to a view: used by the exhaustive small-scope mode
template<multi::dimensionality_type D> void enumerate_ops(VS<D> const& s, bool rebased, std::vector<Op>& out) {
	if constexpr(D == 0) { (void)s; (void)rebased; (void)out; }
	else {
		auto&& v = mk(s);
		auto ex = exts_of(v); auto sz = sizes_of(v);
		long f = ex[0].first, l = ex[0].last, n = sz[0];
		bool allzero = std::all_of(ex.begin(), ex.end(), [](Ex const& e) { return e.first == 0; });
		auto add = [&](char const* name, std::vector<long> a) { Op o; o.name = name; o.a = std::move(a); out.push_back(o); };
		for(long i = f; i < l; ++i) add("index", {i});
		for(long x = f; x <= l; ++x) for(long y = x; y <= l; ++y) add("sliced", {x, y});
		for(long k = 1; k <= (n == 0 ? 2 : n); ++k) { if((n == 0 || n % k == 0) && f % k == 0) add("strided", {k}); }
		for(long k = 0; k <= n; ++k) { add("dropped", {k}); add("taked", {k}); }
		add("rotated", {}); add("unrotated", {}); add("reversed", {});
		if constexpr(D >= 2) { add("transposed", {}); if(ex[0].first == 0 && ex[1].first == 0) add("diagonal", {}); if(allzero && v.is_flattable()) add("flatted", {}); }
		if constexpr(D < MAXD) {
			for(long k = 1; k <= (n == 0 ? 2 : n); ++k) { if(n == 0 || n % k == 0) add("partitioned", {k}); }
			if(n > 0) { for(long k = 1; k <= n; ++k) { if(n % k == 0) add("chunked", {k}); } }
		}
		// call syntax: one argument per leading dimension, up to 2 arguments: index / a proper sub-range / ALL
		for(int k = 1; k <= std::min<int>(static_cast<int>(D), 2); ++k) {
			std::vector<std::vector<CallArg>> alts(static_cast<std::size_t>(k));
			for(int j = 0; j < k; ++j) {
				auto const& e = ex[static_cast<std::size_t>(j)];
				if(e.last > e.first) { alts[static_cast<std::size_t>(j)].push_back(CallArg{0, e.first, 0}); alts[static_cast<std::size_t>(j)].push_back(CallArg{0, e.last - 1, 0}); }
				alts[static_cast<std::size_t>(j)].push_back(CallArg{1, e.first, e.last});
				if(e.last - e.first >= 2) alts[static_cast<std::size_t>(j)].push_back(CallArg{1, e.first + 1, e.last});
				alts[static_cast<std::size_t>(j)].push_back(CallArg{1, e.first, e.first});
				alts[static_cast<std::size_t>(j)].push_back(CallArg{2, 0, 0});
			}
			if(k == 1) { for(auto const& a0 : alts[0]) { Op o; o.name = "call"; o.call = {a0}; out.push_back(o); } }
			else { for(auto const& a0 : alts[0]) for(auto const& a1 : alts[1]) { Op o; o.name = "call"; o.call = {a0, a1}; out.push_back(o); } }
		}
		if(rebased) { add("reindexed", {-1}); add("reindexed", {2}); if(n > 0) add("blocked", {f, l}); if(n >= 2) add("blocked", {f + 1, l}); }
	}
}

static void emit_queries(AnyView const& av, int reg, Rng& rng, bool all) {
	auto q = [&](char const* what) { std::fprintf(fprog, "q %s %d\n", what, reg); };
	if(all || rng.coin(60)) { q("shape"); std::visit([](auto const& s) { q_shape(s); }, av); }
	if(g_q_shape) {
		if(all || rng.coin(60)) { q("addrs"); std::visit([](auto const& s) { q_addrs(s); }, av); }
		if(all || rng.coin(40)) { q("paths"); std::visit([](auto const& s) { q_paths(s); }, av); }
	}
	if(g_q_iter) {
		if(all || rng.coin(g_q_shape ? 40 : 70)) { q("iter"); std::visit([](auto const& s) { q_iter(s); }, av); }
		if(all || rng.coin(g_q_shape ? 40 : 70)) { q("elems"); std::visit([](auto const& s) { q_elems(s); }, av); }
	}
}

template<multi::dimensionality_type D> AnyView make_root(std::vector<Ex> const& ex, Ptr base) {
	auto xs = std::apply([](auto... e) { return multi::extensions_t<D>{e...}; }, [&] {
		std::array<multi::iextension, static_cast<std::size_t>(D)> arr;
		for(std::size_t k = 0; k < static_cast<std::size_t>(D); ++k) arr[k] = multi::iextension{ex[k].first, ex[k].last};
		return arr; }());
	multi::array_ref<T, D, Ptr> ref(base, xs);
	return store(ref());
}

static AnyView make_root_any(std::vector<Ex> const& ex, Ptr base) {
	switch(ex.size()) {
		case 1: return make_root<1>(ex, base);
		case 2: return make_root<2>(ex, base);
		case 3: return make_root<3>(ex, base);
		case 4: return make_root<4>(ex, base);
		default: std::abort();
	}
}

static std::vector<T> g_storage;

static void run_generated(std::uint64_t seed, long nprog, bool rebased) {
	Rng rng(seed);
	for(long p = 0; p < nprog; ++p) {
		// "permutation" programs: a whole array of D = 3..4 with extents 2..3 under a chain of rotated / unrotated / transposed only.
		// Such views are compact (no gaps) but not in canonical order whichever dimensions are exchanged (leading, inner or the
		// MIDDLE ones of a 4-D array): the layouts on which a shortcut keyed on a few strides goes wrong; random chains of all
		// operations reach the 4-D middle exchange too rarely.
		bool const perm = rng.coin(12);
		int D = perm ? 3 + (rng.coin(70) ? 1 : 0) : 1 + rng.pick({20, 35, 30, 15});
		std::vector<Ex> ex; long ne = 1; bool big = false;
		for(int k = 0; k < D; ++k) {
			long sz = perm ? rng.range(2, 3) : (long[]){0, 1, 2, 3, 4, 5, 6}[rng.pick({12, 16, 22, 20, 16, 8, 6})];
			// now and then one dimension beyond the usual small sizes (around 16 and 32: where an implementation would switch strategy)
			if(!perm && !big && rng.coin(4)) { sz = (long[]){15, 16, 17, 31, 32, 33}[rng.range(0, 5)]; big = true; }
			if(ne * sz > 240) sz = 2;
			ne *= sz;
			long f = rebased ? rng.range(-3, 3) : 0;
			ex.push_back(Ex{f, f + sz});
		}
		long base = 64 + rng.range(0, 9);
		g_lo = base; g_hi = base + ne;
#if PTR_KIND == 2
		if(fancy::g_oob_deref != 0) { std::fprintf(fans, "OOB-DEREF %ld dereferences outside the storage\n", fancy::g_oob_deref); fancy::g_oob_deref = 0; }
		fancy::xptr_bounds(g_lo, g_hi);
#endif
		std::fprintf(fprog, "prog %ld %llu\n", p, static_cast<unsigned long long>(seed)); std::fprintf(fans, "prog %ld %llu\n", p, static_cast<unsigned long long>(seed));
		std::string rl = "root 0 " + std::to_string(base) + " " + std::to_string(D);
		for(auto const& e : ex) rl += " " + std::to_string(e.first) + " " + std::to_string(e.last);
		std::fprintf(fprog, "%s\n", rl.c_str());
		AnyView cur = make_root_any(ex, make_ptr(base));
		if(rng.coin(50)) emit_queries(cur, 0, rng, false);
		int nops = perm ? static_cast<int>(rng.range(2, 6)) : static_cast<int>(rng.range(0, 7));
		int src = 0;
		for(int k = 0; k < nops; ++k) {
			Op op;
			bool ok = true;
			if(perm) { op = Op{}; op.name = (char const*[]){"rotated", "unrotated", "transposed"}[rng.pick({35, 30, 35})]; }
			else ok = std::visit([&](auto const& s) { return gen_op(s, rng, rebased, op); }, cur);
			if(!ok) break;
			std::fprintf(fprog, "%s\n", op_line(1, src, op).c_str());
			bool cq = rng.coin(50);
			cur = std::visit([&](auto const& s) { return apply_op(s, op, cq); }, cur);
			src = 1;
			if(rng.coin(25)) emit_queries(cur, 1, rng, false);
		}
		emit_queries(cur, src, rng, rng.coin(50));
		if(g_death) {
			auto cex = std::visit([](auto const& s) { return exts_of(mk(s)); }, cur);
			auto cst = std::visit([](auto const& s) { return strides_of(mk(s)); }, cur);
			if(!cex.empty() && cst[0] != 0) {
				// indexing outside the extension must be stopped by an assertion
				long k = rng.range(0, 2);
				long i = rng.coin(50) ? cex[0].first - 1 - k : cex[0].last + k;
				int iv = static_cast<int>(rng.range(0, 2));
				std::fprintf(fprog, "q death_index %d %ld %d\n", src, i, iv);
				std::visit([&](auto const& s) { q_death_index(s, i, iv); }, cur);
				// inside the extension: silent
				if(cex[0].size() > 0) {
					long j = rng.range(cex[0].first, cex[0].last - 1);
					int jv = static_cast<int>(rng.range(0, 2));
					std::fprintf(fprog, "q death_index %d %ld %d\n", src, j, jv);
					std::visit([&](auto const& s) { q_death_index(s, j, jv); }, cur);
				}
			}
			if(!cex.empty() && cex.size() <= 4) {
				// a second array with extents derived from the current view's: equal, one size changed, or two sizes swapped
				std::vector<Ex> ex2 = cex; long ne2 = 1;
				int kind = rng.pick({25, 45, 30});
				if(kind == 1) { auto d = static_cast<std::size_t>(rng.range(0, static_cast<long>(ex2.size()) - 1)); long sz = ex2[d].size() + (rng.coin(50) && ex2[d].size() > 0 ? -1 : 1); ex2[d].last = ex2[d].first + sz; }
				if(kind == 2 && ex2.size() >= 2) { auto d = static_cast<std::size_t>(rng.range(0, static_cast<long>(ex2.size()) - 2)); long s0 = ex2[d].size(), s1 = ex2[d + 1].size(); ex2[d].last = ex2[d].first + s1; ex2[d + 1].last = ex2[d + 1].first + s0; }
				for(auto const& e : ex2) ne2 *= e.size();
				if(ne2 <= 400) {
					long base2 = 1024;
					std::string rl = "root 2 " + std::to_string(base2) + " " + std::to_string(ex2.size());
					for(auto const& e : ex2) rl += " " + std::to_string(e.first) + " " + std::to_string(e.last);
					std::fprintf(fprog, "%s\n", rl.c_str());
					AnyView second = make_root_any(ex2, make_ptr(base2));
					int variant = static_cast<int>(rng.range(0, 2));
					std::fprintf(fprog, "q death_assign %d 2 %d\n", src, variant);
					std::visit([&](auto const& s) { q_death_assign(s, second, variant); }, cur);
				}
			}
		}
		// broadcast: the broadcasted view designates the source at every index of the new leading dimension
		if(g_q_shape && rng.coin(20)) {
			long i = rng.range(-5, 5);
			std::fprintf(fprog, "q bcast %d %ld %ld\n", src, rng.range(0, 9), i);
			bool same = std::visit([&](auto const& s) {
				using S = std::decay_t<decltype(s)>;
				if constexpr(std::is_same_v<S, VS<0>> || std::is_same_v<S, VS<6>>) { return true; }
				else { auto&& v = mk(s); auto&& b = v.broadcasted(); auto&& bi = b[i]; return addr_of(bi.base()) == addr_of(v.base()) && bi.layout() == v.layout(); }
			}, cur);
			std::fprintf(fans, "bcast %d\n", same ? 1 : 0);
		}
	}
}

// exhaustive small scope: every root shape with D <= 3 and sizes 0..3 (bases 0, or -1/2 when rebased), every sequence of
// in-domain operations of length <= depth (depth 2), all queries after the last operation; shapes are split among workers
static void run_exhaustive(std::uint64_t seed, long depth, bool rebased) {
	long nworkers = 16; if(char const* e = std::getenv("VERIF_WORKERS")) nworkers = std::atol(e);
	long worker = static_cast<long>(seed % 1000) % nworkers;
	Rng rng(seed);
	std::vector<std::vector<Ex>> shapes;
	for(int D = 1; D <= 3; ++D) {
		long total = 1; for(int k = 0; k < D; ++k) total *= 4;
		for(long code = 0; code < total; ++code) {
			std::vector<Ex> ex; long c = code;
			for(int k = 0; k < D; ++k) { long sz = c % 4; c /= 4; long f = rebased ? ((k % 2 == 0) ? -1 : 2) : 0; ex.push_back(Ex{f, f + sz}); }
			shapes.push_back(ex);
		}
	}
	long p = 0;
	for(std::size_t si = 0; si < shapes.size(); ++si) {
		if(static_cast<long>(si) % nworkers != worker) continue;
		auto const& ex = shapes[si];
		long ne = 1; for(auto const& e : ex) ne *= e.size();
		long base = 64;
		std::string rl = "root 0 " + std::to_string(base) + " " + std::to_string(ex.size());
		for(auto const& e : ex) rl += " " + std::to_string(e.first) + " " + std::to_string(e.last);
		AnyView root = make_root_any(ex, make_ptr(base));
		std::vector<Op> ops1; std::visit([&](auto const& s) { enumerate_ops(s, rebased, ops1); }, root);
		auto emit_prog = [&](std::vector<Op> const& seq) {
			g_lo = base; g_hi = base + ne;
#if PTR_KIND == 2
			fancy::xptr_bounds(g_lo, g_hi);
#endif
			std::fprintf(fprog, "prog %ld %llu\n", p, static_cast<unsigned long long>(seed)); std::fprintf(fans, "prog %ld %llu\n", p, static_cast<unsigned long long>(seed)); ++p;
			std::fprintf(fprog, "%s\n", rl.c_str());
			AnyView cur = root; int src = 0;
			for(auto const& op : seq) { std::fprintf(fprog, "%s\n", op_line(1, src, op).c_str()); cur = std::visit([&](auto const& s) { return apply_op(s, op, false); }, cur); src = 1; }
			emit_queries(cur, src, rng, true);
		};
		emit_prog({});
		for(auto const& o1 : ops1) {
			emit_prog({o1});
			if(depth >= 2) {
				AnyView v1 = std::visit([&](auto const& s) { return apply_op(s, o1, false); }, root);
				std::vector<Op> ops2; std::visit([&](auto const& s) { enumerate_ops(s, rebased, ops2); }, v1);
				for(auto const& o2 : ops2) emit_prog({o1, o2});
			}
		}
	}
}

// replay: execute a program file (same syntax as generated) on the real library
static void run_replay(char const* path) {
	std::ifstream in(path);
	std::string line;
	std::vector<AnyView> regs(64);
	while(std::getline(in, line)) {
		std::fprintf(fprog, "%s\n", line.c_str());
		std::istringstream is(line); std::vector<std::string> w; std::string t; while(is >> t) w.push_back(t);
		if(w.empty() || w[0] == "#") continue;
		if(w[0] == "prog") { std::fprintf(fans, "%s\n", line.c_str()); continue; }
		if(w[0] == "root") {
			int reg = std::stoi(w[1]); long base = std::stol(w[2]); int D = std::stoi(w[3]);
			std::vector<Ex> ex; long ne = 1;
			for(int k = 0; k < D; ++k) { ex.push_back(Ex{std::stol(w[4 + 2 * static_cast<std::size_t>(k)]), std::stol(w[5 + 2 * static_cast<std::size_t>(k)])}); ne *= ex.back().size(); }
			g_lo = base; g_hi = base + ne;
			regs[static_cast<std::size_t>(reg)] = make_root_any(ex, make_ptr(base));
		} else if(w[0] == "v") {
			int dst = std::stoi(w[1]); int src = std::stoi(w[2]);
			Op op; op.name = w[3];
			for(std::size_t k = 4; k < w.size(); ++k) {
				if(op.name == "call") {
					if(w[k] == "a") op.call.push_back(CallArg{2, 0, 0});
					else if(w[k][0] == 'l') op.call.push_back(CallArg{3, std::stol(w[k].substr(1)), 0});
					else if(w[k][0] == 'g') op.call.push_back(CallArg{4, std::stol(w[k].substr(1)), 0});
					else if(w[k][0] == 'i') op.call.push_back(CallArg{0, std::stol(w[k].substr(1)), 0});
					else { auto c = w[k].find(':'); op.call.push_back(CallArg{1, std::stol(w[k].substr(1, c - 1)), std::stol(w[k].substr(c + 1))}); }
				} else op.a.push_back(std::stol(w[k]));
			}
			regs[static_cast<std::size_t>(dst)] = std::visit([&](auto const& s) { return apply_op(s, op, false); }, regs[static_cast<std::size_t>(src)]);
		} else if(w[0] == "q") {
			auto const& av = regs[static_cast<std::size_t>(std::stoi(w[2]))];
			if(w[1] == "shape") std::visit([](auto const& s) { q_shape(s); }, av);
			else if(w[1] == "addrs") std::visit([](auto const& s) { q_addrs(s); }, av);
			else if(w[1] == "paths") std::visit([](auto const& s) { q_paths(s); }, av);
			else if(w[1] == "iter") std::visit([](auto const& s) { q_iter(s); }, av);
			else if(w[1] == "elems") std::visit([](auto const& s) { q_elems(s); }, av);
			else if(w[1] == "death_index") { long i = std::stol(w[3]); int iv = w.size() > 4 ? std::stoi(w[4]) : 0; std::visit([&](auto const& s) { q_death_index(s, i, iv); }, av); }
			else if(w[1] == "death_assign") { int variant = std::stoi(w[4]); auto const& bv = regs[static_cast<std::size_t>(std::stoi(w[3]))]; std::visit([&](auto const& s) { q_death_assign(s, bv, variant); }, av); }
			else if(w[1] == "bcast") {
				long i = std::stol(w[4]);
				bool same = std::visit([&](auto const& s) {
					using S = std::decay_t<decltype(s)>;
					if constexpr(std::is_same_v<S, VS<0>> || std::is_same_v<S, VS<6>>) { return true; }
					else { auto&& v = mk(s); auto&& b = v.broadcasted(); auto&& bi = b[i]; return addr_of(bi.base()) == addr_of(v.base()) && bi.layout() == v.layout(); }
				}, av);
				std::fprintf(fans, "bcast %d\n", same ? 1 : 0);
			}
		}
	}
}

int main(int argc, char** argv) {
	if(argc < 6) { std::fprintf(stderr, "usage: views <seed> <nprograms> <zero|rebased> <prog-out> <answers-out> [--replay file]\n"); return 2; }
	std::uint64_t seed = std::strtoull(argv[1], nullptr, 10);
	long nprog = std::strtol(argv[2], nullptr, 10);
	std::string mode = argv[3];
	bool rebased = mode == "rebased" || mode == "rebased-c02" || mode == "exhaustive-rebased";
	if(mode == "c01") { g_q_iter = false; }
	if(mode == "death") { g_death = true; g_q_iter = false; }
	if(mode == "c02" || mode == "rebased-c02") { g_q_shape = false; }
	fprog = std::fopen(argv[4], "w"); fans = std::fopen(argv[5], "w");
	if(!fprog || !fans) { std::perror("fopen"); return 2; }
	g_storage.assign(4096, 0);
	for(std::size_t i = 0; i < g_storage.size(); ++i) g_storage[i] = static_cast<T>(i);
	g_mem = g_storage.data();
#if PTR_KIND != 0
	fancy::g_origin = g_mem;
#endif
	if(argc >= 8 && std::string(argv[6]) == "--replay") run_replay(argv[7]);
	else if(mode == "exhaustive" || mode == "exhaustive-rebased") run_exhaustive(seed, 2, mode == "exhaustive-rebased");
	else run_generated(seed, nprog, rebased);
	std::fclose(fprog); std::fclose(fans);
	return g_internal ? 3 : 0;
}
