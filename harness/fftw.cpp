// fftw.cpp — correspondence harness for C15 (FFTW adaptor).
// Calls multi::fftw::dft / dft_forward / dft_backward / the in-place overload of the real headers on generated pairs of
// views of equal extents (any dimension subset, both signs; layouts by rotations / transpositions / padded strided
// sub-blocks; in-place and out-of-place).  `fftw_plan_guru64_dft` and `fftw_execute_dft` are interposed: their arguments
// are printed (pointers as element offsets from the buffer start) and compared with what MultiModel/Fftw.lean builds;
// the calls are forwarded to the real FFTW and the result is compared with an O(N^2) reference DFT within a scaled
// tolerance; every cell of the buffer outside the output view (guards, the distinct input) must be bit-identical.
//
// usage: fftw <seed> <nprograms> <mode> <prog-out> <answers-out> [--replay <prog-file>]     link: -lfftw3 -ldl
#ifndef _GNU_SOURCE
#define _GNU_SOURCE
#endif
#include <dlfcn.h>

#include <boost/multi/adaptors/fftw.hpp>
#include <boost/multi/array.hpp>

#include <algorithm>
#include <array>
#include <cmath>
#include <complex>
#include <cstdio>
#include <cstdlib>
#include <cstring>
#include <fstream>
#include <sstream>
#include <string>
#include <tuple>
#include <variant>
#include <vector>

#include "common/prng.hpp"

namespace multi = boost::multi;
using cplx = std::complex<double>;
using T = cplx;

constexpr int MAXD = 4;
constexpr std::size_t NBUF = 1 << 18;  // capacity in elements; only the first g_len (the two roots of the current program + guards) are filled and compared
static std::size_t g_len = 0;

static std::vector<cplx> g_buf;
static FILE* fprog = nullptr;
static FILE* fans = nullptr;
static int g_internal = 0;
static void internal(char const* what) { ++g_internal; std::fprintf(fans, "INTERNAL %s\n", what); }
static long off_of(void const* p) { return static_cast<long>(static_cast<cplx const*>(p) - g_buf.data()); }

// ------------------------------------------------------------------------------------------------ interposition
struct Captured {
	bool planned = false, executed = false;
	int rank = 0, hrank = 0, sign = 0; unsigned flags = 0;
	std::vector<std::array<long, 3>> dims, hdims;
	long in = 0, out = 0, xin = 0, xout = 0;
	int nplans = 0, nexec = 0;
};
static Captured g_cap;

extern "C" fftw_plan fftw_plan_guru64_dft(int rank, fftw_iodim64 const* dims, int howmany_rank, fftw_iodim64 const* howmany_dims, fftw_complex* in, fftw_complex* out, int sign, unsigned flags) {
	using fn_t = fftw_plan (*)(int, fftw_iodim64 const*, int, fftw_iodim64 const*, fftw_complex*, fftw_complex*, int, unsigned);
	static fn_t real = reinterpret_cast<fn_t>(dlsym(RTLD_NEXT, "fftw_plan_guru64_dft"));
	if(real == nullptr) { std::fprintf(stderr, "harness: cannot resolve the real fftw_plan_guru64_dft\n"); std::abort(); }
	g_cap.planned = true; ++g_cap.nplans;
	g_cap.rank = rank; g_cap.hrank = howmany_rank; g_cap.sign = sign; g_cap.flags = flags;
	g_cap.dims.clear(); g_cap.hdims.clear();
	for(int k = 0; k < rank; ++k) g_cap.dims.push_back({static_cast<long>(dims[k].n), static_cast<long>(dims[k].is), static_cast<long>(dims[k].os)});
	for(int k = 0; k < howmany_rank; ++k) g_cap.hdims.push_back({static_cast<long>(howmany_dims[k].n), static_cast<long>(howmany_dims[k].is), static_cast<long>(howmany_dims[k].os)});
	g_cap.in = off_of(in); g_cap.out = off_of(out);
	return real(rank, dims, howmany_rank, howmany_dims, in, out, sign, flags);
}

extern "C" void fftw_execute_dft(fftw_plan const p, fftw_complex* in, fftw_complex* out) {
	using fn_t = void (*)(fftw_plan const, fftw_complex*, fftw_complex*);
	static fn_t real = reinterpret_cast<fn_t>(dlsym(RTLD_NEXT, "fftw_execute_dft"));
	if(real == nullptr) { std::fprintf(stderr, "harness: cannot resolve the real fftw_execute_dft\n"); std::abort(); }
	g_cap.executed = true; ++g_cap.nexec;
	g_cap.xin = off_of(in); g_cap.xout = off_of(out);
	real(p, in, out);
}

// planner / executor entry points the adaptor is not modelled to use: reaching one is printed (a correspondence difference by
// itself; the numeric and frame verdicts decide whether it is a failing input)
static std::vector<std::string> g_unexpected;
#define UNEXPECTED(RET, NAME, PARAMS, ARGS) \
	extern "C" RET NAME PARAMS { \
		using fn_t = RET (*) PARAMS; \
		static fn_t real = reinterpret_cast<fn_t>(dlsym(RTLD_NEXT, #NAME)); \
		if(real == nullptr) { std::fprintf(stderr, "harness: cannot resolve the real " #NAME "\n"); std::abort(); } \
		g_unexpected.push_back(#NAME); \
		return real ARGS; \
	}
UNEXPECTED(fftw_plan, fftw_plan_dft, (int rank, int const* n, fftw_complex* in, fftw_complex* out, int sign, unsigned flags), (rank, n, in, out, sign, flags))
UNEXPECTED(fftw_plan, fftw_plan_dft_1d, (int n, fftw_complex* in, fftw_complex* out, int sign, unsigned flags), (n, in, out, sign, flags))
UNEXPECTED(fftw_plan, fftw_plan_dft_2d, (int n0, int n1, fftw_complex* in, fftw_complex* out, int sign, unsigned flags), (n0, n1, in, out, sign, flags))
UNEXPECTED(fftw_plan, fftw_plan_dft_3d, (int n0, int n1, int n2, fftw_complex* in, fftw_complex* out, int sign, unsigned flags), (n0, n1, n2, in, out, sign, flags))
UNEXPECTED(fftw_plan, fftw_plan_many_dft, (int rank, int const* n, int howmany, fftw_complex* in, int const* inembed, int istride, int idist, fftw_complex* out, int const* onembed, int ostride, int odist, int sign, unsigned flags), (rank, n, howmany, in, inembed, istride, idist, out, onembed, ostride, odist, sign, flags))
UNEXPECTED(fftw_plan, fftw_plan_guru_dft, (int rank, fftw_iodim const* dims, int howmany_rank, fftw_iodim const* howmany_dims, fftw_complex* in, fftw_complex* out, int sign, unsigned flags), (rank, dims, howmany_rank, howmany_dims, in, out, sign, flags))
UNEXPECTED(void, fftw_execute, (fftw_plan const p), (p))

// canonical text of a group of iodims: the transform does not depend on the order in which the dimensions of a group are
// listed nor on the strides of a dimension of size 1, so triples are sorted and such strides are printed as `_`
static std::string plan_str_();
static std::string group_str(std::vector<std::array<long, 3>> g) {
	std::vector<std::string> t;
	std::sort(g.begin(), g.end());
	std::string s;
	for(auto const& d : g) {
		s += ' ';
		s += std::to_string(d[0]) + "," + (d[0] == 1 ? std::string("_") : std::to_string(d[1])) + "," + (d[0] == 1 ? std::string("_") : std::to_string(d[2]));
	}
	return s;
}
static std::string plan_str() {
	std::string pre; for(auto const& u : g_unexpected) pre += "unexpected " + u + "\n";
	g_unexpected.clear();
	if(!pre.empty()) return pre + plan_str_();
	return plan_str_();
}
static std::string plan_str_() {
	if(!g_cap.planned || !g_cap.executed || g_cap.nplans != 1 || g_cap.nexec != 1) return "plan NONE plans=" + std::to_string(g_cap.nplans) + " execs=" + std::to_string(g_cap.nexec);
	return "plan " + std::to_string(g_cap.rank) + " :" + group_str(g_cap.dims) + " | " + std::to_string(g_cap.hrank) + " :" + group_str(g_cap.hdims) +
	       " | in " + std::to_string(g_cap.in) + " out " + std::to_string(g_cap.out) + " | sign " + std::to_string(g_cap.sign) + " flags " + std::to_string(g_cap.flags) +
	       " | exec in " + std::to_string(g_cap.xin) + " out " + std::to_string(g_cap.xout);
}

// ------------------------------------------------------------------------------------------------ runtime views
template<multi::dimensionality_type D> struct VS { multi::layout_t<D> lay; T* base; };
using AnyView = std::variant<VS<1>, VS<2>, VS<3>, VS<4>>;
template<multi::dimensionality_type D> auto mk(VS<D> const& s) { return multi::subarray<T, D>(s.lay, s.base); }
template<class V> AnyView store(V&& v) {
	constexpr auto D = std::decay_t<V>::rank_v;
	if constexpr(D >= 1 && D <= MAXD) { return AnyView{VS<D>{v.layout(), const_cast<T*>(static_cast<T const*>(v.base()))}}; } else { std::abort(); }
}
struct Ex { long first, last; long size() const { return last - first; } };
struct Op { std::string name; std::vector<long> a; };

template<multi::dimensionality_type D> AnyView apply_op(VS<D> const& s, Op const& op) {
	auto&& mv = mk(s);
	auto const& n = op.name; auto const& a = op.a;
	if(n == "sliced") return store(mv.sliced(a[0], a[1]));
	if(n == "strided") return store(mv.strided(a[0]));
	if(n == "rotated") return store(mv.rotated());
	if(n == "unrotated") return store(mv.unrotated());
	if(n == "reversed") return store(mv.reversed());
	if constexpr(D >= 2) { if(n == "transposed") return store(mv.transposed()); }
	std::fprintf(stderr, "harness: op %s not applicable to D=%d\n", n.c_str(), static_cast<int>(D));
	std::abort();
}
static std::string op_line(int dst, int src, Op const& op) {
	std::string s = "v " + std::to_string(dst) + " " + std::to_string(src) + " " + op.name;
	for(long x : op.a) { s += ' '; s += std::to_string(x); }
	return s;
}
template<multi::dimensionality_type D> AnyView make_root(std::vector<Ex> const& ex, T* base) {
	auto xs = std::apply([](auto... e) { return multi::extensions_t<D>{e...}; }, [&] {
		std::array<multi::iextension, static_cast<std::size_t>(D)> arr;
		for(std::size_t k = 0; k < static_cast<std::size_t>(D); ++k) arr[k] = multi::iextension{ex[k].first, ex[k].last};
		return arr; }());
	multi::array_ref<T, D> ref(base, xs);
	return store(ref());
}
static AnyView make_root_any(std::vector<Ex> const& ex, T* base) {
	switch(ex.size()) {
		case 1: return make_root<1>(ex, base);
		case 2: return make_root<2>(ex, base);
		case 3: return make_root<3>(ex, base);
		case 4: return make_root<4>(ex, base);
		default: std::abort();
	}
}

// element addresses (offsets) of a view in canonical order
template<class V> void walk_addr(V&& v, std::vector<long>& out) {
	constexpr auto R = std::decay_t<V>::rank_v;
	auto ext = v.extension();
	for(auto i = ext.first(); i < ext.last(); ++i) { if constexpr(R == 1) { out.push_back(off_of(&v[i])); } else { walk_addr(v[i], out); } }
}
template<multi::dimensionality_type D> std::vector<long> sizes_of(VS<D> const& s) {
	std::vector<long> r; std::apply([&](auto... z) { (r.push_back(static_cast<long>(z)), ...); }, mk(s).sizes()); return r;
}

static void fill_buffer() {
	for(std::size_t p = 0; p < g_len; ++p) g_buf[p] = cplx{static_cast<double>(static_cast<long>((p * 7919U) % 17U) - 8), static_cast<double>(static_cast<long>((p * 104729U) % 13U) - 6)};
}

// reference: direct evaluation of the unnormalised DFT along the masked dimensions; `ain`/`aout` are the canonical-order
// element offsets of the two views, `sz` their common sizes
static void reference_dft(std::vector<cplx> const& before, std::vector<long> const& ain, std::vector<long> const& sz, std::vector<bool> const& mask, int sign, std::vector<cplx>& ref, double& scale) {
	std::size_t D = sz.size(); std::size_t N = ain.size();
	std::vector<long> mul(D, 1); for(std::size_t k = D; k-- > 1;) mul[k - 1] = mul[k] * sz[k];
	ref.assign(N, cplx{});
	double const pi = std::acos(-1.0);
	double mx = 0; long npts = 1; for(std::size_t k = 0; k < D; ++k) if(mask[k]) npts *= sz[k];
	std::vector<long> j(D), n(D);
	for(std::size_t o = 0; o < N; ++o) {
		std::size_t r = o; for(std::size_t k = 0; k < D; ++k) { j[k] = static_cast<long>(r) / mul[k]; r %= static_cast<std::size_t>(mul[k]); }
		cplx acc{};
		for(std::size_t i = 0; i < N; ++i) {
			std::size_t q = i; bool same_batch = true; double phase = 0;
			for(std::size_t k = 0; k < D; ++k) { n[k] = static_cast<long>(q) / mul[k]; q %= static_cast<std::size_t>(mul[k]);
				if(mask[k]) { phase += static_cast<double>((j[k] * n[k]) % sz[k]) / static_cast<double>(sz[k]); } else if(n[k] != j[k]) { same_batch = false; break; } }
			if(!same_batch) continue;
			cplx x = before[static_cast<std::size_t>(ain[i])];
			acc += x * std::polar(1.0, sign * 2.0 * pi * phase);
			mx = std::max(mx, std::abs(x));
		}
		ref[o] = acc;
	}
	scale = static_cast<double>(npts) * std::max(mx, 1.0);
}

// x dft <mask> <sign> <inreg> <outreg> <api>
template<multi::dimensionality_type D> void do_dft(VS<D> const& sin, VS<D> const& sout, std::vector<bool> const& mask, int sign, int api, bool inplace) {
	std::array<bool, static_cast<std::size_t>(D)> which{};
	for(std::size_t k = 0; k < static_cast<std::size_t>(D); ++k) which[k] = mask[k];
	auto&& vin = mk(sin); auto&& vout = mk(sout);
	std::vector<long> ain, aout; walk_addr(vin, ain); walk_addr(vout, aout);
	auto sz = sizes_of(sin);
	fill_buffer();
	std::vector<cplx> before(g_buf.begin(), g_buf.begin() + static_cast<long>(g_len));
	g_cap = Captured{};
	switch(api) {
		case 0: multi::fftw::dft(which, vin, vout, sign == -1 ? multi::fftw::forward : multi::fftw::backward); break;
		case 1: if(sign == -1) multi::fftw::dft_forward(which, vin, vout); else multi::fftw::dft_backward(which, vin, vout); break;
		default: multi::fftw::dft(which, vout, sign == -1 ? multi::fftw::forward : multi::fftw::backward); break;  // in-place overload
	}
	std::fprintf(fans, "%s\n", plan_str().c_str());
	// numerics
	std::vector<cplx> ref; double scale = 1;
	reference_dft(before, ain, sz, mask, sign, ref, scale);
	double maxerr = 0;
	for(std::size_t o = 0; o < aout.size(); ++o) maxerr = std::max(maxerr, std::abs(g_buf[static_cast<std::size_t>(aout[o])] - ref[o]));
	bool num_ok = maxerr <= 64.0 * 2.2e-16 * scale * (1.0 + std::log2(static_cast<double>(std::max<std::size_t>(aout.size(), 2))));
	// frame: everything outside the output view is bit-identical
	std::vector<char> is_out(g_len, 0); for(long a : aout) is_out[static_cast<std::size_t>(a)] = 1;
	long changed = 0;
	for(std::size_t p = 0; p < g_len; ++p) { if(!is_out[p] && std::memcmp(&g_buf[p], &before[p], sizeof(cplx)) != 0) ++changed; }
	if(!num_ok) std::fprintf(stderr, "harness: num FAIL maxerr=%g scale=%g\n", maxerr, scale);
	std::fprintf(fans, "num %s | frame %s\n", num_ok ? "ok" : "FAIL", changed == 0 ? "ok" : "FAIL");
	(void)inplace;
}

// x rt <mask> <sign> <inreg> <outreg>: forward in -> out, then backward out -> in; in must be N times its old value
template<multi::dimensionality_type D> void do_rt(VS<D> const& sin, VS<D> const& sout, std::vector<bool> const& mask, int sign) {
	std::array<bool, static_cast<std::size_t>(D)> which{};
	for(std::size_t k = 0; k < static_cast<std::size_t>(D); ++k) which[k] = mask[k];
	auto&& vin = mk(sin); auto&& vout = mk(sout);
	std::vector<long> ain, aout; walk_addr(vin, ain); walk_addr(vout, aout);
	auto sz = sizes_of(sin);
	long npts = 1; for(std::size_t k = 0; k < sz.size(); ++k) if(mask[k]) npts *= sz[k];
	fill_buffer();
	std::vector<cplx> before(g_buf.begin(), g_buf.begin() + static_cast<long>(g_len));
	g_cap = Captured{};
	multi::fftw::dft(which, vin, vout, sign == -1 ? multi::fftw::forward : multi::fftw::backward);
	std::fprintf(fans, "%s\n", plan_str().c_str());
	g_cap = Captured{};
	multi::fftw::dft(which, vout, vin, sign == -1 ? multi::fftw::backward : multi::fftw::forward);
	std::fprintf(fans, "%s\n", plan_str().c_str());
	double maxerr = 0, mx = 1;
	for(long a : ain) { maxerr = std::max(maxerr, std::abs(g_buf[static_cast<std::size_t>(a)] - static_cast<double>(npts) * before[static_cast<std::size_t>(a)])); mx = std::max(mx, std::abs(before[static_cast<std::size_t>(a)])); }
	bool ok = maxerr <= 256.0 * 2.2e-16 * static_cast<double>(npts) * mx * (1.0 + std::log2(static_cast<double>(std::max<std::size_t>(ain.size(), 2))));
	std::vector<char> touched(g_len, 0); for(long a : aout) touched[static_cast<std::size_t>(a)] = 1; for(long a : ain) touched[static_cast<std::size_t>(a)] = 1;
	long changed = 0;
	for(std::size_t p = 0; p < g_len; ++p) { if(!touched[p] && std::memcmp(&g_buf[p], &before[p], sizeof(cplx)) != 0) ++changed; }
	if(!ok) std::fprintf(stderr, "harness: rt FAIL maxerr=%g\n", maxerr);
	std::fprintf(fans, "rt %s | frame %s\n", ok ? "ok" : "FAIL", changed == 0 ? "ok" : "FAIL");
}

static std::vector<std::string> words(std::string const& line) { std::istringstream is(line); std::vector<std::string> w; std::string t; while(is >> t) w.push_back(t); return w; }

static void do_query(std::vector<AnyView> const& regs, std::vector<std::string> const& w) {
	std::vector<bool> mask; for(char c : w[2]) mask.push_back(c == '1');
	int sign = std::stoi(w[3]);
	auto const& ain = regs[static_cast<std::size_t>(std::stoi(w[4]))];
	auto const& aout = regs[static_cast<std::size_t>(std::stoi(w[5]))];
	std::visit([&](auto const& si) {
		using S = std::decay_t<decltype(si)>;
		auto const* so = std::get_if<S>(&aout);
		if(so == nullptr) { std::fprintf(stderr, "harness: rank mismatch\n"); std::abort(); }
		if(w[1] == "dft") { int api = std::stoi(w[6]); do_dft(si, *so, mask, sign, api, api == 2); }
		else { do_rt(si, *so, mask, sign); }
	}, ain);
}

// ------------------------------------------------------------------------------------------------ generation
// a view of extents `E` carved out of a fresh root at `base`: random dimension order, padding, strides
static AnyView gen_view(Rng& rng, std::vector<long> const& E, long base, int rootreg, int reg, long& used) {
	std::size_t D = E.size();
	// permutation ops applied first; sigma[p] = root dimension found at view position p after them
	std::vector<Op> perm; std::vector<std::size_t> sigma(D); for(std::size_t k = 0; k < D; ++k) sigma[k] = k;
	int nperm = static_cast<int>(rng.range(0, 3));
	for(int t = 0; t < nperm; ++t) {
		int c = rng.pick({30, 25, 30, 15});
		if(c == 0) { perm.push_back(Op{"rotated", {}}); std::rotate(sigma.begin(), sigma.begin() + (D > 1 ? 1 : 0), sigma.end()); }
		else if(c == 1) { perm.push_back(Op{"unrotated", {}}); if(D > 1) std::rotate(sigma.begin(), sigma.end() - 1, sigma.end()); }
		else if(c == 2) { if(D >= 2) { perm.push_back(Op{"transposed", {}}); std::swap(sigma[0], sigma[1]); } }
		else { perm.push_back(Op{"reversed", {}}); std::reverse(sigma.begin(), sigma.end()); }
	}
	// per view position: step, leading pad, trailing pad
	std::vector<long> step(D), lo(D), hi(D), rootsz(D);
	for(std::size_t p = 0; p < D; ++p) {
		step[p] = (long[]){1, 1, 2, 3}[rng.pick({50, 20, 20, 10})];
		lo[p] = rng.coin(40) ? rng.range(1, 2) : 0; hi[p] = rng.coin(40) ? rng.range(1, 2) : 0;
		rootsz[sigma[p]] = lo[p] + E[p] * step[p] + hi[p];
	}
	long ne = 1; for(long z : rootsz) ne *= z;
	used = ne;
	std::vector<Ex> ex; for(long z : rootsz) ex.push_back(Ex{0, z});
	std::string rl = "root " + std::to_string(rootreg) + " " + std::to_string(base) + " " + std::to_string(D);
	for(auto const& e : ex) rl += " " + std::to_string(e.first) + " " + std::to_string(e.last);
	std::fprintf(fprog, "%s\n", rl.c_str());
	AnyView cur = make_root_any(ex, g_buf.data() + base);
	int src = rootreg;
	auto emit = [&](Op const& op) {
		std::fprintf(fprog, "%s\n", op_line(reg, src, op).c_str());
		cur = std::visit([&](auto const& s) { return apply_op(s, op); }, cur);
		src = reg;
	};
	for(auto const& op : perm) emit(op);
	for(std::size_t p = 0; p < D; ++p) {
		if(lo[p] != 0 || hi[p] != 0 || rng.coin(20)) emit(Op{"sliced", {lo[p], lo[p] + E[p] * step[p]}});
		if(step[p] != 1 || rng.coin(20)) emit(Op{"strided", {step[p]}});
		if(D > 1 || rng.coin(10)) emit(Op{"rotated", {}});
	}
	if(src == rootreg) emit(Op{"rotated", {}}), emit(Op{"unrotated", {}});
	return cur;
}

static void gen_program(Rng& rng, long p, std::uint64_t seed, std::vector<AnyView>& regs) {
	std::fprintf(fprog, "prog %ld %llu\n", p, static_cast<unsigned long long>(seed)); std::fprintf(fans, "prog %ld %llu\n", p, static_cast<unsigned long long>(seed));
	std::size_t D = static_cast<std::size_t>(1 + rng.pick({20, 35, 30, 15}));
	std::vector<long> E; long ne = 1;
	// in about 4% of the programs one dimension has a size around a power of two up to 129 (size-dependent shortcuts), the others stay tiny
	bool large = rng.coin(4);
	if(large) {
		D = static_cast<std::size_t>(1 + rng.pick({30, 45, 25}));
		std::size_t big = static_cast<std::size_t>(rng.range(0, static_cast<long>(D) - 1));
		for(std::size_t k = 0; k < D; ++k) {
			long sz = (k == big) ? (long[]){16, 17, 32, 33, 64, 65, 128, 129}[rng.pick({14, 14, 14, 12, 12, 10, 12, 12})] : rng.range(1, 3);
			ne *= sz; E.push_back(sz);
		}
	} else
	for(std::size_t k = 0; k < D; ++k) {
		long sz = (long[]){1, 2, 3, 4, 5, 6, 7, 8, 9}[rng.pick({16, 16, 16, 12, 12, 9, 8, 6, 5})];
		if(ne * sz > 360) sz = 1;
		ne *= sz; E.push_back(sz);
	}
	long base_in = 64 + rng.range(0, 7), used_in = 0, used_out = 0;
	regs[1] = gen_view(rng, E, base_in, 0, 1, used_in);
	long base_out = base_in + used_in + 16 + rng.range(0, 7);
	regs[3] = gen_view(rng, E, base_out, 2, 3, used_out);
	if(static_cast<std::size_t>(base_out + used_out + 64) > NBUF) { std::fprintf(stderr, "harness: buffer too small\n"); std::abort(); }
	g_len = static_cast<std::size_t>(base_out + used_out + 64);
	int nq = static_cast<int>(rng.range(1, 3));
	for(int q = 0; q < nq; ++q) {
		std::string mask; for(std::size_t k = 0; k < D; ++k) mask += rng.coin(55) ? '1' : '0';
		if(rng.coin(12)) mask = std::string(D, '1');
		if(rng.coin(4)) mask = std::string(D, '0');
		int sign = rng.coin(50) ? -1 : 1;
		int c = rng.pick({45, 20, 20, 15});
		std::string line;
		if(c == 0) line = "x dft " + mask + " " + std::to_string(sign) + " 1 3 0";
		else if(c == 1) line = "x dft " + mask + " " + std::to_string(sign) + " 1 3 1";
		else if(c == 2) { int r = rng.coin(50) ? 1 : 3; line = "x dft " + mask + " " + std::to_string(sign) + " " + std::to_string(r) + " " + std::to_string(r) + " 2"; }
		else line = "x rt " + mask + " " + std::to_string(sign) + " 1 3";
		std::fprintf(fprog, "%s\n", line.c_str());
		std::fflush(fprog); std::fflush(fans);
		do_query(regs, words(line));
	}
}

static void run_generated(std::uint64_t seed, long nprog) {
	Rng rng(seed);
	std::vector<AnyView> regs(64);
	for(long p = 0; p < nprog; ++p) gen_program(rng, p, seed, regs);
}

static void run_replay(char const* path) {
	std::ifstream in(path);
	std::string line;
	std::vector<AnyView> regs(64);
	while(std::getline(in, line)) {
		std::fprintf(fprog, "%s\n", line.c_str());
		auto w = words(line);
		if(w.empty() || w[0] == "#") continue;
		if(w[0] == "prog") { std::fprintf(fans, "%s\n", line.c_str()); g_len = 0; continue; }
		if(w[0] == "root") {
			int reg = std::stoi(w[1]); long base = std::stol(w[2]); int D = std::stoi(w[3]);
			std::vector<Ex> ex;
			for(int k = 0; k < D; ++k) ex.push_back(Ex{std::stol(w[4 + 2 * static_cast<std::size_t>(k)]), std::stol(w[5 + 2 * static_cast<std::size_t>(k)])});
			regs[static_cast<std::size_t>(reg)] = make_root_any(ex, g_buf.data() + base);
			long ne = 1; for(auto const& e : ex) ne *= e.size();
			g_len = std::max(g_len, static_cast<std::size_t>(base + ne + 64));
			if(g_len > NBUF) { std::fprintf(stderr, "harness: buffer too small\n"); std::abort(); }
		} else if(w[0] == "v") {
			int dst = std::stoi(w[1]); int src = std::stoi(w[2]);
			Op op; op.name = w[3];
			for(std::size_t k = 4; k < w.size(); ++k) op.a.push_back(std::stol(w[k]));
			regs[static_cast<std::size_t>(dst)] = std::visit([&](auto const& s) { return apply_op(s, op); }, regs[static_cast<std::size_t>(src)]);
		} else if(w[0] == "x") {
			std::fflush(fprog); std::fflush(fans);
			do_query(regs, w);
		}
	}
}

int main(int argc, char** argv) {
	if(argc < 6) { std::fprintf(stderr, "usage: fftw <seed> <nprograms> <mode> <prog-out> <answers-out> [--replay file]\n"); return 2; }
	std::uint64_t seed = std::strtoull(argv[1], nullptr, 10);
	long nprog = std::strtol(argv[2], nullptr, 10);
	fprog = std::fopen(argv[4], "w"); fans = std::fopen(argv[5], "w");
	if(!fprog || !fans) { std::perror("fopen"); return 2; }
	g_buf.assign(NBUF, cplx{});
	if(argc >= 8 && std::string(argv[6]) == "--replay") run_replay(argv[7]);
	else run_generated(seed, nprog);
	std::fclose(fprog); std::fclose(fans);
	return g_internal ? 3 : 0;
}
