// serial.cpp — correspondence harness for C17 (serialization).
// Drives the real `serialize` members of boost::multi (headers from /repo's working tree) with real Boost text, binary and
// XML archives, writes the protocol lines for the Lean driver `mmdrv_sermpi` and the answers observed.
//
//   x ser <ty> <D> <a: f l ...> <na> <a elems...> <b: f l ...> <nb> <b elems...>
//        save array a (extents as constructed, elements in storage order); load into an array constructed with b's extents
//        and elements.  Answer:  ser tok <payload tokens of the TEXT archive> | ext <f:l ...> | el <elements of the loaded
//        array> | rt <text><binary><xml> (1 = loaded array == a and equal extensions) | pri <state of every element
//        right before it was loaded into; only for the probe element type>
//   root/v lines as in views.cpp; then
//   x vsave <reg>                 answer: vsave tok <elements saved from the view> | ctok <same through the const view type> | rt <t><b><x>
//   x vload <reg> <n> <vals...>   answer: vload <cells of the whole buffer that changed: addr:val ...> | rt <t><b><x>
//
// The payload of a text archive is what remains after removing Boost's own tokens: the archive header
// (`22 serialization::archive <version>`) and, at the first occurrence of every class type, its two class-information
// tokens (tracking level, class version).  The removal is structural (by type), so any reordering done by the library shows.
//
// usage: serial <seed> <nprograms> <mode: zero|rebased> <prog-out> <answers-out> [--replay <prog-file>]
#include <boost/archive/binary_iarchive.hpp>
#include <boost/archive/binary_oarchive.hpp>
#include <boost/archive/text_iarchive.hpp>
#include <boost/archive/text_oarchive.hpp>
#include <boost/archive/xml_iarchive.hpp>
#include <boost/archive/xml_oarchive.hpp>
#include <boost/serialization/nvp.hpp>
#include <boost/serialization/string.hpp>

#define HARNESS_T int
#include "common/anyview.hpp"

#include <cmath>
#include <cstring>
#include <fstream>
#include <set>
#include <typeinfo>

namespace multi = boost::multi;
using av::AnyView; using av::Ex; using av::VS;

static FILE* fprog = nullptr;
static FILE* fans = nullptr;
static int g_internal = 0;
static void internal(std::string const& what) { ++g_internal; std::fprintf(fans, "INTERNAL %s\n", what.c_str()); }

// --- element types ------------------------------------------------------------------------------------------
static std::vector<long> g_priors;  // what Probe::serialize found in the object before loading into it
struct Probe {
	int v = 0;
	Probe() = default;
	explicit Probe(int x) : v(x) {}
	friend bool operator==(Probe const& a, Probe const& b) { return a.v == b.v; }
	friend bool operator!=(Probe const& a, Probe const& b) { return a.v != b.v; }
	template<class Ar> void serialize(Ar& ar, unsigned /*version*/) {
		if constexpr(Ar::is_loading::value) { g_priors.push_back(v); }
		ar & boost::serialization::make_nvp("v", v);
	}
};

// token stream of a text archive and the structural removal of Boost's own tokens
struct Toks {
	std::vector<std::string> t; std::size_t pos = 0; std::set<std::string> seen; std::vector<std::string> out; bool bad = false;
	std::string next() { if(pos >= t.size()) { bad = true; return "?"; } return t[pos++]; }
	void class_info(std::string const& key) { if(seen.insert(key).second) { auto a = next(); auto b = next(); if(a != "0" || b != "0") { bad = true; out.push_back("CLS?" + a + "," + b); } } }
	bool header() { if(t.size() < 3 || t[1] != "serialization::archive") { bad = true; return false; } pos = 3; return true; }
};

template<class E> struct ET;
template<> struct ET<int> {
	static constexpr char tag = 'i';
	static int gen(Rng& r) { return static_cast<int>(r.range(-99, 99)); }
	static std::string lit(int x) { return std::to_string(x); }
	static int parse(std::string const& s) { return std::stoi(s); }
	static void strip(Toks& k) { k.out.push_back(k.next()); }
};
template<> struct ET<double> {  // multiples of 1/8: exactly representable, printed exactly by every archive
	static constexpr char tag = 'd';
	static double gen(Rng& r) { return static_cast<double>(r.range(-400, 400)) / 8.0; }
	static std::string lit(double x) { return std::to_string(static_cast<long>(std::lround(x * 8.0))); }
	static double parse(std::string const& s) { return static_cast<double>(std::stol(s)) / 8.0; }
	static void strip(Toks& k) { auto s = k.next(); char* e = nullptr; double d = std::strtod(s.c_str(), &e); if(e == s.c_str() || *e != 0 || d * 8.0 != std::floor(d * 8.0)) { k.bad = true; k.out.push_back("DBL?" + s); } else { k.out.push_back(lit(d)); } }
};
template<> struct ET<std::string> {
	static constexpr char tag = 's';
	static std::string gen(Rng& r) { std::string s; long n = (long[]){0, 1, 2, 3, 5}[r.pick({25, 25, 20, 20, 10})]; for(long i = 0; i < n; ++i) s += "abcxyzABC019_-"[r.range(0, 13)]; return s; }
	static std::string lit(std::string const& x) { return "\"" + x; }
	static std::string parse(std::string const& s) { return s.substr(1); }
	static void strip(Toks& k) { auto n = k.next(); k.out.push_back(n); if(n != "0") { k.out.push_back("\"" + k.next()); } }
};
template<> struct ET<Probe> {
	static constexpr char tag = 'p';
	static Probe gen(Rng& r) { return Probe(static_cast<int>(r.range(1, 99))); }
	static std::string lit(Probe const& x) { return std::to_string(x.v); }
	static Probe parse(std::string const& s) { return Probe(std::stoi(s)); }
	static void strip(Toks& k) { k.class_info("Probe"); k.out.push_back(k.next()); }
};

template<multi::dimensionality_type D> multi::extensions_t<D> mk_exts(std::vector<Ex> const& ex) {
	if constexpr(D == 0) { return multi::extensions_t<0>{}; }
	else {
		return std::apply([](auto... e) { return multi::extensions_t<D>{e...}; }, [&] {
			std::array<multi::iextension, static_cast<std::size_t>(D)> arr;
			for(std::size_t k = 0; k < static_cast<std::size_t>(D); ++k) arr[k] = multi::iextension{ex[k].first, ex[k].last};
			return arr; }());
	}
}
static long prod(std::vector<Ex> const& ex) { long n = 1; for(auto const& e : ex) n *= e.size(); return n; }

template<class E, multi::dimensionality_type D> multi::array<E, D> mk_array(std::vector<Ex> const& ex, std::vector<E> const& el) {
	if constexpr(D == 0) { return multi::array<E, 0>(el.at(0)); }  // (the extensions constructor and the copy constructor of array<T, 0> do not compile with assertions enabled)
	else {
		multi::array<E, D> a(mk_exts<D>(ex));
		if(static_cast<long>(a.num_elements()) != static_cast<long>(el.size())) { std::fprintf(stderr, "harness: %ld elements for an array of %ld\n", static_cast<long>(el.size()), static_cast<long>(a.num_elements())); std::abort(); }
		for(std::size_t k = 0; k < el.size(); ++k) a.data_elements()[k] = el[k];
		return a;
	}
}

// nested arrays multi::array<int, DI> as elements; literal `[f;l;f;l|v;v;v]` (extents as constructed resp. as reported)
template<multi::dimensionality_type DI> struct ET<multi::array<int, DI>> {
	using A = multi::array<int, DI>;
	static constexpr char tag = DI == 1 ? 'n' : 'm';
	static A gen(Rng& r) {
		std::vector<Ex> ex; for(int k = 0; k < DI; ++k) { long sz = (long[]){0, 1, 2, 3}[r.pick({25, 25, 35, 15})]; long f = r.coin(70) ? 0 : r.range(-2, 2); ex.push_back(Ex{f, f + sz}); }
		std::vector<int> el; for(long k = 0; k < prod(ex); ++k) el.push_back(static_cast<int>(r.range(1, 99)));
		return mk_array<int, DI>(ex, el);
	}
	static std::string lit(A const& x) {
		std::string s = "["; bool first = true;
		for(auto const& e : av::exts_of(x)) { if(!first) s += ';'; first = false; s += std::to_string(e.first) + ";" + std::to_string(e.last); }
		s += '|';
		for(long k = 0; k < static_cast<long>(x.num_elements()); ++k) { if(k) s += ';'; s += std::to_string(x.data_elements()[k]); }
		return s + "]";
	}
	static A parse(std::string const& s) {
		auto bar = s.find('|');
		auto ints = [](std::string const& t) { std::vector<long> r; std::string cur; for(char c : t) { if(c == ';') { r.push_back(std::stol(cur)); cur.clear(); } else cur += c; } if(!cur.empty()) r.push_back(std::stol(cur)); return r; };
		auto xs = ints(s.substr(1, bar - 1)); auto vs = ints(s.substr(bar + 1, s.size() - bar - 2));
		std::vector<Ex> ex; for(std::size_t k = 0; k + 1 < xs.size(); k += 2) ex.push_back(Ex{xs[k], xs[k + 1]});
		std::vector<int> el; for(long v : vs) el.push_back(static_cast<int>(v));
		return mk_array<int, DI>(ex, el);
	}
	static void strip(Toks& k);
};

// removes Boost's tokens from the saved form of an array<E, D>; appends extension pairs and element tokens to k.out
template<class E, multi::dimensionality_type D> void strip_array(Toks& k) {
	k.class_info(std::string("array/") + typeid(multi::array<E, D>).name());
	long n = 1;
	if constexpr(D > 0) {
		k.class_info("extensions_t/" + std::to_string(D));
		for(int d = 0; d < D; ++d) {
			k.class_info("range");
			auto f = k.next(); auto l = k.next();
			k.out.push_back(f); k.out.push_back(l);
			n *= std::atol(l.c_str()) - std::atol(f.c_str());
		}
	}
	for(long i = 0; i < n && !k.bad; ++i) ET<E>::strip(k);
}
template<multi::dimensionality_type DI> void ET<multi::array<int, DI>>::strip(Toks& k) { strip_array<int, DI>(k); }

static std::vector<std::string> split_ws(std::string const& s) { return av::words(s); }
static std::string join(std::vector<std::string> const& v) { std::string s; for(std::size_t i = 0; i < v.size(); ++i) { if(i) s += ' '; s += v[i]; } return s; }

// --- the three archive kinds ------------------------------------------------------------------------------------
enum Kind { TEXT = 0, BINARY = 1, XML = 2 };
template<class X> std::string save_as(Kind k, X const& x) {
	std::ostringstream os;
	switch(k) {
		case TEXT: { boost::archive::text_oarchive oa(os); oa << x; } break;
		case BINARY: { boost::archive::binary_oarchive oa(os); oa << x; } break;
		default: { boost::archive::xml_oarchive oa(os); oa << boost::serialization::make_nvp("a", x); } break;
	}
	return os.str();
}
template<class X> void load_as(Kind k, std::string const& bytes, X& x) {
	std::istringstream is(bytes);
	switch(k) {
		case TEXT: { boost::archive::text_iarchive ia(is); ia >> x; } break;
		case BINARY: { boost::archive::binary_iarchive ia(is); ia >> x; } break;
		default: { boost::archive::xml_iarchive ia(is); ia >> boost::serialization::make_nvp("a", x); } break;
	}
}
template<class A> bool same_array(A const& x, A const& y) {
	if constexpr(A::rank_v == 0) { return *x.data_elements() == *y.data_elements(); } else { return x == y; }
}

// --- x ser --------------------------------------------------------------------------------------------------------
template<class E, multi::dimensionality_type D>
void do_ser(std::vector<Ex> const& aex, std::vector<E> const& ael, std::vector<Ex> const& bex, std::vector<E> const& bel) {
	auto const a = mk_array<E, D>(aex, ael);
	auto const a_copy = mk_array<E, D>(aex, ael);
	std::string out = "ser tok";
	std::string saved[3];
	try {
		for(int k = 0; k < 3; ++k) saved[k] = save_as(static_cast<Kind>(k), a);
	} catch(std::exception const& e) { std::fprintf(fans, "ser EXC save %s\n", e.what()); return; }
	if(!same_array(a, a_copy)) internal("saving changed the array");
	{
		Toks k; k.t = split_ws(saved[TEXT]);
		if(k.header()) strip_array<E, D>(k);
		if(k.pos != k.t.size()) { k.bad = true; k.out.push_back("TRAILING" + std::to_string(k.t.size() - k.pos)); }
		if(k.bad) k.out.push_back("BAD");
		if(!k.out.empty()) out += " " + join(k.out);
	}
	out += " | ext";
	std::string rt;
	for(int k = 0; k < 3; ++k) {
		auto b = mk_array<E, D>(bex, bel);
		g_priors.clear();
		try { load_as(static_cast<Kind>(k), saved[k], b); } catch(std::exception const& e) { std::fprintf(fans, "ser EXC load %d %s\n", k, e.what()); return; }
		bool same = same_array(b, a) && (b.extensions() == a.extensions()) && av::exts_of(b).size() == av::exts_of(a).size();
		{ auto eb = av::exts_of(b), ea = av::exts_of(a); for(std::size_t j = 0; j < eb.size(); ++j) same = same && eb[j].first == ea[j].first && eb[j].last == ea[j].last; }
		rt += same ? '1' : '0';
		if(k == TEXT) {
			for(auto const& e : av::exts_of(b)) out += " " + std::to_string(e.first) + ":" + std::to_string(e.last);
			out += " | el";
			for(long j = 0; j < static_cast<long>(b.num_elements()); ++j) out += " " + ET<E>::lit(b.data_elements()[j]);
			std::string pri;
			if constexpr(std::is_same_v<E, Probe>) { for(long p : g_priors) pri += " " + std::to_string(p); } else { pri = " _"; }
			out += " | pri" + pri;
		}
	}
	out += " | rt " + rt;
	std::fprintf(fans, "%s\n", out.c_str());
}

template<class E> void ser_by_D(int D, std::vector<Ex> const& aex, std::vector<E> const& ael, std::vector<Ex> const& bex, std::vector<E> const& bel) {
	switch(D) {
		case 0: do_ser<E, 0>(aex, ael, bex, bel); break;
		case 1: do_ser<E, 1>(aex, ael, bex, bel); break;
		case 2: do_ser<E, 2>(aex, ael, bex, bel); break;
		case 3: do_ser<E, 3>(aex, ael, bex, bel); break;
		case 4: do_ser<E, 4>(aex, ael, bex, bel); break;
		default: std::abort();
	}
}

template<class E> void ser_line_exec(std::vector<std::string> const& w) {
	std::size_t p = 3; int D = std::stoi(w[p++]);
	auto read = [&](std::vector<Ex>& ex, std::vector<E>& el) {
		for(int k = 0; k < D; ++k) { long f = std::stol(w[p]); long l = std::stol(w[p + 1]); p += 2; ex.push_back(Ex{f, l}); }
		long n = std::stol(w[p++]);
		for(long k = 0; k < n; ++k) el.push_back(ET<E>::parse(w[p++]));
	};
	std::vector<Ex> aex, bex; std::vector<E> ael, bel;
	read(aex, ael); read(bex, bel);
	ser_by_D<E>(D, aex, ael, bex, bel);
}

static void exec_ser(std::vector<std::string> const& w) {
	switch(w[2][0]) {
		case 'i': ser_line_exec<int>(w); break;
		case 'd': ser_line_exec<double>(w); break;
		case 's': ser_line_exec<std::string>(w); break;
		case 'p': ser_line_exec<Probe>(w); break;
		case 'n': ser_line_exec<multi::array<int, 1>>(w); break;
		case 'm': ser_line_exec<multi::array<int, 2>>(w); break;
		default: std::fprintf(fans, "bad-op\n");
	}
}

// generation of one `x ser` line
template<class E> std::string gen_ser_line(Rng& rng, bool rebased) {
	int D = rng.pick({8, 22, 32, 24, 14});
	auto gen_ex = [&](long cap) {
		std::vector<Ex> ex; long ne = 1;
		for(int k = 0; k < D; ++k) {
			long sz = (long[]){0, 1, 2, 3, 4}[rng.pick({14, 18, 30, 24, 14})];
			if(rng.coin(3)) { sz = (long[]){16, 17, 33}[rng.range(0, 2)]; }  // now and then beyond the small sizes (cap still applies)
			if(ne * sz > cap) sz = 1;
			ne *= sz;
			long f = (rebased || rng.coin(15)) ? rng.range(-3, 3) : 0;
			ex.push_back(Ex{f, f + sz});
		}
		return ex;
	};
	auto aex = gen_ex(36);
	std::vector<Ex> bex;
	switch(rng.pick({18, 22, 14, 30, 16})) {
		case 0: for(int k = 0; k < D; ++k) bex.push_back(Ex{0, 0}); break;                                          // empty (default-constructed)
		case 1: bex = aex; break;                                                                                      // same extents
		case 2: bex = aex; for(auto& e : bex) { long s = rng.range(-2, 2); e.first += s; e.last += s; } break;          // same sizes, other index bases
		case 3: bex = gen_ex(36); break;                                                                               // unrelated
		default: bex = aex; if(D > 0) { auto& e = bex[static_cast<std::size_t>(rng.range(0, D - 1))]; if(rng.coin(50)) e.last = e.first; else e.last += 1; } break;  // one extent emptied / grown
	}
	std::string s = std::string("x ser ") + ET<E>::tag + " " + std::to_string(D);
	auto emit = [&](std::vector<Ex> const& ex) {
		for(auto const& e : ex) s += " " + std::to_string(e.first) + " " + std::to_string(e.last);
		long n = prod(ex); s += " " + std::to_string(n);
		for(long k = 0; k < n; ++k) s += " " + ET<E>::lit(ET<E>::gen(rng));
	};
	emit(aex); emit(bex);
	return s;
}

// --- views ------------------------------------------------------------------------------------------------------------
constexpr long MEMSZ = 1024;
static std::vector<int> g_storage;
static int* g_mem = nullptr;
static void reset_mem() { for(long i = 0; i < MEMSZ; ++i) g_mem[i] = static_cast<int>(i); }

template<multi::dimensionality_type D> std::string view_payload(std::string const& text, long n) {
	Toks k; k.t = split_ws(text);
	if(k.header()) { k.class_info("view"); for(long i = 0; i < n; ++i) k.out.push_back(k.next()); }
	if(k.pos != k.t.size()) { k.bad = true; k.out.push_back("TRAILING" + std::to_string(k.t.size() - k.pos)); }
	if(k.bad) k.out.push_back("BAD");
	return join(k.out);
}

template<multi::dimensionality_type D> void do_vsave(VS<D> const& s) {
	if constexpr(D == 0 || D > 4) { std::fprintf(fans, "vsave none\n"); }
	else {
		auto&& v = av::mk(s);
		long n = static_cast<long>(v.num_elements());
		std::string sv[3], rt;
		try {
			for(int k = 0; k < 3; ++k) sv[k] = save_as(static_cast<Kind>(k), v);
			std::string ctext;
			{ multi::const_subarray<int, D, int*> const& cv = v; ctext = save_as(TEXT, cv); }  // the type of a view of a const array; D = 1: the begin()/end() overload
			if constexpr(D == 1) { multi::const_subarray<int, 1, int const*> cv(s.lay, s.base); if(save_as(TEXT, cv) != ctext) internal("const_subarray<T,1,T const*> saves differently"); }
			// round trip of every archive kind into a compact array's view of equal extents
			for(int k = 0; k < 3; ++k) {
				multi::array<int, D> tmp(v.extensions(), -1);
				auto&& tv = tmp();
				load_as(static_cast<Kind>(k), sv[k], tv);
				bool same = tmp.num_elements() == v.num_elements() && std::equal(tmp.elements().begin(), tmp.elements().end(), v.elements().begin());
				rt += same ? '1' : '0';
			}
			auto sp = [](std::string const& t) { return t.empty() ? t : " " + t; };
			std::fprintf(fans, "vsave tok%s | ctok%s | rt %s\n", sp(view_payload<D>(sv[TEXT], n)).c_str(), sp(view_payload<D>(ctext, n)).c_str(), rt.c_str());
		} catch(std::exception const& e) { std::fprintf(fans, "vsave EXC %s\n", e.what()); }
	}
}

template<multi::dimensionality_type D> void do_vload(VS<D> const& s, std::vector<int> const& vals) {
	if constexpr(D == 0 || D > 4) { std::fprintf(fans, "vload none\n"); }
	else {
		auto&& v = av::mk(s);
		if(static_cast<long>(v.num_elements()) != static_cast<long>(vals.size())) { std::fprintf(fans, "vload bad-count\n"); return; }
		multi::array<int, D> src(v.extensions());
		for(std::size_t k = 0; k < vals.size(); ++k) src.data_elements()[k] = vals[k];
		std::string rt, cells;
		std::vector<int> after_text;
		try {
			for(int k = 0; k < 3; ++k) {
				auto bytes = save_as(static_cast<Kind>(k), src());
				reset_mem();
				load_as(static_cast<Kind>(k), bytes, v);
				std::vector<int> now(g_mem, g_mem + MEMSZ);
				if(k == TEXT) {
					after_text = now;
					for(long p = 0; p < MEMSZ; ++p) { if(g_mem[p] != static_cast<int>(p)) cells += " " + std::to_string(p) + ":" + std::to_string(g_mem[p]); }
				}
				rt += (now == after_text) ? '1' : '0';
			}
			reset_mem();
			std::fprintf(fans, "vload%s | rt %s\n", cells.c_str(), rt.c_str());
		} catch(std::exception const& e) { reset_mem(); std::fprintf(fans, "vload EXC %s\n", e.what()); }
	}
}

// --- programs -----------------------------------------------------------------------------------------------------------
static void run_generated(std::uint64_t seed, long nprog, bool rebased) {
	Rng rng(seed);
	for(long p = 0; p < nprog; ++p) {
		std::fprintf(fprog, "prog %ld %llu\n", p, static_cast<unsigned long long>(seed)); std::fprintf(fans, "prog %ld %llu\n", p, static_cast<unsigned long long>(seed));
		int nser = static_cast<int>(rng.range(1, 3));
		for(int k = 0; k < nser; ++k) {
			std::string line;
			switch(rng.pick({26, 14, 18, 18, 14, 10})) {
				case 0: line = gen_ser_line<int>(rng, rebased); break;
				case 1: line = gen_ser_line<double>(rng, rebased); break;
				case 2: line = gen_ser_line<std::string>(rng, rebased); break;
				case 3: line = gen_ser_line<Probe>(rng, rebased); break;
				case 4: line = gen_ser_line<multi::array<int, 1>>(rng, rebased); break;
				default: line = gen_ser_line<multi::array<int, 2>>(rng, rebased); break;
			}
			std::fprintf(fprog, "%s\n", line.c_str());
			exec_ser(av::words(line));
		}
		if(rng.coin(70)) {
			int reg = 0, nops = 0;
			long base = 64 + rng.range(0, 9);
			AnyView cur = av::gen_view(rng, rebased, g_mem, base, 120, 6, 0, fprog, reg, nops);
			if(rng.coin(85)) { std::fprintf(fprog, "x vsave %d\n", reg); std::visit([](auto const& s) { do_vsave(s); }, cur); }
			if(rng.coin(85)) {
				long n = std::visit([](auto const& s) -> long { using S = std::decay_t<decltype(s)>; if constexpr(std::is_same_v<S, VS<0>>) { return 1; } else { return static_cast<long>(av::mk(s).num_elements()); } }, cur);
				std::vector<int> vals; std::string line = "x vload " + std::to_string(reg) + " " + std::to_string(n);
				for(long k = 0; k < n; ++k) { vals.push_back(static_cast<int>(100000 + rng.range(0, 89999))); line += " " + std::to_string(vals.back()); }
				std::fprintf(fprog, "%s\n", line.c_str());
				std::visit([&](auto const& s) { do_vload(s, vals); }, cur);
			}
		}
	}
}

static void run_replay(char const* path) {
	std::ifstream in(path);
	std::string line;
	std::vector<AnyView> regs(64);
	while(std::getline(in, line)) {
		std::fprintf(fprog, "%s\n", line.c_str());
		auto w = av::words(line);
		if(w.empty() || w[0] == "#") continue;
		if(w[0] == "prog") { std::fprintf(fans, "%s\n", line.c_str()); continue; }
		if(w[0] == "root") { int reg = 0; auto v = av::parse_root(w, g_mem, reg); regs[static_cast<std::size_t>(reg)] = v; }
		else if(w[0] == "v") { int dst = 0, src = 0; auto op = av::parse_op(w, dst, src); regs[static_cast<std::size_t>(dst)] = std::visit([&](auto const& s) { return av::apply_op(s, op); }, regs[static_cast<std::size_t>(src)]); }
		else if(w[0] == "x" && w.size() >= 2) {
			if(w[1] == "ser") exec_ser(w);
			else if(w[1] == "vsave") std::visit([](auto const& s) { do_vsave(s); }, regs[static_cast<std::size_t>(std::stoi(w[2]))]);
			else if(w[1] == "vload") { std::vector<int> vals; for(std::size_t k = 4; k < w.size(); ++k) vals.push_back(std::stoi(w[k])); std::visit([&](auto const& s) { do_vload(s, vals); }, regs[static_cast<std::size_t>(std::stoi(w[2]))]); }
			else std::fprintf(fans, "bad-op\n");
		}
	}
}

int main(int argc, char** argv) {
	if(argc < 6) { std::fprintf(stderr, "usage: serial <seed> <nprograms> <zero|rebased> <prog-out> <answers-out> [--replay file]\n"); return 2; }
	std::uint64_t seed = std::strtoull(argv[1], nullptr, 10);
	long nprog = std::strtol(argv[2], nullptr, 10);
	bool rebased = std::string(argv[3]) == "rebased";
	fprog = std::fopen(argv[4], "w"); fans = std::fopen(argv[5], "w");
	if(!fprog || !fans) { std::perror("fopen"); return 2; }
	g_storage.assign(MEMSZ, 0); g_mem = g_storage.data(); reset_mem();
	if(argc >= 8 && std::string(argv[6]) == "--replay") run_replay(argv[7]);
	else run_generated(seed, nprog, rebased);
	std::fclose(fprog); std::fclose(fans);
	return g_internal ? 3 : 0;
}
