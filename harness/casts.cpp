// casts.cpp — correspondence harness for C12 (projection views).
// Drives member_cast, reinterpret_array_cast<U>() / <U>(n), static_array_cast, const_array_cast, as_const,
// element_transformed (value- and reference-returning functors), blas::real/imag and the converting array
// constructor of the real headers over generated views (transposed / strided / sliced / rotated sub-blocks, sizes
// 0 and 1 over-weighted) and prints, for every projected element, its byte offset from the buffer start and its
// value; the Lean driver `mmdrv_cast` prints the same from MultiModel/Cast.lean.
//
// usage: casts <seed> <nprograms> <mode: s4|cplx|int|mix> <prog-out> <answers-out> [--replay <prog-file>]
//
// memory contents (both sides): element kinds s4 (struct of 4 doubles) and cplx (std::complex<double>): the double
// at byte offset A holds A/8; kind int: the int at byte offset A holds A/4 - 150.
#include <boost/multi/array.hpp>
#include <boost/multi/adaptors/blas/numeric.hpp>

#include <algorithm>
#include <complex>
#include <cstdio>
#include <cstdlib>
#include <cstring>
#include <fstream>
#include <sstream>
#include <string>
#include <type_traits>
#include <utility>
#include <variant>
#include <vector>

#include "common/prng.hpp"

namespace multi = boost::multi;
using idx_t = multi::index;

struct S4 { double a, b, c, d; };
inline bool operator==(S4 const& x, S4 const& y) { return x.a == y.a && x.b == y.b && x.c == y.c && x.d == y.d; }
inline bool operator!=(S4 const& x, S4 const& y) { return !(x == y); }
struct S3 { double a, b, c; };  // 24 bytes: reinterpreting to/from std::complex<double> (16 bytes) is a NON-integral size ratio
inline bool operator==(S3 const& x, S3 const& y) { return x.a == y.a && x.b == y.b && x.c == y.c; }
inline bool operator!=(S3 const& x, S3 const& y) { return !(x == y); }
using cplx = std::complex<double>;
static_assert(sizeof(S3) == 24 && sizeof(S4) == 32 && sizeof(cplx) == 16 && sizeof(int) == 4 && sizeof(unsigned) == 4, "sizes assumed by the model");

constexpr int MAXD = 4;
constexpr std::size_t BUF_BYTES = 32 * 1024;

alignas(64) static char g_buf[BUF_BYTES];
static FILE* fprog = nullptr;
static FILE* fans = nullptr;
static int g_internal = 0;
static void internal(char const* what) { ++g_internal; std::fprintf(fans, "INTERNAL %s\n", what); }

template<class P> static long baddr(P const* p) { return static_cast<long>(reinterpret_cast<char const*>(p) - g_buf); }

static void fill_buffer(int kind) {  // 0 s4, 1 cplx, 2 int
	if(kind == 2) { auto* p = reinterpret_cast<int*>(g_buf); for(std::size_t i = 0; i < BUF_BYTES / 4; ++i) p[i] = static_cast<int>(i) - 150; }
	else { auto* p = reinterpret_cast<double*>(g_buf); for(std::size_t i = 0; i < BUF_BYTES / 8; ++i) p[i] = static_cast<double>(i); }
}

// value printing: integers only (all data are integer valued)
static std::string vs(double x) { return std::to_string(static_cast<long>(x)); }
static std::string vs(int x) { return std::to_string(x); }
static std::string vs(unsigned x) { return std::to_string(x); }
static std::string vs(long x) { return std::to_string(x); }
static std::string vs(cplx const& z) { return vs(z.real()) + "," + vs(z.imag()); }
static std::string vs(std::complex<long double> const& z) { return vs(static_cast<double>(z.real())) + "," + vs(static_cast<double>(z.imag())); }
static std::string vs(S3 const& s) { return vs(s.a) + "," + vs(s.b) + "," + vs(s.c); }
static std::string vs(S4 const& s) { return vs(s.a) + "," + vs(s.b) + "," + vs(s.c) + "," + vs(s.d); }

struct Ex { long first, last; long size() const { return last - first; } };

template<class V> std::vector<Ex> exts_of(V const& v) {
	std::vector<Ex> r;
	std::apply([&](auto const&... e) { (r.push_back(Ex{static_cast<long>(e.first()), static_cast<long>(e.last())}), ...); }, v.extensions().base());
	return r;
}
template<class V> std::vector<long> sizes_of(V const& v) {
	std::vector<long> r; std::apply([&](auto... s) { (r.push_back(static_cast<long>(s)), ...); }, v.sizes()); return r;
}
static std::string exts_str(std::vector<Ex> const& ex) {
	std::string e; for(std::size_t k = 0; k < ex.size(); ++k) { if(k) e += ' '; e += std::to_string(ex[k].first) + ":" + std::to_string(ex[k].last); } return e;
}
static std::string join(std::vector<std::string> const& v) { std::string s; for(std::size_t i = 0; i < v.size(); ++i) { if(i) s += ' '; s += v[i]; } return s; }
static std::string join(std::vector<long> const& v) { std::string s; for(std::size_t i = 0; i < v.size(); ++i) { if(i) s += ' '; s += std::to_string(v[i]); } return s; }

// canonical walk over the elements of any view-like object through chained brackets
template<class V, class F> void walk(V&& v, F&& f) {
	constexpr auto R = std::decay_t<V>::rank_v;
	auto ext = v.extension();
	for(auto i = ext.first(); i < ext.last(); ++i) {
		if constexpr(R == 1) { f(v[i]); } else { walk(v[i], f); }
	}
}

// one answer line for a projection whose elements are lvalues: extents, byte offsets, values
template<class V> std::string describe_ref(char const* tag, V&& pv) {
	std::vector<long> as; std::vector<std::string> vals;
	walk(pv, [&](auto&& e) { as.push_back(baddr(&e)); vals.push_back(vs(e)); });
	constexpr int R = static_cast<int>(std::decay_t<V>::rank_v);
	return std::string(tag) + " " + std::to_string(R) + " | " + exts_str(exts_of(pv)) + " | " + std::to_string(as.size()) + " : " + join(as) + " | " + join(vals);
}
// ... whose elements are values
template<class V> std::string describe_val(char const* tag, V&& pv) {
	std::vector<std::string> vals;
	walk(pv, [&](auto&& e) { vals.push_back(vs(e)); });
	constexpr int R = static_cast<int>(std::decay_t<V>::rank_v);
	return std::string(tag) + " " + std::to_string(R) + " | " + exts_str(exts_of(pv)) + " | " + std::to_string(vals.size()) + " : _ | " + join(vals);
}
// the array constructed from a projection: its extents and its elements, by index
template<class E, class V> std::string describe_ctor(V&& pv, char const* tag = "ctor") {
	constexpr auto R = std::decay_t<V>::rank_v;
	multi::array<E, R> arr(pv);
	multi::array<E, R> arr2 = multi::array<E, R>(std::forward<V>(pv));
	if(!(arr == arr2)) internal("ctor: two constructions differ");
	std::vector<std::string> vals;
	walk(arr, [&](auto&& e) { vals.push_back(vs(e)); });
	if(static_cast<long>(vals.size()) != static_cast<long>(arr.num_elements())) internal("ctor: num_elements");
	return std::string(tag) + " " + std::to_string(static_cast<int>(R)) + " | " + exts_str(exts_of(arr)) + " | " + std::to_string(vals.size()) + " : " + join(vals);
}

static void answer(std::string const& s) { std::fprintf(fans, "%s\n", s.c_str()); }
static void same_or_internal(std::string const& a, std::string const& b, char const* what) { if(a != b) internal(what); }

// ---------------------------------------------------------------------------------------------- runtime views
template<class T, multi::dimensionality_type D> struct VS { multi::layout_t<D> lay; T* base; };
template<class T> using AnyView = std::variant<VS<T, 1>, VS<T, 2>, VS<T, 3>, VS<T, 4>>;
template<class T, multi::dimensionality_type D> auto mk(VS<T, D> const& s) { return multi::subarray<T, D>(s.lay, s.base); }

template<class T, class V> AnyView<T> store(V&& v) {
	constexpr auto D = std::decay_t<V>::rank_v;
	if constexpr(D >= 1 && D <= MAXD) { return AnyView<T>{VS<T, D>{v.layout(), const_cast<T*>(static_cast<T const*>(v.base()))}}; }
	else { std::abort(); }
}

struct Op { std::string name; std::vector<long> a; };

template<class T, multi::dimensionality_type D> AnyView<T> apply_op(VS<T, D> const& s, Op const& op) {
	auto&& mv = mk(s);
	auto const& n = op.name; auto const& a = op.a;
	if(n == "sliced") return store<T>(mv.sliced(a[0], a[1]));
	if(n == "strided") return store<T>(mv.strided(a[0]));
	if(n == "dropped") return store<T>(mv.dropped(a[0]));
	if(n == "taked") return store<T>(mv.taked(a[0]));
	if(n == "rotated") return store<T>(mv.rotated());
	if(n == "unrotated") return store<T>(mv.unrotated());
	if(n == "reversed") return store<T>(mv.reversed());
	if constexpr(D >= 2) {
		if(n == "index") return store<T>(mv[a[0]]);
		if(n == "transposed") return store<T>(mv.transposed());
		if(n == "diagonal") return store<T>(mv.diagonal());
	}
	if constexpr(D < MAXD) {
		if(n == "partitioned") return store<T>(mv.partitioned(a[0]));
	}
	std::fprintf(stderr, "harness: op %s not applicable to D=%d\n", n.c_str(), static_cast<int>(D));
	std::abort();
}

static std::string op_line(int dst, int src, Op const& op) {
	std::string s = "v " + std::to_string(dst) + " " + std::to_string(src) + " " + op.name;
	for(long x : op.a) { s += ' '; s += std::to_string(x); }
	return s;
}

template<class T, multi::dimensionality_type D> bool gen_op(VS<T, D> const& s, Rng& rng, Op& op) {
	auto&& v = mk(s);
	auto ex = exts_of(v); auto sz = sizes_of(v);
	long f = ex[0].first, l = ex[0].last, n = sz[0];
	for(int tries = 0; tries < 40; ++tries) {
		int c = rng.pick({8, 16, 10, 8, 8, 10, 8, 10, 6, 5, 6});
		op = Op{};
		switch(c) {
			case 0: if constexpr(D >= 2) { if(n > 0) { op.name = "index"; op.a = {rng.range(f, l - 1)}; return true; } } break;
			case 1: { long x = rng.range(f, l); long y = rng.range(x, l); op.name = "sliced"; op.a = {x, y}; return true; }
			case 2: { std::vector<long> cand; for(long k = 1; k <= (n == 0 ? 3 : n); ++k) { if((n == 0 || n % k == 0) && f % k == 0) cand.push_back(k); }
				op.name = "strided"; op.a = {cand[static_cast<std::size_t>(rng.range(0, static_cast<long>(cand.size()) - 1))]}; return true; }
			case 3: op.name = "dropped"; op.a = {rng.range(0, n)}; return true;
			case 4: op.name = "taked"; op.a = {rng.range(0, n)}; return true;
			case 5: op.name = "rotated"; return true;
			case 6: op.name = "unrotated"; return true;
			case 7: if constexpr(D >= 2) { op.name = "transposed"; return true; } break;
			case 8: op.name = "reversed"; return true;
			case 9: if constexpr(D >= 2) { if(ex[0].first == 0 && ex[1].first == 0) { op.name = "diagonal"; return true; } } break;
			case 10: if constexpr(D < MAXD) { std::vector<long> cand; for(long k = 1; k <= (n == 0 ? 3 : n); ++k) { if(n == 0 || n % k == 0) cand.push_back(k); }
				op.name = "partitioned"; op.a = {cand[static_cast<std::size_t>(rng.range(0, static_cast<long>(cand.size()) - 1))]}; return true; } break;
			default: break;
		}
	}
	return false;
}

template<class T, multi::dimensionality_type D> AnyView<T> make_root(std::vector<Ex> const& ex, T* base) {
	auto xs = std::apply([](auto... e) { return multi::extensions_t<D>{e...}; }, [&] {
		std::array<multi::iextension, static_cast<std::size_t>(D)> arr;
		for(std::size_t k = 0; k < static_cast<std::size_t>(D); ++k) arr[k] = multi::iextension{ex[k].first, ex[k].last};
		return arr; }());
	multi::array_ref<T, D> ref(base, xs);
	return store<T>(ref());
}
template<class T> AnyView<T> make_root_any(std::vector<Ex> const& ex, T* base) {
	switch(ex.size()) {
		case 1: return make_root<T, 1>(ex, base);
		case 2: return make_root<T, 2>(ex, base);
		case 3: return make_root<T, 3>(ex, base);
		case 4: return make_root<T, 4>(ex, base);
		default: std::abort();
	}
}

// ---------------------------------------------------------------------------------------------- functors
struct FValS4 { double operator()(S4 const& s) const { return s.a + 3.0 * s.c; } };
struct FRefS4 { double& operator()(S4& s) const { return s.c; } };
struct FValS3 { double operator()(S3 const& s) const { return s.a + 3.0 * s.c; } };
struct FRefS3 { double& operator()(S3& s) const { return s.c; } };
struct FValC { cplx operator()(cplx const& z) const { return std::conj(z); } };
struct FRefC { double& operator()(cplx& z) const { return reinterpret_cast<double(&)[2]>(z)[1]; } };
struct FValI { int operator()(int const& x) const { return 3 * x + 1; } };
struct FRefI { int& operator()(int& x) const { return x; } };

template<class T> struct Kind;
template<> struct Kind<S4> { using FVal = FValS4; using FRef = FRefS4; using RefT = double; static constexpr int id = 0; };
template<> struct Kind<cplx> { using FVal = FValC; using FRef = FRefC; using RefT = double; static constexpr int id = 1; };
template<> struct Kind<S3> { using FVal = FValS3; using FRef = FRefS3; using RefT = double; static constexpr int id = 3; };
template<> struct Kind<int> { using FVal = FValI; using FRef = FRefI; using RefT = int; static constexpr int id = 2; };

// element of `v` at canonical position `pos` (pointer), or nullptr
template<class V> auto* nth_element(V&& v, long pos) {
	using E = std::remove_reference_t<decltype(*v.base())>;
	E* r = nullptr; long k = 0;
	walk(v, [&](auto&& e) { if(k == pos) r = const_cast<E*>(&e); ++k; });
	return r;
}

static void add_slots(S4* e, long d) { e->a += d; e->b += d; e->c += d; e->d += d; }
static void add_slots(S3* e, long d) { e->a += d; e->b += d; e->c += d; }
static void add_slots(cplx* e, long d) { *e += cplx{static_cast<double>(d), static_cast<double>(d)}; }
static void add_slots(int* e, long d) { *e += static_cast<int>(d); }

// ---------------------------------------------------------------------------------------------- cast queries
// every query computes the projection through the mutable and the const overloads and answers with one line
template<class T, multi::dimensionality_type D, class MemT> void q_member(VS<T, D> const& s, MemT T::*pm, bool ctor) {
	auto&& mv = mk(s); auto const& cv = mv;
	auto&& pm_m = mv.template member_cast<MemT>(pm);
	auto&& pm_c = cv.template member_cast<MemT>(pm);
	same_or_internal(describe_ref("member", pm_m), describe_ref("member", pm_c), "member_cast const/mutable differ");
	if(ctor) answer(describe_ctor<MemT>(pm_c)); else answer(describe_ref("member", pm_m));
}

// `nonintegral`: sizeof(T)/sizeof(U) is not an integer either way (tags reintq / ctorq, counted separately in the evidence)
template<class U, class T, multi::dimensionality_type D> void q_reint(VS<T, D> const& s, bool ctor, bool nonintegral = false) {
	auto&& mv = mk(s); auto const& cv = mv;
	char const* tag = nonintegral ? "reintq" : "reint";
	auto&& r_m = mv.template reinterpret_array_cast<U>();
	auto&& r_c = cv.template reinterpret_array_cast<U>();
	same_or_internal(describe_ref(tag, r_m), describe_ref(tag, r_c), "reinterpret_array_cast const/mutable differ");
	if(ctor) answer(describe_ctor<U>(r_c, nonintegral ? "ctorq" : "ctor")); else answer(describe_ref(tag, r_m));
}

// the two assertions of layout_t::scale (and of the hand-written D = 1 overload): every stride and every offset, times
// sizeof(T), must be divisible by the target size
template<class T, multi::dimensionality_type D> bool admissible(VS<T, D> const& s, long sU) {
	bool ok = true;
	auto chk = [&](auto... x) { ((ok = ok && ((static_cast<long>(x) * static_cast<long>(sizeof(T))) % sU == 0)), ...); };
	std::apply(chk, s.lay.strides()); std::apply(chk, s.lay.offsets());
	return ok;
}

template<class U, class T, multi::dimensionality_type D> void q_reintn(VS<T, D> const& s, long n, bool ctor) {
	auto&& mv = mk(s); auto const& cv = mv;
	auto&& r_m = mv.template reinterpret_array_cast<U>(n);
	auto&& r_c = cv.template reinterpret_array_cast<U>(n);
	same_or_internal(describe_ref("reintn", r_m), describe_ref("reintn", r_c), "reinterpret_array_cast(n) const/mutable differ");
	if(ctor) answer(describe_ctor<U>(r_c)); else answer(describe_ref("reintn", r_m));
}

template<class T, multi::dimensionality_type D> void q_same(VS<T, D> const& s, int which, bool ctor) {
	auto&& mv = mk(s); auto const& cv = mv;
	// as_const and const_array_cast exist only in the D > 1 class (array_ref.hpp:1809-1835); D = 1 has static_array_cast only
	if constexpr(D == 1) { which = (which % 2) ? 3 : 0; }
	switch(which) {
		case 0: { auto&& p = cv.template static_array_cast<T const>(); if(ctor) answer(describe_ctor<T>(p)); else answer(describe_ref("same", p)); break; }
		case 3: { auto&& p = mv.template static_array_cast<T>(); if(ctor) answer(describe_ctor<T>(p)); else answer(describe_ref("same", p)); break; }
		default:
			if constexpr(D > 1) {
				if(which == 1) { auto&& p = cv.as_const(); if(ctor) answer(describe_ctor<T>(p)); else answer(describe_ref("same", p)); }
				else { auto&& p = cv.as_const().template const_array_cast<T>(); if(ctor) answer(describe_ctor<T>(p)); else answer(describe_ref("same", p)); }
			}
			break;
	}
}

// array of a convertible element type from the view itself
template<class T, multi::dimensionality_type D> void q_conv(VS<T, D> const& s) {
	auto&& mv = mk(s);
	if constexpr(std::is_same_v<T, int>) { answer(describe_ctor<double>(mv)); }
	else if constexpr(std::is_same_v<T, cplx>) { answer(describe_ctor<std::complex<long double>>(mv)); }
	else { answer(describe_ctor<T>(mv)); }
}

// element_transformed with a value-returning functor: the view is created FIRST, then the source element at canonical
// position `pos` is changed, then the transformed view is read (and the source restored)
template<class T, multi::dimensionality_type D> void q_xval(VS<T, D> const& s, long pos, long delta, bool ctor) {
	auto&& mv = mk(s); auto const& cv = mv;
	auto&& x_m = mv.element_transformed(typename Kind<T>::FVal{});
	auto&& x_c = cv.element_transformed(typename Kind<T>::FVal{});
	T* e = pos >= 0 ? nth_element(mv, pos) : nullptr;
	if(e) add_slots(e, delta);
	same_or_internal(describe_val("xval", x_m), describe_val("xval", x_c), "element_transformed const/mutable differ");
	using R = std::decay_t<decltype(typename Kind<T>::FVal{}(std::declval<T const&>()))>;
	if(ctor) answer(describe_ctor<R>(x_c)); else answer(describe_val("xval", x_c));
	if(e) add_slots(e, -delta);
}

// element_transformed with a reference-returning functor: addresses of the designated sub-objects; then one element
// is assigned through the view and every slot of the buffer that changed is listed
template<class T, multi::dimensionality_type D> void q_xref(VS<T, D> const& s, long pos, long val) {
	using RefT = typename Kind<T>::RefT;
	auto&& mv = mk(s);
	auto&& x = mv.element_transformed(typename Kind<T>::FRef{});
	std::string head = describe_ref("xref", x);
	std::vector<char> snap(g_buf, g_buf + BUF_BYTES);
	if(pos >= 0) {
		long k = 0;
		walk(x, [&](auto&& e) { if(k == pos) e = static_cast<RefT>(val); ++k; });
	}
	std::string wr;
	for(std::size_t b = 0; b < BUF_BYTES; b += sizeof(RefT)) {
		if(std::memcmp(g_buf + b, snap.data() + b, sizeof(RefT)) != 0) { RefT nv; std::memcpy(&nv, g_buf + b, sizeof(RefT)); wr += " " + std::to_string(b) + "=" + vs(nv); }
	}
	std::memcpy(g_buf, snap.data(), BUF_BYTES);
	answer(head + " | wr" + wr);
}

template<class T, multi::dimensionality_type D> void q_realimag(VS<T, D> const& s, bool imag, bool ctor) {
	if constexpr(std::is_same_v<T, cplx>) {
		auto&& mv = mk(s);
		if(imag) { auto&& p = multi::blas::imag(mv); if(ctor) answer(describe_ctor<double>(p)); else answer(describe_ref("part", p)); }
		else { auto&& p = multi::blas::real(mv); if(ctor) answer(describe_ctor<double>(p)); else answer(describe_ref("part", p)); }
	} else { std::abort(); }
}

// words of a query: x <what> <reg> args...   /  x ctor <reg> <what> args...
template<class T, multi::dimensionality_type D> void do_query(VS<T, D> const& s, std::vector<std::string> const& w) {
	bool ctor = (w[1] == "ctor");
	std::string what = ctor ? w[3] : w[1];
	std::vector<long> a; for(std::size_t k = ctor ? 4 : 3; k < w.size(); ++k) a.push_back(std::stol(w[k]));
	if(what == "same") { q_same(s, static_cast<int>(a[0]), ctor); return; }
	if(what == "conv") { q_conv(s); return; }
	if(what == "xval") { q_xval(s, a[0], a[1], ctor); return; }
	if(what == "xref") { q_xref(s, a[0], a[1]); return; }
	if constexpr(std::is_same_v<T, S4>) {
		if(what == "member") { double S4::*pm[4] = {&S4::a, &S4::b, &S4::c, &S4::d}; q_member(s, pm[a[0]], ctor); return; }
		if(what == "reintn") { q_reintn<double>(s, a[1], ctor); return; }
	}
	if constexpr(std::is_same_v<T, S3>) {
		if(what == "member") { double S3::*pm[3] = {&S3::a, &S3::b, &S3::c}; q_member(s, pm[a[0]], ctor); return; }
		if(what == "reintn") { q_reintn<double>(s, a[1], ctor); return; }
		if(what == "reint") { q_reint<double>(s, ctor); return; }
		if(what == "reintq") { q_reint<cplx>(s, ctor, true); return; }
	}
	if constexpr(std::is_same_v<T, cplx>) {
		if(what == "reintq") { q_reint<S3>(s, ctor, true); return; }
		if(what == "reint") { q_reint<double>(s, ctor); return; }
		if(what == "reintn") { q_reintn<double>(s, a[1], ctor); return; }
		if(what == "real") { q_realimag(s, false, ctor); return; }
		if(what == "imag") { q_realimag(s, true, ctor); return; }
	}
	if constexpr(std::is_same_v<T, int>) {
		if(what == "reint") { q_reint<unsigned>(s, ctor); return; }
	}
	std::fprintf(stderr, "harness: bad query\n"); std::abort();
}

// ---------------------------------------------------------------------------------------------- generation
template<class T> std::string gen_query(AnyView<T> const& av, int reg, Rng& rng, bool aligned) {
	long n = std::visit([](auto const& s) { return static_cast<long>(mk(s).num_elements()); }, av);
	std::string r = std::to_string(reg);
	bool ctor = rng.coin(25);
	auto q = [&](std::string const& what, std::string const& args) { return ctor ? "x ctor " + r + " " + what + args : "x " + what + " " + r + args; };
	long pos = n > 0 ? rng.range(0, n - 1) : -1;
	int c;
	// reinterpret_array_cast<U>() with a non-integral size ratio (24 <-> 16 bytes): only when the library's own assertions hold
	if constexpr(std::is_same_v<T, S3> || std::is_same_v<T, cplx>) {
		long sU = std::is_same_v<T, S3> ? 16 : 24;
		bool adm = std::visit([&](auto const& s) { return admissible(s, sU); }, av);
		if(adm && rng.coin(aligned ? 75 : 15)) return q("reintq", " " + std::to_string(sU));
	}
	if constexpr(std::is_same_v<T, S3>) {
		c = rng.pick({35, 25, 15, 10, 10, 5});
		switch(c) {
			case 0: return q("member", " " + std::to_string(rng.range(0, 2)));
			case 1: return q("reintn", " 8 3");
			case 2: return q("reint", " 8");
			case 3: return q("xval", " " + std::to_string(pos) + " " + std::to_string(rng.range(1, 50) * 1000));
			case 4: return "x xref " + r + " " + std::to_string(pos) + " " + std::to_string(100000 + rng.range(0, 999));
			default: return "x ctor " + r + " conv";
		}
	}
	if constexpr(std::is_same_v<T, S4>) {
		c = rng.pick({40, 25, 15, 12, 4, 4});
		switch(c) {
			case 0: return q("member", " " + std::to_string(rng.range(0, 3)));
			case 1: return q("reintn", " 8 4");
			case 2: return q("xval", " " + std::to_string(pos) + " " + std::to_string(rng.range(1, 50) * 1000));
			case 3: return "x xref " + r + " " + std::to_string(pos) + " " + std::to_string(100000 + rng.range(0, 999));
			case 4: return q("same", " " + std::to_string(rng.range(0, 3)));
			default: return "x ctor " + r + " conv";
		}
	} else if constexpr(std::is_same_v<T, cplx>) {
		c = rng.pick({20, 25, 10, 10, 12, 10, 5, 5});
		switch(c) {
			case 0: return q("reint", " 8");
			case 1: return q("reintn", " 8 2");
			case 2: return q("real", "");
			case 3: return q("imag", "");
			case 4: return q("xval", " " + std::to_string(pos) + " " + std::to_string(rng.range(1, 50) * 1000));
			case 5: return "x xref " + r + " " + std::to_string(pos) + " " + std::to_string(100000 + rng.range(0, 999));
			case 6: return q("same", " " + std::to_string(rng.range(0, 3)));
			default: return "x ctor " + r + " conv";
		}
	} else {
		c = rng.pick({25, 25, 15, 15, 12});
		switch(c) {
			case 0: return q("reint", " 4");
			case 1: return q("same", " " + std::to_string(rng.range(0, 3)));
			case 2: return q("xval", " " + std::to_string(pos) + " " + std::to_string(rng.range(1, 50) * 1000));
			case 3: return "x xref " + r + " " + std::to_string(pos) + " " + std::to_string(100000 + rng.range(0, 999));
			default: return "x ctor " + r + " conv";
		}
	}
}

static std::vector<std::string> words(std::string const& line) { std::istringstream is(line); std::vector<std::string> w; std::string t; while(is >> t) w.push_back(t); return w; }

template<class T> void emit_query(AnyView<T> const& av, int reg, Rng& rng, bool aligned = false) {
	std::string line = gen_query<T>(av, reg, rng, aligned);
	std::fprintf(fprog, "%s\n", line.c_str());
	std::fflush(fprog); std::fflush(fans);  // a crash inside the library must leave the crashing program on disk
	auto w = words(line);
	std::visit([&](auto const& s) { do_query(s, w); }, av);
}

// `m` > 0: every dimension of the view gets stride and offset divisible by `m` (extents and index bases multiples of `m`, then
// `strided m` in every dimension); every operation of the generator preserves that, so the non-integral casts stay admissible
template<class T> void gen_program(Rng& rng, long p, std::uint64_t seed, long m = 0) {
	char const* names[4] = {"s4", "cplx", "int", "s3"};
	fill_buffer(Kind<T>::id);
	int D = 1 + (m > 0 ? rng.pick({15, 40, 30, 15}) : rng.pick({25, 40, 25, 10}));
	bool rebased = rng.coin(50);  // index bases other than 0 (casts scale the offset too)
	std::vector<Ex> ex; long ne = 1;
	for(int k = 0; k < D; ++k) {
		long sz, f;
		if(m > 0) {
			sz = m * (long[]){0, 1, 2, 3}[rng.pick({3, 27, 42, 28})];
			if(ne * sz > 420) sz = m;
			f = rebased ? m * rng.range(-1, 1) : 0;
		} else {
			sz = (long[]){0, 1, 2, 3, 4, 5, 6}[rng.pick({8, 14, 22, 20, 18, 10, 8})];
			if(ne * sz > 200) sz = 2;
			f = rebased ? rng.range(-3, 3) : 0;
		}
		ne *= sz;
		ex.push_back(Ex{f, f + sz});
	}
	long base = 16 + rng.range(0, 9);
	std::fprintf(fprog, "prog %ld %llu\n", p, static_cast<unsigned long long>(seed)); std::fprintf(fans, "prog %ld %llu\n", p, static_cast<unsigned long long>(seed));
	std::fprintf(fprog, "t %s\n", names[Kind<T>::id]);
	std::string rl = "root 0 " + std::to_string(base) + " " + std::to_string(D);
	for(auto const& e : ex) rl += " " + std::to_string(e.first) + " " + std::to_string(e.last);
	std::fprintf(fprog, "%s\n", rl.c_str());
	AnyView<T> cur = make_root_any<T>(ex, reinterpret_cast<T*>(g_buf) + base);
	int src = 0;
	auto emit = [&](Op const& op) {
		std::fprintf(fprog, "%s\n", op_line(1, src, op).c_str());
		cur = std::visit([&](auto const& s) { return apply_op(s, op); }, cur);
		src = 1;
	};
	if(m > 0) { for(int k = 0; k < D; ++k) { emit(Op{"strided", {m}}); if(D > 1) emit(Op{"rotated", {}}); } }
	if(rng.coin(30)) emit_query<T>(cur, src, rng, m > 0);
	int nops = static_cast<int>(rng.range(0, 5));
	for(int k = 0; k < nops; ++k) {
		Op op;
		bool ok = std::visit([&](auto const& s) { return gen_op(s, rng, op); }, cur);
		if(!ok) break;
		emit(op);
		if(rng.coin(25)) emit_query<T>(cur, 1, rng, m > 0);
	}
	int nq = static_cast<int>(rng.range(1, 3));
	for(int k = 0; k < nq; ++k) emit_query<T>(cur, src, rng, m > 0);
}

static void run_generated(std::uint64_t seed, long nprog, std::string const& mode) {
	Rng rng(seed);
	for(long p = 0; p < nprog; ++p) {
		int kind = mode == "s4" ? 0 : mode == "cplx" ? 1 : mode == "int" ? 2 : mode == "s3" ? 3 : rng.pick({30, 30, 18, 22});
		if(kind == 0) gen_program<S4>(rng, p, seed);
		else if(kind == 1) gen_program<cplx>(rng, p, seed, rng.coin(35) ? 3 : 0);   // strides/offsets multiples of 3: 16 -> 24 bytes admissible
		else if(kind == 2) gen_program<int>(rng, p, seed);
		else gen_program<S3>(rng, p, seed, rng.coin(70) ? 2 : 0);                    // even strides/offsets: 24 -> 16 bytes admissible
	}
}

// ---------------------------------------------------------------------------------------------- replay
template<class T> struct Regs { std::vector<AnyView<T>> r = std::vector<AnyView<T>>(64); };

static void run_replay(char const* path) {
	std::ifstream in(path);
	std::string line;
	int kind = 0;
	Regs<S4> rs; Regs<cplx> rc; Regs<int> ri; Regs<S3> r3;
	auto with = [&](auto&& f) { if(kind == 0) f(rs); else if(kind == 1) f(rc); else if(kind == 2) f(ri); else f(r3); };
	while(std::getline(in, line)) {
		std::fprintf(fprog, "%s\n", line.c_str());
		auto w = words(line);
		if(w.empty() || w[0] == "#") continue;
		if(w[0] == "prog") { std::fprintf(fans, "%s\n", line.c_str()); continue; }
		if(w[0] == "t") { kind = w[1] == "s4" ? 0 : w[1] == "cplx" ? 1 : w[1] == "int" ? 2 : 3; fill_buffer(kind); continue; }
		if(w[0] == "root") {
			int reg = std::stoi(w[1]); long base = std::stol(w[2]); int D = std::stoi(w[3]);
			std::vector<Ex> ex;
			for(int k = 0; k < D; ++k) ex.push_back(Ex{std::stol(w[4 + 2 * static_cast<std::size_t>(k)]), std::stol(w[5 + 2 * static_cast<std::size_t>(k)])});
			with([&](auto& R) { using T = std::decay_t<decltype(*std::get<0>(R.r[0]).base)>; R.r[static_cast<std::size_t>(reg)] = make_root_any<T>(ex, reinterpret_cast<T*>(g_buf) + base); });
		} else if(w[0] == "v") {
			int dst = std::stoi(w[1]); int src = std::stoi(w[2]);
			Op op; op.name = w[3];
			for(std::size_t k = 4; k < w.size(); ++k) op.a.push_back(std::stol(w[k]));
			with([&](auto& R) { R.r[static_cast<std::size_t>(dst)] = std::visit([&](auto const& s) { return apply_op(s, op); }, R.r[static_cast<std::size_t>(src)]); });
		} else if(w[0] == "x") {
			int reg = std::stoi(w[2]);
			with([&](auto& R) { std::visit([&](auto const& s) { do_query(s, w); }, R.r[static_cast<std::size_t>(reg)]); });
		}
	}
}

int main(int argc, char** argv) {
	if(argc < 6) { std::fprintf(stderr, "usage: casts <seed> <nprograms> <s4|cplx|int|s3|mix> <prog-out> <answers-out> [--replay file]\n"); return 2; }
	std::uint64_t seed = std::strtoull(argv[1], nullptr, 10);
	long nprog = std::strtol(argv[2], nullptr, 10);
	fprog = std::fopen(argv[4], "w"); fans = std::fopen(argv[5], "w");
	if(!fprog || !fans) { std::perror("fopen"); return 2; }
	if(argc >= 8 && std::string(argv[6]) == "--replay") run_replay(argv[7]);
	else run_generated(seed, nprog, argv[3]);
	std::fclose(fprog); std::fclose(fans);
	return g_internal ? 3 : 0;
}
