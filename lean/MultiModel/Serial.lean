/-
  MultiModel.Serial — transcription of the `serialize` members (Boost.Serialization / Cereal protocol):

    * `range::serialize`                 detail/index_range.hpp:79-92      `ar & first_; ar & last_;`
    * `extensions_t<D>::serialize`       detail/layout.hpp:222-233, 421-426 (D=1), 301 (D=0: no-op)
    * `array::serialize`                 array.hpp:1172-1181   extensions first, resize if different, then the elements
    * `static_array::serialize`          array.hpp:713-716     → `array_ref::serialize`
    * `array_ref::serialize_flat_`       array_ref.hpp:3592-3596  `make_array(data_elements(), num_elements())`
    * `const_subarray::serialize` (D>1)  array_ref.hpp:1884-1894  `for_each(elements().begin(), elements().end(), ar & elem)`
    * `subarray::serialize`              array_ref.hpp:2345-2355  idem with a mutable element reference
    * `const_subarray<T,0>::serialize`   array_ref.hpp:2683-2690  `ar & *base_`
    * `const_subarray<T,1>::serialize`   array_ref.hpp:3278-3284  `for_each(begin(), end(), ar & item)`
    * `array<T,0>` has no `serialize` of its own (array.hpp:1106-1146): `static_array<T,0>::serialize`
      (array.hpp:1099-1102) → flat, no extensions are written.

  An archive is a list of tokens.  `ar & x` appends the encoding of `x` when saving and replaces `x` by the decoded
  value when loading — one `serialize` function serves both directions, as in the C++.
  What Boost.Serialization does with `make_nvp` / `make_array` (an nvp is its value; an array wrapper is its
  `count` items in order) is a hypothesis of this model (DESIGN §5), validated by the correspondence run.
  Core Lean only.
-/
import MultiModel.Iter

namespace Multi

/-- codec of the archive for `index` (`ptrdiff_t`) values -/
structure ICodec (τ : Type) where
  enc : Int → List τ
  dec : List τ → Option (Int × List τ)

/-- the archive reads back what it wrote -/
def ICodec.Lawful {τ : Type} (ci : ICodec τ) : Prop :=
  ∀ (i : Int) (rest : List τ), ci.dec (ci.enc i ++ rest) = some (i, rest)

/-- element codec.  Loading goes *into an existing object* (`load prior tokens`): for class types (a nested
    `multi::array`) what `serialize` does depends on the object's previous state.
    `dflt` is the value-initialised element that `reextent` constructs, `ok` the class invariant of the element
    type, `eqv` its `operator==`. -/
structure Codec (τ α : Type) where
  enc  : α → List τ
  load : α → List τ → Option (α × List τ)
  dflt : α
  ok   : α → Prop
  eqv  : α → α → Prop

/-- `decode (encode x ++ rest) = (x, rest)`, whatever the previous state of the object loaded into -/
structure Codec.Lawful {τ α : Type} (c : Codec τ α) : Prop where
  dflt_ok : c.ok c.dflt
  law : ∀ (prior x : α) (rest : List τ), c.ok prior → c.ok x →
    ∃ y, c.load prior (c.enc x ++ rest) = some (y, rest) ∧ c.eqv y x ∧ c.ok y

/-- an archive in one of its two directions -/
inductive Archive (τ : Type) where
  | saving (out : List τ)
  | loading (inp : List τ)
deriving Repr

namespace Archive
variable {τ α : Type}

/-- `ar & make_nvp(name, i)` for an `index` -/
def ampI (ci : ICodec τ) (ar : Archive τ) (i : Int) : Option (Archive τ × Int) :=
  match ar with
  | saving out => some (saving (out ++ ci.enc i), i)
  | loading inp => (ci.dec inp).map fun (j, rest) => (loading rest, j)

/-- `ar & make_nvp(name, x)` for an element -/
def amp (c : Codec τ α) (ar : Archive τ) (x : α) : Option (Archive τ × α) :=
  match ar with
  | saving out => some (saving (out ++ c.enc x), x)
  | loading inp => (c.load x inp).map fun (y, rest) => (loading rest, y)

/-- `range::serialize` index_range.hpp:79-92: first, then last -/
def range (ci : ICodec τ) (ar : Archive τ) (e : Ext) : Option (Archive τ × Ext) := do
  let (ar1, f) ← ar.ampI ci e.first
  let (ar2, l) ← ar1.ampI ci e.last
  pure (ar2, ⟨f, l⟩)

/-- `extensions_t<D>::serialize` layout.hpp:222-233: `(ar & make_nvp("extension", get<I>(base())))...` in index order
    (the initializer list fixes left-to-right evaluation); D=1: 421-426; D=0: no-op (301). -/
def exts (ci : ICodec τ) (ar : Archive τ) : List Ext → Option (Archive τ × List Ext)
  | [] => some (ar, [])
  | e :: es => do
    let (ar1, e') ← ar.range ci e
    let (ar2, es') ← exts ci ar1 es
    pure (ar2, e' :: es')

/-- `make_array(p, n)`: `ar & item` for the `n` items in order (Boost's `array_wrapper`; the Cereal
    `array_wrapper::serialize` of serialization.hpp:103-117 is the same loop). -/
def items (c : Codec τ α) (ar : Archive τ) : List α → Option (Archive τ × List α)
  | [] => some (ar, [])
  | x :: xs => do
    let (ar1, y) ← ar.amp c x
    let (ar2, ys) ← items c ar1 xs
    pure (ar2, y :: ys)

end Archive

/-- `tuple<range...>::operator!=` detail/tuple_zip.hpp:81, 224: `head != other.head || tail != other.tail`,
    `range::operator!=` is `!(==)` (index_range.hpp:205). -/
def Exts.neqv : List Ext → List Ext → Bool
  | [], [] => false
  | a :: as, b :: bs => !(a.eqv b) || neqv as bs
  | _, _ => true

/-! ### owning arrays -/

/-- the state of a `multi::array<T, D>` that serialization can see: its layout and the `num_elements()` elements of
    the allocated block `data_elements()[0 .. num_elements())`. -/
structure Arr (α : Type) where
  lay  : Layout
  data : List α
deriving Repr

namespace Arr
variable {τ α : Type}

/-- `array(extensions)` with the elements given in storage order -/
def ofExts (es : List Ext) (xs : List α) : Arr α := ⟨Layout.ofExts es, xs⟩

/-- `static_array::clear()` array.hpp:560-565: destroy, deallocate, `layout = layout_type(extensions_type{})`
    (every default-constructed range is `[0,0)`, index_range.hpp:75-76). -/
def clear (a : Arr α) : Arr α := ⟨Layout.ofExts (List.replicate a.lay.length ⟨0, 0⟩), []⟩

/-- `(*this)[i][j]...` of an owning array: `base_ == data_elements()` -/
def get (a : Arr α) (dflt : α) (idx : List Int) : α :=
  let p := (⟨0, a.lay⟩ : View).addr idx
  if p < 0 then dflt else a.data.getD p.toNat dflt

def inBoxB : List Ext → List Int → Bool
  | [], [] => true
  | e :: es, i :: is => e.contains i && inBoxB es is
  | _, _ => false

/-- `array::reextent(extensions) &` array.hpp:1467-1492: nothing if the extensions compare equal; otherwise a new
    block for `layout_t{extensions}`, value-initialised; if the common index box
    `is = intersection(this->extensions(), tmp.extensions())` has elements, `tmp.apply(is).elements() = this->apply(is).elements()`
    (element of index `idx` to element of index `idx`); old block destroyed and released.
    (The new block is row-major over `tmp.extensions()`: its storage order is the canonical order.) -/
def reextent (dflt : α) (a : Arr α) (x : List Ext) : Arr α :=
  if Exts.eqv x a.lay.exts then a
  else
    let tl := Layout.ofExts x
    let is := Exts.inter a.lay.exts tl.exts
    ⟨tl, (boxIndices tl.exts).map fun idx => if inBoxB is idx then a.get dflt idx else dflt⟩

/-- `array_ref::serialize_flat_` array_ref.hpp:3592-3596: `ar & make_array(data_elements(), num_elements())` -/
def flat (c : Codec τ α) (ar : Archive τ) (a : Arr α) : Option (Archive τ × Arr α) := do
  let n := a.lay.numElements.toNat
  let (ar1, xs) ← ar.items c (a.data.take n)
  pure (ar1, { a with data := xs ++ a.data.drop n })

/-- the state of the array between the extensions and the elements (array.hpp:1174-1179):
    `if(this->extensions() != extensions_) { clear(); this->reextent(extensions_); }` -/
def resizeStep (dflt : α) (a : Arr α) (exts' : List Ext) : Arr α :=
  if Exts.neqv a.lay.exts exts' then (a.clear).reextent dflt exts' else a

/-- `array::serialize` array.hpp:1172-1181 (D ≥ 1) and, for D = 0, `static_array<T,0>::serialize` array.hpp:1099-1102
    (no extensions are written: `Archive.exts` of the empty list writes nothing and the comparison is vacuous). -/
def serialize (c : Codec τ α) (ci : ICodec τ) (ar : Archive τ) (a : Arr α) : Option (Archive τ × Arr α) := do
  let extensions_ := a.lay.exts
  let (ar1, exts') ← ar.exts ci extensions_
  (a.resizeStep c.dflt exts').flat c ar1

/-- save into a fresh archive -/
def save (c : Codec τ α) (ci : ICodec τ) (a : Arr α) : List τ :=
  match a.serialize c ci (Archive.saving []) with
  | some (Archive.saving out, _) => out
  | _ => []

/-- load from a token list into the array `b`; returns the array and the unread tokens -/
def load (c : Codec τ α) (ci : ICodec τ) (b : Arr α) (ts : List τ) : Option (Arr α × List τ) :=
  match b.serialize c ci (Archive.loading ts) with
  | some (Archive.loading rest, b') => some (b', rest)
  | _ => none

/-- default-constructed `array<T, D>`: empty for D ≥ 1, one value-initialised element for D = 0 -/
def dflt (D : Nat) (d : α) : Arr α :=
  ⟨Layout.ofExts (List.replicate D ⟨0, 0⟩), if D = 0 then [d] else []⟩

end Arr

/-! ### views over a memory -/

/-- memory: element at every address (offset from the root's first element) -/
abbrev Mem (α : Type) := Int → α

def Mem.write {α : Type} (m : Mem α) (p : Int) (x : α) : Mem α := fun q => if q = p then x else m q

namespace ElemIt
/-- the addresses visited by `std::for_each(first, last, f)` on elements iterators: `for(; first != last; ++first) f(*first);`
    (`!=` compares `n_`, array_ref.hpp:859-865).  `fuel` bounds the loop; it is `last - first`.
    `none` = `operator++` hit a division by zero inside `from_linear_`. -/
def walk (it e : ElemIt) : Nat → Option (List Int)
  | 0 => some []
  | fuel + 1 =>
    if it.eq e then some []
    else do
      let it' ← it.inc
      let r ← walk it' e fuel
      pure (it.current :: r)
end ElemIt

namespace ArrIt
/-- idem on `array_iterator<T, 1>`: `operator!=` compares `ptr_`, `*it` is the element at `ptr_` -/
def walk (it e : ArrIt) : Nat → List Int
  | 0 => []
  | fuel + 1 => if it.eq e then [] else it.ptr :: walk it.inc e fuel
end ArrIt

/-- which `serialize` overload a view type selects -/
inductive ViewKind where
  | elements   -- `subarray<T,D>` (every D ≥ 1) and `const_subarray<T,D>`, D > 1: through `elements()`
  | beginEnd   -- `const_subarray<T,1>`: through `begin()/end()`
deriving DecidableEq, Repr

namespace View
variable {τ α : Type}

/-- the element addresses in the order in which a view's `serialize` visits them; `none` = the model hit UB
    (division by zero inside `from_linear`). -/
def serialAddrs (v : View) (k : ViewKind) : Option (List Int) :=
  match v.lay, k with
  | [], _ => some [v.base]                                         -- const_subarray<T,0>::serialize: `*base_`
  | [_], ViewKind.beginEnd =>
    let b := v.begin'; let e := v.end'
    some (b.walk e (e.diff b).toNat)
  | _, _ => do
    let r := ElemRange.ofView v
    let b ← r.begin'
    let e ← r.end'
    b.walk e (e.diff b).toNat

/-- `ar & elem` on the elements at the given addresses, in that order -/
def serializeAt (c : Codec τ α) (ar : Archive τ) (m : Mem α) : List Int → Option (Archive τ × Mem α)
  | [] => some (ar, m)
  | p :: ps => do
    let (ar1, y) ← ar.amp c (m p)
    serializeAt c ar1 (m.write p y) ps

/-- `serialize` of a view over memory `m` -/
def serialize (c : Codec τ α) (k : ViewKind) (ar : Archive τ) (v : View) (m : Mem α) : Option (Archive τ × Mem α) := do
  let ps ← v.serialAddrs k
  serializeAt c ar m ps

def save (c : Codec τ α) (k : ViewKind) (v : View) (m : Mem α) : Option (List τ) :=
  match v.serialize c k (Archive.saving []) m with
  | some (Archive.saving out, _) => some out
  | _ => none

def load (c : Codec τ α) (k : ViewKind) (v : View) (m : Mem α) (ts : List τ) : Option (Mem α × List τ) :=
  match v.serialize c k (Archive.loading ts) m with
  | some (Archive.loading rest, m') => some (m', rest)
  | _ => none

end View

/-! ### the array itself as an element codec (nested arrays) -/

/-- class invariant of `multi::array<T, D>` as far as serialization depends on it: the layout is the one the
    constructor builds from some extensions, the block holds `num_elements()` elements (each satisfying the element
    type's invariant). -/
def Arr.Inv {α : Type} (D : Nat) (ok : α → Prop) (a : Arr α) : Prop :=
  (∃ es : List Ext, es.length = D ∧ (∀ e ∈ es, e.first ≤ e.last) ∧ a.lay = Layout.ofExts es) ∧
  a.data.length = a.lay.numElements.toNat ∧ ∀ x ∈ a.data, ok x

/-- element-wise relation of two sequences of equal length -/
def AllRel {α : Type} (r : α → α → Prop) : List α → List α → Prop
  | [], [] => True
  | a :: as, b :: bs => r a b ∧ AllRel r as bs
  | _, _ => False

/-- `operator==` of arrays: equal extensions (as reported) and equal elements -/
def Arr.Eqv {α : Type} (eqv : α → α → Prop) (a b : Arr α) : Prop :=
  a.lay.exts = b.lay.exts ∧ AllRel eqv a.data b.data

/-- `multi::array<T, D>` as an element type -/
def Arr.codec {τ α : Type} (D : Nat) (c : Codec τ α) (ci : ICodec τ) : Codec τ (Arr α) where
  enc a := a.save c ci
  load b ts := b.load c ci ts
  dflt := Arr.dflt D c.dflt
  ok := Arr.Inv D c.ok
  eqv := Arr.Eqv c.eqv

/-! ### the payload tokens of a text archive -/

/-- a whitespace-separated token of a Boost text archive: a number or a run of characters -/
inductive Tok where
  | int (i : Int)
  | str (s : String)
deriving DecidableEq, Repr

namespace Tok

/-- `index` values: one decimal token -/
def icodec : ICodec Tok where
  enc i := [Tok.int i]
  dec ts := match ts with
    | Tok.int i :: rest => some (i, rest)
    | _ => none

/-- arithmetic elements (`int`; `double` restricted to exactly representable values): one token -/
def intCodec : Codec Tok Int where
  enc i := [Tok.int i]
  load _ ts := match ts with
    | Tok.int i :: rest => some (i, rest)
    | _ => none
  dflt := 0
  ok _ := True
  eqv := Eq

/-- `std::string` (boost/serialization/string.hpp on a text archive): the length, then — unless empty — the characters -/
def strCodec : Codec Tok String where
  enc s := Tok.int s.length :: (if s.length = 0 then [] else [Tok.str s])
  load _ ts := match ts with
    | Tok.int n :: rest =>
      if n = 0 then some ("", rest)
      else match rest with
        | Tok.str s :: rest' => some (s, rest')
        | _ => none
    | _ => none
  dflt := ""
  ok _ := True
  eqv := Eq

end Tok

end Multi
