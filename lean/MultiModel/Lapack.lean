/-
  MultiModel.Lapack — transcription of include/boost/multi/adaptors/lapack/{filling,potrf,geqrf,gesvd,syev}.hpp
  (getrf.hpp does not compile at the pinned commit and is not modelled; syev.hpp compiles since the fix commit
  "syev.hpp compiles…": well-formed #include lines, `core::syev` instantiated, member `base()`/`rotated()`).

  A call is the tuple of integer arguments and pointers (as element offsets from the buffer start) handed to the
  Fortran routine.  LAPACK addresses a matrix in column-major order: element (i, j) of a matrix at `a` with leading
  dimension `lda` is `a + i + j*lda`.
-/
import MultiModel.View
import MultiModel.Fftw   -- sumTo

namespace Multi

/-- `enum class filling : char { lower = 'U', upper = 'L' }` (lapack/filling.hpp:12-15, blas/filling.hpp): the character
    is the triangle LAPACK sees when a ROW-major matrix is handed over as is (LAPACK then sees its transpose). -/
inductive Filling where
  | lower | upper
deriving DecidableEq, Repr, Inhabited

namespace Filling
def char : Filling → Char | lower => 'U' | upper => 'L'
/-- `flip` filling.hpp:17-23 -/
def flip : Filling → Filling | lower => upper | upper => lower
end Filling

/-- LAPACK element address (column-major) -/
def colMajor (a lda i j : Int) : Int := a + i + j * lda

/-- leading stride and the stride of the elements of the leading sub-views of a 2-D view -/
def View.stride0 (v : View) : Int := match v.lay with | d :: _ => d.stride | [] => 0
def View.stride1 (v : View) : Int := match v.lay with | _ :: d :: _ => d.stride | _ => 0
def View.size1 (v : View) : Int := match v.lay with | _ :: d :: _ => d.size | _ => 0

/-! ### potrf -/

/-- arguments of `xpotrf_(uplo, n, a, lda, info)` -/
structure PotrfCall where
  uplo : Char
  n    : Int
  a    : Int
  lda  : Int
deriving DecidableEq, Repr, Inhabited

/-- `potrf(filling uplo, Iterator first, Iterator last)` potrf.hpp:25-40 on `first = V.begin()`, `last = V.end()`:
    `potrf(static_cast<char>(uplo), distance(first, last), first.base(), stride(first), info)` -/
def potrfIter (uplo : Filling) (V : View) : PotrfCall := ⟨uplo.char, V.size, V.base, V.stride0⟩
/-- its assertions: `stride(first) == stride(last)` (trivial for begin/end of one view), `first->stride() == 1` -/
def potrfIterAsserts (V : View) : Bool := V.stride1 == 1
/-- `return info==0 ? last : first + info - 1` as the distance from `first` -/
def potrfOrder (n info : Int) : Int := if info = 0 then n else info - 1

/-- `potrf(filling uplo, A2D&& A)` potrf.hpp:42-57: the call it makes ... -/
def potrfCall (uplo : Filling) (A : View) : PotrfCall :=
  if A.stride0 = 1 then potrfIter uplo.flip A.rotated else potrfIter uplo A
def potrfAsserts (A : View) : Bool :=
  if A.stride0 = 1 then potrfIterAsserts A.rotated else potrfIterAsserts A
/-- ... and the view it returns: `A({0, r}, {0, r})` in both branches (potrf.hpp:52, 58), `r = distance(begin, last)` -/
def potrfResult (A : View) (info : Int) : View :=
  if A.stride0 = 1 then
    let r := potrfOrder A.rotated.size info
    A.paren [Arg.rng 0 r, Arg.rng 0 r]
  else
    let r := potrfOrder A.size info
    A.paren [Arg.rng 0 r, Arg.rng 0 r]

/-! ### geqrf -/

/-- arguments of `dgeqrf_(m, n, a, lda, tau, work, lwork, info)` (work/lwork come from the workspace query) -/
structure GeqrfCall where
  m   : Int
  n   : Int
  a   : Int
  lda : Int
  tau : Int
deriving DecidableEq, Repr, Inhabited

/-- `geqrf(aa, tau, alloc)` geqrf.hpp:38-70: `dgeqrf_(size(~aa), size(aa), aa.base(), aa.stride(), tau.base(), …)`, twice
    (workspace query with lwork = −1, then the computation) -/
def geqrfCall (aa tau : View) : GeqrfCall := ⟨aa.size1, aa.size, aa.base, aa.stride0, tau.base⟩
/-- `assert((~aa).stride() == 1)` (line 40), `assert(size(tau) == min(size(~aa), size(aa)))` -/
def geqrfAsserts (aa tau : View) : Bool := aa.stride1 == 1 && tau.size == min aa.size1 aa.size

/-! ### gesvd -/

/-- arguments of `dgesvd_(jobu, jobvt, m, n, a, lda, s, u, ldu, vt, ldvt, work, lwork, info)` -/
structure GesvdCall where
  jobu : Char
  jobvt : Char
  m : Int
  n : Int
  a : Int
  lda : Int
  s : Int
  u : Int
  ldu : Int
  vt : Int
  ldvt : Int
deriving DecidableEq, Repr, Inhabited

/-- `gesvd(AA, UU, ss, VV, alloc)` gesvd.hpp:24-69 -/
def gesvdCall (AA UU ss VV : View) : GesvdCall :=
  ⟨'A', 'A', VV.size, UU.size, AA.base, AA.stride0, ss.base, VV.base, VV.stride0, UU.base, UU.stride0⟩
/-- its seven assertions (26-32) -/
def gesvdAsserts (AA UU ss VV : View) : Bool :=
  AA.size == UU.size && AA.size1 == VV.size && ss.size == min UU.size VV.size &&
  AA.stride1 == 1 && ss.stride0 == 1 && UU.stride1 == 1 && VV.stride1 == 1

/-! ### syev -/

structure SyevCall where
  jobz : Char
  uplo : Char
  n : Int
  a : Int
  lda : Int
  w : Int
  work : Int
  lwork : Int
deriving DecidableEq, Repr, Inhabited

/-- `syev(uplo, a, w, work)` syev.hpp:21-47: `none` is the `assert(0)` "case not contemplated by lapack".
    First branch `a.rotated().stride() == 1` (unit inner stride), second `stride(a) == 1`. -/
def syevCall (uplo : Filling) (a w work : View) : Option SyevCall :=
  if a.stride1 = 1 then
    some ⟨'V', if uplo = .upper then 'L' else 'U', a.size, a.base, a.stride0, w.base, work.base, work.size⟩
  else if a.stride0 = 1 then
    some ⟨'V', if uplo = .upper then 'U' else 'L', a.size, a.base, a.stride1, w.base, work.base, work.size⟩
  else none
/-- the four assertions at the top of `syev` (24-27) -/
def syevAsserts (a w work : View) : Bool :=
  decide (work.size ≥ max 1 (3 * a.size - 1)) && a.size == w.size && w.stride0 == 1 && work.stride0 == 1
/-- returned view `a({0, size(a) − info}, {0, size(a) − info})` (46) -/
def syevResult (a : View) (info : Int) : View := a.paren [Arg.rng 0 (a.size - info), Arg.rng 0 (a.size - info)]

/-- the workspace the three-argument overload allocates: `Array1DW(std::max(1L, 3*size(a) - 1L), …)` (52-53): a fresh
    contiguous 1-D array, not part of the caller's storage -/
def syevAutoWork (a : View) (freshBase : Int) : View := ⟨freshBase, Layout.ofExts [⟨0, max 1 (3 * a.size - 1)⟩]⟩
/-- `a.decay()` of the `const&` overloads (58, 77): a fresh row-major array with the extensions of `a` -/
def decayView (a : View) (freshBase : Int) : View := ⟨freshBase, Layout.ofExts a.exts⟩
/-- the eigenvalue array `multi::array<…, 1>(size(a))` of the two-argument overloads (66, 79) -/
def syevAutoW (a : View) (freshBase : Int) : View := ⟨freshBase, Layout.ofExts [⟨0, a.size⟩]⟩

/-! ### LAPACK contracts (trusted; over a commutative ring, real case) -/

section Contracts
variable {R : Type} [Add R] [Mul R] [OfNat R 0] [OfNat R 1]

/-- `DPOTRF`: with `r` the order of the computed factor (`n`, or `info − 1` when the leading minor of order `info` is not
    positive definite), the selected triangle of the leading `r×r` block holds `U` with `UᵀU = A` (`uplo = 'U'`) resp. `L`
    with `LLᵀ = A` (`'L'`), `A` being read from that same triangle; only elements of the selected triangle are written. -/
def PotrfPost (c : PotrfCall) (info : Int) (mem mem' : Int → R) : Prop :=
  let cm := fun (i j : Nat) => colMajor c.a c.lda i j
  let r := potrfOrder c.n info
  0 ≤ info ∧ info ≤ c.n ∧
  (c.uplo = 'U' → ∀ i j : Nat, i ≤ j → (j : Int) < r → sumTo (i + 1) (fun k => mem' (cm k i) * mem' (cm k j)) = mem (cm i j)) ∧
  (c.uplo = 'L' → ∀ i j : Nat, j ≤ i → (i : Int) < r → sumTo (j + 1) (fun k => mem' (cm i k) * mem' (cm j k)) = mem (cm i j)) ∧
  (∀ addr, (∀ i j : Nat, (i : Int) < c.n → (j : Int) < c.n → (c.uplo = 'U' → i ≤ j) → (c.uplo = 'L' → j ≤ i) → addr ≠ cm i j) →
    mem' addr = mem addr)

/-- `DGESVD` with `jobu = jobvt = 'A'`: `A = U·diag(s)·VT` elementwise (`k` runs over `min(m, n)`), `U`, `s`, `VT` read
    from the post-state at the places the call names -/
def GesvdPost (c : GesvdCall) (mem mem' : Int → R) : Prop :=
  ∀ i j : Nat, (i : Int) < c.m → (j : Int) < c.n →
    sumTo (min c.m c.n).toNat (fun k => mem' (colMajor c.u c.ldu i k) * mem' (c.s + k) * mem' (colMajor c.vt c.ldvt k j))
      = mem (colMajor c.a c.lda i j)

/-- `DSYEV` with `jobz = 'V'`, `info = 0`: with `B` the symmetric matrix whose selected triangle is read from the pre-state,
    column `k` of the post-state of `A` is an eigenvector for the eigenvalue `w[k]`: `Σ_j B(i,j)·Z(j,k) = w_k·Z(i,k)` -/
def SyevPost (c : SyevCall) (mem mem' : Int → R) : Prop :=
  let cm := fun (i j : Nat) => colMajor c.a c.lda i j
  let B := fun (i j : Nat) =>
    if c.uplo = 'U' then (if i ≤ j then mem (cm i j) else mem (cm j i)) else (if j ≤ i then mem (cm i j) else mem (cm j i))
  ∀ i k : Nat, (i : Int) < c.n → (k : Int) < c.n →
    sumTo c.n.toNat (fun j => B i j * mem' (cm j k)) = mem' (c.w + k) * mem' (cm i k)

end Contracts
end Multi
