/-
  MultiModel.Layout — transcription of include/boost/multi/detail/index_range.hpp (range,
  extension_t, intersection) and include/boost/multi/detail/layout.hpp (layout_t<D>, extensions_t<D>).

  Core Lean only (no Mathlib) so that the driver links as a `lean_exe`.
  Every definition cites the C++ it transcribes.  Arithmetic is over unbounded `Int`;
  C++ `/` and `%` on `ptrdiff_t` are `Int.tdiv` / `Int.tmod` (truncation toward zero).
-/
namespace Multi

/-- `multi::extension_t<index>` / `multi::range<index>`: half-open `[first, last)`
    (index_range.hpp:73-225, 279-311). -/
structure Ext where
  first : Int
  last  : Int
deriving DecidableEq, Repr, Inhabited

namespace Ext
/-- `range::size()` index_range.hpp:196 -/
def size (e : Ext) : Int := e.last - e.first
/-- `range::is_empty()` index_range.hpp:190 -/
def isEmpty (e : Ext) : Bool := e.first == e.last
/-- `range::contains` index_range.hpp:214: `(value < last_) && (first_ <= value)` -/
def contains (e : Ext) (i : Int) : Bool := decide (i < e.last) && decide (e.first ≤ i)
/-- `operator==(range, range)` index_range.hpp:202-204: all empty ranges are equal. -/
def eqv (a b : Ext) : Bool :=
  (a.isEmpty && b.isEmpty) || (a.first == b.first && a.last == b.last)
/-- `intersection(extension_t, extension_t)` index_range.hpp:300-310. -/
def inter (a b : Ext) : Ext :=
  let l := min a.last b.last
  ⟨min (max a.first b.first) l, l⟩
/-- `range::front`, `range::back` index_range.hpp:178-179 -/
def back (e : Ext) : Int := e.last - 1
end Ext

/-- One level of `layout_t<D>`: `stride_`, `offset_`, `nelems_` (layout.hpp:711-714).
    `sub_` is the tail of the list in `Layout`. -/
structure Dim where
  stride : Int
  offset : Int
  nelems : Int
deriving DecidableEq, Repr, Inhabited

namespace Dim
/-- `layout_t::size()` layout.hpp:846-853: `if(nelems_ == 0) return 0; return nelems_/stride_;` -/
def size (d : Dim) : Int := if d.nelems = 0 then 0 else d.nelems.tdiv d.stride
/-- `layout_t::extension()` layout.hpp:880-886. -/
def ext (d : Dim) : Ext :=
  if d.nelems = 0 then ⟨0, 0⟩
  else ⟨d.offset.tdiv d.stride, (d.offset + d.nelems).tdiv d.stride⟩
/-- the two assertions inside `extension()` layout.hpp:883-884 (evaluated only when nelems ≠ 0) -/
def extAsserts (d : Dim) : Bool :=
  d.nelems == 0 || (d.offset.tmod d.stride == 0 && d.nelems.tmod d.stride == 0)
end Dim

/-- `layout_t<D>` as the list of its levels, outermost first.  The terminal `layout_t<0>`
    (offset 0, nelems 1 for every layout built by the library's own constructors) is implicit. -/
abbrev Layout := List Dim

namespace Layout

/-- `layout_t::num_elements()` layout.hpp:837: `size()*sub_.num_elements()`; `layout_t<0>`: `nelems_` = 1 (1049-1050, 1060). -/
def numElements : Layout → Int
  | [] => 1
  | d :: l => d.size * numElements l

/-- `layout_t::sizes()` layout.hpp:877 -/
def sizes (l : Layout) : List Int := l.map Dim.size
/-- `layout_t::extensions()` layout.hpp:888 -/
def exts (l : Layout) : List Ext := l.map Dim.ext
/-- `layout_t::strides()` layout.hpp:860 -/
def strides (l : Layout) : List Int := l.map Dim.stride
/-- `layout_t::offsets()` layout.hpp:866 -/
def offsets (l : Layout) : List Int := l.map Dim.offset
/-- `layout_t::nelemss()` layout.hpp:867 -/
def nelemss (l : Layout) : List Int := l.map Dim.nelems

/-- `layout_t::is_empty()` layout.hpp:840 (`nelems_ == 0`); `layout_t<0>`: nelems_ = 1. -/
def isEmpty : Layout → Bool
  | [] => false
  | d :: _ => d.nelems == 0

/-- `layout_t(extensions_type const&)` layout.hpp:735-745:
    `stride_{sub_.num_elements()?sub_.num_elements():1}`, `offset_{first*stride_}`,
    `nelems_{size*sub().num_elements()}`. -/
def ofExts : List Ext → Layout
  | [] => []
  | e :: es =>
    let sub := ofExts es
    let n := numElements sub
    let s := if n ≠ 0 then n else 1
    ⟨s, e.first * s, e.size * n⟩ :: sub

/-- `layout_t::transpose()` layout.hpp:935-941 (swaps this level with `sub_`). -/
def transpose : Layout → Layout
  | d0 :: d1 :: l => d1 :: d0 :: l
  | l => l

/-- `layout_t::rotate()` layout.hpp:948: `if constexpr(D > 1) {transpose(); sub_.rotate();}` -/
def rotate : Layout → Layout
  | d0 :: d1 :: l => d1 :: rotate (d0 :: l)
  | l => l
termination_by l => l.length

/-- `layout_t::unrotate()` layout.hpp:949: `if constexpr(D > 1) {sub_.unrotate(); transpose();}` -/
def unrotate : Layout → Layout
  | d0 :: d1 :: l => transpose (d0 :: unrotate (d1 :: l))
  | l => l

theorem length_transpose (l : Layout) : (transpose l).length = l.length := by
  unfold transpose; split <;> simp

theorem length_unrotate (l : Layout) : (unrotate l).length = l.length := by
  fun_induction unrotate l with
  | case1 d0 d1 l ih => simp [length_transpose, ih]
  | case2 l h => rfl

/-- `layout_t::reverse()` layout.hpp:942-946: `unrotate(); sub_.reverse();` (`layout_t<0>::reverse` is the identity, 1095). -/
def reverse (l : Layout) : Layout :=
  match _h : unrotate l with
  | [] => []
  | d :: sub => d :: reverse sub
termination_by l.length
decreasing_by
  have := length_unrotate l
  rw [_h] at this
  simp at this
  omega

/-- `layout_t::reindex(index)` layout.hpp:833: `offset_ = idx*stride_`. -/
def reindex1 (l : Layout) (i : Int) : Layout :=
  match l with
  | [] => []
  | d :: sub => { d with offset := i * d.stride } :: sub

/-- `layout_t::reindex(idx, rest...)` layout.hpp:835: `reindex(idx).rotate().reindex(rest...).unrotate()`. -/
def reindex (l : Layout) : List Int → Layout
  | [] => l
  | [i] => reindex1 l i
  | i :: rest => unrotate (reindex (rotate (reindex1 l i)) rest)

/-- `layout_t::take(n)` layout.hpp:966-973 -/
def take (l : Layout) (n : Int) : Layout :=
  match l with
  | [] => []
  | d :: sub => { d with nelems := d.stride * n } :: sub

/-- `layout_t::drop(count)` layout.hpp:898-907 -/
def drop (l : Layout) (n : Int) : Layout :=
  match l with
  | [] => []
  | d :: sub => { d with nelems := d.stride * (d.size - n) } :: sub

/-- `layout_t::slice(first, last)` layout.hpp:909-918:
    `nelems := is_empty() ? 0 : nelems()/size()*(last - first)`. -/
def slice (l : Layout) (a b : Int) : Layout :=
  match l with
  | [] => []
  | d :: sub =>
    { d with nelems := if d.nelems = 0 then 0 else (d.nelems.tdiv d.size) * (b - a) } :: sub

/-- `layout_t::halve()` layout.hpp:975-983 -/
def halve (l : Layout) : Layout :=
  match l with
  | [] => [⟨0, 0, 0⟩]   -- layout_t<0>::halve() layout.hpp:1101-1103
  | d :: sub => ⟨if d.nelems.tdiv 2 ≠ 0 then d.nelems.tdiv 2 else 1, 0, d.nelems⟩ :: (take (d :: sub) (d.size.tdiv 2))

/-- `layout_t::scale(num, den)` layout.hpp:985-989: stride, offset and nelems are all multiplied by `num/den`
    (the two assertions are `scaleAsserts`). -/
def scale (l : Layout) (num den : Int) : Layout :=
  l.map fun d => ⟨(d.stride * num).tdiv den, (d.offset * num).tdiv den, (d.nelems * num).tdiv den⟩

/-- `assert((stride_*num) % den == 0)`, `assert((offset_*num) % den == 0)` at every level -/
def scaleAsserts (l : Layout) (num den : Int) : Bool :=
  l.all fun d => ((d.stride * num).tmod den == 0) && ((d.offset * num).tmod den == 0)

/-- `layout_t::operator()(i, j, ...)` layout.hpp:775-784 via `at_aux_`:
    each level contributes `offset_ + idx*stride_`; the terminal `layout_t<0>::operator()()` returns
    its accumulated offset (1070), which starts at 0. -/
def apply : Layout → List Int → Int
  | d :: l, i :: is => d.offset + i * d.stride + apply l is
  | _, _ => 0

/-- `is_compact()` layout.hpp:869-871: `base_size() == num_elements()`. -/
def baseSize : Layout → Int
  | [] => 0
  | d :: l => max d.nelems (baseSize l)

end Layout

/-! ### `extensions_t<D>` (layout.hpp:79-439) as `List Ext` -/
namespace Exts

/-- `extensions_t::num_elements()` layout.hpp:244-252, 367-369, 303 -/
def numElements : List Ext → Int
  | [] => 1
  | e :: es => e.size * numElements es

/-- `extensions_t::from_linear(n)` layout.hpp:176-182 (D>1), 373-375 (D=1), 307-310 (D=0).
    Division by `sub_num_elements = 0` is an assertion failure in debug builds and UB otherwise:
    the model returns `none`. -/
def fromLinear : List Ext → Int → Option (List Int)
  | [], _ => some []
  | [_], n => some [n]
  | _ :: es, n =>
    let sub := numElements es
    if sub = 0 then none
    else (fromLinear es (n.tmod sub)).map fun r => n.tdiv sub :: r

/-- `extensions_t::to_linear(i, rest...)` layout.hpp:188-192, 383, 313. -/
def toLinear : List Ext → List Int → Int
  | [], _ => 0
  | [_], i :: _ => i
  | _ :: es, i :: is => i * numElements es + toLinear es is
  | _, [] => 0

/-- `extensions_t::next_canonical(idx, rest...)` layout.hpp:200-208 (D>1) and 392-401 (D=1), 318 (D=0).
    Returns the updated index tuple and the carry. -/
def nextCanonical : List Ext → List Int → List Int × Bool
  | [], _ => ([], true)
  | [e], i :: _ => if i == e.back then ([e.first], true) else ([i + 1], false)
  | e :: es, i :: is =>
    let (is', carry) := nextCanonical es is
    let i' := if carry then i + 1 else i
    if i' == e.last then (e.first :: is', true) else (i' :: is', false)
  | _, [] => ([], true)

/-- `extensions_t::prev_canonical` layout.hpp:209-217 (D>1), 402-411 (D=1), 319 (D=0). -/
def prevCanonical : List Ext → List Int → List Int × Bool
  | [], _ => ([], true)
  | [e], i :: _ => if i == e.first then ([e.back], true) else ([i - 1], false)
  | e :: es, i :: is =>
    let (is', carry) := prevCanonical es is
    let i' := if carry then i - 1 else i
    if i' < e.first then (e.back :: is', true) else (i' :: is', false)
  | _, [] => ([], true)

/-- `intersection(extensions_t, extensions_t)` layout.hpp:253-261, 413-420 -/
def inter : List Ext → List Ext → List Ext
  | a :: as, b :: bs => a.inter b :: inter as bs
  | _, _ => []

/-- `operator==(extensions_t, extensions_t)` layout.hpp:170, 364: tuple equality of ranges. -/
def eqv : List Ext → List Ext → Bool
  | [], [] => true
  | a :: as, b :: bs => a.eqv b && eqv as bs
  | _, _ => false

end Exts
end Multi
