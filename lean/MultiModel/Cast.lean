/-
  MultiModel.Cast — transcription of the projection views of include/boost/multi/array_ref.hpp:
    static_array_cast / static_array_cast_   1712-1741 (D>1), 3196-3203 (D=1)
    element_transformed                      1744-1768 (D>1), 3205-3228 (D=1)   with transform_ptr utility.hpp:72-151
    member_cast                              1770-1804 (D>1), 3230-3252 (D=1)   with layout_t::scale layout.hpp:985-989
    const_array_cast / as_const              1809-1835
    reinterpret_array_cast<U>()              1837-1850 (const, D>1), 2281-2301 (mutable, all D), 3257-3264 (const, D=1)
    reinterpret_array_cast<U>(n)             1852-1882 (const, D>1), 2314-2338 (mutable, all D), 3266-3275 (const, D=1)
  and the converting constructor of include/boost/multi/array.hpp:371-396.

  Byte-address semantics.  A *typed* view is a view whose positions count elements of `esz` bytes from a byte
  origin `org`: the element at index tuple `idx` lives at byte `org + esz * v.addr idx`.  A cast computes a new
  pointer value (a byte address) and a new layout; the model takes the new pointer as the origin of the result
  (so the result's `v.base` is 0), which is exactly what "`P2 p2 = …; subarray<T2, D, P2>{layout, p2}`" says.
-/
import MultiModel.View

namespace Multi

/-- a view over elements of `esz` bytes; pointer value `k` of its pointer type is byte `org + esz*k` -/
structure TView where
  esz : Int
  org : Int
  v   : View
deriving DecidableEq, Repr, Inhabited

namespace TView

/-- a view of the line protocol (positions = elements from the buffer start) over elements of `s` bytes -/
def ofView (s : Int) (v : View) : TView := ⟨s, 0, v⟩

/-- byte address of `base_` -/
def ptr (t : TView) : Int := t.org + t.esz * t.v.base
/-- byte address of the element at a full index tuple -/
def byteAddr (t : TView) (idx : List Int) : Int := t.org + t.esz * t.v.addr idx
def exts (t : TView) : List Ext := t.v.exts

/-- `static_array_cast<T2>()`, `const_array_cast<T2>()`, `as_const()` (1712-1735, 1809-1835, 3196-3198):
    `{this->layout(), static_cast/const_cast<P2>(this->base_)}` — layout and pointer value unchanged. -/
def sameCast (t : TView) : TView := t

/-- `member_cast<T2>(pm)` 1770-1795 (D>1), 3230-3252 (D=1):
    `subarray<T2, D, P2>{layout().scale(sizeof(T), sizeof(T2)), static_cast<P2>(&(base_->*member))}`;
    `off` = `offsetof(T, member)`. -/
def memberCast (t : TView) (sT2 off : Int) : TView :=
  ⟨sT2, t.ptr + off, ⟨0, t.v.lay.scale t.esz sT2⟩⟩

/-- `static_assert(sizeof(T)%sizeof(T2) == 0)` and the two assertions (stride, offset) of every level of `scale` -/
def memberCastAsserts (t : TView) (sT2 : Int) : Bool :=
  decide (t.esz.tmod sT2 = 0) && t.v.lay.scaleAsserts t.esz sT2

/-- `reinterpret_array_cast<U>()` via `layout().scale(sizeof(T), sizeof(U))` and `reinterpret_pointer_cast<P2>(base_)`
    (1837-1850 const D>1; 2281-2301 mutable, every D). -/
def reinterpret (t : TView) (sU : Int) : TView :=
  ⟨sU, t.ptr, ⟨0, t.v.lay.scale t.esz sU⟩⟩

def reinterpretAsserts (t : TView) (sU : Int) : Bool := t.v.lay.scaleAsserts t.esz sU

/-- the `const&` overload of the D = 1 specialisation (3257-3264) does not call `scale`: it rebuilds the level as
    `{sub, stride*sizeof(T)/sizeof(U), offset*sizeof(T)/sizeof(U), nelems*sizeof(T)/sizeof(U)}` (the same arithmetic as
    `scale` since the fix "member_cast / reinterpret_array_cast on views with non-zero index bases scale the offset") and
    asserts only `stride*sizeof(T) % sizeof(U) == 0`. -/
def reinterpret1 (t : TView) (sU : Int) : TView :=
  match t.v.lay with
  | [d] => ⟨sU, t.ptr, ⟨0, [⟨(d.stride * t.esz).tdiv sU, (d.offset * t.esz).tdiv sU, (d.nelems * t.esz).tdiv sU⟩]⟩⟩
  | _ => t.reinterpret sU

def reinterpret1Asserts (t : TView) (sU : Int) : Bool :=
  match t.v.lay with
  | [d] => (d.stride * t.esz).tmod sU == 0
  | _ => t.reinterpretAsserts sU

/-- `reinterpret_array_cast<U>(n)` (1852-1882, 2314-2338):
    `layout_t<D+1>(layout().scale(sizeof(T), sizeof(U)), 1, 0, n).rotate()` with the reinterpreted `base_`. -/
def reinterpretN (t : TView) (sU n : Int) : TView :=
  ⟨sU, t.ptr, ⟨0, Layout.rotate (⟨1, 0, n⟩ :: t.v.lay.scale t.esz sU)⟩⟩

/-- the D = 1 `const&` overload (3266-3275) builds `subarray<U, 2, P2>{layout_t<2>{scaled, 1, 0, n}, ptr}` and then
    calls `.rotated()` on the view -/
def reinterpretN1 (t : TView) (sU n : Int) : TView :=
  ⟨sU, t.ptr, (View.rotated ⟨0, ⟨1, 0, n⟩ :: t.v.lay.scale t.esz sU⟩)⟩

/-- `static_assert(sizeof(T)%sizeof(U) == 0)`, `BOOST_MULTI_ASSERT(sizeof(T) == sizeof(U)*count)` (absent from the
    D = 1 const overload) and the assertions of `scale` -/
def reinterpretNAsserts (t : TView) (sU n : Int) : Bool :=
  decide (t.esz.tmod sU = 0) && decide (t.esz = sU * n) && t.v.lay.scaleAsserts t.esz sU

/-- a view-forming operation acts on the pointer positions of the typed view (pointer arithmetic in units of `esz`) -/
def map (t : TView) (f : View → View) : TView := { t with v := f t.v }

end TView

/-! ### `transform_ptr` (utility.hpp:72-151) and `element_transformed` -/

/-- displacement accumulated by indexing with a full tuple: `Σ (idxₖ·strideₖ − offsetₖ)` (array_ref.hpp:1131, 2812) -/
def Layout.disp : Layout → List Int → Int
  | d :: l, i :: is => (i * d.stride - d.offset) + Layout.disp l is
  | _, _ => 0

/-- `transform_ptr<T, UF, Ptr, Ref>`: the wrapped pointer `p_` (as a byte address) and the functor `f_` -/
structure TransformPtr (α β : Type) where
  p : Int
  esz : Int
  f : α → β

namespace TransformPtr
variable {α β : Type}
/-- `operator+(n)` 132: `transform_ptr{*this} += n` i.e. `p_ += n` (pointer arithmetic in elements of the source type) -/
def add (tp : TransformPtr α β) (n : Int) : TransformPtr α β := { tp with p := tp.p + tp.esz * n }
/-- `operator*()` 112-116: `std::invoke(f_, *p_)` — the source is read when the pointer is dereferenced -/
def deref (mem : Int → α) (tp : TransformPtr α β) : β := tp.f (mem tp.p)
/-- `operator[](n)` 137: `*((*this) + n)` -/
def at' (mem : Int → α) (tp : TransformPtr α β) (n : Int) : β := (tp.add n).deref mem
end TransformPtr

/-- `element_transformed(f)` 1744-1768, 3205-3228: `static_array_cast_<R, transform_ptr<R, UF, ptr>>(f)` =
    `subarray<R, D, P2>(this->layout(), P2{this->base_, f})`: the source's layout over a `transform_ptr`. -/
structure XView (α β : Type) where
  src : TView
  f : α → β

namespace XView
variable {α β : Type}
def exts (x : XView α β) : List Ext := x.src.exts
/-- the pointer of the transformed view -/
def basePtr (x : XView α β) : TransformPtr α β := ⟨x.src.ptr, x.src.esz, x.f⟩
/-- indexing a view over a `transform_ptr` with a full index tuple: `base_ + Σ(idxₖ·strideₖ − offsetₖ)`
    (array_ref.hpp:1131, 2812; the `+` is `transform_ptr::operator+`) -/
def ptrAt (x : XView α β) (idx : List Int) : TransformPtr α β := x.basePtr.add (x.src.v.lay.disp idx)
/-- value of the element at `idx` when memory is `mem` -/
def read (mem : Int → α) (x : XView α β) (idx : List Int) : β := (x.ptrAt idx).deref mem
def map (x : XView α β) (f : View → View) : XView α β := { x with src := x.src.map f }
end XView

def TView.elementTransformed {α β : Type} (t : TView) (f : α → β) : XView α β := ⟨t, f⟩

/-- value of the element of a typed view at `idx` when memory (indexed by byte address) is `mem` -/
def TView.read {α : Type} (mem : Int → α) (t : TView) (idx : List Int) : α := mem (t.byteAddr idx)

/-- a reference-returning functor designates a sub-object of its argument: `g` maps the byte address of the source
    element to the byte address of the object the returned reference is bound to.  Assigning through the
    transformed view's element stores at that address. -/
def XView.refAddr {α : Type} (x : XView α α) (g : Int → Int) (idx : List Int) : Int := g (x.ptrAt idx).p

def memWrite {α : Type} (mem : Int → α) (a : Int) (val : α) : Int → α := fun b => if b = a then val else mem b

/-! ### `array(view)` — array.hpp:371-396

  `ref(allocate(layout_t{other.extensions()}.num_elements()), other.extensions())` then
  `uninitialized_copy_n(other.elements().begin(), this->num_elements(), this->data_elements())`:
  the k-th element of the new block is the conversion of the k-th element of `other` in canonical order. -/

structure CtorResult (γ : Type) where
  lay : Layout
  data : List γ      -- contents of the new block `[data_elements(), data_elements() + num_elements())`

def constructFrom {β γ : Type} (es : List Ext) (read : List Int → β) (conv : β → γ) : CtorResult γ :=
  let lay := Layout.ofExts es
  let n := lay.numElements.toNat
  ⟨lay, ((boxIndices es).take n).map fun idx => conv (read idx)⟩

end Multi
