/-
  MultiModel.Store — element storage and everything that reads or writes elements through views:
  assignment, fill, swap, equality, ordering (include/boost/multi/array_ref.hpp).

  Memory is one address space `Mem α := Int → α`; addresses are the same `Int` offsets that `View.addr` and the
  iterators of MultiModel.Iter produce.  Every function below transcribes one C++ function (cited) and calls
  the iterator operations of MultiModel.Iter exactly where the C++ calls them.

  The standard algorithms that the library calls through `adl_copy`, `adl_copy_n`, `adl_fill_n`,
  `adl_swap_ranges`, `adl_equal`, `adl_lexicographical_compare` (detail/adl.hpp: for the iterator types used here
  every one resolves to the `std::` algorithm) are modelled by their contract over the *library's* iterators:
  a counted loop `n = last - first` that dereferences, assigns/compares and increments.  (libstdc++ implements
  them that way for random-access iterators; `it != last ⇔ remaining count ≠ 0` is one of the iterator laws of C02.)
  Assertion failures (`BOOST_MULTI_ASSERT`) and constructs that do not compile are `none`.
-/
import MultiModel.Iter

namespace Multi

/-- the storage: one cell per address -/
abbrev Mem (α : Type) := Int → α

namespace Mem
/-- `*p = x`  (`noinline`: keeps the compiled driver from moving the evaluation of `x` into the closure) -/
@[noinline] def write (m : Mem α) (a : Int) (x : α) : Mem α := fun b => if b = a then x else m b
end Mem

/-! ### loops over `elements_iterator_t`

`++it` is `ElemIt.inc : ElemIt → Option ElemIt` (`none` = the division by zero inside `from_linear`, never reached from a
constructed iterator).  Every loop performs the same increments as the C++ — including the last one, which steps the
iterators to (or past) the end — so a loop is `none` exactly when one of its increments is. -/
namespace ElemIt

/-- `std::copy(first, last, d_first)`, `n = last - first`: `*d = *s; ++s; ++d;` -/
def copyN : Nat → ElemIt → ElemIt → Mem α → Option (Mem α)
  | 0, _, _, m => some m
  | n + 1, s, d, m => do
    let m' := m.write d.current (m s.current)
    let s' ← s.inc
    let d' ← d.inc
    copyN n s' d' m'

/-- the same loop when the source iterator yields rvalues (`element_moved()`, `std::move(view).elements()` over a
    move pointer): `*d = std::move(*s)`; the moved-from element is left in the state `moved` that the element
    type's move assignment prescribes (for trivially movable types `moved` is never written: use `copyN`). -/
def moveN (moved : α) : Nat → ElemIt → ElemIt → Mem α → Option (Mem α)
  | 0, _, _, m => some m
  | n + 1, s, d, m => do
    let m' := (m.write d.current (m s.current)).write s.current moved
    let s' ← s.inc
    let d' ← d.inc
    moveN moved n s' d' m'

/-- `std::copy_n(values.begin(), n, d_first)` from a sequence of values (initializer list, decayed row) -/
def storeN : List α → ElemIt → Mem α → Option (Mem α)
  | [], _, m => some m
  | x :: xs, d, m => do
    let m' := m.write d.current x
    let d' ← d.inc
    storeN xs d' m'

/-- `std::swap_ranges(first1, last1, first2)`: `std::iter_swap(a, b)` = `tmp = *a; *a = *b; *b = tmp` -/
def swapN : Nat → ElemIt → ElemIt → Mem α → Option (Mem α)
  | 0, _, _, m => some m
  | n + 1, a, b, m => do
    let x := m a.current
    let y := m b.current
    let m' := (m.write a.current y).write b.current x
    let a' ← a.inc
    let b' ← b.inc
    swapN n a' b' m'

/-- `std::equal(first1, last1, first2)`: `for(; first1 != last1; ++first1, ++first2) if(!(*first1 == *first2)) return false;` -/
def equalN [DecidableEq α] (m : Mem α) : Nat → ElemIt → ElemIt → Option Bool
  | 0, _, _ => some true
  | n + 1, a, b =>
    if m a.current = m b.current then do
      let a' ← a.inc
      let b' ← b.inc
      equalN m n a' b'
    else some false

/-- the values a range yields when it is read front to back (`array(view)` / `decay()` copy-construct from
    `elements()`; also what `std::vector<T>(elements().begin(), elements().end())` holds) -/
def readN (m : Mem α) : Nat → ElemIt → Option (List α)
  | 0, _ => some []
  | n + 1, it => do
    let x := m it.current
    let it' ← it.inc
    let rest ← readN m n it'
    pure (x :: rest)

end ElemIt

/-! ### loops over `array_iterator` (`begin()/end()` of a view) -/
namespace ArrIt

/-- `std::fill_n(first, n, value)` on a 1-D view's iterator: `*first = value; ++first;` -/
def fillN (x : α) : Nat → ArrIt → Mem α → Mem α
  | 0, _, m => m
  | n + 1, it, m => fillN x n it.inc (m.write it.deref.base x)

/-- `std::copy_n(first, n, begin())` into a 1-D view from a sequence of values -/
def storeN : List α → ArrIt → Mem α → Mem α
  | [], _, m => m
  | x :: xs, it, m => storeN xs it.inc (m.write it.deref.base x)

end ArrIt

/-! ### loops over raw pointers (`array_ref`: `data_elements()`) -/

/-- `std::copy_n(first, n, d_first)` on element pointers (forward; for trivially copyable elements libstdc++ uses
    `memmove`, which differs only when the two ranges overlap — outside the property's quantifier) -/
def copyFlat : Nat → Int → Int → Mem α → Mem α
  | 0, _, _, m => m
  | n + 1, s, d, m => copyFlat n (s + 1) (d + 1) (m.write d (m s))

/-- `std::equal(first1, first1 + n, first2)` on element pointers -/
def equalFlat [DecidableEq α] (m : Mem α) : Nat → Int → Int → Bool
  | 0, _, _ => true
  | n + 1, a, b => if m a = m b then equalFlat m n (a + 1) (b + 1) else false

/-! ### `elements_range_t` -/
namespace ElemRange

/-- `elements_range_t::operator=(OtherElementRange&&)` array_ref.hpp:1002-1013 (and 996-999):
    `BOOST_MULTI_ASSERT(size() == other.size()); if(! is_empty()) {adl_copy(begin(other), end(other), begin());}` -/
def assign (dst src : ElemRange) (m : Mem α) : Option (Mem α) :=
  if dst.size ≠ src.size then none
  else if dst.isEmpty then some m
  else do
    let b ← src.begin'
    let e ← src.end'
    let d ← dst.begin'
    ElemIt.copyN (e.diff b).toNat b d m

/-- the same operator when `other` is an rvalue range over a move pointer (`element_moved()`) -/
def assignMoved (moved : α) (dst src : ElemRange) (m : Mem α) : Option (Mem α) :=
  if dst.size ≠ src.size then none
  else if dst.isEmpty then some m
  else do
    let b ← src.begin'
    let e ← src.end'
    let d ← dst.begin'
    ElemIt.moveN moved (e.diff b).toNat b d m

/-- `elements_range_t::operator=(std::initializer_list<value_type>)` 1016-1020:
    `BOOST_MULTI_ASSERT(values.size() == size()); adl_copy_n(values.begin(), values.size(), begin());`
    — also the effect of assigning an owning array (contiguous, canonical order) to this range -/
def assignVals (dst : ElemRange) (vals : List α) (m : Mem α) : Option (Mem α) :=
  if (vals.length : Int) ≠ dst.size then none
  else do
    let d ← dst.begin'
    ElemIt.storeN vals d m

/-- `elements_range_t::swap` 964-967: `BOOST_MULTI_ASSERT(size() == other.size()); adl_swap_ranges(begin(), end(), other.begin())` -/
def swap (a b : ElemRange) (m : Mem α) : Option (Mem α) :=
  if a.size ≠ b.size then none
  else do
    let ab ← a.begin'
    let ae ← a.end'
    let bb ← b.begin'
    ElemIt.swapN (ae.diff ab).toNat ab bb m

/-- `elements_range_t::operator==` 955-958: `size() == other.size() && adl_equal(other.begin(), other.end(), begin())` -/
def eq [DecidableEq α] (self other : ElemRange) (m : Mem α) : Option Bool :=
  if self.size ≠ other.size then some false
  else do
    let ob ← other.begin'
    let oe ← other.end'
    let sb ← self.begin'
    ElemIt.equalN m (oe.diff ob).toNat ob sb

/-- `elements_range_t::operator!=` 959-962: `size() != other.size() || ! adl_equal(other.begin(), other.end(), begin())` -/
def ne [DecidableEq α] (self other : ElemRange) (m : Mem α) : Option Bool :=
  if self.size ≠ other.size then some true
  else do
    let ob ← other.begin'
    let oe ← other.end'
    let sb ← self.begin'
    (ElemIt.equalN m (oe.diff ob).toNat ob sb).map fun r => !r

/-- the values of the range, front to back -/
def read (r : ElemRange) (m : Mem α) : Option (List α) := do
  let b ← r.begin'
  let e ← r.end'
  ElemIt.readN m (e.diff b).toNat b

end ElemRange

/-! ### views -/
namespace View

/-- `subarray::operator=(const_subarray<T, D, ElementPtr, Layout> const&) &` 2063-2068, `operator=(subarray const&)` 2171-2176,
    `operator=(subarray&&)` 2177-2182 (trivially movable elements), `operator=(const_subarray<TT, D, As...> const&) &&` 2142-2146:
    `BOOST_MULTI_ASSERT(this->extensions() == other.extensions()); this->elements() = other.elements();`
    (the `this == &other` shortcut of 2064/2172 returns the unchanged memory, which is also what the loop computes).
    `subarray<T, 0>` has no `elements()`: the expression does not compile (`none`). -/
def assign (dst src : View) (m : Mem α) : Option (Mem α) :=
  match dst.lay with
  | [] => none
  | _ :: _ =>
    if Exts.eqv dst.exts src.exts then (ElemRange.ofView dst).assign (ElemRange.ofView src) m else none

/-- `template<class TT, class... As> operator=(const_subarray<TT, D, As...> const&) &` 2093-2097 (other element or pointer
    type) and the `&&` source overload 2101-2105: `BOOST_MULTI_ASSERT(other.extensions() == this->extensions()); this->elements() = other.elements();` -/
def assignT (dst src : View) (m : Mem α) : Option (Mem α) :=
  match dst.lay with
  | [] => none
  | _ :: _ =>
    if Exts.eqv src.exts dst.exts then (ElemRange.ofView dst).assign (ElemRange.ofView src) m else none

/-- `dst = src.element_moved()` (2342: a view of the same layout over `element_move_ptr`), through 2093-2097 -/
def assignMoved (moved : α) (dst src : View) (m : Mem α) : Option (Mem α) :=
  match dst.lay with
  | [] => none
  | _ :: _ =>
    if Exts.eqv src.exts dst.exts then (ElemRange.ofView dst).assignMoved moved (ElemRange.ofView src) m else none

/-- `dst.elements() = src.elements()` -/
def assignElements (dst src : View) (m : Mem α) : Option (Mem α) :=
  match dst.lay with
  | [] => none
  | _ :: _ => (ElemRange.ofView dst).assign (ElemRange.ofView src) m

/-- 0-D: `array_ref<T, 0>::operator=(array_ref const&)` 3416-3422 (`copy_elements_`: `adl_copy_n(first, num_elements() = 1, data_elements())`)
    and `const_subarray<T, 0>::operator=(element const&)` 2578-2582 (`adl_copy_n(&elem, 1, base_)`) -/
def assign0 (dst : View) (x : α) (m : Mem α) : Mem α := m.write dst.base x

/-- `array_ref::operator=(array_ref const&) &` 3416-3422:
    `BOOST_MULTI_ASSERT(num_elements() == other.num_elements()); copy_elements_(other.data_elements())`, with
    `copy_elements_(first) = adl_copy_n(first, num_elements(), data_elements())` 3402-3404.  The operands are whole
    `array_ref`s: `data_elements()` is the base. -/
def arefAssign (dst src : View) (m : Mem α) : Option (Mem α) :=
  if dst.numElements ≠ src.numElements then none
  else some (copyFlat dst.numElements.toNat src.base dst.base m)

/-- `template<typename TT, ...> array_ref::operator=(array_ref<TT, DD, As...> const&) &` 3444-3448 (other element type):
    `BOOST_MULTI_ASSERT(extensions() == other.extensions()); adl_copy_n(other.data_elements(), other.num_elements(), data_elements())` -/
def arefAssignT (dst src : View) (m : Mem α) : Option (Mem α) :=
  if Exts.eqv dst.exts src.exts then some (copyFlat src.numElements.toNat src.base dst.base m) else none

/-- `subarray::fill(value) &` 2003-2005: `adl_fill_n(this->begin(), this->size(), value)`.  Compiles only for D = 1
    (for D > 1 `*it = value` has no viable `operator=`). -/
def fill (v : View) (x : α) (m : Mem α) : Option (Mem α) :=
  match v.lay with
  | [_] => some (ArrIt.fillN x v.size.toNat v.begin' m)
  | _ => none

/-- D = 1: `subarray::assign(It first) &` 1999 (`adl_copy_n(first, this->size(), begin())`), `assign(first, last)` 2795-2798,
    `operator=(std::initializer_list<value_type>)` 2185-2191 (asserts `values.size() == size()`),
    `operator=(Range const&)` 2112-2117 (asserts `size() == adl_size(rng)`; `adl_copy_n(adl_begin(rng), adl_size(rng), begin())`). -/
def assignVals1 (v : View) (vals : List α) (m : Mem α) : Option (Mem α) :=
  match v.lay with
  | [_] => if (vals.length : Int) = v.size then some (ArrIt.storeN vals v.begin' m) else none
  | _ => none

/-- D ≥ 2: `operator=(std::initializer_list<value_type>)` 2185-2191 with `value_type = array<T, D-1>`:
    `adl_copy_n(values.begin(), values.size(), this->begin())`, each `*it = row` being `subarray<T, D-1>::operator=(const_subarray const&)`
    from a contiguous array, i.e. `(*it).elements() = row.elements()`.  `rows` are the rows' elements in canonical order. -/
def rowsLoop : List (List α) → ArrIt → Mem α → Option (Mem α)
  | [], _, m => some m
  | r :: rs, it, m =>
    match (ElemRange.ofView it.deref).assignVals r m with
    | none => none
    | some m' => rowsLoop rs it.inc m'

def assignRows (v : View) (rows : List (List α)) (m : Mem α) : Option (Mem α) :=
  match v.lay with
  | _ :: _ :: _ => if (rows.length : Int) = v.size then rowsLoop rows v.begin' m else none
  | _ => none

/-- D = 2 from a range of ranges (`std::vector<std::vector<T>>`): `operator=(Range const&)` 2112-2117 on the view and,
    through `*it = inner`, again on each 1-D row -/
def rangeRowsLoop : List (List α) → ArrIt → Mem α → Option (Mem α)
  | [], _, m => some m
  | r :: rs, it, m =>
    match it.deref.assignVals1 r m with
    | none => none
    | some m' => rangeRowsLoop rs it.inc m'

def assignRangeRows (v : View) (rows : List (List α)) (m : Mem α) : Option (Mem α) :=
  match v.lay with
  | [_, _] => if (rows.length : Int) = v.size then rangeRowsLoop rows v.begin' m else none
  | _ => none

/-- `subarray::swap(subarray&&) &&` 2070-2073 (and the friend `swap` 2074):
    `BOOST_MULTI_ASSERT(extensions() == other.extensions()); adl_swap_ranges(elements().begin(), elements().end(), other.elements().begin())` -/
def swap (a b : View) (m : Mem α) : Option (Mem α) :=
  match a.lay with
  | [] => none
  | _ :: _ =>
    if Exts.eqv a.exts b.exts then do
      let ab ← (ElemRange.ofView a).begin'
      let ae ← (ElemRange.ofView a).end'
      let bb ← (ElemRange.ofView b).begin'
      ElemIt.swapN (ae.diff ab).toNat ab bb m
    else none

/-- the value of a view: its elements in canonical order (what `array(view)`, `+view`, `decay()` copy) -/
def read (v : View) (m : Mem α) : Option (List α) :=
  match v.lay with
  | [] => some [m v.base]
  | _ :: _ => (ElemRange.ofView v).read m

/-! #### equality -/

/-- `operator==` of views: D > 1 1684-1686/1692-1694 `extensions() == other.extensions() && elements() == other.elements()`;
    D = 1 3149-3169 `extension() == other.extension() && elements() == other.elements()` (the same thing for one dimension);
    D = 0 2606 `adl_equal(other.base_, other.base_ + 1, this->base_)`. -/
def eq [DecidableEq α] (self other : View) (m : Mem α) : Option Bool :=
  match self.lay with
  | [] => some (decide (m other.base = m self.base))
  | _ :: _ =>
    if Exts.eqv self.exts other.exts then (ElemRange.ofView self).eq (ElemRange.ofView other) m else some false

/-- `operator!=` of views: 1688-1690/1695-1697, 3156-3177 `extensions() != other.extensions() || elements() != other.elements()`;
    D = 0 2605 `! adl_equal(...)`.  (`extensions_t !=` is tuple `!=`, `range !=` is `!(==)` index_range.hpp:205.) -/
def ne [DecidableEq α] (self other : View) (m : Mem α) : Option Bool :=
  match self.lay with
  | [] => some (!decide (m other.base = m self.base))
  | _ :: _ =>
    if !(Exts.eqv self.exts other.exts) then some true else (ElemRange.ofView self).ne (ElemRange.ofView other) m

/-- `array_ref == array_ref` 3483-3501: `if(self.extensions() != other.extensions()) return false;
    return adl_equal(other.data_elements(), other.data_elements() + other.num_elements(), self.data_elements());` -/
def arefEq [DecidableEq α] (self other : View) (m : Mem α) : Bool :=
  if !(Exts.eqv self.exts other.exts) then false
  else equalFlat m other.numElements.toNat other.base self.base

/-- `array_ref != array_ref` 3510-3517 -/
def arefNe [DecidableEq α] (self other : View) (m : Mem α) : Bool :=
  if !(Exts.eqv self.exts other.exts) then true
  else !(equalFlat m other.numElements.toNat other.base self.base)

end View

/-! #### ordering -/

/-- `std::lexicographical_compare(first1, last1, first2, last2)` over `array_iterator`s, the two ranges given by their
    first pointer, stride and remaining length (`last - first`, i.e. `size()`):
    `for(; first1 != last1 && first2 != last2; ++first1, ++first2) { if(*first1 < *first2) return true; if(*first2 < *first1) return false; }
     return first1 == last1 && first2 != last2;`
    `lt12 p q` is `*first1 < *first2` at row pointers `p`, `q`; `lt21 q p` is `*first2 < *first1`. -/
def lexRows (lt12 : Int → Int → Bool) (lt21 : Int → Int → Bool) : Nat → Nat → Int → Int → Int → Int → Bool
  | 0, 0, _, _, _, _ => false
  | 0, _ + 1, _, _, _, _ => true
  | _ + 1, 0, _, _, _, _ => false
  | n1 + 1, n2 + 1, p1, s1, p2, s2 =>
    if lt12 p1 p2 then true
    else if lt21 p2 p1 then false
    else lexRows lt12 lt21 n1 n2 (p1 + s1) s1 (p2 + s2) s2

/-- `lexicographical_compare(self, other)` D > 1 1699-1706, D = 1 `lexicographical_compare_` 3187-3195:
    `if(self.extension().first() > other.extension().first()) return true; if(… < …) return false;
     return adl_lexicographical_compare(self.begin(), self.end(), other.begin(), other.end());`
    `*it1 < *it2` on rows is this function again (D > 2: member `operator<` 1708; D = 2: the 1-D friend 3179);
    on elements (D = 1) it is the element type's `<`; D = 0 2608-2613: `adl_lexicographical_compare(base_, base_ + 1, other.base_, other.base_ + 1)`,
    which for one element on each side is `*base_ < *other.base_`.
    A view is given as (layout, base); `begin()` has pointer `base` and stride `stride()`, `end() - begin()` is `size()`. -/
def lexCompare (lt : α → α → Bool) (m : Mem α) : Layout → Int → Layout → Int → Bool
  | [], b1, [], b2 => lt (m b1) (m b2)
  | d1 :: s1, b1, d2 :: s2, b2 =>
    if d1.ext.first > d2.ext.first then true
    else if d1.ext.first < d2.ext.first then false
    else lexRows (fun p q => lexCompare lt m s1 p s2 q) (fun q p => lexCompare lt m s2 q s1 p)
      d1.size.toNat d2.size.toNat b1 d1.stride b2 d2.stride
  | _, _, _, _ => false
termination_by l1 _ l2 _ => l1.length + l2.length
decreasing_by all_goals simp_wf <;> omega

namespace View

/-- `operator<` 1708 / 3179 / 2608 -/
def lt (ltE : α → α → Bool) (a b : View) (m : Mem α) : Bool := lexCompare ltE m a.lay a.base b.lay b.base

/-- `operator>`: D > 1 1710 `other < *this`; D = 1 3180 `lexicographical_compare_(other, self)`;
    D = 0: both operands convert to `element_cref` and the built-in `>` applies -/
def gt (ltE : α → α → Bool) (a b : View) (m : Mem α) : Bool := lexCompare ltE m b.lay b.base a.lay a.base

/-- `operator<=`: D > 1 1709 `*this == other || lexicographical_compare(*this, other)`;
    D = 1 3182 `lexicographical_compare_(self, other) || self == other`;
    D = 0: built-in `<=` on the elements, i.e. `!(y < x)` -/
def le [DecidableEq α] (ltE : α → α → Bool) (a b : View) (m : Mem α) : Option Bool :=
  match a.lay with
  | [] => some (!(ltE (m b.base) (m a.base)))
  | [_] => if lt ltE a b m then some true else a.eq b m
  | _ => do
    let e ← a.eq b m
    pure (e || lt ltE a b m)

/-- `operator>=`: exists only for D = 1, 3183 `lexicographical_compare_(other, self) || self == other`; D = 0: built-in `>=` -/
def ge [DecidableEq α] (ltE : α → α → Bool) (a b : View) (m : Mem α) : Option Bool :=
  match a.lay with
  | [] => some (!(ltE (m a.base) (m b.base)))
  | [_] => if gt ltE a b m then some true else a.eq b m
  | _ => none

end View

end Multi
