/-
  MultiModel.Ledger — resource discipline of the owning arrays (`multi::static_array`, `multi::array`):
  transcription of include/boost/multi/array.hpp (array_allocator 42-113; static_array constructors, destructor,
  clear, deallocate 167-645; array special members 1285-1625; line numbers as of /repo commit ecc6b21) and of the rollback handlers of
  include/boost/multi/detail/adl.hpp:199-465, as sequences of *micro-steps* over

    * a heap of blocks `{alloc, size, cells}` with cell state raw | live,
    * a ledger of events  alloc id n | ctor id off | assign id off | dtor id off | dealloc id n,
    * a pool of arrays `{alloc, base?, extensions, num_elements}`,

  with a fault parameter (`fuel`): the k-th fallible step (allocation, element construction, element assignment)
  throws; C++ unwinding is a function (`tryCatch`, `noexcept`; a constructor that throws from its body does not run
  `~static_array`, so the block obtained in the mem-initialiser is not returned).

  Allocator identity, the four traits (POCCA, POCMA, POCS, is_always_equal) and
  `select_on_container_copy_construction` are parameters (`Cfg`), consulted exactly where the code consults them.
  The flags `fx6 … fx9c` select the code as repaired by fixes/F6.patch … F9c.patch (false = the code before that repair).

  Core Lean only.  Values of elements are not modelled (C04–C06 do that); only lifetime and ownership.
-/
import MultiModel.Layout

namespace Multi
namespace Ledger

abbrev AllocId := Nat

/-- state of one element-sized cell of a block -/
inductive Cell where
  | raw   -- storage without an object (for trivial element types: never written)
  | live  -- a constructed object (for trivial element types: written)
deriving DecidableEq, Repr, Inhabited

/-- one block obtained from `allocator_traits::allocate` -/
structure Block where
  alloc : AllocId      -- instance that produced it
  size : Nat           -- number of elements requested
  cells : List Cell
  freed : Bool         -- given back
  freedBy : AllocId    -- instance it was given back through (meaningful when `freed`)
deriving DecidableEq, Repr, Inhabited

inductive Event where
  | alloc (blk n : Nat) (a : AllocId)
  | ctor (blk off : Nat)
  | assign (blk off : Nat)
  | dtor (blk off : Nat)
  | dealloc (blk n : Nat) (a : AllocId)
deriving DecidableEq, Repr, Inhabited

/-- class of a fallible step -/
inductive Step where
  | alloc | ctor | assign
deriving DecidableEq, Repr, Inhabited

/-- an owning array: `array_allocator::alloc_`, `base_`, and of the layout what the resource discipline consults:
    `extensions()` (branch decisions) and `num_elements()` (sizes) -/
structure Arr where
  alloc : AllocId
  base : Option Nat    -- `none` = nullptr, `some id` = pointer to block `id` (possibly dangling)
  ext : List Ext       -- extensions() as reported
  n : Nat              -- num_elements()
deriving DecidableEq, Repr, Inhabited

/-- configuration: allocator traits, element-type traits, dimensionality, repair flags -/
structure Cfg where
  dim : Nat := 1
  pocca : Bool := false   -- propagate_on_container_copy_assignment
  pocma : Bool := false   -- propagate_on_container_move_assignment
  pocs : Bool := false    -- propagate_on_container_swap
  iae : Bool := false     -- is_always_equal
  socc : Nat := 0         -- select_on_container_copy_construction: 0 identity, 1 `id & ~1`, 2 default instance (pmr)
  trivCtor : Bool := false  -- is_trivially_default_constructible<T>
  trivDtor : Bool := false  -- is_trivially_destructible<T>
  elemThrows : Bool := true -- element constructions / assignments are fallible steps (instrumented element type)
  fx6 : Bool := false
  fx7 : Bool := false
  fx8 : Bool := false
  fx9 : Bool := false     -- fixes/F9d.patch: temporaries use the target's allocator
  fx9a : Bool := false    -- fixes/F9.patch: move assignment / allocator-extended move construction between unequal allocators
  fx9c : Bool := false    -- fixes/F9c.patch: POCCA copy assignment between unequal allocators reallocates
deriving DecidableEq, Repr, Inhabited

/-- `operator==` of two allocator instances -/
def Cfg.eqv (c : Cfg) (a b : AllocId) : Bool := c.iae || a == b
/-- `allocator_traits::select_on_container_copy_construction` -/
def Cfg.select (c : Cfg) (a : AllocId) : AllocId :=
  if c.socc = 0 then a else if c.socc = 1 then a - a % 2 else 0
/-- `allocator_type{}` -/
def defaultAlloc : AllocId := 0

structure St where
  blocks : List Block := []
  arrs : List (Option Arr) := []   -- the pool: `none` = no object in that slot
  log : List Event := []
  fuel : Option Nat := none        -- `some k`: k more fallible steps succeed, the next one throws
  fired : Option Step := none      -- class of the step that threw
  wrong : Bool := false            -- some block was given back through an allocator unequal to its producer
deriving Repr, Inhabited

/-- outcome of running micro-steps -/
inductive Res (α : Type) where
  | ok (a : α) (s : St)
  | threw (s : St)      -- an exception is propagating
  | term (s : St)       -- std::terminate (exception leaving a noexcept function)
  | ub (s : St)         -- undefined behaviour / violation of the lifetime discipline
deriving Inhabited

abbrev M (α : Type) := St → Res α

@[inline] def M.pure (a : α) : M α := fun s => .ok a s
@[inline] def M.bind (m : M α) (f : α → M β) : M β := fun s =>
  match m s with
  | .ok a s' => f a s'
  | .threw s' => .threw s'
  | .term s' => .term s'
  | .ub s' => .ub s'

instance : Monad M where
  pure := M.pure
  bind := M.bind

/-- `throw;` -/
def rethrow : M α := fun s => .threw s
/-- undefined behaviour -/
def ub : M α := fun s => .ub s
/-- `try { m } catch(...) { h }` -/
def tryCatch (m : M α) (h : M α) : M α := fun s =>
  match m s with
  | .threw s' => h s'
  | r => r
/-- a `noexcept` function: an escaping exception calls std::terminate -/
def noexcept (m : M α) : M α := fun s =>
  match m s with
  | .threw s' => .term s'
  | r => r

def get : M St := fun s => .ok s s
def modify (f : St → St) : M Unit := fun s => .ok () (f s)
def emit (e : Event) : M Unit := modify fun s => { s with log := s.log ++ [e] }

/-- a fallible step: with `fuel = some 0` it throws (once) -/
def tick (c : Step) : M Unit := fun s =>
  match s.fuel with
  | none => .ok () s
  | some 0 => .threw { s with fuel := none, fired := some c }
  | some (k + 1) => .ok () { s with fuel := some k }

/-! ### micro-steps -/

def freshBlock (a : AllocId) (n : Nat) : Block := ⟨a, n, List.replicate n .raw, false, 0⟩

/-- `array_allocator::allocate` array.hpp:60-65: `n ? allocator_traits::allocate(alloc_, n) : pointer{nullptr}` -/
def allocate (a : AllocId) (n : Nat) : M (Option Nat) := fun s =>
  if n = 0 then .ok none s else
  match tick .alloc s with
  | .ok _ s1 =>
    .ok (some s1.blocks.length)
      { s1 with blocks := s1.blocks ++ [freshBlock a n], log := s1.log ++ [.alloc s1.blocks.length n a] }
  | .threw s1 => .threw s1
  | .term s1 => .term s1
  | .ub s1 => .ub s1

def setCell (s : St) (b off : Nat) (blk : Block) (c : Cell) : St :=
  { s with blocks := s.blocks.set b { blk with cells := blk.cells.set off c } }

/-- `allocator_traits::construct(alloc, p + off, …)` / placement new: a fallible step (when the element type can throw);
    constructing over a live object or outside an outstanding block is a violation -/
def ctorCell (c : Cfg) (b off : Nat) : M Unit := fun s =>
  match s.blocks[b]? with
  | none => .ub s
  | some blk =>
    if blk.freed || blk.cells[off]? != some Cell.raw then .ub s else
    match (if c.elemThrows then tick .ctor s else .ok () s) with
    | .ok _ s1 => .ok () { setCell s1 b off blk .live with log := s1.log ++ [.ctor b off] }
    | .threw s1 => .threw s1
    | .term s1 => .term s1
    | .ub s1 => .ub s1

/-- element assignment `p[off] = …`: a fallible step; the target must be alive (trivial element types: any cell) -/
def assignCell (c : Cfg) (b off : Nat) : M Unit := fun s =>
  match s.blocks[b]? with
  | none => .ub s
  | some blk =>
    if blk.freed || !(blk.cells[off]? == some Cell.live || (c.trivCtor && blk.cells[off]? == some Cell.raw)) then .ub s else
    match (if c.elemThrows then tick .assign s else .ok () s) with
    | .ok _ s1 => .ok () { setCell s1 b off blk .live with log := s1.log ++ [.assign b off] }
    | .threw s1 => .threw s1
    | .term s1 => .term s1
    | .ub s1 => .ub s1

/-- `allocator_traits::destroy(alloc, p + off)`: never throws; destroying what is not alive is a violation -/
def dtorCell (b off : Nat) : M Unit := fun s =>
  match s.blocks[b]? with
  | none => .ub s
  | some blk =>
    if blk.freed || blk.cells[off]? != some Cell.live then .ub s else
    .ok () { setCell s b off blk .raw with log := s.log ++ [.dtor b off] }

/-- reading `count` elements starting at `base` (source of a copy): they must be alive -/
def readCells (c : Cfg) (base : Option Nat) (count : Nat) : M Unit := fun s =>
  if count = 0 then .ok () s else
  match base with
  | none => .ub s
  | some b =>
    match s.blocks[b]? with
    | none => .ub s
    | some blk =>
      if blk.freed || blk.size < count || !(c.trivCtor || (blk.cells.take count).all (· == Cell.live)) then .ub s else .ok () s

/-- `alloc_destroy_n(alloc, first, n)` adl.hpp:281-289 — from the back -/
def destroyBack (b : Nat) : (count : Nat) → M Unit
  | 0 => pure ()
  | k + 1 => do dtorCell b k; destroyBack b k

/-- `static_array::destroy()` array.hpp:189-193: nothing for trivially destructible element types -/
def destroyAll (c : Cfg) (base : Option Nat) (n : Nat) : M Unit :=
  if c.trivDtor then pure () else
  if n = 0 then pure () else
  match base with
  | none => ub
  | some b => destroyBack b n

/-- `static_array::deallocate()` array.hpp:607-612: `if(num_elements()) allocator_traits::deallocate(alloc(), base_, num_elements())` -/
def deallocate (c : Cfg) (a : AllocId) (base : Option Nat) (n : Nat) : M Unit := fun s =>
  if n = 0 then .ok () s else
  match base with
  | none => .ub s
  | some b =>
    match s.blocks[b]? with
    | none => .ub s
    | some blk =>
      if blk.freed || blk.size != n || !(c.trivDtor || blk.cells.all (· == Cell.raw)) then .ub s else
      .ok () { s with blocks := s.blocks.set b { blk with freed := true, freedBy := a },
                      log := s.log ++ [.dealloc b n a],
                      wrong := s.wrong || !c.eqv a blk.alloc }

/-- handler of `alloc_uninitialized_*_n` adl.hpp:212-217, 384-389, 408-413, 458-463: destroy `[first, current)` forwards -/
def destroyFwd (b : Nat) : (count first : Nat) → M Unit
  | 0, _ => pure ()
  | k + 1, f => do dtorCell b f; destroyFwd b k (f + 1)

/-- `alloc_uninitialized_{copy,move,fill,value_construct,default_construct}_n(alloc, …, count, p)` adl.hpp:199-465:
    construct cells `cur, cur+1, …` in order; if a construction throws, destroy `[first cur, cur)` and rethrow.
    For the flat algorithms `first = 0` (everything built so far).  The nested `uninitialized_copy(In, In, array_iterator<T, N>)`
    for N > 1 (array_ref.hpp:3789-3815) runs one flat copy per innermost row and has no handler of its own: only the
    row in which the throw happens is rolled back, `first cur = cur - cur % rowLen`. -/
def constructN (c : Cfg) (b : Nat) (first : Nat → Nat) : (count cur : Nat) → M Unit
  | 0, _ => pure ()
  | k + 1, cur => fun s =>
    match ctorCell c b cur s with
    | .ok _ s1 => constructN c b first k (cur + 1) s1
    | .threw s1 => (do destroyFwd b (cur - first cur) (first cur); rethrow) s1
    | .term s1 => .term s1
    | .ub s1 => .ub s1

/-- start of the range rolled back when construction number `cur` throws (`rowLen = 0`: flat algorithm) -/
def rowStart (rowLen cur : Nat) : Nat := if rowLen = 0 then 0 else cur - cur % rowLen

/-- the uninitialized algorithms applied to a possibly null destination (`count = 0` ⇒ no access) -/
def constructAll (c : Cfg) (base : Option Nat) (n : Nat) (rowLen : Nat := 0) : M Unit :=
  if n = 0 then pure () else
  match base with
  | none => ub
  | some b => constructN c b (rowStart rowLen) n 0

/-- element-wise assignment to the listed cells, in order (`adl_copy_n`, `adl_move`, sub-array `operator=`): no rollback -/
def assignCells (c : Cfg) (b : Nat) : List Nat → M Unit
  | [] => pure ()
  | off :: rest => do assignCell c b off; assignCells c b rest

def assignAll (c : Cfg) (base : Option Nat) (offs : List Nat) : M Unit :=
  match offs with
  | [] => pure ()
  | _ => match base with
    | none => ub
    | some b => assignCells c b offs

/-! ### extensions (only what the branch decisions and sizes need) -/

def extSize (e : Ext) : Nat := (e.last - e.first).toNat

/-- `layout_t{extensions}.num_elements()` -/
def nElems : List Ext → Nat
  | [] => 1
  | e :: es => extSize e * nElems es

/-- `extensions()` of an array constructed from `es` (layout.hpp:735-745, 880-886): a dimension reports `[0,0)` as soon as
    it or any later extent is empty -/
def reported : List Ext → List Ext
  | [] => []
  | e :: es => (if extSize e * nElems es = 0 then ⟨0, 0⟩ else e) :: reported es

/-- `extensions_t::operator==` layout.hpp:170 over `range::operator==` index_range.hpp:202-204 -/
def extsEq : List Ext → List Ext → Bool
  | [], [] => true
  | a :: as, b :: bs => a.eqv b && extsEq as bs
  | _, _ => false

/-- `extensions_type{}` -/
def emptyExts (d : Nat) : List Ext := List.replicate d ⟨0, 0⟩

def Ext.indices (e : Ext) : List Int := (List.range (extSize e)).map fun (k : Nat) => e.first + Int.ofNat k

/-- index tuples of a box in canonical (row-major) order -/
def box : List Ext → List (List Int)
  | [] => [[]]
  | e :: es => (Ext.indices e).flatMap fun i => (box es).map (i :: ·)

def inBox : List Ext → List Int → Bool
  | [], [] => true
  | e :: es, i :: is => e.contains i && inBox es is
  | _, _ => false

/-- row-major positions, in the array with extensions `own`, of the index tuples that also lie in `other`
    (the elements `tmp.apply(is)` of `reextent`, array.hpp:1477-1478, 1508-1509), clipped to the block -/
def posIn (own other : List Ext) : List Nat :=
  ((box own).zipIdx.filter fun p => inBox other p.1).map (·.2)

/-! ### the pool -/

def getArr (s : St) (i : Nat) : Option Arr := (s.arrs[i]?).bind id
def setSlot (i : Nat) (o : Option Arr) : M Unit := modify fun s => { s with arrs := s.arrs.set i o }
def alive (s : St) (i : Nat) : Bool := (getArr s i).isSome

def emptyArr (c : Cfg) (a : AllocId) : Arr := ⟨a, none, emptyExts c.dim, 0⟩

/-! ### operations -/

/-- allocate `n` elements and construct them; if a construction throws (the algorithm has rolled back what it built) the
    block is returned before the exception propagates — the shape of every repaired operation -/
def buildSafe (c : Cfg) (a : AllocId) (n : Nat) (construct : Bool) : M (Option Nat) := do
  let p ← allocate a n
  if construct then tryCatch (constructAll c p n) (do deallocate c a p n; rethrow)
  pure p

/-- "allocate in the mem-initialiser, construct the elements in the body" (array.hpp:273-566): returns the base pointer.
    As the code stood, an exception from the body left the block allocated (the destructor of a not fully constructed
    object does not run).  `fx6`: the body is wrapped in `construct_or_deallocate_` (array.hpp:199-213), and the nested
    `uninitialized_copy` (array_ref.hpp) rolls back completed rows. -/
def build (c : Cfg) (a : AllocId) (n : Nat) (construct : Bool) (rowLen : Nat := 0) : M (Option Nat) :=
  if c.fx6 then buildSafe c a n construct else do
    let p ← allocate a n
    if construct then constructAll c p n rowLen
    pure p

/-- `clear()` array.hpp:613-618: destroy, deallocate, layout := empty (base_ is left as it is) -/
def clearArr (c : Cfg) (i : Nat) (x : Arr) : M Arr := do
  destroyAll c x.base x.n
  deallocate c x.alloc x.base x.n
  let x' : Arr := { x with ext := emptyExts c.dim, n := 0 }
  setSlot i (some x')
  pure x'

/-- `~static_array()` array.hpp:640-645 -/
def dtorArr (c : Cfg) (i : Nat) (x : Arr) : M Unit := do
  destroyAll c x.base x.n
  deallocate c x.alloc x.base x.n
  setSlot i none

/-- the operation alphabet (slots `i`, `j`; allocator instance `a`; requested extensions `es`) -/
inductive Op where
  | ctorDefault (i : Nat) (a : AllocId)
  | ctorExt (i : Nat) (a : AllocId) (es : List Ext)
  | ctorFill (i : Nat) (a : AllocId) (es : List Ext)
  | ctorCopy (i j : Nat)
  | ctorCopyA (i j : Nat) (a : AllocId)
  | ctorView (i j : Nat) (a : AllocId) (sl : Option (Int × Int))
  | ctorRange (i j : Nat) (a : AllocId)
  | ctorMove (i j : Nat)
  | ctorMoveA (i j : Nat) (a : AllocId)
  | dtor (i : Nat)
  | clear (i : Nat)
  | assignCopy (i j : Nat)
  | assignMove (i j : Nat)
  | swap (i j : Nat)
  | reextent (i : Nat) (es : List Ext)
  | reextentFill (i : Nat) (es : List Ext)
  | reextentRv (i : Nat) (es : List Ext)
  | reshape (i : Nat) (es : List Ext)
  | assignFill (i : Nat) (es : List Ext)
  | assignView (i j : Nat) (sl : Option (Int × Int)) (lvalue : Bool)
  | assignRange (i j : Nat)
  | viewAssign (i j : Nat)
  | saMove (a : AllocId) (es : List Ext)
deriving DecidableEq, Repr, Inhabited

/-- extensions of `x()` (`sl = none`) or `x.sliced(lo, hi)`: an empty slice reports `[0,0)` (layout.hpp:880-886) -/
def viewExts (x : Arr) (sl : Option (Int × Int)) : List Ext :=
  match sl, x.ext with
  | some (lo, hi), _ :: rest => (if lo = hi then ⟨0, 0⟩ else ⟨lo, hi⟩) :: rest
  | _, e => e

/-- `range_extensions_(first, last)` for `first, last = x.begin(), x.end()` array.hpp:250-255: an empty range gives
    `extensions_type{}`, otherwise `index_extension(distance(first, last)) * extensions(*first)` -/
def rangeExts (c : Cfg) (x : Arr) : List Ext :=
  match x.ext with
  | e :: rest => if extSize e = 0 then emptyExts c.dim else ⟨0, Int.ofNat (extSize e)⟩ :: rest
  | [] => []

def headSize (x : Arr) : Nat := match x.ext with | e :: _ => extSize e | [] => 0

/-- `assign(first, last)` assigns in place iff the count and the inner extensions agree (array.hpp:1421-1423) -/
def rangeInPlace (x y : Arr) : Bool :=
  headSize y == headSize x && (headSize x == 0 || extsEq y.ext.tail x.ext.tail)

/-- length of the innermost rows of the iterator-pair constructor (0 = one flat copy, D = 1) -/
def rangeRowLen (x : Arr) : Nat :=
  match x.ext.reverse with
  | e :: _ :: _ => extSize e
  | _ => 0

/-- a constructor of the "mem-initialiser + body" form building slot `i` with allocator `a` from extensions `es` -/
def ctorWith (c : Cfg) (i : Nat) (a : AllocId) (es : List Ext) (construct : Bool) (rowLen : Nat := 0) : M Unit := do
  let n := nElems es
  let p ← build c a n construct rowLen
  setSlot i (some ⟨a, p, reported es, n⟩)

/-- move assignment array.hpp:1343-1356 (noexcept): `clear(); base_ = other.base_; if(POCMA) alloc = move(other.alloc);
    layout = exchange(other.layout, {})` -/
def moveAssignFrom (c : Cfg) (i : Nat) (x : Arr) (srcAlloc : AllocId) (p : Option Nat) (ext : List Ext) (n : Nat) : M Unit := do
  let x' ← clearArr c i x
  setSlot i (some { x' with base := p, alloc := if c.pocma then srcAlloc else x'.alloc, ext := ext, n := n })

/-- `operator=(array{view})` / `operator=(array(first, last))` array.hpp:1340, 1419: a temporary built with `allocator_type{}`
    is move-assigned; the (then empty) temporary is destroyed -/
def assignFromTemp (c : Cfg) (i : Nat) (x : Arr) (es : List Ext) (rowLen : Nat := 0) : M Unit := do
  let n := nElems es
  let ta := if c.fx9 then x.alloc else defaultAlloc
  let p ← build c ta n true rowLen
  noexcept (moveAssignFrom c i x ta p (reported es) n)

/-- `static_array(allocator_type const&)` array.hpp:223 -/
def opCtorDefault (c : Cfg) (i : Nat) (a : AllocId) : M Unit := setSlot i (some (emptyArr c a))

/-- the allocator of an allocator-extended constructor, else the one the plain constructor derives from its source -/
def pickAlloc (a : Option AllocId) (dflt : AllocId) : AllocId := a.getD dflt

/-- copy constructor `static_array(static_array const&)` array.hpp:541-558 (`alloc = select_on_container_copy_construction(other.alloc())`) and the
    allocator-extended copy constructor `static_array(array_ref const&, allocator_type const&)` array.hpp:310-325 -/
def opCtorCopy (c : Cfg) (i j : Nat) (a : Option AllocId) : M Unit := do
  let s ← get
  match getArr s j with
  | none => ub
  | some y => do
    let al := pickAlloc a (c.select y.alloc)
    readCells c y.base y.n
    let p ← build c al y.n true
    setSlot i (some ⟨al, p, reported y.ext, y.n⟩)

/-- construction from a view `static_array(const_subarray const&, allocator_type const&)` array.hpp:402-420 -/
def opCtorView (c : Cfg) (i j : Nat) (a : AllocId) (sl : Option (Int × Int)) : M Unit := do
  let s ← get
  match getArr s j with
  | none => ub
  | some y => do
    let es := viewExts y sl
    readCells c y.base (nElems es)
    ctorWith c i a es true

/-- iterator-pair constructor `static_array(It, It, allocator_type const&)` array.hpp:273-295 -/
def opCtorRange (c : Cfg) (i j : Nat) (a : AllocId) : M Unit := do
  let s ← get
  match getArr s j with
  | none => ub
  | some y => do
    readCells c y.base y.n
    ctorWith c i a (rangeExts c y) true (rangeRowLen y)

/-- `static_array(decay_type&&, allocator_type const&)` between UNEQUAL allocators in the repaired code (fixes/F9.patch):
    storage is obtained from allocator `a`, the elements are move-constructed one by one (a throwing move: rollback and the
    block is returned, `construct_or_deallocate_`), then `other.clear()` -/
def moveElementwise (c : Cfg) (j : Nat) (y : Arr) (a : AllocId) : M (Option Nat) := do
  readCells c y.base y.n
  let p ← buildSafe c a y.n true
  let _ ← clearArr c j y
  pure p

/-- move constructor array.hpp:1323 and allocator-extended move constructor array.hpp:1320, both through
    `static_array(decay_type&&, allocator_type const&)` array.hpp:258-261: the block is adopted, the source emptied -/
def opCtorMove (c : Cfg) (i j : Nat) (a : Option AllocId) : M Unit := do
  let s ← get
  match getArr s j with
  | none => ub
  | some y =>
    if c.fx9a && !c.eqv (pickAlloc a y.alloc) y.alloc then do     -- fixes/F9.patch: `alloc == other.get_allocator()` is false
      let p ← moveElementwise c j y (pickAlloc a y.alloc)
      setSlot i (some ⟨pickAlloc a y.alloc, p, y.ext, y.n⟩)
    else do
      setSlot i (some ⟨pickAlloc a y.alloc, y.base, y.ext, y.n⟩)
      setSlot j (some { y with base := none, ext := emptyExts c.dim, n := 0 })

def opDtor (c : Cfg) (i : Nat) : M Unit := do
  let s ← get
  match getArr s i with
  | none => ub
  | some x => dtorArr c i x

def opClear (c : Cfg) (i : Nat) : M Unit := do
  let s ← get
  match getArr s i with
  | none => ub
  | some x => noexcept (do let _ ← clearArr c i x; pure ())

/-- copy assignment `array::operator=(array const&)` array.hpp:1358-1391 (same extents: `static_array::operator=` array.hpp:728-737) -/
def opAssignCopy (c : Cfg) (i j : Nat) : M Unit := do
  let s ← get
  match getArr s i, getArr s j with
  | some x, some y =>
    if extsEq x.ext y.ext && !(c.fx9c && c.pocca && !c.eqv x.alloc y.alloc) then   -- fixes/F9c.patch: `keeps_allocator`
      if i = j then pure () else do
        let x1 : Arr := if c.pocca then { x with alloc := y.alloc } else x
        setSlot i (some x1)
        readCells c y.base y.n
        assignAll c x1.base (List.range y.n)
    else do
      let x1 ← clearArr c i x
      let x2 : Arr := if c.pocca then { x1 with alloc := y.alloc } else x1
      if c.fx7 then do
        setSlot i (some x2)
        readCells c y.base y.n
        let p ← buildSafe c x2.alloc y.n true
        setSlot i (some { x2 with base := p, ext := y.ext, n := y.n })
      else do
        let x3 : Arr := { x2 with ext := y.ext, n := y.n }
        setSlot i (some x3)
        let p ← allocate x3.alloc y.n
        setSlot i (some { x3 with base := p })
        readCells c y.base y.n
        constructAll c p y.n
  | _, _ => ub

/-- move assignment `array::operator=(array&&)` array.hpp:1343-1356 -/
def opAssignMove (c : Cfg) (i j : Nat) : M Unit := do
  let s ← get
  match getArr s i, getArr s j with
  | some x, some y =>
    if i = j then pure ()
    else if c.fx9a && !c.pocma && !c.eqv x.alloc y.alloc then do
      -- fixes/F9.patch: `*this = array{std::move(other), this->get_allocator()}` — not noexcept in this configuration
      let p ← moveElementwise c j y x.alloc
      noexcept (moveAssignFrom c i x x.alloc p y.ext y.n)
    else noexcept do
      moveAssignFrom c i x y.alloc y.base y.ext y.n
      setSlot j (some { y with ext := emptyExts c.dim, n := 0 })
  | _, _ => ub

/-- `array::swap` array.hpp:1329-1340 -/
def opSwap (c : Cfg) (i j : Nat) : M Unit := do
  let s ← get
  match getArr s i, getArr s j with
  | some x, some y =>
    if i = j then pure () else do
      setSlot i (some ⟨if c.pocs then y.alloc else x.alloc, y.base, y.ext, y.n⟩)
      setSlot j (some ⟨if c.pocs then x.alloc else y.alloc, x.base, x.ext, x.n⟩)
  | _, _ => ub

/-- `reextent(extensions) &` array.hpp:1549-1584 and `reextent(extensions, elem) &` array.hpp:1586-1625; `release_` array.hpp:1515-1524 -/
def opReextent (c : Cfg) (i : Nat) (es : List Ext) (fill : Bool) : M Unit := do
  let s ← get
  match getArr s i with
  | none => ub
  | some x =>
    if extsEq x.ext es then pure () else do
      let n := nElems es
      let doCtor := fill || !c.trivCtor
      let offs := (posIn (reported es) x.ext).filter (· < n)
      let p ←
        if c.fx8 then do
          let p ← buildSafe c x.alloc n doCtor
          tryCatch (do readCells c x.base (if offs.isEmpty then 0 else x.n); assignAll c p offs)
                   (do destroyAll c p n; deallocate c x.alloc p n; rethrow)
          pure p
        else do
          let p ← allocate x.alloc n
          if doCtor then constructAll c p n
          readCells c x.base (if offs.isEmpty then 0 else x.n)
          assignAll c p offs
          pure p
      destroyAll c x.base x.n
      deallocate c x.alloc x.base x.n
      setSlot i (some { x with base := p, ext := reported es, n := n })

/-- `reextent(extensions) &&` array.hpp:1527-1547 -/
def opReextentRv (c : Cfg) (i : Nat) (es : List Ext) : M Unit := do
  let s ← get
  match getArr s i with
  | none => ub
  | some x =>
    if extsEq x.ext es then pure () else
    if c.fx7 then do
      let x1 ← clearArr c i x
      let n := nElems es
      let p ← buildSafe c x1.alloc n (!c.trivCtor)
      setSlot i (some { x1 with base := p, ext := reported es, n := n })
    else do
      destroyAll c x.base x.n
      deallocate c x.alloc x.base x.n
      let n := nElems es
      let x1 : Arr := { x with ext := reported es, n := n }
      setSlot i (some x1)
      let p ← allocate x.alloc n
      setSlot i (some { x1 with base := p })
      if !c.trivCtor then constructAll c p n

/-- `reshape` array.hpp:1285-1291 -/
def opReshape (i : Nat) (es : List Ext) : M Unit := do
  let s ← get
  match getArr s i with
  | none => ub
  | some x => if nElems es = x.n then setSlot i (some { x with ext := reported es }) else ub

/-- `assign(extensions, elem)` array.hpp:1462-1480 -/
def opAssignFill (c : Cfg) (i : Nat) (es : List Ext) : M Unit := do
  let s ← get
  match getArr s i with
  | none => ub
  | some x =>
    if extsEq x.ext es then assignAll c x.base (List.range x.n)     -- `adl_fill_n(base_, num_elements(), elem)`
    else do
      let x1 ← clearArr c i x
      let n := nElems es
      if c.fx7 then do
        let p ← buildSafe c x1.alloc n true
        setSlot i (some { x1 with base := p, ext := reported es, n := n })
      else do
        let x2 : Arr := { x1 with ext := reported es, n := n }
        setSlot i (some x2)
        let p ← allocate x2.alloc n
        setSlot i (some { x2 with base := p })
        constructAll c p n

/-- assignment from a view: lvalue view array.hpp:1393-1400; rvalue view (`operator=(Range&&)`) array.hpp:1424-1440 -/
def opAssignView (c : Cfg) (i j : Nat) (sl : Option (Int × Int)) (lvalue : Bool) : M Unit := do
  let s ← get
  match getArr s i, getArr s j with
  | some x, some y =>
    let es := viewExts y sl
    if extsEq x.ext es then do
      readCells c y.base (nElems es)
      assignAll c x.base (List.range x.n)
    else if !lvalue && x.n = nElems es then do            -- `reshape(other.extensions())`, then element-wise
      setSlot i (some { x with ext := reported es })
      readCells c y.base (nElems es)
      assignAll c x.base (List.range x.n)
    else do
      readCells c y.base (nElems es)
      assignFromTemp c i x es
  | _, _ => ub

/-- `assign(first, last)` array.hpp:1483-1494 -/
def opAssignRange (c : Cfg) (i j : Nat) : M Unit := do
  let s ← get
  match getArr s i, getArr s j with
  | some x, some y =>
    if rangeInPlace x y then do
      readCells c y.base y.n
      assignAll c x.base (List.range x.n)
    else do
      readCells c y.base y.n
      assignFromTemp c i x (rangeExts c y) (rangeRowLen y)
  | _, _ => ub

/-- assignment through views `A() = B()` (array_ref.hpp, `subarray::operator=`) -/
def opViewAssign (c : Cfg) (i j : Nat) : M Unit := do
  let s ← get
  match getArr s i, getArr s j with
  | some x, some y => do
    readCells c y.base y.n
    assignAll c x.base (List.range x.n)
  | _, _ => ub

/-- `static_array s(extensions, elem, alloc); static_array t(std::move(s));` then both destructors: array.hpp:336-342, then
    the noexcept `static_array(static_array&&)` array.hpp:243-256 (allocates and move-constructs element-wise) -/
def opSaMove (c : Cfg) (a : AllocId) (es : List Ext) : M Unit := do
  let n := nElems es
  let p ← build c a n true
  let q ← noexcept (do
    let q ← allocate a n
    readCells c p n
    constructAll c q n
    pure q)
  destroyAll c q n
  deallocate c a q n
  destroyAll c p n
  deallocate c a p n

def Op.run (c : Cfg) : Op → M Unit
  | .ctorDefault i a => opCtorDefault c i a
  | .ctorExt i a es => ctorWith c i a es (!c.trivCtor)        -- array.hpp:390-397, 171-175
  | .ctorFill i a es => ctorWith c i a es true                -- array.hpp:336-342
  | .ctorCopy i j => opCtorCopy c i j none
  | .ctorCopyA i j a => opCtorCopy c i j (some a)
  | .ctorView i j a sl => opCtorView c i j a sl
  | .ctorRange i j a => opCtorRange c i j a
  | .ctorMove i j => opCtorMove c i j none
  | .ctorMoveA i j a => opCtorMove c i j (some a)
  | .dtor i => opDtor c i
  | .clear i => opClear c i
  | .assignCopy i j => opAssignCopy c i j
  | .assignMove i j => opAssignMove c i j
  | .swap i j => opSwap c i j
  | .reextent i es => opReextent c i es false
  | .reextentFill i es => opReextent c i es true
  | .reextentRv i es => opReextentRv c i es
  | .reshape i es => opReshape i es
  | .assignFill i es => opAssignFill c i es
  | .assignView i j sl lvalue => opAssignView c i j sl lvalue
  | .assignRange i j => opAssignRange c i j
  | .viewAssign i j => opViewAssign c i j
  | .saMove a es => opSaMove c a es

/-- operations that are excluded from a history by the caller's obligations (the harness skips them): wrong slot state,
    slice outside the leading extension, empty range for the iterator constructor, reshape to another element count -/
def sliceOk (x : Arr) (sl : Option (Int × Int)) : Bool :=
  match sl, x.ext with
  | some (lo, hi), e :: _ => decide (e.first ≤ lo) && decide (lo ≤ hi) && decide (hi ≤ e.last)
  | some _, [] => false
  | none, _ => true

/-- slot `i` of the pool exists and holds no object -/
def vacant (s : St) (i : Nat) : Bool := decide (i < s.arrs.length) && !alive s i

def Op.applicable (c : Cfg) (s : St) : Op → Bool
  | .ctorDefault i _ | .ctorExt i _ _ | .ctorFill i _ _ => vacant s i
  | .ctorCopy i j | .ctorCopyA i j _ | .ctorMove i j | .ctorMoveA i j _ => vacant s i && alive s j
  | .ctorView i j _ sl => vacant s i && (match getArr s j with | some y => sliceOk y sl | none => false)
  | .ctorRange i j _ => vacant s i && alive s j
  | .dtor i | .clear i | .reextent i _ | .reextentFill i _ | .reextentRv i _ | .assignFill i _ => alive s i
  | .reshape i es => match getArr s i with | some x => nElems es == x.n | none => false
  | .assignCopy i j | .assignMove i j => alive s i && alive s j
  | .swap i j =>   -- swapping unequal non-propagating allocators is undefined (as for standard containers): excluded
    match getArr s i, getArr s j with
    | some x, some y => c.pocs || c.eqv x.alloc y.alloc
    | _, _ => false
  | .assignView i j sl _ => i != j && alive s i && (match getArr s j with | some y => sliceOk y sl | none => false)
  | .assignRange i j => i != j && alive s i && alive s j
  | .viewAssign i j =>
    i != j && (match getArr s i, getArr s j with | some x, some y => extsEq x.ext y.ext | _, _ => false)
  | .saMove _ _ => true

end Ledger
end Multi
