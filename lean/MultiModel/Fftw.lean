/-
  MultiModel.Fftw — transcription of include/boost/multi/adaptors/fftw.hpp:
    fftw_plan_dft(which, in_base, in_layout, out_base, out_layout, sign, flags)   275-321
    plan::plan / plan::execute                                                     399-445
    dft(which, in, out, sign), dft(which, inout, sign), dft_forward, dft_backward  506-540
  and the documented semantics of FFTW's guru interface (fftw3 manual §4.5 "Guru Interface", §4.8 "What FFTW
  really computes") as a function over an arbitrary coefficient type with an abstract twiddle family `ω N k`
  (FFTW: `ω N k = exp(2πi·k/N)`; no property of `ω` is assumed here).
-/
import MultiModel.View

namespace Multi

/-- `fftw_iodim64 {n, is, os}` -/
structure IoDim where
  n  : Int
  is : Int
  os : Int
deriving DecidableEq, Repr, Inhabited

/-- the arguments of `fftw_plan_guru64_dft` (pointers as element offsets) together with the pointers handed to
    `fftw_execute_dft` -/
structure GuruCall where
  dims    : List IoDim
  howmany : List IoDim
  inp     : Int
  out     : Int
  sign    : Int
  flags   : Int
deriving DecidableEq, Repr, Inhabited

def FFTW_FORWARD : Int := -1
def FFTW_BACKWARD : Int := 1
def FFTW_ESTIMATE : Int := 64
def FFTW_PRESERVE_INPUT : Int := 16

/-- `tuple_zip(which, sizes_tuple, istride_tuple, ostride_tuple)` mapped to
    `std::pair{which, fftw_iodim64{size, istride, ostride}}` (fftw.hpp:284-294) -/
def planZip : List Bool → List Int → List Int → List Int → List (Bool × IoDim)
  | w :: ws, n :: ns, i :: is, o :: os => (w, ⟨n, i, o⟩) :: planZip ws ns is os
  | _, _, _, _ => []

/-- `fftw_plan_dft` fftw.hpp:275-321: zip, `std::stable_partition` by `which`, the first group becomes `dims`, the
    second `howmany_dims`; flags are always `FFTW_ESTIMATE | FFTW_PRESERVE_INPUT` (the `flags` parameter is unused). -/
def planDft (which : List Bool) (inBase : Int) (inLay : Layout) (outBase : Int) (outLay : Layout) (sign : Int) : GuruCall :=
  let zipped := planZip which inLay.sizes inLay.strides outLay.strides
  let parts := zipped.partition (·.1)          -- List.partition is stable
  { dims := parts.1.map (·.2), howmany := parts.2.map (·.2), inp := inBase, out := outBase, sign := sign,
    flags := FFTW_ESTIMATE + FFTW_PRESERVE_INPUT }

/-- the assertions of `fftw_plan_dft`: equal extensions (277), `sign == ±1` (306) -/
def planDftAsserts (inLay outLay : Layout) (sign : Int) : Bool :=
  Exts.eqv inLay.exts outLay.exts && (sign == -1 || sign == 1)

/-- `dft(which, in, out, sign)` 506-510: `plan{which, in.base(), in.layout(), out.base(), out.layout(), sign}.execute(in.base(), out.base())` -/
def dft (which : List Bool) (vin vout : View) (sign : Int) : GuruCall :=
  planDft which vin.base vin.lay vout.base vout.lay sign
/-- in-place overload 512-517: `dft(which, in, in, dir)` -/
def dftInPlace (which : List Bool) (v : View) (sign : Int) : GuruCall := dft which v v sign
/-- `dft_forward` 519-523, `dft_backward` 525-529 -/
def dftForward (which : List Bool) (vin vout : View) : GuruCall := dft which vin vout FFTW_FORWARD
def dftBackward (which : List Bool) (vin vout : View) : GuruCall := dft which vin vout FFTW_BACKWARD

/-! ### what a guru plan computes -/

section Sem
variable {R : Type} [Add R] [Mul R] [OfNat R 0] [OfNat R 1]

/-- `Σ_{k<n} f k` -/
def sumTo : Nat → (Nat → R) → R
  | 0, _ => 0
  | n + 1, f => sumTo n f + f n

/-- sum over all multi-indices `0 ≤ n_d < N_d` (first index outermost) -/
def sumBox : List Int → (List Int → R) → R
  | [], f => f []
  | N :: Ns, f => sumTo N.toNat fun k => sumBox Ns fun r => f (Int.ofNat k :: r)

/-- `Π_d ω(N_d, s·j_d·n_d)` -/
def twiddle (ω : Int → Int → R) (s : Int) : List Int → List Int → List Int → R
  | N :: Ns, j :: js, n :: ns => ω N (s * j * n) * twiddle ω s Ns js ns
  | _, _, _ => 1

def dot : List Int → List Int → Int
  | s :: ss, t :: ts => s * t + dot ss ts
  | _, _ => 0

def InRange : List Int → List Int → Prop
  | [], [] => True
  | N :: Ns, j :: js => (0 ≤ j ∧ j < N) ∧ InRange Ns js
  | _, _ => False

namespace GuruCall
def ns (c : GuruCall) : List Int := c.dims.map IoDim.n
def bs (c : GuruCall) : List Int := c.howmany.map IoDim.n
def inAddr (c : GuruCall) (n b : List Int) : Int := c.inp + dot (c.dims.map IoDim.is) n + dot (c.howmany.map IoDim.is) b
def outAddr (c : GuruCall) (j b : List Int) : Int := c.out + dot (c.dims.map IoDim.os) j + dot (c.howmany.map IoDim.os) b

/-- the value FFTW documents for output multi-index `j` of batch `b`:
    `Σ_n in[n, b] · Π_d ω(N_d, sign·j_d·n_d)` -/
def value (ω : Int → Int → R) (c : GuruCall) (mem : Int → R) (j b : List Int) : R :=
  sumBox c.ns fun n => mem (c.inAddr n b) * twiddle ω c.sign c.ns j n
end GuruCall

/-- contract of `fftw_execute_dft` on a guru plan: every output location holds the documented value computed from the
    pre-state, and no location that is not an output location changes (this includes, for a distinct input, the
    input: the plan is created with `FFTW_PRESERVE_INPUT`). -/
def GuruPost (ω : Int → Int → R) (c : GuruCall) (mem mem' : Int → R) : Prop :=
  (∀ j b, InRange c.ns j → InRange c.bs b → mem' (c.outAddr j b) = c.value ω mem j b) ∧
  (∀ a, (∀ j b, InRange c.ns j → InRange c.bs b → a ≠ c.outAddr j b) → mem' a = mem a)

end Sem
end Multi
