/-
  MultiModel.Iter — `array_iterator<T, D, Ptr>` (array_ref.hpp:475-659 for D>1, 2349-2534 for D=1),
  `elements_iterator_t` (749-872) and `elements_range_t` (874-1010).
-/
import MultiModel.View

namespace Multi

/-- `array_iterator`: `ptr_` (a `subarray_ptr` = base + sub-layout for D>1, a bare element pointer for D=1)
    and `stride_`. -/
structure ArrIt where
  ptr    : Int
  stride : Int
  sub    : Layout
deriving DecidableEq, Repr, Inhabited

namespace ArrIt
/-- `operator++` 644 / 2493 -/
def inc (it : ArrIt) : ArrIt := { it with ptr := it.ptr + it.stride }
/-- `operator--` 645 / 2494 -/
def dec (it : ArrIt) : ArrIt := { it with ptr := it.ptr - it.stride }
/-- `operator+=(n)` 657 (`advance_`: `base_ += stride_*n`) / 2496 -/
def add (it : ArrIt) (n : Int) : ArrIt := { it with ptr := it.ptr + it.stride * n }
/-- `operator-=(n)` 658 (`advance_(-n)`) / 2497 (`ptr_ -= stride_*n`) -/
def sub' (it : ArrIt) (n : Int) : ArrIt := { it with ptr := it.ptr - it.stride * n }
/-- `operator-(it, other)` 651-655 / 2503-2508: `(self.ptr - other.ptr) / stride` -/
def diff (it other : ArrIt) : Int := (it.ptr - other.ptr).tdiv it.stride
/-- assertions of `operator-`: equal strides, stride ≠ 0 (and for D=1 divisibility) -/
def diffAsserts (it other : ArrIt) : Bool :=
  it.stride == other.stride && it.stride != 0 && (it.ptr - other.ptr).tmod it.stride == 0
/-- `operator<` 584-591 / 2527-2529: `0 < other - *this` -/
def lt (it other : ArrIt) : Bool := decide (0 < other.diff it)
/-- `operator==` 570-574 / 2510-2513: pointer equality (strides and sub-layouts are asserted equal) -/
def eq (it other : ArrIt) : Bool := it.ptr == other.ptr
def eqAsserts (it other : ArrIt) : Bool := it.stride == other.stride && it.sub == other.sub
/-- `operator*` 545 / 2531: the sub-view (an element when `sub = []`) at `ptr` -/
def deref (it : ArrIt) : View := ⟨it.ptr, it.sub⟩
/-- `operator[](n)` 560 / 2448: `*((*this) + n)` -/
def at' (it : ArrIt) (n : Int) : View := (it.add n).deref
end ArrIt

namespace View
/-- `begin_aux_` 1623 / 3105 -/
def begin' (v : View) : ArrIt :=
  match v.lay with
  | [] => ⟨v.base, 0, []⟩
  | d :: sub => ⟨v.base, d.stride, sub⟩
/-- `end_aux_` 1624 / 3106: `base_ + nelems()` -/
def end' (v : View) : ArrIt :=
  match v.lay with
  | [] => ⟨v.base, 0, []⟩
  | d :: sub => ⟨v.base + d.nelems, d.stride, sub⟩
end View

/-- `cursor_t<ElementPtr, D, Strides>` (array_ref.hpp:661-747): `base_` and the tuple of strides -/
structure Cursor where
  base    : Int
  strides : List Int
deriving DecidableEq, Repr, Inhabited

namespace Cursor
/-- `operator[](n)`: D ≠ 1 `cursor_t<…, D-1>{base_ + get<0>(strides_)*n, strides_.tail()}`; D = 1 the element
    `base_[get<0>(strides_)*n]` (a cursor with no stride left) -/
def index (c : Cursor) (n : Int) : Cursor := ⟨c.base + c.strides.headD 0 * n, c.strides.tail⟩
/-- `operator()(n, rest...)`: `operator[](n)(rest...)` -/
def indexAll (c : Cursor) (idx : List Int) : Cursor := idx.foldl index c
end Cursor

namespace View
/-- `home_aux_()` 1667 / 2681 / 2850: `cursor(this->base_, this->strides())` -/
def home (v : View) : Cursor := ⟨v.base, v.strides⟩
end View

/-- `elements_range_t`: base and a layout.  Since the fix of the index-base defect the constructor stores a
    zero-based copy of the layout (`lyt.reindex(0, 0, ...)`, array_ref.hpp elements_range_t ctor). -/
structure ElemRange where
  base : Int
  lay  : Layout
deriving DecidableEq, Repr, Inhabited

/-- `elements_iterator_t`: `base_`, `l_`, `n_`, `xs_`, `ns_`. -/
structure ElemIt where
  base : Int
  lay  : Layout
  n    : Int
  xs   : List Ext
  ns   : List Int
deriving DecidableEq, Repr, Inhabited

namespace ElemRange

/-- `const_subarray::elements()` → `elements_range_t(base_, layout())` with the zero-basing constructor -/
def ofView (v : View) : ElemRange := ⟨v.base, v.lay.reindex (List.replicate v.lay.length 0)⟩

/-- `size()` 928 -/
def size (r : ElemRange) : Int := r.lay.numElements
/-- `is_empty()` 932: `l_.is_empty()` -/
def isEmpty (r : ElemRange) : Bool := r.lay.isEmpty

/-- `elements_iterator_t::from_linear_`: a range with zero elements has a single position -/
def fromLinearG (xs : List Ext) (n : Int) : Option (List Int) :=
  if Exts.numElements xs = 0 then some (List.replicate xs.length 0) else Exts.fromLinear xs n

/-- iterator constructor 774-775 (+ `from_linear_`) -/
def mkIt (r : ElemRange) (n : Int) : Option ElemIt :=
  let xs := r.lay.exts
  (fromLinearG xs n).map fun ns => ⟨r.base, r.lay, n, xs, ns⟩

/-- `begin_aux_`/`end_aux_` 954-955 -/
def begin' (r : ElemRange) : Option ElemIt := r.mkIt 0
def end' (r : ElemRange) : Option ElemIt := r.mkIt r.lay.numElements

/-- `elements_range_t::at_aux_` 914-917: `base_[std::apply(l_, l_.extensions().from_linear(n))]`
    (asserts `!is_empty()`) -/
def at' (r : ElemRange) (n : Int) : Option Int :=
  (Exts.fromLinear r.lay.exts n).map fun ns => r.base + r.lay.apply ns

end ElemRange

namespace ElemIt
/-- `current()` / `operator*` 843-846: `base_ + std::apply(l_, ns_)` -/
def current (it : ElemIt) : Int := it.base + it.lay.apply it.ns
/-- `operator++` 801-806: `next_canonical`, `++n_`, and when the carry leaves the leading dimension (one past
    the last element) the index tuple is recomputed as `from_linear_(n_)`, the tuple `end()` holds. -/
def inc (it : ElemIt) : Option ElemIt :=
  let (ns', wrapped) := Exts.nextCanonical it.xs it.ns
  if wrapped then (ElemRange.fromLinearG it.xs (it.n + 1)).map fun ns => { it with ns := ns, n := it.n + 1 }
  else some { it with ns := ns', n := it.n + 1 }
/-- `operator--` 806-810 -/
def dec (it : ElemIt) : ElemIt := { it with ns := (Exts.prevCanonical it.xs it.ns).1, n := it.n - 1 }
/-- `operator+=(n)` 812-817 -/
def add (it : ElemIt) (k : Int) : Option ElemIt :=
  let nn := Exts.toLinear it.xs it.ns
  (ElemRange.fromLinearG it.xs (nn + k)).map fun ns => { it with ns := ns, n := it.n + k }
/-- `operator-=(n)` 818-823 (after the fix: recomputes `ns_`) -/
def sub' (it : ElemIt) (k : Int) : Option ElemIt :=
  let nn := Exts.toLinear it.xs it.ns
  (ElemRange.fromLinearG it.xs (nn - k)).map fun ns => { it with ns := ns, n := it.n - k }
/-- `operator-(other)` 825-828 -/
def diff (it other : ElemIt) : Int := it.n - other.n
/-- `operator<` 832-835 -/
def lt (it other : ElemIt) : Bool := decide (it.n < other.n)
/-- `operator==` 859-862 -/
def eq (it other : ElemIt) : Bool := it.n == other.n
/-- `operator[](n)` 847-850 -/
def at' (it : ElemIt) (k : Int) : Option Int :=
  let nn := Exts.toLinear it.xs it.ns
  (ElemRange.fromLinearG it.xs (nn + k)).map fun ns => it.base + it.lay.apply ns
/-- copy assignment 793-800 (after the fix: copies every member) -/
def assign (_it other : ElemIt) : ElemIt := other
end ElemIt

end Multi
