/-
  MultiModel.BlasFront — the thin front ends of the BLAS adaptor, hand-transcribed, on top of the REGENERATED dispatch
  chains (MultiModel.Gen.BlasDispatch), and the `core.hpp` wrapper layer between a chain and the Fortran routine.

  A front end yields the sequence of chain outcomes it performs (usually one).  The driver and the theorems run them
  through `coreStep` (the argument checks of core.hpp, which throw in assertion-enabled builds) and the reference BLAS.
-/
import MultiModel.Blas
import MultiModel.Gen.BlasDispatch

namespace Multi.Blas.Front
open Multi.Blas Multi.Blas.Gen

variable {R : Type} [CRing R]

/-! ### gemm (gemm.hpp:157-175, 228-243, 295-303, 348-354) -/

/-- `gemm(ctx, alpha, a, b, beta, c)` for a non-conjugated `c`: two assertions, then `gemm_n` on begin(a), size(a), begin(b), begin(c) -/
def gemmPlain (nd : Bool) (alpha beta : R) (a b c : Mat) : Outcome R :=
  if ¬ nd = true ∧ ¬ (a.n0 = c.n0) then .assertFail 0          -- assert( size(a) == size(c) )
  else if ¬ nd = true ∧ ¬ (a.n0 = 0) ∧ ¬ (a.n1 = b.n0) then .assertFail 0   -- if(! a.is_empty()) assert( size(~a) == size(b) )
  else gemm_n nd alpha beta a b c

/-- `blas::gemm(alpha, a, b, beta, c)`: a conjugated `c` is handled as conj(c) := conj(alpha) conj(a) conj(b) + conj(beta) conj(c) -/
def gemm (nd : Bool) (alpha beta : R) (a b c : Mat) : Outcome R :=
  if ¬ nd = true ∧ ¬ (a.n0 = c.n0) then .assertFail 0
  else if ¬ nd = true ∧ ¬ (a.n0 = 0) ∧ ¬ (a.n1 = b.n0) then .assertFail 0
  else if c.cj then gemmPlain nd (CRing.conj alpha) (CRing.conj beta) a.conj b.conj c.conj
  else gemm_n nd alpha beta a b c

/-- `c = blas::gemm(alpha, a, b)`: subarray::operator=(Range) asserts the sizes, then copy_n(gemm_iterator) calls gemm_n with beta = 0
    (an exception inside is re-thrown as another logic_error: still a throw) -/
def gemmAssign (nd : Bool) (alpha : R) (a b c : Mat) : Outcome R :=
  if ¬ nd = true ∧ gemmRangeChecksInner = true ∧ ¬ (a.n0 = 0) ∧ ¬ (a.n1 = b.n0) then .assertFail 0   -- gemm(ctxtp, s, a, b), when it checks
  else if ¬ nd = true ∧ ¬ (c.n0 = a.n0) then .assertFail 0
  else gemm_n nd alpha 0 a b c

/-- `c += blas::gemm(alpha, a, b)`: gemm_n with beta = 1, no size check of its own beyond the one of the lazy gemm -/
def gemmPlusEq (nd : Bool) (alpha : R) (a b c : Mat) : Outcome R :=
  if ¬ nd = true ∧ gemmRangeChecksInner = true ∧ ¬ (a.n0 = 0) ∧ ¬ (a.n1 = b.n0) then .assertFail 0
  else gemm_n nd alpha 1 a b c

/-! ### gemv (gemv.hpp:51-72, 96-100, 152-166) -/

def gemv (nd : Bool) (alpha beta : R) (m : Mat) (x y : Vec) : Outcome R :=
  if ¬ nd = true ∧ ¬ (m.n0 = y.n) then .assertFail 0      -- assert(size(m) == size(w))  (both overloads)
  else if ¬ nd = true ∧ ¬ (m.n1 = x.n) then .assertFail 0   -- assert(size(~m) == size(v))
  else gemv_n nd alpha beta m x y

def gemvAssign (nd : Bool) (alpha : R) (m : Mat) (x y : Vec) : Outcome R :=
  if ¬ nd = true ∧ ¬ (m.n1 = x.n) then .assertFail 0       -- gemv(ctxt, s, m, v): assert(size(~m) == size(v))
  else if ¬ nd = true ∧ ¬ (y.n = m.n0) then .assertFail 0  -- subarray::operator=(Range): size check
  else gemv_n nd alpha 0 m x y

def gemvPlusEq (nd : Bool) (alpha : R) (m : Mat) (x y : Vec) : Outcome R :=
  if ¬ nd = true ∧ ¬ (m.n1 = x.n) then .assertFail 0
  else gemv_n nd alpha 1 m x y

/-! ### herk / syrk (herk.hpp:96-155, syrk.hpp:17-43) -/

/-- `herk(filling, alpha, a, beta, c)`: the complex overload is the regenerated chain; for real element types it forwards to syrk -/
def herkInplace (nd cplx : Bool) (side : Filling) (alpha beta : R) (a c : Mat) : Outcome R :=
  if cplx then Gen.herk nd side alpha beta a c else Gen.syrk nd side alpha beta a c

/-- `herk(alpha, a, c)` = herk(lower, alpha, a, herk(upper, alpha, a, c)), each with beta = 0 -/
def herkBoth (nd cplx : Bool) (alpha : R) (a c : Mat) : List (Outcome R) :=
  [herkInplace nd cplx .upper alpha 0 a c, herkInplace nd cplx .lower alpha 0 a c]

/-! ### level 1 (axpy.hpp, scal.hpp, copy.hpp, swap.hpp, dot.hpp, nrm2.hpp, asum.hpp, iamax.hpp) -/

/-- `axpy(alpha, x, y)`: assert(x.size() == y.size()); axpy_n(ctxt, alpha, x.begin(), y.size(), y.begin()) -/
def axpy (nd : Bool) (alpha : R) (x y : Vec) : Outcome R :=
  if ¬ nd = true ∧ ¬ (x.n = y.n) then .assertFail 0 else axpy_n nd alpha y.n x y

/-- `y += axpy(alpha, x)` / `y -= axpy(alpha, x)`: assert(other.size() == count_); count_ = x.size() -/
def axpyRange (nd : Bool) (alpha : R) (x y : Vec) : Outcome R :=
  if ¬ nd = true ∧ ¬ (y.n = x.n) then .assertFail 0 else axpy_n nd alpha x.n x y

def scal (nd : Bool) (alpha : R) (x : Vec) : Outcome R := scal_n nd alpha x.n x

/-- `copy(x, y)` -/
def copy (nd : Bool) (x y : Vec) : Outcome R :=
  if ¬ nd = true ∧ ¬ (x.n = y.n) then .assertFail 0 else copy_n nd x.n x y

/-- `y = copy(x)`: subarray::operator=(Range) asserts the size, copy_n(copy_it, count, result) -/
def copyAssign (nd : Bool) (x y : Vec) : Outcome R :=
  if ¬ nd = true ∧ ¬ (y.n = x.n) then .assertFail 0 else copy_n nd x.n x y

def swap (nd : Bool) (x y : Vec) : Outcome R :=
  if ¬ nd = true ∧ ¬ (x.n = y.n) then .assertFail 0 else swap_n nd x.n x y

def dot (nd cplx : Bool) (x y : Vec) : Outcome R :=
  if ¬ nd = true ∧ ¬ (x.n = y.n) then .assertFail 0 else dot_n nd cplx x.n x y

/-! ### core.hpp: what stands between a chain and the Fortran routine -/

/-- the checks of `core::gemm`, `core::syrk`, `core::herk`, `core::trsm` (core.hpp:476-560).  `BOOST_MULTI_ASSERT1` throws a
    std::logic_error in assertion-enabled builds and vanishes with NDEBUG; the `ldc` check of gemm throws in every build. -/
def coreThrows (nd : Bool) : Call R → Bool
  | .gemm g =>
    (!nd && ( !(g.ta != 'N' || g.lda ≥ maxI 1 g.m) || !(g.ta == 'N' || g.lda ≥ maxI 1 g.k)
           || !(g.tb != 'N' || g.ldb ≥ maxI 1 g.k) || !(g.tb == 'N' || g.ldb ≥ maxI 1 g.n)
           || g.a == g.c || g.b == g.c))
    || !(g.ldc ≥ maxI 1 g.m)
  | .syrk g => !nd && ( (g.t == 'N' && !(g.lda ≥ maxI 1 g.n)) || (g.t != 'N' && !(g.lda ≥ maxI 1 g.k)) || !(g.ldc ≥ maxI 1 g.n) )
  | .herk g => !nd && ( (g.t == 'N' && !(g.lda ≥ maxI 1 g.n)) || (g.t != 'N' && !(g.lda ≥ maxI 1 g.k)) || !(g.ldc ≥ maxI 1 g.n) )
  | .trsm g => !nd && ( !(g.m ≥ 0 && g.n ≥ 0) || (g.side == 'L' && !(g.lda ≥ maxI 1 g.m)) || (g.side == 'R' && !(g.lda ≥ maxI 1 g.n)) || !(g.ldb ≥ maxI 1 g.m) )
  | _ => false

/-- what `core::dot` / `core::dotu` do for float and complex element types (core.hpp:287-363): the product is computed by
    xGEMV('N', 1, n, 1, x, incx, y, incy, 0, r, 1), i.e. x is read as a 1×n matrix with leading dimension incx -/
def dotAsGemv (g : L1Call R) (r : Int) : GemvCall R :=
  ⟨'N', 1, g.n, 1, g.x, g.incx, g.y, g.incy, 0, r, 1⟩

/-- the value `core::dot` / `dotu` / `dotc` deliver for element type `ty` ('s','d','c','z'); `none` = the result cell is never
    written.  core.hpp:295 (float `dot`) and 357/362 (complex `dotu`) go through xGEMV, which returns at once when n = 0;
    `ddot`, `cdotc`, `zdotc` are called directly and return the sum (0 for n ≤ 0).  When the source guards the xGEMV calls with
    `if(n == 0) {*rp = R{}; return;}` (`coreDotGemvGuardsEmpty`, read from core.hpp by the translator) the value 0 is delivered. -/
def dotResult (ty : Char) (c : Call R) (mem : Mem R) : Option R :=
  match c with
  | .dot g => if ty = 's' ∧ g.n ≤ 0 ∧ coreDotGemvGuardsEmpty = false then none else some (dotVal false g.n g.x g.incx g.y g.incy mem)
  | .dotu g => if g.n ≤ 0 ∧ coreDotGemvGuardsEmpty = false then none else some (dotVal false g.n g.x g.incx g.y g.incy mem)
  | .dotc g => some (dotVal true g.n g.x g.incx g.y g.incy mem)
  | _ => none

end Multi.Blas.Front
