/-
  MultiModel.View — transcription of the view-forming operations of
  `const_subarray<T, D, ...>` / `subarray` (include/boost/multi/array_ref.hpp), D > 1 generic class
  (1018-1878, 1918-2336) and the D == 1 specialisation (2677-3266), kept separate where the code is
  separate.  A view is a base position (offset from the root's `data_elements()`) plus a layout.
-/
import MultiModel.Layout

namespace Multi

structure View where
  base : Int
  lay  : Layout
deriving DecidableEq, Repr, Inhabited

/-- argument of the call syntax `A(i, {a,b}, multi::ALL)` -/
inductive Arg where
  | idx (i : Int)
  | rng (a b : Int)
  | all
deriving DecidableEq, Repr, Inhabited

namespace View

def dim (v : View) : Nat := v.lay.length

def exts (v : View) : List Ext := v.lay.exts
def sizes (v : View) : List Int := v.lay.sizes
def strides (v : View) : List Int := v.lay.strides
def numElements (v : View) : Int := v.lay.numElements
def isEmpty (v : View) : Bool := v.lay.isEmpty

/-- leading `size()` (0-D: not defined in C++; 0 here, never used on in-domain programs) -/
def size (v : View) : Int := match v.lay with | [] => 0 | d :: _ => d.size
/-- leading `extension()` -/
def ext (v : View) : Ext := match v.lay with | [] => ⟨0, 0⟩ | d :: _ => d.ext

/-- `operator[](index)` / `at_aux_` array_ref.hpp:1121-1136, 1146-1153 (D>1) and 2805-2816 (D=1):
    `base_ + (idx*stride - offset)` with layout `sub()`. -/
def index (v : View) (i : Int) : View :=
  match v.lay with
  | [] => v
  | d :: sub => ⟨v.base + (i * d.stride - d.offset), sub⟩

/-- the assertion in `at_aux_`/`operator[]`: `stride()==0 || extension().contains(idx)` -/
def indexAssert (v : View) (i : Int) : Bool :=
  match v.lay with
  | [] => true
  | d :: _ => d.stride == 0 || d.ext.contains i

/-- `sliced_aux_(first, last)`:
    D>1 (array_ref.hpp:1258-1277): keeps stride and offset, `nelems := stride*(last-first)`,
      `base + (first*stride - offset)`;
    D=1 (2922-2934): `layout().slice(first,last)`, `base + (first*stride - offset)`. -/
def sliced (v : View) (a b : Int) : View :=
  match v.lay with
  | [] => v
  | [d] => ⟨v.base + (a * d.stride - d.offset), Layout.slice [d] a b⟩
  | d :: sub => ⟨v.base + (a * d.stride - d.offset), { d with nelems := d.stride * (b - a) } :: sub⟩

/-- the two bound assertions of the D>1 `sliced_aux_` (1260-1261); the D=1 overload has none. -/
def slicedAsserts (v : View) (a b : Int) : Bool :=
  match v.lay with
  | [] => true
  | [_] => true
  | d :: _ => (a == b || d.ext.contains a) && (a == b || d.ext.contains (b - 1))

/-- `range(irng)` 1346 (D>1): `sliced(front, front + size)`; 2979 (D=1): `sliced(front, last)`. -/
def range (v : View) (a b : Int) : View := v.sliced a (a + (b - a))

/-- `strided_aux_(diff)` 1328-1331 (D>1), 2969-2972 (D=1) -/
def strided (v : View) (s : Int) : View :=
  match v.lay with
  | [] => v
  | d :: sub => ⟨v.base, { d with stride := d.stride * s } :: sub⟩

/-- `dropped_aux_(n)` 1229-1249 (D>1): nelems := stride*(size - n), base + n*stride;
    2901-2915 (D=1): `layout().drop(count)`, base + count*stride. -/
def dropped (v : View) (n : Int) : View :=
  match v.lay with
  | [] => v
  | d :: sub => ⟨v.base + n * d.stride, { d with nelems := d.stride * (d.size - n) } :: sub⟩

/-- `taked_aux_(n)` 1208-1212 (D>1: `layout().take(n)`), 2886-2895 (D=1) -/
def taked (v : View) (n : Int) : View :=
  match v.lay with
  | [] => v
  | d :: sub => ⟨v.base, { d with nelems := d.stride * n } :: sub⟩

/-- `rotated_aux_` 1502-1506; D=1: `rotated()` is `operator()()` (3069) — `Layout.rotate` is the identity there. -/
def rotated (v : View) : View := ⟨v.base, v.lay.rotate⟩
/-- `unrotated_aux_` 1507-1511 -/
def unrotated (v : View) : View := ⟨v.base, v.lay.unrotate⟩
/-- `transposed_aux_` 1479-1483 (D ≥ 2; deleted for D = 1) -/
def transposed (v : View) : View := ⟨v.base, v.lay.transpose⟩
/-- `reversed_aux_` 1464-1468, 3049-3053 -/
def reversed (v : View) : View := ⟨v.base, v.lay.reverse⟩

/-- `reindexed(first)` 1185-1199, 2878-2883 -/
def reindexed1 (v : View) (i : Int) : View := ⟨v.base, v.lay.reindex1 i⟩

/-- `reindexed(first, idxs...)` 1202-1205: `((reindexed(first).rotated()).reindexed(idxs...)).unrotated()` -/
def reindexed (v : View) : List Int → View
  | [] => v
  | [i] => v.reindexed1 i
  | i :: rest => (reindexed (v.reindexed1 i).rotated rest).unrotated

/-- `blocked(first, last)` 1282-1283, 2961-2963: `sliced(first, last).reindexed(first)` -/
def blocked (v : View) (a b : Int) : View := (v.sliced a b).reindexed1 a

/-- `stenciled(iex, iex1, ...)` 1287-1309: `((stenciled(iex).rotated()).stenciled(rest...)).unrotated()` -/
def stenciled (v : View) : List Ext → View
  | [] => v
  | [e] => v.blocked e.first e.last
  | e :: rest => (stenciled (v.blocked e.first e.last).rotated rest).unrotated

/-- `partitioned_aux_(n)` 1423-1431 (D>1), 3014-3020 (D=1):
    `layout_t<D+1>{layout(), (nelems/n != 0) ? nelems/n : 1, 0, nelems}` then `sub().nelems() /= n`. -/
def partitioned (v : View) (n : Int) : View :=
  match v.lay with
  | [] => v
  | d :: sub =>
    let s := d.nelems.tdiv n
    ⟨v.base, ⟨if s ≠ 0 then s else 1, 0, d.nelems⟩ :: { d with nelems := d.nelems.tdiv n } :: sub⟩

/-- assertions of `partitioned_aux_`: `n != 0`, `nelems % n == 0` -/
def partitionedAsserts (v : View) (n : Int) : Bool :=
  match v.lay with
  | [] => true
  | d :: _ => n != 0 && d.nelems.tmod n == 0

/-- `chunked_aux_(count)` 1441-1444, 3026-3029: `partitioned_aux_(size()/count)` -/
def chunked (v : View) (c : Int) : View := v.partitioned (v.size.tdiv c)

/-- `flatted()` 1359-1363, 2250-2255 (D ≥ 2): `new_layout{sub()}; new_layout.nelems() *= size()`. -/
def flatted (v : View) : View :=
  match v.lay with
  | d :: d1 :: sub => ⟨v.base, { d1 with nelems := d1.nelems * d.size } :: sub⟩
  | _ => v

/-- `is_flattable()` 1351-1356: `size() <= 1 || stride() == sub().nelems()` -/
def isFlattable (v : View) : Bool :=
  match v.lay with
  | d :: d1 :: _ => decide (d.size ≤ 1) || d.stride == d1.nelems
  | _ => false

/-- `broadcasted()` 1371-1375, 2819-2824, 2657-2660: `layout_t<D+1>(layout(), 0, 0)` — the new level's
    `nelems_` is left uninitialised by that constructor (layout.hpp:763-764); `junk` stands for it. -/
def broadcasted (v : View) (junk : Int) : View := ⟨v.base, ⟨0, 0, junk⟩ :: v.lay⟩

/-- `halved_aux_` 1220-1223, 3005-3008 -/
def halved (v : View) : View := ⟨v.base, v.lay.halve⟩

/-- call syntax: `paren_aux_` 1528, 1542-1550 (D>1), 2988-2994 (D=1) and the non-const overloads 2195-2214.
    * `paren_aux_()`                 → the view itself
    * `paren_aux_(index, rest...)`   → `operator[](idx).paren_aux_(rest...)`
    * `paren_aux_(range, rest...)`   → `range(rng).rotated().paren_aux_(rest...).unrotated()`
    * `paren_aux_(ALL, rest...)`     → `paren_aux_(intersection(extension(), ALL), rest...)`, i.e. the whole extension -/
def paren (v : View) : List Arg → View
  | [] => v
  | Arg.idx i :: rest => paren (v.index i) rest
  | Arg.rng a b :: rest => (paren (v.range a b).rotated rest).unrotated
  | Arg.all :: rest =>
    let e := v.ext.inter ⟨v.ext.first, v.ext.last⟩   -- intersection with [min, max) = the extension itself
    (paren (v.range e.first e.last).rotated rest).unrotated

/-- `diagonal_aux_` 1378-1385 (D ≥ 2): built from `(*this)({0, sq}, {0, sq})`, then
    `new_layout{that.layout().sub()}`, `nelems += that.nelems`, `stride += that.stride`; base is `base_` of *this. -/
def diagonal (v : View) : View :=
  match v.lay with
  | d0 :: d1 :: _ =>
    let sq := min d0.size d1.size
    let w := v.paren [Arg.rng 0 sq, Arg.rng 0 sq]
    match w.lay with
    | e0 :: e1 :: sub => ⟨v.base, { e1 with nelems := e1.nelems + e0.nelems, stride := e1.stride + e0.stride } :: sub⟩
    | _ => v
  | _ => v

/-- the precondition asserted by view assignment `dst = src` (array_ref.hpp `subarray::operator=` overloads):
    equal extensions -/
def assignAssert (dst src : View) : Bool := Exts.eqv dst.exts src.exts

/-- chained brackets `A[i][j]...` -/
def bracket (v : View) (idx : List Int) : View := idx.foldl index v

/-- `home()` cursor 1651-1657, `cursor_t::operator[]` 702-717: `base_ + stride_k * n`, no offset term. -/
def cursorAddr (v : View) (idx : List Int) : Int :=
  v.base + ((v.strides.zip idx).map fun (s, n) => s * n).foldl (· + ·) 0

/-- address (offset from the root's first element) of the element at a full index tuple -/
def addr (v : View) (idx : List Int) : Int := (v.bracket idx).base

end View

/-- all index tuples of a box in canonical order (last index fastest) -/
def boxIndices : List Ext → List (List Int)
  | [] => [[]]
  | e :: es =>
    let sub := boxIndices es
    (List.range (e.size.toNat)).flatMap fun (k : Nat) => sub.map fun r => (e.first + Int.ofNat k) :: r

end Multi
