/-
  MultiModel.Blas — call descriptors and REFERENCE SEMANTICS of the (column-major, Fortran) BLAS routines the
  adaptor `boost/multi/adaptors/blas` reaches, over an arbitrary commutative ring with an involution.

  * `CRing R`      the operations and the few laws the semantics / theorems use (commutative multiplication,
                   conjugation is an involutive ring homomorphism).  Real element types are the instance with
                   `conj = id`; the driver uses Gaussian integers (`GInt`).
  * `Mem R`        memory = total function from element addresses (offsets from the arena origin) to `R`.
  * `Mat`, `Vec`   operand descriptors of the adaptor: base offset, stride of the leading dimension (`a_first.stride()`),
                   stride of the inner dimension (`(*a_first).stride()`), sizes, conjugation flag.
  * `Call R`       one BLAS call: routine, flag characters, sizes, scalars, pointer offsets, leading dimensions.
  * `Call.illegal` the parameter number the reference implementation reports through XERBLA (the call then does
                   NOTHING: "On entry to DGEMM parameter number 8 had an illegal value"), `none` = legal.
  * `Call.exec`    the post-state of a call as a function of the pre-state (identity when the call is illegal),
                   transcribing the reference BLAS (netlib dgemm.f, dgemv.f, dsyrk.f, zherk.f, dtrsm.f, level 1),
                   including the quick returns that are observable (xGEMV returns before scaling y when m = 0 or n = 0).

  Floating point is not modelled: the semantics is exact arithmetic in `R`.
-/
namespace Multi.Blas

/-- what the reference semantics needs from the element type -/
class CRing (R : Type) extends Add R, Mul R, Neg R, Zero R, One R where
  conj : R → R
  /-- hermitian part (`DBLE(x)` in zherk.f); only its action on self-conjugate elements is constrained -/
  re : R → R
  /-- inverse used by the triangular solve of the driver (unconstrained: the specification of trsm is an equation) -/
  inv : R → R
  mul_comm : ∀ a b : R, a * b = b * a
  conj_conj : ∀ a : R, conj (conj a) = a
  conj_add : ∀ a b : R, conj (a + b) = conj a + conj b
  conj_mul : ∀ a b : R, conj (a * b) = conj a * conj b
  conj_zero : conj (0 : R) = 0
  re_self : ∀ a : R, conj a = a → re a = a
  zero_mul : ∀ a : R, 0 * a = 0
  zero_add : ∀ a : R, 0 + a = a
  one_mul : ∀ a : R, 1 * a = a

/-- the integers with trivial conjugation: the model of a real element type (used for the concrete counterexamples) -/
instance : CRing Int where
  conj := id
  re := id
  inv := id
  mul_comm := Int.mul_comm
  conj_conj := fun _ => rfl
  conj_add := fun _ _ => rfl
  conj_mul := fun _ _ => rfl
  conj_zero := rfl
  re_self := fun _ _ => rfl
  zero_mul := Int.zero_mul
  zero_add := Int.zero_add
  one_mul := Int.one_mul

/-! ### Gaussian integers: the concrete ring with a non-trivial conjugation (driver, counterexamples) -/
structure GInt where
  re : Int
  im : Int
deriving DecidableEq, Repr, Inhabited

namespace GInt
instance : Add GInt := ⟨fun a b => ⟨a.re + b.re, a.im + b.im⟩⟩
instance : Mul GInt := ⟨fun a b => ⟨a.re * b.re - a.im * b.im, a.re * b.im + a.im * b.re⟩⟩
instance : Neg GInt := ⟨fun a => ⟨-a.re, -a.im⟩⟩
instance : Zero GInt := ⟨⟨0, 0⟩⟩
instance : One GInt := ⟨⟨1, 0⟩⟩
def conj (a : GInt) : GInt := ⟨a.re, -a.im⟩

theorem ext' {a b : GInt} (h1 : a.re = b.re) (h2 : a.im = b.im) : a = b := by
  cases a; cases b; simp_all

instance : CRing GInt where
  conj := conj
  re := fun a => ⟨a.re, 0⟩
  inv := conj
  mul_comm := by
    intro a b; apply ext'
    · show a.re * b.re - a.im * b.im = b.re * a.re - b.im * a.im; grind
    · show a.re * b.im + a.im * b.re = b.re * a.im + b.im * a.re; grind
  conj_conj := by intro a; apply ext' <;> simp [conj]
  conj_add := by
    intro a b; apply ext'
    · show a.re + b.re = a.re + b.re; rfl
    · show -(a.im + b.im) = -a.im + -b.im; omega
  conj_mul := by
    intro a b; apply ext'
    · show a.re * b.re - a.im * b.im = a.re * b.re - (-a.im) * (-b.im); grind
    · show -(a.re * b.im + a.im * b.re) = a.re * (-b.im) + (-a.im) * b.re; grind
  conj_zero := by
    apply ext'
    · show (0 : Int) = 0; rfl
    · show -(0 : Int) = 0; rfl
  re_self := by
    intro a h
    have h2 : -a.im = a.im := congrArg GInt.im h
    apply ext' <;> simp <;> omega
  zero_mul := by
    intro a; apply ext'
    · show (0 : Int) * a.re - 0 * a.im = 0; omega
    · show (0 : Int) * a.im + 0 * a.re = 0; omega
  zero_add := by
    intro a; apply ext'
    · show (0 : Int) + a.re = a.re; omega
    · show (0 : Int) + a.im = a.im; omega
  one_mul := by
    intro a; apply ext'
    · show (1 : Int) * a.re - 0 * a.im = a.re; omega
    · show (1 : Int) * a.im + 0 * a.re = a.im; omega
end GInt


abbrev Mem (R : Type) := Int → R

/-- 2-D operand as the adaptor sees it -/
structure Mat where
  base : Int
  /-- `a_first.stride()`, `stride(a)` -/
  s0 : Int
  /-- `(*a_first).stride()`, `stride(~a)` -/
  s1 : Int
  /-- `a_count`, `size(a)` -/
  n0 : Int
  /-- `(*a_first).size()`, `size(~a)` -/
  n1 : Int
  /-- the view's pointer is a `conjugater` (blas::J / blas::H) -/
  cj : Bool
deriving Repr, DecidableEq, Inhabited

structure Vec where
  base : Int
  inc : Int
  n : Int
  cj : Bool
deriving Repr, DecidableEq, Inhabited

def cjIf {R : Type} [CRing R] (b : Bool) (x : R) : R := if b then CRing.conj x else x

/-- logical element (i, j) of a matrix view -/
def Mat.load {R : Type} [CRing R] (M : Mat) (mem : Mem R) (i j : Int) : R :=
  cjIf M.cj (mem (M.base + i * M.s0 + j * M.s1))

def Mat.addr (M : Mat) (i j : Int) : Int := M.base + i * M.s0 + j * M.s1

/-- logical element i of a vector view -/
def Vec.load {R : Type} [CRing R] (v : Vec) (mem : Mem R) (i : Int) : R :=
  cjIf v.cj (mem (v.base + i * v.inc))

def Vec.addr (v : Vec) (i : Int) : Int := v.base + i * v.inc

/-- blas::T / rotated -/
def Mat.tr (M : Mat) : Mat := { M with s0 := M.s1, s1 := M.s0, n0 := M.n1, n1 := M.n0 }
/-- blas::J / conj: toggles the conjugating pointer (numeric.hpp:295-315) -/
def Mat.conj (M : Mat) : Mat := { M with cj := !M.cj }

/-- Σ_{l < k} f l  (left-to-right, starting from 0) -/
def sumTo {R : Type} [Add R] [Zero R] : Nat → (Int → R) → R
  | 0, _ => 0
  | k + 1, f => sumTo k f + f (Int.ofNat k)

def sumZ {R : Type} [Add R] [Zero R] (k : Int) (f : Int → R) : R := sumTo k.toNat f

/-- column-major position (row, column) of `addr` inside the `m × n` block at `x` with leading dimension `ld` -/
def cmIndex (x ld m n addr : Int) : Option (Int × Int) :=
  let d := addr - x
  if 0 ≤ d ∧ 0 < ld ∧ d % ld < m ∧ d / ld < n then some (d % ld, d / ld) else none

/-- position of `addr` in the strided vector (x, inc, n), `0 < inc` -/
def vecIndex (x inc n addr : Int) : Option Int :=
  let d := addr - x
  if 0 ≤ d ∧ 0 < inc ∧ d % inc = 0 ∧ d / inc < n then some (d / inc) else none

/-- element (i, l) of op(P) for a column-major operand at `p` with leading dimension `ld` -/
def opElem {R : Type} [CRing R] (t : Char) (p ld : Int) (mem : Mem R) (i l : Int) : R :=
  if t = 'N' then mem (p + i + l * ld)
  else if t = 'T' then mem (p + l + i * ld)
  else CRing.conj (mem (p + l + i * ld))

structure GemmCall (R : Type) where
  ta : Char
  tb : Char
  m : Int
  n : Int
  k : Int
  alpha : R
  a : Int
  lda : Int
  b : Int
  ldb : Int
  beta : R
  c : Int
  ldc : Int

structure GemvCall (R : Type) where
  t : Char
  m : Int
  n : Int
  alpha : R
  a : Int
  lda : Int
  x : Int
  incx : Int
  beta : R
  y : Int
  incy : Int

/-- xSYRK and xHERK share the argument list -/
structure RankKCall (R : Type) where
  uplo : Char
  t : Char
  n : Int
  k : Int
  alpha : R
  a : Int
  lda : Int
  beta : R
  c : Int
  ldc : Int

structure TrsmCall (R : Type) where
  side : Char
  uplo : Char
  t : Char
  diag : Char
  m : Int
  n : Int
  alpha : R
  a : Int
  lda : Int
  b : Int
  ldb : Int

/-- level-1 calls; a pointer that does not point into the arena (a result returned by value) is `none` -/
structure L1Call (R : Type) where
  n : Int
  alpha : R
  x : Int
  incx : Int
  y : Int
  incy : Int

inductive Call (R : Type) where
  | gemm (g : GemmCall R)
  | gemv (g : GemvCall R)
  | syrk (g : RankKCall R)
  | herk (g : RankKCall R)
  | trsm (g : TrsmCall R)
  | swap (g : L1Call R)
  | copy (g : L1Call R)
  | scal (g : L1Call R)
  | axpy (g : L1Call R)
  /-- reductions: the result is returned / stored by the core wrapper, memory is not modified by the routine -/
  | dot (g : L1Call R)
  | dotu (g : L1Call R)
  | dotc (g : L1Call R)
  | nrm2 (g : L1Call R)
  | asum (g : L1Call R)
  | iamax (g : L1Call R)

/-- core.hpp `legal_ld(stride, rows)`: the stride, or the number of rows when that is larger -/
def legalLd (stride rows : Int) : Int := max stride rows

def isTrans (t : Char) : Bool := t = 'N' || t = 'T' || t = 'C'
def maxI (a b : Int) : Int := if a ≤ b then b else a

/-- parameter number reported by XERBLA (dgemm.f: INFO = 1,2,3,4,5,8,10,13).
    `lenient` = the check of OpenBLAS 0.3.21 (interface/gemm.c), which compares the leading dimensions with the number of
    rows instead of max(1, rows): a leading dimension 0 passes when the operand has no rows.  The theorems use the
    reference check (`lenient = false`, which implies the lenient one); the driver uses the lenient one because the
    differential run is against OpenBLAS. -/
def GemmCall.illegalL {R : Type} (g : GemmCall R) (lenient : Bool) : Option Nat :=
  let nrowa := if g.ta = 'N' then g.m else g.k
  let nrowb := if g.tb = 'N' then g.k else g.n
  let lo : Int := if lenient then 0 else 1
  if !isTrans g.ta then some 1
  else if !isTrans g.tb then some 2
  else if g.m < 0 then some 3
  else if g.n < 0 then some 4
  else if g.k < 0 then some 5
  else if g.lda < maxI lo nrowa then some 8
  else if g.ldb < maxI lo nrowb then some 10
  else if g.ldc < maxI lo g.m then some 13
  else none

/-- the reference check -/
def GemmCall.illegal {R : Type} (g : GemmCall R) : Option Nat := g.illegalL false

/-- C := alpha op(A) op(B) + beta C on the m×n block (dgemm.f) -/
def GemmCall.execL {R : Type} [CRing R] (g : GemmCall R) (lenient : Bool) (mem : Mem R) : Mem R :=
  if (g.illegalL lenient).isSome then mem
  else fun addr =>
    match cmIndex g.c g.ldc g.m g.n addr with
    | some (i, j) => g.alpha * sumZ g.k (fun l => opElem g.ta g.a g.lda mem i l * opElem g.tb g.b g.ldb mem l j) + g.beta * mem addr
    | none => mem addr

/-- post-state under the reference parameter check -/
def GemmCall.exec {R : Type} [CRing R] (g : GemmCall R) (mem : Mem R) : Mem R := g.execL false mem

/-- dgemv.f: INFO = 1,2,3,6,8,11 -/
def GemvCall.illegal {R : Type} (g : GemvCall R) : Option Nat :=
  if !isTrans g.t then some 1
  else if g.m < 0 then some 2
  else if g.n < 0 then some 3
  else if g.lda < maxI 1 g.m then some 6
  else if g.incx = 0 then some 8
  else if g.incy = 0 then some 11
  else none

/-- y := alpha op(A) x + beta y.  Quick return (dgemv.f "Quick return if possible"): when m = 0 or n = 0 — or alpha = 0
    and beta = 1 — NOTHING is done, in particular y is not scaled by beta.  Positive increments only. -/
def GemvCall.exec {R : Type} [CRing R] [DecidableEq R] (g : GemvCall R) (mem : Mem R) : Mem R :=
  if g.illegal.isSome then mem
  else if g.m = 0 ∨ g.n = 0 ∨ (g.alpha = 0 ∧ g.beta = 1) then mem
  else
    let leny := if g.t = 'N' then g.m else g.n
    let lenx := if g.t = 'N' then g.n else g.m
    fun addr =>
      match vecIndex g.y g.incy leny addr with
      | some i => g.alpha * sumZ lenx (fun l => opElem g.t g.a g.lda mem i l * mem (g.x + l * g.incx)) + g.beta * mem addr
      | none => mem addr

/-- dsyrk.f: INFO = 1,2,3,4,7,10; zsyrk.f accepts only 'N','T'; zherk.f accepts only 'N','C' -/
def RankKCall.illegal {R : Type} (g : RankKCall R) (herk cplx : Bool) : Option Nat :=
  let nrowa := if g.t = 'N' then g.n else g.k
  let tok := if herk then (g.t = 'N' || g.t = 'C') else if cplx then (g.t = 'N' || g.t = 'T') else isTrans g.t
  if !(g.uplo = 'U' || g.uplo = 'L') then some 1
  else if !tok then some 2
  else if g.n < 0 then some 3
  else if g.k < 0 then some 4
  else if g.lda < maxI 1 nrowa then some 7
  else if g.ldc < maxI 1 g.n then some 10
  else none

/-- element (i, l) of the n×k matrix op-free A of a rank-k update: A itself ('N') or its (conjugate) transpose -/
def rkElem {R : Type} (t : Char) (p ld : Int) (mem : Mem R) (i l : Int) : R :=
  if t = 'N' then mem (p + i + l * ld) else mem (p + l + i * ld)

/-- C := alpha A Aᵀ + beta C (or Aᵀ A) on ONE triangle of the n×n block (dsyrk.f).  Quick return:
    n = 0, or (alpha = 0 or k = 0) and beta = 1. -/
def RankKCall.execSyrk {R : Type} [CRing R] [DecidableEq R] (g : RankKCall R) (cplx : Bool) (mem : Mem R) : Mem R :=
  if (g.illegal false cplx).isSome then mem
  else if g.n = 0 ∨ ((g.alpha = 0 ∨ g.k = 0) ∧ g.beta = 1) then mem
  else fun addr =>
    match cmIndex g.c g.ldc g.n g.n addr with
    | some (i, j) =>
      if (g.uplo = 'U' ∧ i ≤ j) ∨ (g.uplo = 'L' ∧ j ≤ i) then
        g.alpha * sumZ g.k (fun l => rkElem g.t g.a g.lda mem i l * rkElem g.t g.a g.lda mem j l) + g.beta * mem addr
      else mem addr
    | none => mem addr

/-- C := alpha A Aᴴ + beta C (or Aᴴ A) on one triangle; the imaginary part of the diagonal is dropped (zherk.f).
    For trans = 'C' the stored matrix is k×n and the product is Aᴴ A: element (i,j) = Σ conj(a(l,i)) a(l,j). -/
def RankKCall.execHerk {R : Type} [CRing R] [DecidableEq R] (g : RankKCall R) (mem : Mem R) : Mem R :=
  if (g.illegal true true).isSome then mem
  else if g.n = 0 ∨ ((g.alpha = 0 ∨ g.k = 0) ∧ g.beta = 1) then mem
  else fun addr =>
    match cmIndex g.c g.ldc g.n g.n addr with
    | some (i, j) =>
      if (g.uplo = 'U' ∧ i ≤ j) ∨ (g.uplo = 'L' ∧ j ≤ i) then
        let s := if g.t = 'N'
          then sumZ g.k (fun l => rkElem 'N' g.a g.lda mem i l * CRing.conj (rkElem 'N' g.a g.lda mem j l))
          else sumZ g.k (fun l => CRing.conj (rkElem 'C' g.a g.lda mem i l) * rkElem 'C' g.a g.lda mem j l)
        if i = j then CRing.re (g.alpha * s + g.beta * CRing.re (mem addr)) else g.alpha * s + g.beta * mem addr
      else mem addr
    | none => mem addr

/-- dtrsm.f: INFO = 1,2,3,4,5,6,9,11 -/
def TrsmCall.illegal {R : Type} (g : TrsmCall R) : Option Nat :=
  let nrowa := if g.side = 'L' then g.m else g.n
  if !(g.side = 'L' || g.side = 'R') then some 1
  else if !(g.uplo = 'U' || g.uplo = 'L') then some 2
  else if !isTrans g.t then some 3
  else if !(g.diag = 'U' || g.diag = 'N') then some 4
  else if g.m < 0 then some 5
  else if g.n < 0 then some 6
  else if g.lda < maxI 1 nrowa then some 9
  else if g.ldb < maxI 1 g.m then some 11
  else none

/-- entry (i, j) of the triangular matrix op(A) a trsm call works with (entries outside the triangle are 0, a unit
    diagonal is 1; the stored entries there are not referenced) -/
def TrsmCall.opA {R : Type} [CRing R] (g : TrsmCall R) (mem : Mem R) (i j : Int) : R :=
  -- position (r, c) in the stored matrix
  let r := if g.t = 'N' then i else j
  let c := if g.t = 'N' then j else i
  if r = c ∧ g.diag = 'U' then 1
  else if (g.uplo = 'U' ∧ r ≤ c) ∨ (g.uplo = 'L' ∧ c ≤ r) then
    (if g.t = 'C' then CRing.conj (mem (g.a + r + c * g.lda)) else mem (g.a + r + c * g.lda))
  else 0

/-- forward substitution: solves L x = rhs for a lower-triangular accessor, rows 0..n-1; returns x as a list -/
def solveLower {R : Type} [CRing R] (n : Nat) (L : Int → Int → R) (rhs : Int → R) : List R :=
  (List.range n).foldl (fun (xs : List R) (i : Nat) =>
    let ii := Int.ofNat i
    let s := (List.range i).foldl (fun (acc : R) (j : Nat) => acc + -(L ii (Int.ofNat j) * xs.getD j 0)) (rhs ii)
    xs ++ [s * CRing.inv (L ii ii)]) []

/-- B := solution X of op(A) X = alpha B (side 'L') or X op(A) = alpha B (side 'R')  (dtrsm.f).  m = 0 or n = 0: nothing. -/
def TrsmCall.exec {R : Type} [CRing R] (g : TrsmCall R) (mem : Mem R) : Mem R :=
  if g.illegal.isSome then mem
  else if g.m = 0 ∨ g.n = 0 then mem
  else
    let left := g.side = 'L'
    let na := if left then g.m else g.n
    -- is op(A) (as used on the left) lower triangular?
    let storedLower := g.uplo = 'L'
    let opLower := if g.t = 'N' then storedLower else !storedLower
    -- reduce to a lower-triangular left solve  E z = rhs  by reversing indices / transposing
    -- left : E = op(A);  right : X op(A) = alpha B  <=>  op(A)ᵀ Xᵀ = alpha Bᵀ, E = op(A)ᵀ
    let E : Int → Int → R := fun i j => if left then g.opA mem i j else g.opA mem j i
    let eLower := if left then opLower else !opLower
    let nn := na.toNat
    let rev : Int → Int := fun i => if eLower then i else na - 1 - i
    let EL : Int → Int → R := fun i j => E (rev i) (rev j)
    -- number of right-hand sides and their accessor
    let nrhs := if left then g.n else g.m
    let sols : List (List R) := (List.range nrhs.toNat).map fun (c : Nat) =>
      let cc := Int.ofNat c
      let rhs : Int → R := fun i => g.alpha * (if left then mem (g.b + rev i + cc * g.ldb) else mem (g.b + cc + rev i * g.ldb))
      solveLower nn EL rhs
    fun addr =>
      match cmIndex g.b g.ldb g.m g.n addr with
      | some (i, j) =>
        let (c, r) := if left then (j, i) else (i, j)   -- c: which right-hand side, r: position in it
        ((sols.getD c.toNat []).getD (rev r).toNat 0)
      | none => mem addr

/-- level 1 (n ≤ 0: nothing; positive increments) -/
def L1Call.execAxpy {R : Type} [CRing R] (g : L1Call R) (mem : Mem R) : Mem R :=
  fun addr => match vecIndex g.y g.incy g.n addr with
    | some i => g.alpha * mem (g.x + i * g.incx) + mem addr
    | none => mem addr

def L1Call.execScal {R : Type} [CRing R] (g : L1Call R) (mem : Mem R) : Mem R :=
  fun addr => match vecIndex g.x g.incx g.n addr with
    | some _ => g.alpha * mem addr
    | none => mem addr

def L1Call.execCopy {R : Type} (g : L1Call R) (mem : Mem R) : Mem R :=
  fun addr => match vecIndex g.y g.incy g.n addr with
    | some i => mem (g.x + i * g.incx)
    | none => mem addr

/-- x ↔ y (the two vectors are assumed not to overlap; y is matched first) -/
def L1Call.execSwap {R : Type} (g : L1Call R) (mem : Mem R) : Mem R :=
  fun addr => match vecIndex g.y g.incy g.n addr with
    | some i => mem (g.x + i * g.incx)
    | none => match vecIndex g.x g.incx g.n addr with
      | some i => mem (g.y + i * g.incy)
      | none => mem addr

/-- xDOT / xDOTU (conj = false) and xDOTC (conjugates the FIRST vector) -/
def dotVal {R : Type} [CRing R] (cjx : Bool) (n x incx y incy : Int) (mem : Mem R) : R :=
  sumZ n (fun i => cjIf cjx (mem (x + i * incx)) * mem (y + i * incy))

def Call.illegalL {R : Type} (cplx : Bool) (lenient : Bool) : Call R → Option Nat
  | .gemm g => g.illegalL lenient
  | .gemv g => g.illegal
  | .syrk g => g.illegal false cplx
  | .herk g => g.illegal true true
  | .trsm g => g.illegal
  | _ => none

def Call.execL {R : Type} [CRing R] [DecidableEq R] (cplx : Bool) (lenient : Bool) (c : Call R) (mem : Mem R) : Mem R :=
  match c with
  | .gemm g => g.execL lenient mem
  | .gemv g => g.exec mem
  | .syrk g => g.execSyrk cplx mem
  | .herk g => g.execHerk mem
  | .trsm g => g.exec mem
  | .swap g => g.execSwap mem
  | .copy g => g.execCopy mem
  | .scal g => g.execScal mem
  | .axpy g => g.execAxpy mem
  | _ => mem

/-- what a dispatch chain does: one BLAS call, nothing (`return` before any call), a failed `assert`, or a `throw`.
    `tag` is the branch ordinal assigned by tools/gen_blas_dispatch.py (0 for preconditions checked before the chain). -/
inductive Outcome (R : Type) where
  | call (tag : Nat) (c : Call R)
  | nop (tag : Nat)
  | assertFail (tag : Nat)
  | throw (tag : Nat)

def Outcome.tag {R : Type} : Outcome R → Nat
  | .call t _ => t
  | .nop t => t
  | .assertFail t => t
  | .throw t => t

inductive Filling where
  | lower
  | upper
deriving DecidableEq, Repr

/-- filling.hpp:16-19: `enum class filling : char { lower = 'U', upper = 'L' }` -/
def Filling.char : Filling → Char
  | .lower => 'U'
  | .upper => 'L'

def Filling.flip : Filling → Filling
  | .lower => .upper
  | .upper => .lower

inductive Side where
  | left
  | right
deriving DecidableEq, Repr

/-- side.hpp:13-16 -/
def Side.char : Side → Char
  | .left => 'L'
  | .right => 'R'

def Side.swap : Side → Side
  | .left => .right
  | .right => .left

inductive Diag where
  | unit
  | nonUnit
deriving DecidableEq, Repr

/-- trsm.hpp:14-17 -/
def Diag.char : Diag → Char
  | .unit => 'U'
  | .nonUnit => 'N'

end Multi.Blas
