/-
  MultiModel.Mpi — transcription of include/boost/multi/adaptors/mpi.hpp:

    * `skeleton(Layout, MPI_Datatype, Size subcount)` (private, recursive)   mpi.hpp:133-160
    * `skeleton(Layout, MPI_Datatype)` (public: the above with subcount 1, then `MPI_Type_commit`)  165-169
    * `skeleton(skeleton&&)`, `operator=(skeleton&&)`, `~skeleton`           162-163, 127-131, 178-182
    * `message(ArrayElements const&)` = `message(arrelems.base(), arrelems.layout(), datatype<value_type>)`  212-232

  together with the part of MPI that the code relies on: derived datatypes denote *typemaps* (MPI-4.0 §5.1), a
  sequence of (basic type, byte displacement) pairs with a lower bound and an upper bound:

    * `MPI_Type_create_hvector(count, blocklength, stride_bytes, old)`  §5.1.2: block j starts at `j·stride_bytes`,
      inside a block copy b of `old` is displaced by `b·extent(old)`
    * `MPI_Type_create_resized(old, lb, extent)`  §5.1.7: same typemap, `lb` and `ub = lb + extent` replaced
    * `MPI_Type_dup`, `MPI_Type_commit`, `MPI_Type_free` (§5.1.9: marks the datatype for deallocation and sets the
      handle to `MPI_DATATYPE_NULL`; derived datatypes defined from the freed datatype are not affected)
    * a message `(buf, count, datatype)` is `count` copies of the typemap, copy i displaced by `i·extent(datatype)` (§3.2.2)

  These semantics are a hypothesis (DESIGN §5); the correspondence run checks them against Open MPI through
  `MPI_Pack`/`MPI_Unpack`.  Handles are numbered in creation order; every call is logged.  Core Lean only.
-/
import MultiModel.Iter

namespace Multi
namespace Mpi

/-- typemap of a datatype made of one basic type: byte displacements in typemap order, bounds, data size -/
structure Typemap where
  disps : List Int
  lb    : Int
  ub    : Int
  size  : Int
deriving DecidableEq, Repr, Inhabited

namespace Typemap

def extent (t : Typemap) : Int := t.ub - t.lb

/-- a basic datatype of `sz` bytes (`MPI_INT`, `MPI_DOUBLE`, …) -/
def basic (sz : Int) : Typemap := ⟨[0], 0, sz, sz⟩

def empty : Typemap := ⟨[], 0, 0, 0⟩

def minL : List Int → Int
  | [] => 0
  | x :: xs => xs.foldl min x
def maxL : List Int → Int
  | [] => 0
  | x :: xs => xs.foldl max x

/-- displacement of every copy of the old type inside an hvector: block j, copy b within the block -/
def hvectorShifts (count blocklength strideBytes oldExtent : Int) : List Int :=
  (List.range count.toNat).flatMap fun (j : Nat) =>
    (List.range blocklength.toNat).map fun (b : Nat) => Int.ofNat j * strideBytes + Int.ofNat b * oldExtent

/-- `MPI_Type_create_hvector` -/
def hvector (count blocklength strideBytes : Int) (old : Typemap) : Typemap :=
  let sh := hvectorShifts count blocklength strideBytes old.extent
  { disps := sh.flatMap fun s => old.disps.map (· + s)
    lb := minL (sh.map (old.lb + ·))
    ub := maxL (sh.map (old.ub + ·))
    size := count * blocklength * old.size }

/-- `MPI_Type_create_resized` -/
def resized (old : Typemap) (lb extent : Int) : Typemap := { old with lb := lb, ub := lb + extent }

/-- the byte displacements (from the buffer address) denoted by `count` consecutive copies of the datatype -/
def copies (t : Typemap) (count : Int) : List Int :=
  (List.range count.toNat).flatMap fun (i : Nat) => t.disps.map (· + Int.ofNat i * t.extent)

end Typemap

/-- a datatype handle: `none` is `MPI_DATATYPE_NULL`, `some k` the k-th datatype created (builtin types first) -/
abbrev Handle := Option Nat

structure TypeRec where
  tm        : Typemap
  builtin   : Bool
  committed : Bool
  freed     : Nat       -- how many `MPI_Type_free` calls named this datatype
deriving Repr, Inhabited

inductive Call where
  | hvector (count blocklength strideBytes : Int) (old new : Handle)
  | resized (old : Handle) (lb extent : Int) (new : Handle)
  | dup (old new : Handle)
  | commit (h : Handle)
  | free (h : Handle)
  | use (h : Handle)
deriving Repr

/-- the state of the MPI library's datatype table as far as the property is concerned -/
structure Ledger where
  recs : Nat → TypeRec       -- meaningful below `next`
  next : Nat
  log  : List Call           -- newest first
  errs : Nat                 -- erroneous calls so far: free of NULL / of a builtin / of a freed datatype,
                             -- construction from or commit/use of an invalid datatype, use before commit

namespace Ledger

/-- the library after `MPI_Init`: one builtin datatype of `sz` bytes with handle 0 (committed by definition) -/
def init (sz : Int) : Ledger :=
  { recs := fun _ => ⟨Typemap.basic sz, true, true, 0⟩, next := 1, log := [], errs := 0 }

/-- a handle that may be passed as an input datatype: created, not yet freed -/
def live (L : Ledger) (h : Handle) : Bool :=
  match h with
  | none => false
  | some k => decide (k < L.next) && (L.recs k).freed == 0

def tmOf (L : Ledger) (h : Handle) : Typemap :=
  match h with
  | none => Typemap.empty
  | some k => (L.recs k).tm

def setRec (L : Ledger) (k : Nat) (r : TypeRec) : Ledger :=
  { L with recs := fun j => if j = k then r else L.recs j }

/-- register a new derived datatype -/
def create (L : Ledger) (tm : Typemap) (okIn : Bool) (mk : Handle → Call) : Ledger × Handle :=
  let k := L.next
  ({ recs := fun j => if j = k then ⟨tm, false, false, 0⟩ else L.recs j
     next := k + 1
     log := mk (some k) :: L.log
     errs := if okIn then L.errs else L.errs + 1 }, some k)

/-- `MPI_Type_size` -/
def typeSize (L : Ledger) (h : Handle) : Int := (L.tmOf h).size

def hvector (L : Ledger) (count blocklength strideBytes : Int) (old : Handle) : Ledger × Handle :=
  L.create (Typemap.hvector count blocklength strideBytes (L.tmOf old))
    (L.live old && decide (0 ≤ count) && decide (0 ≤ blocklength)) (Call.hvector count blocklength strideBytes old)

def resized (L : Ledger) (old : Handle) (lb extent : Int) : Ledger × Handle :=
  L.create (Typemap.resized (L.tmOf old) lb extent) (L.live old) (Call.resized old lb extent)

def dup (L : Ledger) (old : Handle) : Ledger × Handle :=
  L.create (L.tmOf old) (L.live old) (Call.dup old)

/-- `MPI_Type_commit(&h)` -/
def commit (L : Ledger) (h : Handle) : Ledger :=
  match h with
  | some k =>
    if L.live h then { (L.setRec k { L.recs k with committed := true }) with log := Call.commit h :: L.log }
    else { L with log := Call.commit h :: L.log, errs := L.errs + 1 }
  | none => { L with log := Call.commit h :: L.log, errs := L.errs + 1 }

/-- `MPI_Type_free(&h)`: returns the new value of the handle variable (`MPI_DATATYPE_NULL`) -/
def free (L : Ledger) (h : Handle) : Ledger × Handle :=
  match h with
  | some k =>
    let r := L.recs k
    let bad := !(L.live h) || r.builtin
    ({ (L.setRec k { r with freed := r.freed + 1 }) with
        log := Call.free h :: L.log, errs := if bad then L.errs + 1 else L.errs }, none)
  | none => ({ L with log := Call.free h :: L.log, errs := L.errs + 1 }, none)

/-- the datatype is passed to a communication / pack call: it must be live and committed -/
def use (L : Ledger) (h : Handle) : Ledger :=
  let ok := L.live h && (match h with | some k => (L.recs k).committed | none => false)
  { L with log := Call.use h :: L.log, errs := if ok then L.errs else L.errs + 1 }

end Ledger

/-- `skeleton<void, Size>`: `count_`, `datatype_` -/
structure Skeleton where
  count    : Int
  datatype : Handle
deriving Repr, Inhabited

namespace Skeleton

/-- `skeleton()` mpi.hpp:125: `datatype_{MPI_DATATYPE_NULL}` (`count_` indeterminate; 0 here, never read) -/
def null : Skeleton := ⟨0, none⟩

/-- `operator=(skeleton&& other)` mpi.hpp:127-131 / `skeleton(skeleton&&)` 162-163: takes the handle, leaves
    `MPI_DATATYPE_NULL` in `other`.  Returns (this, other). -/
def moveFrom (other : Skeleton) : Skeleton × Skeleton := (⟨other.count, other.datatype⟩, { other with datatype := none })

/-- `~skeleton()` mpi.hpp:178-182 -/
def dtor (L : Ledger) (s : Skeleton) : Ledger :=
  match s.datatype with
  | none => L
  | some k => (L.free (some k)).1

/-- the block `{ MPI_Type_create_hvector(subcount, 1, stride*dt_size, sub_type, &vector_datatype);
    MPI_Type_create_resized(vector_datatype, 0, stride*dt_size, &datatype_); MPI_Type_free(&vector_datatype); }`
    mpi.hpp:149-159; returns the new `datatype_` -/
def level (L : Ledger) (subcount strideBytes : Int) (subType : Handle) : Ledger × Handle :=
  let (L1, vec) := L.hvector subcount 1 strideBytes subType
  let (L2, res) := L1.resized vec 0 strideBytes
  let (L3, _) := L2.free vec
  (L3, res)

/-- the private constructor mpi.hpp:133-160, `dtSize` is what `MPI_Type_size(dt, &dt_size)` returns.
    Level `d` of the layout with inner levels `sub`:
      D = 1:  `sub_type = dt`
      D > 1:  `sk = skeleton(lyt.sub(), dt, lyt.sub().size()); sub_type = sk.datatype();`
      then the hvector/resized/free block, then the local `sk` is destroyed (frees the inner level's datatype); the
      moved-from temporary of the D > 1 branch died before, at the end of its full expression. -/
def build (L : Ledger) (dt : Handle) : Layout → Int → Ledger × Skeleton
  | [], _ => (L, null)      -- `layout_t<0>`: not instantiated (D ≥ 1)
  | [d], subcount =>
    let sk := null
    let subType := dt
    let dtSize := L.typeSize dt
    let (L3, res) := level L subcount (d.stride * dtSize) subType
    let L4 := sk.dtor L3
    (L4, ⟨d.size, res⟩)
  | d :: d1 :: rest, subcount =>
    let (L0, tmp) := build L dt (d1 :: rest) d1.size
    let (sk, tmp') := moveFrom tmp
    let L0' := tmp'.dtor L0
    let subType := sk.datatype
    let dtSize := L0'.typeSize dt
    let (L3, res) := level L0' subcount (d.stride * dtSize) subType
    let L4 := sk.dtor L3
    (L4, ⟨d.size, res⟩)

/-- the public constructor mpi.hpp:165-169 -/
def make (L : Ledger) (lyt : Layout) (dt : Handle) : Ledger × Skeleton :=
  let (L1, s) := build L dt lyt 1
  (L1.commit s.datatype, s)

end Skeleton

/-- `message`: a skeleton plus `buf_` (an element address; byte displacements are relative to it) -/
structure Message where
  buf : Int
  sk  : Skeleton
deriving Repr, Inhabited

namespace Message

/-- `message(arrelems)` mpi.hpp:226-232: buffer `arrelems.base()`, layout `arrelems.layout()`, datatype of the value type
    (handle 0 of `Ledger.init`) -/
def ofElements (L : Ledger) (r : ElemRange) : Ledger × Message :=
  let (L1, s) := Skeleton.make L r.lay (some 0)
  (L1, ⟨r.base, s⟩)

/-- `~message() = default` → `~skeleton()` -/
def dtor (L : Ledger) (m : Message) : Ledger := m.sk.dtor L

/-- the byte displacements from `buffer()` that `(buffer(), count(), datatype())` denotes -/
def disps (L : Ledger) (m : Message) : List Int := (L.tmOf m.sk.datatype).copies m.sk.count

end Message

/-- `MPI_Pack(buf, count, datatype, …)`: the elements at the message's displacements, in typemap order.
    `sz` is the element size; a displacement that is not a multiple of it addresses no element (`none`). -/
def pack {α : Type} (m : Int → α) (sz : Int) (buf : Int) (ds : List Int) : Option (List α) :=
  ds.mapM fun δ => if δ.tmod sz = 0 then some (m (buf + δ.tdiv sz)) else none

/-- `MPI_Unpack(…, buf, count, datatype, …)`: the k-th packed element goes to the k-th displacement -/
def unpack {α : Type} (m : Int → α) (sz : Int) (buf : Int) : List Int → List α → Option (Int → α)
  | [], _ => some m
  | _ :: _, [] => none            -- the packed buffer is too short: MPI_ERR_TRUNCATE
  | δ :: ds, x :: xs =>
    if δ.tmod sz = 0 then
      let p := buf + δ.tdiv sz
      unpack (fun q => if q = p then x else m q) sz buf ds xs
    else none

end Mpi
end Multi
