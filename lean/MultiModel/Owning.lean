/-
  MultiModel.Owning — value-level transcription of the owning arrays of include/boost/multi/array.hpp:
  `static_array<T, D>` / `array<T, D>` special members, `swap`, `decay`, `clear`, `reshape`, `assign`,
  the three `reextent` overloads, and the D == 0 specialisation, as sequences of the steps the code performs
  (allocate, construct / copy element by element, adopt layout, deallocate).

  What is modelled: extents (layouts), element contents and storage identity (which block an array points to).
  What is NOT modelled here: construction / destruction counts, allocator identity and propagation, exceptions
  (properties C08, C09, C10).  `destroy()` therefore has no effect at this level.

  * A heap is a list of blocks; a block id is the position in allocation order and is never reused; a
    deallocated block is `none`.  A cell is `none` while it holds an indeterminate value (storage of a trivially
    default constructible `T` that was allocated but never written, array.hpp:171-175).
  * Where the code has undefined behaviour (access outside a live block, deallocation of a dead block) the heap's
    sticky flag `ub` is set; where it has an assertion that fails, `asrt` is set.
  * `Arr` = `base_` + `layout_t<D>` exactly as `array_ref` stores them (array_ref.hpp:3353-3357).
-/
import MultiModel.Iter

namespace Multi
namespace Own

abbrev BlockId := Nat

/-- a storage cell: `none` = indeterminate value -/
abbrev Cell (α : Type) := Option α

structure Heap (α : Type) where
  blocks : List (Option (List (Cell α))) := []
  ub     : Bool := false
  asrt   : Bool := false
deriving Repr

instance : Inhabited (Heap α) := ⟨{}⟩

/-- the two facts about the element type the code branches on -/
structure Cfg (α : Type) where
  /-- `std::is_trivially_default_constructible_v<T>` -/
  trivial : Bool
  /-- `T{}` -/
  dflt : α

structure Arr where
  base : Option BlockId
  lay  : Layout
deriving DecidableEq, Repr, Inhabited

namespace Heap
variable {α : Type}

def setUB (h : Heap α) : Heap α := { h with ub := true }
def setAssert (h : Heap α) : Heap α := { h with asrt := true }
def check (h : Heap α) (ok : Bool) : Heap α := if ok then h else h.setAssert

/-- `array_allocator::allocate(n)` array.hpp:60-65: `n ? allocator_traits::allocate(alloc_, n) : nullptr` -/
def alloc (h : Heap α) (n : Int) : Heap α × Option BlockId :=
  if n = 0 then (h, none)
  else ({ h with blocks := h.blocks ++ [some (List.replicate n.toNat none)] }, some h.blocks.length)

/-- the cells of a live block -/
def block? (h : Heap α) (p : Option BlockId) : Option (List (Cell α)) :=
  match p with
  | none => none
  | some b => (h.blocks[b]?).join

/-- `allocator_traits::deallocate(alloc, base_, n)` -/
def dealloc (h : Heap α) (p : Option BlockId) : Heap α :=
  match p with
  | none => h.setUB
  | some b =>
    match h.blocks[b]? with
    | some (some _) => { h with blocks := h.blocks.set b none }
    | _ => h.setUB

def read (h : Heap α) (p : Option BlockId) (off : Int) : Option (Cell α) :=
  if off < 0 then none else (h.block? p).bind fun cs => cs[off.toNat]?

def write (h : Heap α) (p : Option BlockId) (off : Int) (c : Cell α) : Heap α :=
  match p with
  | none => h.setUB
  | some b =>
    match h.blocks[b]? with
    | some (some cs) =>
      if 0 ≤ off ∧ off.toNat < cs.length then { h with blocks := h.blocks.set b (some (cs.set off.toNat c)) }
      else h.setUB
    | _ => h.setUB

/-- `*d = *s` / `construct(d, *s)` for one element -/
def copyCell (h : Heap α) (src : Option BlockId) (so : Int) (dst : Option BlockId) (d : Int) : Heap α :=
  match h.read src so with
  | none => h.setUB
  | some c => h.write dst d c

/-- `adl_copy_n(src, n, dst)` / `uninitialized_copy_n` over raw pointers: `k = 0 .. n-1` in order -/
def copyN (h : Heap α) (src dst : Option BlockId) (n : Nat) : Heap α :=
  (List.range n).foldl (fun h (k : Nat) => h.copyCell src (Int.ofNat k) dst (Int.ofNat k)) h

/-- `uninitialized_fill_n(dst, n, v)` / `adl_fill_n` -/
def fillN (h : Heap α) (dst : Option BlockId) (n : Nat) (c : Cell α) : Heap α :=
  (List.range n).foldl (fun h (k : Nat) => h.write dst (Int.ofNat k) c) h

/-- copy through two position lists (the positions two element iterators visit), pairwise and in order -/
def copyAddrs (h : Heap α) (src : Option BlockId) (ss : List Int) (dst : Option BlockId) (ds : List Int) : Heap α :=
  (ss.zip ds).foldl (fun h (sd : Int × Int) => h.copyCell src sd.1 dst sd.2) h

/-- write a list of values to consecutive cells starting at `off` -/
def writeList (h : Heap α) (dst : Option BlockId) (off : Nat) : List α → Heap α
  | [] => h
  | v :: vs => writeList (h.write dst (Int.ofNat off) (some v)) dst (off + 1) vs

end Heap

/-- `layout_type(extensions_type{})`: all extensions `[0,0)` (array.hpp:244, 563, 579, 1305) -/
def emptyLay (D : Nat) : Layout := Layout.ofExts (List.replicate D ⟨0, 0⟩)

/-- the positions `elements().begin()`, `++`, `++`, … visits (array_ref.hpp elements_range_t / elements_iterator_t),
    `n` of them; `none` = the iterator constructor or `operator++` divides by zero -/
def elemAddrs (v : View) (n : Nat) : Option (List Int) :=
  (ElemRange.ofView v).begin'.bind (go n)
where
  /-- `*it`, `++it`, … `n` times (the copy loops increment after every element, the last increment reaches `end()`) -/
  go : Nat → ElemIt → Option (List Int)
    | 0, _ => some []
    | k + 1, it => it.inc.bind fun it' => (go k it').map (it.current :: ·)

namespace Arr

def dim (a : Arr) : Nat := a.lay.length
def numElements (a : Arr) : Int := a.lay.numElements
def exts (a : Arr) : List Ext := a.lay.exts
/-- the array seen as a view of its own block (offsets are relative to the block start) -/
def view (a : Arr) : View := ⟨0, a.lay⟩

end Arr

variable {α : Type}

/-- `static_array::deallocate()` array.hpp:554-559: `if(num_elements()) deallocate(base_, num_elements())` -/
def deallocate (h : Heap α) (a : Arr) : Heap α :=
  if a.numElements ≠ 0 then h.dealloc a.base else h

/-- `~static_array()` array.hpp:587-592: `destroy(); deallocate();` -/
def dtor (h : Heap α) (a : Arr) : Heap α := deallocate h a

/-- `static_array::clear()` array.hpp:560-565: `destroy(); deallocate(); layout_mutable() = layout_type(extensions_type{})`
    (`base_` keeps its value) -/
def clear (h : Heap α) (a : Arr) : Heap α × Arr :=
  (deallocate h a, ⟨a.base, emptyLay a.dim⟩)

/-- `uninitialized_default_construct()` / `adl_alloc_uninitialized_value_construct_n` under
    `if constexpr(!is_trivially_default_constructible)` (array.hpp:171-175, 1455-1457, 1474-1476) -/
def valueConstruct (cfg : Cfg α) (h : Heap α) (p : Option BlockId) (n : Int) : Heap α :=
  if cfg.trivial then h else h.fillN p n.toNat (some cfg.dflt)

/-- `static_array()` array.hpp:578-582: `ref(nullptr, extensions_type{})`;
    D == 0 (892): `static_array(iextensions<0>{})`, which allocates one element (930-934) -/
def defaultCtor (cfg : Cfg α) (h : Heap α) (D : Nat) : Heap α × Arr :=
  match D with
  | 0 =>
    let (h1, p) := h.alloc 1
    (valueConstruct cfg h1 p 1, ⟨p, []⟩)
  | _ => (h, ⟨none, emptyLay D⟩)

/-- `static_array(extensions)` array.hpp:362-369 (D == 0: 930-938) -/
def extsCtor (cfg : Cfg α) (h : Heap α) (es : List Ext) : Heap α × Arr :=
  let lay := Layout.ofExts es
  let (h1, p) := h.alloc lay.numElements
  (valueConstruct cfg h1 p lay.numElements, ⟨p, lay⟩)

/-- `static_array(extensions, elem)` array.hpp:312-315, 331-346 (D == 0: 884-890) -/
def fillCtor (h : Heap α) (es : List Ext) (v : α) : Heap α × Arr :=
  let lay := Layout.ofExts es
  let (h1, p) := h.alloc lay.numElements
  (h1.fillN p lay.numElements.toNat (some v), ⟨p, lay⟩)

/-- `static_array(static_array const& other)` array.hpp:492-507: `allocate(other.num_elements())`, layout from
    `other.extensions()`, `uninitialized_copy_elements(other.data_elements())` = `copy_n(…, this->num_elements(), …)`
    (177-179).  Also the constructors from `array_ref<TT, D>` of another element type (437-490), which have the same
    three steps. -/
def copyCtor (h : Heap α) (other : Arr) : Heap α × Arr :=
  let lay := Layout.ofExts other.exts
  let (h1, p) := h.alloc other.numElements
  (h1.copyN other.base p lay.numElements.toNat, ⟨p, lay⟩)

/-- `array(array&& other)` array.hpp:1273-1278 → `static_array(decay_type&& other, alloc)` 242-245:
    `ref(std::exchange(other.base_, nullptr), other.extensions())`, `other.layout_mutable() = layout_type(extensions_type{})`.
    Returns (new array, moved-from source). -/
def moveCtor (other : Arr) : Arr × Arr :=
  (⟨other.base, Layout.ofExts other.exts⟩, ⟨none, emptyLay other.dim⟩)

/-- `static_array(const_subarray const& other, alloc)` array.hpp:374-388: `allocate(layout_t{other.extensions()}.num_elements())`,
    layout from `other.extensions()`, `uninitialized_copy_n(other.elements().begin(), this->num_elements(), this->data_elements())`.
    `sb` is the block the view `v` lives in. -/
def viewCtor (h : Heap α) (sb : Option BlockId) (v : View) : Heap α × Arr :=
  let lay := Layout.ofExts v.exts
  let n := lay.numElements
  let (h1, p) := h.alloc n
  match elemAddrs v n.toNat with
  | none => (h1.setUB, ⟨p, lay⟩)
  | some ss => (h1.copyAddrs sb ss p ((List.range n.toNat).map Int.ofNat), ⟨p, lay⟩)

/-- `static_array(It first, It last)` array.hpp:250-271 on a range of `count` sub-arrays (elements for D = 1) whose first
    has extensions `inner`: layout from `index_extension(count) * extensions(*first)`, elements copied in order
    (`adl_alloc_uninitialized_copy`, recursive for D > 1, array_ref.hpp uninitialized_copy).  An empty range gives an empty
    array (with the fix `fixes/empty-range-ctor.patch`; the unpatched code evaluates `*first`). -/
def rangeCtor (h : Heap α) (count : Int) (inner : List Ext) (vals : List α) : Heap α × Arr :=
  let es : List Ext := ⟨0, count⟩ :: (if count = 0 then List.replicate inner.length ⟨0, 0⟩ else inner)
  let lay := Layout.ofExts es
  let (h1, p) := h.alloc lay.numElements
  (h1.writeList p 0 vals, ⟨p, lay⟩)

/-- `array(std::initializer_list<value_type> ilv)` array.hpp:1220-1223:
    `static_{ilv.size()==0 ? array() : array(ilv.begin(), ilv.end())}` — the temporary is adopted through
    `static_array(decay_type&&)` (247-248).  The blocks of the inner lists' temporaries are not modelled. -/
def ilCtor (cfg : Cfg α) (h : Heap α) (count : Int) (inner : List Ext) (vals : List α) : Heap α × Arr :=
  if count = 0 then defaultCtor cfg h (inner.length + 1)
  else
    let (h1, tmp) := rangeCtor h count inner vals
    let (self, tmp') := moveCtor tmp
    (dtor h1 tmp', self)

/-- `array::operator=(array&& other)` array.hpp:1296-1309 for `this != &other`: `clear(); base_ = other.base_;
    layout_mutable() = std::exchange(other.layout_mutable(), layout_type(extensions_type{}))`.
    Returns (heap, this, other). -/
def moveAssign (h : Heap α) (self other : Arr) : Heap α × Arr × Arr :=
  let (h1, _) := clear h self
  (h1, ⟨other.base, other.lay⟩, ⟨other.base, emptyLay other.dim⟩)

/-- `array::operator=(array const& other)` array.hpp:1311-1330 for `this != &other` (for `this == &other` the
    extensions are equal and the first branch returns at 1313-1315).
    same extensions: `static_::operator=(other)` 675-683 = `adl_copy_n(other.data_elements(), other.num_elements(), data_elements())`;
    otherwise `clear(); layout_mutable() = other.layout(); allocate(); uninitialized_copy_elements(other.data_elements())`. -/
def copyAssign (h : Heap α) (self other : Arr) : Heap α × Arr :=
  if Exts.eqv self.exts other.exts then
    (h.copyN other.base self.base other.numElements.toNat, self)
  else
    let (h1, _) := clear h self
    let lay := other.lay
    let (h2, p) := h1.alloc lay.numElements
    (h2.copyN other.base p lay.numElements.toNat, ⟨p, lay⟩)

/-- `elements_range_t::operator=(elements_range_t&&)` array_ref.hpp:996-999:
    `if(!is_empty()) adl_copy(other.begin(), other.end(), begin())`.
    Destination view `dv` in block `db`, source view `sv` in block `sb`. -/
def copyElems (h : Heap α) (sb : Option BlockId) (sv : View) (db : Option BlockId) (dv : View) : Heap α :=
  if dv.isEmpty then h
  else
    let n := sv.numElements.toNat
    match elemAddrs sv n, elemAddrs dv n with
    | some ss, some ds => h.copyAddrs sb ss db ds
    | _, _ => h.setUB

/-- `subarray::operator=` through `elements()` (array_ref.hpp:2062-2067, 2141-2145): `assert(extensions() == other.extensions())`,
    then `elements_range_t::operator=(OtherElementRange&&)` (1001-1013): `assert(size() == other.size());
    if(!is_empty()) adl_copy(begin(other), end(other), begin())`. -/
def assignElems (h : Heap α) (sb : Option BlockId) (sv : View) (db : Option BlockId) (dv : View) : Heap α :=
  let h := h.check (Exts.eqv dv.exts sv.exts)
  let h := h.check (dv.numElements == sv.numElements)
  copyElems h sb sv db dv

/-- `array::operator=(const_subarray const& other)` array.hpp:1335-1343:
    same extensions → `static_::operator=(other)` (669-674) = `ref::operator=(other)` = element-wise through `elements()`;
    otherwise `operator=(array{other})`. -/
def viewAssign (h : Heap α) (self : Arr) (sb : Option BlockId) (v : View) : Heap α × Arr :=
  if Exts.eqv self.exts v.exts then
    (assignElems h sb v self.base self.view, self)
  else
    let (h1, tmp) := viewCtor h sb v
    let (h2, self', tmp') := moveAssign h1 self tmp
    (dtor h2 tmp', self')

/-- `array::reshape(extensions)` array.hpp:1238-1244 -/
def reshape (h : Heap α) (self : Arr) (es : List Ext) : Heap α × Arr :=
  let lay := Layout.ofExts es
  (h.check (lay.numElements == self.numElements), ⟨self.base, lay⟩)

/-- `array::operator=(multi::array<TT, D, AAlloc> const& other)` array.hpp:1345-1359 (another element type):
    same extensions → `static_::operator=(other)` (702-707: `copy_n`); same number of elements → `reshape(other.extensions())`
    then `copy_n`; otherwise `operator=(static_cast<array>(other))`. -/
def convAssign (h : Heap α) (self other : Arr) : Heap α × Arr :=
  if Exts.eqv self.exts other.exts then
    (h.copyN other.base self.base other.numElements.toNat, self)
  else if self.numElements = Exts.numElements other.exts then
    let (h1, self') := reshape h self other.exts
    (h1.copyN other.base self'.base other.numElements.toNat, self')
  else
    let (h1, tmp) := copyCtor h other
    let (h2, self', tmp') := moveAssign h1 self tmp
    (dtor h2 tmp', self')

/-- `array::operator=(Range&& other)` array.hpp:1361-1379 — the overload `A = view` selects when the argument's static type is
    `subarray` (not `const_subarray`): same extensions → `operator()() = other` (element-wise, array_ref.hpp:2141-2145);
    same number of elements → `reshape(other.extensions())`, then element-wise; otherwise `operator=(static_cast<array>(other))`.
    (README "Copy and assignment (and aliasing)": the view must not alias `*this`.) -/
def rangeAssign (h : Heap α) (self : Arr) (sb : Option BlockId) (v : View) : Heap α × Arr :=
  if Exts.eqv self.exts v.exts then
    (assignElems h sb v self.base self.view, self)
  else if self.numElements = Exts.numElements v.exts then
    let (h1, self') := reshape h self v.exts
    -- with fixes/assign-empty-view.patch: `if(num_elements() != 0) operator()() = other;`  (an array without elements reports
    -- all-empty extensions, which need not be the view's: the unpatched code then fails the `extension()` assertion)
    if self'.numElements = 0 then (h1, self') else (assignElems h1 sb v self'.base self'.view, self')
  else
    let (h1, tmp) := viewCtor h sb v
    let (h2, self', tmp') := moveAssign h1 self tmp
    (dtor h2 tmp', self')

/-- `array::swap(array& other)` array.hpp:1282-1293: `swap(base_, other.base_); swap(layout_mutable(), other.layout_mutable())` -/
def swap (a b : Arr) : Arr × Arr := (b, a)

/-- `std::swap(a, b)`: `array tmp(std::move(a)); a = std::move(b); b = std::move(tmp);` -/
def stdSwap (h : Heap α) (a b : Arr) : Heap α × Arr × Arr :=
  let (tmp, a1) := moveCtor a
  let (h1, a2, b1) := moveAssign h a1 b
  let (h2, b2, tmp1) := moveAssign h1 b1 tmp
  (dtor h2 tmp1, a2, b2)

/-- `array::assign(extensions, elem)` array.hpp:1401-1410 -/
def assignFill (h : Heap α) (self : Arr) (es : List Ext) (v : α) : Heap α × Arr :=
  if Exts.eqv self.exts es then
    (h.fillN self.base self.numElements.toNat (some v), self)
  else
    let (h1, _) := clear h self
    let lay := Layout.ofExts es
    let (h2, p) := h1.alloc lay.numElements
    (h2.fillN p lay.numElements.toNat (some v), ⟨p, lay⟩)

/-- one step of `ref::assign(first)` = `adl_copy_n(first, size(), begin())` (array_ref.hpp:1998): `*dest = *first` for the
    `k`-th sub-array.  D = 1: an element assignment.  D > 1: `subarray::operator=(const_subarray const&) &&` (2141-2145):
    `assert(extensions() == other.extensions())`, then `elements() = other.elements()`.  The source sub-array is given by its
    values `row` (canonical order); it has the extensions `inner` and is contiguous. -/
def assignRow (h : Heap α) (self : Arr) (k : Nat) (inner : List Ext) (row : List α) : Heap α :=
  let dv := self.view.index (self.view.ext.first + Int.ofNat k)
  match inner with
  | [] => match row with
    | v :: _ => h.write self.base dv.base (some v)
    | [] => h
  | e :: _ =>
    let h := h.check (Exts.eqv dv.exts inner && dv.numElements == Int.ofNat row.length)
    if dv.isEmpty then h
    else match elemAddrs dv row.length with
      | none => h.setUB
      | some ds => (ds.zip row).foldl (fun h (dv : Int × α) => h.write self.base dv.1 (some dv.2)) h

def chunks (m : Nat) : Nat → List α → List (List α)
  | 0, _ => []
  | k + 1, vs => vs.take m :: chunks m k (vs.drop m)

/-- `array::assign(It first, It last)` array.hpp:1412-1422 with the fix `fixes/assign-inner-extents.patch`:
    `if(distance(first, last) == size() && (first == last || extensions(*first) == extensions(*begin())))  ref::assign(first);
     else operator=(array(first, last));`
    (the unpatched code tests only `distance(first, last) == size()` and then copies rows of mismatching extents). -/
def assignRange (h : Heap α) (self : Arr) (count : Int) (inner : List Ext) (vals : List α) : Heap α × Arr :=
  let rowExts := (self.view.index self.view.ext.first).exts
  if count = self.view.size ∧ (count = 0 ∨ Exts.eqv inner rowExts) then
    let m := (Exts.numElements inner).toNat
    let rows := chunks m count.toNat vals
    (((List.range count.toNat).zip rows).foldl (fun h (kr : Nat × List α) => assignRow h self kr.1 inner kr.2) h, self)
  else
    let (h1, tmp) := rangeCtor h count inner vals
    let (h2, self', tmp') := moveAssign h1 self tmp
    (dtor h2 tmp', self')

/-- `array::operator=(std::initializer_list<value_type> values)` array.hpp:1433-1440 -/
def ilAssign (h : Heap α) (self : Arr) (count : Int) (inner : List Ext) (vals : List α) : Heap α × Arr :=
  if count = 0 then clear h self else assignRange h self count inner vals

/-- the slice `A.apply(is)` = `A(is₀, is₁, …)` with one range per dimension (array_ref.hpp apply_impl_, paren_aux_) -/
def applyExts (v : View) (is : List Ext) : View := v.paren (is.map fun e => Arg.rng e.first e.last)

/-- `array::reextent(extensions) &` array.hpp:1461-1484 and `reextent(extensions, elem) &` 1489-1517.
    `fill = none`: value-construct (non-trivial `T`) or leave indeterminate; `fill = some v`: `uninitialized_fill_n(…, v)`. -/
def reextent (cfg : Cfg α) (h : Heap α) (self : Arr) (x : List Ext) (fill : Option α) : Heap α × Arr :=
  if Exts.eqv x self.exts then (h, self)
  else
    let tl := Layout.ofExts x
    let (h1, p) := h.alloc tl.numElements
    let tmp : Arr := ⟨p, tl⟩
    let h2 := match fill with
      | none => valueConstruct cfg h1 p tl.numElements
      | some v => h1.fillN p tl.numElements.toNat (some v)
    let is := Exts.inter self.exts tmp.exts
    -- with fixes/reextent-index-bases.patch: `if(is.num_elements() != 0) tmp.apply(is).elements() = this->apply(is).elements();`
    -- (the unpatched code assigns the slices themselves, which asserts equal extensions — false as soon as an index base
    --  differs — and slices a null `base_` when `*this` has no elements)
    let h3 := if Exts.numElements is = 0 then h2
              else copyElems h2 self.base (applyExts self.view is) p (applyExts tmp.view is)
    let h4 := deallocate h3 self
    (h4, tmp)

/-- `array::reextent(extensions) &&` array.hpp:1442-1459: `destroy(); deallocate(); layout = layout_t{extensions};
    base_ = allocate(…); value-construct` — nothing is kept. -/
def reextentMoved (cfg : Cfg α) (h : Heap α) (self : Arr) (x : List Ext) : Heap α × Arr :=
  if Exts.eqv x self.exts then (h, self)
  else
    let h1 := deallocate h self
    let lay := Layout.ofExts x
    let (h2, p) := h1.alloc lay.numElements
    (valueConstruct cfg h2 p lay.numElements, ⟨p, lay⟩)

/-- element write `A[i][j]… = v` (operator[] chain, array_ref.hpp at_aux_) -/
def writeAt (h : Heap α) (self : Arr) (idx : List Int) (v : α) : Heap α :=
  h.write self.base (self.view.addr idx) (some v)

/-- element read -/
def readAt (h : Heap α) (self : Arr) (idx : List Int) : Option (Cell α) :=
  h.read self.base (self.view.addr idx)

/-- `static_array<T, 0>::operator=(static_array const&)` array.hpp:1056-1063 and `array<T,0>::operator=(Other const&)`
    1131-1136 → `assign(&other)` 753-759: `adl_copy_n(data, 1, base())` -/
def assign0 (h : Heap α) (self : Arr) (v : α) : Heap α := h.write self.base 0 (some v)

/-- all elements in canonical order, as `q arr` prints them: through the index tuples of the extensions -/
def elems (h : Heap α) (a : Arr) : List (Option (Cell α)) :=
  (boxIndices a.exts).map fun idx => readAt h a idx

end Own
end Multi
