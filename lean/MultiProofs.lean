import MultiProofs.Spec
import MultiProofs.Lemmas
import MultiProofs.Basic
import MultiProofs.Ops
import MultiProofs.Perm
import MultiProofs.Ops2
