import MultiModel.Layout
import MultiModel.View
import MultiModel.Iter
