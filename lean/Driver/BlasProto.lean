/-
  Driver.BlasProto — line protocol of harness/blas.cpp replayed on the model (C13).

  For every `x <op> <form> <ty> <nd> <dataseed> <alpha> <beta> <f1> <f2> <f3> <operands>` line it prints what the regenerated
  dispatch (MultiModel.Gen.BlasDispatch) + hand-written front ends (MultiModel.BlasFront) + core.hpp checks + reference
  BLAS semantics (MultiModel.Blas) prescribe:

      call <routine> <flags> <sizes> <scalars> <pointer offsets> <leading dimensions>     per BLAS call reached
      xerbla <ROUTINE> <param>                                                           illegal call: nothing is done
      res ok | res reject throw | res reject assert
      vals .. / rval .. / out <hash of the arena> / num ok | num rejected | num FAIL <kind>

  The arithmetic is exact over the Gaussian integers; the initial arena is the same pure function of (seed, address)
  the harness uses.  `mmdrv_blas --key` prints, instead, the finding class of each program (function, branch ordinal,
  size/layout class) used by tools/props/C13.py.
-/
import MultiModel.Blas
import MultiModel.BlasFront
import MultiModel.Gen.BlasDispatch

namespace Driver.Blas
open Multi.Blas

/-! ### the arena -/
def REG : Int := 128
def NREG : Int := 4
def MARGIN : Int := 256
def TOTAL : Nat := (2 * MARGIN + NREG * REG).toNat

def valAt (seed : UInt64) (addr : Int) (comp : UInt64) : Int :=
  let a : UInt64 := UInt64.ofNat (addr + 100000).toNat
  let h := (seed ^^^ 0x9E3779B97F4A7C15) + a * 0xBF58476D1CE4E5B9 + comp * 0x94D049BB133111EB
  let h := h ^^^ (h >>> 31)
  let h := h * 0xD6E8FEB86659FD93
  let h := h ^^^ (h >>> 29)
  Int.ofNat ((h >>> 33) % 7).toNat - 3

def initAt (seed : UInt64) (cplx : Bool) (addr : Int) : GInt :=
  ⟨valAt seed addr 0, if cplx then valAt seed addr 1 else 0⟩

/-- state of the arena as an array; addresses outside read the initial value -/
structure Arena where
  seed : UInt64
  cplx : Bool
  cells : Array GInt

def Arena.mem (a : Arena) : Mem GInt := fun addr =>
  let i := addr + MARGIN
  if 0 ≤ i ∧ i < Int.ofNat TOTAL then a.cells.getD i.toNat ⟨0, 0⟩ else initAt a.seed a.cplx addr

def Arena.ofMem (seed : UInt64) (cplx : Bool) (m : Mem GInt) : Arena :=
  ⟨seed, cplx, Array.ofFn (n := TOTAL) fun i => m (Int.ofNat i.val - MARGIN)⟩

def Arena.init (seed : UInt64) (cplx : Bool) : Arena := Arena.ofMem seed cplx (initAt seed cplx)

def Arena.set (a : Arena) (addr : Int) (v : GInt) : Arena :=
  let i := addr + MARGIN
  if 0 ≤ i ∧ i < Int.ofNat TOTAL then { a with cells := a.cells.setIfInBounds i.toNat v } else a

def Arena.hash (a : Arena) : UInt64 :=
  a.cells.foldl (fun (h : UInt64) (g : GInt) =>
    let h := (h ^^^ UInt64.ofNat (g.re + 1000003).toNat) * 1099511628211
    (h ^^^ UInt64.ofNat (g.im + 1000003).toNat) * 1099511628211) 1469598103934665603

/-! ### a parsed case -/
structure Case where
  op : String
  form : String
  ty : Char
  nd : Bool
  seed : UInt64
  alpha : GInt
  beta : GInt
  f1 : Char
  f2 : Char
  f3 : Char
  ms : Array Mat
  vs : Array Vec
  saddr : Int
deriving Inhabited

def Case.cplx (c : Case) : Bool := c.ty = 'c' || c.ty = 'z'

def chr0 (s : String) : Char := s.toList.headD '-'

partial def parseOperands (ws : List String) (ms : Array Mat) (vs : Array Vec) (sa : Int) : Option (Array Mat × Array Vec × Int) :=
  match ws with
  | [] => some (ms, vs, sa)
  | "M" :: rest =>
    match rest.drop 11 with   -- 10 recipe tokens and the bar
    | b :: s0 :: s1 :: n0 :: n1 :: cj :: tl =>
      match b.toInt?, s0.toInt?, s1.toInt?, n0.toInt?, n1.toInt?, cj.toInt? with
      | some b, some s0, some s1, some n0, some n1, some cj => parseOperands tl (ms.push ⟨b, s0, s1, n0, n1, cj != 0⟩) vs sa
      | _, _, _, _, _, _ => none
    | _ => none
  | "V" :: rest =>
    match rest.drop 5 with    -- 4 recipe tokens and the bar
    | b :: inc :: n :: cj :: tl =>
      match b.toInt?, inc.toInt?, n.toInt?, cj.toInt? with
      | some b, some inc, some n, some cj => parseOperands tl ms (vs.push ⟨b, inc, n, cj != 0⟩) sa
      | _, _, _, _ => none
    | _ => none
  | "S" :: a :: tl => match a.toInt? with
    | some a => parseOperands tl ms vs a
    | none => none
  | _ => none

def parseCase (ws : List String) : Option Case :=
  match ws with
  | "x" :: op :: form :: ty :: nd :: seed :: are :: aim :: bre :: bim :: f1 :: f2 :: f3 :: rest =>
    match seed.toNat?, are.toInt?, aim.toInt?, bre.toInt?, bim.toInt?, parseOperands rest #[] #[] 0 with
    | some seed, some are, some aim, some bre, some bim, some (ms, vs, sa) =>
      some ⟨op, form, chr0 ty, nd == "1", UInt64.ofNat seed, ⟨are, aim⟩, ⟨bre, bim⟩, chr0 f1, chr0 f2, chr0 f3, ms, vs, sa⟩
    | _, _, _, _, _, _ => none
  | _ => none

/-! ### printing -/
def sc (g : GInt) : String := s!"s:{g.re}:{g.im}"
def po (p : Int) : String := s!"@{p}"
def EXT : Int := 1000000   -- stands for a pointer outside the arena (a result returned by value)
def pox (p : Int) : String := if p == EXT then "@ext" else s!"@{p}"

def l1name (ty : Char) (base : String) : String :=
  match base with
  | "nrm2" => (match ty with | 's' => "snrm2" | 'd' => "dnrm2" | 'c' => "scnrm2" | _ => "dznrm2")
  | "asum" => (match ty with | 's' => "sasum" | 'd' => "dasum" | 'c' => "scasum" | _ => "dzasum")
  | "iamax" => s!"i{ty}amax"
  | b => s!"{ty}{b}"

def callLine (ty : Char) : Call GInt → String
  | .gemm g => s!"call {ty}gemm {g.ta} {g.tb} {g.m} {g.n} {g.k} {sc g.alpha} {po g.a} {g.lda} {po g.b} {g.ldb} {sc g.beta} {po g.c} {g.ldc}"
  | .gemv g => s!"call {ty}gemv {g.t} {g.m} {g.n} {sc g.alpha} {po g.a} {g.lda} {po g.x} {g.incx} {sc g.beta} {pox g.y} {g.incy}"
  | .syrk g => s!"call {ty}syrk {g.uplo} {g.t} {g.n} {g.k} {sc g.alpha} {po g.a} {g.lda} {sc g.beta} {po g.c} {g.ldc}"
  | .herk g => s!"call {ty}herk {g.uplo} {g.t} {g.n} {g.k} {sc g.alpha} {po g.a} {g.lda} {sc g.beta} {po g.c} {g.ldc}"
  | .trsm g => s!"call {ty}trsm {g.side} {g.uplo} {g.t} {g.diag} {g.m} {g.n} {sc g.alpha} {po g.a} {g.lda} {po g.b} {g.ldb}"
  | .swap g => s!"call {ty}swap {g.n} {po g.x} {g.incx} {po g.y} {g.incy}"
  | .copy g => s!"call {ty}copy {g.n} {po g.x} {g.incx} {po g.y} {g.incy}"
  | .scal g => s!"call {ty}scal {g.n} {sc g.alpha} {po g.x} {g.incx}"
  | .axpy g => s!"call {ty}axpy {g.n} {sc g.alpha} {po g.x} {g.incx} {po g.y} {g.incy}"
  | .dot g => s!"call {ty}dot {g.n} {po g.x} {g.incx} {po g.y} {g.incy}"
  | .dotu g => s!"call {ty}dotu {g.n} {po g.x} {g.incx} {po g.y} {g.incy}"
  | .dotc g => s!"call {ty}dotc {g.n} {po g.x} {g.incx} {po g.y} {g.incy}"
  | .nrm2 g => s!"call {l1name ty "nrm2"} {g.n} {po g.x} {g.incx}"
  | .asum g => s!"call {l1name ty "asum"} {g.n} {po g.x} {g.incx}"
  | .iamax g => s!"call {l1name ty "iamax"} {g.n} {po g.x} {g.incx}"

def routineUpper (ty : Char) : Call GInt → String
  | .gemm _ => s!"{ty.toUpper}GEMM"
  | .gemv _ => s!"{ty.toUpper}GEMV"
  | .syrk _ => s!"{ty.toUpper}SYRK"
  | .herk _ => s!"{ty.toUpper}HERK"
  | .trsm _ => s!"{ty.toUpper}TRSM"
  | _ => "?"

/-! ### running the model -/
inductive Stop where
  | none
  | assert
  | throw
deriving DecidableEq

structure Run where
  lines : Array String := #[]
  arena : Arena
  stop : Stop := .none
  rval : Option (Option GInt) := Option.none    -- some none = a result that was never written
  tags : Array (String × Nat) := #[]             -- (function, branch ordinal) of the chains taken

/-- one BLAS call through the core.hpp layer and the reference semantics -/
def Run.blas (r : Run) (c : Case) (call : Call GInt) : Run :=
  if Front.coreThrows c.nd call then { r with stop := .throw }
  else
    let r := { r with lines := r.lines.push (callLine c.ty call) }
    -- `lenient`: the differential run is against OpenBLAS, whose xGEMM accepts a leading dimension 0 for an operand without rows
    match call.illegalL c.cplx true with
    | some p => { r with lines := r.lines.push s!"xerbla {routineUpper c.ty call} {p}" }
    | none => { r with arena := Arena.ofMem r.arena.seed r.arena.cplx (call.execL c.cplx true r.arena.mem) }

def absI (x : Int) : Int := if x < 0 then -x else x

/-- level-1 reductions and dot: which Fortran routine the core layer reaches, and the value it produces -/
def Run.reduce (r : Run) (c : Case) (call : Call GInt) (resPtr : Int) : Run :=
  let mem := r.arena.mem
  let store (r : Run) (v : GInt) : Run :=
    if resPtr == EXT then { r with rval := some (some v) } else { r with arena := r.arena.set resPtr v, rval := some (some v) }
  let viaGemv (r : Run) (g : L1Call GInt) : Run :=
    -- core.hpp:295, 357, 362: the product is computed by xGEMV on a 1×n "matrix"; the result cell keeps its old content when nothing is written
    -- a result returned by value starts as `decay_type ret;` (dot.hpp:118): zero for std::complex, indeterminate for float
    let unwritten : Option GInt := if resPtr == EXT then (if c.cplx then some 0 else Option.none) else some (mem resPtr)
    let gv := Front.dotAsGemv g resPtr
    -- core.hpp (when guarded): `if(n == 0) {*rp = R{}; return;}` before the xGEMV call
    if Gen.coreDotGemvGuardsEmpty && g.n == 0 then store r 0 else
    let r := { r with lines := r.lines.push (callLine c.ty (.gemv gv)) }
    match gv.illegal with
    | some p => { r with lines := r.lines.push s!"xerbla {routineUpper c.ty (.gemv gv)} {p}", rval := some unwritten }
    | none =>
      if gv.m = 0 ∨ gv.n = 0 then { r with rval := some unwritten }
      else
        -- y(0) := 1 * Σ_l A(0,l) x(l) + 0 * y(0), A(0,l) = x[l*incx]
        match Front.dotResult c.ty call mem with
        | some v => store r v
        | none => { r with rval := some unwritten }
  match call with
  | .dot g =>
    if c.ty = 'd' then store { r with lines := r.lines.push (callLine c.ty call) } ((Front.dotResult c.ty call mem).getD 0)
    else viaGemv r g
  | .dotu g => viaGemv r g
  | .dotc _ => store { r with lines := r.lines.push (callLine c.ty call) } ((Front.dotResult c.ty call mem).getD 0)
  | .nrm2 g =>
    let v : Int := (List.range g.n.toNat).foldl (fun (acc : Int) (i : Nat) => let x := mem (g.x + Int.ofNat i * g.incx); acc + x.re * x.re + x.im * x.im) 0
    { r with lines := r.lines.push (callLine c.ty call), rval := some (some ⟨v, 0⟩) }
  | .asum g =>
    let v : Int := (List.range g.n.toNat).foldl (fun (acc : Int) (i : Nat) => let x := mem (g.x + Int.ofNat i * g.incx); acc + absI x.re + absI x.im) 0
    { r with lines := r.lines.push (callLine c.ty call), rval := some (some ⟨v, 0⟩) }
  | .iamax g =>
    let (_, bi) := (List.range g.n.toNat).foldl (fun (acc : Int × Int) (i : Nat) =>
      let x := mem (g.x + Int.ofNat i * g.incx); let m := absI x.re + absI x.im
      if m > acc.1 then (m, Int.ofNat i) else acc) ((-1 : Int), (-1 : Int))
    { r with lines := r.lines.push (callLine c.ty call), rval := some (some ⟨bi, 0⟩) }
  | _ => r

def Run.step (r : Run) (c : Case) (fn : String) (o : Outcome GInt) (resPtr : Int := EXT) : Run :=
  if r.stop != .none then r else
  let r := { r with tags := r.tags.push (fn, o.tag) }
  match o with
  | .nop _ => r
  | .assertFail _ => { r with stop := .assert }
  | .throw _ => { r with stop := .throw }
  | .call _ call =>
    match call with
    | .dot _ | .dotu _ | .dotc _ | .nrm2 _ | .asum _ | .iamax _ => r.reduce c call resPtr
    | _ => r.blas c call

def flipF (ch : Char) : Filling := if ch = 'u' then .upper else .lower
def sideF (ch : Char) : Side := if ch = 'l' then .left else .right
def diagF (ch : Char) : Diag := if ch = 'u' then .unit else .nonUnit

def gneg (g : GInt) : GInt := ⟨-g.re, -g.im⟩

/-- name of the regenerated chain an operation ends in (for the finding key) -/
def chainOf (c : Case) : String :=
  match c.op with
  | "gemm" =>
    let a := c.ms[0]!; let b := c.ms[1]!; let cc := c.ms[2]!
    let (ca, cb) := if cc.cj && c.form == "inplace" then (!a.cj, !b.cj) else (a.cj, b.cj)
    "gemm_n_" ++ (if ca then "c" else "n") ++ (if cb then "c" else "n")
  | "gemv" => "gemv_n"
  | "herk" => if c.cplx then (if c.ms[1]!.cj then "herk_plain" else "herk") else "syrk"
  | "syrk" => "syrk"
  | "trsm" => "trsm"
  | o => o ++ "_n"

def runModel (c : Case) (r0 : Run) : Run :=
  let nd := c.nd
  let fn := chainOf c
  match c.op with
  | "gemm" =>
    let a := c.ms[0]!; let b := c.ms[1]!; let cc := c.ms[2]!
    let o : Outcome GInt := match c.form with
      | "inplace" => Front.gemm nd c.alpha c.beta a b cc
      | "assign" => Front.gemmAssign nd c.alpha a b cc
      | "pluseq" => Front.gemmPlusEq nd c.alpha a b cc
      | "opmul" => Front.gemmAssign nd 1 a b cc
      | _ => Front.gemmPlusEq nd 1 a b cc
    r0.step c fn o
  | "gemv" =>
    let m := c.ms[0]!; let x := c.vs[0]!; let y := c.vs[1]!
    let o : Outcome GInt := match c.form with
      | "inplace" => Front.gemv nd c.alpha c.beta m x y
      | "assign" => Front.gemvAssign nd c.alpha m x y
      | _ => Front.gemvPlusEq nd c.alpha m x y
    r0.step c fn o
  | "herk" =>
    let a := c.ms[0]!; let cc := c.ms[1]!
    if c.form == "both" then (Front.herkBoth nd c.cplx c.alpha a cc).foldl (fun r o => r.step c fn o) r0
    else r0.step c fn (Front.herkInplace nd c.cplx (flipF c.f1) c.alpha c.beta a cc)
  | "syrk" => r0.step c fn (Gen.syrk nd (flipF c.f1) c.alpha c.beta c.ms[0]! c.ms[1]!)
  | "trsm" =>
    let alpha : GInt := if c.form == "op" then 1 else c.alpha
    let diag := if c.form == "op" then Diag.nonUnit else diagF c.f3
    r0.step c fn (Gen.trsm nd (sideF c.f1) (flipF c.f2) diag alpha c.ms[0]! c.ms[1]!)
  | "dot" =>
    let x := c.vs[0]!; let y := c.vs[1]!
    r0.step c fn (Front.dot nd c.cplx x y) (if c.form == "res" then c.saddr else EXT)
  | "axpy" =>
    let x := c.vs[0]!; let y := c.vs[1]!
    let o : Outcome GInt := match c.form with
      | "inplace" => Front.axpy nd c.alpha x y
      | "pluseq" => Front.axpyRange nd c.alpha x y
      | "minuseq" => Front.axpyRange nd (gneg c.alpha) x y
      | "opadd" => Front.axpy nd 1 x y
      | "opsub" => Front.axpy nd (gneg 1) x y
      | _ => Front.axpy nd c.alpha x y
    r0.step c fn o
  | "scal" => r0.step c fn (Front.scal nd c.alpha c.vs[0]!)
  | "copy" =>
    let x := c.vs[0]!; let y := c.vs[1]!
    r0.step c fn (if c.form == "assign" then Front.copyAssign nd x y else Front.copy nd x y)
  | "swap" => r0.step c fn (Front.swap nd c.vs[0]! c.vs[1]!)
  | "nrm2" => r0.step c fn (Gen.nrm2_n nd c.vs[0]!.n c.vs[0]!)
  | "asum" => r0.step c fn (Gen.asum_n nd c.vs[0]!.n c.vs[0]!)
  | "iamax" => r0.step c fn (Gen.iamax_n nd c.vs[0]!.n c.vs[0]!)
  | _ => r0

/-! ### the oracle: the mathematical definition on the logical contents (mirrors `spec` of harness/blas.cpp) -/
def unitOf (seed : UInt64) (i : Int) (cplx : Bool) : GInt :=
  let k := (valAt seed (7000 + i) 2 + 3) % (if cplx then 4 else 2)
  if k = 0 then ⟨1, 0⟩ else if k = 1 then ⟨-1, 0⟩ else if k = 2 then ⟨0, 1⟩ else ⟨0, -1⟩

def minI (a b : Int) : Int := if a ≤ b then a else b

def fixups (c : Case) (a : Arena) : Arena :=
  if c.op == "trsm" then
    let A := c.ms[0]!
    (List.range (minI A.n0 A.n1).toNat).foldl (fun (ar : Arena) (i : Nat) => ar.set (A.addr (Int.ofNat i) (Int.ofNat i)) (unitOf c.seed (Int.ofNat i) c.cplx)) a
  else if c.op == "herk" && c.cplx then
    let C := c.ms[1]!
    (List.range (minI C.n0 C.n1).toNat).foldl (fun (ar : Arena) (i : Nat) =>
      let ad := C.addr (Int.ofNat i) (Int.ofNat i); ar.set ad ⟨(ar.mem ad).re, 0⟩) a
  else a

def rangeI (n : Int) : List Int := (List.range n.toNat).map Int.ofNat

structure Spec where
  expect : Arena
  outimg : Array Bool
  rexp : Option GInt := none

def markM (img : Array Bool) (d : Mat) : Array Bool :=
  (rangeI d.n0).foldl (fun img i => (rangeI d.n1).foldl (fun img j =>
    let a := d.addr i j + MARGIN; if 0 ≤ a ∧ a < Int.ofNat TOTAL then img.setIfInBounds a.toNat true else img) img) img
def markV (img : Array Bool) (d : Vec) : Array Bool :=
  (rangeI d.n).foldl (fun img i => let a := d.addr i + MARGIN; if 0 ≤ a ∧ a < Int.ofNat TOTAL then img.setIfInBounds a.toNat true else img) img

def stM (ar : Arena) (d : Mat) (i j : Int) (x : GInt) : Arena := ar.set (d.addr i j) (cjIf d.cj x)
def stV (ar : Arena) (d : Vec) (i : Int) (x : GInt) : Arena := ar.set (d.addr i) (cjIf d.cj x)

def sumL (l : List Int) (f : Int → GInt) : GInt := l.foldl (fun acc i => acc + f i) 0

/-- none = the operands' sizes do not fit: the operation has no meaning and must be rejected -/
def spec (c : Case) (snap : Arena) : Option Spec :=
  let mem := snap.mem
  let img0 : Array Bool := Array.replicate TOTAL false
  match c.op with
  | "gemm" =>
    let A := c.ms[0]!; let B := c.ms[1]!; let C := c.ms[2]!
    if !(A.n0 == C.n0 && B.n1 == C.n1 && A.n1 == B.n0) then none else
    let e := (rangeI C.n0).foldl (fun e i => (rangeI C.n1).foldl (fun e j =>
      stM e C i j (c.alpha * sumL (rangeI A.n1) (fun l => A.load mem i l * B.load mem l j) + c.beta * C.load mem i j)) e) snap
    some ⟨e, markM img0 C, none⟩
  | "gemv" =>
    let A := c.ms[0]!; let X := c.vs[0]!; let Y := c.vs[1]!
    if !(A.n0 == Y.n && A.n1 == X.n) then none else
    let e := (rangeI Y.n).foldl (fun e i => stV e Y i (c.alpha * sumL (rangeI X.n) (fun l => A.load mem i l * X.load mem l) + c.beta * Y.load mem i)) snap
    some ⟨e, markV img0 Y, none⟩
  | "herk" | "syrk" =>
    let A := c.ms[0]!; let C := c.ms[1]!
    if !(A.n0 == C.n0 && C.n0 == C.n1) then none else
    let herm := c.op == "herk" && c.cplx
    let e := (rangeI C.n0).foldl (fun e i => (rangeI C.n1).foldl (fun e j =>
      let intri := c.f1 == 'b' || (if c.f1 == 'u' then i ≤ j else j ≤ i)
      if !intri then e else
      stM e C i j (c.alpha * sumL (rangeI A.n1) (fun l => A.load mem i l * (if herm then CRing.conj (A.load mem j l) else A.load mem j l)) + c.beta * C.load mem i j)) e) snap
    some ⟨e, markM img0 C, none⟩
  | "trsm" =>
    let A := c.ms[0]!; let B := c.ms[1]!
    let left := c.f1 == 'l'
    let n := if left then B.n0 else B.n1
    if !(A.n0 == n && A.n1 == n) then none else
    let unit := c.f3 == 'u' && c.form != "op"
    let upper := c.f2 == 'u'
    let alpha : GInt := if c.form == "op" then 1 else c.alpha
    let a := fun i j => A.load mem i j
    let inv := fun i => if unit then (1 : GInt) else CRing.conj (a i i)
    let nn := n.toNat
    let e :=
      if left then
        (rangeI B.n1).foldl (fun e col =>
          let xs : Array GInt := (List.range nn).foldl (fun (xs : Array GInt) (t : Nat) =>
            let i : Int := if upper then n - 1 - Int.ofNat t else Int.ofNat t
            let js := if upper then (rangeI n).filter (fun j => j > i) else (rangeI n).filter (fun j => j < i)
            let s := js.foldl (fun s j => s + gneg (a i j * xs.getD j.toNat 0)) (alpha * B.load mem i col)
            xs.setIfInBounds i.toNat (s * inv i)) (Array.replicate nn (0 : GInt))
          (rangeI n).foldl (fun e i => stM e B i col (xs.getD i.toNat 0)) e) snap
      else
        (rangeI B.n0).foldl (fun e row =>
          let xs : Array GInt := (List.range nn).foldl (fun (xs : Array GInt) (t : Nat) =>
            let j : Int := if upper then Int.ofNat t else n - 1 - Int.ofNat t
            let is := if upper then (rangeI n).filter (fun i => i < j) else (rangeI n).filter (fun i => i > j)
            let s := is.foldl (fun s i => s + gneg (xs.getD i.toNat 0 * a i j)) (alpha * B.load mem row j)
            xs.setIfInBounds j.toNat (s * inv j)) (Array.replicate nn (0 : GInt))
          (rangeI n).foldl (fun e j => stM e B row j (xs.getD j.toNat 0)) e) snap
    some ⟨e, markM img0 B, none⟩
  | "dot" =>
    let X := c.vs[0]!; let Y := c.vs[1]!
    if X.n != Y.n then none else
    let s := sumL (rangeI X.n) (fun i => X.load mem i * Y.load mem i)
    if c.form == "res" then
      let a := c.saddr + MARGIN
      some ⟨snap.set c.saddr s, if 0 ≤ a ∧ a < Int.ofNat TOTAL then img0.setIfInBounds a.toNat true else img0, some s⟩
    else some ⟨snap, img0, some s⟩
  | "axpy" =>
    let X := c.vs[0]!; let Y := c.vs[1]!
    if X.n != Y.n then none else
    let al : GInt := match c.form with
      | "minuseq" => gneg c.alpha
      | "opadd" => 1
      | "opsub" => gneg 1
      | _ => c.alpha
    some ⟨(rangeI Y.n).foldl (fun e i => stV e Y i (al * X.load mem i + Y.load mem i)) snap, markV img0 Y, none⟩
  | "scal" =>
    let X := c.vs[0]!
    some ⟨(rangeI X.n).foldl (fun e i => stV e X i (c.alpha * X.load mem i)) snap, markV img0 X, none⟩
  | "copy" =>
    let X := c.vs[0]!; let Y := c.vs[1]!
    if X.n != Y.n then none else
    some ⟨(rangeI Y.n).foldl (fun e i => stV e Y i (X.load mem i)) snap, markV img0 Y, none⟩
  | "swap" =>
    let X := c.vs[0]!; let Y := c.vs[1]!
    if X.n != Y.n then none else
    some ⟨(rangeI Y.n).foldl (fun e i => stV (stV e Y i (X.load mem i)) X i (Y.load mem i)) snap, markV (markV img0 X) Y, none⟩
  | "nrm2" =>
    let X := c.vs[0]!
    some ⟨snap, img0, some ⟨(rangeI X.n).foldl (fun acc i => let x := X.load mem i; acc + x.re * x.re + x.im * x.im) 0, 0⟩⟩
  | "asum" =>
    let X := c.vs[0]!
    some ⟨snap, img0, some ⟨(rangeI X.n).foldl (fun acc i => let x := X.load mem i; acc + absI x.re + absI x.im) 0, 0⟩⟩
  | "iamax" =>
    let X := c.vs[0]!
    let (_, bi) := (rangeI X.n).foldl (fun (acc : Int × Int) i => let x := X.load mem i; let m := absI x.re + absI x.im; if m > acc.1 then (m, i) else acc) ((-1 : Int), (-1 : Int))
    some ⟨snap, img0, some ⟨bi, 0⟩⟩
  | _ => none

/-- the verdict, as harness/blas.cpp computes it from the real run -/
def verdict (_c : Case) (run : Run) (snap : Arena) (sp : Option Spec) : String :=
  let act := run.arena.cells
  if run.stop == .throw then
    let outside := (List.range TOTAL).any fun i =>
      act.getD i ⟨0, 0⟩ != snap.cells.getD i ⟨0, 0⟩ && !(match sp with | some s => s.outimg.getD i false | none => false)
    if outside then "num FAIL outside" else "num rejected"
  else match sp with
  | none =>
    let changed := (List.range TOTAL).any fun i => act.getD i ⟨0, 0⟩ != snap.cells.getD i ⟨0, 0⟩
    if changed || run.rval.isSome then "num FAIL accepted-mismatch" else "num ok"
  | some s =>
    let diffs := (List.range TOTAL).filter fun i => act.getD i ⟨0, 0⟩ != s.expect.cells.getD i ⟨0, 0⟩
    let outside := diffs.any fun i => !(s.outimg.getD i false)
    if outside then "num FAIL outside"
    else if !diffs.isEmpty then "num FAIL wrong"
    else match s.rexp with
      | some rx => (match run.rval with
        | some (some v) => if v == rx then "num ok" else "num FAIL wrong"
        | _ => "num FAIL wrong")
      | none => "num ok"

def valsLine (c : Case) (ar : Arena) : String :=
  let mem := ar.mem
  let gs : List GInt :=
    match c.op with
    | "gemm" => let C := c.ms[2]!; (rangeI C.n0).flatMap fun i => (rangeI C.n1).map fun j => C.load mem i j
    | "herk" | "syrk" | "trsm" => let C := c.ms[1]!; (rangeI C.n0).flatMap fun i => (rangeI C.n1).map fun j => C.load mem i j
    | "gemv" | "axpy" | "copy" | "swap" => let Y := c.vs[1]!; (rangeI Y.n).map fun i => Y.load mem i
    | "scal" => let X := c.vs[0]!; (rangeI X.n).map fun i => X.load mem i
    | _ => []
  s!"vals {gs.length} :" ++ String.join (gs.map fun g => s!" {g.re} {g.im}")

/-! ### finding keys: (function, canonical branch ordinal, size / layout class) -/
def szc (n : Int) : String := if n = 0 then "0" else if n = 1 then "1" else "g"
/-- layout class of a matrix operand: which strides are 1, and whether the non-unit stride exceeds the extent (padded) -/
def layc (m : Mat) : String :=
  let u := (if m.s0 = 1 then "r" else "") ++ (if m.s1 = 1 then "c" else "")
  let u := if u == "" then "x" else u
  let pad := if m.s1 = 1 ∧ m.s0 ≠ 1 then (if m.s0 > m.n1 then "p" else "") else if m.s0 = 1 ∧ m.s1 ≠ 1 then (if m.s1 > m.n0 then "p" else "") else ""
  u ++ pad

def sizeClass (c : Case) : String :=
  match c.op with
  | "gemm" => let A := c.ms[0]!; let C := c.ms[2]!; s!"m{szc C.n0}n{szc C.n1}k{szc A.n1}"
  | "gemv" => let A := c.ms[0]!; s!"m{szc A.n0}n{szc A.n1}"
  | "herk" | "syrk" => let A := c.ms[0]!; let C := c.ms[1]!; s!"n{szc C.n0}k{szc A.n1}"
  | "trsm" => let B := c.ms[1]!; s!"m{szc B.n0}n{szc B.n1}"
  | _ => match c.vs[0]? with
    | some x => s!"n{szc x.n}{c.ty}"
    | none => "?"

def layoutClass (c : Case) : String :=
  ".".intercalate (c.ms.toList.map layc)

/-- `key <finding key> lay=<layout class> kind=<what the model does> dbg=<what an assertion-enabled build does>` -/
def keyLine (c : Case) (run : Run) (dbg : Run) : String :=
  let (fn, tag) := run.tags.back?.getD ("?", 0)
  let ill := run.lines.any (fun l => l.startsWith "xerbla")
  let kind := if run.stop == .throw then "throw" else if run.stop == .assert then "assert" else if ill then "illegal" else "run"
  let d := if dbg.stop == .throw then "throw" else if dbg.stop == .assert then "assert" else "ok"
  s!"key C13:{fn}:b{tag}:{sizeClass c} lay={layoutClass c} kind={kind} dbg={d} op={c.op}-{c.form}"

/-! ### the interpreter -/
def answer (ws : List String) (keyMode : Bool) : List String :=
  match parseCase ws with
  | none => ["bad-op"]
  | some c =>
    let snap := fixups c (Arena.init c.seed c.cplx)
    let run := runModel c { arena := snap }
    if keyMode then [keyLine c run (runModel { c with nd := false } { arena := snap })] else
    if run.stop == .assert then run.lines.toList ++ ["res reject assert", "num rejected"]
    else
      let sp := spec c snap
      let resl := if run.stop == .throw then "res reject throw" else "res ok"
      let rv := match run.rval with
        | some (some v) => if run.stop == .throw then [] else [s!"rval {v.re} {v.im}"]
        | some none => if run.stop == .throw then [] else ["rval ?"]
        | none => []
      run.lines.toList ++ [resl, valsLine c run.arena] ++ rv ++ [s!"out {run.arena.hash}", verdict c run snap sp]

partial def loop (hin hout : IO.FS.Stream) (keyMode : Bool) : IO Unit := do
  let line ← hin.getLine
  if line.isEmpty then return ()
  let ws := (line.trimAscii.toString.splitOn " ").filter (· ≠ "")
  match ws with
  | [] => pure ()
  | "#" :: _ => pure ()
  | "prog" :: _ => hout.putStrLn (" ".intercalate ws)
  | _ => for l in answer ws keyMode do hout.putStrLn l
  loop hin hout keyMode

end Driver.Blas
