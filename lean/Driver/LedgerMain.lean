/-
  mmdrv_ledger — line-protocol interpreter over MultiModel.Ledger (C08 / C09 / C10).  Reads the program lines that
  harness/ledger.cpp printed, prints what the model prescribes; the orchestrator diffs the two answer streams.
-/
import MultiModel.Ledger
import Driver.LedgerProto

def main (_args : List String) : IO Unit := do
  let stdin ← IO.getStdin
  let stdout ← IO.getStdout
  Driver.Ledger.loop stdin stdout {}
