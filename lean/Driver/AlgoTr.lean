/-
  Driver.AlgoTr — C03: runs the hand-transcribed libstdc++ loops of MultiProofs/AlgoProgs.lean on a list of independent
  values.  The harness (harness/algos.cpp, `x tr …` lines) runs the real `std::` algorithm on a `std::vector<long>` holding
  the same values and prints position and contents; the two lines must agree — including the cells past the returned
  position of `remove` / `unique` and the exact arrangement `partition` produces.  This ties the TRANSCRIPTIONS to
  libstdc++ (it says nothing about boost-multi; that is what `x algo` lines and `proxy_refines_seq` are for).

    x tr <name> <p1> <p2> <p3> <n> v0 … v(n-1)      →      tr <pos> w0 … w(n-1)      |  tr none

  name            p1   p2   p3        program                                   std:: call on `x = vector<long>{v…}`
  reverse         -    -    -         revProg n 0 n                             reverse(x.begin(), x.end()); pos 0
  fill            i    cnt  val       fillProg val cnt i                        fill(x+i, x+i+cnt, val); pos i+cnt
  sort            -    -    -         insertionSortProg (<) n   (n ≤ 16)        sort(x.begin(), x.end()); pos 0
  partition       -    -    -         partitionProg even n                      partition(all, even) - x
  unique          -    -    -         uniqueProg (==) n                         unique(all) - x
  remove          val  -    -         removeProg (== val) n                     remove(all, val) - x
  find            val  -    -         findProg (== val) n 0                     find(all, val) - x
  is_sorted       -    -    -         isSortedProg (<) n                        is_sorted(all) ? 1 : 0
  accumulate      init -    -         accumulateProg op n 0 init                accumulate(all, init, op), op a x = (3a + x) mod 1000003
  copy            s    d    cnt       copyProg cnt s d                          copy(x+s, x+s+cnt, x+d) - x         (d ≤ s or s+cnt ≤ d)
  copy_backward   sEnd dEnd cnt       copyBackwardProg cnt sEnd dEnd            copy_backward(x+sEnd-cnt, x+sEnd, x+dEnd) - x   (sEnd ≤ dEnd or dEnd+cnt ≤ sEnd)
  swap_ranges     a    b    cnt       swapRangesProg cnt a b                    swap_ranges(x+a, x+a+cnt, x+b) - x  (disjoint)
  transform       s    d    cnt       transformProg (2x+1) cnt s d              transform(x+s, x+s+cnt, x+d, f) - x (d ≤ s or s+cnt ≤ d)
  equal           a    b    cnt       equalProg (==) cnt a b                    equal(x+a, x+a+cnt, x+b) ? 1 : 0
  lexcmp          a    b    n1*16+n2  lexCompareProg (<) n1 n2 a b              lexicographical_compare(x+a, x+a+n1, x+b, x+b+n2) ? 1 : 0
-/
import MultiProofs.AlgoProgs

namespace Driver
open Multi

def trProg (name : String) (p1 p2 p3 : Int) (n : Nat) : Option (Prog Int) :=
  match name with
  | "reverse" => some (revProg Int n 0 n)
  | "fill" => some (fillProg p3 p2.toNat p1)
  | "sort" => some (insertionSortProg (fun a b => decide (a < b)) n)
  | "partition" => some (partitionProg (fun x => x % 2 == 0) n)
  | "unique" => some (uniqueProg (fun a b => a == b) n)
  | "remove" => some (removeProg (fun x => x == p1) n)
  | "find" => some (findProg (fun x => x == p1) n 0)
  | "is_sorted" => some (isSortedProg (fun a b => decide (a < b)) n)
  | "accumulate" => some (accumulateProg (fun acc x => (acc * 3 + x) % 1000003) n 0 p1)
  | "copy" => some (copyProg p3.toNat p1 p2)
  | "copy_backward" => some (copyBackwardProg p3.toNat p1 p2)
  | "swap_ranges" => some (swapRangesProg p3.toNat p1 p2)
  | "transform" => some (transformProg (fun x => 2 * x + 1) p3.toNat p1 p2)
  | "equal" => some (equalProg (fun a b => a == b) p3.toNat p1 p2)
  | "lexcmp" => some (lexCompareProg (fun a b => decide (a < b)) (p3.toNat / 16) (p3.toNat % 16) p1 p2)
  | _ => none

def trCmd (name : String) (args : List Int) : String :=
  match args with
  | p1 :: p2 :: p3 :: n :: vals =>
    if vals.length ≠ n.toNat then "bad-op" else
    match trProg name p1 p2 p3 vals.length with
    | none => "bad-op"
    | some prog =>
      match prog.runList vals with
      | none => "tr none"
      | some (ys, pos) => " ".intercalate ("tr" :: toString pos :: ys.map toString)
  | _ => "bad-op"

end Driver
