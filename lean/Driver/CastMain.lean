/-
  mmdrv_cast — line-protocol interpreter for C12 (projection views) over MultiModel/Cast.lean.
-/
import Driver.CastProto

def main (_args : List String) : IO Unit := do
  let stdin ← IO.getStdin
  let stdout ← IO.getStdout
  Driver.CastP.loop stdin stdout { base := Driver.St.init [], kind := .s4 }
