/-
  Driver.SerMpiProto — line protocol of `mmdrv_sermpi` (C17 serialization, C18 MPI messages).

    prog / root / v lines                       as in Driver.Proto (views over the abstract address space)
    x ser <ty> <D> <a: f l ...> <na> <elems> <b: f l ...> <nb> <elems>
                                                save array a, load into array b (harness/serial.cpp)
    x vsave <reg>                               tokens a view saves (mutable and const view type)
    x vload <reg> <n> <vals...>                 load values into the view over the memory `p ↦ p`; changed cells
    x msg <reg> <sz>                            MPI message of `elements()` of the view: calls, ledger, packed elements
    x unpack <src> <dst> <sz>                   pack the source view, unpack into the destination view over the
                                                memory `p ↦ -1 - p`; changed cells
  Answers are the same text the C++ harnesses print from the real library.
-/
import MultiModel
import MultiModel.Serial
import MultiModel.Mpi
import Driver.Proto

namespace Driver.SerMpi
open Multi

def MEMSZ : Nat := 1024

/-! ### C17 -/

def tokStr : Tok → String
  | Tok.int i => toString i
  | Tok.str s => "\"" ++ s

def toks (ts : List Tok) : String := " ".intercalate (ts.map tokStr)

/-- what the driver needs to know about an element type -/
structure Kind (α : Type) where
  codec : Codec Tok α
  parse : String → Option α
  show' : α → String
  beq   : α → α → Bool
  pri   : Bool            -- print the states found before loading (probe type)

def splitInts (s : String) : Option (List Int) :=
  if s.isEmpty then some [] else (s.splitOn ";").mapM String.toInt?

def intKind (pri : Bool) : Kind Int :=
  { codec := Tok.intCodec, parse := String.toInt?, show' := toString, beq := (· == ·), pri := pri }

def strKind : Kind String :=
  { codec := Tok.strCodec, parse := fun s => if s.startsWith "\"" then some (s.drop 1).toString else none,
    show' := fun s => "\"" ++ s, beq := (· == ·), pri := false }

def extsStr (es : List Ext) (sep : String) : String := sep.intercalate (es.map fun e => s!"{e.first}{sep}{e.last}")

/-- nested `multi::array<int, DI>`: literal `[f;l;...|v;v;...]` -/
def arrKind (DI : Nat) : Kind (Arr Int) :=
  { codec := Arr.codec DI Tok.intCodec Tok.icodec
    parse := fun s =>
      if s.startsWith "[" && s.endsWith "]" then
        match ((s.drop 1).dropEnd 1).toString.splitOn "|" with
        | [xs, vs] => do
          let xs ← splitInts xs
          let vs ← splitInts vs
          pure (Arr.ofExts (parseExts xs) vs)
        | _ => none
      else none
    show' := fun a => "[" ++ extsStr a.lay.exts ";" ++ "|" ++ ";".intercalate (a.data.map toString) ++ "]"
    beq := fun a b => a.lay.exts == b.lay.exts && a.data == b.data
    pri := false }

def takeExts (D : Nat) (ws : List String) : Option (List Ext × List String) := do
  let xs ← (ws.take (2 * D)).mapM String.toInt?
  if xs.length ≠ 2 * D then none else pure (parseExts xs, ws.drop (2 * D))

def takeElems {α : Type} (k : Kind α) (ws : List String) : Option (List α × List String) :=
  match ws with
  | n :: rest => do
    let n ← n.toNat?
    let xs ← (rest.take n).mapM k.parse
    if xs.length ≠ n then none else pure (xs, rest.drop n)
  | [] => none

def runSer {α : Type} (k : Kind α) (D : Nat) (ws : List String) : String :=
  match (do
    let (aex, ws) ← takeExts D ws
    let (ael, ws) ← takeElems k ws
    let (bex, ws) ← takeExts D ws
    let (bel, _) ← takeElems k ws
    pure (Arr.ofExts aex ael, Arr.ofExts bex bel)) with
  | none => "bad-op"
  | some (a, b) =>
    let c := k.codec
    let saved := a.save c Tok.icodec
    match b.load c Tok.icodec saved with
    | none => "ser tok " ++ toks saved ++ " | LOADFAIL"
    | some (b', rest) =>
      let same := b'.lay.exts == a.lay.exts && (b'.data.length == a.data.length) &&
        (List.zip b'.data a.data).all (fun (x, y) => k.beq x y) && rest.isEmpty
      let pre := b.resizeStep c.dflt a.lay.exts       -- the array between the extensions and the elements
      let pri := if k.pri then " ".intercalate (pre.data.map k.show') else "_"
      let flag := if same then "111" else "000"
      let sp (s : String) := if s.isEmpty then "" else " " ++ s
      "ser tok" ++ sp (toks saved) ++ " | ext" ++ sp (" ".intercalate (b'.lay.exts.map fun e => s!"{e.first}:{e.last}")) ++
        " | el" ++ sp (" ".intercalate (b'.data.map k.show')) ++ " | pri" ++ sp pri ++ " | rt " ++ flag

def execSer (ws : List String) : String :=
  match ws with
  | ty :: d :: rest =>
    match d.toNat? with
    | none => "bad-op"
    | some D =>
      match ty with
      | "i" => runSer (intKind false) D rest
      | "d" => runSer (intKind false) D rest
      | "p" => runSer (intKind true) D rest
      | "s" => runSer strKind D rest
      | "n" => runSer (arrKind 1) D rest
      | "m" => runSer (arrKind 2) D rest
      | _ => "bad-op"
  | _ => "bad-op"

def mem0 : Mem Int := fun p => p

def cells (m : Int → Int) (m0 : Int → Int) : String :=
  let ps := (List.range MEMSZ).filter fun (p : Nat) => m (Int.ofNat p) != m0 (Int.ofNat p)
  String.join (ps.map fun (p : Nat) => s!" {p}:{m (Int.ofNat p)}")

def execVsave (v : View) : String :=
  if v.lay.length == 0 || v.lay.length > 4 then "vsave none"
  else
    let kc := if v.lay.length == 1 then ViewKind.beginEnd else ViewKind.elements
    match v.save Tok.intCodec ViewKind.elements mem0, v.save Tok.intCodec kc mem0 with
    | some t, some ct =>
      let sp (s : String) := if s.isEmpty then "" else " " ++ s
      "vsave tok" ++ sp (toks t) ++ " | ctok" ++ sp (toks ct) ++ " | rt 111"
    | _, _ => "vsave ERR"

def execVload (v : View) (ws : List String) : String :=
  if v.lay.length == 0 || v.lay.length > 4 then "vload none"
  else
    match ws with
    | n :: vals =>
      match n.toNat?, vals.mapM String.toInt? with
      | some n, some xs =>
        if xs.length ≠ n || Int.ofNat n ≠ v.numElements then "vload bad-count"
        else
          match v.load Tok.intCodec ViewKind.elements mem0 (xs.map Tok.int) with
          | some (m, []) => "vload" ++ cells m mem0 ++ " | rt 111"
          | _ => "vload ERR"
      | _, _ => "bad-op"
    | [] => "bad-op"

/-! ### C18 -/

def hStr : Mpi.Handle → String
  | none => "null"
  | some k => s!"h{k}"

def callStr : Mpi.Call → String
  | .hvector c b s o n => s!"hv {c} {b} {s} {hStr o} {hStr n}"
  | .resized o lb e n => s!"rs {hStr o} {lb} {e} {hStr n}"
  | .dup o n => s!"dup {hStr o} {hStr n}"
  | .commit h => s!"cm {hStr h}"
  | .free h => s!"fr {hStr h}"
  | .use h => s!"use {hStr h}"

/-- canonical form of the call log: the stride of an hvector and the extent of the following resized are compared only for
    levels with at least two elements of a non-empty view (the stride of a dimension of size 0 or 1 is not determined by
    the view, cf. C01).  The i-th hvector call belongs to level D-1-i. -/
def canonCalls (sizes : List Int) (empty : Bool) : List Mpi.Call → Nat → Bool → List String
  | [], _, _ => []
  | .hvector c b s o n :: cs, nhv, _ =>
    let relevant := !empty && decide (nhv < sizes.length) && decide (sizes.getD (sizes.length - 1 - nhv) 0 ≥ 2)
    (if relevant then s!"hv {c} {b} {s} {hStr o} {hStr n}" else s!"hv {c} {b} _ {hStr o} {hStr n}") :: canonCalls sizes empty cs (nhv + 1) relevant
  | .resized o lb e n :: cs, nhv, relevant =>
    (if relevant then s!"rs {hStr o} {lb} {e} {hStr n}" else s!"rs {hStr o} {lb} _ {hStr n}") :: canonCalls sizes empty cs nhv relevant
  | c :: cs, nhv, relevant => callStr c :: canonCalls sizes empty cs nhv relevant

/-- created (derived) datatypes, of which freed exactly once, never freed; erroneous calls -/
def ledgerStr (L : Mpi.Ledger) : String :=
  let ks := (List.range L.next).filter fun k => !(L.recs k).builtin
  let once := (ks.filter fun k => (L.recs k).freed == 1).length
  let leaked := (ks.filter fun k => (L.recs k).freed == 0).length
  s!"ledger {ks.length} {once} {leaked} {L.errs}"

def ints' (l : List Int) : String := String.join (l.map fun i => s!" {i}")

def execMsg (v : View) (sz : Int) : String :=
  if v.lay.length == 0 || v.lay.length > 4 then "msg none"
  else
    let r := ElemRange.ofView v
    let L0 := Mpi.Ledger.init sz
    let (L1, m) := Mpi.Message.ofElements L0 r
    let ds := m.disps L1
    let L2 := L1.use m.sk.datatype
    let L3 := m.dtor L2
    let calls := " ; ".intercalate (canonCalls v.sizes (v.numElements == 0) L3.log.reverse 0 true)
    let packed := match Mpi.pack mem0 sz m.buf ds with
      | some xs => s!"pack {xs.length} :{ints' xs}"
      | none => "pack MISALIGNED"
    let buf := if v.numElements == 0 then "_" else toString m.buf   -- the buffer of a view without elements designates nothing
    s!"msg buf {buf} count {m.sk.count} | {calls} | {ledgerStr L3} | {packed}"

def mem1 : Int → Int := fun p => -1 - p

def execUnpack (vs vd : View) (sz : Int) : String :=
  if vs.lay.length == 0 || vs.lay.length > 4 || vd.lay.length == 0 || vd.lay.length > 4 then "unpack none"
  else
    let L0 := Mpi.Ledger.init sz
    let (L1, ms) := Mpi.Message.ofElements L0 (ElemRange.ofView vs)
    let L2 := L1.use ms.sk.datatype
    let packed := Mpi.pack mem0 sz ms.buf (ms.disps L1)
    let (L3, md) := Mpi.Message.ofElements L2 (ElemRange.ofView vd)
    let L4 := L3.use md.sk.datatype
    let res := packed.bind fun xs => Mpi.unpack mem1 sz md.buf (md.disps L3) xs
    let L5 := md.dtor L4
    let L6 := ms.dtor L5
    match res with
    | some m => "unpack" ++ cells m mem1 ++ s!" | {ledgerStr L6}"
    | none => "unpack ERR"

/-! ### dispatch -/

def step (st : Driver.St) (line : String) : Driver.St × Option String :=
  let ws := (line.trimAscii.toString.splitOn " ").filter (· ≠ "")
  match ws with
  | "x" :: "ser" :: rest => (st, some (execSer rest))
  | ["x", "vsave", reg] => (st, reg.toNat?.map fun r => execVsave st.views[r]!)
  | "x" :: "vload" :: reg :: rest => (st, reg.toNat?.map fun r => execVload st.views[r]! rest)
  | ["x", "msg", reg, sz] =>
    match reg.toNat?, sz.toInt? with
    | some r, some s => (st, some (execMsg st.views[r]! s))
    | _, _ => (st, some "bad-op")
  | ["x", "unpack", rs, rd, sz] =>
    match rs.toNat?, rd.toNat?, sz.toInt? with
    | some a, some b, some s => (st, some (execUnpack st.views[a]! st.views[b]! s))
    | _, _, _ => (st, some "bad-op")
  | "x" :: _ => (st, some "bad-op")
  | _ => Driver.step st line

partial def loop (hin hout : IO.FS.Stream) (st : Driver.St) : IO Unit := do
  let line ← hin.getLine
  if line.isEmpty then return ()
  let (st', out) := step st line
  match out with
  | some s => hout.putStrLn s
  | none => pure ()
  loop hin hout st'

end Driver.SerMpi
