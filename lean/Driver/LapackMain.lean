/-
  mmdrv_lapack — line-protocol interpreter for C14 (LAPACK adaptor) over MultiModel/Lapack.lean.
-/
import Driver.LapackProto

def main (_args : List String) : IO Unit := do
  let stdin ← IO.getStdin
  let stdout ← IO.getStdout
  Driver.LapackP.loop stdin stdout (Driver.St.init [])
