/-
  mmdrv_fft — line-protocol interpreter for C15 (FFTW adaptor) over MultiModel/Fftw.lean.
-/
import Driver.FftProto

def main (_args : List String) : IO Unit := do
  let stdin ← IO.getStdin
  let stdout ← IO.getStdout
  Driver.FftP.loop stdin stdout (Driver.St.init [])
