/-
  Driver.LedgerProto — line protocol of the resource-discipline model (C08 / C09 / C10), see harness/ledger.cpp.

    prog <k> <seed>
    cfg <E|I|S|F> <D> <pocca> <pocma> <pocs> <iae> <socc> <pmr> <fixes>
    fault <k>|none
    x <op> <args…>
    end

  One answer line per `x` line:
    r <tag> <status> | F <fallible events in order> | I <infallible events, sorted> | S <slots> | O <outstanding> | inv <verdict>
  or `r skip`, `r <tag> CORRUPT` + `halt`, `r <tag> TERMINATED` + `halt` + `end halted`.
-/
import MultiModel.Ledger

namespace Driver.Ledger
open Multi Multi.Ledger

structure DSt where
  cfg : Cfg := {}
  observe : Bool := true      -- element events are observable (instrumented element type)
  st : St := {}
  halted : Bool := false
  poisoned : Bool := false
deriving Inhabited

def pool : Nat := 4

def DSt.fresh : DSt := { st := { arrs := List.replicate pool none } }

def parseExts : List Int → List Ext
  | f :: l :: rest => ⟨f, l⟩ :: parseExts rest
  | _ => []

def evStr : Event → String
  | .alloc b n a => s!"a{b}:{n}@{a}"
  | .dealloc b n a => s!"f{b}:{n}@{a}"
  | .ctor b o => s!"c{b}.{o}"
  | .assign b o => s!"s{b}.{o}"
  | .dtor b o => s!"d{b}.{o}"

def insertSorted (x : String) : List String → List String
  | [] => [x]
  | y :: ys => if x ≤ y then x :: y :: ys else y :: insertSorted x ys
def sortStrings (l : List String) : List String := l.foldr insertSorted []

def liveCount (blk : Block) : Nat := (blk.cells.filter (· == Cell.live)).length

/-- accumulator of the snapshot: text, defects found, number of (valid) owners per block -/
structure Acc where
  out : String
  invalid : Bool := false
  wrongalloc : Bool := false
  leak : Bool := false
  shared : Bool := false
  owners : List Nat

/-- the verdict on the invariant: the set of defects present, in the order the harness prints its own
    (invalid, wrongalloc, leak, shared, extleak, wrongdealloc) -/
def verdict (c : Cfg) (observe : Bool) (s : St) : String × Bool :=
  let slot (acc : Acc) (o : Option Arr) : Acc :=
    match o with
    | none => { acc with out := acc.out ++ " -" }
    | some a =>
      let acc := { acc with out := acc.out ++ s!" [@{a.alloc} n{a.n} b" }
      if a.n = 0 then { acc with out := acc.out ++ "_]" } else
      match a.base with
      | none => { acc with out := acc.out ++ "null]", invalid := true }
      | some b =>
        match s.blocks[b]? with
        | none => { acc with out := acc.out ++ "?]", invalid := true }
        | some blk =>
          let acc := { acc with out := acc.out ++ (if blk.freed then "x" else "") ++ s!"{b}]" }
          if blk.freed || blk.size != a.n then { acc with invalid := true } else
          let acc := { acc with owners := acc.owners.set b (acc.owners[b]! + 1) }
          let acc := if observe && liveCount blk != a.n then { acc with invalid := true } else acc
          if !c.eqv a.alloc blk.alloc then { acc with wrongalloc := true } else acc
  let acc := s.arrs.foldl slot { out := " | S", owners := List.replicate s.blocks.length 0 }
  let acc := { acc with out := acc.out ++ " | O" }
  let blockStep (p : Acc × Nat) (blk : Block) : Acc × Nat :=
    let (acc, k) := p
    if blk.freed then (acc, k + 1) else
    let acc := { acc with out := acc.out ++ s!" {k}:{blk.size}:" ++ (if observe then toString (liveCount blk) else "_") }
    let acc := if acc.owners[k]! == 0 then { acc with leak := true } else acc
    let acc := if acc.owners[k]! > 1 then { acc with shared := true } else acc
    (acc, k + 1)
  let (acc, _) := s.blocks.foldl blockStep (acc, 0)
  let flags := [(acc.invalid, "invalid"), (acc.wrongalloc, "wrongalloc"), (acc.leak, "leak"), (acc.shared, "shared"), (s.wrong, "wrongdealloc")]
  let bad := ",".intercalate ((flags.filter (·.1)).map (·.2))
  (acc.out ++ " | inv " ++ (if bad == "" then "ok" else "BAD:" ++ bad), acc.invalid || acc.shared)

def tagOf (s : St) (name : String) (op : Op) : String :=
  let same (x : Arr) (es : List Ext) := if extsEq x.ext es then "/same" else "/diff"
  match op with
  | .assignCopy i j =>
    if i = j then name ++ "/self" else
    match getArr s i, getArr s j with
    | some x, some y => name ++ same x y.ext
    | _, _ => name
  | .assignMove i j => if i = j then name ++ "/self" else name
  | .reextent i es | .reextentFill i es | .reextentRv i es | .assignFill i es =>
    match getArr s i with | some x => name ++ same x es | none => name
  | .assignView i j sl _ =>
    match getArr s i, getArr s j with
    | some x, some y => name ++ same x (viewExts y sl)
    | _, _ => name
  | .assignRange i j =>
    match getArr s i, getArr s j with
    | some x, some y => name ++ (if rangeInPlace x y then "/same" else "/diff")
    | _, _ => name
  | _ => name

def parseOp (ws : List String) : Option (String × Op) :=
  match ws with
  | name :: args =>
    match args.mapM String.toInt? with
    | none => none
    | some xs =>
      let nat (z : Int) := z.toNat
      let sl (lo hi : Int) : Option (Int × Int) := if lo < 0 then none else some (lo, hi)
      let op : Option Op :=
        match name, xs with
        | "ctor_default", [i, a] => some (.ctorDefault (nat i) (nat a))
        | "ctor_ext", i :: a :: es => some (.ctorExt (nat i) (nat a) (parseExts es))
        | "ctor_fill", i :: a :: es => some (.ctorFill (nat i) (nat a) (parseExts es))
        | "ctor_copy", [i, j] => some (.ctorCopy (nat i) (nat j))
        | "ctor_copy_a", [i, j, a] => some (.ctorCopyA (nat i) (nat j) (nat a))
        | "ctor_view", [i, j, a, lo, hi] => some (.ctorView (nat i) (nat j) (nat a) (sl lo hi))
        | "ctor_range", [i, j, a] => some (.ctorRange (nat i) (nat j) (nat a))
        | "ctor_move", [i, j] => some (.ctorMove (nat i) (nat j))
        | "ctor_move_a", [i, j, a] => some (.ctorMoveA (nat i) (nat j) (nat a))
        | "dtor", [i] => some (.dtor (nat i))
        | "clear", [i] => some (.clear (nat i))
        | "assign_copy", [i, j] => some (.assignCopy (nat i) (nat j))
        | "assign_move", [i, j] => some (.assignMove (nat i) (nat j))
        | "swap", [i, j] => some (.swap (nat i) (nat j))
        | "reextent", i :: es => some (.reextent (nat i) (parseExts es))
        | "reextent_fill", i :: es => some (.reextentFill (nat i) (parseExts es))
        | "reextent_rv", i :: es => some (.reextentRv (nat i) (parseExts es))
        | "reshape", i :: es => some (.reshape (nat i) (parseExts es))
        | "assign_fill", i :: es => some (.assignFill (nat i) (parseExts es))
        | "assign_view", [i, j, lo, hi] => some (.assignView (nat i) (nat j) (sl lo hi) false)
        | "assign_viewl", [i, j, lo, hi] => some (.assignView (nat i) (nat j) (sl lo hi) true)
        | "assign_range", [i, j] => some (.assignRange (nat i) (nat j))
        | "view_assign", [i, j] => some (.viewAssign (nat i) (nat j))
        | "sa_move", a :: es => some (.saMove (nat a) (parseExts es))
        | _, _ => none
      op.map fun o => (name, o)
  | [] => none

/-- number of cells of slot `i`'s block never written (trivial element types: the allocator's fill pattern is intact) -/
def patCells (s : St) (i : Nat) : Nat :=
  match getArr s i with
  | some a =>
    if a.n = 0 then 0 else
    match a.base with
    | some b => match s.blocks[b]? with
      | some blk => ((blk.cells.take a.n).filter (· == Cell.raw)).length
      | none => 0
    | none => 0
  | none => 0

def stepStr : Option Step → String
  | some .alloc => "a" | some .ctor => "c" | some .assign => "s" | none => "?"

def runOp (d : DSt) (name : String) (op : Op) : DSt × List String :=
  if d.poisoned && name != "dtor" then (d, ["r skip"]) else
  if !op.applicable d.cfg d.st then (d, ["r skip"]) else
  let tag := tagOf d.st name op
  let s0 : St := { d.st with log := [], wrong := false, fired := none }
  let finish (s : St) (status : String) : DSt × List String :=
    let fall := s.log.filter fun e => match e with
      | .alloc .. => true
      | .ctor .. | .assign .. => d.observe
      | _ => false
    let inf := s.log.filter fun e => match e with | .dtor .. | .dealloc .. => true | _ => false
    let f := String.join (fall.map fun e => " " ++ evStr e)
    let i := String.join ((sortStrings (inf.map evStr)).map fun e => " " ++ e)
    let extra :=
      if d.observe || status != "ok" then "" else
      match op with
      | .ctorExt i _ _ => s!" pat {patCells s i}"
      | .reextent i _ | .reextentRv i _ => if tag.endsWith "/diff" then s!" pat {patCells s i}" else ""
      | _ => ""
    let (snap, poison) := verdict d.cfg d.observe s
    ({ d with st := s, poisoned := d.poisoned || poison },
     [s!"r {tag} {status}{extra} | F{f} | I{i}{snap}"])
  match op.run d.cfg s0 with
  | .ok _ s => finish s "ok"
  | .threw s => finish s ("threw:" ++ stepStr s.fired)
  | .term s => ({ d with st := s, halted := true }, [s!"r {tag} TERMINATED:{stepStr s.fired}", "halt", "end halted"])
  | .ub s => ({ d with st := s, halted := true }, [s!"r {tag} CORRUPT", "halt"])

def endLine (d : DSt) (terminated : Bool) : List String :=
  if terminated then [] else
  let s := d.st
  let nb := (s.blocks.filter (!·.freed)).length
  -- live objects: those in outstanding blocks (objects of a trivially destructible type end with their storage)
  let nl := if d.observe then ((s.blocks.filter (!·.freed)).map liveCount).sum else 0
  let anyAlive := s.arrs.any (·.isSome)
  let body :=
    if d.halted then " halted"
    else if anyAlive then " arrays-alive"
    else if nb != 0 || nl != 0 then s!" leak {nb} {nl}"
    else " clean"
  ["end" ++ body ++ (if s.fuel.isSome then " fault-not-reached" else "")]

structure Loop where
  d : DSt := DSt.fresh
  terminated : Bool := false    -- `end halted` already printed by a TERMINATED line
deriving Inhabited

def step (l : Loop) (line : String) : Loop × List String :=
  let ws := (line.trimAscii.toString.splitOn " ").filter (· ≠ "")
  match ws with
  | [] => (l, [])
  | "#" :: _ => (l, [])
  | "prog" :: _ => ({ d := DSt.fresh }, [" ".intercalate ws])
  | "cfg" :: e :: dd :: pocca :: pocma :: pocs :: iae :: socc :: pmr :: rest =>
    let b (x : String) := x != "0"
    let fixes := match rest with | f :: _ => f.splitOn "," | [] => []
    let isPmr := b pmr
    let trivial := e == "I"
    -- "S": logged construction, trivial destructor;  "F": destruction declared skippable (force_element_trivial_destruction)
    let semi := e == "S" || e == "F"
    let cfg : Cfg := {
      dim := dd.toNat!, pocca := !isPmr && b pocca, pocma := !isPmr && b pocma, pocs := !isPmr && b pocs, iae := !isPmr && b iae,
      socc := if isPmr then 2 else socc.toNat!, trivCtor := trivial, trivDtor := trivial || semi, elemThrows := !trivial,
      fx6 := fixes.contains "F6", fx7 := fixes.contains "F7", fx8 := fixes.contains "F8", fx9 := fixes.contains "F9", fx9a := fixes.contains "F9a", fx9c := fixes.contains "F9c" }
    ({ l with d := { l.d with cfg := cfg, observe := !trivial } }, [])
  | ["fault", k] =>
    ({ l with d := { l.d with st := { l.d.st with fuel := k.toNat? } } }, [])
  | ["end"] => (l, endLine l.d l.terminated)
  | "x" :: rest =>
    if l.d.halted then (l, []) else
    match parseOp rest with
    | none => (l, ["r bad-op"])
    | some (name, op) =>
      let (d', out) := runOp l.d name op
      ({ d := d', terminated := l.terminated || out.contains "end halted" }, out)
  | _ => (l, ["bad-line"])

partial def loop (hin hout : IO.FS.Stream) (l : Loop) : IO Unit := do
  let line ← hin.getLine
  if line.isEmpty then return ()
  let (l', out) := step l line
  for o in out do hout.putStrLn o
  loop hin hout l'

end Driver.Ledger
