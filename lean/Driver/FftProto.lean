/-
  Driver.FftProto — line protocol of C15 (FFTW adaptor) on top of Driver.Proto:

    root / v ...                                  as in Driver.Proto (positions count complex elements from the buffer start)
    x dft <mask> <sign> <inreg> <outreg> <api>    api 0: dft(which,in,out,sign)  1: dft_forward/backward  2: in-place overload
    x rt  <mask> <sign> <inreg> <outreg>          dft(in -> out, sign) then dft(out -> in, -sign)

  Answer to `x dft`: the guru call `fftw_plan_dft` builds (MultiModel/Fftw.lean) in canonical text, then `num ok | frame ok`
  (what the theorems C15.plan_is_logical_dft / input_preserved prescribe for the numerical comparison made by the harness).
  Canonical text: within `dims` and within `howmany_dims` the triples are sorted (the transform is a sum over the set of
  dimensions) and the strides of a dimension of size 1 are printed as `_`.
-/
import MultiModel
import MultiModel.Fftw
import Driver.Proto

namespace Driver.FftP
open Multi

def ioLe (a b : IoDim) : Bool :=
  a.n < b.n || (a.n == b.n && (a.is < b.is || (a.is == b.is && a.os ≤ b.os)))

def insertSorted (x : IoDim) : List IoDim → List IoDim
  | [] => [x]
  | y :: ys => if ioLe x y then x :: y :: ys else y :: insertSorted x ys

def sortIo (l : List IoDim) : List IoDim := l.foldr insertSorted []

def groupStr (g : List IoDim) : String :=
  String.join ((sortIo g).map fun d =>
    if d.n == 1 then s!" {d.n},_,_" else s!" {d.n},{d.is},{d.os}")

def planStr (c : GuruCall) : String :=
  s!"plan {c.dims.length} :{groupStr c.dims} | {c.howmany.length} :{groupStr c.howmany} | in {c.inp} out {c.out} | sign {c.sign} flags {c.flags} | exec in {c.inp} out {c.out}"

def parseMask (s : String) : List Bool := s.toList.map (· == '1')

def callLines (mask : List Bool) (vin vout : View) (sign : Int) : List String :=
  (if planDftAsserts vin.lay vout.lay sign then [] else ["ASSERT fftw_plan_dft"]) ++ [planStr (dft mask vin vout sign)]

def step (st : Driver.St) (line : String) : Driver.St × List String :=
  let ws := (line.trimAscii.toString.splitOn " ").filter (· ≠ "")
  match ws with
  | ["x", "dft", mask, sign, rin, rout, api] =>
    match sign.toInt?, rin.toNat?, rout.toNat?, api.toNat? with
    | some s, some i, some o, some a =>
      let vin := st.views[i]!
      let vout := st.views[o]!
      let m := parseMask mask
      let c := match a with
        | 0 => callLines m vin vout s
        | 1 => if s == -1 then (callLines m vin vout s).dropLast ++ [planStr (dftForward m vin vout)]
               else (callLines m vin vout s).dropLast ++ [planStr (dftBackward m vin vout)]
        | _ => (callLines m vout vout s).dropLast ++ [planStr (dftInPlace m vout s)]
      (st, c ++ ["num ok | frame ok"])
    | _, _, _, _ => (st, ["bad-op"])
  | ["x", "rt", mask, sign, rin, rout] =>
    match sign.toInt?, rin.toNat?, rout.toNat? with
    | some s, some i, some o =>
      let vin := st.views[i]!
      let vout := st.views[o]!
      let m := parseMask mask
      (st, callLines m vin vout s ++ callLines m vout vin (-s) ++ ["rt ok | frame ok"])
    | _, _, _ => (st, ["bad-op"])
  | _ =>
    let (b, out) := Driver.step st line
    (b, out.toList)

partial def loop (hin hout : IO.FS.Stream) (st : Driver.St) : IO Unit := do
  let line ← hin.getLine
  if line.isEmpty then return ()
  let (st', out) := step st line
  for s in out do hout.putStrLn s
  loop hin hout st'

end Driver.FftP
