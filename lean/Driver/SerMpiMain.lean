/-
  mmdrv_sermpi — line-protocol interpreter for C17 (serialization) and C18 (MPI messages) over MultiModel.
  Reads one command per line on stdin, prints one answer line per `x`/`q` line; the C++ harnesses
  harness/serial.cpp and harness/mpi.cpp print the same lines from the real library.
-/
import Driver.SerMpiProto

def main (args : List String) : IO Unit := do
  let stdin ← IO.getStdin
  let stdout ← IO.getStdout
  Driver.SerMpi.loop stdin stdout (Driver.St.init args)
