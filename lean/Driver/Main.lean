/-
  mmdrv — line-protocol interpreter over MultiModel.  Reads one command per line on stdin, prints one answer
  line per query (`q ...`) and per failed model assertion.  The C++ harnesses print the same lines from the real
  library; the orchestrator diffs the two streams.
-/
import MultiModel
import Driver.Proto

open Multi

def main (args : List String) : IO Unit := do
  let stdin ← IO.getStdin
  let stdout ← IO.getStdout
  Driver.loop stdin stdout (Driver.St.init args)
