/-
  Driver.ValueProto — line protocol of the value-semantics correspondence run (C04, C06), interpreter over
  MultiModel.Owning.  The C++ harness harness/value.cpp prints the same answers from the real library.

    prog <k> <seed>                 start of a program: empty pool, fresh heap          (echoed)
    cfg trivial <0|1>               element type: trivially default constructible or not (T{} prints as 0)
    o <op> <dst> args…              one operation on the pool (slots 0..9)              → `ok <op> [facts]`
    q all | q arr <a> | q view <r>  observations                                         → `arr …` / `view …` lines

  Extents are written `D f0 l0 f1 l1 …`; nested lists `D s0 s1 … : v0 v1 …`;
  a view is `<src-slot> <k> op₁ … op_k` with ops `rotated unrotated transposed reversed sliced:a:b strided:s
  dropped:n taked:n index:i call:<i5|r1_3|a>,…`.
-/
import MultiModel.Owning

namespace Driver.Value
open Multi Multi.Own

structure VReg where
  blk : Option BlockId
  v   : View
deriving Inhabited

structure St where
  cfg   : Cfg Int := ⟨true, 0⟩
  heap  : Heap Int := {}
  arrs  : Array (Option Arr) := Array.replicate 12 none
  views : Array (Option VReg) := Array.replicate 4 none
deriving Inhabited

def ints (l : List Int) : String := " ".intercalate (l.map toString)

def parseExts : List Int → List Ext
  | f :: l :: rest => ⟨f, l⟩ :: parseExts rest
  | _ => []

def zeroExts (sizes : List Int) : List Ext := sizes.map fun s => ⟨0, s⟩

def fmtExts (es : List Ext) : String := " ".intercalate (es.map fun e => s!"{e.first}:{e.last}")

def fmtCell : Option (Cell Int) → String
  | none => "!"
  | some none => "?"
  | some (some v) => toString v

/-- storage token of an array: `-` when it has no elements, else the smallest live slot whose elements are in the same block -/
def token (st : St) (a : Arr) : String :=
  if a.numElements = 0 then "-"
  else
    let hit := (List.range st.arrs.size).find? fun (k : Nat) =>
      match st.arrs[k]! with
      | some b => b.numElements != 0 && b.base == a.base
      | none => false
    match hit with
    | some k => toString k
    | none => "?"

def fmtArr (st : St) (name : Nat) (a : Arr) : String :=
  let es := a.exts
  let cells := elems st.heap a
  s!"arr {name} {a.dim} | {fmtExts es} | {a.numElements} | {" ".intercalate (cells.map fmtCell)} | st={token st a}"

def fmtView (st : St) (name : Nat) (r : VReg) : String :=
  let idxs := boxIndices r.v.exts
  let cells := idxs.map fun idx => st.heap.read r.blk (r.v.addr idx)
  let owner := (List.range st.arrs.size).find? fun (k : Nat) =>
    match st.arrs[k]! with
    | some b => b.numElements != 0 && b.base == r.blk
    | none => false
  let tok := if r.v.numElements = 0 then "-" else match owner with | some k => toString k | none => "-"
  s!"view {name} {r.v.lay.length} | {fmtExts r.v.exts} | {r.v.numElements} | {" ".intercalate (cells.map fmtCell)} | in={tok}"

/-- call-syntax argument: `i<k>`, `r<a>_<b>`, `a` -/
def parseArg (s : String) : Option Arg :=
  if s == "a" then some Arg.all
  else if s.startsWith "i" then (s.drop 1).toString.toInt?.map Arg.idx
  else if s.startsWith "r" then
    match (s.drop 1).toString.splitOn "_" with
    | [x, y] => do let a ← x.toInt?; let b ← y.toInt?; pure (Arg.rng a b)
    | _ => none
  else none

def applyViewOp (v : View) (tok : String) : Option View :=
  match tok.splitOn ":" with
  | ["rotated"] => some v.rotated
  | ["unrotated"] => some v.unrotated
  | ["transposed"] => some v.transposed
  | ["reversed"] => some v.reversed
  | ["sliced", a, b] => do let x ← a.toInt?; let y ← b.toInt?; pure (v.sliced x y)
  | ["strided", s] => do let x ← s.toInt?; pure (v.strided x)
  | ["dropped", s] => do let x ← s.toInt?; pure (v.dropped x)
  | ["taked", s] => do let x ← s.toInt?; pure (v.taked x)
  | ["index", s] => do let x ← s.toInt?; pure (v.index x)
  | ["call", args] => do let as ← (args.splitOn ",").mapM parseArg; pure (v.paren as)
  | _ => none

/-- `<src> <k> op…` → (block, view, remaining words) -/
def parseView (st : St) (ws : List String) : Option (VReg × List String) :=
  match ws with
  | src :: k :: rest => do
    let s ← src.toNat?
    let n ← k.toNat?
    let a ← st.arrs[s]!
    let v ← (rest.take n).foldlM applyViewOp a.view
    pure (⟨a.base, v⟩, rest.drop n)
  | _ => none

def getArr (st : St) (w : String) : Option (Nat × Arr) := do
  let k ← w.toNat?
  let a ← st.arrs[k]!
  pure (k, a)

def setArr (st : St) (k : Nat) (a : Option Arr) : St := { st with arrs := st.arrs.set! k a }

/-- `D x…` → (D numbers pairs) -/
def takeExts (ws : List String) : Option (List Ext × List String) :=
  match ws with
  | d :: rest => do
    let D ← d.toNat?
    let xs ← (rest.take (2 * D)).mapM String.toInt?
    pure (parseExts xs, rest.drop (2 * D))
  | _ => none

/-- `D s0 … : v…` → (count, inner extents, values) -/
def takeList (ws : List String) : Option (Int × List Ext × List Int) :=
  match ws with
  | d :: rest => do
    let D ← d.toNat?
    let sizes ← (rest.take D).mapM String.toInt?
    let vals ← ((rest.drop D).filter (· ≠ ":")).mapM String.toInt?
    match sizes with
    | [] => none
    | c :: inner => pure (c, zeroExts inner, vals)
  | _ => none

def rel (b : Bool) : String := if b then "1" else "0"

/-- `dst` after the step holds the block `src` held before (only said when there are elements) -/
def xfer (before after : Arr) : String :=
  if before.numElements = 0 then "-" else rel (after.base == before.base && after.numElements == before.numElements)

def noteAssign (self : Arr) (count : Int) (inner : List Ext) : String :=
  let rowExts := (self.view.index self.view.ext.first).exts
  let outer := if count = self.view.size then "eq" else "ne"
  let inn := if count = 0 then "none" else if Exts.eqv inner rowExts then "eq" else "ne"
  s!"note assign D={self.dim} count={count} outer={outer} inner={inn}"

def flags (st : St) (out : List String) : St × List String :=
  let out := if st.heap.ub then out ++ ["UB"] else out
  let out := if st.heap.asrt then out ++ ["ASSERT"] else out
  ({ st with heap := { st.heap with ub := false, asrt := false } }, out)

def withHeap (st : St) (h : Heap Int) : St := { st with heap := h }

/-- one `o` line -/
def doOp (st : St) (ws : List String) : Option (St × List String) :=
  let cfg := st.cfg
  let h := st.heap
  match ws with
  | ["dflt", d, dim] => do
    let k ← d.toNat?; let D ← dim.toNat?
    let (h1, a) := defaultCtor cfg h D
    pure (setArr (withHeap st h1) k (some a), ["ok dflt"])
  | "exts" :: d :: rest => do
    let k ← d.toNat?; let (es, _) ← takeExts rest
    let (h1, a) := extsCtor cfg h es
    pure (setArr (withHeap st h1) k (some a), ["ok exts"])
  | "fill" :: d :: rest => do
    let k ← d.toNat?; let (es, r) ← takeExts rest
    let v ← r.head?.bind String.toInt?
    let (h1, a) := fillCtor h es v
    pure (setArr (withHeap st h1) k (some a), ["ok fill"])
  | ["copy", d, s] => do
    let k ← d.toNat?; let (_, b) ← getArr st s
    let (h1, a) := copyCtor h b
    pure (setArr (withHeap st h1) k (some a), ["ok copy"])
  | ["conv", d, s] => do
    let k ← d.toNat?; let (_, b) ← getArr st s
    let (h1, a) := copyCtor h b
    pure (setArr (withHeap st h1) k (some a), ["ok conv"])
  | ["move", d, s] => do
    let k ← d.toNat?; let (j, b) ← getArr st s
    let (a, b') := moveCtor b
    pure (setArr (setArr st k (some a)) j (some b'), [s!"ok move xfer={xfer b a}"])
  | "vctor" :: d :: rest => do
    let k ← d.toNat?; let (r, _) ← parseView st rest
    let (h1, a) := viewCtor h r.blk r.v
    pure (setArr (withHeap st h1) k (some a), ["ok vctor"])
  | "il" :: d :: rest => do
    let k ← d.toNat?; let (c, inner, vals) ← takeList rest
    let (h1, a) := ilCtor cfg h c inner vals
    pure (setArr (withHeap st h1) k (some a), ["ok il"])
  | "rctor" :: d :: rest => do
    let k ← d.toNat?; let (c, inner, vals) ← takeList rest
    let (h1, a) := rangeCtor h c inner vals
    pure (setArr (withHeap st h1) k (some a), [s!"note range D={inner.length + 1} count={c}", "ok rctor"])
  | ["massign", d, s] => do
    let (k, a) ← getArr st d; let (j, b) ← getArr st s
    if k == j then pure (st, ["ok massign xfer=-"])
    else
      let (h1, a', b') := moveAssign h a b
      pure (setArr (setArr (withHeap st h1) k (some a')) j (some b'), [s!"ok massign xfer={xfer b a'}"])
  | ["cassign", d, s] => do
    let (k, a) ← getArr st d; let (j, b) ← getArr st s
    if k == j then pure (st, ["ok cassign"])
    else
      let (h1, a') := copyAssign h a b
      pure (setArr (withHeap st h1) k (some a'), ["ok cassign"])
  | "vassign" :: d :: rest => do
    let (k, a) ← getArr st d; let (r, _) ← parseView st rest
    let (h1, a') := viewAssign h a r.blk r.v
    pure (setArr (withHeap st h1) k (some a'), ["ok vassign"])
  | "rassign" :: d :: rest => do
    let (k, a) ← getArr st d; let (r, _) ← parseView st rest
    let (h1, a') := rangeAssign h a r.blk r.v
    let note := s!"note rassign n={a.numElements} vn={r.v.numElements} eqv={rel (Exts.eqv a.exts r.v.exts)}"
    pure (setArr (withHeap st h1) k (some a'), [note, "ok rassign"])
  | ["convassign", d, s] => do
    let (k, a) ← getArr st d; let (_, b) ← getArr st s
    let (h1, a') := convAssign h a b
    pure (setArr (withHeap st h1) k (some a'), ["ok convassign"])
  | "ilassign" :: d :: rest => do
    let (k, a) ← getArr st d; let (c, inner, vals) ← takeList rest
    let (h1, a') := ilAssign h a c inner vals
    pure (setArr (withHeap st h1) k (some a'), [noteAssign a c inner, "ok ilassign"])
  | "assignr" :: d :: rest => do
    let (k, a) ← getArr st d; let (c, inner, vals) ← takeList rest
    let (h1, a') := assignRange h a c inner vals
    pure (setArr (withHeap st h1) k (some a'), [noteAssign a c inner, "ok assignr"])
  | "assignf" :: d :: rest => do
    let (k, a) ← getArr st d; let (es, r) ← takeExts rest
    let v ← r.head?.bind String.toInt?
    let (h1, a') := assignFill h a es v
    pure (setArr (withHeap st h1) k (some a'), ["ok assignf"])
  | ["swap", d, s, kind] => do
    let (k, a) ← getArr st d; let (j, b) ← getArr st s
    if k == j then pure (st, [s!"ok swap xchg=-"])
    else
      let (h1, a', b') := if kind == "std" then stdSwap h a b else (h, (swap a b).1, (swap a b).2)
      pure (setArr (setArr (withHeap st h1) k (some a')) j (some b'), [s!"ok swap xchg={xfer b a'}{xfer a b'}"])
  | ["decay", d, s, kind] => do
    let k ← d.toNat?; let (_, b) ← getArr st s
    let (h1, a) := if kind == "plus" then copyCtor h b else viewCtor h b.base b.view
    pure (setArr (withHeap st h1) k (some a), ["ok decay"])
  | "decayv" :: d :: rest => do
    let k ← d.toNat?; let (r, _) ← parseView st rest
    let (h1, a) := viewCtor h r.blk r.v
    pure (setArr (withHeap st h1) k (some a), ["ok decayv"])
  | "write" :: d :: rest => do
    let (_, a) ← getArr st d
    let xs ← rest.mapM String.toInt?
    match xs.reverse with
    | v :: ridx => pure (withHeap st (writeAt h a ridx.reverse v), ["ok write"])
    | [] => none
  | ["clear", d] => do
    let (k, a) ← getArr st d
    let (h1, a') := clear h a
    pure (setArr (withHeap st h1) k (some a'), ["ok clear"])
  | "reshape" :: d :: rest => do
    let (k, a) ← getArr st d; let (es, _) ← takeExts rest
    let (h1, a') := reshape h a es
    pure (setArr (withHeap st h1) k (some a'), [s!"ok reshape keep={xfer a a'}"])
  | "reext" :: d :: rest => do
    let (k, a) ← getArr st d; let (es, _) ← takeExts rest
    let (h1, a') := reextent cfg h a es none
    let keep := if Exts.eqv es a.exts then xfer a a' else "-"
    pure (setArr (withHeap st h1) k (some a'), [s!"ok reext keep={keep}"])
  | "reextv" :: d :: rest => do
    let (k, a) ← getArr st d; let (es, r) ← takeExts rest
    let v ← r.head?.bind String.toInt?
    let (h1, a') := reextent cfg h a es (some v)
    let keep := if Exts.eqv es a.exts then xfer a a' else "-"
    pure (setArr (withHeap st h1) k (some a'), [s!"ok reextv keep={keep}"])
  | "reextm" :: d :: rest => do
    let (k, a) ← getArr st d; let (es, _) ← takeExts rest
    let (h1, a') := reextentMoved cfg h a es
    let keep := if Exts.eqv es a.exts then xfer a a' else "-"
    pure (setArr (withHeap st h1) k (some a'), [s!"ok reextm keep={keep}"])
  | ["destroy", d] => do
    let (k, a) ← getArr st d
    pure (setArr (withHeap st (dtor h a)) k none, ["ok destroy"])
  | "view" :: r :: rest => do
    let k ← r.toNat?; let (vr, _) ← parseView st rest
    pure ({ st with views := st.views.set! k (some vr) }, ["ok view"])
  | _ => none

def step (st : St) (line : String) : St × List String :=
  let ws := (line.trimAscii.toString.splitOn " ").filter (· ≠ "")
  match ws with
  | [] => (st, [])
  | "#" :: _ => (st, [])
  | "prog" :: _ => ({}, [" ".intercalate ws])
  | ["cfg", "trivial", b] => ({ st with cfg := ⟨b == "1", 0⟩ }, [])
  | "o" :: rest =>
    match doOp st rest with
    | some (st', out) => flags st' out
    | none => (st, ["bad-op"])
  | ["q", "all"] =>
    (st, (List.range st.arrs.size).filterMap fun (k : Nat) => (st.arrs[k]!).map (fmtArr st k))
  | ["q", "arr", a] =>
    match getArr st a with
    | some (k, x) => (st, [fmtArr st k x])
    | none => (st, ["arr none"])
  | ["q", "view", r] =>
    match r.toNat?.bind (fun k => (st.views[k]!).map (fun x => (k, x))) with
    | some (k, x) => (st, [fmtView st k x])
    | none => (st, ["view none"])
  | _ => (st, ["bad-op"])

partial def loop (hin hout : IO.FS.Stream) (st : St) : IO Unit := do
  let line ← hin.getLine
  if line.isEmpty then return ()
  let (st', out) := step st line
  for s in out do hout.putStrLn s
  loop hin hout st'

end Driver.Value
