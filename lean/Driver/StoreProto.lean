/-
  Driver.StoreProto — line protocol for C05 / C07 / C03 (`mmdrv_store`).  Understands everything `Driver.step` does
  (`prog`, `root`, `v`, `q shape|addrs|…`) plus commands that read or write element storage through views.

  Memory is one global address space of `Int` cells: cell `a` initially holds `(a*7 + 3) mod 11` (so duplicates occur).
  Addresses `[0, 4096)` are `int` elements, `[4096, 8192)` are `long` elements in the C++ harness; the model does not
  care.  Every `prog` line resets the memory.

    x assign <F><d> <F><s>     d = s          F = v (view) | c (view through a pointer-to-const) | r (whole array_ref) | a (owning array holding a copy of the view)
    x assignmv v<d> v<s>       d = std::move(s)
    x elems v<d> v<s>          d.elements() = s.elements()
    x emoved v<d> v<s>         d = s.element_moved()        (trivially movable elements)
    x emovedt v<d> v<s>        d = s.element_moved()        (tracked elements: the moved-from state is -1)
    x assign0 <d> <val>        0-D view = element
    x aref0 <d> <s>            array_ref<T,0> = array_ref<T,0>
    x fill <d> <val>           1-D
    x ilist|range|assign1 <d> v0 v1 …      1-D from values
    x rows|rrows <d> <nrows> <rowlen> v…   D ≥ 2 from rows (initializer list of arrays | vector of vectors, D = 2)
    x swap v<a> v<b>           swap(a, b)
    x eswap v<a> v<b>          a.elements().swap(b.elements())
    x set <addr> <val>
    x algo …                   C03: the oracle is the reference computed in the harness; the model echoes `algo ok`
    x tr <name> p1 p2 p3 n v…  C03: the transcribed libstdc++ loop (MultiProofs/AlgoProgs.lean) on independent values — Driver/AlgoTr.lean
    q mem <lo> <hi>            cells [lo, hi)
    q rest                     nothing outside the windows of this program's roots (± 8 guard cells) may have changed
    q eq|ne|lt|le|gt|ge <F><a> <F><b>
-/
import MultiModel
import MultiModel.Store
import Driver.Proto
import Driver.AlgoTr
import Std.Data.HashMap

namespace Driver
open Multi

def initCell (a : Int) : Int := (a * 7 + 3) % 11

/-- the memory is kept as a table of the cells that differ from (or were re-evaluated over) the initial contents -/
structure SSt where
  base : St
  tbl : Std.HashMap Int Int
  segs : List (Int × Int)
  deriving Inhabited

def SSt.init (args : List String) : SSt := { base := St.init args, tbl := Std.HashMap.emptyWithCapacity 256, segs := [] }

@[noinline] def memOf (tbl : Std.HashMap Int Int) : Mem Int := fun a => tbl.getD a (initCell a)

def SSt.mem (st : SSt) : Mem Int := memOf st.tbl

/-- flatten the chain of closures that a sequence of writes builds: evaluate the memory on the windows of the
    program's roots and rebuild the table (pure representation change) -/
@[noinline] def compact (m : Mem Int) (segs : List (Int × Int)) : Std.HashMap Int Int :=
  segs.foldl (fun t (lo, hi) =>
    (List.range (hi - lo).toNat).foldl (fun t (k : Nat) => let a := lo + Int.ofNat k; t.insert a (m a)) t) (Std.HashMap.emptyWithCapacity 256)

def ltInt (x y : Int) : Bool := decide (x < y)

def isLong (v : View) : Bool := decide (v.base ≥ 4096)

/-- operand `<F><reg>` -/
def parseOperand (s : String) : Option (Char × Nat) :=
  match s.toList with
  | f :: rest => if f == 'v' || f == 'c' || f == 'r' || f == 'a' then (String.ofList rest).toNat?.map fun r => (f, r) else none
  | [] => none

/-- an owning array holding a copy of view `v` (contiguous, canonical order), placed in scratch storage far away from
    every window; the scratch memory is used for one query only and then discarded -/
def materialize (m : Mem Int) (v : View) (slot : Int) : Option (View × Mem Int) := do
  let vals ← v.read m
  let t : View := ⟨100000 + slot * 20000, Layout.ofExts v.exts⟩
  match t.lay with
  | [] => pure (t, m.write t.base (vals.headD 0))
  | _ :: _ =>
    if t.numElements == 0 then pure (t, m)
    else
      let m' ← (ElemRange.ofView t).assignVals vals m
      pure (t, m')

def operand (st : SSt) (m : Mem Int) (f : Char) (r : Nat) (slot : Int) : Option (View × Mem Int) :=
  let v := st.base.views[r]!
  if f == 'a' then materialize m v slot else some (v, m)

def flat (f : Char) : Bool := f == 'r' || f == 'a'

def b01 (b : Bool) : String := if b then "1" else "0"

def fmtOB (tag : String) (o : Option Bool) : String :=
  match o with
  | some b => s!"{tag} {b01 b}"
  | none => s!"{tag} none"

def compare (st : SSt) (op : String) (fa : Char) (ra : Nat) (fb : Char) (rb : Nat) : String :=
  match operand st st.mem fa ra 0 with
  | none => s!"{op} none"
  | some (a, m1) =>
    match operand st m1 fb rb 1 with
    | none => s!"{op} none"
    | some (b, m) =>
      match op with
      | "eq" => if flat fa && flat fb then s!"eq {b01 (a.arefEq b m)}" else fmtOB "eq" (a.eq b m)
      | "ne" => if flat fa && flat fb then s!"ne {b01 (a.arefNe b m)}" else fmtOB "ne" (a.ne b m)
      | "lt" => s!"lt {b01 (a.lt ltInt b m)}"
      | "gt" => s!"gt {b01 (a.gt ltInt b m)}"
      | "le" => fmtOB "le" (a.le ltInt b m)
      | "ge" => fmtOB "ge" (a.ge ltInt b m)
      | _ => "bad-op"

def assignCmd (st : SSt) (fd : Char) (rd : Nat) (fs : Char) (rs : Nat) : Option (Mem Int) :=
  let d := st.base.views[rd]!
  let s := st.base.views[rs]!
  let m := st.mem
  if fs == 'a' then
    -- source is an owning array: a contiguous copy of the view's value
    match d.lay with
    | [] => none
    | _ :: _ => do
      let vals ← s.read m
      -- the array's own extensions are those of a freshly constructed array (collapsed when it has no elements)
      if Exts.eqv d.exts (Layout.ofExts s.exts).exts then (ElemRange.ofView d).assignVals vals m else none
  else if flat fd && flat fs then
    if isLong d != isLong s then d.arefAssignT s m else d.arefAssign s m
  else if fs == 'c' || isLong d != isLong s then d.assignT s m
  else d.assign s m

def chunksF (n : Nat) : Nat → List Int → List (List Int)
  | 0, _ => []
  | _, [] => []
  | fuel + 1, l => l.take n :: chunksF n fuel (l.drop n)

def chunks (n : Nat) (l : List Int) : List (List Int) := if n == 0 then [] else chunksF n l.length l

def okOr (st : SSt) (r : Option (Mem Int)) : SSt × Option String :=
  match r with
  | some m' => ({ st with tbl := compact m' st.segs }, some "ok")
  | none => (st, some "none")

def sstep (st : SSt) (line : String) : SSt × Option String :=
  let ws := (line.trimAscii.toString.splitOn " ").filter (· ≠ "")
  let viaBase : SSt × Option String :=
    let (b', out) := step st.base line
    ({ st with base := b' }, out)
  match ws with
  | "prog" :: _ => let (b', out) := step st.base line; ({ base := b', tbl := Std.HashMap.emptyWithCapacity 256, segs := [] }, out)
  | "root" :: reg :: _ =>
    let (st', out) := viaBase
    match reg.toNat? with
    | some r =>
      let v := st'.base.views[r]!
      let n := if v.numElements < 0 then 0 else v.numElements
      ({ st' with segs := (v.base - 8, v.base + n + 8) :: st'.segs }, out)
    | none => (st', out)
  | "x" :: "algo" :: _ => (st, some "algo ok")
  | "x" :: "tr" :: name :: args =>
    match args.mapM String.toInt? with
    | some ints => (st, some (trCmd name ints))
    | none => (st, some "bad-op")
  | ["x", "assign", d, s] =>
    match parseOperand d, parseOperand s with
    | some (fd, rd), some (fs, rs) => okOr st (assignCmd st fd rd fs rs)
    | _, _ => (st, some "bad-op")
  | ["x", cmd, d, s] =>
    match parseOperand d, parseOperand s with
    | some (_, rd), some (_, rs) =>
      let dv := st.base.views[rd]!
      let sv := st.base.views[rs]!
      match cmd with
      | "assignmv" => okOr st (dv.assign sv st.mem)
      | "elems" => okOr st (dv.assignElements sv st.mem)
      | "emoved" => okOr st (dv.assignT sv st.mem)
      | "emovedt" => okOr st (dv.assignMoved (-1) sv st.mem)
      | "swap" => okOr st (dv.swap sv st.mem)
      | "eswap" => okOr st ((ElemRange.ofView dv).swap (ElemRange.ofView sv) st.mem)
      | _ => (st, some "bad-op")
    | _, _ =>
      -- commands whose arguments are plain integers
      match cmd, d.toInt?, s.toInt? with
      | "set", some a, some x => okOr st (some (st.mem.write a x))
      | "assign0", some r, some x => okOr st (some ((st.base.views[r.toNat]!).assign0 x st.mem))
      | "aref0", some r, some q => okOr st (some ((st.base.views[r.toNat]!).assign0 (st.mem (st.base.views[q.toNat]!).base) st.mem))
      | "fill", some r, some x => okOr st ((st.base.views[r.toNat]!).fill x st.mem)
      | "ilist", some r, some x => okOr st ((st.base.views[r.toNat]!).assignVals1 [x] st.mem)
      | "range", some r, some x => okOr st ((st.base.views[r.toNat]!).assignVals1 [x] st.mem)
      | "assign1", some r, some x => okOr st ((st.base.views[r.toNat]!).assignVals1 [x] st.mem)
      | _, _, _ => (st, some "bad-op")
  | "x" :: cmd :: reg :: rest =>
    match reg.toNat?, parseInts rest with
    | some r, some xs =>
      let v := st.base.views[r]!
      match cmd with
      | "ilist" | "range" | "assign1" => okOr st (v.assignVals1 xs st.mem)
      | "rows" =>
        match xs with
        | nrows :: rowlen :: vals => okOr st (v.assignRows (if rowlen == 0 then List.replicate nrows.toNat [] else chunks rowlen.toNat vals) st.mem)
        | _ => (st, some "bad-op")
      | "rrows" =>
        match xs with
        | nrows :: rowlen :: vals => okOr st (v.assignRangeRows (if rowlen == 0 then List.replicate nrows.toNat [] else chunks rowlen.toNat vals) st.mem)
        | _ => (st, some "bad-op")
      | _ => (st, some "bad-op")
    | _, _ => (st, some "bad-op")
  | ["q", "mem", lo, hi] =>
    match lo.toInt?, hi.toInt? with
    | some l, some h =>
      let cells := (List.range (h - l).toNat).map fun (k : Nat) => st.mem (l + Int.ofNat k)
      (st, some s!"mem {l} : {ints cells}")
    | _, _ => (st, some "bad-op")
  | ["q", "rest"] => (st, some "rest ok")
  | ["q", op, a, b] =>
    if op == "eq" || op == "ne" || op == "lt" || op == "le" || op == "gt" || op == "ge" then
      match parseOperand a, parseOperand b with
      | some (fa, ra), some (fb, rb) => (st, some (compare st op fa ra fb rb))
      | _, _ => (st, some "bad-op")
    else viaBase
  | _ => viaBase

partial def sloop (hin hout : IO.FS.Stream) (st : SSt) : IO Unit := do
  let line ← hin.getLine
  if line.isEmpty then return ()
  let (st', out) := sstep st line
  match out with
  | some s => hout.putStrLn s
  | none => pure ()
  sloop hin hout st'

end Driver
