/-
  Driver.LapackProto — line protocol of C14 (LAPACK adaptor) on top of Driver.Proto:

    root / v ...                                   as in Driver.Proto (positions count doubles from the buffer start)
    x potrf <reg> <U|L> <dataseed> <fail_k>        potrf(filling::upper|lower, A); `fail_k` = order of the first non-positive
                                                   leading minor of the generated matrix (0: positive definite) = LAPACK's info
    x geqrf <reg> <taureg> <dataseed>              geqrf(aa, tau)
    x gesvd <regA> <regU> <regS> <regV> <dataseed> gesvd(AA, UU, ss, VV)
    x syev <reg> <wreg> <workreg> <U|L> <dataseed> <api>   the five syev overloads

  Answers: the Fortran call(s) the adaptor makes (MultiModel/Lapack.lean), the order and the leading block the property
  prescribes for potrf's result, and `ok` for every numerical / frame check the harness performs (what the theorems of
  MultiProofs/C14.lean prescribe under the LAPACK contracts).
-/
import MultiModel
import MultiModel.Lapack
import Driver.Proto

namespace Driver.LapackP
open Multi

def fmtExts (es : List Ext) : String := " ".intercalate (es.map fun e => s!"{e.first}:{e.last}")

/-- a returned view: extents, element count and — up to 100 elements — the element offsets (large cases stay one short line) -/
def retLine (v : View) : String :=
  let k := (v.exts.map fun e => e.size.toNat).foldl (· * ·) 1
  if k > 100 then s!"ret {fmtExts v.exts} | {k} : _"
  else
    let idxs := boxIndices v.exts
    s!"ret {fmtExts v.exts} | {idxs.length} : {ints (idxs.map v.addr)}"

def potrfLines (A : View) (upper : Bool) (info : Int) : List String :=
  let uplo : Filling := if upper then .upper else .lower
  let c := potrfCall uplo A
  let n := A.size
  let r := potrfOrder n info
  -- the view the adaptor returns: "the leading block up to the first non-positive minor"
  let lead := potrfResult A info
  (if potrfAsserts A then [] else ["ASSERT potrf"]) ++
  [ s!"potrf {c.uplo} {c.n} {c.a} {c.lda}",
    s!"order {r}",
    retLine lead,
    "num ok | tri ok | frame ok" ]

def geqrfLines (aa tau : View) : List String :=
  let c := geqrfCall aa tau
  let call := s!"geqrf {c.m} {c.n} {c.a} {c.lda} {c.tau}"
  (if geqrfAsserts aa tau then [] else ["ASSERT geqrf"]) ++
  [ s!"{call} query", s!"{call} compute", "outcome ok", "num ok | frame ok" ]

def gesvdLines (AA UU ss VV : View) : List String :=
  let c := gesvdCall AA UU ss VV
  let call := s!"gesvd {c.jobu} {c.jobvt} {c.m} {c.n} {c.a} {c.lda} {c.s} {c.u} {c.ldu} {c.vt} {c.ldvt}"
  (if gesvdAsserts AA UU ss VV then [] else ["ASSERT gesvd"]) ++
  [ s!"{call} query", s!"{call} compute", "outcome ok", "num ok | order ok | frame ok" ]

/-- `x syev`: api 0 `syev(uplo,a,w,work)`, 1 `syev(uplo,a,w)`, 2 `w = syev(uplo,a)`, 3 `vecs = syev(uplo, const a, w)`,
    4 `{vecs, vals} = syev(uplo, const a)`; storage the overload allocates itself is printed as `ext` -/
def syevLines (a w work : View) (upper : Bool) (api : Nat) : List String :=
  let uplo : Filling := if upper then .upper else .lower
  let aEff := if api ≥ 3 then decayView a 0 else a
  let wEff := if api == 2 || api == 4 then syevAutoW a 0 else w
  let workEff := if api == 0 then work else syevAutoWork aEff 0
  let p (fresh : Bool) (x : Int) : String := if fresh then "ext" else toString x
  let callLine := match syevCall uplo aEff wEff workEff with
    | some c => [s!"syev {c.jobz} {c.uplo} {c.n} {p (api ≥ 3) c.a} {c.lda} {p (api == 2 || api == 4) c.w} {p (api != 0) c.work} {c.lwork}"]
    | none => ["ASSERT syev layout"]
  let ret := if api ≤ 1 then
      retLine (syevResult a 0)
    else "ret none"
  (if syevAsserts aEff wEff workEff then [] else ["ASSERT syev"]) ++ callLine ++ [ret, "num ok | order ok | frame ok"]

def step (st : Driver.St) (line : String) : Driver.St × List String :=
  let ws := (line.trimAscii.toString.splitOn " ").filter (· ≠ "")
  match ws with
  | ["x", "potrf", reg, ul, _dseed, failk] =>
    match reg.toNat?, failk.toInt? with
    | some r, some k => (st, potrfLines st.views[r]! (ul == "U") k)
    | _, _ => (st, ["bad-op"])
  | ["x", "geqrf", reg, treg, _dseed] =>
    match reg.toNat?, treg.toNat? with
    | some r, some t => (st, geqrfLines st.views[r]! st.views[t]!)
    | _, _ => (st, ["bad-op"])
  | ["x", "syev", ra, rw, rk, ul, _dseed, api] =>
    match ra.toNat?, rw.toNat?, rk.toNat?, api.toNat? with
    | some a, some w, some k, some p => (st, syevLines st.views[a]! st.views[w]! st.views[k]! (ul == "U") p)
    | _, _, _, _ => (st, ["bad-op"])
  | ["x", "gesvd", ra, ru, rs, rv, _dseed] =>
    match ra.toNat?, ru.toNat?, rs.toNat?, rv.toNat? with
    | some a, some u, some s, some v => (st, gesvdLines st.views[a]! st.views[u]! st.views[s]! st.views[v]!)
    | _, _, _, _ => (st, ["bad-op"])
  | _ =>
    let (b, out) := Driver.step st line
    (b, out.toList)

partial def loop (hin hout : IO.FS.Stream) (st : Driver.St) : IO Unit := do
  let line ← hin.getLine
  if line.isEmpty then return ()
  let (st', out) := step st line
  for s in out do hout.putStrLn s
  loop hin hout st'

end Driver.LapackP
