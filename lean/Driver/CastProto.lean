/-
  Driver.CastProto — line protocol of C12 (projection views) on top of Driver.Proto:

    t s4|cplx|int|s3                    element kind of the program (sizeof 32 / 16 / 4 / 24)
    root / v / q ...                    as in Driver.Proto (positions count elements of that kind)
    x member <reg> <k>                  member_cast<double>(&S4::m_k)
    x reint <reg> <sU>                  reinterpret_array_cast<U>()        (cplx -> double, int -> unsigned, s3 -> double)
    x reintq <reg> <sU>                 reinterpret_array_cast<U>() with a NON-integral size ratio (s3 -> complex<double>, complex<double> -> s3)
    x reintn <reg> <sU> <n>             reinterpret_array_cast<double>(n)
    x same <reg> <w>                    static_array_cast / as_const / const_array_cast
    x real|imag <reg>                   blas::real / blas::imag = reinterpret_array_cast<complex_dummy>().member_cast
    x xval <reg> <pos> <delta>          element_transformed(value functor), source element `pos` changed after creation
    x xref <reg> <pos> <val>            element_transformed(reference functor), element `pos` assigned through the view
    x ctor <reg> <what> args...         multi::array constructed from that projection (`conv`: from the view itself)

  Memory (both sides): kinds s4/cplx: the double at byte A holds A/8; kind int: the int at byte A holds A/4 - 150.
-/
import MultiModel
import MultiModel.Cast
import Driver.Proto

namespace Driver.CastP
open Multi

inductive Kind where | s4 | cplx | int | s3
deriving DecidableEq, Inhabited

def Kind.esz : Kind → Int | .s4 => 32 | .cplx => 16 | .int => 4 | .s3 => 24
def Kind.slot : Kind → Int | .int => 4 | _ => 8

/-- memory: value of the slot (double or int) at byte address `A` -/
abbrev Mem := Int → Int
def Kind.mem0 : Kind → Mem
  | .int => fun A => A.tdiv 4 - 150
  | _ => fun A => A.tdiv 8

/-- printed element types -/
inductive Ty where | dbl | int | uint | cplx | s4 | s3
deriving DecidableEq, Inhabited

def Kind.ty : Kind → Ty | .s4 => .s4 | .cplx => .cplx | .int => .int | .s3 => .s3

def showAt (mem : Mem) : Ty → Int → String
  | .dbl, A => toString (mem A)
  | .int, A => toString (mem A)
  | .uint, A => toString ((mem A).emod 4294967296)
  | .cplx, A => s!"{mem A},{mem (A + 8)}"
  | .s4, A => s!"{mem A},{mem (A + 8)},{mem (A + 16)},{mem (A + 24)}"
  | .s3, A => s!"{mem A},{mem (A + 8)},{mem (A + 16)}"

structure St where
  base : Driver.St
  kind : Kind
deriving Inhabited

def fmtExts (es : List Ext) : String := " ".intercalate (es.map fun e => s!"{e.first}:{e.last}")

/-- `<tag> R | exts | n : byte offsets | values` -/
def describe (tag : String) (mem : Mem) (ty : Ty) (r : TView) : String :=
  let idxs := boxIndices r.exts
  let as := idxs.map r.byteAddr
  s!"{tag} {r.v.lay.length} | {fmtExts r.exts} | {idxs.length} : {ints as} | {" ".intercalate (as.map (showAt mem ty))}"

/-- the array constructed from a projection with extents `es` and printed elements `read idx` -/
def describeCtor (es : List Ext) (read : List Int → String) (tag : String := "ctor") : String :=
  let A := constructFrom es read id
  s!"{tag} {A.lay.length} | {fmtExts A.lay.exts} | {A.data.length} : {" ".intercalate A.data}"

def ctorOf (mem : Mem) (ty : Ty) (r : TView) (tag : String := "ctor") : String :=
  describeCtor r.exts (fun idx => showAt mem ty (r.byteAddr idx)) tag

/-- value functors of the harness, on the element at byte address `A` -/
def fval (k : Kind) (mem : Mem) (A : Int) : String :=
  match k with
  | .s4 => toString (mem A + 3 * mem (A + 16))
  | .s3 => toString (mem A + 3 * mem (A + 16))
  | .cplx => s!"{mem A},{- mem (A + 8)}"
  | .int => toString (3 * mem A + 1)

/-- reference functors: byte address of the designated sub-object -/
def gref (k : Kind) (A : Int) : Int :=
  match k with
  | .s4 => A + 16
  | .s3 => A + 16
  | .cplx => A + 8
  | .int => A

def slotsOf (k : Kind) (A : Int) : List Int :=
  match k with
  | .s4 => [A, A + 8, A + 16, A + 24]
  | .s3 => [A, A + 8, A + 16]
  | .cplx => [A, A + 8]
  | .int => [A]

def assertLine (ok : Bool) (what : String) : List String := if ok then [] else [s!"ASSERT {what}"]

/-- answers (possibly preceded by assertion lines) of one `x` query -/
def query (st : St) (ctor : Bool) (what : String) (v : View) (a : List Int) : List String :=
  let k := st.kind
  let mem := k.mem0
  let t := TView.ofView k.esz v
  let out (tag : String) (ty : Ty) (r : TView) : String := if ctor then ctorOf mem ty r else describe tag mem ty r
  match what, k, a with
  | "member", .s4, [m] =>
    assertLine (t.memberCastAsserts 8) "scale" ++ [out "member" .dbl (t.memberCast 8 (8 * m))]
  | "member", .s3, [m] =>
    assertLine (t.memberCastAsserts 8) "scale" ++ [out "member" .dbl (t.memberCast 8 (8 * m))]
  | "reintq", _, [sU] =>
    -- reinterpret_array_cast<U>() with a non-integral size ratio: s3 (24) -> complex<double> (16), complex<double> -> s3
    let r := t.reinterpret sU
    let ty : Ty := if sU == 24 then .s3 else .cplx
    assertLine (t.reinterpretAsserts sU) "scale" ++
      (if t.reinterpret1 sU != r then ["INTERNAL reinterpret_array_cast const/mutable differ"] else []) ++
      [if ctor then ctorOf mem ty r "ctorq" else describe "reintq" mem ty r]
  | "reintn", _, [sU, n] =>
    let r := t.reinterpretN sU n
    assertLine (t.reinterpretNAsserts sU n) "reinterpret(n)" ++
      (if v.lay.length == 1 && t.reinterpretN1 sU n != r then ["INTERNAL reinterpret_array_cast(n) const/mutable differ"] else []) ++
      [out "reintn" .dbl r]
  | "reint", _, [sU] =>
    let r := t.reinterpret sU
    assertLine (t.reinterpretAsserts sU) "scale" ++
      (if t.reinterpret1 sU != r then ["INTERNAL reinterpret_array_cast const/mutable differ"] else []) ++
      [out "reint" (if k == .int then .uint else .dbl) r]
  | "same", _, [_] => [out "same" k.ty t.sameCast]
  | "conv", _, [] => [ctorOf mem k.ty t]
  | "real", .cplx, [] =>
    assertLine (t.reinterpretAsserts 16 && (t.reinterpret 16).memberCastAsserts 8) "scale" ++ [out "part" .dbl ((t.reinterpret 16).memberCast 8 0)]
  | "imag", .cplx, [] =>
    assertLine (t.reinterpretAsserts 16 && (t.reinterpret 16).memberCastAsserts 8) "scale" ++ [out "part" .dbl ((t.reinterpret 16).memberCast 8 8)]
  | "xval", _, [pos, delta] =>
    -- the transformed view exists before the source changes; it is read afterwards
    let idxs := boxIndices t.exts
    let poked : List Int := if pos < 0 then [] else
      match idxs[pos.toNat]? with
      | some idx => slotsOf k (t.byteAddr idx)
      | none => []
    let mem' : Mem := fun A => if poked.contains A then mem A + delta else mem A
    -- element_transformed(f).read mem' idx = f (source element at idx in mem')
    let xv : XView Int String := t.elementTransformed (fval k mem')
    let read := fun idx => xv.read (fun A => A) idx   -- an element is identified by its byte address; `fval` reads its slots
    if ctor then [describeCtor xv.exts read]
    else [s!"xval {v.lay.length} | {fmtExts xv.exts} | {idxs.length} : _ | {" ".intercalate (idxs.map read)}"]
  | "xref", _, [pos, val] =>
    let x : XView Int Int := t.elementTransformed (fun A => A)
    let idxs := boxIndices x.exts
    let as := idxs.map (x.refAddr (gref k))
    let ty : Ty := if k == .int then .int else .dbl
    let wr : String := if pos < 0 then "" else
      match idxs[pos.toNat]? with
      | some idx =>
        let A := x.refAddr (gref k) idx
        let mem' := memWrite mem A val
        if mem' A != mem A then s!" {A}={mem' A}" else ""
      | none => ""
    [s!"xref {v.lay.length} | {fmtExts x.exts} | {idxs.length} : {ints as} | {" ".intercalate (as.map (showAt mem ty))} | wr{wr}"]
  | _, _, _ => ["bad-op"]

def step (st : St) (line : String) : St × List String :=
  let ws := (line.trimAscii.toString.splitOn " ").filter (· ≠ "")
  match ws with
  | ["t", "s4"] => ({ st with kind := .s4 }, [])
  | ["t", "cplx"] => ({ st with kind := .cplx }, [])
  | ["t", "int"] => ({ st with kind := .int }, [])
  | ["t", "s3"] => ({ st with kind := .s3 }, [])
  | "x" :: "ctor" :: reg :: what :: rest =>
    match reg.toNat?, parseInts rest with
    | some r, some a => (st, query st true what st.base.views[r]! a)
    | _, _ => (st, ["bad-op"])
  | "x" :: what :: reg :: rest =>
    match reg.toNat?, parseInts rest with
    | some r, some a => (st, query st false what st.base.views[r]! a)
    | _, _ => (st, ["bad-op"])
  | _ =>
    let (b, out) := Driver.step st.base line
    ({ st with base := b }, out.toList)

partial def loop (hin hout : IO.FS.Stream) (st : St) : IO Unit := do
  let line ← hin.getLine
  if line.isEmpty then return ()
  let (st', out) := step st line
  for s in out do hout.putStrLn s
  loop hin hout st'

end Driver.CastP
