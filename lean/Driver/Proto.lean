/-
  Driver.Proto — the line protocol (see DESIGN.md §2).  One command per line:

    root <reg> <base> <D> f0 l0 f1 l1 ...       new root array view at address <base>
    v <dst> <src> <op> args...                  view-forming operation
    q shape|addrs|paths|iter|elems <reg>        queries (one answer line each)
    q bcast <reg> <junk> <i>                    broadcasted()[i] designates the source

  Answers are canonical text; the C++ harness prints the same text from the real library.
-/
import MultiModel

namespace Driver
open Multi

structure St where
  views : Array View
  deriving Inhabited

def St.init (_args : List String) : St := { views := Array.replicate 64 default }

def ints (l : List Int) : String := " ".intercalate (l.map toString)

def parseInts (ws : List String) : Option (List Int) := ws.mapM String.toInt?

def fmtShape (v : View) : String :=
  let exts := v.exts.map fun e => s!"{e.first}:{e.last}"
  let ne := v.numElements
  let strides := v.lay.map fun dm => if ne != 0 && dm.size ≥ 2 then toString dm.stride else "_"
  s!"shape {v.lay.length} | {" ".intercalate exts} | {ints v.sizes} | {ne} {if v.isEmpty then 1 else 0} | {" ".intercalate strides}"

/-- whether every extension of a non-empty view starts at 0 (cursor indexing is position based) -/
def zeroBased (v : View) : Bool := v.exts.all fun e => e.first == 0

def fmtAddrs (v : View) : String :=
  let idxs := boxIndices v.exts
  s!"addrs {idxs.length} : {ints (idxs.map v.addr)}"

def fmtPaths (v : View) : String :=
  let idxs := boxIndices v.exts
  let call := idxs.map fun idx => (v.paren (idx.map Arg.idx)).base
  let cur := if zeroBased v then ints (idxs.map v.cursorAddr) else "_"
  s!"paths {idxs.length} : {ints call} : {cur}"

/-- equality of two sub-views as the harness observes it: base and (stride, offset, nelems) per level -/
def sameView (a b : View) : Bool := a.base == b.base && a.lay == b.lay

def count (bs : List Bool) : Nat := (bs.filter (· == false)).length

/-- C02 laws on `begin()/end()` of `v`, evaluated on the model's `ArrIt` exactly as the harness evaluates them
    on the real iterators.  Returns (size, number of violated checks, base address of `*(begin+p)`). -/
def iterLaws (v : View) : Int × Nat × List Int :=
  let b := v.begin'
  let e := v.end'
  let size := e.diff b
  let n := size.toNat
  let first := v.ext.first
  let ps := List.range (n + 1)
  let checks : List Bool := ps.flatMap fun (p : Nat) =>
    let it := b.add (Int.ofNat p)
    let c1 := [ (v.size == size),
                (if p < n then (it.inc.dec.eq it) else true),
                (if p > 0 then (it.dec.inc.eq it) else true),
                (if p < n then sameView it.deref (v.index (first + Int.ofNat p)) else true),
                (it.diff b == Int.ofNat p),
                (e.diff it == size - Int.ofNat p),
                (if p == n then it.eq e else !(it.eq e)) ]
    let c2 := (List.range (n + 1)).flatMap fun (q : Nat) =>
      let k : Int := Int.ofNat q - Int.ofNat p
      let jt := it.add k
      [ ((jt.sub' k).eq it),
        (jt.diff it == k),
        (it.lt jt == decide (0 < jt.diff it)),
        (jt.lt it == decide (0 < it.diff jt)),
        (if q < n then sameView (it.at' k) jt.deref else true),
        (jt.eq (b.add (Int.ofNat q))) ]
    c1 ++ c2
  (size, count checks, (List.range n).map fun (p : Nat) => (b.add (Int.ofNat p)).deref.base)

def fmtIter (v : View) : String :=
  match v.lay with
  | [] => "iter none"
  | d :: _ =>
    if d.stride == 0 then "iter stride0"
    else
      let (size, viol, ds) := iterLaws v
      s!"iter {size} {viol} : {ints ds}"

/-- positions 0..n reached by repeated `++` from `b` (n+1 iterators) -/
def incChain (b : ElemIt) : Nat → Option (List ElemIt)
  | 0 => some [b]
  | k + 1 => do
    let rest ← incChain b k
    match rest.getLast? with
    | none => none
    | some it => do let it' ← it.inc; pure (rest ++ [it'])

/-- positions n..0 reached by repeated `--` from `e`, returned in increasing order of position -/
def decChain (e : ElemIt) : Nat → List ElemIt
  | 0 => [e]
  | k + 1 =>
    let rest := decChain e k
    match rest.head? with
    | none => []
    | some it => it.dec :: rest

/-- C02 laws on `elements()`: positions reached by `++` from begin, `--` from end, `begin+k`, `end-(n-k)`,
    `range[k]`, `begin[k]`, plus the arithmetic laws. `none` = the model hit a division by zero. -/
def elemLaws (v : View) : Option (Int × Nat × List Int) := do
  let r := ElemRange.ofView v
  let n := r.size
  let nn := n.toNat
  let b ← r.begin'
  let e ← r.end'
  let incs ← incChain b nn
  let byInc := (incs.take nn).map ElemIt.current
  let decs := decChain e nn
  let byDec := (decs.take nn).map ElemIt.current
  let idxs := boxIndices v.exts
  let want := idxs.map v.addr
  let byAdd ← (List.range nn).mapM fun (k : Nat) => (b.add (Int.ofNat k)).map ElemIt.current
  let bySub ← (List.range nn).mapM fun (k : Nat) => (e.sub' (Int.ofNat (nn - k))).map ElemIt.current
  let byRange ← (List.range nn).mapM fun (k : Nat) => r.at' (Int.ofNat k)
  let byAt ← (List.range nn).mapM fun (k : Nat) => b.at' (Int.ofNat k)
  let laws ← (List.range (nn + 1)).mapM fun (p : Nat) => do
    let it ← b.add (Int.ofNat p)
    let w := want.getD p 0
    let inner ← (List.range (nn + 1)).mapM fun (q : Nat) => do
      let k : Int := Int.ofNat q - Int.ofNat p
      let jt ← it.add k
      let back ← jt.sub' k
      let atv ← if q < nn then (it.at' k).map (· == jt.current) else some true
      pure [ back.eq it && (p == nn || back.current == w),
             jt.diff it == k,
             it.lt jt == decide (0 < jt.diff it),
             atv,
             (if q < nn then jt.current == want.getD q 0 else true),
             (ElemIt.assign it jt).eq jt && (if q < nn then (ElemIt.assign it jt).current == jt.current else true) ]
    -- mixing ++/-- with arithmetic: (++it) - 1, (++it)[-1], (--it) + 1
    let mixUp ← if p < nn then do
        let t ← it.inc
        let u ← t.sub' 1
        let a ← t.at' (-1)
        let d := t.dec
        pure [u.current == w, a == w, d.current == w, d.eq it]
      else pure []
    let mixDown ← if p > 0 && p < nn then do
        let t := it.dec
        let u ← t.add 1
        let t2 ← t.inc
        pure [u.current == w, t2.current == w, t2.eq it]
      else pure []
    let c := [ it.diff b == Int.ofNat p, e.diff it == n - Int.ofNat p,
               (if p == nn then it.eq e else !(it.eq e)) ]
    pure (c ++ mixUp ++ mixDown ++ inner.flatten)
  let lastInc := match incs.getLast? with | some it => it.eq e | none => false
  let frontBack : List Bool :=
    if nn == 0 then [] else
      [ b.current == want.getD 0 0,
        (e.dec).current == want.getD (nn - 1) 0 ]
  let agree := [ byInc == want, byDec == want, byAdd == want, bySub == want, byRange == want, byAt == want,
                 (idxs.length : Int) == n, lastInc ]
  pure (n, count (agree ++ frontBack ++ laws.flatten), byInc)

def fmtElems (v : View) : String :=
  match v.lay with
  | [] => "elems none"
  | _ =>
    match elemLaws v with
    | none => "elems ERR"
    | some (n, viol, as) => s!"elems {n} {viol} : {ints as}"

/-- apply one view-forming op; returns the new view and whether every assertion on the path held -/
def applyOp (v : View) (op : String) (a : List Int) : Option (View × Bool) :=
  match op, a with
  | "index", [i] => some (v.index i, v.indexAssert i)
  | "sliced", [x, y] => some (v.sliced x y, v.slicedAsserts x y)
  | "range", [x, y] => some (v.range x y, v.slicedAsserts x y)
  | "strided", [s] => some (v.strided s, true)
  | "dropped", [n] => some (v.dropped n, decide (n ≤ v.size))
  | "taked", [n] => some (v.taked n, decide (n ≤ v.size))
  | "rotated", [] => some (v.rotated, true)
  | "unrotated", [] => some (v.unrotated, true)
  | "transposed", [] => some (v.transposed, true)
  | "reversed", [] => some (v.reversed, true)
  | "diagonal", [] => some (v.diagonal, true)
  | "partitioned", [n] => some (v.partitioned n, v.partitionedAsserts n)
  | "chunked", [c] => some (v.chunked c, decide (v.size.tmod c = 0))
  | "flatted", [] => some (v.flatted, true)
  | "halved", [] => some (v.halved, decide (v.size.tmod 2 = 0))
  | "blocked", [x, y] => some (v.blocked x y, v.slicedAsserts x y)
  | "reindexed", is => some (v.reindexed is, true)
  | _, _ => none

/-- call-syntax arguments: `i<k>`, `r<a>:<b>`, `a` -/
def parseArg (s : String) : Option Arg :=
  if s == "a" then some Arg.all
  else if s.startsWith "i" then (s.drop 1).toString.toInt?.map Arg.idx
  else if s.startsWith "r" then
    match (s.drop 1).toString.splitOn ":" with
    | [x, y] => do let a ← x.toInt?; let b ← y.toInt?; pure (Arg.rng a b)
    | _ => none
  else none

/-- call-syntax arguments with the clipping forms `l<k>` (`multi::_ < k`) and `g<k>` (`k <= multi::_`): an
    `intersecting_range` is intersected with the extension of the dimension it addresses (`paren_aux_(intersecting_range, …)`
    = `paren_aux_(intersection(extension(), inr), …)`, array_ref.hpp) — the j-th argument addresses the j-th dimension of the
    ORIGINAL view, so the clip is resolved to the range argument it stands for -/
def parseArgsIn (exts : List Ext) : List String → Option (List Arg)
  | [] => some []
  | s :: rest =>
    let e := exts.headD ⟨0, 0⟩
    let lim : Int := 9223372036854775807
    let a : Option Arg :=
      if s.startsWith "l" then (s.drop 1).toString.toInt?.map fun k => let x := e.inter ⟨-lim - 1, k⟩; Arg.rng x.first x.last
      else if s.startsWith "g" then (s.drop 1).toString.toInt?.map fun k => let x := e.inter ⟨k, lim⟩; Arg.rng x.first x.last
      else parseArg s
    match a, parseArgsIn exts.tail rest with
    | some a, some as => some (a :: as)
    | _, _ => none

def parseExts : List Int → List Ext
  | f :: l :: rest => ⟨f, l⟩ :: parseExts rest
  | _ => []

def step (st : St) (line : String) : St × Option String :=
  let ws := (line.trimAscii.toString.splitOn " ").filter (· ≠ "")
  match ws with
  | [] => (st, none)
  | "#" :: _ => (st, none)
  | "prog" :: _ => (st, some (" ".intercalate ws))
  | "root" :: reg :: base :: _d :: rest =>
    match reg.toNat?, base.toInt?, parseInts rest with
    | some r, some b, some xs =>
      ({ st with views := st.views.set! r ⟨b, Layout.ofExts (parseExts xs)⟩ }, none)
    | _, _, _ => (st, some "bad-op")
  | "v" :: dst :: src :: "stenciled" :: rest =>
    match dst.toNat?, src.toNat?, parseInts rest with
    | some d, some s, some xs =>
      ({ st with views := st.views.set! d ((st.views[s]!).stenciled (parseExts xs)) }, none)
    | _, _, _ => (st, some "bad-op")
  | "v" :: dst :: src :: "call" :: rest =>
    match dst.toNat?, src.toNat? with
    | some d, some s =>
      match parseArgsIn (st.views[s]!).exts rest with
      | some as => ({ st with views := st.views.set! d ((st.views[s]!).paren as) }, none)
      | none => (st, some "bad-op")
    | _, _ => (st, some "bad-op")
  | "v" :: dst :: src :: op :: rest =>
    match dst.toNat?, src.toNat?, parseInts rest with
    | some d, some s, some a =>
      match applyOp (st.views[s]!) op a with
      | some (v', ok) =>
        ({ st with views := st.views.set! d v' }, if ok then none else some s!"ASSERT {op}")
      | none => (st, some "bad-op")
    | _, _, _ => (st, some "bad-op")
  | ["q", "shape", reg] => (st, reg.toNat?.map fun r => fmtShape st.views[r]!)
  | ["q", "addrs", reg] => (st, reg.toNat?.map fun r => fmtAddrs st.views[r]!)
  | ["q", "paths", reg] => (st, reg.toNat?.map fun r => fmtPaths st.views[r]!)
  | ["q", "iter", reg] => (st, reg.toNat?.map fun r => fmtIter st.views[r]!)
  | ["q", "elems", reg] => (st, reg.toNat?.map fun r => fmtElems st.views[r]!)
  | ["q", "death_index", reg, i, _variant] =>
    match reg.toNat?, i.toInt? with
    | some r, some k =>
      let v := st.views[r]!
      (st, some (if v.lay.length == 0 || v.indexAssert k then "death none" else "death abort assert-in-multi"))
    | _, _ => (st, some "bad-op")
  | ["q", "death_assign", a, b, _variant] =>
    match a.toNat?, b.toNat? with
    | some ra, some rb =>
      let va := st.views[ra]!
      let vb := st.views[rb]!
      (st, some (if va.lay.length == 0 || View.assignAssert va vb then "death none" else "death abort assert-in-multi"))
    | _, _ => (st, some "bad-op")
  | ["q", "bcast", reg, junk, i] =>
    match reg.toNat?, junk.toInt?, i.toInt? with
    | some r, some j, some k =>
      let v := st.views[r]!
      (st, some s!"bcast {if sameView ((v.broadcasted j).index k) v then 1 else 0}")
    | _, _, _ => (st, some "bad-op")
  | _ => (st, some "bad-op")

partial def loop (hin hout : IO.FS.Stream) (st : St) : IO Unit := do
  let line ← hin.getLine
  if line.isEmpty then return ()
  let (st', out) := step st line
  match out with
  | some s => hout.putStrLn s
  | none => pure ()
  loop hin hout st'

end Driver
