/-
  mmdrv_value — line-protocol interpreter over MultiModel.Owning (value semantics of owning arrays, C04 / C06).
-/
import Driver.ValueProto

def main (_args : List String) : IO Unit := do
  let stdin ← IO.getStdin
  let stdout ← IO.getStdout
  Driver.Value.loop stdin stdout {}
