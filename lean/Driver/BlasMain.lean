/-
  mmdrv_blas — line-protocol interpreter of the BLAS adaptor model (C13).  Reads the programs harness/blas.cpp wrote,
  prints what the model prescribes; `--key` prints the finding class of every program instead.
-/
import Driver.BlasProto

def main (args : List String) : IO Unit := do
  let stdin ← IO.getStdin
  let stdout ← IO.getStdout
  Driver.Blas.loop stdin stdout (args.contains "--key")
