/-
  mmdrv_store — line-protocol interpreter for C05 / C07 / C03 over MultiModel.Store (see Driver/StoreProto.lean).
-/
import Driver.StoreProto

def main (args : List String) : IO Unit := do
  let stdin ← IO.getStdin
  let stdout ← IO.getStdout
  Driver.sloop stdin stdout (Driver.SSt.init args)
