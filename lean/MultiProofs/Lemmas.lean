/-
  MultiProofs.Lemmas — helper lemmas about the transcribed layout operations.
-/
import MultiProofs.Spec

namespace Multi
open Layout

theorem rotate_cons (d : Dim) (l : Layout) : rotate (d :: l) = l ++ [d] := by
  induction l generalizing d with
  | nil => simp [rotate]
  | cons d1 l ih => rw [rotate]; simp [ih]

theorem unrotate_snoc (l : Layout) (d : Dim) : unrotate (l ++ [d]) = d :: l := by
  induction l with
  | nil => simp [unrotate]
  | cons d0 l ih =>
    cases l with
    | nil => simp [unrotate, transpose]
    | cons d1 l =>
      have : (d0 :: d1 :: l) ++ [d] = d0 :: (d1 :: (l ++ [d])) := by simp
      rw [this, unrotate]
      have h2 : d1 :: (l ++ [d]) = (d1 :: l) ++ [d] := by simp
      rw [h2, ih]; simp [transpose]

theorem unrotate_rotate (l : Layout) : unrotate (rotate l) = l := by
  cases l with
  | nil => simp [rotate, unrotate]
  | cons d l => rw [rotate_cons, unrotate_snoc]

theorem reverse_nil : Layout.reverse [] = [] := by
  rw [Layout.reverse]; split
  · rfl
  · rename_i h; simp [unrotate] at h

theorem reverse_snoc (l : Layout) (d : Dim) : Layout.reverse (l ++ [d]) = d :: Layout.reverse l := by
  rw [Layout.reverse]
  split
  · rename_i h; rw [unrotate_snoc] at h; simp at h
  · rename_i d' sub h; rw [unrotate_snoc] at h; injection h with h1 h2; subst h1 h2; rfl

theorem reverse_eq_aux (n : Nat) : ∀ l : Layout, l.length = n → Layout.reverse l = List.reverse l := by
  induction n with
  | zero =>
    intro l h
    have : l = [] := List.eq_nil_of_length_eq_zero h
    subst this
    simp [reverse_nil]
  | succ n ih =>
    intro l h
    rcases List.eq_nil_or_concat l with h0 | ⟨l', d, h1⟩
    · subst h0; simp at h
    · subst h1
      have hl : l'.length = n := by simp at h; omega
      rw [List.concat_eq_append, reverse_snoc, ih l' hl]
      simp

/-- `layout_t::reverse()` reverses the order of the dimensions -/
theorem reverse_eq (l : Layout) : Layout.reverse l = List.reverse l := reverse_eq_aux l.length l rfl

end Multi
