/-
  MultiProofs.FftRoundtrip — the algebra behind "forward followed by backward multiplies by the number of transformed
  points": finite sums over a commutative ring (core Lean has no big operators) and the separable inversion argument.
-/
import MultiProofs.FftSpec

namespace Multi
open Lean.Grind

section
variable {R : Type} [CommRing R]

theorem sumTo_zero (n : Nat) : sumTo n (fun _ => (0 : R)) = 0 := by
  induction n with
  | zero => rfl
  | succ n ih => simp only [sumTo, ih]; grind

theorem sumTo_add (n : Nat) (f g : Nat → R) : sumTo n (fun k => f k + g k) = sumTo n f + sumTo n g := by
  induction n with
  | zero => simp only [sumTo]; grind
  | succ n ih => simp only [sumTo, ih]; grind

theorem sumTo_mul_left (n : Nat) (c : R) (f : Nat → R) : sumTo n (fun k => c * f k) = c * sumTo n f := by
  induction n with
  | zero => simp only [sumTo]; grind
  | succ n ih => simp only [sumTo, ih]; grind

theorem sumTo_mul_right (n : Nat) (c : R) (f : Nat → R) : sumTo n (fun k => f k * c) = sumTo n f * c := by
  induction n with
  | zero => simp only [sumTo]; grind
  | succ n ih => simp only [sumTo, ih]; grind

theorem sumTo_comm (n m : Nat) (f : Nat → Nat → R) :
    sumTo n (fun i => sumTo m (fun j => f i j)) = sumTo m (fun j => sumTo n (fun i => f i j)) := by
  induction n with
  | zero => simp only [sumTo]; exact (sumTo_zero m).symm
  | succ n ih => simp only [sumTo, ih]; rw [← sumTo_add]

/-- a sum against a Kronecker delta -/
theorem sumTo_delta (n : Nat) (j : Nat) (hj : j < n) (c : R) (y : Nat → R) :
    sumTo n (fun k => (if j = k then c else 0) * y k) = c * y j := by
  induction n with
  | zero => omega
  | succ n ih =>
    simp only [sumTo]
    by_cases h : j = n
    · subst h
      have : sumTo j (fun k => (if j = k then c else 0) * y k) = 0 := by
        rw [sumTo_congr (g := fun _ => (0 : R)) j (fun k hk => by
          have : ¬ j = k := by omega
          simp only [this, if_false]; grind)]
        exact sumTo_zero j
      rw [this]; simp only [if_true]; grind
    · rw [ih (by omega)]
      simp only [h, if_false]; grind

theorem sumBox_zero (Ns : List Int) : sumBox Ns (fun _ => (0 : R)) = 0 := by
  induction Ns with
  | nil => rfl
  | cons N Ns ih => simp only [sumBox, ih]; exact sumTo_zero _

theorem sumBox_add (Ns : List Int) (f g : List Int → R) : sumBox Ns (fun r => f r + g r) = sumBox Ns f + sumBox Ns g := by
  induction Ns generalizing f g with
  | nil => rfl
  | cons N Ns ih => simp only [sumBox, ih]; rw [sumTo_add]

theorem sumBox_mul_left (Ns : List Int) (c : R) (f : List Int → R) : sumBox Ns (fun r => c * f r) = c * sumBox Ns f := by
  induction Ns generalizing f with
  | nil => rfl
  | cons N Ns ih => simp only [sumBox, ih]; rw [sumTo_mul_left]

theorem sumBox_mul_right (Ns : List Int) (c : R) (f : List Int → R) : sumBox Ns (fun r => f r * c) = sumBox Ns f * c := by
  induction Ns generalizing f with
  | nil => rfl
  | cons N Ns ih => simp only [sumBox, ih]; rw [sumTo_mul_right]

theorem sumBox_sumTo (Ns : List Int) (n : Nat) (g : List Int → Nat → R) :
    sumBox Ns (fun r => sumTo n (fun k => g r k)) = sumTo n (fun k => sumBox Ns (fun r => g r k)) := by
  induction n with
  | zero => simp only [sumTo]; exact sumBox_zero Ns
  | succ n ih => simp only [sumTo]; rw [sumBox_add, ih]

/-- `sumBox` only evaluates its argument on tuples in range -/
theorem sumTo_congr' {f g : Nat → R} (n : Nat) (h : ∀ k, k < n → f k = g k) : sumTo n f = sumTo n g := sumTo_congr n h

theorem sumBox_congr_range (Ns : List Int) {f g : List Int → R} (h : ∀ n, InRange Ns n → f n = g n) :
    sumBox Ns f = sumBox Ns g := by
  induction Ns generalizing f g with
  | nil => simp only [sumBox]; exact h [] trivial
  | cons N Ns ih =>
    simp only [sumBox]
    apply sumTo_congr
    intro k hk
    apply ih
    intro n hn
    apply h
    exact ⟨⟨Int.natCast_nonneg k, by simp only [Int.ofNat_eq_natCast]; omega⟩, hn⟩

/-- `N` as an element of `R`: `1 + … + 1` -/
def cnt (N : Int) : R := sumTo N.toNat (fun _ => (1 : R))

/-- number of points of a box as an element of `R` -/
def cntBox : List Int → R
  | [] => 1
  | N :: Ns => cnt N * cntBox Ns

/-- orthogonality of the twiddle family for size `N` and sign `s`:
    `Σ_{k<N} ω(N, s·k·n)·ω(N, −s·j·k) = N·δ_{jn}` — true of `ω N k = exp(2πi k/N)`. -/
def Orth (ω : Int → Int → R) (s N : Int) : Prop :=
  ∀ j n : Nat, (j : Int) < N → (n : Int) < N →
    sumTo N.toNat (fun k => ω N (s * Int.ofNat k * Int.ofNat n) * ω N (-s * Int.ofNat j * Int.ofNat k)) = if j = n then cnt N else 0

/-- **algebraic core**: the unnormalised DFT with sign `−s` inverts the one with sign `s` up to the number of points -/
theorem dft_inversion (ω : Int → Int → R) (s : Int) (Ns : List Int) (horth : ∀ N ∈ Ns, Orth ω s N)
    (X : List Int → R) (j : List Int) (hj : InRange Ns j) :
    sumBox Ns (fun k => sumBox Ns (fun n => X n * twiddle ω s Ns k n) * twiddle ω (-s) Ns j k) = cntBox Ns * X j := by
  induction Ns generalizing X j with
  | nil =>
    cases j with
    | nil => simp only [sumBox, twiddle, cntBox]; grind
    | cons _ _ => simp [InRange] at hj
  | cons N Ns ih =>
    cases j with
    | nil => simp [InRange] at hj
    | cons j0 j' =>
      obtain ⟨⟨hj0, hj1⟩, hj'⟩ := hj
      have ho := horth N (by simp)
      have ih' := fun X => ih (fun M hM => horth M (List.mem_cons_of_mem _ hM)) X j' hj'
      simp only [sumBox, twiddle, cntBox]
      -- A n0 k' : the inner transform of the slice n0
      let A : Nat → List Int → R := fun n0 k' => sumBox Ns (fun n' => X (Int.ofNat n0 :: n') * twiddle ω s Ns k' n')
      -- step 1: pull the leading twiddles out and regroup
      have step1 : ∀ k0 : Nat, ∀ k' : List Int,
          (sumTo N.toNat fun n0 => sumBox Ns fun n' => X (Int.ofNat n0 :: n') * (ω N (s * Int.ofNat k0 * Int.ofNat n0) * twiddle ω s Ns k' n'))
            * (ω N (-s * j0 * Int.ofNat k0) * twiddle ω (-s) Ns j' k')
          = sumTo N.toNat fun n0 => (ω N (s * Int.ofNat k0 * Int.ofNat n0) * ω N (-s * j0 * Int.ofNat k0)) * (A n0 k' * twiddle ω (-s) Ns j' k') := by
        intro k0 k'
        rw [← sumTo_mul_right]
        apply sumTo_congr
        intro n0 _
        have : (sumBox Ns fun n' => X (Int.ofNat n0 :: n') * (ω N (s * Int.ofNat k0 * Int.ofNat n0) * twiddle ω s Ns k' n'))
            = ω N (s * Int.ofNat k0 * Int.ofNat n0) * A n0 k' := by
          rw [← sumBox_mul_left]
          apply sumBox_congr
          intro n' _; grind
        rw [this]; grind
      have lhs1 : (sumTo N.toNat fun k0 => sumBox Ns fun k' =>
          (sumTo N.toNat fun n0 => sumBox Ns fun n' => X (Int.ofNat n0 :: n') * (ω N (s * Int.ofNat k0 * Int.ofNat n0) * twiddle ω s Ns k' n'))
            * (ω N (-s * j0 * Int.ofNat k0) * twiddle ω (-s) Ns j' k'))
          = sumTo N.toNat fun k0 => sumTo N.toNat fun n0 =>
              (ω N (s * Int.ofNat k0 * Int.ofNat n0) * ω N (-s * j0 * Int.ofNat k0)) * (cntBox Ns * X (Int.ofNat n0 :: j')) := by
        apply sumTo_congr
        intro k0 _
        rw [sumBox_congr Ns (fun k' _ => step1 k0 k'), sumBox_sumTo]
        apply sumTo_congr
        intro n0 _
        rw [sumBox_mul_left]
        have := ih' (fun n' => X (Int.ofNat n0 :: n'))
        simp only [A]
        rw [this]
      rw [lhs1, sumTo_comm]
      -- step 2: orthogonality in the leading dimension
      have hj0n : (j0.toNat : Int) = j0 := by omega
      have lhs2 : (sumTo N.toNat fun n0 => sumTo N.toNat fun k0 =>
              (ω N (s * Int.ofNat k0 * Int.ofNat n0) * ω N (-s * j0 * Int.ofNat k0)) * (cntBox Ns * X (Int.ofNat n0 :: j')))
          = sumTo N.toNat fun n0 => (if j0.toNat = n0 then cnt N else 0) * (cntBox Ns * X (Int.ofNat n0 :: j')) := by
        apply sumTo_congr
        intro n0 hn0
        rw [sumTo_mul_right]
        have := ho j0.toNat n0 (by omega) (by omega)
        simp only [Int.ofNat_eq_natCast, hj0n] at this ⊢
        rw [this]
      rw [lhs2, sumTo_delta N.toNat j0.toNat (by omega)]
      simp only [Int.ofNat_eq_natCast, hj0n]
      grind
end
end Multi
