/-
  MultiProofs.GenTieIter — the hand-written model of iterators and flat element ranges (`MultiModel/Iter.lean`, the
  `Exts.*` counter functions of `MultiModel/Layout.lean`) EQUALS the definitions regenerated from the current headers by
  tools/gen_iters.py (`MultiModel/Gen/IterGen.lean`), function by function.  Proof obligations of C02 (and C03, C05, C19
  through it): when the source of one of these functions changes, the corresponding theorem stops checking.
-/
import MultiModel.Gen.IterGen
import MultiProofs.TieTactic

namespace Multi.GenTieIter
open Multi Multi.Gen

/-! ### `extensions_t<D>`: the mixed-radix counter -/

/-- D > 1: one unfolding of `from_linear` with the recursive call interpreted by the model; the code asserts that the
    tail holds at least one element (the model answers `none` otherwise) -/
theorem X_from_linear_tie (e e1 : Ext) (es : List Ext) (n : Int)
    (h : X_from_linear_asserts (e :: e1 :: es) n = true) :
    X_from_linear (e :: e1 :: es) n = Exts.fromLinear (e :: e1 :: es) n := by
  simp only [X_from_linear_asserts, List.tail_cons, bne_iff_ne, ne_eq] at h
  simp only [X_from_linear, List.tail_cons, Exts.fromLinear, h, if_false]
  cases Exts.fromLinear (e1 :: es) (n.tmod (Exts.numElements (e1 :: es))) <;> simp

theorem X_from_linear_asserts_tie (e e1 : Ext) (es : List Ext) (n : Int) :
    X_from_linear_asserts (e :: e1 :: es) n = (Exts.numElements (e1 :: es) != 0) := rfl

theorem X_to_linear_tie (e e1 : Ext) (es : List Ext) (i : Int) (rest : List Int) :
    X_to_linear (e :: e1 :: es) i rest = Exts.toLinear (e :: e1 :: es) (i :: rest) := by
  tie_simp [X_to_linear, Exts.toLinear]

theorem X_next_canonical_tie (e e1 : Ext) (es : List Ext) (i : Int) (rest : List Int) :
    X_next_canonical (e :: e1 :: es) i rest = Exts.nextCanonical (e :: e1 :: es) (i :: rest) := by
  simp only [X_next_canonical, List.tail_cons, hdE_cons, Exts.nextCanonical]
  by_cases h : (Exts.nextCanonical (e1 :: es) rest).2 = true <;> simp [h] <;> grind

theorem X_prev_canonical_tie (e e1 : Ext) (es : List Ext) (i : Int) (rest : List Int) :
    X_prev_canonical (e :: e1 :: es) i rest = Exts.prevCanonical (e :: e1 :: es) (i :: rest) := by
  dsimp only [X_prev_canonical, List.tail_cons, hdE_cons]
  simp only [Exts.prevCanonical]
  by_cases h : (Exts.prevCanonical (e1 :: es) rest).2 = true
  · simp only [h, if_true]
    by_cases hc : i - 1 < e.first
    · rw [if_pos hc]; exact if_pos (decide_eq_true hc)
    · rw [if_neg hc]; exact if_neg (fun hd => hc (of_decide_eq_true hd))
  · simp only [h, if_false, Bool.false_eq_true]
    by_cases hc : i < e.first
    · rw [if_pos hc]; exact if_pos (decide_eq_true hc)
    · rw [if_neg hc]; exact if_neg (fun hd => hc (of_decide_eq_true hd))

theorem X1_from_linear_tie (e : Ext) (n : Int) : some (X1_from_linear [e] n) = Exts.fromLinear [e] n := by
  tie_simp [X1_from_linear, Exts.fromLinear]
theorem X1_to_linear_tie (e : Ext) (i : Int) (rest : List Int) : X1_to_linear [e] i = Exts.toLinear [e] (i :: rest) := by
  tie_simp [X1_to_linear, Exts.toLinear]
theorem X1_num_elements_tie (e : Ext) : X1_num_elements [e] = Exts.numElements [e] := by
  tie_simp [X1_num_elements, Exts.numElements]
theorem X1_next_canonical_tie (e : Ext) (i : Int) (rest : List Int) :
    X1_next_canonical [e] i = Exts.nextCanonical [e] (i :: rest) := by
  tie_simp [X1_next_canonical, Exts.nextCanonical]
theorem X1_prev_canonical_tie (e : Ext) (i : Int) (rest : List Int) :
    X1_prev_canonical [e] i = Exts.prevCanonical [e] (i :: rest) := by
  tie_simp [X1_prev_canonical, Exts.prevCanonical]

/-- `extensions_t::operator==` / `!=` are tuple (in)equality of the ranges, for D > 1 and D = 1 alike -/
theorem X_eq_tie (xs ys : List Ext) :
    X_eq xs ys = Exts.eqv xs ys ∧ X_ne xs ys = !Exts.eqv xs ys ∧ X1_eq xs ys = Exts.eqv xs ys ∧ X1_ne xs ys = !Exts.eqv xs ys :=
  ⟨rfl, rfl, rfl, rfl⟩

/-! ### `array_iterator` (D > 1 and D = 1) -/

theorem I_inc_tie (it : ArrIt) : I_inc it = it.inc ∧ I1_inc it = it.inc := by
  constructor
  · tie_simp [I_inc, ArrIt.inc]
  · tie_simp [I1_inc, ArrIt.inc]
theorem I_dec_tie (it : ArrIt) : I_dec it = it.dec ∧ I1_dec it = it.dec := by
  constructor
  · tie_simp [I_dec, ArrIt.dec]
  · tie_simp [I1_dec, ArrIt.dec]
theorem I_add_tie (it : ArrIt) (n : Int) : I_add it n = it.add n ∧ I1_add it n = it.add n := by
  constructor
  · tie_simp [I_add, ArrIt.add]
  · tie_simp [I1_add, ArrIt.add]
theorem I_sub_tie (it : ArrIt) (n : Int) : I_sub it n = it.sub' n ∧ I1_sub it n = it.sub' n := by
  constructor
  · tie_simp [I_sub, ArrIt.sub']
  · tie_simp [I1_sub, ArrIt.sub']
theorem I_diff_tie (it o : ArrIt) : I_diff it o = it.diff o ∧ I1_diff it o = it.diff o := ⟨rfl, rfl⟩
/-- the D = 1 iterator asserts what the model's `diffAsserts` says; the D > 1 iterator omits the divisibility test -/
theorem I_diff_asserts_tie (it o : ArrIt) :
    I1_diff_asserts it o = it.diffAsserts o ∧
    (I_diff_asserts it o && ((it.ptr - o.ptr).tmod it.stride == 0)) = it.diffAsserts o := by
  constructor
  · simp only [I1_diff_asserts, ArrIt.diffAsserts]
    cases (it.stride != 0) <;> cases (it.stride == o.stride) <;> simp
  · simp [I_diff_asserts, ArrIt.diffAsserts]
/-- D > 1: `==` also compares the sub-layouts, which its own assertion requires to be equal; D = 1: pointer equality -/
theorem I_eq_tie (it o : ArrIt) :
    I_eq it o = (it.eq o && it.sub == o.sub) ∧ I_eq_asserts it o = it.eqAsserts o ∧
    (it.eqAsserts o = true → I_eq it o = it.eq o) ∧ I1_eq it o = it.eq o := by
  refine ⟨rfl, rfl, ?_, rfl⟩
  intro h
  simp only [ArrIt.eqAsserts, Bool.and_eq_true] at h
  simp [I_eq, ArrIt.eq, h.2]
theorem I_lt_tie (it o : ArrIt) : I_lt it o = it.lt o ∧ I1_lt it o = it.lt o := ⟨rfl, rfl⟩
theorem I_deref_tie (it : ArrIt) : I_deref it = it.deref ∧ (it.sub = [] → I1_deref it = it.deref) := by
  refine ⟨rfl, ?_⟩
  intro h
  simp [I1_deref, ArrIt.deref, h]
theorem I_at_tie (it : ArrIt) (n : Int) : I_at it n = it.at' n ∧ I1_at it n = it.at' n := ⟨rfl, rfl⟩

/-! ### `elements_iterator_t`, `elements_range_t` -/

theorem E_ctor_tie (base : Int) (lyt : Layout) (n : Int) : E_ctor base lyt n = ElemRange.mkIt ⟨base, lyt⟩ n := by
  simp only [E_ctor, ElemRange.mkIt]
  cases ElemRange.fromLinearG lyt.exts n <;> simp
theorem ER_ctor_tie (v : View) : ER_ctor v.base v.lay = ElemRange.ofView v := rfl
theorem E_from_linear_tie (it : ElemIt) (n : Int) : E_from_linear it n = ElemRange.fromLinearG it.xs n := by
  simp only [E_from_linear, ElemRange.fromLinearG, beq_iff_eq]
  split
  · rfl
  · cases Exts.fromLinear it.xs n <;> simp
/-- copy assignment copies every member (and is the identity on self-assignment) -/
theorem E_assign_tie (it o : ElemIt) : E_assign it o false = ElemIt.assign it o ∧ E_assign it it true = it := ⟨rfl, rfl⟩
theorem E_inc_tie (it : ElemIt) : E_inc it = it.inc := by
  simp only [E_inc, ElemIt.inc]
  cases h : (Exts.nextCanonical it.xs it.ns).2
  · simp [h]
  · simp only [h, if_true]
    cases ElemRange.fromLinearG it.xs (it.n + 1) <;> simp
theorem E_dec_tie (it : ElemIt) : E_dec it = it.dec := rfl
theorem E_add_tie (it : ElemIt) (k : Int) : E_add it k = it.add k := by
  simp only [E_add, ElemIt.add]
  cases ElemRange.fromLinearG it.xs (Exts.toLinear it.xs it.ns + k) <;> simp
theorem E_sub_tie (it : ElemIt) (k : Int) : E_sub it k = it.sub' k := by
  simp only [E_sub, ElemIt.sub']
  cases ElemRange.fromLinearG it.xs (Exts.toLinear it.xs it.ns - k) <;> simp
theorem E_diff_tie (it o : ElemIt) : E_diff it o = it.diff o := rfl
theorem E_lt_tie (it o : ElemIt) : E_lt it o = it.lt o := rfl
theorem E_eq_tie (it o : ElemIt) : E_eq it o = it.eq o := rfl
theorem E_deref_tie (it : ElemIt) : E_deref it = it.current ∧ E_current it = it.current := by
  constructor
  · tie_simp [E_deref, ElemIt.current]
  · tie_simp [E_current, ElemIt.current]
theorem E_at_tie (it : ElemIt) (k : Int) : E_at it k = it.at' k := by
  simp only [E_at, ElemIt.at']
  cases ElemRange.fromLinearG it.xs (Exts.toLinear it.xs it.ns + k) <;> simp
/-- `-`, `<`, `==` of element iterators assert one common range (same base, same layout) -/
theorem E_compare_asserts_tie (it o : ElemIt) :
    E_diff_asserts it o = (it.base == o.base && it.lay == o.lay) ∧ E_lt_asserts it o = (it.base == o.base && it.lay == o.lay) ∧
    E_eq_asserts it o = (it.base == o.base && it.lay == o.lay) := ⟨rfl, rfl, rfl⟩

theorem ER_at_aux_tie (r : ElemRange) (n : Int) : ER_at_aux r n = r.at' n := by
  simp only [ER_at_aux, ElemRange.at']
  cases Exts.fromLinear r.lay.exts n <;> simp
theorem ER_at_aux_asserts_tie (r : ElemRange) (n : Int) : ER_at_aux_asserts r n = !r.isEmpty := rfl
theorem ER_size_tie (r : ElemRange) : ER_size r = r.size := rfl
theorem ER_is_empty_tie (r : ElemRange) : ER_is_empty r = r.isEmpty := rfl
theorem ER_begin_end_tie (r : ElemRange) : ER_begin_aux r = r.begin' ∧ ER_end_aux r = r.end' := by
  constructor
  · simp only [ER_begin_aux, ElemRange.begin']
    cases ElemRange.mkIt r 0 <;> simp
  · simp only [ER_end_aux, ElemRange.end']
    cases ElemRange.mkIt r r.lay.numElements <;> simp

/-! ### cursors -/

/-- `cursor_t::operator[]` for every D ≥ 1 and `home_aux_()` -/
theorem cursor_is_the_code (b : Int) (s0 : Int) (ss : List Int) (n : Int) (v : View) :
    CU_index ⟨b, s0 :: ss⟩ n = Cursor.index ⟨b, s0 :: ss⟩ n ∧ V_home_aux v = v.home := by
  refine ⟨?_, rfl⟩
  cases ss with
  | nil => simp [CU_index, Cursor.index] <;> grind
  | cons s1 ss => simp [CU_index, Cursor.index] <;> grind

/-- the model's closed form of cursor indexing (`View.cursorAddr`, used by `C01.paths_agree`) is what repeated
    `cursor_t::operator[]` from `home()` computes -/
theorem cursorAddr_is_home_indexing (v : View) (idx : List Int) (h : idx.length = v.lay.length) :
    v.cursorAddr idx = (v.home.indexAll idx).base := by
  have gen : ∀ (ss : List Int) (idx : List Int) (b : Int), idx.length = ss.length →
      ((Cursor.mk b ss).indexAll idx).base = b + ((ss.zip idx).map fun (p : Int × Int) => p.1 * p.2).foldl (· + ·) 0 := by
    intro ss
    induction ss with
    | nil => intro idx b hl; cases idx <;> simp_all [Cursor.indexAll]
    | cons s ss ih =>
      intro idx b hl
      cases idx with
      | nil => simp at hl
      | cons i idx =>
        have := ih idx (b + s * i) (by simpa using hl)
        simp only [Cursor.indexAll, List.foldl_cons, Cursor.index, List.headD_cons, List.tail_cons] at this ⊢
        rw [this]
        simp only [List.zip_cons_cons, List.map_cons, List.foldl_cons]
        have fold_shift : ∀ (l : List Int) (a : Int), l.foldl (· + ·) a = a + l.foldl (· + ·) 0 := by
          intro l
          induction l with
          | nil => intro a; simp
          | cons x l ihl => intro a; simp only [List.foldl_cons]; rw [ihl (a + x), ihl (0 + x)]; omega
        rw [fold_shift _ (0 + s * i)]; omega
  unfold View.cursorAddr View.home
  rw [gen v.strides idx v.base (by simpa [View.strides, Layout.strides] using h)]

/-! ### summaries (the names the checks audit) -/

theorem counter_functions_are_the_code (e e1 : Ext) (es : List Ext) (i n : Int) (rest : List Int) :
    (X_from_linear_asserts (e :: e1 :: es) n = true → X_from_linear (e :: e1 :: es) n = Exts.fromLinear (e :: e1 :: es) n) ∧
    X_to_linear (e :: e1 :: es) i rest = Exts.toLinear (e :: e1 :: es) (i :: rest) ∧
    X_next_canonical (e :: e1 :: es) i rest = Exts.nextCanonical (e :: e1 :: es) (i :: rest) ∧
    X_prev_canonical (e :: e1 :: es) i rest = Exts.prevCanonical (e :: e1 :: es) (i :: rest) ∧
    some (X1_from_linear [e] n) = Exts.fromLinear [e] n ∧ X1_to_linear [e] i = Exts.toLinear [e] (i :: rest) ∧
    X1_num_elements [e] = Exts.numElements [e] ∧
    X1_next_canonical [e] i = Exts.nextCanonical [e] (i :: rest) ∧ X1_prev_canonical [e] i = Exts.prevCanonical [e] (i :: rest) :=
  ⟨X_from_linear_tie e e1 es n, X_to_linear_tie e e1 es i rest, X_next_canonical_tie e e1 es i rest, X_prev_canonical_tie e e1 es i rest,
   X1_from_linear_tie e n, X1_to_linear_tie e i rest, X1_num_elements_tie e, X1_next_canonical_tie e i rest, X1_prev_canonical_tie e i rest⟩

theorem array_iterator_is_the_code (it o : ArrIt) (n : Int) :
    (I_inc it = it.inc ∧ I1_inc it = it.inc) ∧ (I_dec it = it.dec ∧ I1_dec it = it.dec) ∧
    (I_add it n = it.add n ∧ I1_add it n = it.add n) ∧ (I_sub it n = it.sub' n ∧ I1_sub it n = it.sub' n) ∧
    (I_diff it o = it.diff o ∧ I1_diff it o = it.diff o) ∧ I1_diff_asserts it o = it.diffAsserts o ∧
    (it.eqAsserts o = true → I_eq it o = it.eq o) ∧ I_eq_asserts it o = it.eqAsserts o ∧ I1_eq it o = it.eq o ∧
    (I_lt it o = it.lt o ∧ I1_lt it o = it.lt o) ∧ I_deref it = it.deref ∧ (it.sub = [] → I1_deref it = it.deref) ∧
    (I_at it n = it.at' n ∧ I1_at it n = it.at' n) :=
  ⟨I_inc_tie it, I_dec_tie it, I_add_tie it n, I_sub_tie it n, I_diff_tie it o, (I_diff_asserts_tie it o).1,
   (I_eq_tie it o).2.2.1, (I_eq_tie it o).2.1, (I_eq_tie it o).2.2.2, I_lt_tie it o, (I_deref_tie it).1, (I_deref_tie it).2, I_at_tie it n⟩

theorem elements_iterator_is_the_code (it o : ElemIt) (k : Int) (v : View) (r : ElemRange) :
    E_ctor r.base r.lay k = r.mkIt k ∧ ER_ctor v.base v.lay = ElemRange.ofView v ∧
    E_from_linear it k = ElemRange.fromLinearG it.xs k ∧
    E_assign it o false = ElemIt.assign it o ∧ E_inc it = it.inc ∧ E_dec it = it.dec ∧ E_add it k = it.add k ∧ E_sub it k = it.sub' k ∧
    E_diff it o = it.diff o ∧ E_lt it o = it.lt o ∧ E_eq it o = it.eq o ∧ E_deref it = it.current ∧ E_at it k = it.at' k ∧
    ER_at_aux r k = r.at' k ∧ ER_size r = r.size ∧ ER_is_empty r = r.isEmpty ∧ ER_begin_aux r = r.begin' ∧ ER_end_aux r = r.end' :=
  ⟨E_ctor_tie r.base r.lay k, ER_ctor_tie v, E_from_linear_tie it k, (E_assign_tie it o).1, E_inc_tie it, E_dec_tie it, E_add_tie it k, E_sub_tie it k,
   E_diff_tie it o, E_lt_tie it o, E_eq_tie it o, (E_deref_tie it).1, E_at_tie it k, ER_at_aux_tie r k, ER_size_tie r, ER_is_empty_tie r,
   (ER_begin_end_tie r).1, (ER_begin_end_tie r).2⟩

/-- functions of the iterator layer whose body has no assertion in the current source -/
theorem unasserted_iterator_functions (xs : List Ext) (it o : ArrIt) (e : ElemIt) (f : ElemIt) (r : ElemRange) (i n : Int) (rest : List Int) :
    X_to_linear_asserts xs i rest = true ∧ X_next_canonical_asserts xs i rest = true ∧ X_prev_canonical_asserts xs i rest = true ∧
    X1_from_linear_asserts xs n = true ∧ X1_next_canonical_asserts xs i = true ∧ X1_prev_canonical_asserts xs i = true ∧
    I_inc_asserts it = true ∧ I_dec_asserts it = true ∧ I_add_asserts it n = true ∧ I_sub_asserts it n = true ∧ I_lt_asserts it o = true ∧
    I_deref_asserts it = true ∧ I_at_asserts it n = true ∧ I1_inc_asserts it = true ∧ I1_dec_asserts it = true ∧ I1_add_asserts it n = true ∧
    I1_sub_asserts it n = true ∧ I1_lt_asserts it o = true ∧ I1_deref_asserts it = true ∧ I1_at_asserts it n = true ∧
    E_from_linear_asserts e n = true ∧ E_assign_asserts e f false = true ∧ E_inc_asserts e = true ∧ E_dec_asserts e = true ∧
    E_add_asserts e n = true ∧ E_sub_asserts e n = true ∧ E_deref_asserts e = true ∧ E_at_asserts e n = true ∧
    ER_size_asserts r = true ∧ ER_is_empty_asserts r = true ∧ ER_begin_aux_asserts r = true ∧ ER_end_aux_asserts r = true := by
  refine ⟨rfl, rfl, rfl, rfl, rfl, rfl, rfl, rfl, rfl, rfl, rfl, rfl, rfl, rfl, rfl, rfl, rfl, rfl, rfl, rfl, rfl, rfl, rfl, rfl, rfl, rfl, rfl, rfl, rfl, rfl, rfl, rfl⟩

end Multi.GenTieIter
