/-
  MultiProofs.BlasGemm — specification of the matrix product on logical contents and the generic certificate
  `GemmOK`: a purely arithmetic condition on (call, operand descriptors) that is SUFFICIENT for
  "the call is legal and its reference post-state is alpha·A·B + beta·C on the logical contents, nothing else changed".
  The per-branch theorems of C13 only have to establish `GemmOK` for the call of the branch — linear integer arithmetic.
-/
import MultiModel.Blas
import MultiProofs.BlasLemmas

namespace Multi.Blas
variable {R : Type} [CRing R]

/-- the ring has trivial conjugation (real element types) -/
def RealRing (R : Type) [CRing R] : Prop := ∀ r : R, CRing.conj r = r

/-- C := alpha·A·B + beta·C on the logical contents; every address outside the image of C keeps its value -/
structure GemmSpec (alpha beta : R) (a b c : Mat) (mem mem' : Mem R) : Prop where
  elems : ∀ i j : Int, 0 ≤ i → i < c.n0 → 0 ≤ j → j < c.n1 →
    c.load mem' i j = alpha * sumZ a.n1 (fun l => a.load mem i l * b.load mem l j) + beta * c.load mem i j
  frame : ∀ addr : Int, (¬ ∃ i j : Int, 0 ≤ i ∧ i < c.n0 ∧ 0 ≤ j ∧ j < c.n1 ∧ addr = c.addr i j) → mem' addr = mem addr

/-- a logical matrix: element (i, l) is `cjIf cj (mem (base + i*sr + l*sc))` -/
structure LMat where
  base : Int
  sr : Int
  sc : Int
  cj : Bool

def Mat.lm (m : Mat) : LMat := ⟨m.base, m.s0, m.s1, m.cj⟩
def Mat.lmT (m : Mat) : LMat := ⟨m.base, m.s1, m.s0, m.cj⟩

def LMat.elem (M : LMat) (mem : Mem R) (i l : Int) : R := cjIf M.cj (mem (M.base + i * M.sr + l * M.sc))

/-- op(P), for the flag `t` and the column-major operand (p, ld), IS the rows×cols logical matrix M:
    same addresses (a stride is irrelevant along a dimension of extent ≤ 1), same conjugation -/
def OpIs (R : Type) [CRing R] (t : Char) (p ld rows cols : Int) (M : LMat) : Prop :=
  (rows ≤ 0 ∨ cols ≤ 0 ∨ p = M.base) ∧
  ((t = 'N' ∧ (M.cj = false ∨ RealRing R) ∧ (rows ≤ 1 ∨ M.sr = 1) ∧ (cols ≤ 1 ∨ M.sc = ld)) ∨
   (t = 'T' ∧ (M.cj = false ∨ RealRing R) ∧ (cols ≤ 1 ∨ M.sc = 1) ∧ (rows ≤ 1 ∨ M.sr = ld)) ∨
   (t = 'C' ∧ (M.cj = true ∨ RealRing R) ∧ (cols ≤ 1 ∨ M.sc = 1) ∧ (rows ≤ 1 ∨ M.sr = ld)))

theorem cjIf_real (hr : RealRing R) (b : Bool) (x : R) : cjIf b x = x := by
  cases b <;> simp [cjIf, hr x]

theorem mul_of_le_one {i s rows : Int} (hi0 : 0 ≤ i) (hi : i < rows) (h : rows ≤ 1 ∨ s = 1) : i * s = i := by
  rcases h with h | h
  · have : i = 0 := by omega
    subst this; simp
  · subst h; simp

theorem mul_of_le_one' {i s ld rows : Int} (hi0 : 0 ≤ i) (hi : i < rows) (h : rows ≤ 1 ∨ s = ld) : i * s = i * ld := by
  rcases h with h | h
  · have : i = 0 := by omega
    subst this; simp
  · subst h; rfl

theorem opIs_elem {t : Char} {p ld rows cols : Int} {M : LMat} (h : OpIs R t p ld rows cols M) (mem : Mem R)
    {i l : Int} (hi0 : 0 ≤ i) (hi : i < rows) (hl0 : 0 ≤ l) (hl : l < cols) :
    opElem t p ld mem i l = M.elem mem i l := by
  obtain ⟨hb, hc⟩ := h
  have hbase : p = M.base := by rcases hb with h | h | h <;> first | omega | exact h
  subst hbase
  unfold opElem LMat.elem
  rcases hc with ⟨ht, hcj, h1, h2⟩ | ⟨ht, hcj, h1, h2⟩ | ⟨ht, hcj, h1, h2⟩
  · subst ht
    have e1 := mul_of_le_one hi0 hi h1
    have e2 := mul_of_le_one' hl0 hl h2
    rw [if_pos rfl, e1, e2]
    rcases hcj with hcj | hcj
    · rw [hcj]; rfl
    · rw [cjIf_real hcj]
  · subst ht
    have e1 := mul_of_le_one hl0 hl h1
    have e2 := mul_of_le_one' hi0 hi h2
    rw [if_neg (by decide), if_pos rfl, e1, e2]
    have : M.base + l + i * ld = M.base + i * ld + l := by omega
    rw [this]
    rcases hcj with hcj | hcj
    · rw [hcj]; rfl
    · rw [cjIf_real hcj]
  · subst ht
    have e1 := mul_of_le_one hl0 hl h1
    have e2 := mul_of_le_one' hi0 hi h2
    rw [if_neg (by decide), if_neg (by decide), e1, e2]
    have : M.base + l + i * ld = M.base + i * ld + l := by omega
    rw [this]
    rcases hcj with hcj | hcj
    · rw [hcj]; rfl
    · rw [cjIf_real hcj, hcj]

/-- the output block (x, ld) of a call IS the rows×cols logical (non-conjugated) matrix M -/
def OutIs (x ld rows cols : Int) (M : LMat) : Prop :=
  (rows ≤ 0 ∨ cols ≤ 0 ∨ x = M.base) ∧ M.cj = false ∧ (rows ≤ 1 ∨ M.sr = 1) ∧ (cols ≤ 1 ∨ M.sc = ld)

theorem outIs_addr {x ld rows cols : Int} {M : LMat} (h : OutIs x ld rows cols M)
    {i j : Int} (hi0 : 0 ≤ i) (hi : i < rows) (hj0 : 0 ≤ j) (hj : j < cols) :
    M.base + i * M.sr + j * M.sc = x + i + j * ld := by
  obtain ⟨hb, _, h1, h2⟩ := h
  have hbase : x = M.base := by rcases hb with h | h | h <;> first | omega | exact h
  rw [mul_of_le_one hi0 hi h1, mul_of_le_one' hj0 hj h2, hbase]

/-- THE CERTIFICATE.  Orientation 1: the call computes Cᵀ = Bᵀ·Aᵀ in column-major terms (C is read as the transpose of
    the m×n block); orientation 2: it computes C = A·B directly. -/
def GemmOK (g : GemmCall R) (alpha beta : R) (a b c : Mat) : Prop :=
  g.illegal = none ∧ g.alpha = alpha ∧ g.beta = beta ∧ g.k = a.n1 ∧
  ( (g.m = c.n1 ∧ g.n = c.n0 ∧ OutIs g.c g.ldc c.n1 c.n0 c.lmT ∧
       OpIs R g.ta g.a g.lda c.n1 a.n1 b.lmT ∧ OpIs R g.tb g.b g.ldb a.n1 c.n0 a.lmT)
  ∨ (g.m = c.n0 ∧ g.n = c.n1 ∧ OutIs g.c g.ldc c.n0 c.n1 c.lm ∧
       OpIs R g.ta g.a g.lda c.n0 a.n1 a.lm ∧ OpIs R g.tb g.b g.ldb a.n1 c.n1 b.lm) )

/-- the reference legality of an xGEMM call, as a conjunction -/
def GemmCall.Legal {R : Type} (g : GemmCall R) : Prop :=
  isTrans g.ta = true ∧ isTrans g.tb = true ∧ 0 ≤ g.m ∧ 0 ≤ g.n ∧ 0 ≤ g.k ∧
  (1 ≤ g.lda ∧ (if g.ta = 'N' then g.m else g.k) ≤ g.lda) ∧
  (1 ≤ g.ldb ∧ (if g.tb = 'N' then g.k else g.n) ≤ g.ldb) ∧
  (1 ≤ g.ldc ∧ g.m ≤ g.ldc)

omit [CRing R] in
theorem maxI_le {a b c : Int} : ¬ (c < maxI a b) ↔ (a ≤ c ∧ b ≤ c) := by
  unfold maxI; split <;> omega

omit [CRing R] in
theorem maxI_le_iff {a b c : Int} : maxI a b ≤ c ↔ (a ≤ c ∧ b ≤ c) := by
  unfold maxI; split <;> omega

omit [CRing R] in
theorem le_maxI_iff {a b c : Int} : c ≥ maxI a b ↔ (a ≤ c ∧ b ≤ c) := by
  unfold maxI; split <;> omega

omit [CRing R] in
theorem maxI_lt {a b c : Int} : c < maxI a b ↔ (c < a ∨ c < b) := by
  unfold maxI; split <;> omega

omit [CRing R] in
theorem illegal_none_iff (g : GemmCall R) : g.illegal = none ↔ g.Legal := by
  unfold GemmCall.illegal GemmCall.illegalL GemmCall.Legal
  simp only [Bool.false_eq_true, if_false]
  by_cases h1 : isTrans g.ta = true <;> simp only [h1, Bool.not_true, Bool.not_false, if_true, if_false, Bool.false_eq_true, true_and, false_and, reduceCtorEq]
  by_cases h2 : isTrans g.tb = true <;> simp only [h2, Bool.not_true, Bool.not_false, if_true, if_false, Bool.false_eq_true, true_and, false_and, reduceCtorEq]
  by_cases h3 : g.m < 0
  · simp only [h3, if_true, reduceCtorEq, false_iff]; omega
  by_cases h4 : g.n < 0
  · simp only [h3, h4, if_true, if_false, reduceCtorEq, false_iff]; omega
  by_cases h5 : g.k < 0
  · simp only [h3, h4, h5, if_true, if_false, reduceCtorEq, false_iff]; omega
  simp only [h3, h4, h5, if_false]
  by_cases h8 : g.lda < maxI 1 (if g.ta = 'N' then g.m else g.k)
  · simp only [h8, if_true, reduceCtorEq, false_iff]
    have := maxI_lt.mp h8
    omega
  by_cases h10 : g.ldb < maxI 1 (if g.tb = 'N' then g.k else g.n)
  · simp only [h8, h10, if_true, if_false, reduceCtorEq, false_iff]
    have := maxI_lt.mp h10
    omega
  by_cases h13 : g.ldc < maxI 1 g.m
  · simp only [h8, h10, h13, if_true, if_false, reduceCtorEq, false_iff]
    have := maxI_lt.mp h13
    omega
  simp only [h8, h10, h13, if_false, true_iff]
  have a8 := maxI_le.mp h8
  have a10 := maxI_le.mp h10
  have a13 := maxI_le.mp h13
  omega

omit [CRing R] in
theorem illegal_none_ldc {g : GemmCall R} (h : g.illegal = none) : g.m ≤ g.ldc ∧ 1 ≤ g.ldc ∧ 0 ≤ g.m ∧ 0 ≤ g.n ∧ 0 ≤ g.k := by
  have := (illegal_none_iff g).mp h
  unfold GemmCall.Legal at this
  omega

theorem gemm_exec_hit {g : GemmCall R} (h : g.illegal = none) (mem : Mem R) {addr i j : Int}
    (hc : cmIndex g.c g.ldc g.m g.n addr = some (i, j)) :
    g.exec mem addr = g.alpha * sumZ g.k (fun l => opElem g.ta g.a g.lda mem i l * opElem g.tb g.b g.ldb mem l j) + g.beta * mem addr := by
  unfold GemmCall.exec GemmCall.execL
  unfold GemmCall.illegal at h
  simp [h, hc]

theorem gemm_exec_miss {g : GemmCall R} (mem : Mem R) {addr : Int}
    (hc : cmIndex g.c g.ldc g.m g.n addr = none) : g.exec mem addr = mem addr := by
  unfold GemmCall.exec GemmCall.execL
  split
  · rfl
  · simp [hc]

theorem cjIf_false (x : R) : cjIf false x = x := rfl

/-- soundness of the certificate -/
theorem gemmOK_sound {g : GemmCall R} {alpha beta : R} {a b c : Mat} (hc : c.cj = false)
    (h : GemmOK g alpha beta a b c) (mem : Mem R) : GemmSpec alpha beta a b c mem (g.exec mem) := by
  obtain ⟨hleg, hal, hbe, hk, hor⟩ := h
  obtain ⟨hmld, hld1, hm0, hn0, hk0⟩ := illegal_none_ldc hleg
  rcases hor with ⟨hm, hn, hout, hP, hQ⟩ | ⟨hm, hn, hout, hP, hQ⟩
  · -- orientation 1: C(i,j) is X(j,i)
    constructor
    · intro i j hi0 hi hj0 hj
      have haddr : c.base + i * c.s0 + j * c.s1 = g.c + j + i * g.ldc := by
        have := outIs_addr hout (i := j) (j := i) hj0 hj hi0 hi
        simp only [Mat.lmT] at this
        omega
      unfold Mat.load
      rw [hc, cjIf_false, cjIf_false, haddr, gemm_exec_hit hleg mem (cmIndex_hit hj0 (by omega) hi0 (by omega) hmld)]
      rw [hal, hbe, hk]
      congr 1
      congr 1
      apply sumZ_congr
      intro l hl0 hl
      rw [opIs_elem hP mem hj0 hj hl0 hl, opIs_elem hQ mem hl0 hl hi0 hi, CRing.mul_comm]
      simp only [LMat.elem, Mat.lmT, Mat.load]
      have e1 : a.base + l * a.s1 + i * a.s0 = a.base + i * a.s0 + l * a.s1 := by omega
      have e2 : b.base + j * b.s1 + l * b.s0 = b.base + l * b.s0 + j * b.s1 := by omega
      rw [e1, e2]
    · intro addr hno
      cases hci : cmIndex g.c g.ldc g.m g.n addr with
      | none => exact gemm_exec_miss mem hci
      | some p =>
        obtain ⟨i', j'⟩ := p
        exfalso
        obtain ⟨hadr, hi0, hi, hj0, hj⟩ := cmIndex_some hci
        apply hno
        refine ⟨j', i', hj0, by omega, hi0, by omega, ?_⟩
        have := outIs_addr hout (i := i') (j := j') hi0 (by omega) hj0 (by omega)
        simp only [Mat.lmT] at this
        unfold Mat.addr
        omega
  · -- orientation 2: C(i,j) is X(i,j)
    constructor
    · intro i j hi0 hi hj0 hj
      have haddr : c.base + i * c.s0 + j * c.s1 = g.c + i + j * g.ldc := by
        have := outIs_addr hout (i := i) (j := j) hi0 hi hj0 hj
        simp only [Mat.lm] at this
        omega
      unfold Mat.load
      rw [hc, cjIf_false, cjIf_false, haddr, gemm_exec_hit hleg mem (cmIndex_hit hi0 (by omega) hj0 (by omega) hmld)]
      rw [hal, hbe, hk]
      congr 1
      congr 1
      apply sumZ_congr
      intro l hl0 hl
      rw [opIs_elem hP mem hi0 hi hl0 hl, opIs_elem hQ mem hl0 hl hj0 hj]
      simp only [LMat.elem, Mat.lm, Mat.load]
    · intro addr hno
      cases hci : cmIndex g.c g.ldc g.m g.n addr with
      | none => exact gemm_exec_miss mem hci
      | some p =>
        obtain ⟨i', j'⟩ := p
        exfalso
        obtain ⟨hadr, hi0, hi, hj0, hj⟩ := cmIndex_some hci
        apply hno
        refine ⟨i', j', hi0, by omega, hj0, by omega, ?_⟩
        have := outIs_addr hout (i := i') (j := j') hi0 (by omega) hj0 (by omega)
        simp only [Mat.lm] at this
        unfold Mat.addr
        omega

end Multi.Blas
