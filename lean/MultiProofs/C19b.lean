/-
  MultiProofs.C19b — `stenciled(e₀, e₁, …)`: the block keeps the original indices in every stencilled dimension.
-/
import MultiProofs.C19

namespace Multi
namespace C19

/-- each stencil extension is a non-empty sub-range of the corresponding dimension's extension -/
def stencilInDomain : List Ext → List Ext → Prop
  | [], _ => True
  | s :: ss, e :: es => (e.first ≤ s.first ∧ s.first < s.last ∧ s.last ≤ e.last) ∧ stencilInDomain ss es
  | _ :: _, [] => False

def stencilShape : List Ext → List Ext → List Ext
  | [], es => es
  | s :: ss, _ :: es => s :: stencilShape ss es
  | _ :: _, [] => []

theorem stencilInDomain_append {ss es : List Ext} (x : List Ext) (h : stencilInDomain ss es) : stencilInDomain ss (es ++ x) := by
  induction ss generalizing es with
  | nil => trivial
  | cons s ss ih =>
    cases es with
    | nil => exact absurd h (by simp [stencilInDomain])
    | cons e es => exact ⟨h.1, ih h.2⟩

theorem stencilShape_append {ss es : List Ext} (x : List Ext) (h : stencilInDomain ss es) :
    stencilShape ss (es ++ x) = stencilShape ss es ++ x := by
  induction ss generalizing es with
  | nil => rfl
  | cons s ss ih =>
    cases es with
    | nil => exact absurd h (by simp [stencilInDomain])
    | cons e es => simp only [List.cons_append, stencilShape]; rw [ih h.2]

theorem stenciled_cons (v : View) (s : Ext) (ss : List Ext) (hss : ss ≠ []) :
    v.stenciled (s :: ss) = ((v.blocked s.first s.last).rotated.stenciled ss).unrotated := by
  cases ss with
  | nil => exact absurd rfl hss
  | cons _ _ => rfl

/-- `stenciled(e₀, e₁, …)` (slice, re-index, rotate, recurse, unrotate): a view with exactly the given
    extensions in the stencilled dimensions whose element at an index tuple is the original's at the same tuple -/
theorem stenciled_refines (ss : List Ext) : ∀ v : View, v.lay.WF → stencilInDomain ss v.exts →
    Refines v (v.stenciled ss) (stencilShape ss v.exts) (fun idx => idx) := by
  induction ss with
  | nil => intro v hwf _; exact Refines.id v hwf
  | cons s ss ih =>
    intro v hwf hd
    cases hv : v.lay with
    | nil => simp [View.exts, hv, Layout.exts, stencilInDomain] at hd
    | cons d sub =>
      have hne : v.lay ≠ [] := by rw [hv]; simp
      have hex := View.exts_cons hv
      rw [hex] at hd ⊢
      obtain ⟨⟨h1, h2, h3⟩, hrest⟩ := hd
      have hb := blocked_refines v s.first s.last hwf ⟨hne, by rw [View.ext_cons hv]; exact h1, by omega, by rw [View.ext_cons hv]; exact h3⟩ h2
      rw [hex] at hb
      simp only [List.tail_cons] at hb
      have hs : (⟨s.first, s.last⟩ : Ext) = s := by cases s; rfl
      rw [hs] at hb
      by_cases hss : ss = []
      · subst hss
        simp only [View.stenciled, stencilShape]
        exact hb
      · rw [stenciled_cons v s ss hss]
        have r2 := rotated_refines (v.blocked s.first s.last) hb.1
        rw [hb.2.1] at r2
        simp only [Op.specShape] at r2
        have r3 := ih (v.blocked s.first s.last).rotated r2.1 (by rw [r2.2.1]; exact stencilInDomain_append _ hrest)
        rw [r2.2.1, stencilShape_append _ hrest] at r3
        have r4 := unrotated_refines ((v.blocked s.first s.last).rotated.stenciled ss) r3.1
        rw [r3.2.1] at r4
        have hshape4 : Op.unrotated.specShape (stencilShape ss (Layout.exts sub) ++ [s]) = s :: stencilShape ss (Layout.exts sub) := by
          simp [Op.specShape]
        rw [hshape4] at r4
        have all := (hb.trans r2).trans (r3.trans r4)
        simp only [stencilShape]
        apply all.congr rfl
        intro idx hidx
        obtain ⟨t, r, rfl, _, _, _⟩ := inBox_cons hidx
        simp [Op.specMap]

end C19
end Multi
