/-
  MultiProofs.Inj — distinct index tuples of a reachable view designate distinct elements of the root.
-/
import MultiProofs.C01

namespace Multi

/-- `m` is injective on the box `shape` -/
def InjOn (shape : List Ext) (m : List Int → List Int) : Prop :=
  ∀ a b, InBox shape a → InBox shape b → m a = m b → a = b

theorem InjOn.comp {s1 s2 : List Ext} {m1 m2 : List Int → List Int}
    (h1 : InjOn s1 m1) (h2 : InjOn s2 m2) (hmaps : ∀ a, InBox s2 a → InBox s1 (m2 a)) :
    InjOn s2 (fun idx => m1 (m2 idx)) := by
  intro a b ha hb h
  exact h2 a b ha hb (h1 _ _ (hmaps a ha) (hmaps b hb) h)

/-- uniqueness of quotient and remainder -/
theorem divmod_unique {p p' q q' k : Int} (hk : 0 < k) (hq : 0 ≤ q ∧ q < k) (hq' : 0 ≤ q' ∧ q' < k)
    (h : p * k + q = p' * k + q') : p = p' ∧ q = q' := by
  have h1 : (p - p') * k = q' - q := by rw [Int.sub_mul]; omega
  have hp : p = p' := by
    rcases Int.lt_trichotomy (p - p') 0 with hlt | heq | hgt
    · have : (p - p') * k ≤ (-1) * k := Int.mul_le_mul_of_nonneg_right (by omega) (Int.le_of_lt hk)
      omega
    · omega
    · have : 1 * k ≤ (p - p') * k := Int.mul_le_mul_of_nonneg_right (by omega) (Int.le_of_lt hk)
      omega
  subst hp
  exact ⟨rfl, by omega⟩

theorem rowMajor_range {es : List Ext} {idx : List Int} (h : InBox es idx) :
    0 ≤ rowMajor es idx ∧ rowMajor es idx < nElems es := by
  induction es generalizing idx with
  | nil => cases idx <;> simp_all [InBox, rowMajor, nElems]
  | cons e es ih =>
    obtain ⟨t, r, rfl, h1, h2, h3⟩ := inBox_cons h
    obtain ⟨i0, i1⟩ := ih h3
    simp only [rowMajor, nElems, Ext.size]
    have hN : 0 < nElems es := by omega
    have a0 : 0 ≤ (t - e.first) * nElems es := Int.mul_nonneg (by omega) (Int.le_of_lt hN)
    have a1 : (t - e.first) * nElems es ≤ (e.last - e.first - 1) * nElems es :=
      Int.mul_le_mul_of_nonneg_right (by omega) (Int.le_of_lt hN)
    have a2 : (e.last - e.first - 1) * nElems es = (e.last - e.first) * nElems es - nElems es := by
      rw [Int.sub_mul]; simp
    omega

/-- row-major ranks of distinct index tuples are distinct -/
theorem rowMajor_injective {es : List Ext} {a b : List Int} (ha : InBox es a) (hb : InBox es b)
    (h : rowMajor es a = rowMajor es b) : a = b := by
  induction es generalizing a b with
  | nil => cases a <;> cases b <;> simp_all [InBox]
  | cons e es ih =>
    obtain ⟨t, r, rfl, _, _, h3⟩ := inBox_cons ha
    obtain ⟨t', r', rfl, _, _, h3'⟩ := inBox_cons hb
    simp only [rowMajor] at h
    have r1 := rowMajor_range h3
    have r2 := rowMajor_range h3'
    have hN : 0 < nElems es := by omega
    obtain ⟨e1, e2⟩ := divmod_unique hN r1 r2 h
    have : t = t' := by omega
    rw [this, ih h3 h3' e2]


theorem callMap_inj (args : List Arg) (es : List Ext) (h : argsInDomain args es) : InjOn (callShape args es) (callMap args es) := by
  induction args generalizing es with
  | nil => intro a b _ _ hab; simpa [callMap] using hab
  | cons x as ih =>
    cases es with
    | nil => simp [argsInDomain] at h
    | cons e es =>
      simp only [argsInDomain] at h
      cases x with
      | idx i =>
        intro a b ha hb hab
        simp only [callShape] at ha hb
        simp only [callMap, List.cons.injEq, true_and] at hab
        exact ih es h.2 a b ha hb hab
      | rng p q =>
        intro a b ha hb hab
        simp only [callShape] at ha hb
        obtain ⟨t, r, rfl, _, _, h3⟩ := inBox_cons ha
        obtain ⟨t', r', rfl, _, _, h3'⟩ := inBox_cons hb
        simp only [callMap, List.cons.injEq] at hab
        have := ih es h.2 r r' h3 h3' hab.2
        rw [this]; congr 1; omega
      | all =>
        intro a b ha hb hab
        simp only [callShape] at ha hb
        obtain ⟨t, r, rfl, _, _, h3⟩ := inBox_cons ha
        obtain ⟨t', r', rfl, _, _, h3'⟩ := inBox_cons hb
        simp only [callMap, List.cons.injEq] at hab
        have := ih es h.2 r r' h3 h3' hab.2
        rw [this, hab.1]

/-- the documented index mapping of every operation is injective on the result's box -/
theorem op_inj (op : Op) (v : View) (hwf : v.lay.WF) (hd : op.InDomain v) :
    InjOn (op.specShape v.exts) (op.specMap v.exts) := by
  intro a b ha hb hab
  cases op with
  | index i => simp only [Op.specMap, List.cons.injEq, true_and] at hab; exact hab
  | call args => exact callMap_inj args v.exts hd a b ha hb hab
  | rotated =>
    cases hv : v.lay with
    | nil =>
      simp only [View.exts, hv, Layout.exts, List.map_nil, Op.specShape] at ha hb
      cases a <;> cases b <;> simp_all [InBox]
    | cons d sub =>
      rw [View.exts_cons hv] at ha hb hab
      simp only [Op.specShape] at ha hb
      obtain ⟨r, t, rfl⟩ := inBox_snoc_split ha
      obtain ⟨r', t', rfl⟩ := inBox_snoc_split hb
      simp [Op.specMap] at hab
      rw [hab.1, hab.2]
  | unrotated =>
    rcases List.eq_nil_or_concat v.lay with hv | ⟨l, d, hv⟩
    · simp only [View.exts, hv, Layout.exts, List.map_nil, Op.specShape, List.getLast?_nil] at ha hb
      cases a <;> cases b <;> simp_all [InBox]
    · rw [List.concat_eq_append] at hv
      have hex : v.exts = Layout.exts l ++ [d.ext] := by simp [View.exts, hv, Layout.exts]
      rw [hex] at ha hb hab
      simp only [Op.specShape, List.getLast?_append, List.getLast?_singleton, Option.or_some, List.dropLast_concat] at ha hb
      obtain ⟨t, r, rfl, _, _, h3⟩ := inBox_cons ha
      obtain ⟨t', r', rfl, _, _, h3'⟩ := inBox_cons hb
      simp only [Op.specMap] at hab
      have hl : r.length = r'.length := by rw [inBox_length h3, inBox_length h3']
      obtain ⟨e1, e2⟩ := List.append_inj hab hl
      simp at e2; rw [e1, e2]
  | reversed =>
    simp only [Op.specMap] at hab
    have := congrArg List.reverse hab
    simpa using this
  | sliced p q =>
    obtain ⟨hne, _⟩ := hd
    cases hv : v.lay with
    | nil => exact absurd hv hne
    | cons d sub =>
      rw [View.exts_cons hv] at ha hb hab
      simp only [Op.specShape] at ha hb
      obtain ⟨t, r, rfl, _, _, _⟩ := inBox_cons ha
      obtain ⟨t', r', rfl, _, _, _⟩ := inBox_cons hb
      simp only [Op.specMap, List.cons.injEq] at hab
      rw [hab.2]; congr 1; omega
  | range p q =>
    obtain ⟨hne, _⟩ := hd
    cases hv : v.lay with
    | nil => exact absurd hv hne
    | cons d sub =>
      rw [View.exts_cons hv] at ha hb hab
      simp only [Op.specShape] at ha hb
      obtain ⟨t, r, rfl, _, _, _⟩ := inBox_cons ha
      obtain ⟨t', r', rfl, _, _, _⟩ := inBox_cons hb
      simp only [Op.specMap, List.cons.injEq] at hab
      rw [hab.2]; congr 1; omega
  | strided s =>
    obtain ⟨hne, hs, _⟩ := hd
    cases hv : v.lay with
    | nil => exact absurd hv hne
    | cons d sub =>
      rw [View.exts_cons hv] at ha hb hab
      simp only [Op.specShape] at ha hb
      obtain ⟨t, r, rfl, _, _, _⟩ := inBox_cons ha
      obtain ⟨t', r', rfl, _, _, _⟩ := inBox_cons hb
      simp only [Op.specMap, List.cons.injEq] at hab
      rw [hab.2]; congr 1
      exact Int.eq_of_mul_eq_mul_left (by omega) hab.1
  | dropped n =>
    obtain ⟨hne, _⟩ := hd
    cases hv : v.lay with
    | nil => exact absurd hv hne
    | cons d sub =>
      rw [View.exts_cons hv] at ha hb hab
      simp only [Op.specShape] at ha hb
      obtain ⟨t, r, rfl, _, _, _⟩ := inBox_cons ha
      obtain ⟨t', r', rfl, _, _, _⟩ := inBox_cons hb
      simp only [Op.specMap, List.cons.injEq] at hab
      rw [hab.2]; congr 1; omega
  | taked n => simp only [Op.specMap] at hab; exact hab
  | transposed =>
    cases hv : v.lay with
    | nil => simp [Op.InDomain, hv] at hd
    | cons d0 l =>
      cases l with
      | nil => simp [Op.InDomain, hv] at hd
      | cons d1 sub =>
        have hex : v.exts = d0.ext :: d1.ext :: Layout.exts sub := by simp [View.exts, hv, Layout.exts]
        rw [hex] at ha hb hab
        simp only [Op.specShape] at ha hb
        obtain ⟨i, r, rfl, _, _, h3⟩ := inBox_cons ha
        obtain ⟨j, r2, rfl, _, _, _⟩ := inBox_cons h3
        obtain ⟨i', r', rfl, _, _, h3'⟩ := inBox_cons hb
        obtain ⟨j', r2', rfl, _, _, _⟩ := inBox_cons h3'
        simp only [Op.specMap, List.cons.injEq] at hab
        rw [hab.1, hab.2.1, hab.2.2]
  | diagonal =>
    cases hv : v.lay with
    | nil => simp [Op.InDomain, hv] at hd
    | cons d0 l =>
      cases l with
      | nil => simp [Op.InDomain, hv] at hd
      | cons d1 sub =>
        have hex : v.exts = d0.ext :: d1.ext :: Layout.exts sub := by simp [View.exts, hv, Layout.exts]
        rw [hex] at ha hb hab
        simp only [Op.specShape] at ha hb
        obtain ⟨t, r, rfl, _, _, _⟩ := inBox_cons ha
        obtain ⟨t', r', rfl, _, _, _⟩ := inBox_cons hb
        simp only [Op.specMap, List.cons.injEq] at hab
        rw [hab.1, hab.2.2]
  | partitioned n =>
    obtain ⟨hne, hn, ⟨k, hk⟩⟩ := hd
    cases hv : v.lay with
    | nil => exact absurd hv hne
    | cons d sub =>
      rw [View.ext_cons hv] at hk
      rw [View.exts_cons hv] at ha hb hab
      simp only [Op.specShape] at ha hb
      obtain ⟨p, r, rfl, hp1, hp2, h3⟩ := inBox_cons ha
      obtain ⟨q, r2, rfl, hq1, hq2, _⟩ := inBox_cons h3
      obtain ⟨p', r', rfl, _, _, h3'⟩ := inBox_cons hb
      obtain ⟨q', r2', rfl, hq1', hq2', _⟩ := inBox_cons h3'
      have hn0 : n ≠ 0 := by omega
      have hsz : d.ext.size ≠ 0 := by
        intro h0; simp [h0] at hp1 hp2; omega
      have hkd : d.ext.size.tdiv n = k := by rw [hk]; exact Int.mul_tdiv_cancel_left _ hn0
      have hkpos : 0 < k := by
        have : 0 ≤ d.ext.size := by
          rcases (by rw [hv] at hwf; exact hwf.head : d.WF).cases with h0 | ⟨f, N, hN, _, _, _, he, _⟩
          · rw [Dim.ext_of_nelems_zero h0]; simp [Ext.size]
          · rw [he]; simp [Ext.size]; omega
        rw [hk] at this hsz
        rcases Int.lt_trichotomy k 0 with h | h | h
        · have : n * k < 0 := Int.mul_neg_of_pos_of_neg hn h
          omega
        · subst h; simp at hsz
        · exact h
      rw [hkd] at hq1 hq2 hq1' hq2'
      have hnorm : Ext.norm ⟨d.ext.first, d.ext.first + k⟩ = ⟨d.ext.first, d.ext.first + k⟩ := norm_of_pos hkpos
      rw [hnorm] at hq1 hq2 hq1' hq2'
      simp only [Op.specMap, hkd, List.cons.injEq] at hab
      obtain ⟨e1, e2⟩ := hab
      simp at hq1 hq2 hq1' hq2'
      have e1' : p * k + (q - d.ext.first) = p' * k + (q' - d.ext.first) := by omega
      obtain ⟨u1, u2⟩ := divmod_unique hkpos ⟨by omega, by omega⟩ ⟨by omega, by omega⟩ e1'
      have : q = q' := by omega
      rw [u1, this, e2]
  | chunked c =>
    obtain ⟨hne, hc, _, _⟩ := hd
    cases hv : v.lay with
    | nil => exact absurd hv hne
    | cons d sub =>
      rw [View.exts_cons hv] at ha hb hab
      simp only [Op.specShape] at ha hb
      obtain ⟨p, r, rfl, _, _, h3⟩ := inBox_cons ha
      obtain ⟨q, r2, rfl, hq1, hq2, _⟩ := inBox_cons h3
      obtain ⟨p', r', rfl, _, _, h3'⟩ := inBox_cons hb
      obtain ⟨q', r2', rfl, hq1', hq2', _⟩ := inBox_cons h3'
      rw [norm_of_pos hc] at hq1 hq2 hq1' hq2'
      simp only [Op.specMap, List.cons.injEq] at hab
      obtain ⟨e1, e2⟩ := hab
      simp at hq1 hq2 hq1' hq2'
      have e1' : p * c + (q - d.ext.first) = p' * c + (q' - d.ext.first) := by omega
      obtain ⟨u1, u2⟩ := divmod_unique hc ⟨by omega, by omega⟩ ⟨by omega, by omega⟩ e1'
      have : q = q' := by omega
      rw [u1, this, e2]
  | flatted =>
    cases hv : v.lay with
    | nil => simp [Op.InDomain, hv] at hd
    | cons d0 l =>
      cases l with
      | nil => simp [Op.InDomain, hv] at hd
      | cons d1 sub =>
        have hex : v.exts = d0.ext :: d1.ext :: Layout.exts sub := by simp [View.exts, hv, Layout.exts]
        rw [hex] at ha hb hab
        simp only [Op.specShape] at ha hb
        obtain ⟨t, r, rfl, _, _, _⟩ := inBox_cons ha
        obtain ⟨t', r', rfl, _, _, _⟩ := inBox_cons hb
        simp only [Op.specMap] at hab
        by_cases h1 : d0.ext.size = 1
        · simp only [h1, if_true, List.cons.injEq, true_and] at hab
          rw [hab.1, hab.2]
        · simp only [h1, if_false, List.cons.injEq] at hab
          obtain ⟨e1, e2, e3⟩ := hab
          have ht := Int.mul_tdiv_add_tmod t d1.ext.size
          have ht' := Int.mul_tdiv_add_tmod t' d1.ext.size
          rw [e1, e2] at ht
          rw [e3]; congr 1; omega

/-- **distinct index tuples of a reachable view designate distinct index tuples of the root** -/
theorem reach_injOn (root v : View) (den : Den) (hroot : root.lay.WF) (h : Reach root v den) :
    InjOn den.shape den.map := by
  induction h with
  | root => intro a b _ _ hab; exact hab
  | @step w dn op hreach hd ih =>
    have r := C01.reachable_denotes root w dn hroot hreach
    have hop := op_inj op w r.1 hd
    rw [r.2.1] at hop
    have href := C01.op_refines op w r.1 hd
    rw [r.2.1] at href
    apply InjOn.comp ih hop
    intro a ha
    have := (href.2.2 a ha).2
    rw [r.2.1] at this; exact this

theorem inBox_of_collapse {es : List Ext} (idx : List Int) (h : InBox (collapse es) idx) : InBox es idx := by
  induction es generalizing idx with
  | nil => exact h
  | cons e es ih =>
    simp only [collapse] at h
    obtain ⟨t, r, rfl, h1, h2, h3⟩ := inBox_cons h
    by_cases hz : e.size * nElems es = 0
    · simp [hz] at h1 h2; omega
    · simp only [hz, if_false] at h1 h2
      exact ⟨⟨h1, h2⟩, ih r h3⟩

/-- **C01 corollary**: in a view reachable from an array, distinct valid index tuples designate distinct
    elements (no broadcasting in the operation set), so writes through the view never alias -/
theorem reachable_injective (base : Int) (es : List Ext) (hes : ∀ e ∈ es, e.first ≤ e.last)
    (v : View) (den : Den) (h : Reach ⟨base, Layout.ofExts es⟩ v den) (a b : List Int)
    (ha : InBox den.shape a) (hb : InBox den.shape b) (hab : v.addr a = v.addr b) : a = b := by
  obtain ⟨rwf, rex, _, raddr⟩ := C01.root_denotes es hes
  have r := C01.reachable_denotes ⟨base, Layout.ofExts es⟩ v den rwf h
  obtain ⟨ea, ba⟩ := r.2.2 a ha
  obtain ⟨eb, bb⟩ := r.2.2 b hb
  have ba' : InBox (collapse es) (den.map a) := by rw [← rex]; exact ba
  have bb' : InBox (collapse es) (den.map b) := by rw [← rex]; exact bb
  rw [ea, eb, addr_eq, addr_eq] at hab
  simp only at hab
  rw [(raddr _ ba').1, (raddr _ bb').1] at hab
  have hrm : rowMajor es (den.map a) = rowMajor es (den.map b) := by omega
  have hm := rowMajor_injective (inBox_of_collapse _ ba') (inBox_of_collapse _ bb') hrm
  exact reach_injOn _ v den rwf h a b ha hb hm

end Multi
