/-
  MultiProofs.BlasGemv — specification of y := alpha·M·x + beta·y on logical contents, and the certificate `GemvOK`
  (sufficient for: the xGEMV call is legal and its reference post-state is the specification).

  The reference xGEMV returns WITHOUT scaling y when m = 0 or n = 0 (dgemv.f "Quick return if possible"), so a call
  with an empty inner dimension does not compute beta·y: the certificate requires a non-empty inner dimension.
-/
import MultiModel.Blas
import MultiProofs.BlasLemmas
import MultiProofs.BlasGemm

namespace Multi.Blas
variable {R : Type} [CRing R] [DecidableEq R]

structure GemvSpec (alpha beta : R) (m : Mat) (x y : Vec) (mem mem' : Mem R) : Prop where
  elems : ∀ i : Int, 0 ≤ i → i < y.n →
    y.load mem' i = alpha * sumZ m.n1 (fun l => m.load mem i l * x.load mem l) + beta * y.load mem i
  frame : ∀ addr : Int, (¬ ∃ i : Int, 0 ≤ i ∧ i < y.n ∧ addr = y.addr i) → mem' addr = mem addr

omit [CRing R] [DecidableEq R] in
def GemvCall.Legal (g : GemvCall R) : Prop :=
  isTrans g.t = true ∧ 0 ≤ g.m ∧ 0 ≤ g.n ∧ 1 ≤ g.lda ∧ g.m ≤ g.lda ∧ g.incx ≠ 0 ∧ g.incy ≠ 0

omit [CRing R] [DecidableEq R] in
theorem gemv_illegal_none_iff (g : GemvCall R) : g.illegal = none ↔ g.Legal := by
  unfold GemvCall.illegal GemvCall.Legal
  by_cases h1 : isTrans g.t = true <;> simp only [h1, Bool.not_true, Bool.not_false, if_true, if_false, Bool.false_eq_true, true_and, false_and, reduceCtorEq]
  by_cases h2 : g.m < 0
  · simp only [h2, if_true, reduceCtorEq, false_iff]; omega
  by_cases h3 : g.n < 0
  · simp only [h2, h3, if_true, if_false, reduceCtorEq, false_iff]; omega
  simp only [h2, h3, if_false]
  by_cases h6 : g.lda < maxI 1 g.m
  · simp only [h6, if_true, reduceCtorEq, false_iff]
    have := maxI_lt.mp h6
    omega
  by_cases h8 : g.incx = 0
  · simp only [h6, h8, if_true, if_false, reduceCtorEq, false_iff]; omega
  by_cases h11 : g.incy = 0
  · simp only [h6, h8, h11, if_true, if_false, reduceCtorEq, false_iff]; omega
  simp only [h6, h8, h11, if_false, true_iff]
  have := maxI_le.mp h6
  omega

/-- THE CERTIFICATE for xGEMV: M is the logical matrix (rows m.n0, columns m.n1) -/
def GemvOK (g : GemvCall R) (alpha beta : R) (m : Mat) (x y : Vec) : Prop :=
  g.illegal = none ∧ g.alpha = alpha ∧ g.beta = beta ∧ x.cj = false ∧ y.cj = false ∧
  0 < g.incx ∧ 0 < g.incy ∧ 1 ≤ m.n1 ∧ y.n = m.n0 ∧ x.n = m.n1 ∧
  (m.n1 ≤ 0 ∨ g.x = x.base) ∧ (m.n1 ≤ 1 ∨ g.incx = x.inc) ∧
  (m.n0 ≤ 0 ∨ g.y = y.base) ∧ (m.n0 ≤ 1 ∨ g.incy = y.inc) ∧
  ( (g.t = 'N' ∧ g.m = m.n0 ∧ g.n = m.n1) ∨ (g.t ≠ 'N' ∧ g.n = m.n0 ∧ g.m = m.n1) ) ∧
  OpIs R g.t g.a g.lda m.n0 m.n1 m.lm

theorem gemv_exec_hit {g : GemvCall R} (h : g.illegal = none) (hq : ¬ (g.m = 0 ∨ g.n = 0 ∨ (g.alpha = 0 ∧ g.beta = 1))) (mem : Mem R) {addr i : Int}
    (hv : vecIndex g.y g.incy (if g.t = 'N' then g.m else g.n) addr = some i) :
    g.exec mem addr = g.alpha * sumZ (if g.t = 'N' then g.n else g.m) (fun l => opElem g.t g.a g.lda mem i l * mem (g.x + l * g.incx)) + g.beta * mem addr := by
  unfold GemvCall.exec
  simp only [h, Option.isSome_none, Bool.false_eq_true, if_false, hq, hv]

theorem gemv_exec_miss {g : GemvCall R} (mem : Mem R) {addr : Int}
    (hv : vecIndex g.y g.incy (if g.t = 'N' then g.m else g.n) addr = none) : g.exec mem addr = mem addr := by
  unfold GemvCall.exec
  split
  · rfl
  · split
    · rfl
    · simp only [hv]

theorem gemvOK_sound {g : GemvCall R} {alpha beta : R} {m : Mat} {x y : Vec}
    (h : GemvOK g alpha beta m x y) (mem : Mem R) : GemvSpec alpha beta m x y mem (g.exec mem) := by
  obtain ⟨hleg, hal, hbe, hxc, hyc, hix, hiy, hk1, hyn, hxn, hxb, hxi, hyb, hyi, hor, hop⟩ := h
  have hL := (gemv_illegal_none_iff g).mp hleg
  -- sizes of the call
  have hleny : (if g.t = 'N' then g.m else g.n) = m.n0 := by
    rcases hor with ⟨ht, h1, _⟩ | ⟨ht, h1, _⟩
    · rw [if_pos ht]; exact h1
    · rw [if_neg ht]; exact h1
  have hlenx : (if g.t = 'N' then g.n else g.m) = m.n1 := by
    rcases hor with ⟨ht, _, h2⟩ | ⟨ht, _, h2⟩
    · rw [if_pos ht]; exact h2
    · rw [if_neg ht]; exact h2
  constructor
  · intro i hi0 hi
    have hm0 : 1 ≤ m.n0 := by omega
    have hybase : g.y = y.base := by rcases hyb with h | h; omega; exact h
    have hyaddr : y.base + i * y.inc = g.y + i * g.incy := by
      rw [hybase]
      rcases hyi with h | h
      · have : i = 0 := by omega
        subst this; simp
      · rw [h]
    unfold Vec.load
    rw [hyc, cjIf_false, cjIf_false, hyaddr]
    by_cases hq : (g.m = 0 ∨ g.n = 0 ∨ (g.alpha = 0 ∧ g.beta = 1))
    · -- quick return: only alpha = 0, beta = 1 is possible here
      have hmn : ¬ (g.m = 0 ∨ g.n = 0) := by
        rcases hor with ⟨_, h1, h2⟩ | ⟨_, h1, h2⟩ <;> omega
      have hab : g.alpha = 0 ∧ g.beta = 1 := by
        rcases hq with h | h | h
        · exact absurd (Or.inl h) hmn
        · exact absurd (Or.inr h) hmn
        · exact h
      have : g.exec mem (g.y + i * g.incy) = mem (g.y + i * g.incy) := by
        unfold GemvCall.exec
        simp only [hleg, Option.isSome_none, Bool.false_eq_true, if_false, hq, if_true]
      rw [this, ← hal, ← hbe, hab.1, hab.2, CRing.zero_mul, CRing.zero_add, CRing.one_mul]
    · rw [gemv_exec_hit hleg hq mem (i := i) (by rw [hleny]; exact vecIndex_hit hi0 (by omega) hiy)]
      rw [hal, hbe, hlenx]
      congr 1
      congr 1
      apply sumZ_congr
      intro l hl0 hl
      rw [opIs_elem hop mem hi0 (by omega) hl0 hl]
      have hxbase : g.x = x.base := by rcases hxb with h | h; omega; exact h
      have hxaddr : g.x + l * g.incx = x.base + l * x.inc := by
        rw [hxbase]
        rcases hxi with h | h
        · have : l = 0 := by omega
          subst this; simp
        · rw [h]
      simp only [LMat.elem, Mat.lm, Mat.load, Vec.load]
      rw [hxc, cjIf_false, hxaddr]
  · intro addr hno
    cases hv : vecIndex g.y g.incy (if g.t = 'N' then g.m else g.n) addr with
    | none => exact gemv_exec_miss mem hv
    | some i =>
      exfalso
      obtain ⟨hadr, hi0, hi⟩ := vecIndex_some hv
      rw [hleny] at hi
      apply hno
      refine ⟨i, hi0, by omega, ?_⟩
      have hybase : g.y = y.base := by rcases hyb with h | h; omega; exact h
      unfold Vec.addr
      rw [hadr, hybase]
      rcases hyi with h | h
      · have : i = 0 := by omega
        subst this; simp
      · rw [h]

end Multi.Blas
