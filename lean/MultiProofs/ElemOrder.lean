/-
  MultiProofs.ElemOrder — the order in which `elements()` visits a view.

  Main result `elemit_kth`: for every well-formed view, stepping the model's elements iterator with `++` from
  `begin()` visits, one after the other, exactly the addresses of the index tuples of `boxIndices v.exts`
  (canonical order, last index fastest), and `end() - begin()` is their number.  (Also used by C02.)
-/
import MultiProofs.StoreSpec
import MultiProofs.Lemmas
import MultiProofs.C02a

namespace Multi
open Layout

/-- index tuples of a box are exactly the members of `boxIndices` -/
theorem mem_boxIndices (es : List Ext) (idx : List Int) : idx ∈ boxIndices es ↔ InBox es idx := by
  induction es generalizing idx with
  | nil =>
    cases idx with
    | nil => simp [boxIndices, InBox]
    | cons i is => simp [boxIndices, InBox]
  | cons e es ih =>
    cases idx with
    | nil => simp [boxIndices, InBox]
    | cons i is =>
      simp only [boxIndices, InBox, List.mem_flatMap, List.mem_map, List.mem_range]
      constructor
      · rintro ⟨k, hk, r, hr, heq⟩
        injection heq with h1 h2
        subst h2
        refine ⟨⟨?_, ?_⟩, (ih r).mp hr⟩
        · simp at h1; omega
        · simp [Ext.size] at hk h1; omega
      · rintro ⟨⟨h1, h2⟩, h3⟩
        refine ⟨(i - e.first).toNat, ?_, is, (ih is).mpr h3, ?_⟩
        · simp [Ext.size]; omega
        · congr 1; simp; omega


theorem boxIndices_nodup (es : List Ext) : (boxIndices es).Nodup := by
  induction es with
  | nil => simp [boxIndices]
  | cons e es ih =>
    simp only [boxIndices, List.Nodup]
    rw [List.pairwise_flatMap]
    constructor
    · intro k _
      rw [List.pairwise_map]
      exact List.Pairwise.imp (fun h hc => h (by injection hc)) ih
    · refine List.Pairwise.imp ?_ (List.nodup_range (n := e.size.toNat))
      intro a b hab x hx y hy hxy
      simp only [List.mem_map] at hx hy
      obtain ⟨r, _, rfl⟩ := hx
      obtain ⟨r', _, rfl⟩ := hy
      injection hxy with h1 h2
      apply hab
      simp at h1; omega


/-- `[a, a+1, …, a+n-1]` -/
def seqFrom : Int → Nat → List Int
  | _, 0 => []
  | a, n + 1 => a :: seqFrom (a + 1) n

theorem length_seqFrom (a : Int) (n : Nat) : (seqFrom a n).length = n := by
  induction n generalizing a with
  | zero => rfl
  | succ n ih => simp [seqFrom, ih]

theorem seqFrom_append (a : Int) (m n : Nat) : seqFrom a (m + n) = seqFrom a m ++ seqFrom (a + m) n := by
  induction m generalizing a with
  | zero => simp [seqFrom]
  | succ m ih =>
    have : m + 1 + n = (m + n) + 1 := by omega
    rw [this]
    simp only [seqFrom, List.cons_append, ih]
    have : a + 1 + (m : Int) = a + ((m + 1 : Nat) : Int) := by omega
    rw [this]

theorem seqFrom_map_add (c a : Int) (n : Nat) : (seqFrom a n).map (fun x => c + x) = seqFrom (c + a) n := by
  induction n generalizing a with
  | zero => rfl
  | succ n ih => simp only [seqFrom, List.map_cons, ih, Int.add_assoc]

theorem mem_seqFrom (x a : Int) (n : Nat) : x ∈ seqFrom a n ↔ a ≤ x ∧ x < a + n := by
  induction n generalizing a with
  | zero => simp [seqFrom]
  | succ n ih => simp only [seqFrom, List.mem_cons, ih]; omega

theorem nodup_seqFrom (a : Int) (n : Nat) : (seqFrom a n).Nodup := by
  induction n generalizing a with
  | zero => simp [seqFrom]
  | succ n ih =>
    simp only [seqFrom, List.nodup_cons]
    refine ⟨?_, ih _⟩
    rw [mem_seqFrom]; omega

theorem rowMajor_bounds {es : List Ext} {ns : List Int} (h : InBox es ns) :
    0 ≤ rowMajor es ns ∧ rowMajor es ns < nElems es := by
  induction es generalizing ns with
  | nil =>
    cases ns with
    | nil => simp [rowMajor, nElems]
    | cons _ _ => simp [InBox] at h
  | cons e es ih =>
    cases ns with
    | nil => simp [InBox] at h
    | cons i is =>
      obtain ⟨⟨h1, h2⟩, h3⟩ := h
      obtain ⟨a1, a2⟩ := ih h3
      simp only [rowMajor, nElems]
      have hn0 : 0 ≤ nElems es := by omega
      have hi0 : 0 ≤ i - e.first := by omega
      have hi1 : i - e.first ≤ e.size - 1 := by simp [Ext.size]; omega
      have m0 : 0 ≤ (i - e.first) * nElems es := Int.mul_nonneg hi0 hn0
      have m1 : (i - e.first) * nElems es ≤ (e.size - 1) * nElems es := Int.mul_le_mul_of_nonneg_right hi1 hn0
      have m2 : (e.size - 1) * nElems es = e.size * nElems es - nElems es := by rw [Int.sub_mul]; simp
      omega

theorem rowMajor_inj {es : List Ext} {a b : List Int} (ha : InBox es a) (hb : InBox es b)
    (h : rowMajor es a = rowMajor es b) : a = b := by
  induction es generalizing a b with
  | nil =>
    cases a <;> cases b <;> simp_all [InBox]
  | cons e es ih =>
    cases a with
    | nil => simp [InBox] at ha
    | cons i is =>
      cases b with
      | nil => simp [InBox] at hb
      | cons j js =>
        obtain ⟨_, h3⟩ := ha
        obtain ⟨_, h3'⟩ := hb
        obtain ⟨a1, a2⟩ := rowMajor_bounds h3
        obtain ⟨b1, b2⟩ := rowMajor_bounds h3'
        simp only [rowMajor] at h
        have hij : i = j := by
          rcases Int.lt_trichotomy i j with hlt | heq | hgt
          · have : 1 ≤ j - i := by omega
            have := Int.mul_le_mul_of_nonneg_right this (show 0 ≤ nElems es by omega)
            have e1 : (j - i) * nElems es = (j - e.first) * nElems es - (i - e.first) * nElems es := by
              rw [← Int.sub_mul]; congr 1; omega
            omega
          · exact heq
          · have : 1 ≤ i - j := by omega
            have := Int.mul_le_mul_of_nonneg_right this (show 0 ≤ nElems es by omega)
            have e1 : (i - j) * nElems es = (i - e.first) * nElems es - (j - e.first) * nElems es := by
              rw [← Int.sub_mul]; congr 1; omega
            omega
        subst hij
        have : rowMajor es is = rowMajor es js := by omega
        rw [ih h3 h3' this]

theorem nextCanonical_cons (e : Ext) (es : List Ext) (i : Int) (is : List Int) :
    Exts.nextCanonical (e :: es) (i :: is) =
      (if (if (Exts.nextCanonical es is).2 then i + 1 else i) == e.last
        then (e.first :: (Exts.nextCanonical es is).1, true)
        else ((if (Exts.nextCanonical es is).2 then i + 1 else i) :: (Exts.nextCanonical es is).1, false)) := by
  cases es with
  | nil =>
    simp only [Exts.nextCanonical, Ext.back, if_true]
    by_cases h : i = e.last - 1
    · have : i + 1 = e.last := by omega
      simp [h]
    · have : ¬ (i + 1 = e.last) := by omega
      simp [h, this]
  | cons e' es' =>
    simp only [Exts.nextCanonical]


theorem rowMajor_firsts (es : List Ext) : rowMajor es (es.map Ext.first) = 0 := by
  induction es with
  | nil => simp [rowMajor]
  | cons e es ih => simp [rowMajor, ih]

theorem inBox_firsts {es : List Ext} {ns : List Int} (h : InBox es ns) : InBox es (es.map Ext.first) := by
  induction es generalizing ns with
  | nil => simp [InBox]
  | cons e es ih =>
    cases ns with
    | nil => simp [InBox] at h
    | cons i is =>
      obtain ⟨⟨h1, h2⟩, h3⟩ := h
      exact ⟨⟨Int.le_refl _, by omega⟩, ih h3⟩

theorem nextCanonical_step {xs : List Ext} {ns : List Int} (h : InBox xs ns) :
    (rowMajor xs ns + 1 < nElems xs ∧ (Exts.nextCanonical xs ns).2 = false ∧
        InBox xs (Exts.nextCanonical xs ns).1 ∧
        rowMajor xs (Exts.nextCanonical xs ns).1 = rowMajor xs ns + 1) ∨
    (rowMajor xs ns + 1 = nElems xs ∧ (Exts.nextCanonical xs ns).2 = true ∧
        (Exts.nextCanonical xs ns).1 = xs.map Ext.first) := by
  induction xs generalizing ns with
  | nil =>
    cases ns with
    | nil => right; simp [rowMajor, nElems, Exts.nextCanonical]
    | cons _ _ => simp [InBox] at h
  | cons e es ih =>
    cases ns with
    | nil => simp [InBox] at h
    | cons i is =>
      obtain ⟨⟨h1, h2⟩, h3⟩ := h
      obtain ⟨b1, b2⟩ := rowMajor_bounds h3
      have hM : 0 ≤ nElems es := by omega
      have hi1 : i - e.first + 1 ≤ e.size := by simp [Ext.size]; omega
      have m1 := Int.mul_le_mul_of_nonneg_right hi1 hM
      have m2 : (i - e.first + 1) * nElems es = (i - e.first) * nElems es + nElems es := by
        rw [Int.add_mul]; simp
      rw [nextCanonical_cons]
      simp only [rowMajor, nElems]
      rcases ih h3 with ⟨c1, c2, c3, c4⟩ | ⟨c1, c2, c3⟩
      · left
        have hne : ¬ (i = e.last) := by omega
        simp only [c2, Bool.false_eq_true, if_false, beq_iff_eq, hne]
        refine ⟨by omega, trivial, ⟨⟨h1, h2⟩, c3⟩, ?_⟩
        simp only [rowMajor, c4]; omega
      · simp only [c2, if_true, c3, beq_iff_eq]
        by_cases hl : i + 1 = e.last
        · right
          simp only [hl, if_true, List.map_cons, and_self, and_true]
          have : e.size = i - e.first + 1 := by simp [Ext.size]; omega
          rw [this]; omega
        · left
          simp only [hl, if_false]
          have hi2 : i + 1 - e.first + 1 ≤ e.size := by simp [Ext.size]; omega
          have m3 := Int.mul_le_mul_of_nonneg_right hi2 hM
          have m4 : (i + 1 - e.first + 1) * nElems es = (i + 1 - e.first) * nElems es + nElems es := by
            rw [Int.add_mul]; simp
          have m5 : (i + 1 - e.first) * nElems es = (i - e.first) * nElems es + nElems es := by
            rw [← m2]; congr 1; omega
          refine ⟨by omega, trivial, ⟨⟨by omega, by omega⟩, inBox_firsts h3⟩, ?_⟩
          simp only [rowMajor, rowMajor_firsts]; omega


theorem nElems_nonneg (es : List Ext) (h : ∀ e ∈ es, e.first ≤ e.last) : 0 ≤ nElems es := by
  induction es with
  | nil => simp [nElems]
  | cons e es ih =>
    simp only [nElems]
    apply Int.mul_nonneg
    · have := h e (by simp); simp [Ext.size]; omega
    · exact ih (fun x hx => h x (List.mem_cons_of_mem _ hx))

/-- the successive states `ns, next ns, next (next ns), …` of `next_canonical` -/
def tuples (xs : List Ext) : Nat → List Int → List (List Int)
  | 0, _ => []
  | n + 1, ns => ns :: tuples xs n (Exts.nextCanonical xs ns).1

theorem tuples_rowMajor (xs : List Ext) (n : Nat) (ns : List Int) (h : InBox xs ns)
    (hn : rowMajor xs ns + n ≤ nElems xs) :
    (∀ t ∈ tuples xs n ns, InBox xs t) ∧ (tuples xs n ns).map (rowMajor xs) = seqFrom (rowMajor xs ns) n := by
  induction n generalizing ns with
  | zero => simp [tuples, seqFrom]
  | succ n ih =>
    cases n with
    | zero => simp [tuples, seqFrom, h]
    | succ n =>
      rcases nextCanonical_step h with ⟨c1, _, c3, c4⟩ | ⟨c1, _, _⟩
      · have hn' : rowMajor xs (Exts.nextCanonical xs ns).1 + ((n + 1 : Nat) : Int) ≤ nElems xs := by
          rw [c4]; omega
        obtain ⟨i1, i2⟩ := ih _ c3 hn'
        rw [tuples]
        constructor
        · intro t ht
          rcases List.mem_cons.mp ht with rfl | ht
          · exact h
          · exact i1 t ht
        · rw [List.map_cons, i2, c4]; rfl
      · omega

/-- two lists of tuples of the box with the same row-major positions are equal -/
theorem eq_of_map_rowMajor_eq (es : List Ext) (l1 l2 : List (List Int)) (h1 : ∀ t ∈ l1, InBox es t)
    (h2 : ∀ t ∈ l2, InBox es t) (h : l1.map (rowMajor es) = l2.map (rowMajor es)) : l1 = l2 := by
  induction l1 generalizing l2 with
  | nil => cases l2 with
    | nil => rfl
    | cons _ _ => simp at h
  | cons a l1 ih =>
    cases l2 with
    | nil => simp at h
    | cons b l2 =>
      simp only [List.map_cons, List.cons.injEq] at h
      have hab := rowMajor_inj (h1 a (by simp)) (h2 b (by simp)) h.1
      rw [hab, ih l2 (fun t ht => h1 t (List.mem_cons_of_mem _ ht)) (fun t ht => h2 t (List.mem_cons_of_mem _ ht)) h.2]

theorem flatMap_range_seqFrom (M : Nat) (n : Nat) :
    (List.range n).flatMap (fun (k : Nat) => seqFrom (Int.ofNat k * Int.ofNat M) M) = seqFrom 0 (n * M) := by
  induction n with
  | zero => simp [seqFrom]
  | succ n ih =>
    rw [List.range_succ, List.flatMap_append, ih, Nat.succ_mul, seqFrom_append]
    simp

/-- the canonical order of `boxIndices` is the row-major order -/
theorem boxIndices_rowMajor (es : List Ext) (h : ∀ e ∈ es, e.first ≤ e.last) :
    (boxIndices es).map (rowMajor es) = seqFrom 0 (nElems es).toNat := by
  induction es with
  | nil => simp [boxIndices, rowMajor, nElems, seqFrom]
  | cons e es ih =>
    have hes : ∀ x ∈ es, x.first ≤ x.last := fun x hx => h x (List.mem_cons_of_mem _ hx)
    have ih' := ih hes
    have hM : 0 ≤ nElems es := nElems_nonneg es hes
    have hs : 0 ≤ e.size := by have := h e (by simp); simp [Ext.size]; omega
    simp only [boxIndices, List.map_flatMap, List.map_map, nElems]
    have : ∀ (k : Nat), List.map (rowMajor (e :: es) ∘ fun r => (e.first + Int.ofNat k) :: r) (boxIndices es)
        = seqFrom (Int.ofNat k * Int.ofNat (nElems es).toNat) (nElems es).toNat := by
      intro k
      have : (rowMajor (e :: es) ∘ fun r => (e.first + Int.ofNat k) :: r)
          = (fun x => Int.ofNat k * nElems es + x) ∘ rowMajor es := by
        funext r; simp only [Function.comp, rowMajor]; congr 2; omega
      rw [this, ← List.map_map, ih', seqFrom_map_add]
      simp only [Int.ofNat_eq_natCast, Int.toNat_of_nonneg hM, Int.add_zero]
    simp only [this]
    rw [flatMap_range_seqFrom]
    rw [Int.toNat_mul hs hM]


theorem flatMap_congr' {α β : Type} (l : List α) (f g : α → List β) (h : ∀ a ∈ l, f a = g a) :
    l.flatMap f = l.flatMap g := by
  induction l with
  | nil => rfl
  | cons a l ih =>
    simp only [List.flatMap_cons]
    rw [h a (by simp), ih (fun x hx => h x (List.mem_cons_of_mem _ hx))]


/-- the zero-based copy of a level that `reindex(0)` produces -/
def Dim.zeroed (d : Dim) : Dim := { d with offset := 0 }
/-- the zero-based copy of an extension -/
def Ext.zeroBase (e : Ext) : Ext := ⟨0, e.last - e.first⟩


theorem zeroBased_eq_map_zeroed (l : Layout) : Layout.zeroBased l = l.map Dim.zeroed := rfl

theorem Dim.zeroed_size (d : Dim) : d.zeroed.size = d.size := rfl

theorem Dim.WF.zeroed_ext {d : Dim} (h : d.WF) : d.zeroed.ext = d.ext.zeroBase := by
  rcases h.cases with h0 | ⟨f, n, hn, hs, hf, hnn, he, hsz⟩
  · rw [Dim.ext_of_nelems_zero h0, Dim.ext_of_nelems_zero (d := d.zeroed) h0]; rfl
  · have hne : d.nelems ≠ 0 := by rw [hnn]; exact Int.ne_of_gt (Int.mul_pos hn hs)
    have hs0 : d.stride ≠ 0 := by omega
    rw [he]
    simp only [Dim.ext, Dim.zeroed, hne, if_false, Ext.zeroBase, Int.zero_tdiv, Int.zero_add]
    rw [hnn, Int.mul_tdiv_cancel _ hs0]
    congr 1; omega

theorem numElements_zeroed (l : Layout) : Layout.numElements (l.map Dim.zeroed) = Layout.numElements l := by
  induction l with
  | nil => rfl
  | cons d l ih => simp only [List.map_cons, Layout.numElements, ih, Dim.zeroed_size]

theorem isEmpty_zeroed (l : Layout) : Layout.isEmpty (l.map Dim.zeroed) = Layout.isEmpty l := by
  cases l <;> rfl

theorem exts_zeroed {l : Layout} (h : l.WF) : Layout.exts (l.map Dim.zeroed) = l.exts.map Ext.zeroBase := by
  induction l with
  | nil => rfl
  | cons d l ih =>
    simp only [Layout.exts, List.map_cons, h.head.zeroed_ext]
    congr 1
    exact ih h.tail

theorem exts_numElements_eq (es : List Ext) : Exts.numElements es = nElems es := by
  induction es with
  | nil => rfl
  | cons e es ih => simp only [Exts.numElements, nElems, ih]

theorem numElements_eq_nElems {l : Layout} (h : l.WF) : l.numElements = nElems l.exts := by
  induction l with
  | nil => rfl
  | cons d l ih =>
    simp only [Layout.numElements, Layout.exts, List.map_cons, nElems]
    rw [h.head.size_eq, ih h.tail]; rfl

theorem fromLinear_isSome_of_ne (xs : List Ext) (n : Int) (h : nElems xs ≠ 0) : ∃ r, Exts.fromLinear xs n = some r := by
  induction xs generalizing n with
  | nil => exact ⟨[], rfl⟩
  | cons e es ih =>
    cases es with
    | nil => exact ⟨[n], rfl⟩
    | cons e' es' =>
      have hsub : nElems (e' :: es') ≠ 0 := by
        intro h0; apply h; simp only [nElems] at h0 ⊢; rw [h0]; simp
      obtain ⟨r, hr⟩ := ih (n.tmod (Exts.numElements (e' :: es'))) hsub
      rw [Exts.fromLinear]
      · simp only [exts_numElements_eq, hsub, if_false]
        rw [exts_numElements_eq] at hr
        rw [hr]; exact ⟨_, rfl⟩
      · simp

theorem fromLinear_zero_of_ne (xs : List Ext) (h : nElems xs ≠ 0) :
    Exts.fromLinear xs 0 = some (List.replicate xs.length 0) := by
  induction xs with
  | nil => rfl
  | cons e es ih =>
    cases es with
    | nil => rfl
    | cons e' es' =>
      have hsub : nElems (e' :: es') ≠ 0 := by
        intro h0; apply h; simp only [nElems] at h0 ⊢; rw [h0]; simp
      rw [Exts.fromLinear]
      · simp only [exts_numElements_eq, hsub, if_false, Int.zero_tmod, Int.zero_tdiv, ih hsub]
        rfl
      · simp

theorem fromLinearG_isSome (xs : List Ext) (n : Int) : ∃ r, ElemRange.fromLinearG xs n = some r := by
  unfold ElemRange.fromLinearG
  by_cases h : Exts.numElements xs = 0
  · simp [h]
  · simp only [h, if_false]; rw [exts_numElements_eq] at h; exact fromLinear_isSome_of_ne xs n h

theorem fromLinearG_zero (xs : List Ext) : ElemRange.fromLinearG xs 0 = some (List.replicate xs.length 0) := by
  unfold ElemRange.fromLinearG
  by_cases h : Exts.numElements xs = 0
  · simp [h]
  · simp only [h, if_false]; rw [exts_numElements_eq] at h; exact fromLinear_zero_of_ne xs h

/-- `++` never fails (the guard of `from_linear_`) and keeps everything but `ns`/`n` -/
theorem ElemIt.inc_some (it : ElemIt) :
    ∃ it', it.inc = some it' ∧ it'.base = it.base ∧ it'.lay = it.lay ∧ it'.xs = it.xs ∧ it'.n = it.n + 1 ∧
      ((Exts.nextCanonical it.xs it.ns).2 = false → it'.ns = (Exts.nextCanonical it.xs it.ns).1) := by
  unfold ElemIt.inc
  cases hc : (Exts.nextCanonical it.xs it.ns).2 with
  | true =>
    obtain ⟨r, hr⟩ := fromLinearG_isSome it.xs (it.n + 1)
    refine ⟨{ it with ns := r, n := it.n + 1 }, ?_, rfl, rfl, rfl, rfl, ?_⟩
    · simp only [hc, if_true, hr, Option.map_some]
    · intro h; cases h
  | false =>
    refine ⟨{ it with ns := (Exts.nextCanonical it.xs it.ns).1, n := it.n + 1 }, ?_, rfl, rfl, rfl, rfl, fun _ => rfl⟩
    simp [hc]

/-- inside the box, `n` steps of `++` (the last of which may leave the box) visit the `n` successive tuples -/
theorem addrs_eq_tuples (n : Nat) (it : ElemIt) (h : InBox it.xs it.ns) (hn : rowMajor it.xs it.ns + n ≤ nElems it.xs) :
    ElemIt.addrs n it = some ((tuples it.xs n it.ns).map (fun ns => it.base + it.lay.apply ns)) := by
  induction n generalizing it with
  | zero => rfl
  | succ n ih =>
    obtain ⟨it', hinc, hb, hl, hx, _, hns⟩ := ElemIt.inc_some it
    rw [ElemIt.addrs, hinc]
    cases n with
    | zero => simp [ElemIt.addrs, tuples, ElemIt.current]
    | succ n =>
      rcases nextCanonical_step h with ⟨c1, c2, c3, c4⟩ | ⟨c1, _, _⟩
      · have hns' := hns c2
        have := ih it' (by rw [hx, hns']; exact c3) (by rw [hx, hns', c4]; omega)
        simp only [Option.bind_eq_bind, Option.bind_some, this, Option.pure_def]
        rw [hx, hb, hl, hns']
        rfl
      · omega

/-- the displacements of the zero-based copy at zero-based tuples are those of the layout at its own tuples -/
theorem off_eq_apply_zeroed {l : Layout} (h : l.WF) :
    (boxIndices l.exts).map (fun idx => l.off idx) =
      (boxIndices (l.exts.map Ext.zeroBase)).map (fun ns => Layout.apply (l.map Dim.zeroed) ns) := by
  induction l with
  | nil => simp [Layout.exts, boxIndices, Layout.off, Layout.apply]
  | cons d l ih =>
    have ih' := ih h.tail
    simp only [Layout.exts, List.map_cons, boxIndices, List.map_flatMap, List.map_map]
    have hsz : d.ext.zeroBase.size = d.ext.size := by simp [Ext.zeroBase, Ext.size]
    rw [hsz]
    have key : ∀ k : Nat, k < d.ext.size.toNat →
        List.map ((fun idx => Layout.off (d :: l) idx) ∘ fun r => (d.ext.first + Int.ofNat k) :: r) (boxIndices (List.map Dim.ext l))
        = List.map ((fun ns => Layout.apply (d.zeroed :: List.map Dim.zeroed l) ns) ∘ fun r => (d.ext.zeroBase.first + Int.ofNat k) :: r)
            (boxIndices (List.map (Ext.zeroBase ∘ Dim.ext) l)) := by
      intro k hk
      have e1 : ((fun idx => Layout.off (d :: l) idx) ∘ fun r => (d.ext.first + Int.ofNat k) :: r)
          = (fun x => ((d.ext.first + Int.ofNat k) * d.stride - d.offset) + x) ∘ (fun idx => Layout.off l idx) := by
        funext r; simp [Layout.off]
      have e2 : ((fun ns => Layout.apply (d.zeroed :: List.map Dim.zeroed l) ns) ∘ fun r => (d.ext.zeroBase.first + Int.ofNat k) :: r)
          = (fun x => ((d.ext.first + Int.ofNat k) * d.stride - d.offset) + x) ∘ (fun ns => Layout.apply (List.map Dim.zeroed l) ns) := by
        funext r
        simp only [Function.comp, Layout.apply, Dim.zeroed, Ext.zeroBase]
        congr 1
        rcases h.head.cases with h0 | ⟨f, n, hn, hs, hf, hnn, he, hsz⟩
        · rw [Dim.ext_of_nelems_zero h0] at hk; simp [Ext.size] at hk
        · rw [he, hf]; simp only [Int.add_mul]; omega
      rw [e1, e2, ← List.map_map, ← List.map_map (g := fun x => _ + x)]
      have ih'' := ih'
      simp only [Layout.exts, List.map_map] at ih''
      rw [ih'']
    exact flatMap_congr' _ _ _ (fun k hk => key k (List.mem_range.mp hk))



theorem boxIndices_length_eq (es : List Ext) (h : ∀ e ∈ es, e.first ≤ e.last) :
    (boxIndices es).length = (nElems es).toNat := by
  have := congrArg List.length (boxIndices_rowMajor es h)
  simpa [length_seqFrom] using this

theorem inBox_firsts_of_pos (xs : List Ext) (h : ∀ e ∈ xs, e.first ≤ e.last) (hp : 0 < nElems xs) :
    InBox xs (xs.map Ext.first) := by
  induction xs with
  | nil => simp [InBox]
  | cons e es ih =>
    have hes : ∀ x ∈ es, x.first ≤ x.last := fun x hx => h x (List.mem_cons_of_mem _ hx)
    have hM := nElems_nonneg es hes
    have hs : 0 ≤ e.size := by have := h e (by simp); simp [Ext.size]; omega
    simp only [nElems] at hp
    have hs' : e.size ≠ 0 := by intro h0; rw [h0] at hp; simp at hp
    have hM' : nElems es ≠ 0 := by intro h0; rw [h0] at hp; simp at hp
    refine ⟨⟨Int.le_refl _, ?_⟩, ih hes (by omega)⟩
    simp [Ext.size] at hs hs'; omega

/-- `++` from the first position enumerates the box in the order of `boxIndices` -/
theorem tuples_eq_boxIndices (xs : List Ext) (h : ∀ e ∈ xs, e.first ≤ e.last) :
    tuples xs (nElems xs).toNat (xs.map Ext.first) = boxIndices xs := by
  by_cases hN : (nElems xs).toNat = 0
  · rw [hN]
    have := boxIndices_length_eq xs h
    rw [hN] at this
    rw [List.eq_nil_of_length_eq_zero this]; rfl
  · have hp : 0 < nElems xs := by omega
    have hin := inBox_firsts_of_pos xs h hp
    obtain ⟨t1, t2⟩ := tuples_rowMajor xs (nElems xs).toNat _ hin (by rw [rowMajor_firsts]; omega)
    rw [rowMajor_firsts] at t2
    exact eq_of_map_rowMajor_eq xs _ _ t1 (fun t ht => (mem_boxIndices xs t).mp ht)
      (t2.trans (boxIndices_rowMajor xs h).symm)

theorem Layout.WF.exts_le {l : Layout} (h : l.WF) : ∀ e ∈ l.exts, e.first ≤ e.last := by
  intro e he
  simp only [Layout.exts, List.mem_map] at he
  obtain ⟨d, hd, rfl⟩ := he
  rcases (h d hd).cases with h0 | ⟨f, n, hn, _, _, _, he, _⟩
  · rw [Dim.ext_of_nelems_zero h0]; simp
  · rw [he]; simp; omega

theorem nElems_zeroBase (es : List Ext) : nElems (es.map Ext.zeroBase) = nElems es := by
  induction es with
  | nil => rfl
  | cons e es ih => simp only [List.map_cons, nElems, ih]; simp [Ext.zeroBase, Ext.size]

/-- number of index tuples = `num_elements()` -/
theorem boxIndices_length (v : View) (hwf : v.lay.WF) : ((boxIndices v.exts).length : Int) = v.numElements := by
  have hle := hwf.exts_le
  rw [View.exts, boxIndices_length_eq _ hle, View.numElements, numElements_eq_nElems hwf]
  exact Int.toNat_of_nonneg (nElems_nonneg _ hle)

/-- `elements().begin()` / `end()` always exist (the guard of `from_linear_`), `end() - begin() = num_elements()`, and
    `++` from `begin()` walks the elements in canonical index order -/
theorem elemit_kth (v : View) (hwf : v.lay.WF) :
    ∃ b e, (ElemRange.ofView v).begin' = some b ∧ (ElemRange.ofView v).end' = some e ∧
      e.diff b = v.numElements ∧ (ElemRange.ofView v).size = v.numElements ∧
      ElemIt.addrs (boxIndices v.exts).length b = some ((boxIndices v.exts).map v.addr) := by
  have hz : ElemRange.ofView v = ⟨v.base, v.lay.map Dim.zeroed⟩ := ofView_eq v
  obtain ⟨r, hr⟩ := fromLinearG_isSome (Layout.exts (v.lay.map Dim.zeroed)) (Layout.numElements (v.lay.map Dim.zeroed))
  refine ⟨⟨v.base, v.lay.map Dim.zeroed, 0, Layout.exts (v.lay.map Dim.zeroed),
      List.replicate (Layout.exts (v.lay.map Dim.zeroed)).length 0⟩,
    ⟨v.base, v.lay.map Dim.zeroed, Layout.numElements (v.lay.map Dim.zeroed), Layout.exts (v.lay.map Dim.zeroed), r⟩,
    ?_, ?_, ?_, ?_, ?_⟩
  · rw [hz]; simp [ElemRange.begin', ElemRange.mkIt, fromLinearG_zero]
  · rw [hz]; simp [ElemRange.end', ElemRange.mkIt, hr]
  · simp [ElemIt.diff, numElements_zeroed, View.numElements]
  · rw [hz]; simp [ElemRange.size, numElements_zeroed, View.numElements]
  · have hle := hwf.exts_le
    have hx : Layout.exts (v.lay.map Dim.zeroed) = v.lay.exts.map Ext.zeroBase := exts_zeroed hwf
    have hle0 : ∀ e ∈ v.lay.exts.map Ext.zeroBase, e.first ≤ e.last := by
      intro e he
      simp only [List.mem_map] at he
      obtain ⟨e', he', rfl⟩ := he
      have := hle e' he'
      simp [Ext.zeroBase]; omega
    have hoff := off_eq_apply_zeroed hwf
    have hlen : (boxIndices v.exts).length = (nElems (v.lay.exts.map Ext.zeroBase)).toNat := by
      have := congrArg List.length hoff
      simp only [List.length_map] at this
      rw [View.exts, this, boxIndices_length_eq _ hle0]
    have hzeros : List.replicate (v.lay.exts.map Ext.zeroBase).length 0 = (v.lay.exts.map Ext.zeroBase).map Ext.first := by
      simp only [List.map_map, List.length_map]
      generalize v.lay.exts = es
      induction es with
      | nil => rfl
      | cons e es ih => simp only [List.length_cons, List.replicate_succ, List.map_cons, ih]; rfl
    by_cases hN : (nElems (v.lay.exts.map Ext.zeroBase)).toNat = 0
    · rw [hN] at hlen
      rw [List.eq_nil_of_length_eq_zero hlen]; rfl
    · have hp : 0 < nElems (v.lay.exts.map Ext.zeroBase) := by omega
      have hin := inBox_firsts_of_pos _ hle0 hp
      rw [addrs_eq_tuples]
      · simp only [hx, hlen, hzeros]
        rw [tuples_eq_boxIndices _ hle0]
        have : v.addr = (fun x => v.base + x) ∘ (fun idx => v.lay.off idx) := by
          funext idx; simp [addr_eq]
        rw [this, ← List.map_map, View.exts, hoff, List.map_map]
        rfl
      · simp only [hx, hzeros]; exact hin
      · simp only [hx, hzeros, hlen, rowMajor_firsts]; omega

end Multi
