/-
  MultiProofs.ElemOrder — the order in which `elements()` visits a view.

  Main result `elemit_kth`: for every well-formed view, stepping the model's elements iterator with `++` from
  `begin()` visits, one after the other, exactly the addresses of the index tuples of `boxIndices v.exts`
  (canonical order, last index fastest), and `end() - begin()` is their number.  (Also used by C02.)
-/
import MultiProofs.StoreSpec
import MultiProofs.Lemmas

namespace Multi

/-- index tuples of a box are exactly the members of `boxIndices` -/
theorem mem_boxIndices (es : List Ext) (idx : List Int) : idx ∈ boxIndices es ↔ InBox es idx := by
  sorry

theorem boxIndices_nodup (es : List Ext) : (boxIndices es).Nodup := by
  sorry

/-- number of index tuples = `num_elements()` -/
theorem boxIndices_length (v : View) (hwf : v.lay.WF) : ((boxIndices v.exts).length : Int) = v.numElements := by
  sorry

/-- `elements().begin()` / `end()` always exist (the guard of `from_linear_`), `end() - begin() = num_elements()`, and
    `++` from `begin()` walks the elements in canonical index order -/
theorem elemit_kth (v : View) (hwf : v.lay.WF) :
    ∃ b e, (ElemRange.ofView v).begin' = some b ∧ (ElemRange.ofView v).end' = some e ∧
      e.diff b = v.numElements ∧ (ElemRange.ofView v).size = v.numElements ∧
      ElemIt.addrs (boxIndices v.exts).length b = (boxIndices v.exts).map v.addr := by
  sorry

end Multi
