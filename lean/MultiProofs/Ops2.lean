/-
  MultiProofs.Ops2 — index, partitioned, chunked, flatted, diagonal.
-/
import MultiProofs.Perm

namespace Multi

theorem index_refines (v : View) (i : Int) (hwf : v.lay.WF) (hd : (Op.index i).InDomain v) :
    Refines v (v.index i) ((Op.index i).specShape v.exts) ((Op.index i).specMap v.exts) := by
  obtain ⟨hne, h1, h2⟩ := hd
  cases hv : v.lay with
  | nil => exact absurd hv hne
  | cons d sub =>
    rw [View.ext_cons hv] at h1 h2
    have key : v.index i = ⟨v.base + (i * d.stride - d.offset), sub⟩ := by simp [View.index, hv]
    rw [key, View.exts_cons hv]
    refine ⟨by rw [hv] at hwf; exact hwf.tail, by simp [View.exts, Op.specShape], ?_⟩
    intro idx hidx
    simp only [Op.specShape, List.tail_cons] at hidx
    simp only [Op.specMap]
    rw [addr_eq, addr_eq, hv]
    constructor
    · simp only [Layout.off]; omega
    · rw [View.exts_cons hv]; simp only [InBox]; exact ⟨⟨h1, h2⟩, hidx⟩

/-! ### partitioned / chunked -/

theorem pos_of_mul_pos_left {a b : Int} (h : 0 < a * b) (ha : 0 < a) : 0 < b := by
  rcases Int.lt_trichotomy b 0 with h1 | h1 | h1
  · have : a * b < 0 := Int.mul_neg_of_pos_of_neg ha h1
    omega
  · subst h1; simp at h
  · exact h1

theorem partitioned_refines (v : View) (n : Int) (hwf : v.lay.WF) (hd : (Op.partitioned n).InDomain v) :
    Refines v (v.partitioned n) ((Op.partitioned n).specShape v.exts) ((Op.partitioned n).specMap v.exts) := by
  obtain ⟨hne, hn, ⟨q, hq⟩⟩ := hd
  cases hv : v.lay with
  | nil => exact absurd hv hne
  | cons d sub =>
    have hdwf : d.WF := by rw [hv] at hwf; exact hwf.head
    have hsub : Layout.WF sub := by rw [hv] at hwf; exact hwf.tail
    rw [View.ext_cons hv] at hq
    rw [View.exts_cons hv]
    have hn0 : n ≠ 0 := by omega
    have key : v.partitioned n = ⟨v.base, ⟨if d.nelems.tdiv n ≠ 0 then d.nelems.tdiv n else 1, 0, d.nelems⟩ :: { d with nelems := d.nelems.tdiv n } :: sub⟩ := by
      unfold View.partitioned; simp [hv]
    rw [key]
    rcases hdwf.cases with h0 | ⟨f, N, hN, hst, hf, hnn, he, hsz⟩
    · -- empty
      rw [Dim.ext_of_nelems_zero h0]
      have hshape : (Op.partitioned n).specShape (⟨0, 0⟩ :: Layout.exts sub) = ⟨0, 0⟩ :: ⟨0, 0⟩ :: Layout.exts sub := by
        simp [Op.specShape, Ext.size, Ext.norm]
      rw [hshape]
      refine ⟨?_, ?_, ?_⟩
      · exact Layout.WF.cons (d := ⟨if d.nelems.tdiv n ≠ 0 then d.nelems.tdiv n else 1, 0, d.nelems⟩) (Or.inl h0)
          (Layout.WF.cons (d := { d with nelems := d.nelems.tdiv n }) (Or.inl (by simp [h0])) hsub)
      · simp [View.exts, Layout.exts, Dim.ext, h0]
      · intro idx hidx
        obtain ⟨t, r, rfl, h1, h2, _⟩ := inBox_cons hidx
        simp at h1 h2; omega
    · rw [he] at hq ⊢
      simp [Ext.size] at hq
      have hNq : N = n * q := by omega
      subst hNq
      have hqpos : 0 < q := pos_of_mul_pos_left hN hn
      have e1 : d.nelems.tdiv n = q * d.stride := by
        rw [hnn, Int.mul_assoc, Int.mul_tdiv_cancel_left _ hn0]
      have hsz' : (Ext.size ⟨f, f + n * q⟩) = n * q := by simp [Ext.size]; omega
      have e2 : (n * q).tdiv n = q := Int.mul_tdiv_cancel_left _ hn0
      have hshape : (Op.partitioned n).specShape (⟨f, f + n * q⟩ :: Layout.exts sub) = ⟨0, 0 + n⟩ :: ⟨f, f + q⟩ :: Layout.exts sub := by
        have hne' : n * q ≠ 0 := by omega
        simp only [Op.specShape, hsz', e2, norm_of_pos hqpos, hne', if_false]
        simp
      have hqs : 0 < q * d.stride := Int.mul_pos hqpos hst
      have hqs0 : q * d.stride ≠ 0 := by omega
      rw [hshape, e1]
      simp only [hqs0, ne_eq, not_false_eq_true, if_true]
      have htop : (⟨q * d.stride, 0, d.nelems⟩ : Dim) = ⟨q * d.stride, 0 * (q * d.stride), n * (q * d.stride)⟩ := by
        rw [hnn]; simp; grind
      have hsec : ({ d with nelems := q * d.stride } : Dim) = ⟨d.stride, f * d.stride, q * d.stride⟩ := by
        rw [← hf]
      refine ⟨?_, ?_, ?_⟩
      · exact Layout.WF.cons (d := ⟨q * d.stride, 0, d.nelems⟩) (by rw [htop]; exact Dim.wf_mk hqs hn)
          (Layout.WF.cons (d := { d with nelems := q * d.stride }) (by rw [hsec]; exact Dim.wf_mk hst hqpos) hsub)
      · simp only [View.exts, Layout.exts, List.map_cons]
        rw [htop, Dim.ext_mk hqs hn, hsec, Dim.ext_mk hst hqpos]
      · intro idx hidx
        obtain ⟨p, r, rfl, h1, h2, h3⟩ := inBox_cons hidx
        obtain ⟨t, r', rfl, h4, h5, h6⟩ := inBox_cons h3
        simp at h1 h2 h4 h5
        have hm : (Op.partitioned n).specMap (⟨f, f + n * q⟩ :: Layout.exts sub) (p :: t :: r') = (p * q + t) :: r' := by
          simp only [Op.specMap, hsz', e2]
        rw [hm, addr_eq, addr_eq, hv]
        have hpq1 : 0 ≤ p * q := Int.mul_nonneg h1 (Int.le_of_lt hqpos)
        have hpq2 : p * q ≤ (n - 1) * q := Int.mul_le_mul_of_nonneg_right (by omega) (Int.le_of_lt hqpos)
        have hpq3 : (n - 1) * q = n * q - q := by rw [Int.sub_mul]; simp
        constructor
        · simp only [Layout.off]
          rw [hf]
          have : (p * q + t) * d.stride = p * (q * d.stride) + t * d.stride := by grind
          omega
        · rw [View.exts_cons hv, he]
          simp only [InBox]
          exact ⟨⟨by omega, by omega⟩, h6⟩

theorem chunked_refines (v : View) (c : Int) (hwf : v.lay.WF) (hd : (Op.chunked c).InDomain v) :
    Refines v (v.chunked c) ((Op.chunked c).specShape v.exts) ((Op.chunked c).specMap v.exts) := by
  obtain ⟨hne, hc, ⟨q, hq⟩, hpos⟩ := hd
  cases hv : v.lay with
  | nil => exact absurd hv hne
  | cons d sub =>
    have hdwf : d.WF := by rw [hv] at hwf; exact hwf.head
    rw [View.ext_cons hv] at hq hpos
    have hc0 : c ≠ 0 := by omega
    have hqpos : 0 < q := by rw [hq] at hpos; exact pos_of_mul_pos_left hpos hc
    have hq0 : q ≠ 0 := by omega
    have hsize : v.size = d.ext.size := by simp [View.size, hv]; exact hdwf.size_eq
    have e1 : v.size.tdiv c = q := by rw [hsize, hq]; exact Int.mul_tdiv_cancel_left _ hc0
    have hdom : (Op.partitioned q).InDomain v := by
      refine ⟨hne, hqpos, ?_⟩
      rw [View.ext_cons hv, hq]; exact ⟨c, Int.mul_comm _ _⟩
    have := partitioned_refines v q hwf hdom
    have hch : v.chunked c = v.partitioned q := by unfold View.chunked; rw [e1]
    rw [hch]
    have e2 : d.ext.size.tdiv q = c := by rw [hq]; exact Int.mul_tdiv_cancel _ hq0
    have e3 : d.ext.size.tdiv c = q := by rw [hq]; exact Int.mul_tdiv_cancel_left _ hc0
    have hs1 : (Op.chunked c).specShape v.exts = (Op.partitioned q).specShape v.exts := by
      rw [View.exts_cons hv]
      have hne' : d.ext.size ≠ 0 := by omega
      simp only [Op.specShape, e2, e3, hne', if_false]
    have hs2 : (Op.chunked c).specMap v.exts = (Op.partitioned q).specMap v.exts := by
      funext idx
      rw [View.exts_cons hv]
      match idx with
      | [] => rfl
      | [_] => rfl
      | p :: t :: r => simp only [Op.specMap, e2]
    rw [hs1, hs2]; exact this

end Multi
