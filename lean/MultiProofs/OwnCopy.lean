/-
  MultiProofs.OwnCopy — `Own.copyElems` (element-wise copy from one view INTO another view, through two `elements()` iterators) as a
  map on cells.  Helper lemmas for C04 / C06.
-/
import MultiProofs.OwnSlice

namespace Multi
namespace Own
open C02
variable {α β : Type}

theorem zip_map_map {ι γ δ : Type} (L : List ι) (g : ι → γ) (f : ι → δ) : (L.map g).zip (L.map f) = L.map fun J => (g J, f J) := by
  induction L with
  | nil => rfl
  | cons x L ih => simp [ih]

/-- pointwise description of `setMany` on an injectively indexed family -/
theorem setMany_family {ι : Type} (L : List ι) (P : ι → Nat) (V : ι → β) (cs : List β) (hnd : L.Nodup)
    (hinj : ∀ i ∈ L, ∀ j ∈ L, P i = P j → i = j) (hlt : ∀ i ∈ L, P i < cs.length) :
    (∀ J ∈ L, (setMany cs (L.map fun J => (P J, V J)))[P J]? = some (V J)) ∧
    (∀ j, (∀ J ∈ L, P J ≠ j) → (setMany cs (L.map fun J => (P J, V J)))[j]? = cs[j]?) := by
  have hfst : (L.map fun J => (P J, V J)).map Prod.fst = L.map P := by simp [List.map_map, Function.comp_def]
  constructor
  · intro J hJ
    apply getElem?_setMany_mem
    · rw [hfst]; exact nodup_map_of_inj_on L P hnd hinj
    · exact List.mem_map.mpr ⟨J, hJ, rfl⟩
    · exact hlt J hJ
  · intro j hj
    apply getElem?_setMany_not_mem
    rw [hfst]
    intro hm
    obtain ⟨J, hJ, e⟩ := List.mem_map.mp hm
    exact hj J hJ e

theorem nonEmpty_not_isEmpty {v : View} (hv : NonEmpty v) : v.isEmpty = false := by
  have hne : v.lay ≠ [] := by
    intro e; apply hv.ne; rw [e]; rfl
  have hag := C01.shape_functions_agree v hv.wf
  have h4 := hag.2.2.2 hne
  have hsz : 0 < v.size := by
    cases hl : v.lay with
    | nil => exact absurd hl hne
    | cons d l =>
      have := hv.pos d.size (by simp [Layout.sizes, hl])
      simp [View.size, hl]; exact this
  cases hb : v.isEmpty with
  | false => rfl
  | true =>
    have := h4.mp hb
    rw [← hag.2.2.1] at this; omega

/-- **the scatter lemma for views**: copying `sv` (in block `s`) element-wise into `dv` (in another block `d`) rewrites block `d` at
    the addresses of `dv`'s elements, in canonical order, with the cells at the addresses of `sv`'s elements -/
theorem copyElems_live {h : Heap α} {s d : Nat} {scs dcs : List (Cell α)} (hs : Live h s scs) (hd : Live h d dcs) (hne : s ≠ d)
    (sv dv : View) (hsv : NonEmpty sv) (hdv : NonEmpty dv) (hn : nElems dv.exts = nElems sv.exts)
    (hsin : ∀ idx ∈ boxIndices sv.exts, 0 ≤ sv.addr idx ∧ (sv.addr idx).toNat < scs.length)
    (hdin : ∀ idx ∈ boxIndices dv.exts, 0 ≤ dv.addr idx ∧ (dv.addr idx).toNat < dcs.length) :
    copyElems h (some s) sv (some d) dv =
      h.setBlock d (some (setMany dcs ((((boxIndices dv.exts).map dv.addr).zip ((boxIndices sv.exts).map sv.addr)).map
        fun ba => (ba.1.toNat, scs[ba.2.toNat]?.getD none)))) := by
  unfold copyElems
  rw [nonEmpty_not_isEmpty hdv]
  simp only [Bool.false_eq_true, if_false]
  have hnum : sv.numElements = nElems sv.exts := (C01.shape_functions_agree sv hsv.wf).2.1
  rw [hnum, elemAddrs_eq sv hsv]
  have := elemAddrs_eq dv hdv
  rw [hn] at this
  rw [this]
  simp only
  apply copyAddrs_live _ _ h s d scs dcs hs hd hne
  · simp only [List.length_map]
    have e1 : (boxIndices sv.exts).length = (nElems sv.exts).toNat := boxIndices_length (xs := sv.exts) (wf_exts_ok hsv.wf)
    have e2 : (boxIndices dv.exts).length = (nElems dv.exts).toNat := boxIndices_length (xs := dv.exts) (wf_exts_ok hdv.wf)
    rw [e1, e2, hn]
  · intro a ha
    obtain ⟨idx, hidx, rfl⟩ := List.mem_map.mp ha
    exact hsin idx hidx
  · intro b hb
    obtain ⟨idx, hidx, rfl⟩ := List.mem_map.mp hb
    exact hdin idx hidx

end Own
end Multi
