/-
  C09 — Failures (allocation or element exceptions) leave no leak and valid arrays.

  Property theorems only.  The fault parameter of the model: with `fuel = some k` the k-th fallible step (allocation,
  element construction, element assignment) of the history throws; unwinding is a function (the handlers of the
  uninitialized algorithms destroy what they built and rethrow; a constructor body that throws does not run
  `~static_array`; an exception leaving a `noexcept` function is `Res.term`).

  THE FULL STATEMENT is `FaultSafe c`:

      for every pool size, every history of operations and every injection point k:  the run never calls std::terminate
      and never becomes undefined (each exception reaches the caller), and the state at the end is `Good` —
      every live array valid (its extents backed by exactly one outstanding block of that size with all cells alive),
      nothing leaked (every outstanding block has exactly one owner, no live object in a returned block), nothing destroyed or
      deallocated twice (that would be `ub`).

  Since the history is arbitrary this covers the state right after the throwing operation and after every later one.

  `FaultSafe` is FALSE for the code as it stood, and — because of finding T1 — even for the repaired tree:

    * `finding_F6_ctor_leaks_block`           ¬FaultSafe (tree without fixes/F6): a throwing element in a constructor body
    * `finding_F7_copy_assign_dangling`       ¬FaultSafe (without F7): failed allocation in copy assignment to other extents
    * `finding_F7_double_free`                — the same state, then the destructor: undefined behaviour
    * `finding_F8_reextent_leaks_tmp`         ¬FaultSafe (without F8): a throwing element copy in reextent
    * `finding_T1_static_move_terminates`     ¬FaultSafe (all repairs in): static_array(static_array&&) is noexcept and allocates

  What IS proved (for all configurations, pools, histories, injection points — no enumeration):

    * `fault_safe_partial`   histories of operations whose finding class is repaired in `c` and that are not the static_array
                             move constructor satisfy the full statement
    * `fault_safe_fixed`     for the tree with F6, F7, F8 in: every history without the static_array move constructor does —
                             this includes the element-wise move path of fixes/F9.patch (move assignment / allocator-extended
                             move construction between unequal allocators): a throwing element move or a failing allocation
                             there leaves both arrays valid and nothing leaked
    * `fault_step`           the single-operation form: from a good state, with any amount of fuel
    * `no_alloc_when_not_needed`  swap, move construction / assignment, clear, the destructor, reshape, assignment through
                             views, and copy assignment / assign / reextent to the SAME extents record no allocation
-/
import MultiProofs.LedgerLog

namespace Multi
namespace C09
open Ledger

/-- THE FULL STATEMENT of C09 for configuration `c` (see the header) -/
def FaultSafe (c : Cfg) : Prop :=
  ∀ (p : Nat) (ops : List Op) (k : Nat), ∃ s', runHist c ops (initSt p (some k)) = some s' ∧ Good c s'

/-- one operation from a good state, with any fuel: it returns or throws — it neither terminates nor becomes undefined — and
    the state is good again (every array valid, nothing leaked, nothing destroyed or deallocated twice) -/
theorem fault_step (c : Cfg) (hok : c.OK) (op : Op) (s : St) (hG : Good c s) (happ : op.applicable c s = true)
    (hfx : op.fixedIn c = true) (hns : op.isSaMove = false) :
    (∃ s', (op.run c s = .ok () s' ∨ op.run c s = .threw s') ∧ Good c s' ∧ s'.arrs.length = s.arrs.length) := by
  have h := run_spec c hok op s hG happ hfx
  unfold OpSpec at h
  cases hr : op.run c s with
  | ok u s' => rw [hr] at h; exact ⟨s', Or.inl rfl, h.1, h.2.2.1⟩
  | threw s' => rw [hr] at h; exact ⟨s', Or.inr rfl, h.2.2, h.2.1⟩
  | term s' => rw [hr] at h; rw [hns] at h; exact absurd h.2 (by decide)
  | ub s' => rw [hr] at h; exact h.elim

/-- histories from any good state, any fuel -/
theorem fault_history (c : Cfg) (hok : c.OK) (ops : List Op)
    (hops : ∀ op ∈ ops, op.fixedIn c = true ∧ op.isSaMove = false) :
    ∀ (s : St), Good c s → ∃ s', runHist c ops s = some s' ∧ Good c s' := by
  induction ops with
  | nil => intro s hG; exact ⟨s, rfl, hG⟩
  | cons op ops ih =>
    intro s hG
    have hop := hops op (by simp)
    have hrest : ∀ o ∈ ops, o.fixedIn c = true ∧ o.isSaMove = false := fun o ho => hops o (by simp [ho])
    unfold runHist stepSt
    by_cases happ : op.applicable c s = true
    · obtain ⟨s1, hrun, hG1, _⟩ := fault_step c hok op s hG happ hop.1 hop.2
      rcases hrun with hrun | hrun
      · simp only [happ, if_true, hrun]; exact ih hrest s1 hG1
      · simp only [happ, if_true, hrun]; exact ih hrest s1 hG1
    · simp only [happ, Bool.false_eq_true, if_false]
      exact ih hrest s hG

/-- FaultSafe restricted to the operations whose finding class is repaired in `c` (and without the static_array move
    constructor, finding T1).  Full statement: `FaultSafe c`, i.e. the same without the hypothesis `hops`. -/
theorem fault_safe_partial (c : Cfg) (hok : c.OK) (p : Nat) (ops : List Op) (k : Nat)
    (hops : ∀ op ∈ ops, op.fixedIn c = true ∧ op.isSaMove = false) :
    ∃ s', runHist c ops (initSt p (some k)) = some s' ∧ Good c s' :=
  fault_history c hok ops hops _ (good_init c p (some k))

/-- the tree with the repairs F6, F7, F8: every history that does not move-construct a static_array satisfies the full
    statement, for every injection point -/
theorem fault_safe_fixed (c : Cfg) (hok : c.OK) (hfix : c.Fixed) (p : Nat) (ops : List Op) (k : Nat)
    (hops : ∀ op ∈ ops, op.isSaMove = false) :
    ∃ s', runHist c ops (initSt p (some k)) = some s' ∧ Good c s' :=
  fault_safe_partial c hok p ops k (fun op ho => ⟨fixedIn_of_fixed hfix op, hops op ho⟩)

/-! ### the negation, on concrete witnesses -/

/-- decidable evidence that a run did not end well: it was cut short by std::terminate / undefined behaviour, or some
    outstanding block does not have exactly one owner, or some non-empty live array has no outstanding block of its size -/
def badEnd (r : Option St) : Bool :=
  match r with
  | none => true
  | some s =>
    ((List.range s.blocks.length).any fun b =>
      match s.blocks[b]? with
      | some blk => !blk.freed && owners s.arrs b != 1
      | none => false) ||
    ((List.range s.arrs.length).any fun i =>
      match s.arrs[i]? with
      | some (some a) =>
        decide (0 < a.n) && (match a.base with
          | none => true
          | some b => match s.blocks[b]? with
            | some blk => blk.freed || blk.size != a.n
            | none => true)
      | _ => false)

theorem badEnd_not_good (c : Cfg) (r : Option St) (h : badEnd r = true) : ¬ ∃ s', r = some s' ∧ Good c s' := by
  intro ⟨s', hr, hG⟩
  subst hr
  simp only [badEnd, Bool.or_eq_true, List.any_eq_true, List.mem_range] at h
  rcases h with ⟨b, _, hb⟩ | ⟨i, _, hi⟩
  · cases hB : s'.blocks[b]? with
    | none => rw [hB] at hb; cases hb
    | some blk =>
      rw [hB] at hb
      simp only [Bool.and_eq_true, Bool.not_eq_true', bne_iff_ne, ne_eq] at hb
      exact hb.2 (hG.1.owned b blk hB hb.1)
  · cases hA : s'.arrs[i]? with
    | none => rw [hA] at hi; cases hi
    | some o =>
      cases o with
      | none => rw [hA] at hi; cases hi
      | some a =>
        rw [hA] at hi
        simp only [Bool.and_eq_true, decide_eq_true_eq] at hi
        obtain ⟨b, blk, hb, hB, hf, hsz, _⟩ := hG.1.valid i a hA hi.1
        have h2 := hi.2
        rw [hb] at h2
        simp only [hB, hf, hsz, bne_self_eq_false, Bool.or_self] at h2
        cases h2

/-- the tree with every repair except `F6` / `F7` / `F8` -/
def cfgNo6 : Cfg := { dim := 1, fx6 := false, fx7 := true, fx8 := true, fx9 := true }
def cfgNo7 : Cfg := { dim := 1, fx6 := true, fx7 := false, fx8 := true, fx9 := true }
def cfgNo8 : Cfg := { dim := 1, fx6 := true, fx7 := true, fx8 := false, fx9 := true }
/-- the tree with every repair -/
def cfgAll : Cfg := { dim := 1, fx6 := true, fx7 := true, fx8 := true, fx9 := true }

/-- F6: `array<T,1> A({2}, v, alloc)` with the first element copy throwing (k = 1: the allocation succeeds): the exception
    reaches the caller, the object was never constructed, and block 0 stays allocated with no owner -/
theorem finding_F6_ctor_leaks_block : ¬ FaultSafe cfgNo6 := fun h =>
  badEnd_not_good cfgNo6 _ (by decide +kernel) (h 4 [.ctorFill 0 1 [⟨0, 2⟩]] 1)

/-- F7: `A = B` with different extents and the allocation throwing (k = 7): `A` keeps the extents of `B` over its old,
    already returned block -/
theorem finding_F7_copy_assign_dangling : ¬ FaultSafe cfgNo7 := fun h =>
  badEnd_not_good cfgNo7 _ (by decide +kernel)
    (h 4 [.ctorFill 0 1 [⟨0, 2⟩], .ctorFill 1 1 [⟨0, 3⟩], .assignCopy 0 1] 7)

/-- F7, continued: destroying that array destroys dead objects and deallocates a block it does not own — undefined -/
theorem finding_F7_double_free :
    runHist cfgNo7 [.ctorFill 0 1 [⟨0, 2⟩], .ctorFill 1 1 [⟨0, 3⟩], .assignCopy 0 1, .dtor 0] (initSt 4 (some 7)) = none := by
  decide +kernel

/-- F8: `A.reextent({3})` of a two-element array with the first element assignment throwing (k = 7): the new block 1 with
    its three live elements is lost -/
theorem finding_F8_reextent_leaks_tmp : ¬ FaultSafe cfgNo8 := fun h =>
  badEnd_not_good cfgNo8 _ (by decide +kernel) (h 4 [.ctorFill 0 1 [⟨0, 2⟩], .reextent 0 [⟨0, 3⟩]] 7)

/-- T1: `static_array t(std::move(s))` allocates inside a noexcept constructor; a failing allocation (k = 3) is
    std::terminate — in the repaired tree as well -/
theorem finding_T1_static_move_terminates : ¬ FaultSafe cfgAll := fun h =>
  badEnd_not_good cfgAll _ (by decide +kernel) (h 4 [.saMove 1 [⟨0, 2⟩]] 3)

/-- the same witnesses are harmless once the repair is in: the negations above are about the defects, not about the model -/
example : badEnd (runHist cfgAll [.ctorFill 0 1 [⟨0, 2⟩]] (initSt 4 (some 1))) = false := by decide +kernel
example : badEnd (runHist cfgAll [.ctorFill 0 1 [⟨0, 2⟩], .ctorFill 1 1 [⟨0, 3⟩], .assignCopy 0 1, .dtor 0]
    (initSt 4 (some 7))) = false := by decide +kernel
example : badEnd (runHist cfgAll [.ctorFill 0 1 [⟨0, 2⟩], .reextent 0 [⟨0, 3⟩]] (initSt 4 (some 7))) = false := by decide +kernel

/-! ### operations that need no new storage do not allocate -/

/-- no allocation, whatever the outcome: swap, move construction, clear, the destructor, reshape, assignment through views;
    move assignment and allocator-extended move construction whenever the storage may change hands (equal allocators, or
    POCMA for the assignment — between unequal allocators the repaired code must obtain new storage, as the standard
    containers do); and, at states where the extents agree (and POCCA does not force a change of storage), copy assignment,
    `assign(extensions, value)` and the three `reextent` overloads -/
theorem no_alloc_when_not_needed (c : Cfg) :
    (∀ i j, NoAlloc ((Op.swap i j).run c)) ∧
    (∀ i j s x y, getArr s i = some x → getArr s j = some y → (c.fx9a && !c.pocma && !c.eqv x.alloc y.alloc) = false →
      evCount Event.isAlloc ((Op.assignMove i j).run c s).state.log = evCount Event.isAlloc s.log) ∧
    (∀ i j, NoAlloc ((Op.ctorMove i j).run c)) ∧
    (∀ i j a s y, getArr s j = some y → (c.fx9a && !c.eqv a y.alloc) = false →
      evCount Event.isAlloc ((Op.ctorMoveA i j a).run c s).state.log = evCount Event.isAlloc s.log) ∧
    (∀ i, NoAlloc ((Op.clear i).run c)) ∧
    (∀ i, NoAlloc ((Op.dtor i).run c)) ∧
    (∀ i es, NoAlloc ((Op.reshape i es).run c)) ∧
    (∀ i j, NoAlloc ((Op.viewAssign i j).run c)) ∧
    (∀ i j s x y, getArr s i = some x → getArr s j = some y → extsEq x.ext y.ext = true →
      (c.fx9c && c.pocca && !c.eqv x.alloc y.alloc) = false →
      evCount Event.isAlloc ((Op.assignCopy i j).run c s).state.log = evCount Event.isAlloc s.log) ∧
    (∀ i es s x, getArr s i = some x → extsEq x.ext es = true →
      evCount Event.isAlloc ((Op.assignFill i es).run c s).state.log = evCount Event.isAlloc s.log ∧
      evCount Event.isAlloc ((Op.reextent i es).run c s).state.log = evCount Event.isAlloc s.log ∧
      evCount Event.isAlloc ((Op.reextentFill i es).run c s).state.log = evCount Event.isAlloc s.log ∧
      evCount Event.isAlloc ((Op.reextentRv i es).run c s).state.log = evCount Event.isAlloc s.log) := by
  have hq := quiet_alloc
  refine ⟨?_, ?_, ?_, ?_, ?_, ?_, ?_, ?_, ?_, ?_⟩
  · intro i j
    show NoAlloc (opSwap c i j)
    unfold opSwap
    apply NoEv.bind NoEv.get; intro s
    cases getArr s i with
    | none => exact NoEv.ub
    | some x =>
      cases getArr s j with
      | none => exact NoEv.ub
      | some y => exact NoEv.ite (NoEv.pure ()) (NoEv.bind (NoEv.setSlot _ _) (fun _ => NoEv.setSlot _ _))
  · intro i j s x y hx hy hcond
    show evCount Event.isAlloc (opAssignMove c i j s).state.log = _
    unfold opAssignMove
    rw [get_bind]
    simp only [hx, hy, hcond, Bool.false_eq_true, if_false]
    have : NoAlloc (if i = j then (pure () : M Unit) else noexcept do
        moveAssignFrom c i x y.alloc y.base y.ext y.n
        setSlot j (some { y with ext := emptyExts c.dim, n := 0 })) := by
      apply NoEv.ite (NoEv.pure ())
      apply NoEv.noexcept
      unfold moveAssignFrom
      exact NoEv.bind (NoEv.bind (NoEv.clearArr hq c i x) (fun _ => NoEv.setSlot _ _)) (fun _ => NoEv.setSlot _ _)
    exact this s
  · intro i j
    show NoAlloc (opCtorMove c i j none)
    unfold opCtorMove
    apply NoEv.bind NoEv.get; intro s
    cases getArr s j with
    | none => exact NoEv.ub
    | some y =>
      have hc : (c.fx9a && !c.eqv (pickAlloc none y.alloc) y.alloc) = false := by
        have : c.eqv (pickAlloc none y.alloc) y.alloc = true := eqv_refl c _
        simp [this]
      simp only [hc, Bool.false_eq_true, if_false]
      exact NoEv.bind (NoEv.setSlot _ _) (fun _ => NoEv.setSlot _ _)
  · intro i j a s y hy hcond
    show evCount Event.isAlloc (opCtorMove c i j (some a) s).state.log = _
    unfold opCtorMove
    rw [get_bind]
    have hc : (c.fx9a && !c.eqv (pickAlloc (some a) y.alloc) y.alloc) = false := hcond
    simp only [hy, hc, Bool.false_eq_true, if_false]
    exact (NoEv.bind (NoEv.setSlot _ _) (fun _ => NoEv.setSlot _ _) : NoAlloc _) s
  · intro i
    show NoAlloc (opClear c i)
    unfold opClear
    apply NoEv.bind NoEv.get; intro s
    cases getArr s i with
    | none => exact NoEv.ub
    | some x => exact NoEv.noexcept (NoEv.bind (NoEv.clearArr hq c i x) (fun _ => NoEv.pure ()))
  · intro i
    show NoAlloc (opDtor c i)
    unfold opDtor
    apply NoEv.bind NoEv.get; intro s
    cases getArr s i with
    | none => exact NoEv.ub
    | some x => exact NoEv.dtorArr hq c i x
  · intro i es
    show NoAlloc (opReshape i es)
    unfold opReshape
    apply NoEv.bind NoEv.get; intro s
    cases getArr s i with
    | none => exact NoEv.ub
    | some x => exact NoEv.ite (NoEv.setSlot _ _) NoEv.ub
  · intro i j
    show NoAlloc (opViewAssign c i j)
    unfold opViewAssign
    apply NoEv.bind NoEv.get; intro s
    cases getArr s i with
    | none => exact NoEv.ub
    | some x =>
      cases getArr s j with
      | none => exact NoEv.ub
      | some y => exact NoEv.bind (NoEv.readCells c _ _) (fun _ => NoEv.assignAll hq c _ _)
  · intro i j s x y hx hy hsame hkeep
    show evCount Event.isAlloc (opAssignCopy c i j s).state.log = _
    unfold opAssignCopy
    rw [get_bind]
    simp only [hx, hy, hsame, hkeep, Bool.not_false, Bool.and_self, if_true]
    have : NoAlloc (if i = j then (pure () : M Unit) else do
        setSlot i (some (if c.pocca = true then { x with alloc := y.alloc } else x))
        readCells c y.base y.n
        assignAll c (if c.pocca = true then { x with alloc := y.alloc } else x).base (List.range y.n)) :=
      NoEv.ite (NoEv.pure ()) (NoEv.bind (NoEv.setSlot _ _) (fun _ => NoEv.bind (NoEv.readCells c _ _) (fun _ => NoEv.assignAll hq c _ _)))
    exact this s
  · intro i es s x hx hsame
    refine ⟨?_, ?_, ?_, ?_⟩
    · show evCount Event.isAlloc (opAssignFill c i es s).state.log = _
      unfold opAssignFill
      rw [get_bind]
      simp only [hx, hsame, if_true]
      exact NoEv.assignAll hq c _ _ s
    · show evCount Event.isAlloc (opReextent c i es false s).state.log = _
      unfold opReextent
      rw [get_bind]
      simp only [hx, hsame, if_true]
      rfl
    · show evCount Event.isAlloc (opReextent c i es true s).state.log = _
      unfold opReextent
      rw [get_bind]
      simp only [hx, hsame, if_true]
      rfl
    · show evCount Event.isAlloc (opReextentRv c i es s).state.log = _
      unfold opReextentRv
      rw [get_bind]
      simp only [hx, hsame, if_true]
      rfl

/-! ### the element-wise move path of fixes/F9.patch under failures -/

/-- every repair in, allocators 1 and 2 unequal and not propagating -/
def cfgFull : Cfg := { cfgAll with fx9a := true, fx9c := true }

/-- `B = std::move(A)` between unequal allocators with the second element move throwing (k = 5: steps 0-2 build `A`,
    3 allocates the new storage, 4 moves element 0, 5 throws): the exception reaches the caller, the new block has been
    returned, `A` still owns its two (valid, partly moved-from) elements, `B` is unchanged — and `fault_safe_fixed` says so for
    every history and every k -/
example : ((runHist cfgFull [.ctorFill 0 1 [⟨0, 2⟩], .ctorDefault 1 2, .assignMove 1 0] (initSt 4 (some 5))).map fun s =>
    (s.blocks.map (·.freed), s.arrs.map (·.map (·.n)), s.fired)) =
    some ([false, true], [some 2, some 0, none, none], some Step.ctor) := by decide +kernel
example : badEnd (runHist cfgFull [.ctorFill 0 1 [⟨0, 2⟩], .ctorDefault 1 2, .assignMove 1 0, .dtor 0, .dtor 1] (initSt 4 (some 5))) = false := by
  decide +kernel

example : cfgFull.Fixed := ⟨rfl, rfl, rfl⟩

/-! ### non-vacuity -/

example : cfgAll.OK := ⟨(by intro h; cases h), (by decide)⟩
example : cfgAll.Fixed := ⟨rfl, rfl, rfl⟩

/-- a faulted history in the repaired tree: the copy assignment throws at its allocation, every array stays valid -/
example : ((runHist cfgAll [.ctorFill 0 1 [⟨0, 2⟩], .ctorFill 1 1 [⟨0, 3⟩], .assignCopy 0 1, .dtor 0, .dtor 1]
    (initSt 4 (some 7))).map fun s => (s.blocks.map (·.freed), s.arrs, s.fired)) =
    some ([true, true], [none, none, none, none], some Step.alloc) := by decide +kernel

end C09
end Multi
