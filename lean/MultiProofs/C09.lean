import MultiModel.Ledger
namespace Multi
namespace C09
theorem stub : True := trivial
end C09
end Multi
