/-
  MultiProofs.MpiLemmas — helper lemmas for C18: the ledger effect of one level of the skeleton recursion, the typemap
  the recursion builds, and its displacements.
-/
import MultiModel.Mpi
import MultiProofs.SerWalk

namespace Multi
namespace Mpi

theorem live_some {L : Ledger} {k : Nat} : L.live (some k) = true ↔ k < L.next ∧ (L.recs k).freed = 0 := by
  simp [Ledger.live]

/-- one `{hvector; resized; free(hvector)}` block on a live sub-type: two new handles, the first freed once, the second
    (the result) alive and uncommitted; nothing else changes; no erroneous call -/
theorem level_spec (L : Ledger) (c st : Int) (hs : Nat) (hlive : L.live (some hs) = true) (hc : 0 ≤ c) :
    ∃ L3, Skeleton.level L c st (some hs) = (L3, some (L.next + 1)) ∧ L3.next = L.next + 2 ∧ L3.errs = L.errs ∧
      (∀ j, j < L.next → L3.recs j = L.recs j) ∧
      L3.recs (L.next + 1) = ⟨Typemap.resized (Typemap.hvector c 1 st (L.recs hs).tm) 0 st, false, false, 0⟩ ∧
      (L3.recs L.next).freed = 1 ∧ (L3.recs L.next).builtin = false := by
  obtain ⟨h1, h2⟩ := live_some.mp hlive
  refine ⟨_, rfl, ?_, ?_, ?_, ?_, ?_, ?_⟩
  all_goals simp [Skeleton.level, Ledger.hvector, Ledger.resized, Ledger.free, Ledger.create, Ledger.live, Ledger.setRec, Ledger.tmOf, h1, h2, hc]
  all_goals first
    | omega
    | (intro j hj
       have a1 : j ≠ L.next := by omega
       have a2 : j ≠ L.next + 1 := by omega
       simp [a1, a2])

/-- `MPI_Type_free` of a live derived datatype -/
theorem free_spec (L : Ledger) (k : Nat) (hlive : L.live (some k) = true) (hb : (L.recs k).builtin = false) :
    (L.free (some k)).1.next = L.next ∧ (L.free (some k)).1.errs = L.errs ∧
    (∀ j, j ≠ k → (L.free (some k)).1.recs j = L.recs j) ∧
    (L.free (some k)).1.recs k = { L.recs k with freed := (L.recs k).freed + 1 } := by
  obtain ⟨h1, h2⟩ := live_some.mp hlive
  refine ⟨rfl, ?_, ?_, ?_⟩
  · simp [Ledger.free, Ledger.live, Ledger.setRec, h1, h2, hb]
  · intro j hj; simp [Ledger.free, Ledger.setRec, hj]
  · simp [Ledger.free, Ledger.setRec]

/-- the typemap that the skeleton recursion builds for a layout, from the element type's typemap `base`:
    level k is `resized(hvector(count_k, 1, stride_k·size, level k+1), 0, stride_k·size)` -/
def skelTm (base : Typemap) : Layout → Int → Typemap
  | [], _ => Typemap.empty
  | [d], c => Typemap.resized (Typemap.hvector c 1 (d.stride * base.size) base) 0 (d.stride * base.size)
  | d :: d1 :: rest, c =>
    Typemap.resized (Typemap.hvector c 1 (d.stride * base.size) (skelTm base (d1 :: rest) d1.size)) 0 (d.stride * base.size)

/-- **ledger effect of the private skeleton constructor.**  Run on any ledger in which the element datatype `t` is live,
    it adds handles `[L.next, L'.next)`: the returned one is alive, uncommitted and denotes `skelTm`; every other new one
    has been freed exactly once; no old record changes; no erroneous call is made (in particular the destructor of the
    moved-from temporary frees nothing). -/
theorem build_spec : ∀ (lay : Layout) (L : Ledger) (t : Nat) (c : Int), lay ≠ [] → L.live (some t) = true → 0 ≤ c →
    (∀ d ∈ lay.tail, 0 ≤ d.size) →
    ∃ L' h cnt, Skeleton.build L (some t) lay c = (L', ⟨cnt, some h⟩) ∧ L.next ≤ h ∧ h < L'.next ∧ L'.errs = L.errs ∧
      (∀ j, j < L.next → L'.recs j = L.recs j) ∧
      L'.recs h = ⟨skelTm (L.recs t).tm lay c, false, false, 0⟩ ∧
      (∀ j, L.next ≤ j → j < L'.next → j ≠ h → (L'.recs j).freed = 1 ∧ (L'.recs j).builtin = false)
  | [], _, _, _, h, _, _, _ => absurd rfl h
  | [d], L, t, c, _, hlive, hc, _ => by
    obtain ⟨L3, e1, e2, e3, e4, e5, e6, e7⟩ := level_spec L c (d.stride * (L.recs t).tm.size) t hlive hc
    refine ⟨L3, L.next + 1, d.size, ?_, by omega, by omega, e3, e4, e5, ?_⟩
    · simp only [Skeleton.build, Ledger.typeSize, Ledger.tmOf, e1, Skeleton.dtor, Skeleton.null]
    · intro j h1 h2 h3
      have : j = L.next := by omega
      subst this; exact ⟨e6, e7⟩
  | d :: d1 :: rest, L, t, c, _, hlive, hc, hsz => by
    obtain ⟨t1, t2⟩ := live_some.mp hlive
    obtain ⟨L0, h0, cnt0, b1, b2, b3, b4, b5, b6, b7⟩ := build_spec (d1 :: rest) L t d1.size (by simp) hlive (hsz d1 (by simp))
      (fun x hx => hsz x (by simp at hx ⊢; exact Or.inr hx))
    have hlive0 : L0.live (some h0) = true := live_some.mpr ⟨b3, by rw [b6]⟩
    have hsize : (L0.recs t).tm.size = (L.recs t).tm.size := by rw [b5 t t1]
    obtain ⟨L3, e1, e2, e3, e4, e5, e6, e7⟩ := level_spec L0 c (d.stride * (L.recs t).tm.size) h0 hlive0 hc
    have hlive3 : L3.live (some h0) = true := live_some.mpr ⟨by omega, by rw [e4 h0 b3, b6]⟩
    have hb3 : (L3.recs h0).builtin = false := by rw [e4 h0 b3, b6]
    obtain ⟨f1, f2, f3, f4⟩ := free_spec L3 h0 hlive3 hb3
    refine ⟨(L3.free (some h0)).1, L0.next + 1, d.size, ?_, by omega, by omega, by rw [f2, e3, b4], ?_, ?_, ?_⟩
    · simp only [Skeleton.build, b1, Skeleton.moveFrom, Skeleton.dtor, Ledger.typeSize, Ledger.tmOf, hsize, e1]
    · intro j hj
      rw [f3 j (by omega), e4 j (by omega), b5 j hj]
    · rw [f3 _ (by omega), e5, b6]
      simp only [skelTm]
    · intro j h1 h2 h3
      by_cases hj0 : j = h0
      · subst hj0
        rw [f4, e4 j b3, b6]; exact ⟨rfl, rfl⟩
      · rw [f3 j hj0]
        by_cases hj1 : j = L0.next
        · subst hj1; exact ⟨e6, e7⟩
        · have hlt : j < L0.next := by omega
          rw [e4 j hlt]
          exact b7 j h1 hlt hj0

theorem build_count (L : Ledger) (dt : Handle) (d : Dim) (l : Layout) (c : Int) :
    (Skeleton.build L dt (d :: l) c).2.count = d.size := by
  cases l with
  | nil => simp [Skeleton.build]
  | cons d1 rest => simp [Skeleton.build]

/-! ### displacements -/

theorem flatMap_singleton_map {β γ : Type} (l : List β) (f : β → γ) : l.flatMap (fun x => [f x]) = l.map f := by
  induction l with
  | nil => rfl
  | cons x l ih => simp [List.flatMap_cons, ih]

/-- an hvector with blocklength 1: copy j of the old typemap displaced by `j·stride` (the old extent plays no role) -/
theorem hvector_disps (c st : Int) (old : Typemap) :
    (Typemap.hvector c 1 st old).disps = (List.range c.toNat).flatMap fun (j : Nat) => old.disps.map (· + Int.ofNat j * st) := by
  simp only [Typemap.hvector, Typemap.hvectorShifts]
  have : (List.range (1 : Int).toNat) = [0] := by decide
  simp only [this, List.map_cons, List.map_nil, Int.ofNat_eq_natCast, Int.natCast_zero, Int.zero_mul, Int.add_zero]
  rw [flatMap_singleton_map, List.flatMap_map]

/-- displacements of the datatype built for the levels `d :: l`, with `c` repetitions at the top level -/
theorem skelTm_disps (sz : Int) : ∀ (l : Layout) (d : Dim) (c : Int),
    (skelTm (Typemap.basic sz) (d :: l) c).disps =
      (List.range c.toNat).flatMap fun (j : Nat) => l.canonOffs.map fun r => sz * (Int.ofNat j * d.stride + r)
  | [], d, c => by
    simp only [skelTm, Typemap.resized, hvector_disps, Typemap.basic, Layout.canonOffs, List.map_cons, List.map_nil]
    congr 1; funext j; simp only [Int.ofNat_eq_natCast]; congr 1; grind
  | d1 :: rest, d, c => by
    have ih := skelTm_disps sz rest d1 d1.size
    simp only [skelTm, Typemap.resized, hvector_disps, Typemap.basic] at ih ⊢
    rw [ih]
    congr 1; funext j
    simp only [Layout.canonOffs, List.map_flatMap, List.map_map]
    congr 1; funext k
    apply List.map_congr_left
    intro r _
    simp only [Function.comp, Int.ofNat_eq_natCast]
    grind

theorem skelTm_extent (base : Typemap) (d : Dim) (l : Layout) (c : Int) :
    (skelTm base (d :: l) c).extent = d.stride * base.size := by
  cases l <;> simp [skelTm, Typemap.resized, Typemap.extent]

/-- `count = size` copies of the top-level datatype (built with one repetition): the canonical offsets, in bytes -/
theorem message_disps (sz : Int) (d : Dim) (l : Layout) :
    (skelTm (Typemap.basic sz) (d :: l) 1).copies d.size = (Layout.canonOffs (d :: l)).map (sz * ·) := by
  unfold Typemap.copies
  rw [skelTm_extent, skelTm_disps]
  have : (List.range (1 : Int).toNat) = [0] := by decide
  simp only [this, List.flatMap_cons, List.flatMap_nil, List.append_nil, Typemap.basic, Layout.canonOffs, List.map_flatMap, List.map_map]
  congr 1; funext i
  apply List.map_congr_left
  intro r _
  simp only [Function.comp, Int.ofNat_eq_natCast, Int.natCast_zero]
  grind

theorem size_nonneg_of_wf {d : Dim} (h : d.WF) : 0 ≤ d.size := by
  rcases h.cases with h0 | ⟨_, n, hn, _, _, _, _, hsz⟩
  · rw [Dim.size_of_nelems_zero h0]; exact Int.le_refl 0
  · omega

end Mpi
end Multi
