/-
  MultiProofs.ElemIter — the elements() iterator of a view: its state is determined by its linear position
  (`ns_ = from_linear(n_)`), every operation preserves that, and position k designates the element whose index
  tuple has row-major rank k.
-/
import MultiProofs.Radix2

namespace Multi

/-! ### zero-based layout facts -/

theorem zeroBased_sizes (l : Layout) : Layout.sizes (Layout.zeroBased l) = Layout.sizes l := by
  simp [Layout.sizes, Layout.zeroBased, Dim.size, Function.comp_def]

theorem zeroBased_numElements (l : Layout) : Layout.numElements (Layout.zeroBased l) = Layout.numElements l := by
  induction l with
  | nil => rfl
  | cons d l ih =>
    simp only [Layout.zeroBased, List.map_cons, Layout.numElements] at ih ⊢
    rw [ih]; rfl

theorem zeroBased_exts {l : Layout} (hwf : l.WF) : Layout.exts (Layout.zeroBased l) = zexts (Layout.sizes l) := by
  induction l with
  | nil => rfl
  | cons d l ih =>
    have := ih hwf.tail
    simp only [Layout.zeroBased, Layout.exts, Layout.sizes, zexts, List.map_cons, List.map_map] at this ⊢
    rw [this]
    congr 1
    rcases hwf.head.cases with h0 | ⟨f, n, hn, hs, hf, hnn, he, hsz⟩
    · simp [Dim.ext, Dim.size, h0]
    · rw [hsz]
      have : ({ d with offset := 0 } : Dim) = ⟨d.stride, 0 * d.stride, n * d.stride⟩ := by rw [← hnn]; simp
      rw [this, Dim.ext_mk hs hn]; simp

/-- position tuple of an index tuple: `iₖ − firstₖ` -/
def posOf : Layout → List Int → List Int
  | d :: l, i :: is => (i - d.ext.first) :: posOf l is
  | _, _ => []

theorem apply_zeroBased_posOf {l : Layout} {idx : List Int} (hwf : l.WF) (h : InBox l.exts idx) :
    Layout.apply (Layout.zeroBased l) (posOf l idx) = Layout.off l idx := by
  induction l generalizing idx with
  | nil => cases idx <;> simp [Layout.apply, Layout.off, posOf, Layout.zeroBased]
  | cons d l ih =>
    simp only [Layout.exts, List.map_cons] at h
    obtain ⟨t, r, rfl, h1, h2, h3⟩ := inBox_cons h
    have := ih hwf.tail h3
    simp only [Layout.zeroBased, List.map_cons, posOf, Layout.apply, Layout.off] at this ⊢
    rw [this]
    rcases hwf.head.cases with h0 | ⟨f, n, hn, hs, hf, hnn, he, hsz⟩
    · rw [Dim.ext_of_nelems_zero h0] at h1 h2; simp at h1 h2; omega
    · rw [he]; simp only
      rw [hf, Int.sub_mul]; omega

theorem inPos_posOf {l : Layout} {idx : List Int} (hwf : l.WF) (h : InBox l.exts idx) :
    InPos (Layout.sizes l) (posOf l idx) ∧ AllPos (Layout.sizes l) ∧
    rowMajor l.exts idx = Exts.toLinear (zexts (Layout.sizes l)) (posOf l idx) ∧
    nElems l.exts = prodSizes (Layout.sizes l) := by
  induction l generalizing idx with
  | nil =>
    cases idx with
    | nil => simp [InPos, posOf, Layout.sizes, AllPos, rowMajor, Exts.toLinear, zexts, nElems, prodSizes, Layout.exts]
    | cons _ _ => simp [Layout.exts, InBox] at h
  | cons d l ih =>
    simp only [Layout.exts, List.map_cons] at h
    obtain ⟨t, r, rfl, h1, h2, h3⟩ := inBox_cons h
    obtain ⟨i1, i2, i3, i4⟩ := ih hwf.tail h3
    rcases hwf.head.cases with h0 | ⟨f, n, hn, hs, hf, hnn, he, hsz⟩
    · rw [Dim.ext_of_nelems_zero h0] at h1 h2; simp at h1 h2; omega
    · rw [he] at h1 h2; simp at h1 h2
      have hsizes : Layout.sizes (d :: l) = n :: Layout.sizes l := by simp [Layout.sizes, hsz]
      have hexts : Layout.exts (d :: l) = ⟨f, f + n⟩ :: Layout.exts l := by simp [Layout.exts, he]
      have hpos : posOf (d :: l) (t :: r) = (t - f) :: posOf l r := by simp [posOf, he]
      rw [hsizes, hexts, hpos]
      refine ⟨⟨⟨by omega, by omega⟩, i1⟩, ?_, ?_, ?_⟩
      · intro x hx; rcases List.mem_cons.mp hx with h | h
        · subst h; exact hn
        · exact i2 x h
      · simp only [rowMajor]
        rw [i3, i4]
        cases hl : Layout.sizes l with
        | nil =>
          have : posOf l r = [] := by
            cases l with
            | nil => cases r <;> rfl
            | cons _ _ => simp [Layout.sizes] at hl
          simp [Exts.toLinear, zexts, prodSizes, this]
        | cons m ms => rw [toLinear_cons2]
      · simp only [nElems, prodSizes, Ext.size]; rw [i4]
        have : f + n - f = n := by omega
        rw [this]

/-! ### the iterator invariant -/

/-- an elements iterator over view `v` in the state its constructor would produce for position `n` -/
structure GoodIt (v : View) (it : ElemIt) : Prop where
  base : it.base = v.base
  lay : it.lay = Layout.zeroBased v.lay
  xs : it.xs = zexts (Layout.sizes v.lay)
  lo : 0 ≤ it.n
  hi : it.n ≤ prodSizes (Layout.sizes v.lay)
  canon : Exts.fromLinear (zexts (Layout.sizes v.lay)) it.n = some it.ns

theorem GoodIt.unique {v : View} {a b : ElemIt} (ha : GoodIt v a) (hb : GoodIt v b) (h : a.n = b.n) : a = b := by
  cases a; cases b
  have h1 := ha.base; have h2 := hb.base; have h3 := ha.lay; have h4 := hb.lay
  have h5 := ha.xs; have h6 := hb.xs; have h7 := ha.canon; have h8 := hb.canon
  simp only at h h1 h2 h3 h4 h5 h6 h7 h8
  subst h
  rw [h7] at h8
  simp_all

theorem fromLinearG_eq {szs : List Int} (hp : AllPos szs) (k : Int) :
    ElemRange.fromLinearG (zexts szs) k = Exts.fromLinear (zexts szs) k := by
  unfold ElemRange.fromLinearG
  rw [numElements_zexts]
  have := prodSizes_pos hp
  simp; omega

theorem fromLinear_zero {szs : List Int} (hp : AllPos szs) : Exts.fromLinear (zexts szs) 0 = some (zerosLike szs) := by
  have := fromLinear_toLinear hp (inPos_zeros hp)
  rwa [toLinear_zeros] at this

/-- the tuple held by `end()`: `(n₀, 0, …, 0)` -/
def endTuple : List Int → List Int
  | [] => []
  | n :: ns => n :: zerosLike ns

theorem fromLinear_end {szs : List Int} (hp : AllPos szs) (hne : szs ≠ []) :
    Exts.fromLinear (zexts szs) (prodSizes szs) = some (endTuple szs) ∧
    Exts.toLinear (zexts szs) (endTuple szs) = prodSizes szs := by
  cases szs with
  | nil => exact absurd rfl hne
  | cons n ns =>
    cases ns with
    | nil => simp [Exts.fromLinear, Exts.toLinear, zexts, prodSizes, endTuple, zerosLike]
    | cons m ms =>
      have hM := prodSizes_pos hp.tail
      have hM0 : prodSizes (m :: ms) ≠ 0 := by omega
      have hn := hp.head
      constructor
      · rw [fromLinear_cons2]; simp only [hM0, if_false]
        have hk0 : 0 ≤ prodSizes (n :: m :: ms) := Int.le_of_lt (prodSizes_pos hp)
        rw [Int.tdiv_eq_ediv_of_nonneg hk0, Int.tmod_eq_emod_of_nonneg hk0]
        have e1 : prodSizes (n :: m :: ms) % prodSizes (m :: ms) = 0 := by
          show (n * prodSizes (m :: ms)) % prodSizes (m :: ms) = 0
          exact Int.mul_emod_left _ _
        have e2 : prodSizes (n :: m :: ms) / prodSizes (m :: ms) = n := by
          show (n * prodSizes (m :: ms)) / prodSizes (m :: ms) = n
          exact Int.mul_ediv_cancel _ hM0
        rw [e1, e2, fromLinear_zero hp.tail]; rfl
      · show Exts.toLinear (zexts (n :: m :: ms)) (n :: zerosLike (m :: ms)) = n * prodSizes (m :: ms)
        rw [toLinear_cons2, toLinear_zeros]; simp

/-- `from_linear k` exists for every `0 ≤ k ≤ N` and `to_linear` inverts it -/
theorem fromLinear_total {szs : List Int} (hp : AllPos szs) (hne : szs ≠ []) (k : Int) (h0 : 0 ≤ k) (h1 : k ≤ prodSizes szs) :
    ∃ ps, Exts.fromLinear (zexts szs) k = some ps ∧ Exts.toLinear (zexts szs) ps = k ∧
      (k < prodSizes szs → InPos szs ps) ∧ (k = prodSizes szs → ps = endTuple szs) := by
  by_cases hk : k < prodSizes szs
  · obtain ⟨ps, e1, e2, e3⟩ := fromLinear_spec hp hne k h0 hk
    exact ⟨ps, e1, e3, fun _ => e2, fun h => by omega⟩
  · have hk' : k = prodSizes szs := by omega
    subst hk'
    obtain ⟨e1, e2⟩ := fromLinear_end hp hne
    exact ⟨_, e1, e2, fun h => by omega, fun _ => rfl⟩

theorem prev_end {szs : List Int} (hp : AllPos szs) (hne : szs ≠ []) :
    (Exts.prevCanonical (zexts szs) (endTuple szs)).1 = backsLike szs := by
  cases szs with
  | nil => exact absurd rfl hne
  | cons n ns =>
    have hn := hp.head
    cases ns with
    | nil =>
      have : ¬ n = 0 := by omega
      simp [Exts.prevCanonical, zexts, endTuple, zerosLike, backsLike, this]
    | cons m ms =>
      obtain ⟨qs, c, e, hcase⟩ := prev_spec hp.tail (by simp) (inPos_zeros hp.tail)
      rw [toLinear_zeros] at hcase
      rcases hcase with ⟨a1, _⟩ | ⟨_, a2, a3⟩
      · omega
      · subst a2; subst a3
        show (Exts.prevCanonical (zexts (n :: m :: ms)) (n :: zerosLike (m :: ms))).1 = _
        simp only [zexts, List.map_cons, Exts.prevCanonical, Ext.back] at e ⊢
        rw [e]
        have : ¬ n - 1 < 0 := by omega
        simp [this, backsLike]

end Multi
