/-
  C15 — FFTW adaptor equals the direct DFT on any strided views and dimension subset.

  The coefficient type `R` is arbitrary (only `+`, `*`, `0`, `1` are used by the main theorem) and the twiddle family
  `ω N k` is abstract: the statement is pure index bookkeeping, it does not depend on what FFTW's `exp(2πi k/N)` is.
  What is TRUSTED is the contract `GuruPost` of FFTW's guru interface (MultiModel/Fftw.lean): each output location
  holds `Σ_n in[n,b]·Π_d ω(N_d, sign·j_d·n_d)` of the pre-state and nothing else changes.

    * `plan_is_logical_dft`   for every D, mask, sign and pair of well-formed views of equal extents — any strides,
                              in-place included — the post-state of the call built by `fftw_plan_dft` is the logical
                              DFT of the VIEW along exactly the masked dimensions (batched over the others), and
                              memory off the image of the output view is unchanged
    * `input_preserved`       an input view disjoint from the output view is unchanged
    * `front_ends`            dft_forward / dft_backward / the in-place overload are `dft` with sign −1 / +1 / out = in
    * `roundtrip_scales`      (FftRoundtrip) from the orthogonality of ω: forward then backward multiplies every
                              element by the number of transformed points
-/
import MultiProofs.FftRoundtrip

namespace Multi
namespace C15

section
variable {R : Type} [Add R] [Mul R] [OfNat R 0] [OfNat R 1]

/-- the guru call built for `(mask, vin, vout, sign)`: sizes and both stride lists of exactly the masked dimensions go
    to `dims`, those of the others to `howmany_dims`, each size paired with its own two strides -/
theorem plan_fields (mask : List Bool) (vin vout : View) (sign : Int)
    (hsz : vout.lay.sizes = vin.lay.sizes) (hmask : mask.length = vin.lay.length) :
    let c := dft mask vin vout sign
    c.ns = pick mask vin.lay.sizes ∧ c.bs = pickN mask vin.lay.sizes ∧
    c.dims.map IoDim.is = pick mask vin.lay.strides ∧ c.dims.map IoDim.os = pick mask vout.lay.strides ∧
    c.howmany.map IoDim.is = pickN mask vin.lay.strides ∧ c.howmany.map IoDim.os = pickN mask vout.lay.strides ∧
    c.inp = vin.base ∧ c.out = vout.base ∧ c.sign = sign ∧ c.flags = FFTW_ESTIMATE + FFTW_PRESERVE_INPUT := by
  intro c
  have hl : vout.lay.length = vin.lay.length := by
    have := congrArg List.length hsz; simpa [Layout.sizes] using this
  obtain ⟨p1, p2, p3, p4, p5, p6⟩ := planZip_partition mask vin.lay.sizes vin.lay.strides vout.lay.strides
    (by simp [Layout.sizes, hmask]) (by simp [Layout.strides, hmask]) (by simp [Layout.strides, hmask, hl])
  simp only [c, dft, planDft, GuruCall.ns, GuruCall.bs, List.map_map]
  exact ⟨p1, p4, p2, p3, p5, p6, trivial, trivial, trivial, trivial⟩

/-- **C15, main statement.** -/
theorem plan_is_logical_dft (ω : Int → Int → R) (mask : List Bool) (sign : Int) (vin vout : View)
    (hin : vin.lay.WF) (hout : vout.lay.WF) (hext : vin.exts = vout.exts) (hmask : mask.length = vin.lay.length)
    (mem mem' : Int → R) (hpost : GuruPost ω (dft mask vin vout sign) mem mem') :
    (∀ idx, InBox vout.exts idx → mem' (vout.addr idx) = logicalDft ω mask sign vin mem idx) ∧
    (∀ a, (∀ idx, InBox vout.exts idx → a ≠ vout.addr idx) → mem' a = mem a) := by
  have hszi := (C01.shape_functions_agree vin hin).1
  have hszo := (C01.shape_functions_agree vout hout).1
  have hsz : vout.lay.sizes = vin.lay.sizes := by
    show vout.sizes = vin.sizes; rw [hszi, hszo, hext]
  have hlen : vout.lay.length = vin.lay.length := by
    have := congrArg List.length hsz; simpa [Layout.sizes] using this
  obtain ⟨f1, f2, f3, f4, f5, f6, f7, f8, f9, _⟩ := plan_fields mask vin vout sign hsz hmask
  have hmo : mask.length = vout.lay.length := by omega
  -- the output address of a tuple of the box is the guru output address of its (masked, unmasked) relative parts
  have outaddr : ∀ r : List Int, r.length = vout.lay.length → (∀ d ∈ vout.lay, d.nelems ≠ 0) →
      vout.addr (absIdx vout.exts r) = (dft mask vin vout sign).outAddr (pick mask r) (pickN mask r) := by
    intro r hr hne
    rw [addr_eq, View.exts, off_abs vout.lay hout hne r hr, GuruCall.outAddr, f4, f6, f8]
    rw [dot_split mask vout.lay.strides r (by simp [Layout.strides, hmo]) (by omega)]
    omega
  have inaddr : ∀ r : List Int, r.length = vin.lay.length → (∀ d ∈ vin.lay, d.nelems ≠ 0) →
      vin.addr (absIdx vin.exts r) = (dft mask vin vout sign).inAddr (pick mask r) (pickN mask r) := by
    intro r hr hne
    rw [addr_eq, View.exts, off_abs vin.lay hin hne r hr, GuruCall.inAddr, f3, f5, f7]
    rw [dot_split mask vin.lay.strides r (by simp [Layout.strides, hmask]) (by omega)]
    omega
  constructor
  · intro idx hidx
    have hidx' : InBox vin.lay.exts idx := by rw [← View.exts, hext]; exact hidx
    obtain ⟨rin, hne_in⟩ := inBox_rel vin.lay hin idx hidx'
    obtain ⟨rout, hne_out⟩ := inBox_rel vout.lay hout idx hidx
    have hil : idx.length = vout.lay.length := by
      have := inBox_length hidx; simpa [View.exts, Layout.exts] using this
    -- relative index
    have hr : (relIdx vout.exts idx).length = vout.lay.length := by
      rw [relIdx_length vout.exts idx (by simp [View.exts, Layout.exts, hil])]; simp [View.exts, Layout.exts]
    have e1 : idx = absIdx vout.exts (relIdx vout.exts idx) := (abs_rel vout.exts idx (by simp [View.exts, Layout.exts, hil])).symm
    have rng := inRange_pick mask vout.lay.sizes (relIdx vout.exts idx) rout (by simp [Layout.sizes, hmo])
    rw [hsz] at rng
    have hv := hpost.1 (pick mask (relIdx vout.exts idx)) (pickN mask (relIdx vout.exts idx))
      (by rw [f1]; exact rng.1) (by rw [f2]; exact rng.2)
    rw [← outaddr _ hr hne_out, ← e1] at hv
    rw [hv]
    -- both sides are the same sum, term by term
    simp only [GuruCall.value, logicalDft]
    have hNs : (dft mask vin vout sign).ns = pick mask (vin.exts.map Ext.size) := by
      rw [f1]; congr 1
    rw [hNs, f9, ← hext]
    apply sumBox_congr
    intro n hn
    have hrl : (relIdx vin.exts idx).length = mask.length := by
      rw [relIdx_length vin.exts idx (by rw [hext]; simp [View.exts, Layout.exts, hil])]; simp [View.exts, Layout.exts, hmask]
    have hpl : ∀ (m : List Bool) (a : List Ext) (b : List Int), a.length = m.length → b.length = m.length →
        (pick m (a.map Ext.size)).length = (pick m b).length := by
      intro m
      induction m with
      | nil => intro a b _ _; simp [pick]
      | cons w m ih =>
        intro a b ha hb
        cases a with
        | nil => simp at ha
        | cons x a => cases b with
          | nil => simp at hb
          | cons y b => cases w <;> simp [pick, ih a b (by simpa using ha) (by simpa using hb)]
    have hn' : n.length = (pick mask (relIdx vin.exts idx)).length := by
      rw [hn]; exact hpl mask vin.exts _ (by simp [View.exts, Layout.exts, hmask]) hrl
    obtain ⟨s1, s2, s3⟩ := pick_subst mask (relIdx vin.exts idx) n hrl hn'
    rw [inaddr (subst mask (relIdx vin.exts idx) n) (by omega) hne_in, s1, s2]
  · intro a ha
    apply hpost.2
    intro j b hj hb
    rw [f1] at hj; rw [f2] at hb
    rw [← hsz] at hj hb
    obtain ⟨m1, m2, m3⟩ := merge_spec mask vout.lay.sizes j b (by simp [Layout.sizes, hmo]) hj hb
    obtain ⟨b1, b2⟩ := inRange_abs vout.lay hout (merge mask j b) m1
    have hl : (merge mask j b).length = vout.lay.length := by
      have := inRange_length m1; simpa [Layout.sizes] using this
    have := ha (absIdx vout.exts (merge mask j b)) b1
    rw [outaddr _ hl b2, m2, m3] at this
    exact this

/-- **a distinct input is left unchanged**: if no element of the input view is an element of the output view, every
    input element has its old value after the call -/
theorem input_preserved (ω : Int → Int → R) (mask : List Bool) (sign : Int) (vin vout : View)
    (hin : vin.lay.WF) (hout : vout.lay.WF) (hext : vin.exts = vout.exts) (hmask : mask.length = vin.lay.length)
    (mem mem' : Int → R) (hpost : GuruPost ω (dft mask vin vout sign) mem mem')
    (hdisj : ∀ i o, InBox vin.exts i → InBox vout.exts o → vin.addr i ≠ vout.addr o) :
    ∀ idx, InBox vin.exts idx → mem' (vin.addr idx) = mem (vin.addr idx) := by
  intro idx hidx
  exact (plan_is_logical_dft ω mask sign vin vout hin hout hext hmask mem mem' hpost).2 _ (fun o ho => hdisj idx o hidx ho)

end


section
open Lean.Grind
variable {R : Type} [CommRing R]

/-- **forward followed by backward multiplies every element by the number of transformed points.**
    `vin --(mask, s)--> vmid --(mask, −s)--> vout`, any three well-formed views of equal extents (they may coincide:
    in-place), `ω` orthogonal for the transformed sizes (as `exp(2πi k/N)` is): every element of `vout` is
    `(Π_{d masked} N_d) ·` the element of `vin` at the same index tuple (`N` in `R` is `1 + … + 1`). -/
theorem roundtrip_scales (ω : Int → Int → R) (mask : List Bool) (s : Int) (vin vmid vout : View)
    (h1 : vin.lay.WF) (h2 : vmid.lay.WF) (h3 : vout.lay.WF) (e1 : vin.exts = vmid.exts) (e2 : vmid.exts = vout.exts)
    (hmask : mask.length = vin.lay.length)
    (horth : ∀ N ∈ pick mask (vin.exts.map Ext.size), Orth ω s N)
    (mem mem' mem'' : Int → R)
    (hF : GuruPost ω (dft mask vin vmid s) mem mem')
    (hB : GuruPost ω (dft mask vmid vout (-s)) mem' mem'') :
    ∀ idx, InBox vout.exts idx →
      mem'' (vout.addr idx) = cntBox (pick mask (vin.exts.map Ext.size)) * mem (vin.addr idx) := by
  intro idx hidx
  have hlm : vmid.lay.length = vin.lay.length := by
    have := congrArg List.length e1; simp [View.exts, Layout.exts] at this; omega
  obtain ⟨F, _⟩ := plan_is_logical_dft ω mask s vin vmid h1 h2 e1 hmask mem mem' hF
  obtain ⟨B, _⟩ := plan_is_logical_dft ω mask (-s) vmid vout h2 h3 e2 (by omega) mem' mem'' hB
  rw [B idx hidx]
  have hidm : InBox vmid.lay.exts idx := by rw [← View.exts, e2]; exact hidx
  obtain ⟨rr0, _⟩ := inBox_rel vmid.lay h2 idx hidm
  have rr : InRange vmid.lay.sizes (relIdx vmid.exts idx) := rr0
  have hil : idx.length = vmid.exts.length := by rw [e2]; exact inBox_length hidx
  have hel : vmid.exts.length = mask.length := by simp [View.exts, Layout.exts]; omega
  have hrl : (relIdx vmid.exts idx).length = mask.length := by rw [relIdx_length _ _ hil]; exact hel
  have hszm := (C01.shape_functions_agree vmid h2).1
  have hsz : vmid.lay.sizes = vmid.exts.map Ext.size := hszm
  simp only [logicalDft]
  -- rewrite every term of the outer sum with the forward step
  have inner : ∀ k, InRange (pick mask (vmid.exts.map Ext.size)) k →
      mem' (vmid.addr (absIdx vmid.exts (subst mask (relIdx vmid.exts idx) k)))
        = sumBox (pick mask (vmid.exts.map Ext.size)) (fun n =>
            mem (vin.addr (absIdx vmid.exts (subst mask (relIdx vmid.exts idx) n))) * twiddle ω s (pick mask (vmid.exts.map Ext.size)) k n) := by
    intro k hk
    have hsr : InRange vmid.lay.sizes (subst mask (relIdx vmid.exts idx) k) :=
      subst_inRange mask _ _ k (by simp [Layout.sizes]; omega) rr (by rw [hsz]; exact hk)
    obtain ⟨bx, _⟩ := inRange_abs vmid.lay h2 _ hsr
    have bx' : InBox vmid.exts (absIdx vmid.exts (subst mask (relIdx vmid.exts idx) k)) := bx
    rw [F _ bx']
    simp only [logicalDft]
    rw [e1]
    have hkl : k.length = (pick mask (relIdx vmid.exts idx)).length := by
      have a := inRange_length hk
      have b := inRange_length (inRange_pick mask vmid.lay.sizes _ rr (by simp [Layout.sizes]; omega)).1
      rw [hsz] at b; omega
    obtain ⟨p1, _, p3⟩ := pick_subst mask (relIdx vmid.exts idx) k hrl hkl
    rw [rel_abs vmid.exts _ (by omega), p1]
    apply sumBox_congr
    intro n _
    rw [subst_subst mask _ k n hrl hkl]
  rw [sumBox_congr_range _ (fun k hk => by rw [inner k hk])]
  have hjr := (inRange_pick mask vmid.lay.sizes _ rr (by simp [Layout.sizes]; omega)).1
  rw [hsz] at hjr
  have := dft_inversion ω s (pick mask (vmid.exts.map Ext.size)) (by rw [← e1]; exact horth)
    (fun n => mem (vin.addr (absIdx vmid.exts (subst mask (relIdx vmid.exts idx) n)))) (pick mask (relIdx vmid.exts idx)) hjr
  rw [this, subst_pick mask _ hrl, abs_rel _ _ hil, e1]

end

/-- the front ends are `dft` with the documented sign / with the output equal to the input -/
theorem front_ends (mask : List Bool) (vin vout : View) :
    dftForward mask vin vout = dft mask vin vout (-1) ∧ dftBackward mask vin vout = dft mask vin vout 1 ∧
    (∀ s, dftInPlace mask vin s = dft mask vin vin s) := ⟨rfl, rfl, fun _ => rfl⟩

/-! non-vacuity: a rotated 2×3×4 sub-block into a transposed block, mask (1,0,1) -/
example : ∃ vin vout : View, vin.lay.WF ∧ vout.lay.WF ∧ vin.exts = vout.exts ∧ vin.exts = [⟨0, 3⟩, ⟨0, 4⟩, ⟨0, 2⟩] ∧
    (dft [true, false, true] vin vout (-1)).dims = [⟨3, 4, 2⟩, ⟨2, 12, 1⟩] ∧
    (dft [true, false, true] vin vout (-1)).howmany = [⟨4, 1, 6⟩] := by
  refine ⟨(⟨0, Layout.ofExts [⟨0, 2⟩, ⟨0, 3⟩, ⟨0, 4⟩]⟩ : View).rotated, (⟨100, Layout.ofExts [⟨0, 4⟩, ⟨0, 3⟩, ⟨0, 2⟩]⟩ : View).transposed, ?_, ?_, by decide +kernel, by decide +kernel, by decide +kernel, by decide +kernel⟩
  · have := (C01.root_denotes [⟨0, 2⟩, ⟨0, 3⟩, ⟨0, 4⟩] (by decide)).1
    exact (C01.op_refines Op.rotated ⟨0, _⟩ this trivial).1
  · have := (C01.root_denotes [⟨0, 4⟩, ⟨0, 3⟩, ⟨0, 2⟩] (by decide)).1
    exact (C01.op_refines Op.transposed ⟨100, _⟩ this (by decide)).1


/-! non-vacuity of the orthogonality hypothesis: over `Int`, `ω N k = (−1)^k` is orthogonal for `N = 2` (the DFT of size 2)
    and any `ω` with `ω 1 0 = 1` for `N = 1` -/
example : Orth (R := Int) (fun _ k => if k % 2 = 0 then 1 else -1) (-1) 2 := by
  intro j n hj hn
  have hj' : j = 0 ∨ j = 1 := by omega
  have hn' : n = 0 ∨ n = 1 := by omega
  rcases hj' with rfl | rfl <;> rcases hn' with rfl | rfl <;> decide

end C15
end Multi
