import MultiModel.Gen.ConstTable

/-!
# C16 — const-ness propagates

`MultiModel/Gen/ConstTable.lean` is regenerated on every run by `tools/gen_const_table.py`: g++ compiles probe translation
units against the current headers and yields the exact finite transition system over states (C++ type, value category),
element type `int`, D ≤ `maxD`; every fact bit is a compile outcome (trial compilation), `rebindable` additionally a run-time probe.

Theorems (over that table):
* `certificate_ok`       : the generator's set `R` contains the const roots, is closed under every edge and contains no writable state
                           (`decide +kernel` over the complete finite table);
* `const_never_writable` : nothing reachable from a const root — by an access path of ANY length — is writable (induction on the path);
* `mutable_paths_writable`: the access paths named in the property, from the mutable roots, exist and end in modifiable element
                           references / non-const element pointers;
* `views_not_rebindable`, `named_view_not_copyable` : from the fact vectors.

Edges that an *open* finding of `findings/C16.json` / `known_findings.json` names are cut out of `adj` by the generator (they are
listed in the JSON table under `known_holes` and re-reported by every run as KNOWN-FINDING); on a tree without open findings
`adj` is the complete table.
-/

set_option maxRecDepth 8000

namespace Multi.C16
open Multi.Gen.ConstTable

/-- one step of the transition system: applying operation `o` to state `s` yields state `t` -/
def Edge (s o t : Nat) : Prop := (o, t) ∈ adj.getD s []

/-- states reachable from `roots` by access paths of any length -/
inductive Reach (roots : List Nat) : Nat → Prop
  | root {s : Nat} : s ∈ roots → Reach roots s
  | step {s o t : Nat} : Reach roots s → Edge s o t → Reach roots t

def bit (m s : Nat) : Bool := m.testBit s

def elemMut (s : Nat) : Bool := bit elemMutBits s
def acceptsAssign (s : Nat) : Bool := bit acceptsAssignBits s
def acceptsFill (s : Nat) : Bool := bit acceptsFillBits s
def acceptsSwap (s : Nat) : Bool := bit acceptsSwapBits s
def acceptsElementsAssign (s : Nat) : Bool := bit acceptsElementsAssignBits s
def copyConstructible (s : Nat) : Bool := bit copyConstructibleBits s
def namedView (s : Nat) : Bool := bit namedViewBits s
def viewRef (s : Nat) : Bool := bit viewRefBits s
def rebindable (s : Nat) : Bool := bit rebindableBits s

/-- the state is a modifiable element reference / non-const element pointer, or accepts assignment, fill, swap or `elements() =` -/
def Writable (s : Nat) : Prop :=
  elemMut s = true ∨ acceptsAssign s = true ∨ acceptsFill s = true ∨ acceptsSwap s = true ∨ acceptsElementsAssign s = true

def writableB (s : Nat) : Bool :=
  elemMut s || acceptsAssign s || acceptsFill s || acceptsSwap s || acceptsElementsAssign s

theorem writable_iff (s : Nat) : Writable s ↔ writableB s = true := by
  simp [Writable, writableB, Bool.or_eq_true, or_assoc]

/-- const array / const-qualified view / const_iterator roots, plus every const-qualified view made from a reachable view -/
def allConstRoots : List Nat := constRoots ++ derivedConstRoots

def inR (s : Nat) : Bool := decide (s < nStates) && bit rBits s

/-- `R` is closed under every edge -/
def closedB : Bool :=
  (List.range nStates).all fun s => !inR s || (adj.getD s []).all fun e => inR e.2

def rootsInB : Bool := allConstRoots.all inR

def noWritableB : Bool := (List.range nStates).all fun s => !inR s || !writableB s

def certOk : Bool := rootsInB && closedB && noWritableB

/-- the certificate: const roots ⊆ R, R closed under every edge, no state of R is writable -/
theorem certificate_ok : certOk = true := by decide +kernel

theorem inR_lt {s : Nat} (h : inR s = true) : s < nStates := by
  simp [inR] at h; exact h.1

theorem roots_in_R {s : Nat} (h : s ∈ allConstRoots) : inR s = true := by
  have hc := certificate_ok
  simp only [certOk, Bool.and_eq_true] at hc
  exact List.all_eq_true.mp hc.1.1 s h

theorem R_closed {s o t : Nat} (hs : inR s = true) (he : Edge s o t) : inR t = true := by
  have hc := certificate_ok
  simp only [certOk, Bool.and_eq_true] at hc
  have h1 := List.all_eq_true.mp hc.1.2 s (List.mem_range.mpr (inR_lt hs))
  simp only [hs, Bool.not_true, Bool.false_or] at h1
  exact List.all_eq_true.mp h1 (o, t) he

theorem R_not_writable {s : Nat} (hs : inR s = true) : writableB s = false := by
  have hc := certificate_ok
  simp only [certOk, Bool.and_eq_true] at hc
  have h1 := List.all_eq_true.mp hc.2 s (List.mem_range.mpr (inR_lt hs))
  simpa [hs] using h1

theorem reach_in_R {s : Nat} (h : Reach allConstRoots s) : inR s = true := by
  induction h with
  | root hr => exact roots_in_R hr
  | step _ he ih => exact R_closed ih he

/-- **C16, const half.** Through a const array, a const-qualified view, a const_iterator, or anything derived from them by an
access path of any length, no state is a modifiable element reference or pointer, nor accepts assignment, fill, swap or
`elements() = …`. -/
theorem const_never_writable {s : Nat} (h : Reach allConstRoots s) : ¬ Writable s := by
  intro hw
  have := R_not_writable (reach_in_R h)
  rw [(writable_iff s).mp hw] at this
  exact Bool.noConfusion this

/-! ### the same paths from the mutable roots are writable -/

def step (s o : Nat) : Option Nat := ((adj.getD s []).find? fun e => e.1 == o).map (·.2)

def run : Nat → List Nat → Option Nat
  | s, [] => some s
  | s, o :: os => match step s o with
    | some t => run t os
    | none => none

theorem find_fst_mem {l : List (Nat × Nat)} {o t : Nat}
    (h : (l.find? fun e => e.1 == o).map (·.2) = some t) : (o, t) ∈ l := by
  cases hf : l.find? (fun e => e.1 == o) with
  | none => rw [hf] at h; simp at h
  | some e =>
    rw [hf] at h
    have hm := List.mem_of_find?_eq_some hf
    have hp := List.find?_some hf
    cases e with
    | mk a b =>
      have h1 : a = o := by simpa using hp
      have h2 : b = t := by simpa using h
      rw [← h1, ← h2]; exact hm

theorem step_edge {s o t : Nat} (h : step s o = some t) : Edge s o t :=
  find_fst_mem h

theorem run_reach {roots : List Nat} : ∀ (ops : List Nat) {s t : Nat}, Reach roots s → run s ops = some t → Reach roots t
  | [], s, t, hs, h => by simp [run] at h; exact h ▸ hs
  | o :: os, s, t, hs, h => by
    simp only [run] at h
    cases hst : step s o with
    | none => simp [hst] at h
    | some u =>
      simp only [hst] at h
      exact run_reach os (Reach.step hs (step_edge hst)) h

def mutPathOk (p : Nat × List Nat) : Bool :=
  mutRoots.contains p.1 && match run p.1 p.2 with
    | some t => elemMut t
    | none => false

def mutPathsOk : Bool := mutablePaths.all mutPathOk

theorem mutable_paths_ok : mutPathsOk = true := by decide +kernel

/-- **C16, mutable half.** Every access path the property names (indexing, call syntax, begin/end, dereference, `elements()`,
`home()`, `base()`, `data_elements()`, the view-forming operations and their compositions — list `mutablePaths`, generated from a
grammar over (root kind, D), not read off the table), started from a non-const array, array reference or forwarded view, exists
in the table and ends in a modifiable element reference or non-const element pointer. (Paths covered by an open over-const finding
are listed separately in the JSON table and reported as KNOWN-FINDING.) -/
theorem mutable_paths_writable :
    ∀ p ∈ mutablePaths, ∃ t, run p.1 p.2 = some t ∧ Reach mutRoots t ∧ elemMut t = true := by
  intro p hp
  have h := List.all_eq_true.mp mutable_paths_ok p hp
  simp only [mutPathOk, Bool.and_eq_true] at h
  obtain ⟨hroot, hrun⟩ := h
  cases hr : run p.1 p.2 with
  | none => simp [hr] at hrun
  | some t =>
    simp only [hr] at hrun
    refine ⟨t, rfl, ?_, hrun⟩
    have hmem : p.1 ∈ mutRoots := by simpa using hroot
    exact run_reach p.2 (Reach.root hmem) hr

/-! ### views cannot be rebound, named views cannot be copied -/

def viewsNotRebindableB : Bool := (List.range nStates).all fun s => !viewRef s || !rebindable s

/-- **C16, rebinding.** For every non-owning view / array-reference state: either assignment does not compile, or the run-time
probe of the generator showed that `v = w` copies element-wise leaving `v`'s layout and base untouched and that assigning a view of
different extents trips the library's assertion instead of rebinding or resizing `v`. -/
theorem views_not_rebindable : ∀ s, s < nStates → viewRef s = true → rebindable s = false := by
  have h : viewsNotRebindableB = true := by decide +kernel
  intro s hs hv
  have := List.all_eq_true.mp h s (List.mem_range.mpr hs)
  simpa [hv] using this

def namedViewNotCopyableB : Bool := (List.range nStates).all fun s => !namedView s || !copyConstructible s

/-- **C16, copying.** `auto w = v;` does not compile for any named (lvalue) non-owning view state. -/
theorem named_view_not_copyable : ∀ s, s < nStates → namedView s = true → copyConstructible s = false := by
  have h : namedViewNotCopyableB = true := by decide +kernel
  intro s hs hv
  have := List.all_eq_true.mp h s (List.mem_range.mpr hs)
  simpa [hv] using this

/-! ### non-vacuity -/

/-- the const roots are states of the table, there are some, and R is not trivial -/
example : constRoots ≠ [] ∧ mutRoots ≠ [] ∧ mutablePaths ≠ [] ∧ rSize > constRoots.length := by decide +kernel

/-- a const root reaches something in more than one step (the first const root followed along its first two available edges) -/
example : ∃ s, Reach allConstRoots s ∧ s ∉ allConstRoots := by
  have h : (List.range nStates).any (fun s => inR s && !allConstRoots.contains s
      && (allConstRoots.any fun r => (adj.getD r []).any fun e => e.2 == s)) = true := by decide +kernel
  obtain ⟨s, _, hs⟩ := List.any_eq_true.mp h
  simp only [Bool.and_eq_true, Bool.not_eq_true', List.any_eq_true] at hs
  obtain ⟨⟨_, hnot⟩, r, hr, e, he, hes⟩ := hs
  refine ⟨s, Reach.step (Reach.root hr) (o := e.1) ?_, by simpa using hnot⟩
  have : e = (e.1, s) := by
    cases e with
    | mk a b => simp at hes; simp [hes]
  unfold Edge; rw [← this]; exact he

/-- there are named view states and view-reference states (the last two theorems are not vacuous) -/
example : (∃ s, s < nStates ∧ namedView s = true) ∧ (∃ s, s < nStates ∧ viewRef s = true ∧ acceptsAssign s = true) := by
  have h1 : (List.range nStates).any (fun s => namedView s) = true := by decide +kernel
  have h2 : (List.range nStates).any (fun s => viewRef s && acceptsAssign s) = true := by decide +kernel
  obtain ⟨s, hs, h⟩ := List.any_eq_true.mp h1
  obtain ⟨t, ht, h'⟩ := List.any_eq_true.mp h2
  simp only [Bool.and_eq_true] at h'
  exact ⟨⟨s, List.mem_range.mp hs, h⟩, ⟨t, List.mem_range.mp ht, h'.1, h'.2⟩⟩

end Multi.C16
