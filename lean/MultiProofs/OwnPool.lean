/-
  MultiProofs.OwnPool — operations on a pool of named arrays: the model's step, the documented (abstract) step,
  and the generic lemma that lifts a one-array `Outcome` to the pool (helper lemmas for C04 / C06).
-/
import MultiProofs.OwnOps

namespace Multi
namespace Own
variable {α : Type}

/-- function update -/
def upd {β : Type} (f : Nat → β) (k : Nat) (v : β) : Nat → β := fun j => if j = k then v else f j

@[simp] theorem upd_same {β : Type} (f : Nat → β) (k : Nat) (v : β) : upd f k v k = v := by simp [upd]
theorem upd_other {β : Type} (f : Nat → β) {k j : Nat} (v : β) (h : j ≠ k) : upd f k v j = f j := by simp [upd, h]

theorem Pool.set_arrs (p : Pool α) (k : Nat) (a : Option Arr) : (p.set k a).arrs = upd p.arrs k a := rfl
@[simp] theorem Pool.set_heap (p : Pool α) (k : Nat) (a : Option Arr) : (p.set k a).heap = p.heap := rfl
@[simp] theorem Pool.withHeap_heap (p : Pool α) (h : Heap α) : (p.withHeap h).heap = h := rfl
@[simp] theorem Pool.withHeap_arrs (p : Pool α) (h : Heap α) : (p.withHeap h).arrs = p.arrs := rfl

/-- the empty value of dimensionality `D` -/
def emptyVal (D : Nat) : AbsArr α := ⟨List.replicate D ⟨0, 0⟩, []⟩

/-- **lifting**: an operation that rebuilds the array of slot `k`, touches at most the block the old occupant of `k` owned and
    ends with a block no other array owns keeps the pool invariant, gives slot `k` the operation's value and leaves every other
    array's value alone -/
theorem Inv.replace' {p : Pool α} (hi : Inv p) (k : Nat) {h' : Heap α} {a' : Arr} {val : AbsArr α} {M : Nat → Prop}
    (hframe : Frame p.heap h' M) (hub : h'.ub = p.heap.ub) (hasrt : h'.asrt = p.heap.asrt)
    (hvalid : Valid h' a') (habs : absArr h' a' = val)
    (hM : ∀ b, M b → ∃ a, p.arrs k = some a ∧ ownBlock a b)
    (hfree : a'.numElements ≠ 0 → ∀ j b, j ≠ k → p.arrs j = some b → b.numElements ≠ 0 → b.base ≠ a'.base) :
    Inv ((p.withHeap h').set k (some a')) ∧ absPool ((p.withHeap h').set k (some a')) = upd (absPool p) k (some val) := by
  -- every other array is outside the modified set
  have hother : ∀ j b, j ≠ k → p.arrs j = some b → Valid h' b ∧ cellsOf h' b = cellsOf p.heap b := by
    intro j b hjk hb
    apply (hi.valid j b hb).frame hframe
    intro hn x hx hm
    obtain ⟨a, ha, hown⟩ := hM x hm
    exact hi.sep j k b a hjk hb ha hn hown.1 (by rw [hx, hown.2])
  constructor
  · refine ⟨by simp [hub, hi.noub], by simp [hasrt, hi.noasrt], ?_, ?_⟩
    · intro j b hb
      simp only [Pool.set_arrs, Pool.withHeap_arrs, upd] at hb
      simp only [Pool.set_heap, Pool.withHeap_heap]
      by_cases hjk : j = k
      · simp only [hjk, if_true] at hb; rw [← Option.some.inj hb]; exact hvalid
      · simp only [hjk, if_false] at hb; exact (hother j b hjk hb).1
    · intro i j b c hij hb hc hnb hnc
      simp only [Pool.set_arrs, Pool.withHeap_arrs, upd] at hb hc
      by_cases hik : i = k
      · have hjk : j ≠ k := fun e => hij (hik.trans e.symm)
        simp only [hik, if_true] at hb; simp only [hjk, if_false] at hc
        rw [← Option.some.inj hb] at hnb ⊢
        exact fun e => hfree hnb j c hjk hc hnc e.symm
      · simp only [hik, if_false] at hb
        by_cases hjk : j = k
        · simp only [hjk, if_true] at hc
          rw [← Option.some.inj hc] at hnc ⊢
          exact hfree hnc i b hik hb hnb
        · simp only [hjk, if_false] at hc
          exact hi.sep i j b c hij hb hc hnb hnc
  · funext j
    simp only [absPool, Pool.set_arrs, Pool.withHeap_arrs, Pool.set_heap, Pool.withHeap_heap, upd]
    by_cases hjk : j = k
    · simp only [hjk, if_true, Option.map_some]; rw [habs]
    · simp only [hjk, if_false]
      cases hb : p.arrs j with
      | none => rfl
      | some b =>
        simp only [Option.map_some]
        congr 1
        unfold absArr
        rw [(hother j b hjk hb).2]

/-- the same for an `Outcome`: the new block is the old own block or a fresh one -/
theorem Inv.replace {p : Pool α} (hi : Inv p) (k : Nat) {h' : Heap α} {a' : Arr} {val : AbsArr α} {M : Nat → Prop}
    (ho : Outcome p.heap h' M a' val)
    (hM : ∀ b, M b → ∃ a, p.arrs k = some a ∧ ownBlock a b) :
    Inv ((p.withHeap h').set k (some a')) ∧ absPool ((p.withHeap h').set k (some a')) = upd (absPool p) k (some val) := by
  apply hi.replace' k ho.frame ho.ub ho.asrt ho.valid ho.abs hM
  intro hna j b hjk hb hnb he
  rcases (hi.valid j b hb).store with hz | ⟨x, cs, hx, hl, _⟩
  · exact hnb hz
  · rcases ho.own hna x (by rw [← he, hx]) with hm | hfresh
    · obtain ⟨a, ha, hown⟩ := hM x hm
      exact hi.sep j k b a hjk hb ha hnb hown.1 (by rw [hx, hown.2])
    · have := hl.lt; omega

/-- an empty slot owns nothing -/
theorem noOwner {p : Pool α} {k : Nat} (hk : p.arrs k = none) : ∀ b, (fun _ : Nat => False) b → ∃ a, p.arrs k = some a ∧ ownBlock a b :=
  fun _ hf => False.elim hf

theorem ownOf {p : Pool α} {k : Nat} {a : Arr} (hk : p.arrs k = some a) : ∀ b, ownBlock a b → ∃ a', p.arrs k = some a' ∧ ownBlock a' b :=
  fun _ ho => ⟨a, hk, ho⟩

end Own
end Multi
