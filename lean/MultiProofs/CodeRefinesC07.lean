/-
  C07 stated directly about the regenerated comparison code (see CodeRefines.lean)
-/
import MultiProofs.C07
import MultiProofs.GenTieStore

namespace Multi.CodeRefines
open Multi Multi.Gen

variable {α : Type}

/-- **C07 on the regenerated `operator==` of views** (D > 1 member/friend): true exactly for equal extents and equal elements -/
theorem code_eq_iff [DecidableEq α] (b : Int) (d : Dim) (sub : Layout) (o : View) (m : Mem α)
    (ha : Layout.WF (d :: sub)) (hb : o.lay.WF) (hlen : (d :: sub).length = o.lay.length) :
    ∃ r, V_eq ⟨b, d :: sub⟩ o m = some r ∧
      (r = true ↔ (Exts.eqv (View.mk b (d :: sub)).exts o.exts = true ∧
        ∀ idx, InBox (View.mk b (d :: sub)).exts idx → m ((View.mk b (d :: sub)).addr idx) = m (o.addr idx))) := by
  rw [GenTieStore.V_eq_tie]
  exact C07.eq_iff _ o m ha hb (by simp) hlen

end Multi.CodeRefines
