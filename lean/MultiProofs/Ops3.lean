/-
  MultiProofs.Ops3 — flatted and diagonal.
-/
import MultiProofs.Ops2

namespace Multi

theorem Refines_empty (v w : View) (shape : List Ext) (m : List Int → List Int)
    (hwf : w.lay.WF) (hs : w.exts = shape) (hempty : ∀ idx, ¬ InBox shape idx) : Refines v w shape m :=
  ⟨hwf, hs, fun idx h => absurd h (hempty idx)⟩

theorem flatted_refines (v : View) (hwf : v.lay.WF) (hd : Op.flatted.InDomain v) :
    Refines v v.flatted (Op.flatted.specShape v.exts) (Op.flatted.specMap v.exts) := by
  obtain ⟨hlen, hflat, hzero⟩ := hd
  cases hv : v.lay with
  | nil => simp [hv] at hlen
  | cons d0 l =>
    cases l with
    | nil => simp [hv] at hlen
    | cons d1 sub =>
      have hd0 : d0.WF := by rw [hv] at hwf; exact hwf.head
      have hd1 : d1.WF := by rw [hv] at hwf; exact hwf.tail.head
      have hsub : Layout.WF sub := by rw [hv] at hwf; exact hwf.tail.tail
      have hex : v.exts = d0.ext :: d1.ext :: Layout.exts sub := by simp [View.exts, hv, Layout.exts]
      have key : v.flatted = ⟨v.base, { d1 with nelems := d1.nelems * d0.size } :: sub⟩ := by
        simp [View.flatted, hv]
      rw [key, hex]
      rw [View.ext_cons hv] at hzero
      simp only [View.isFlattable, hv, Bool.or_eq_true, decide_eq_true_eq, beq_iff_eq] at hflat
      rw [hex] at hzero
      rcases hd0.cases with h0 | ⟨f0, N0, hN0, hst0, hf0, hnn0, he0, hsz0⟩
      · -- leading dimension empty
        have hs0 : d0.size = 0 := Dim.size_of_nelems_zero h0
        have hshape : Op.flatted.specShape (d0.ext :: d1.ext :: Layout.exts sub) = ⟨0, 0⟩ :: Layout.exts sub := by
          simp [Op.specShape, Dim.ext_of_nelems_zero h0, Ext.size]
        rw [hshape]
        apply Refines_empty
        · exact Layout.WF.cons (d := { d1 with nelems := d1.nelems * d0.size }) (Or.inl (by simp [hs0])) hsub
        · simp [View.exts, Layout.exts, Dim.ext, hs0]
        · intro idx h; obtain ⟨t, r, rfl, h1, h2, _⟩ := inBox_cons h; simp at h1 h2; omega
      · by_cases hone : N0 = 1
        · -- size one: the sub-view at the single index
          subst hone
          have hsz' : (Ext.size ⟨f0, f0 + 1⟩) = 1 := by simp [Ext.size]; omega
          have hshape : Op.flatted.specShape (d0.ext :: d1.ext :: Layout.exts sub) = d1.ext :: Layout.exts sub := by
            simp only [Op.specShape, he0, hsz']; simp
          have hd' : ({ d1 with nelems := d1.nelems * d0.size } : Dim) = d1 := by rw [hsz0]; simp
          rw [hshape, hd']
          refine ⟨Layout.WF.cons hd1 hsub, by simp [View.exts, Layout.exts], ?_⟩
          intro idx hidx
          obtain ⟨k, r, rfl, h1, h2, h3⟩ := inBox_cons hidx
          have hm : Op.flatted.specMap (d0.ext :: d1.ext :: Layout.exts sub) (k :: r) = f0 :: k :: r := by
            simp only [Op.specMap, he0, hsz']; simp
          rw [hm, addr_eq, addr_eq, hv]
          constructor
          · simp only [Layout.off]; rw [hf0]; omega
          · rw [hex, he0]; simp only [InBox]; exact ⟨⟨by omega, by omega⟩, ⟨h1, h2⟩, h3⟩
        · -- at least two rows: stride0 = nelems1 and zero-based
          have hN2 : 2 ≤ N0 := by omega
          have hst : d0.stride = d1.nelems := by
            rcases hflat with h | h
            · rw [hsz0] at h; omega
            · exact h
          have hz : d0.ext.first = 0 ∧ d1.ext.first = 0 := by
            rcases hzero with h | h
            · rw [he0] at h; simp [Ext.size] at h; omega
            · exact ⟨h _ (by simp), h _ (by simp)⟩
          rcases hd1.cases with h1 | ⟨f1, N1, hN1, hst1, hf1, hnn1, he1, hsz1⟩
          · omega
          · rw [he0] at hz; rw [he1] at hz
            obtain ⟨hz0, hz1⟩ := hz
            simp at hz0 hz1
            subst hz0; subst hz1
            have hN01 : 0 < N0 * N1 := Int.mul_pos hN0 hN1
            have hshape : Op.flatted.specShape (d0.ext :: d1.ext :: Layout.exts sub) = ⟨0, 0 + N0 * N1⟩ :: Layout.exts sub := by
              have a : N0 ≠ 0 := by omega
              simp [Op.specShape, he0, he1, Ext.size, a, hone]
            have hd' : ({ d1 with nelems := d1.nelems * d0.size } : Dim) = ⟨d1.stride, 0 * d1.stride, (N0 * N1) * d1.stride⟩ := by
              have a1 : d1.offset = 0 * d1.stride := by rw [hf1]
              have a2 : d1.nelems * d0.size = N0 * N1 * d1.stride := by rw [hsz0, hnn1]; grind
              rw [← a1, ← a2]
            rw [hshape, hd']
            refine ⟨Layout.WF.cons (Dim.wf_mk hst1 hN01) hsub, ?_, ?_⟩
            · simp only [View.exts, Layout.exts, List.map_cons]; rw [Dim.ext_mk hst1 hN01]
            · intro idx hidx
              obtain ⟨k, r, rfl, hk1, hk2, h3⟩ := inBox_cons hidx
              simp at hk1 hk2
              have hN1' : N1 ≠ 0 := by omega
              have hm : Op.flatted.specMap (d0.ext :: d1.ext :: Layout.exts sub) (k :: r) = k.tdiv N1 :: k.tmod N1 :: r := by
                simp [Op.specMap, he0, he1, Ext.size, hone]
              rw [hm, addr_eq, addr_eq, hv]
              have hq : k.tdiv N1 = k / N1 := Int.tdiv_eq_ediv_of_nonneg hk1
              have hr : k.tmod N1 = k % N1 := Int.tmod_eq_emod_of_nonneg hk1
              have hdm : N1 * (k / N1) + k % N1 = k := Int.mul_ediv_add_emod k N1
              have hr0 : 0 ≤ k % N1 := Int.emod_nonneg k hN1'
              have hr1 : k % N1 < N1 := Int.emod_lt_of_pos k hN1
              have hq0 : 0 ≤ k / N1 := Int.ediv_nonneg hk1 (Int.le_of_lt hN1)
              have hq1 : k / N1 < N0 := by
                apply Int.ediv_lt_of_lt_mul hN1; exact hk2
              constructor
              · simp only [Layout.off]
                rw [hq, hr, hst, hnn1]
                have e0 : d0.offset = 0 := by rw [hf0]; simp
                have e1 : d1.offset = 0 := by rw [hf1]; simp
                have : k / N1 * (N1 * d1.stride) + k % N1 * d1.stride = (N1 * (k / N1) + k % N1) * d1.stride := by grind
                rw [hdm] at this
                simp only [Int.zero_mul, e0, e1]; omega
              · rw [hex, he0, he1, hq, hr]; simp only [InBox]
                exact ⟨⟨by omega, by omega⟩, ⟨by omega, by omega⟩, h3⟩


/-- the D>1 code path of `sliced_aux_` -/
theorem sliced_ge2 (v : View) (a b : Int) (d d1 : Dim) (l : Layout) (hv : v.lay = d :: d1 :: l) :
    v.sliced a b = ⟨v.base + (a * d.stride - d.offset), { d with nelems := d.stride * (b - a) } :: d1 :: l⟩ := by
  simp [View.sliced, hv]

theorem range_ge2 (v : View) (a b : Int) (d d1 : Dim) (l : Layout) (hv : v.lay = d :: d1 :: l) :
    v.range a b = ⟨v.base + (a * d.stride - d.offset), { d with nelems := d.stride * (b - a) } :: d1 :: l⟩ := by
  unfold View.range
  have : a + (b - a) = b := by omega
  rw [this]; exact sliced_ge2 v a b d d1 l hv

/-- layout and base of `(*this)({0, sq}, {0, sq})` as computed by `paren_aux_` -/
theorem diag_paren (v : View) (sq : Int) (d0 d1 : Dim) (sub : Layout) (hv : v.lay = d0 :: d1 :: sub) :
    v.paren [Arg.rng 0 sq, Arg.rng 0 sq] =
      ⟨v.base + (0 * d0.stride - d0.offset) + (0 * d1.stride - d1.offset),
        { d0 with nelems := d0.stride * (sq - 0) } :: { d1 with nelems := d1.stride * (sq - 0) } :: sub⟩ := by
  simp only [View.paren]
  rw [range_ge2 v 0 sq d0 d1 sub hv]
  simp only [View.rotated, rotate_cons]
  cases sub with
  | nil =>
    rw [range_ge2 _ 0 sq d1 { d0 with nelems := d0.stride * (sq - 0) } [] (by simp)]
    simp [View.unrotated, rotate_cons, Layout.unrotate, Layout.transpose]
  | cons d2 sub' =>
    rw [range_ge2 _ 0 sq d1 d2 (sub' ++ [{ d0 with nelems := d0.stride * (sq - 0) }]) (by simp)]
    simp only [View.unrotated, rotate_cons]
    have e1 : (d2 :: (sub' ++ [{ d0 with nelems := d0.stride * (sq - 0) }])) ++ [{ d1 with nelems := d1.stride * (sq - 0) }]
        = ((d2 :: sub') ++ [{ d0 with nelems := d0.stride * (sq - 0) }]) ++ [{ d1 with nelems := d1.stride * (sq - 0) }] := by simp
    rw [e1, unrotate_snoc]
    have e2 : { d1 with nelems := d1.stride * (sq - 0) } :: ((d2 :: sub') ++ [{ d0 with nelems := d0.stride * (sq - 0) }])
        = ({ d1 with nelems := d1.stride * (sq - 0) } :: d2 :: sub') ++ [{ d0 with nelems := d0.stride * (sq - 0) }] := by simp
    rw [e2, unrotate_snoc]

theorem diagonal_eq (v : View) (d0 d1 : Dim) (sub : Layout) (hv : v.lay = d0 :: d1 :: sub) :
    v.diagonal = ⟨v.base, ⟨d1.stride + d0.stride, d1.offset,
      d1.stride * (min d0.size d1.size) + d0.stride * (min d0.size d1.size)⟩ :: sub⟩ := by
  unfold View.diagonal
  simp only [hv]
  rw [diag_paren v _ d0 d1 sub hv]
  simp

theorem diagonal_refines (v : View) (hwf : v.lay.WF) (hd : Op.diagonal.InDomain v) :
    Refines v v.diagonal (Op.diagonal.specShape v.exts) (Op.diagonal.specMap v.exts) := by
  obtain ⟨hlen, hzero⟩ := hd
  cases hv : v.lay with
  | nil => simp [hv] at hlen
  | cons d0 l =>
    cases l with
    | nil => simp [hv] at hlen
    | cons d1 sub =>
      have hd0 : d0.WF := by rw [hv] at hwf; exact hwf.head
      have hd1 : d1.WF := by rw [hv] at hwf; exact hwf.tail.head
      have hsub : Layout.WF sub := by rw [hv] at hwf; exact hwf.tail.tail
      have hex : v.exts = d0.ext :: d1.ext :: Layout.exts sub := by simp [View.exts, hv, Layout.exts]
      rw [diagonal_eq v d0 d1 sub hv, hex]
      rw [hex] at hzero
      have hz0 : d0.ext.first = 0 := hzero _ (by simp)
      have hz1 : d1.ext.first = 0 := hzero _ (by simp)
      have hs0 := hd0.size_eq
      have hs1 := hd1.size_eq
      simp only [Op.specShape]
      rw [← hs0, ← hs1]
      -- either dimension empty: the diagonal is empty
      have hempty : min d0.size d1.size = 0 →
          Refines v ⟨v.base, ⟨d1.stride + d0.stride, d1.offset, d1.stride * (min d0.size d1.size) + d0.stride * (min d0.size d1.size)⟩ :: sub⟩
            (Ext.norm ⟨0, min d0.size d1.size⟩ :: Layout.exts sub) (Op.diagonal.specMap (d0.ext :: d1.ext :: Layout.exts sub)) := by
        intro h
        rw [h]
        have : Ext.norm ⟨0, 0⟩ = ⟨0, 0⟩ := by simp [Ext.norm]
        rw [this]
        apply Refines_empty
        · exact Layout.WF.cons (d := ⟨_, _, _⟩) (Or.inl (by simp)) hsub
        · simp [View.exts, Layout.exts, Dim.ext]
        · intro idx hh; obtain ⟨t, r, rfl, h1, h2, _⟩ := inBox_cons hh; simp at h1 h2; omega
      rcases hd0.cases with h0 | ⟨f0, N0, hN0, hst0, hf0, hnn0, he0, hsz0⟩
      · apply hempty; rw [Dim.size_of_nelems_zero h0]
        rcases hd1.cases with h1 | ⟨f1, N1, hN1, _, _, _, _, hsz1⟩
        · rw [Dim.size_of_nelems_zero h1]; simp
        · rw [hsz1]; omega
      · rcases hd1.cases with h1 | ⟨f1, N1, hN1, hst1, hf1, hnn1, he1, hsz1⟩
        · apply hempty; rw [Dim.size_of_nelems_zero h1, hsz0]; omega
        · rw [he0] at hz0; rw [he1] at hz1
          simp at hz0 hz1
          subst hz0; subst hz1
          rw [hsz0, hsz1]
          have hsq : 0 < min N0 N1 := by omega
          have hnorm : Ext.norm ⟨0, min N0 N1⟩ = ⟨0, 0 + min N0 N1⟩ := by
            have := norm_of_pos (f := 0) hsq; simpa using this
          rw [hnorm]
          have hss : 0 < d1.stride + d0.stride := by omega
          have hd' : (⟨d1.stride + d0.stride, d1.offset, d1.stride * min N0 N1 + d0.stride * min N0 N1⟩ : Dim)
              = ⟨d1.stride + d0.stride, 0 * (d1.stride + d0.stride), min N0 N1 * (d1.stride + d0.stride)⟩ := by
            have a1 : d1.offset = 0 * (d1.stride + d0.stride) := by rw [hf1]; simp
            have a2 : d1.stride * min N0 N1 + d0.stride * min N0 N1 = min N0 N1 * (d1.stride + d0.stride) := by grind
            rw [← a1, ← a2]
          rw [hd']
          refine ⟨Layout.WF.cons (Dim.wf_mk hss hsq) hsub, ?_, ?_⟩
          · simp only [View.exts, Layout.exts, List.map_cons]; rw [Dim.ext_mk hss hsq]
          · intro idx hidx
            obtain ⟨t, r, rfl, ht1, ht2, h3⟩ := inBox_cons hidx
            simp at ht1 ht2
            simp only [Op.specMap]
            rw [addr_eq, addr_eq, hv]
            have e0 : d0.offset = 0 := by rw [hf0]; simp
            have e1 : d1.offset = 0 := by rw [hf1]; simp
            constructor
            · simp only [Layout.off, Int.zero_mul, e0, e1]
              have : t * (d1.stride + d0.stride) = t * d0.stride + t * d1.stride := by grind
              omega
            · rw [hex, he0, he1]; simp only [InBox]
              exact ⟨⟨by omega, by omega⟩, ⟨by omega, by omega⟩, h3⟩

end Multi
