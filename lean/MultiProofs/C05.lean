/-
  C05 — Assignment through views is deep and writes exactly the viewed elements.

  Property theorems only; helper lemmas live in ElemOrder / StoreLemmas / SeqLemmas / RowsLemmas.
  Shape of every statement: under the property's quantifier (well-formed views of equal extents, destination
  injective, destination and source element-disjoint) the transcribed loop returns a memory `m'` (no assertion
  fires) with  m'(dst[idx]) = m(src[idx])  at every index tuple and  m' = m  at every address that is not an
  element of the destination.  The model functions return only a memory: the view descriptors (base, layout)
  are not touched by construction — assignment never rebinds, resizes or reallocates.
-/
import MultiProofs.StoreLemmas
import MultiProofs.Inj
import MultiProofs.SeqLemmas
import MultiProofs.RowsLemmas

namespace Multi
namespace C05

variable {α : Type}

/-- `dst = src` (same element and pointer type) -/
theorem assign_exact (dst src : View) (m : Mem α) (hd : dst.lay.WF) (hs : src.lay.WF) (hne : dst.lay ≠ [])
    (hext : dst.exts = src.exts) (hinj : dst.Injective) (hdis : dst.Disjoint src) :
    ∃ m', dst.assign src m = some m' ∧
      (∀ idx, InBox dst.exts idx → m' (dst.addr idx) = m (src.addr idx)) ∧
      (∀ a, ¬ dst.InImage a → m' a = m a) := by
  obtain ⟨c1, c2⟩ := View.copy_spec dst src m hext hinj hdis
  exact ⟨_, View.assign_eq dst src m hd hs hne hext, c1, c2⟩

/-- `dst = src` through the converting overload (other element / pointer type) and `dst.elements() = src.elements()` -/
theorem assignT_exact (dst src : View) (m : Mem α) (hd : dst.lay.WF) (hs : src.lay.WF) (hne : dst.lay ≠ [])
    (hext : dst.exts = src.exts) (hinj : dst.Injective) (hdis : dst.Disjoint src) :
    ∃ m', dst.assignT src m = some m' ∧ dst.assignElements src m = some m' ∧
      (∀ idx, InBox dst.exts idx → m' (dst.addr idx) = m (src.addr idx)) ∧
      (∀ a, ¬ dst.InImage a → m' a = m a) := by
  obtain ⟨c1, c2⟩ := View.copy_spec dst src m hext hinj hdis
  exact ⟨_, View.assignT_eq dst src m hd hs hne hext, View.assignElements_eq dst src m hd hs hne hext, c1, c2⟩

/-- assigning a view to a view with the same descriptor (or to itself) changes nothing -/
theorem assign_self (v : View) (m : Mem α) (hv : v.lay.WF) (hne : v.lay ≠ []) :
    ∃ m', v.assign v m = some m' ∧ ∀ a, m' a = m a := by
  refine ⟨_, View.assign_eq v v m hv hv hne rfl, fun a => ?_⟩
  rw [copyList_self]
  intro p hp
  rw [List.zip_map'] at hp
  obtain ⟨i, _, rfl⟩ := List.mem_map.mp hp
  rfl

/-- `dst = src.element_moved()`: every destination element receives the corresponding source element, every source
    element (and nothing else) is left in the moved-from state -/
theorem move_exact (moved : α) (dst src : View) (m : Mem α) (hd : dst.lay.WF) (hs : src.lay.WF) (hne : dst.lay ≠ [])
    (hext : dst.exts = src.exts) (hinj : dst.Injective) (hsinj : src.Injective) (hdis : dst.Disjoint src) :
    ∃ m', dst.assignMoved moved src m = some m' ∧
      (∀ idx, InBox dst.exts idx → m' (dst.addr idx) = m (src.addr idx)) ∧
      (∀ idx, InBox src.exts idx → m' (src.addr idx) = moved) ∧
      (∀ a, ¬ dst.InImage a → ¬ src.InImage a → m' a = m a) := by
  obtain ⟨c1, c2, c3⟩ := View.move_spec moved dst src m hext hinj hsinj hdis
  exact ⟨_, View.assignMoved_eq moved dst src m hd hs hne hext, c1, c2, c3⟩

/-- `swap(a, b)` exchanges corresponding elements and touches nothing else -/
theorem swap_exact (a b : View) (m : Mem α) (ha : a.lay.WF) (hb : b.lay.WF) (hne : a.lay ≠ [])
    (hext : a.exts = b.exts) (hainj : a.Injective) (hbinj : b.Injective) (hdis : a.Disjoint b) :
    ∃ m', a.swap b m = some m' ∧
      (∀ idx, InBox a.exts idx → m' (a.addr idx) = m (b.addr idx) ∧ m' (b.addr idx) = m (a.addr idx)) ∧
      (∀ x, ¬ a.InImage x → ¬ b.InImage x → m' x = m x) := by
  obtain ⟨c1, c2⟩ := View.swap_spec a b m hext hainj hbinj hdis
  exact ⟨_, View.swap_eq a b m ha hb hne hext, c1, c2⟩

/-- `v.fill(x)` (D = 1) -/
theorem fill_exact (v : View) (x : α) (m : Mem α) (hv : v.lay.WF) (h1 : v.lay.length = 1) :
    ∃ m', v.fill x m = some m' ∧
      (∀ idx, InBox v.exts idx → m' (v.addr idx) = x) ∧
      (∀ a, ¬ v.InImage a → m' a = m a) := by
  obtain ⟨d, hd⟩ : ∃ d, v.lay = [d] := by
    cases hl : v.lay with
    | nil => simp [hl] at h1
    | cons d l => cases l with
      | nil => exact ⟨d, rfl⟩
      | cons _ _ => simp [hl] at h1
  have hdwf : d.WF := by rw [hd] at hv; exact hv.head
  refine ⟨ArrIt.fillN x v.size.toNat v.begin' m, by simp only [View.fill, hd], ?_, ?_⟩
  · intro idx hidx
    rw [ArrIt.fillN_eq, View.arr_addrs_one v d hd hdwf]
    apply writeList_const _ _ x
    · intro p hp; simp only [List.mem_map] at hp; obtain ⟨a, _, rfl⟩ := hp; rfl
    · simp only [List.map_map, List.mem_map, Function.comp]
      exact ⟨idx, (mem_boxIndices _ _).mpr hidx, rfl⟩
  · intro a ha
    rw [ArrIt.fillN_eq, View.arr_addrs_one v d hd hdwf]
    apply writeList_not_mem
    simp only [List.map_map]
    intro hc
    exact ha ((View.mem_addrs_iff v a).mp (by simpa using hc))

/-- D = 1: `v = {x0, x1, …}`, `v = range`, `v.assign(first)`: the k-th element of the view receives the k-th value -/
theorem assignVals1_exact (v : View) (vals : List α) (m : Mem α) (hv : v.lay.WF) (h1 : v.lay.length = 1)
    (hlen : (vals.length : Int) = v.size) (hinj : v.Injective) :
    ∃ m', v.assignVals1 vals m = some m' ∧
      (∀ (k : Nat) (hk : k < vals.length), m' (v.addr [v.ext.first + Int.ofNat k]) = vals[k]) ∧
      (∀ a, ¬ v.InImage a → m' a = m a) := by
  obtain ⟨d, hd⟩ : ∃ d, v.lay = [d] := by
    cases hl : v.lay with
    | nil => simp [hl] at h1
    | cons d l => cases l with
      | nil => exact ⟨d, rfl⟩
      | cons _ _ => simp [hl] at h1
  have hdwf : d.WF := by rw [hd] at hv; exact hv.head
  have hn : vals.length = v.size.toNat := by omega
  have haddrs : ArrIt.addrs vals.length v.begin' = (boxIndices v.exts).map v.addr := by
    rw [hn]; exact View.arr_addrs_one v d hd hdwf
  have hnd : ((boxIndices v.exts).map v.addr).Nodup :=
    nodup_map_of_inj_on _ _ (boxIndices_nodup _)
      (fun i hi j hj h => hinj i j ((mem_boxIndices _ i).mp hi) ((mem_boxIndices _ j).mp hj) h)
  have hlen' : ((boxIndices v.exts).map v.addr).length = vals.length := by
    rw [← haddrs, ArrIt.addrs_eq]; simp
  refine ⟨ArrIt.storeN vals v.begin' m, by simp only [View.assignVals1, hd, hlen, if_true], ?_, ?_⟩
  · intro k hk
    rw [ArrIt.storeN_eq, haddrs]
    have := writeList_zip_getElem _ vals m hnd hlen' k hk
    rw [← this]
    congr 1
    have hsz : v.size = d.ext.size := by simp only [View.size, hd]; exact hdwf.size_eq
    simp only [View.exts, Layout.exts, hd, List.map_cons, List.map_nil, boxIndices_one, List.map_map,
      List.getElem_map, List.getElem_range, Function.comp, View.ext]
  · intro a ha
    rw [ArrIt.storeN_eq, haddrs]
    exact writeList_zip_not_mem _ _ _ _ (fun hc => ha ((View.mem_addrs_iff v a).mp hc))

/-- `array_ref = array_ref` (flat copy over `data_elements()`), for two whole arrays with equal extensions whose
    storage ranges do not overlap -/
theorem aref_assign_exact (bd bs : Int) (es : List Ext) (m : Mem α) (hes : ∀ e ∈ es, e.first ≤ e.last)
    (hdis : bd + nElems es ≤ bs ∨ bs + nElems es ≤ bd) :
    let dst : View := ⟨bd, Layout.ofExts es⟩
    let src : View := ⟨bs, Layout.ofExts es⟩
    ∃ m', dst.arefAssign src m = some m' ∧ dst.arefAssignT src m = some m' ∧
      (∀ idx, InBox dst.exts idx → m' (dst.addr idx) = m (src.addr idx)) ∧
      (∀ a, ¬ dst.InImage a → m' a = m a) := by
  intro dst src
  obtain ⟨rwf, rex, rnum, raddr⟩ := C01.root_denotes es hes
  have hN : 0 ≤ nElems es := nElems_nonneg es hes
  have hcast : ((nElems es).toNat : Int) = nElems es := Int.toNat_of_nonneg hN
  obtain ⟨c1, c2⟩ := copyFlat_spec (nElems es).toNat bs bd m (by omega)
  refine ⟨copyFlat (nElems es).toNat bs bd m, ?_, ?_, ?_, ?_⟩
  · simp [View.arefAssign, dst, src, View.numElements, rnum]
  · simp [View.arefAssignT, dst, src, View.numElements, View.exts, rnum, Exts.eqv_refl]
  · intro idx hidx
    have hidx' : InBox (collapse es) idx := by rw [← rex]; exact hidx
    obtain ⟨a1, a2, a3⟩ := raddr idx hidx'
    rw [addr_eq, addr_eq]
    show copyFlat _ bs bd m (bd + (Layout.ofExts es).off idx) = m (bs + (Layout.ofExts es).off idx)
    rw [a1]
    exact c1 _ a2 (by omega)
  · intro a ha
    by_cases hout : a < bd ∨ bd + nElems es ≤ a
    · exact c2 a (by omega)
    · exfalso
      apply ha
      obtain ⟨idx, hidx, hk⟩ := rowMajor_onto es hes (a - bd) (by omega) (by omega)
      have hne : nElems es ≠ 0 := by omega
      have hidx' : InBox (collapse es) idx := by rw [collapse_of_ne_zero es hne]; exact hidx
      refine ⟨idx, by show InBox (Layout.ofExts es).exts idx; rw [rex]; exact hidx', ?_⟩
      rw [addr_eq]
      show bd + (Layout.ofExts es).off idx = a
      rw [(raddr idx hidx').1, hk]; omega

/-- a view reachable from an array by the view-forming operations of C01 is well-formed and injective (C01:
    `reachable_denotes`, `reachable_injective`), so for such a destination the two hypotheses of the theorems above
    are discharged -/
theorem reachable_wf_injective (bd : Int) (ed : List Ext) (hed : ∀ e ∈ ed, e.first ≤ e.last)
    (dst : View) (den : Den) (hr : Reach ⟨bd, Layout.ofExts ed⟩ dst den) : dst.lay.WF ∧ dst.Injective := by
  have rwf := (C01.root_denotes ed hed).1
  have r := C01.reachable_denotes ⟨bd, Layout.ofExts ed⟩ dst den rwf hr
  refine ⟨r.1, ?_⟩
  intro i j hi hj h
  have hshape : dst.exts = den.shape := r.2.1
  exact reachable_injective bd ed hed dst den hr i j (hshape ▸ hi) (hshape ▸ hj) h

/-- **C05 for the property's quantifier**: destination and source reachable (as in C01) from two arrays, equal extents,
    no element in common ⇒ after `dst = src` every destination element holds the corresponding source value and
    every other cell of the storage is untouched -/
theorem assign_exact_reachable (bd bs : Int) (ed es : List Ext) (hed : ∀ e ∈ ed, e.first ≤ e.last) (hes : ∀ e ∈ es, e.first ≤ e.last)
    (dst src : View) (dd ds : Den) (hrd : Reach ⟨bd, Layout.ofExts ed⟩ dst dd) (hrs : Reach ⟨bs, Layout.ofExts es⟩ src ds)
    (m : Mem α) (hne : dst.lay ≠ []) (hext : dst.exts = src.exts) (hdis : dst.Disjoint src) :
    ∃ m', dst.assign src m = some m' ∧
      (∀ idx, InBox dst.exts idx → m' (dst.addr idx) = m (src.addr idx)) ∧
      (∀ a, ¬ dst.InImage a → m' a = m a) := by
  obtain ⟨hd, hinj⟩ := reachable_wf_injective bd ed hed dst dd hrd
  obtain ⟨hs, _⟩ := reachable_wf_injective bs es hes src ds hrs
  exact assign_exact dst src m hd hs hne hext hinj hdis

/-- D ≥ 2: `v = {row₀, row₁, …}` (initializer list of `array<T, D-1>`): element `(first+k, rest)` of the view receives row k's element at `rest`; nothing else changes -/
theorem assign_rows_exact (v : View) (rows : List (List α)) (m : Mem α) (hv : v.lay.WF) (h2 : 2 ≤ v.lay.length)
    (hinj : v.Injective) (hlen : (rows.length : Int) = v.size)
    (hrow : ∀ r ∈ rows, r.length = (boxIndices v.exts.tail).length) :
    ∃ m', v.assignRows rows m = some m' ∧ rowsVal v m' = rows ∧
      (∀ (k : Nat) (hk : k < rows.length) (j : Nat) (hj : j < (boxIndices v.exts.tail).length),
        m' (v.addr ((v.ext.first + Int.ofNat k) :: (boxIndices v.exts.tail)[j])) =
          (rows[k])[j]'(by rw [hrow _ (List.getElem_mem hk)]; exact hj)) ∧
      (∀ a, ¬ v.InImage a → m' a = m a) := by
  obtain ⟨d, d1, sub, hl⟩ : ∃ d d1 sub, v.lay = d :: d1 :: sub := by
    cases hl : v.lay with
    | nil => simp [hl] at h2
    | cons d l => cases l with
      | nil => simp [hl] at h2
      | cons d1 sub => exact ⟨d, d1, sub, rfl⟩
  have hne : v.lay ≠ [] := by rw [hl]; simp
  obtain ⟨m', e1, e2, e3, e4⟩ := stepLoop_all v hv hne hinj (fun r x m => (ElemRange.ofView r).assignVals x m)
    (by
      intro k r m _ _ _
      have : (v.rowAt k).lay = d1 :: sub := by simp [View.rowAt, View.begin', hl, ArrIt.add, ArrIt.deref]
      simp only [View.writeRow, this])
    rows m hlen hrow
  refine ⟨m', ?_, e2, fun k hk j hj => e3 k hk j hj _, e4⟩
  simp only [View.assignRows, hl, hlen, if_true]
  rw [rowsLoop_eq_stepLoop]; exact e1

/-- D = 2 from a range of ranges (`std::vector<std::vector<T>>`) -/
theorem assign_range_rows_exact (v : View) (rows : List (List α)) (m : Mem α) (hv : v.lay.WF) (h2 : v.lay.length = 2)
    (hinj : v.Injective) (hlen : (rows.length : Int) = v.size)
    (hrow : ∀ r ∈ rows, r.length = (boxIndices v.exts.tail).length) :
    ∃ m', v.assignRangeRows rows m = some m' ∧ rowsVal v m' = rows ∧
      (∀ (k : Nat) (hk : k < rows.length) (j : Nat) (hj : j < (boxIndices v.exts.tail).length),
        m' (v.addr ((v.ext.first + Int.ofNat k) :: (boxIndices v.exts.tail)[j])) =
          (rows[k])[j]'(by rw [hrow _ (List.getElem_mem hk)]; exact hj)) ∧
      (∀ a, ¬ v.InImage a → m' a = m a) := by
  obtain ⟨d, d1, hl⟩ : ∃ d d1, v.lay = [d, d1] := by
    cases hl : v.lay with
    | nil => simp [hl] at h2
    | cons d l => cases l with
      | nil => simp [hl] at h2
      | cons d1 sub => cases sub with
        | nil => exact ⟨d, d1, rfl⟩
        | cons _ _ => simp [hl] at h2
  have hne : v.lay ≠ [] := by rw [hl]; simp
  have hd1 : d1.WF := hv d1 (by rw [hl]; simp)
  obtain ⟨m', e1, e2, e3, e4⟩ := stepLoop_all v hv hne hinj (fun r x m => r.assignVals1 x m)
    (by
      intro k r m h0 h1 hr
      have hlay : (v.rowAt k).lay = [d1] := by simp [View.rowAt, View.begin', hl, ArrIt.add, ArrIt.deref]
      obtain ⟨_, _, hcells⟩ := rowAt_props hv hne h0 h1
      exact assignVals1_eq_writeRow (v.rowAt k) d1 hlay hd1 r m (by rw [hcells, hr]; simp [rowCells]))
    rows m hlen hrow
  refine ⟨m', ?_, e2, fun k hk j hj => e3 k hk j hj _, e4⟩
  simp only [View.assignRangeRows, hl, hlen, if_true]
  rw [rangeRowsLoop_eq_stepLoop]; exact e1

/-- 0-D assignment writes the one element -/
theorem assign0_exact (dst : View) (x : α) (m : Mem α) :
    (dst.assign0 x m) dst.base = x ∧ ∀ a, a ≠ dst.base → (dst.assign0 x m) a = m a :=
  ⟨Mem.write_same _ _ _, fun _ ha => Mem.write_other _ _ ha⟩

/-! non-vacuity: a 2×3 block of a 4×5 array and a transposed 3×2 block elsewhere satisfy every hypothesis -/

/-- the hypotheses of `assign_exact` / `move_exact` / `swap_exact` are satisfiable: `dst` = the 2×3 block `A({0,2},{0,3})`
    of a 4×5 array at base 0, `src` = the transposed 3×2 block `B({0,3},{0,2}).transposed()` of a 4×5 array at base 100 -/
example : ∃ dst src : View, dst.lay.WF ∧ src.lay.WF ∧ dst.lay ≠ [] ∧ dst.exts = src.exts ∧
    dst.Injective ∧ src.Injective ∧ dst.Disjoint src ∧ InBox dst.exts [1, 2] := by
  refine ⟨⟨0, [⟨5, 0, 10⟩, ⟨1, 0, 3⟩]⟩, ⟨100, [⟨1, 0, 2⟩, ⟨5, 0, 15⟩]⟩, ?_, ?_, by simp, by decide +kernel, ?_, ?_, ?_, ?_⟩
  · intro d hd
    simp only [List.mem_cons, List.not_mem_nil, or_false] at hd
    rcases hd with rfl | rfl
    · exact Or.inr ⟨by decide, by decide, ⟨2, by decide⟩, ⟨0, by decide⟩⟩
    · exact Or.inr ⟨by decide, by decide, ⟨3, by decide⟩, ⟨0, by decide⟩⟩
  · intro d hd
    simp only [List.mem_cons, List.not_mem_nil, or_false] at hd
    rcases hd with rfl | rfl
    · exact Or.inr ⟨by decide, by decide, ⟨2, by decide⟩, ⟨0, by decide⟩⟩
    · exact Or.inr ⟨by decide, by decide, ⟨3, by decide⟩, ⟨0, by decide⟩⟩
  · intro i j hi hj h
    have e : (⟨0, [⟨5, 0, 10⟩, ⟨1, 0, 3⟩]⟩ : View).exts = [⟨0, 2⟩, ⟨0, 3⟩] := by decide +kernel
    rw [e] at hi hj
    obtain ⟨a, b, rfl, _, _, _, _⟩ := inBox_two hi
    obtain ⟨a', b', rfl, _, _, _, _⟩ := inBox_two hj
    simp only [addr_eq, Layout.off] at h
    simp only [List.cons.injEq, and_true]
    constructor <;> omega
  · intro i j hi hj h
    have e : (⟨100, [⟨1, 0, 2⟩, ⟨5, 0, 15⟩]⟩ : View).exts = [⟨0, 2⟩, ⟨0, 3⟩] := by decide +kernel
    rw [e] at hi hj
    obtain ⟨a, b, rfl, _, _, _, _⟩ := inBox_two hi
    obtain ⟨a', b', rfl, _, _, _, _⟩ := inBox_two hj
    simp only [addr_eq, Layout.off] at h
    simp only [List.cons.injEq, and_true]
    constructor <;> omega
  · intro i j hi hj h
    have e : (⟨0, [⟨5, 0, 10⟩, ⟨1, 0, 3⟩]⟩ : View).exts = [⟨0, 2⟩, ⟨0, 3⟩] := by decide +kernel
    have e' : (⟨100, [⟨1, 0, 2⟩, ⟨5, 0, 15⟩]⟩ : View).exts = [⟨0, 2⟩, ⟨0, 3⟩] := by decide +kernel
    rw [e] at hi
    rw [e'] at hj
    obtain ⟨a, b, rfl, _, _, _, _⟩ := inBox_two hi
    obtain ⟨a', b', rfl, _, _, _, _⟩ := inBox_two hj
    simp only [addr_eq, Layout.off] at h
    omega
  · have e : (⟨0, [⟨5, 0, 10⟩, ⟨1, 0, 3⟩]⟩ : View).exts = [⟨0, 2⟩, ⟨0, 3⟩] := by decide +kernel
    rw [e]; simp [InBox]

/-- D = 1 (`fill_exact`, `assignVals1_exact`): a column of a 4×5 array (stride 5, 4 elements, index base 1) -/
example : ∃ (v : View) (vals : List Nat), v.lay.WF ∧ v.lay.length = 1 ∧ (vals.length : Int) = v.size ∧ v.Injective ∧
    InBox v.exts [2] := by
  refine ⟨⟨2, [⟨5, 5, 20⟩]⟩, [7, 8, 9, 10], ?_, rfl, by decide +kernel, ?_, ?_⟩
  · intro d hd
    simp only [List.mem_cons, List.not_mem_nil, or_false] at hd
    subst hd
    exact Or.inr ⟨by decide, by decide, ⟨4, by decide⟩, ⟨1, by decide⟩⟩
  · intro i j hi hj h
    have e : (⟨2, [⟨5, 5, 20⟩]⟩ : View).exts = [⟨1, 5⟩] := by decide +kernel
    rw [e] at hi hj
    obtain ⟨a, r, rfl, g1, g2, h3⟩ := inBox_cons hi
    obtain ⟨a', r', rfl, g1', g2', h3'⟩ := inBox_cons hj
    cases r <;> cases r' <;> simp [InBox] at h3 h3'
    simp only [addr_eq, Layout.off] at h g1 g2 g1' g2'
    simp only [List.cons.injEq, and_true]
    omega
  · have e : (⟨2, [⟨5, 5, 20⟩]⟩ : View).exts = [⟨1, 5⟩] := by decide +kernel
    rw [e]; simp [InBox]

/-- `aref_assign_exact`: two 2×3 arrays (index bases 1 and 0) stored 6 apart -/
example : ∃ (bd bs : Int) (es : List Ext), (∀ e ∈ es, e.first ≤ e.last) ∧
    (bd + nElems es ≤ bs ∨ bs + nElems es ≤ bd) ∧ InBox (⟨bd, Layout.ofExts es⟩ : View).exts [2, 1] := by
  refine ⟨0, 6, [⟨1, 3⟩, ⟨0, 3⟩], ?_, by decide +kernel, ?_⟩
  · intro e he
    simp only [List.mem_cons, List.not_mem_nil, or_false] at he
    rcases he with rfl | rfl <;> decide
  · have e : (⟨0, Layout.ofExts [⟨1, 3⟩, ⟨0, 3⟩]⟩ : View).exts = [⟨1, 3⟩, ⟨0, 3⟩] := by decide +kernel
    rw [e]; simp [InBox]

/-- `assign_rows_exact` / `assign_range_rows_exact`: a 2×3 array and two rows of three values -/
example : ∃ (v : View) (rows : List (List Nat)), v.lay.WF ∧ 2 ≤ v.lay.length ∧ v.lay.length = 2 ∧ v.Injective ∧
    (rows.length : Int) = v.size ∧ (∀ r ∈ rows, r.length = (boxIndices v.exts.tail).length) := by
  refine ⟨⟨0, [⟨3, 0, 6⟩, ⟨1, 0, 3⟩]⟩, [[1, 2, 3], [4, 5, 6]], ?_, by decide, rfl, ?_, by decide +kernel, ?_⟩
  · intro d hd
    simp only [List.mem_cons, List.not_mem_nil, or_false] at hd
    rcases hd with rfl | rfl
    · exact Or.inr ⟨by decide, by decide, ⟨2, by decide⟩, ⟨0, by decide⟩⟩
    · exact Or.inr ⟨by decide, by decide, ⟨3, by decide⟩, ⟨0, by decide⟩⟩
  · intro i j hi hj h
    have e : (⟨0, [⟨3, 0, 6⟩, ⟨1, 0, 3⟩]⟩ : View).exts = [⟨0, 2⟩, ⟨0, 3⟩] := by decide +kernel
    rw [e] at hi hj
    obtain ⟨a, b, rfl, _, _, _, _⟩ := inBox_two hi
    obtain ⟨a', b', rfl, _, _, _, _⟩ := inBox_two hj
    simp only [addr_eq, Layout.off] at h
    simp only [List.cons.injEq, and_true]
    constructor <;> omega
  · have e : (boxIndices (⟨0, [⟨3, 0, 6⟩, ⟨1, 0, 3⟩]⟩ : View).exts.tail).length = 3 := by decide +kernel
    intro r hr
    simp only [List.mem_cons, List.not_mem_nil, or_false] at hr
    rcases hr with rfl | rfl <;> rw [e] <;> rfl

end C05
end Multi
