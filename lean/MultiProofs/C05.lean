/-
  C05 — Assignment through views is deep and writes exactly the viewed elements.

  Property theorems only; helper lemmas live in ElemOrder / StoreLemmas.
  Shape of every statement: under the property's quantifier (well-formed views of equal extents, destination
  injective, destination and source element-disjoint) the transcribed loop returns a memory `m'` (no assertion
  fires) with  m'(dst[idx]) = m(src[idx])  at every index tuple and  m' = m  at every address that is not an
  element of the destination.  The model functions return only a memory: the view descriptors (base, layout)
  are not touched by construction — assignment never rebinds, resizes or reallocates.
-/
import MultiProofs.StoreLemmas

namespace Multi
namespace C05

variable {α : Type}

/-- `dst = src` (same element and pointer type) -/
theorem assign_exact (dst src : View) (m : Mem α) (hd : dst.lay.WF) (hs : src.lay.WF) (hne : dst.lay ≠ [])
    (hext : dst.exts = src.exts) (hinj : dst.Injective) (hdis : dst.Disjoint src) :
    ∃ m', dst.assign src m = some m' ∧
      (∀ idx, InBox dst.exts idx → m' (dst.addr idx) = m (src.addr idx)) ∧
      (∀ a, ¬ dst.InImage a → m' a = m a) := by
  sorry

/-- `dst = src` through the converting overload (other element / pointer type) and `dst.elements() = src.elements()` -/
theorem assignT_exact (dst src : View) (m : Mem α) (hd : dst.lay.WF) (hs : src.lay.WF) (hne : dst.lay ≠ [])
    (hext : dst.exts = src.exts) (hinj : dst.Injective) (hdis : dst.Disjoint src) :
    ∃ m', dst.assignT src m = some m' ∧ dst.assignElements src m = some m' ∧
      (∀ idx, InBox dst.exts idx → m' (dst.addr idx) = m (src.addr idx)) ∧
      (∀ a, ¬ dst.InImage a → m' a = m a) := by
  sorry

/-- assigning a view to a view with the same descriptor (or to itself) changes nothing -/
theorem assign_self (v : View) (m : Mem α) (hv : v.lay.WF) (hne : v.lay ≠ []) :
    ∃ m', v.assign v m = some m' ∧ ∀ a, m' a = m a := by
  sorry

/-- `dst = src.element_moved()`: every destination element receives the corresponding source element, every source
    element (and nothing else) is left in the moved-from state -/
theorem move_exact (moved : α) (dst src : View) (m : Mem α) (hd : dst.lay.WF) (hs : src.lay.WF) (hne : dst.lay ≠ [])
    (hext : dst.exts = src.exts) (hinj : dst.Injective) (hsinj : src.Injective) (hdis : dst.Disjoint src) :
    ∃ m', dst.assignMoved moved src m = some m' ∧
      (∀ idx, InBox dst.exts idx → m' (dst.addr idx) = m (src.addr idx)) ∧
      (∀ idx, InBox src.exts idx → m' (src.addr idx) = moved) ∧
      (∀ a, ¬ dst.InImage a → ¬ src.InImage a → m' a = m a) := by
  sorry

/-- `swap(a, b)` exchanges corresponding elements and touches nothing else -/
theorem swap_exact (a b : View) (m : Mem α) (ha : a.lay.WF) (hb : b.lay.WF) (hne : a.lay ≠ [])
    (hext : a.exts = b.exts) (hainj : a.Injective) (hbinj : b.Injective) (hdis : a.Disjoint b) :
    ∃ m', a.swap b m = some m' ∧
      (∀ idx, InBox a.exts idx → m' (a.addr idx) = m (b.addr idx) ∧ m' (b.addr idx) = m (a.addr idx)) ∧
      (∀ x, ¬ a.InImage x → ¬ b.InImage x → m' x = m x) := by
  sorry

/-- `v.fill(x)` (D = 1) -/
theorem fill_exact (v : View) (x : α) (m : Mem α) (hv : v.lay.WF) (h1 : v.lay.length = 1) :
    ∃ m', v.fill x m = some m' ∧
      (∀ idx, InBox v.exts idx → m' (v.addr idx) = x) ∧
      (∀ a, ¬ v.InImage a → m' a = m a) := by
  sorry

/-- D = 1: `v = {x0, x1, …}`, `v = range`, `v.assign(first)`: the k-th element of the view receives the k-th value -/
theorem assignVals1_exact (v : View) (vals : List α) (m : Mem α) (hv : v.lay.WF) (h1 : v.lay.length = 1)
    (hlen : (vals.length : Int) = v.size) (hinj : v.Injective) :
    ∃ m', v.assignVals1 vals m = some m' ∧
      (∀ (k : Nat) (hk : k < vals.length), m' (v.addr [v.ext.first + Int.ofNat k]) = vals[k]) ∧
      (∀ a, ¬ v.InImage a → m' a = m a) := by
  sorry

/-- `array_ref = array_ref` (flat copy over `data_elements()`), for two whole arrays with equal extensions whose
    storage ranges do not overlap -/
theorem aref_assign_exact (bd bs : Int) (es : List Ext) (m : Mem α) (hes : ∀ e ∈ es, e.first ≤ e.last)
    (hdis : bd + nElems es ≤ bs ∨ bs + nElems es ≤ bd) :
    let dst : View := ⟨bd, Layout.ofExts es⟩
    let src : View := ⟨bs, Layout.ofExts es⟩
    ∃ m', dst.arefAssign src m = some m' ∧ dst.arefAssignT src m = some m' ∧
      (∀ idx, InBox dst.exts idx → m' (dst.addr idx) = m (src.addr idx)) ∧
      (∀ a, ¬ dst.InImage a → m' a = m a) := by
  sorry

/-- 0-D assignment writes the one element -/
theorem assign0_exact (dst : View) (x : α) (m : Mem α) :
    (dst.assign0 x m) dst.base = x ∧ ∀ a, a ≠ dst.base → (dst.assign0 x m) a = m a := by
  sorry

/-! non-vacuity: a 2×3 block of a 4×5 array and a transposed 3×2 block elsewhere satisfy every hypothesis -/

end C05
end Multi
