/-
  MultiProofs.BlasShapes — the view invariants assumed of operand descriptors, and their linear consequences.

  A 2-D view obtained from an array by sub-blocks, row striding and transposition is either of the ROW family
  (the outer stride spans at least one row: n1·s1 ≤ s0, s1 ≤ s0) or of the COLUMN family (n0·s0 ≤ s1, s0 ≤ s1).
-/
import MultiModel.Blas

namespace Multi.Blas

structure Mat.WF (m : Mat) : Prop where
  n0 : 0 ≤ m.n0
  n1 : 0 ≤ m.n1
  s0 : 1 ≤ m.s0
  s1 : 1 ≤ m.s1
  fam : (m.n1 * m.s1 ≤ m.s0 ∧ m.s1 ≤ m.s0) ∨ (m.n0 * m.s0 ≤ m.s1 ∧ m.s0 ≤ m.s1)

structure Vec.WF (v : Vec) : Prop where
  n : 0 ≤ v.n
  inc : 1 ≤ v.inc

/-- what the invariant says, in linear form, when one of the strides is 1 -/
def Mat.Lin (m : Mat) : Prop :=
  0 ≤ m.n0 ∧ 0 ≤ m.n1 ∧ 1 ≤ m.s0 ∧ 1 ≤ m.s1 ∧
  (m.s1 = 1 → (m.n1 ≤ m.s0 ∨ (m.s0 = 1 ∧ m.n0 ≤ 1))) ∧
  (m.s0 = 1 → (m.n0 ≤ m.s1 ∨ (m.s1 = 1 ∧ m.n1 ≤ 1)))

theorem mul_le_one {n s : Int} (hn : 0 ≤ n) (hs : 1 ≤ s) (h : n * s ≤ 1) : n ≤ 1 := by
  by_cases h0 : n ≤ 1
  · exact h0
  · have hn1 : 2 ≤ n := by omega
    have h2 : 2 * s ≤ n * s := Int.mul_le_mul_of_nonneg_right hn1 (by omega)
    omega

theorem Mat.WF.lin {m : Mat} (h : m.WF) : m.Lin := by
  refine ⟨h.n0, h.n1, h.s0, h.s1, ?_, ?_⟩
  · intro h1
    rcases h.fam with ⟨hf, _⟩ | ⟨hf, hs⟩
    · rw [h1] at hf; left; omega
    · rw [h1] at hs
      have hs0 : m.s0 = 1 := by have := h.s0; omega
      rw [hs0] at hf
      right; exact ⟨hs0, by omega⟩
  · intro h0
    rcases h.fam with ⟨hf, hs⟩ | ⟨hf, _⟩
    · rw [h0] at hs
      have hs1 : m.s1 = 1 := by have := h.s1; omega
      rw [hs1] at hf
      right; exact ⟨hs1, by omega⟩
    · rw [h0] at hf; left; omega

/-- usable as a row-major block whose leading dimension is the outer stride -/
def Mat.RowOK (m : Mat) : Prop := m.n1 ≤ m.s0
/-- usable as a column-major block whose leading dimension is the inner stride -/
def Mat.ColOK (m : Mat) : Prop := m.n0 ≤ m.s1

/-- the operand sizes of C = A·B fit (what the front end asserts) -/
structure GemmShapes (a b c : Mat) : Prop where
  wa : a.WF
  wb : b.WF
  wc : c.WF
  m : a.n0 = c.n0
  k : a.n1 = b.n0
  n : b.n1 = c.n1

end Multi.Blas
