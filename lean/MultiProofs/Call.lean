/-
  MultiProofs.Call — the call syntax `A(i, {a,b}, ALL, ...)` as coded (`paren_aux_`: slice, rotate, recurse,
  unrotate) selects exactly what the documentation says.
-/
import MultiProofs.Ops3

namespace Multi

theorem Refines.id (v : View) (hwf : v.lay.WF) : Refines v v v.exts (fun idx => idx) :=
  ⟨hwf, rfl, fun _ h => ⟨rfl, h⟩⟩

/-- composition of refinements -/
theorem Refines.trans {v w u : View} {s1 s2 : List Ext} {m1 m2 : List Int → List Int}
    (h1 : Refines v w s1 m1) (h2 : Refines w u s2 m2) : Refines v u s2 (fun idx => m1 (m2 idx)) := by
  obtain ⟨_, hs1, ha1⟩ := h1
  obtain ⟨hw2, hs2, ha2⟩ := h2
  refine ⟨hw2, hs2, ?_⟩
  intro idx hidx
  obtain ⟨e1, b1⟩ := ha2 idx hidx
  rw [hs1] at b1
  obtain ⟨e2, b2⟩ := ha1 _ b1
  exact ⟨by rw [e1, e2], b2⟩

theorem Refines.congr {v w : View} {s s' : List Ext} {m m' : List Int → List Int}
    (h : Refines v w s m) (hs : s = s') (hm : ∀ idx, InBox s idx → m idx = m' idx) : Refines v w s' m' := by
  subst hs
  obtain ⟨a, b, c⟩ := h
  refine ⟨a, b, ?_⟩
  intro idx hidx
  rw [← hm idx hidx]; exact c idx hidx

theorem argsInDomain_length {as : List Arg} {es : List Ext} (h : argsInDomain as es) : as.length ≤ es.length := by
  induction as generalizing es with
  | nil => simp
  | cons a as ih =>
    cases es with
    | nil => simp [argsInDomain] at h
    | cons e es => simp [argsInDomain] at h; have := ih h.2; simp; omega

theorem argsInDomain_append {as : List Arg} {es : List Ext} (x : List Ext) (h : argsInDomain as es) :
    argsInDomain as (es ++ x) := by
  induction as generalizing es with
  | nil => simp [argsInDomain]
  | cons a as ih =>
    cases es with
    | nil => simp [argsInDomain] at h
    | cons e es => simp [argsInDomain] at h ⊢; exact ⟨h.1, ih h.2⟩

theorem callShape_append {as : List Arg} {es : List Ext} (x : List Ext) (h : argsInDomain as es) :
    callShape as (es ++ x) = callShape as es ++ x := by
  induction as generalizing es with
  | nil => simp [callShape]
  | cons a as ih =>
    cases es with
    | nil => simp [argsInDomain] at h
    | cons e es =>
      simp [argsInDomain] at h
      cases a <;> simp [callShape, ih h.2]

theorem callMap_append {as : List Arg} {es : List Ext} (x : List Ext) (r : List Int) (t : Int)
    (h : argsInDomain as es) (hr : InBox (callShape as es) r) :
    callMap as (es ++ x) (r ++ [t]) = callMap as es r ++ [t] := by
  induction as generalizing es r with
  | nil => simp [callMap]
  | cons a as ih =>
    cases es with
    | nil => simp [argsInDomain] at h
    | cons e es =>
      simp [argsInDomain] at h
      cases a with
      | idx i => simp only [callShape] at hr; simp [callMap, ih _ h.2 hr]
      | rng a b =>
        simp only [callShape] at hr
        obtain ⟨t', r', rfl, _, _, h3⟩ := inBox_cons hr
        simp [callMap, ih _ h.2 h3]
      | all =>
        simp only [callShape] at hr
        obtain ⟨t', r', rfl, _, _, h3⟩ := inBox_cons hr
        simp [callMap, ih _ h.2 h3]

/-- a range argument `{a, b}` on the leading dimension, as the code does it: slice, rotate, recurse, unrotate -/
theorem paren_rng_step (v : View) (a b : Int) (as : List Arg) (e : Ext) (es : List Ext)
    (hwf : v.lay.WF) (hex : v.exts = e :: es) (hne : v.lay ≠ [])
    (hab : e.first ≤ a ∧ a ≤ b ∧ b ≤ e.last) (has : argsInDomain as es)
    (ih : ∀ w : View, w.lay.WF → argsInDomain as w.exts → Refines w (w.paren as) (callShape as w.exts) (callMap as w.exts)) :
    Refines v ((v.range a b).rotated.paren as).unrotated
      (Ext.norm ⟨e.first, e.first + (b - a)⟩ :: callShape as es)
      (fun idx => match idx with | t :: r => (a + (t - e.first)) :: callMap as es r | [] => []) := by
  have hve : v.ext = e := by
    cases hv : v.lay with
    | nil => exact absurd hv hne
    | cons d sub => rw [View.exts_cons hv] at hex; rw [View.ext_cons hv]; exact (List.cons.inj hex).1
  -- 1. range
  have r1 := range_refines v a b hwf ⟨hne, by rw [hve]; exact hab.1, hab.2.1, by rw [hve]; exact hab.2.2⟩
  rw [hex] at r1
  simp only [Op.specShape] at r1
  -- 2. rotated
  have r2 := rotated_refines (v.range a b) r1.1
  rw [r1.2.1] at r2
  simp only [Op.specShape] at r2
  -- 3. recursive call on the rotated view
  have hdom3 : argsInDomain as (v.range a b).rotated.exts := by
    rw [r2.2.1]; exact argsInDomain_append _ has
  have r3 := ih (v.range a b).rotated r2.1 hdom3
  rw [r2.2.1, callShape_append _ has] at r3
  -- 4. unrotated
  have r4 := unrotated_refines ((v.range a b).rotated.paren as) r3.1
  rw [r3.2.1] at r4
  have hshape4 : Op.unrotated.specShape (callShape as es ++ [Ext.norm ⟨e.first, e.first + (b - a)⟩])
      = Ext.norm ⟨e.first, e.first + (b - a)⟩ :: callShape as es := by simp [Op.specShape]
  rw [hshape4] at r4
  have all := (r1.trans r2).trans (r3.trans r4)
  apply all.congr rfl
  intro idx hidx
  obtain ⟨t, r, rfl, _, _, h3⟩ := inBox_cons hidx
  simp only [Op.specMap]
  rw [callMap_append _ r t has h3]
  simp

theorem paren_refines (as : List Arg) : ∀ v : View, v.lay.WF → argsInDomain as v.exts →
    Refines v (v.paren as) (callShape as v.exts) (callMap as v.exts) := by
  induction as with
  | nil =>
    intro v hwf _
    have := Refines.id v hwf
    simp only [View.paren, callShape]
    apply this.congr rfl
    intro idx _; cases idx <;> simp [callMap]
  | cons a as ih =>
    intro v hwf hd
    cases hv : v.lay with
    | nil => simp [View.exts, hv, Layout.exts, argsInDomain] at hd
    | cons d sub =>
      have hne : v.lay ≠ [] := by rw [hv]; simp
      have hex := View.exts_cons hv
      rw [hex] at hd ⊢
      simp only [argsInDomain] at hd
      have hdwf : d.WF := by rw [hv] at hwf; exact hwf.head
      cases a with
      | idx i =>
        simp only [Arg.InDomain] at hd
        have r1 := index_refines v i hwf ⟨hne, by rw [View.ext_cons hv]; exact hd.1.1, by rw [View.ext_cons hv]; exact hd.1.2⟩
        rw [hex] at r1
        simp only [Op.specShape, List.tail_cons] at r1
        have r2 := ih (v.index i) r1.1 (by rw [r1.2.1]; exact hd.2)
        rw [r1.2.1] at r2
        simp only [View.paren, callShape]
        apply (r1.trans r2).congr rfl
        intro idx _
        simp [Op.specMap, callMap]
      | rng a b =>
        simp only [Arg.InDomain] at hd
        have := paren_rng_step v a b as d.ext (Layout.exts sub) hwf hex hne hd.1 hd.2 ih
        simp only [View.paren, callShape]
        apply this.congr rfl
        intro idx hidx
        obtain ⟨t, r, rfl, _, _, _⟩ := inBox_cons hidx
        simp [callMap]
      | all =>
        -- ALL: intersection of the extension with [min, max) is the extension itself
        have hfl : d.ext.first ≤ d.ext.last := by
          rcases hdwf.cases with h0 | ⟨f, n, hn, _, _, _, he, _⟩
          · rw [Dim.ext_of_nelems_zero h0]; simp
          · rw [he]; simp; omega
        have hve : v.ext = d.ext := View.ext_cons hv
        have hint : v.ext.inter ⟨v.ext.first, v.ext.last⟩ = d.ext := by
          rw [hve]; simp only [Ext.inter]
          have : min (max d.ext.first d.ext.first) (min d.ext.last d.ext.last) = d.ext.first := by omega
          have h2 : min d.ext.last d.ext.last = d.ext.last := by omega
          rw [this, h2]
        have := paren_rng_step v d.ext.first d.ext.last as d.ext (Layout.exts sub) hwf hex hne ⟨by omega, hfl, by omega⟩ hd.2 ih
        simp only [View.paren, callShape, hint]
        have hnorm : Ext.norm ⟨d.ext.first, d.ext.first + (d.ext.last - d.ext.first)⟩ = d.ext := by
          have : d.ext.first + (d.ext.last - d.ext.first) = d.ext.last := by omega
          rw [this]; exact hdwf.ext_norm
        apply this.congr (by rw [hnorm])
        intro idx hidx
        obtain ⟨t, r, rfl, _, _, _⟩ := inBox_cons hidx
        simp [callMap]; omega

end Multi
