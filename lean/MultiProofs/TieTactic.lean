/-
  The closing tactic of the model = source tie proofs (GenTie*.lean): definitional unfolding, then `simp` with the given
  definitions, then — for what is left, typically a reordered product or a flipped equation after a HARMLESS rewrite of
  the source — `grind`.  A stronger tactic can only remove false alarms: whatever it proves is checked by the kernel.
-/
syntax "tie_simp" "[" Lean.Parser.Tactic.simpLemma,* "]" : tactic
macro_rules
  | `(tactic| tie_simp [$ls,*]) =>
    `(tactic| first | rfl | (simp [$ls,*]; done) | (simp [$ls,*] <;> grind) | (simp only [$ls,*] <;> grind))
