/-
  MultiProofs.SerArchive — helper lemmas for C17: what a saving archive emits, what a loading archive reads back,
  facts about reported (collapsed) extensions.
-/
import MultiModel.Serial
import MultiProofs.C01

namespace Multi
open Archive

variable {τ α : Type}

/-! ### saving -/

/-- the tokens of a list of extensions: first, last of each, in order -/
def encExts (ci : ICodec τ) : List Ext → List τ
  | [] => []
  | e :: es => ci.enc e.first ++ ci.enc e.last ++ encExts ci es

/-- the tokens of a list of elements -/
def encItems (c : Codec τ α) : List α → List τ
  | [] => []
  | x :: xs => c.enc x ++ encItems c xs

theorem exts_saving (ci : ICodec τ) (es : List Ext) (out : List τ) :
    (saving out).exts ci es = some (saving (out ++ encExts ci es), es) := by
  induction es generalizing out with
  | nil => simp [Archive.exts, encExts]
  | cons e es ih =>
    simp only [Archive.exts, Archive.range, Archive.ampI, bind, Option.bind, pure, ih, encExts]
    simp [List.append_assoc]

theorem items_saving (c : Codec τ α) (xs : List α) (out : List τ) :
    (saving out).items c xs = some (saving (out ++ encItems c xs), xs) := by
  induction xs generalizing out with
  | nil => simp [Archive.items, encItems]
  | cons x xs ih =>
    simp only [Archive.items, Archive.amp, bind, Option.bind, pure, ih, encItems]
    simp [List.append_assoc]

/-! ### loading -/

theorem exts_loading (ci : ICodec τ) (hci : ci.Lawful) (es prior : List Ext) (hlen : prior.length = es.length) (rest : List τ) :
    (loading (encExts ci es ++ rest)).exts ci prior = some (loading rest, es) := by
  induction es generalizing prior with
  | nil =>
    cases prior with
    | nil => simp [Archive.exts, encExts]
    | cons _ _ => simp at hlen
  | cons e es ih =>
    cases prior with
    | nil => simp at hlen
    | cons p ps =>
      have hl : ps.length = es.length := by simpa using hlen
      simp only [Archive.exts, Archive.range, Archive.ampI, encExts, List.append_assoc, bind, Option.bind, pure]
      rw [hci e.first]
      simp only [Option.map]
      rw [hci e.last]
      simp only [Option.map]
      rw [ih ps hl]

theorem allRel_length {r : α → α → Prop} : ∀ {xs ys : List α}, AllRel r xs ys → xs.length = ys.length
  | [], [], _ => rfl
  | _ :: xs, _ :: ys, h => by simp [allRel_length h.2]
  | [], _ :: _, h => h.elim
  | _ :: _, [], h => h.elim

theorem items_loading (c : Codec τ α) (hc : c.Lawful) (xs prior : List α) (hlen : prior.length = xs.length)
    (hx : ∀ x ∈ xs, c.ok x) (hp : ∀ x ∈ prior, c.ok x) (rest : List τ) :
    ∃ ys, (loading (encItems c xs ++ rest)).items c prior = some (loading rest, ys) ∧ AllRel c.eqv ys xs ∧ ∀ y ∈ ys, c.ok y := by
  induction xs generalizing prior with
  | nil =>
    cases prior with
    | nil => exact ⟨[], by simp [Archive.items, encItems], trivial, by simp⟩
    | cons _ _ => simp at hlen
  | cons x xs ih =>
    cases prior with
    | nil => simp at hlen
    | cons p ps =>
      have hl : ps.length = xs.length := by simpa using hlen
      obtain ⟨y, hy, hyx, hyok⟩ := hc.law p x (encItems c xs ++ rest) (hp p (by simp)) (hx x (by simp))
      obtain ⟨ys, hys, hrel, hok⟩ := ih ps hl (fun z hz => hx z (List.mem_cons_of_mem _ hz)) (fun z hz => hp z (List.mem_cons_of_mem _ hz))
      refine ⟨y :: ys, ?_, ⟨hyx, hrel⟩, ?_⟩
      · simp only [Archive.items, Archive.amp, encItems, List.append_assoc, bind, Option.bind, pure]
        rw [hy]
        simp only [Option.map]
        rw [hys]
      · intro z hz
        rcases List.mem_cons.mp hz with h | h
        · subst h; exact hyok
        · exact hok z h

/-! ### reported extensions -/

/-- an extension as the library reports it: empty ones are `[0,0)` -/
def Ext.Normal (e : Ext) : Prop := e.size = 0 → e = ⟨0, 0⟩

def Valid (es : List Ext) : Prop := ∀ e ∈ es, e.first ≤ e.last

theorem nElems_collapse (es : List Ext) : nElems (collapse es) = nElems es := by
  induction es with
  | nil => rfl
  | cons e es ih =>
    simp only [collapse, nElems, ih]
    by_cases h : e.size * nElems es = 0
    · rw [if_pos h, h]; simp [Ext.size]
    · rw [if_neg h]

theorem collapse_idem (es : List Ext) : collapse (collapse es) = collapse es := by
  induction es with
  | nil => rfl
  | cons e es ih =>
    simp only [collapse, ih, nElems_collapse]
    by_cases h : e.size * nElems es = 0
    · rw [if_pos h]; simp [Ext.size]
    · rw [if_neg h, if_neg h]

theorem collapse_length (es : List Ext) : (collapse es).length = es.length := by
  induction es with
  | nil => rfl
  | cons e es ih => simp [collapse, ih]

theorem collapse_valid {es : List Ext} (h : Valid es) : Valid (collapse es) := by
  induction es with
  | nil => intro e he; simp [collapse] at he
  | cons e es ih =>
    intro x hx
    simp only [collapse, List.mem_cons] at hx
    rcases hx with hx | hx
    · subst hx
      by_cases h0 : e.size * nElems es = 0
      · simp [h0]
      · simp [h0]; exact h e (by simp)
    · exact ih (fun y hy => h y (List.mem_cons_of_mem _ hy)) x hx

theorem collapse_normal (es : List Ext) : ∀ e ∈ collapse es, e.Normal := by
  induction es with
  | nil => intro e he; simp [collapse] at he
  | cons e es ih =>
    intro x hx
    simp only [collapse, List.mem_cons] at hx
    rcases hx with hx | hx
    · subst hx
      by_cases h0 : e.size * nElems es = 0
      · simp [h0, Ext.Normal]
      · simp only [h0, if_false]
        intro hs
        exact absurd (by rw [hs]; simp) h0
    · exact ih x hx

theorem eqv_self (e : Ext) : e.eqv e = true := by simp [Ext.eqv]

theorem neqv_self (es : List Ext) : Exts.neqv es es = false := by
  induction es with
  | nil => rfl
  | cons e es ih => simp [Exts.neqv, eqv_self, ih]

theorem Ext.eq_of_eqv {a b : Ext} (h : a.eqv b = true) (ha : a.Normal) (hb : b.Normal) : a = b := by
  simp only [Ext.eqv, Ext.isEmpty, Bool.or_eq_true, Bool.and_eq_true, beq_iff_eq] at h
  rcases h with ⟨h1, h2⟩ | ⟨h1, h2⟩
  · have ea : a = ⟨0, 0⟩ := ha (by simp [Ext.size]; omega)
    have eb : b = ⟨0, 0⟩ := hb (by simp [Ext.size]; omega)
    rw [ea, eb]
  · cases a; cases b; simp_all

/-- `!=` of extensions is false only for lists that agree (given both sides are as the library reports them) -/
theorem eq_of_not_neqv : ∀ {xs ys : List Ext}, Exts.neqv xs ys = false → (∀ e ∈ xs, e.Normal) → (∀ e ∈ ys, e.Normal) → xs = ys
  | [], [], _, _, _ => rfl
  | a :: as, b :: bs, h, hx, hy => by
    simp only [Exts.neqv, Bool.or_eq_false_iff, Bool.not_eq_false'] at h
    have h1 := Ext.eq_of_eqv h.1 (hx a (by simp)) (hy b (by simp))
    have h2 := eq_of_not_neqv h.2 (fun e he => hx e (List.mem_cons_of_mem _ he)) (fun e he => hy e (List.mem_cons_of_mem _ he))
    rw [h1, h2]
  | [], _ :: _, h, _, _ => by simp [Exts.neqv] at h
  | _ :: _, [], h, _, _ => by simp [Exts.neqv] at h

theorem eq_of_eqv : ∀ {xs ys : List Ext}, Exts.eqv xs ys = true → (∀ e ∈ xs, e.Normal) → (∀ e ∈ ys, e.Normal) → xs = ys
  | [], [], _, _, _ => rfl
  | a :: as, b :: bs, h, hx, hy => by
    simp only [Exts.eqv, Bool.and_eq_true] at h
    have h1 := Ext.eq_of_eqv h.1 (hx a (by simp)) (hy b (by simp))
    have h2 := eq_of_eqv h.2 (fun e he => hx e (List.mem_cons_of_mem _ he)) (fun e he => hy e (List.mem_cons_of_mem _ he))
    rw [h1, h2]
  | [], _ :: _, h, _, _ => by simp [Exts.eqv] at h
  | _ :: _, [], h, _, _ => by simp [Exts.eqv] at h

/-- the default extensions `extensions_type{}` -/
def zeros (D : Nat) : List Ext := List.replicate D ⟨0, 0⟩

theorem zeros_valid (D : Nat) : Valid (zeros D) := by
  intro e he; rw [zeros, List.mem_replicate] at he; rw [he.2]; exact Int.le_refl 0

theorem collapse_zeros (D : Nat) : collapse (zeros D) = zeros D := by
  induction D with
  | zero => rfl
  | succ n ih =>
    have : zeros (n + 1) = ⟨0, 0⟩ :: zeros n := by simp [zeros, List.replicate_succ]
    rw [this]; simp only [collapse, ih]; simp [Ext.size]

theorem nElems_zeros (D : Nat) (h : D ≠ 0) : nElems (zeros D) = 0 := by
  cases D with
  | zero => exact absurd rfl h
  | succ n =>
    have : zeros (n + 1) = ⟨0, 0⟩ :: zeros n := by simp [zeros, List.replicate_succ]
    rw [this]; simp [nElems, Ext.size]

theorem length_flatMap_const {β γ : Type} (l : List β) (f : β → List γ) (c : Nat) (h : ∀ x, (f x).length = c) :
    (l.flatMap f).length = l.length * c := by
  induction l with
  | nil => simp
  | cons x l ih => simp [List.flatMap_cons, h, ih, Nat.succ_mul, Nat.add_comm]

theorem boxIndices_length (es : List Ext) (h : Valid es) : (boxIndices es).length = (nElems es).toNat := by
  induction es with
  | nil => simp [boxIndices, nElems]
  | cons e es ih =>
    have hes : Valid es := fun x hx => h x (List.mem_cons_of_mem _ hx)
    have hs : 0 ≤ e.size := by have := h e (by simp); simp [Ext.size]; omega
    have hn : 0 ≤ nElems es := C01.nElems_nonneg es hes
    simp only [boxIndices, nElems]
    rw [length_flatMap_const _ _ (nElems es).toNat (by intro k; simp [ih hes]), List.length_range, Int.toNat_mul hs hn]

/-- facts about the layout the constructor builds (from `C01.root_denotes`) -/
theorem ofExts_facts (es : List Ext) (h : Valid es) :
    (Layout.ofExts es).exts = collapse es ∧ (Layout.ofExts es).numElements = nElems es ∧ (Layout.ofExts es).length = es.length := by
  obtain ⟨_, h2, h3, _⟩ := C01.root_denotes es h
  refine ⟨h2, h3, ?_⟩
  have := congrArg List.length h2
  simpa [Layout.exts, collapse_length] using this

end Multi
