/-
  MultiProofs.OwnStep — histories: the operations of C04 / C06 on a pool, as the model executes them (`step`) and as the
  documentation describes them on values (`specStep`); `step_refines`: one step commutes with abstraction and keeps the
  pool invariant.
-/
import MultiProofs.OwnPool
import MultiProofs.OwnReext
import MultiProofs.OwnViewAssign
import MultiProofs.OwnRows

namespace Multi
namespace Own
variable {α : Type}

/-- operations on whole arrays of a pool (slot names are natural numbers) -/
inductive VOp (α : Type) where
  | dflt (k D : Nat)                                  -- `array<T, D> A;`
  | exts (k : Nat) (es : List Ext)                    -- `array<T, D> A(extensions);`
  | fill (k : Nat) (es : List Ext) (v : α)            -- `array<T, D> A(extensions, v);`
  | copy (k src : Nat)                                -- `array A(B);` also `+B`, and `B` of another element type
  | range (k : Nat) (count : Int) (inner : List Ext) (vals : List α)   -- `array A(first, last);`
  | move (k src : Nat)                                -- `array A(std::move(B));`
  | massign (k src : Nat)                             -- `A = std::move(B);`
  | cassign (k src : Nat)                             -- `A = B;`
  | swap (j k : Nat)                                  -- `A.swap(B)` / `swap(A, B)`
  | clear (k : Nat)                                   -- `A.clear()`, `A = {}`
  | reshape (k : Nat) (es : List Ext)                 -- `A.reshape(extensions)`
  | assignf (k : Nat) (es : List Ext) (v : α)         -- `A.assign(extensions, v)`
  | reextm (k : Nat) (es : List Ext)                  -- `std::move(A).reextent(extensions)`
  | reextSame (k : Nat) (es : List Ext) (fill : Option α)  -- `A.reextent(x [, v])` with x the current extensions
  | destroy (k : Nat)                                 -- end of lifetime
  | write (k : Nat) (idx : List Int) (v : α)          -- `A[i][j]… = v`
  | reext (k : Nat) (es : List Ext) (fill : Option α) -- `A.reextent(x)` (`fill = none`) / `A.reextent(x, v)` (`fill = some v`)
  | vctor (k src : Nat) (ops : List Op)               -- `array A(view)`, `+view`, `view.decay()`; view = chain of C01 operations on `src`
  | vassign (k src : Nat) (ops : List Op)             -- `A = view`, `operator=(const_subarray const&)`
  | rassign (k src : Nat) (ops : List Op)             -- `A = view`, `operator=(Range&&)` (reshape shortcut)
  | convassign (k src : Nat)                          -- `A = B` with `B` an array of another element type
  | stdswap (j k : Nat)                               -- `std::swap(A, B)`: move-construct a temporary, two move assignments
  | assignr (k : Nat) (count : Int) (inner : List Ext) (vals : List α)   -- `A.assign(first, last)`
  | ilassign (k : Nat) (count : Int) (inner : List Ext) (vals : List α)  -- `A = {…}` (nested initializer lists)
  | il (k : Nat) (count : Int) (inner : List Ext) (vals : List α)        -- `array A = {…}` / `array A{…}`

/-- the model's step -/
def step (cfg : Cfg α) (p : Pool α) : VOp α → Pool α
  | .dflt k D => let r := defaultCtor cfg p.heap D; (p.withHeap r.1).set k (some r.2)
  | .exts k es => let r := extsCtor cfg p.heap es; (p.withHeap r.1).set k (some r.2)
  | .fill k es v => let r := fillCtor p.heap es v; (p.withHeap r.1).set k (some r.2)
  | .copy k src =>
    match p.arrs src with
    | some b => let r := copyCtor p.heap b; (p.withHeap r.1).set k (some r.2)
    | none => p
  | .range k c inner vals => let r := rangeCtor p.heap c inner vals; (p.withHeap r.1).set k (some r.2)
  | .move k src =>
    match p.arrs src with
    | some b => let r := moveCtor b; (p.set src (some r.2)).set k (some r.1)
    | none => p
  | .massign k src =>
    match p.arrs k, p.arrs src with
    | some a, some b =>
      if k = src then p
      else let r := moveAssign p.heap a b; ((p.withHeap r.1).set src (some r.2.2)).set k (some r.2.1)
    | _, _ => p
  | .cassign k src =>
    match p.arrs k, p.arrs src with
    | some a, some b =>
      if k = src then p
      else let r := copyAssign p.heap a b; (p.withHeap r.1).set k (some r.2)
    | _, _ => p
  | .swap j k =>
    match p.arrs j, p.arrs k with
    | some a, some b => let r := Own.swap a b; (p.set j (some r.1)).set k (some r.2)
    | _, _ => p
  | .clear k =>
    match p.arrs k with
    | some a => let r := clear p.heap a; (p.withHeap r.1).set k (some r.2)
    | none => p
  | .reshape k es =>
    match p.arrs k with
    | some a => let r := reshape p.heap a es; (p.withHeap r.1).set k (some r.2)
    | none => p
  | .assignf k es v =>
    match p.arrs k with
    | some a => let r := assignFill p.heap a es v; (p.withHeap r.1).set k (some r.2)
    | none => p
  | .reextm k es =>
    match p.arrs k with
    | some a => let r := reextentMoved cfg p.heap a es; (p.withHeap r.1).set k (some r.2)
    | none => p
  | .reextSame k es fill =>
    match p.arrs k with
    | some a => let r := reextent cfg p.heap a es fill; (p.withHeap r.1).set k (some r.2)
    | none => p
  | .destroy k =>
    match p.arrs k with
    | some a => (p.withHeap (dtor p.heap a)).set k none
    | none => p
  | .write k idx v =>
    match p.arrs k with
    | some a => (p.withHeap (writeAt p.heap a idx v)).set k (some a)
    | none => p
  | .reext k es fill =>
    match p.arrs k with
    | some a => let r := reextent cfg p.heap a es fill; (p.withHeap r.1).set k (some r.2)
    | none => p
  | .vctor k src ops =>
    match p.arrs src with
    | some b => let r := viewCtor p.heap b.base (applyOps b.view ops); (p.withHeap r.1).set k (some r.2)
    | none => p
  | .vassign k src ops =>
    match p.arrs k, p.arrs src with
    | some a, some b => let r := viewAssign p.heap a b.base (applyOps b.view ops); (p.withHeap r.1).set k (some r.2)
    | _, _ => p
  | .rassign k src ops =>
    match p.arrs k, p.arrs src with
    | some a, some b => let r := rangeAssign p.heap a b.base (applyOps b.view ops); (p.withHeap r.1).set k (some r.2)
    | _, _ => p
  | .convassign k src =>
    match p.arrs k, p.arrs src with
    | some a, some b => let r := convAssign p.heap a b; (p.withHeap r.1).set k (some r.2)
    | _, _ => p
  | .stdswap j k =>
    match p.arrs j, p.arrs k with
    | some a, some b => let r := stdSwap p.heap a b; ((p.withHeap r.1).set j (some r.2.1)).set k (some r.2.2)
    | _, _ => p
  | .assignr k c inner vals =>
    match p.arrs k with
    | some a => let r := assignRange p.heap a c inner vals; (p.withHeap r.1).set k (some r.2)
    | none => p
  | .ilassign k c inner vals =>
    match p.arrs k with
    | some a => let r := ilAssign p.heap a c inner vals; (p.withHeap r.1).set k (some r.2)
    | none => p
  | .il k c inner vals => let r := ilCtor cfg p.heap c inner vals; (p.withHeap r.1).set k (some r.2)

/-- the documented effect on values -/
def specStep (cfg : Cfg α) (ap : Nat → Option (AbsArr α)) : VOp α → (Nat → Option (AbsArr α))
  | .dflt k D => upd ap k (some (emptyVal D))
  | .exts k es => upd ap k (some ⟨collapse es, List.replicate (nElems es).toNat (initCell cfg)⟩)
  | .fill k es v => upd ap k (some ⟨collapse es, List.replicate (nElems es).toNat (some v)⟩)
  | .copy k src => upd ap k (ap src)
  | .range k c inner vals => upd ap k (some ⟨collapse (rangeExts c inner), vals.map some⟩)
  | .move k src => upd (upd ap src ((ap src).map fun x => emptyVal x.exts.length)) k (ap src)
  | .massign k src => if k = src then ap else upd (upd ap src ((ap src).map fun x => emptyVal x.exts.length)) k (ap src)
  | .cassign k src => upd ap k (ap src)
  | .swap j k => upd (upd ap j (ap k)) k (ap j)
  | .clear k => upd ap k ((ap k).map fun x => emptyVal x.exts.length)
  | .reshape k es => upd ap k ((ap k).map fun x => ⟨collapse es, x.elems⟩)
  | .assignf k es v => upd ap k (some ⟨collapse es, List.replicate (nElems es).toNat (some v)⟩)
  | .reextm k es => upd ap k ((ap k).map fun x =>
      if Exts.eqv es x.exts = true then x else ⟨collapse es, List.replicate (nElems es).toNat (initCell cfg)⟩)
  | .reextSame _ _ _ => ap
  | .destroy k => upd ap k none
  | .write k idx v => upd ap k ((ap k).map fun x => ⟨x.exts, x.elems.set (rowMajor x.exts idx).toNat (some v)⟩)
  | .reext k es fill => upd ap k ((ap k).map fun x => if Exts.eqv es x.exts = true then x else reextVal cfg x es fill)
  | .vctor k src ops => upd ap k ((ap src).map fun x => viewVal x ops)
  | .vassign k src ops => upd ap k ((ap src).map fun x => viewVal x ops)
  | .rassign k src ops => upd ap k ((ap src).map fun x => viewVal x ops)
  | .convassign k src => upd ap k (ap src)
  | .stdswap j k => upd (upd ap j (ap k)) k (ap j)
  | .assignr k c inner vals => upd ap k ((ap k).map fun x => listVal x c inner vals)
  | .ilassign k c inner vals => upd ap k ((ap k).map fun x => if c = 0 then emptyVal x.exts.length else listVal x c inner vals)
  | .il k c inner vals => upd ap k (some ⟨collapse (rangeExts c inner), vals.map some⟩)

/-- the domain of each operation: slots live / free as the operation needs, extensions well formed, reshape to the same count -/
def VOp.InDom (p : Pool α) : VOp α → Prop
  | .dflt k D => p.arrs k = none ∧ D ≠ 0
  | .exts k es => p.arrs k = none ∧ ExtsOK es
  | .fill k es _ => p.arrs k = none ∧ ExtsOK es
  | .copy k src => p.arrs k = none ∧ ∃ b, p.arrs src = some b
  | .range k c inner vals => p.arrs k = none ∧ ExtsOK (rangeExts c inner) ∧ (vals.length : Int) = nElems (rangeExts c inner)
  | .move k src => p.arrs k = none ∧ ∃ b, p.arrs src = some b ∧ b.dim ≠ 0
  | .massign k src => ∃ a b, p.arrs k = some a ∧ p.arrs src = some b ∧ a.dim ≠ 0 ∧ b.dim ≠ 0
  | .cassign k src => ∃ a b, p.arrs k = some a ∧ p.arrs src = some b ∧ a.dim ≠ 0
  | .swap j k => ∃ a b, p.arrs j = some a ∧ p.arrs k = some b
  | .clear k => ∃ a, p.arrs k = some a ∧ a.dim ≠ 0
  | .reshape k es => ∃ a, p.arrs k = some a ∧ ExtsOK es ∧ nElems es = a.numElements
  | .assignf k es _ => ∃ a, p.arrs k = some a ∧ a.dim ≠ 0 ∧ ExtsOK es
  | .reextm k es => ∃ a, p.arrs k = some a ∧ ExtsOK es
  | .reextSame k es _ => ∃ a, p.arrs k = some a ∧ Exts.eqv es a.exts = true
  | .destroy k => ∃ a, p.arrs k = some a
  | .write k idx _ => ∃ a, p.arrs k = some a ∧ InBox a.exts idx
  | .reext k es _ => ∃ a, p.arrs k = some a ∧ ExtsOK es ∧ es.length = a.dim ∧ a.dim ≠ 0
  | .vctor k src ops => p.arrs k = none ∧ ∃ b, p.arrs src = some b ∧ OpsInDom b.view ops ∧ (applyOps b.view ops).lay ≠ []
  | .vassign k src ops => k ≠ src ∧ ∃ a b, p.arrs k = some a ∧ p.arrs src = some b ∧ a.dim ≠ 0 ∧ OpsInDom b.view ops ∧
      (applyOps b.view ops).lay ≠ [] ∧ (applyOps b.view ops).exts.length = a.dim
  | .rassign k src ops => k ≠ src ∧ ∃ a b, p.arrs k = some a ∧ p.arrs src = some b ∧ a.dim ≠ 0 ∧ OpsInDom b.view ops ∧
      (applyOps b.view ops).lay ≠ [] ∧ (applyOps b.view ops).exts.length = a.dim
  | .convassign k src => k ≠ src ∧ ∃ a b, p.arrs k = some a ∧ p.arrs src = some b ∧ a.dim ≠ 0 ∧ b.dim = a.dim
  | .stdswap j k => j ≠ k ∧ ∃ a b, p.arrs j = some a ∧ p.arrs k = some b ∧ a.dim ≠ 0 ∧ b.dim ≠ 0
  | .assignr k c inner vals => ∃ a, p.arrs k = some a ∧ a.dim ≠ 0 ∧ ExtsOK (rangeExts c inner) ∧ (vals.length : Int) = nElems (rangeExts c inner)
  | .ilassign k c inner vals => ∃ a, p.arrs k = some a ∧ a.dim ≠ 0 ∧ ExtsOK (rangeExts c inner) ∧ (vals.length : Int) = nElems (rangeExts c inner)
  | .il k c inner vals => p.arrs k = none ∧ ExtsOK (rangeExts c inner) ∧ (vals.length : Int) = nElems (rangeExts c inner)

theorem absPool_some {p : Pool α} {k : Nat} {a : Arr} (h : p.arrs k = some a) : absPool p k = some (absArr p.heap a) := by
  simp [absPool, h]

theorem absPool_none {p : Pool α} {k : Nat} (h : p.arrs k = none) : absPool p k = none := by simp [absPool, h]

theorem exts_length (a : Arr) : a.exts.length = a.dim := by simp [Arr.exts, Arr.dim, Layout.exts]

/-! ### the two-slot operations -/

/-- exchanging two slots keeps the invariant -/
theorem Inv.swapSlots {p : Pool α} (hi : Inv p) {j k : Nat} {a b : Arr} (hj : p.arrs j = some a) (hk : p.arrs k = some b) :
    Inv ((p.set j (some b)).set k (some a)) ∧
    absPool ((p.set j (some b)).set k (some a)) = upd (upd (absPool p) j (absPool p k)) k (absPool p j) := by
  by_cases hjk : j = k
  · subst hjk
    have hab : a = b := Option.some.inj (hj.symm.trans hk)
    subst hab
    have hp : ((p.set j (some a)).set j (some a)) = p := by
      cases p with
      | mk heap arrs =>
        simp only [Pool.set, Pool.mk.injEq, true_and]
        funext i
        by_cases hi' : i = j
        · simp only [hi', if_true]; exact hj.symm
        · simp [hi']
    rw [hp]
    refine ⟨hi, ?_⟩
    funext i
    by_cases hi' : i = j
    · simp [upd, hi']
    · simp [upd, hi']
  · -- the slot a new-pool array came from
    have src : ∀ i c, ((p.set j (some b)).set k (some a)).arrs i = some c →
        (i = k ∧ c = a) ∨ (i = j ∧ i ≠ k ∧ c = b) ∨ (i ≠ j ∧ i ≠ k ∧ p.arrs i = some c) := by
      intro i c hc
      simp only [Pool.set_arrs, upd] at hc
      by_cases hik : i = k
      · simp only [hik, if_true] at hc; exact Or.inl ⟨hik, (Option.some.inj hc).symm⟩
      · simp only [hik, if_false] at hc
        by_cases hij : i = j
        · simp only [hij, if_true] at hc; exact Or.inr (Or.inl ⟨hij, hik, (Option.some.inj hc).symm⟩)
        · simp only [hij, if_false] at hc; exact Or.inr (Or.inr ⟨hij, hik, hc⟩)
    -- each new-pool array is the array of some old slot, injectively
    have orig : ∀ i c, ((p.set j (some b)).set k (some a)).arrs i = some c → ∃ i', p.arrs i' = some c ∧
        (i' = (if i = k then j else if i = j then k else i)) := by
      intro i c hc
      rcases src i c hc with ⟨h1, h2⟩ | ⟨h1, h2, h3⟩ | ⟨h1, h2, h3⟩
      · exact ⟨j, h2 ▸ hj, by simp [h1]⟩
      · refine ⟨k, h3 ▸ hk, ?_⟩
        rw [if_neg h2, if_pos h1]
      · exact ⟨i, h3, by simp [h1, h2]⟩
    constructor
    · refine ⟨hi.noub, hi.noasrt, ?_, ?_⟩
      · intro i c hc
        obtain ⟨i', h1, _⟩ := orig i c hc
        exact hi.valid i' c h1
      · intro i1 i2 c1 c2 hne h1 h2 hn1 hn2
        obtain ⟨i1', g1, e1⟩ := orig i1 c1 h1
        obtain ⟨i2', g2, e2⟩ := orig i2 c2 h2
        apply hi.sep i1' i2' c1 c2 ?_ g1 g2 hn1 hn2
        rw [e1, e2]
        by_cases a1 : i1 = k <;> by_cases a2 : i2 = k <;> by_cases b1 : i1 = j <;> by_cases b2 : i2 = j <;> simp_all <;> omega
    · funext i
      simp only [absPool, Pool.set_arrs, Pool.set_heap, upd]
      by_cases hik : i = k
      · simp [hik, hj]
      · by_cases hij : i = j
        · simp [hij, hjk, hk]
        · simp [hik, hij]

theorem Pool.set_same (p : Pool α) {k : Nat} {a : Arr} (hk : p.arrs k = some a) : (p.withHeap p.heap).set k (some a) = p := by
  cases p with
  | mk heap arrs =>
    simp only [Pool.set, Pool.withHeap, Pool.mk.injEq, true_and]
    funext i
    by_cases hi' : i = k
    · simp only [hi', if_true]; exact hk.symm
    · simp [hi']

theorem upd_self {β : Type} (f : Nat → β) (k : Nat) : upd f k (f k) = f := by
  funext i; by_cases h : i = k <;> simp [upd, h]

/-- end of an array's lifetime: its block is released, nothing else changes -/
theorem Inv.remove {p : Pool α} (hi : Inv p) {k : Nat} {a : Arr} (hk : p.arrs k = some a) :
    Inv ((p.withHeap (dtor p.heap a)).set k none) ∧ absPool ((p.withHeap (dtor p.heap a)).set k none) = upd (absPool p) k none := by
  obtain ⟨hf, hu, hs⟩ := dtor_frame (hi.valid k a hk)
  have hother : ∀ j b, j ≠ k → p.arrs j = some b → Valid (dtor p.heap a) b ∧ cellsOf (dtor p.heap a) b = cellsOf p.heap b := by
    intro j b hjk hb
    apply (hi.valid j b hb).frame hf
    intro hn x hx hm
    exact hi.sep j k b a hjk hb hk hn hm.1 (by rw [hx, hm.2])
  constructor
  · refine ⟨by simp [hu, hi.noub], by simp [hs, hi.noasrt], ?_, ?_⟩
    · intro j b hb
      simp only [Pool.set_arrs, Pool.withHeap_arrs, upd] at hb
      simp only [Pool.set_heap, Pool.withHeap_heap]
      by_cases hjk : j = k
      · simp [hjk] at hb
      · simp only [hjk, if_false] at hb; exact (hother j b hjk hb).1
    · intro i j b c hij hb hc hnb hnc
      simp only [Pool.set_arrs, Pool.withHeap_arrs, upd] at hb hc
      by_cases hik : i = k
      · simp [hik] at hb
      · by_cases hjk : j = k
        · simp [hjk] at hc
        · simp only [hik, if_false] at hb; simp only [hjk, if_false] at hc
          exact hi.sep i j b c hij hb hc hnb hnc
  · funext j
    simp only [absPool, Pool.set_arrs, Pool.withHeap_arrs, Pool.set_heap, Pool.withHeap_heap, upd]
    by_cases hjk : j = k
    · simp [hjk]
    · simp only [hjk, if_false]
      cases hb : p.arrs j with
      | none => rfl
      | some b =>
        simp only [Option.map_some]
        congr 1
        unfold absArr
        rw [(hother j b hjk hb).2]

theorem Pool.set_set (p : Pool α) (k : Nat) (x y : Option Arr) : (p.set k x).set k y = p.set k y := by
  cases p with
  | mk heap arrs =>
    simp only [Pool.set, Pool.mk.injEq, true_and]
    funext i
    by_cases hi' : i = k <;> simp [hi']

/-- `std::swap` on two arrays of dimensionality ≥ 1: no heap effect; the first gets the second's block and layout, the second the first's
    block with the layout rebuilt from its extensions -/
theorem stdSwap_eq (h : Heap α) (a b : Arr) (hDa : a.dim ≠ 0) (hDb : b.dim ≠ 0) : stdSwap h a b = (h, b, (moveCtor a).1) := by
  have h1 : (⟨none, emptyLay a.dim⟩ : Arr).numElements = 0 := emptyLay_numElements hDa
  have h2 : (⟨b.base, emptyLay b.dim⟩ : Arr).numElements = 0 := emptyLay_numElements hDb
  have hd3 : (moveCtor a).1.dim ≠ 0 := by
    show (Layout.ofExts a.exts).length ≠ 0; rw [ofExts_length, arr_exts_length]; exact hDa
  have h3 : (⟨(moveCtor a).1.base, emptyLay (moveCtor a).1.dim⟩ : Arr).numElements = 0 := emptyLay_numElements hd3
  simp only [stdSwap, moveAssign, clear, dtor, moveCtor] at h3 ⊢
  unfold deallocate
  simp [h1, h2, h3]

/-- **one step commutes with abstraction and keeps the invariant** -/
theorem step_refines (cfg : Cfg α) (p : Pool α) (hi : Inv p) (op : VOp α) (hd : op.InDom p) :
    Inv (step cfg p op) ∧ absPool (step cfg p op) = specStep cfg (absPool p) op := by
  cases op with
  | dflt k D =>
    obtain ⟨hk, hD⟩ := hd
    exact hi.replace k (defaultCtor_outcome cfg p.heap hD) (noOwner hk)
  | exts k es =>
    obtain ⟨hk, hes⟩ := hd
    exact hi.replace k (extsCtor_outcome cfg p.heap hes) (noOwner hk)
  | fill k es v =>
    obtain ⟨hk, hes⟩ := hd
    exact hi.replace k (fillCtor_outcome p.heap hes v) (noOwner hk)
  | copy k src =>
    obtain ⟨hk, b, hb⟩ := hd
    have := hi.replace k (copyCtor_outcome p.heap (hi.valid src b hb)) (noOwner hk)
    simp only [step, hb, specStep, absPool_some hb]
    exact this
  | range k c inner vals =>
    obtain ⟨hk, hes, hlen⟩ := hd
    exact hi.replace k (rangeCtor_outcome p.heap c inner vals hes hlen) (noOwner hk)
  | move k src =>
    obtain ⟨hk, b, hb, hD⟩ := hd
    have hks : k ≠ src := fun e => by rw [e, hb] at hk; exact absurd hk (by simp)
    have hvb := hi.valid src b hb
    obtain ⟨v1, a1, n1, b1⟩ := moveCtor_valid hvb
    obtain ⟨ve, ae⟩ := empty_valid p.heap none hD
    -- first the source becomes empty
    obtain ⟨i1, p1⟩ := hi.replace' src (M := fun _ => False) (Frame.refl _ _) rfl rfl ve ae (fun _ hf => False.elim hf)
      (fun hn => absurd (emptyLay_numElements hD) hn)
    -- then the new array takes over the block
    have hk1 : ((p.withHeap p.heap).set src (some ⟨none, emptyLay b.dim⟩)).arrs k = none := by
      simp [Pool.set_arrs, upd, hks, hk]
    obtain ⟨i2, p2⟩ := i1.replace' k (M := fun _ => False) (Frame.refl _ _) rfl rfl v1 a1 (fun _ hf => False.elim hf) (by
      intro hn j c hjk hc hnc
      simp only [Pool.set_arrs, Pool.withHeap_arrs, upd] at hc
      by_cases hjs : j = src
      · simp only [hjs, if_true] at hc
        rw [← Option.some.inj hc] at hnc
        exact absurd (emptyLay_numElements hD) hnc
      · simp only [hjs, if_false] at hc
        rw [b1]
        exact hi.sep j src c b hjs hc hb hnc (by rw [← n1]; exact hn))
    have epool : step cfg p (.move k src) = (((p.withHeap p.heap).set src (some ⟨none, emptyLay b.dim⟩)).withHeap
        ((p.withHeap p.heap).set src (some ⟨none, emptyLay b.dim⟩)).heap).set k (some (moveCtor b).1) := by
      simp only [step, hb]; rfl
    rw [epool]
    refine ⟨i2, ?_⟩
    rw [p2, p1]
    simp [specStep, absPool_some hb, absArr, exts_length, emptyVal]
  | massign k src =>
    obtain ⟨a, b, ha, hb, hDa, hDb⟩ := hd
    by_cases hks : k = src
    · subst hks
      have e1 : step cfg p (.massign k k) = p := by simp [step, ha]
      have e2 : specStep cfg (absPool p) (.massign k k) = absPool p := by simp [specStep]
      rw [e1, e2]; exact ⟨hi, rfl⟩
    · have hva := hi.valid k a ha
      have hvb := hi.valid src b hb
      obtain ⟨ve, ae⟩ := empty_valid p.heap b.base hDb
      obtain ⟨i1, p1⟩ := hi.replace' src (M := fun _ => False) (Frame.refl _ _) rfl rfl ve ae (fun _ hf => False.elim hf)
        (fun hn => absurd (emptyLay_numElements hDb) hn)
      have hk1 : ((p.withHeap p.heap).set src (some ⟨b.base, emptyLay b.dim⟩)).arrs k = some a := by
        simp [Pool.set_arrs, upd, hks, ha]
      obtain ⟨f1, u1, s1⟩ := deallocate_frame hva
      obtain ⟨v2, c2⟩ := hva.after_dealloc hvb (fun hna hnb => hi.sep k src a b hks ha hb hna hnb)
      obtain ⟨i2, p2⟩ := i1.replace' k (h' := deallocate p.heap a) (a' := b) (val := absArr p.heap b) (M := ownBlock a)
        f1 u1 s1 v2 (by unfold absArr; rw [c2]) (ownOf hk1) (by
          intro hn j c hjk hc hnc
          simp only [Pool.set_arrs, Pool.withHeap_arrs, upd] at hc
          by_cases hjs : j = src
          · simp only [hjs, if_true] at hc
            rw [← Option.some.inj hc] at hnc
            exact absurd (emptyLay_numElements hDb) hnc
          · simp only [hjs, if_false] at hc
            exact hi.sep j src c b hjs hc hb hnc hn)
      have epool : step cfg p (.massign k src) = (((p.withHeap p.heap).set src (some ⟨b.base, emptyLay b.dim⟩)).withHeap
          (deallocate p.heap a)).set k (some b) := by
        simp only [step, ha, hb, hks, if_false, moveAssign, clear]; rfl
      rw [epool]
      refine ⟨i2, ?_⟩
      rw [p2, p1]
      simp [specStep, hks, absPool_some hb, absArr, exts_length, emptyVal]
  | cassign k src =>
    obtain ⟨a, b, ha, hb, hDa⟩ := hd
    by_cases hks : k = src
    · subst hks
      have e1 : step cfg p (.cassign k k) = p := by simp [step, ha]
      have e2 : specStep cfg (absPool p) (.cassign k k) = absPool p := by simp [specStep, upd_self]
      rw [e1, e2]; exact ⟨hi, rfl⟩
    · have := hi.replace k (copyAssign_outcome (hi.valid k a ha) (hi.valid src b hb) hDa
        (fun hna hnb => hi.sep k src a b hks ha hb hna hnb)) (ownOf ha)
      simp only [step, ha, hb, specStep, hks, if_false, absPool_some hb]
      exact this
  | swap j k =>
    obtain ⟨a, b, ha, hb⟩ := hd
    have := hi.swapSlots ha hb
    simp only [step, ha, hb, specStep, Own.swap]
    exact this
  | clear k =>
    obtain ⟨a, ha, hD⟩ := hd
    have := hi.replace k (clear_outcome (hi.valid k a ha) hD) (ownOf ha)
    simp only [step, ha, specStep, absPool_some ha, Option.map_some]
    simpa [absArr, exts_length, emptyVal] using this
  | reshape k es =>
    obtain ⟨a, ha, hes, hn⟩ := hd
    have := hi.replace k (reshape_outcome (hi.valid k a ha) hes hn).1 (ownOf ha)
    simp only [step, ha, specStep, absPool_some ha, Option.map_some]
    exact this
  | assignf k es v =>
    obtain ⟨a, ha, hD, hes⟩ := hd
    have := hi.replace k (assignFill_outcome (hi.valid k a ha) hD hes v) (ownOf ha)
    simp only [step, ha, specStep]
    exact this
  | reextm k es =>
    obtain ⟨a, ha, hes⟩ := hd
    have := hi.replace k (reextentMoved_outcome cfg (hi.valid k a ha) hes) (ownOf ha)
    simp only [step, ha, specStep, absPool_some ha, Option.map_some]
    exact this
  | reextSame k es fill =>
    obtain ⟨a, ha, hx⟩ := hd
    simp only [step, ha, specStep, reextent_same cfg p.heap a es fill hx]
    rw [Pool.set_same p ha]
    exact ⟨hi, rfl⟩
  | destroy k =>
    obtain ⟨a, ha⟩ := hd
    have := hi.remove ha
    simp only [step, ha, specStep]
    exact this
  | write k idx v =>
    obtain ⟨a, ha, hidx⟩ := hd
    have := hi.replace k (writeAt_outcome (hi.valid k a ha) hidx v) (ownOf ha)
    simp only [step, ha, specStep, absPool_some ha, Option.map_some]
    exact this
  | vctor k src ops =>
    obtain ⟨hk, b, hb, hdom, hne⟩ := hd
    have hvb := hi.valid src b hb
    obtain ⟨wf, hin, hnz, hval⟩ := view_of_array hvb ops hdom
    have ho := viewCtor_outcome_all p.heap b.base (cellsOf p.heap b) _ wf hne
      (fun hn => by obtain ⟨s, hs, hl, _⟩ := hvb.block (hnz hn); exact ⟨s, hs, hl⟩) hin
    rw [hval] at ho
    have := hi.replace k ho (noOwner hk)
    simp only [step, hb, specStep, absPool_some hb, Option.map_some]
    exact this
  | vassign k src ops =>
    obtain ⟨hks, a, b, ha, hb, hD, hdom, hne, hdim⟩ := hd
    have hvb := hi.valid src b hb
    obtain ⟨wf, hin, hnz, hval⟩ := view_of_array hvb ops hdom
    have ho := viewAssign_outcome (hi.valid k a ha) hD b.base (cellsOf p.heap b) _ wf hne
      (fun hn => by
        obtain ⟨s, hs, hl, _⟩ := hvb.block (hnz hn)
        exact ⟨s, hs, hl, fun hna => by rw [← hs]; exact hi.sep k src a b hks ha hb hna (hnz hn)⟩) hin
    rw [hval] at ho
    have := hi.replace k ho (ownOf ha)
    simp only [step, ha, hb, specStep, absPool_some hb, Option.map_some]
    exact this
  | rassign k src ops =>
    obtain ⟨hks, a, b, ha, hb, hD, hdom, hne, hdim⟩ := hd
    have hvb := hi.valid src b hb
    obtain ⟨wf, hin, hnz, hval⟩ := view_of_array hvb ops hdom
    have ho := rangeAssign_outcome (hi.valid k a ha) hD b.base (cellsOf p.heap b) _ wf hne hdim
      (fun hn => by
        obtain ⟨s, hs, hl, _⟩ := hvb.block (hnz hn)
        exact ⟨s, hs, hl, fun hna => by rw [← hs]; exact hi.sep k src a b hks ha hb hna (hnz hn)⟩) hin
    rw [hval] at ho
    have := hi.replace k ho (ownOf ha)
    simp only [step, ha, hb, specStep, absPool_some hb, Option.map_some]
    exact this
  | convassign k src =>
    obtain ⟨hks, a, b, ha, hb, hD, hdim⟩ := hd
    have := hi.replace k (convAssign_outcome (hi.valid k a ha) (hi.valid src b hb) hD hdim
      (fun hna hnb => hi.sep k src a b hks ha hb hna hnb)) (ownOf ha)
    simp only [step, ha, hb, specStep, absPool_some hb]
    exact this
  | stdswap j k =>
    obtain ⟨hjk, a, b, ha, hb, hDa, hDb⟩ := hd
    obtain ⟨i1, p1⟩ := hi.swapSlots ha hb
    have hva := hi.valid j a ha
    obtain ⟨v1, a1, n1, b1⟩ := moveCtor_valid hva
    have hk1 : ((p.set j (some b)).set k (some a)).arrs k = some a := by simp [Pool.set_arrs, upd]
    obtain ⟨i2, p2⟩ := i1.replace' k (h' := p.heap) (M := fun _ => False) (Frame.refl _ _) rfl rfl v1 a1 (fun _ hf => False.elim hf) (by
      intro hn i c hik hc hnc
      rw [b1]
      exact i1.sep i k c a hik hc hk1 hnc (by rw [← n1]; exact hn))
    have epool : step cfg p (.stdswap j k) = ((((p.set j (some b)).set k (some a)).withHeap p.heap).set k (some (moveCtor a).1)) := by
      simp only [step, ha, hb, stdSwap_eq p.heap a b hDa hDb]
      show ((p.withHeap p.heap).set j (some b)).set k (some (moveCtor a).1) = _
      have : (((p.set j (some b)).set k (some a)).withHeap p.heap).set k (some (moveCtor a).1)
          = ((p.set j (some b)).set k (some a)).set k (some (moveCtor a).1) := rfl
      rw [this, Pool.set_set]; rfl
    rw [epool]
    refine ⟨i2, ?_⟩
    rw [p2, p1]
    funext i
    simp only [specStep, upd]
    by_cases hik : i = k
    · simp [hik, absPool_some ha]
    · simp [hik]
  | assignr k c inner vals =>
    obtain ⟨a, ha, hD, hes, hlen⟩ := hd
    have := hi.replace k (assignRange_outcome (hi.valid k a ha) hD c inner vals hes hlen) (ownOf ha)
    simp only [step, ha, specStep, absPool_some ha, Option.map_some]
    exact this
  | ilassign k c inner vals =>
    obtain ⟨a, ha, hD, hes, hlen⟩ := hd
    have := hi.replace k (ilAssign_outcome (hi.valid k a ha) hD c inner vals hes hlen) (ownOf ha)
    simp only [step, ha, specStep, absPool_some ha, Option.map_some]
    have he : (absArr p.heap a).exts.length = a.dim := exts_length a
    simp only [he, emptyVal]
    exact this
  | il k c inner vals =>
    obtain ⟨hk, hes, hlen⟩ := hd
    exact hi.replace k (ilCtor_outcome cfg p.heap c inner vals hes hlen) (noOwner hk)
  | reext k es fill =>
    obtain ⟨a, ha, hes, hlen, hD⟩ := hd
    by_cases hx : Exts.eqv es a.exts = true
    · simp only [step, ha, specStep, reextent_same cfg p.heap a es fill hx, absPool_some ha, Option.map_some]
      rw [Pool.set_same p ha]
      have : (absArr p.heap a).exts = a.exts := rfl
      simp only [this, hx, if_true]
      refine ⟨hi, ?_⟩
      rw [← absPool_some ha, upd_self]
    · have hx' : Exts.eqv es a.exts = false := by simpa using hx
      have := hi.replace k (reextent_outcome cfg (hi.valid k a ha) hes hlen hD fill hx') (ownOf ha)
      simp only [step, ha, specStep, absPool_some ha, Option.map_some]
      have he : (absArr p.heap a).exts = a.exts := rfl
      simp only [he, hx', Bool.false_eq_true, if_false]
      exact this

/-! ### histories -/

/-- run a history on the model -/
def run (cfg : Cfg α) (p : Pool α) : List (VOp α) → Pool α
  | [] => p
  | op :: ops => run cfg (step cfg p op) ops

/-- run a history on values -/
def specRun (cfg : Cfg α) (ap : Nat → Option (AbsArr α)) : List (VOp α) → (Nat → Option (AbsArr α))
  | [] => ap
  | op :: ops => specRun cfg (specStep cfg ap op) ops

/-- every operation of the history is in its domain when it is executed -/
def InDomAll (cfg : Cfg α) (p : Pool α) : List (VOp α) → Prop
  | [] => True
  | op :: ops => op.InDom p ∧ InDomAll cfg (step cfg p op) ops

/-- the empty pool -/
def Pool.empty : Pool α := ⟨{}, fun _ => none⟩

theorem Inv.empty : Inv (Pool.empty : Pool α) :=
  ⟨rfl, rfl, fun _ _ h => by simp [Pool.empty] at h, fun _ _ _ _ _ h => by simp [Pool.empty] at h⟩

end Own
end Multi
