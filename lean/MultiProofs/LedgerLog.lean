/-
  MultiProofs.LedgerLog — which micro-steps write to element cells.  A cell is written by a construction (`ctor` event) or
  an assignment (`assign` event) and by nothing else; the programs that contain no construction step leave the number of
  `ctor` events of the ledger unchanged, whatever their outcome (used by C08.trivial_no_write).
-/
import MultiProofs.LedgerOps

namespace Multi
namespace Ledger

def Event.isCtor : Event → Bool
  | .ctor .. => true
  | _ => false

/-- number of element constructions recorded in a ledger -/
def ctorCount (l : List Event) : Nat := l.countP Event.isCtor

def Res.state {α : Type} : Res α → St
  | .ok _ s => s
  | .threw s => s
  | .term s => s
  | .ub s => s

/-- the program performs no element construction, whatever happens -/
def NoCtor {α : Type} (m : M α) : Prop := ∀ s, ctorCount (m s).state.log = ctorCount s.log

theorem ctorCount_append (l : List Event) (e : Event) : ctorCount (l ++ [e]) = ctorCount l + (if e.isCtor then 1 else 0) := by
  simp [ctorCount, List.countP_append, List.countP_cons]

namespace NoCtor

variable {α β : Type}

theorem pure (a : α) : NoCtor (Pure.pure a : M α) := fun _ => rfl

theorem bind {m : M α} {f : α → M β} (hm : NoCtor m) (hf : ∀ a, NoCtor (f a)) : NoCtor (m >>= f) := by
  intro s
  show ctorCount (M.bind m f s).state.log = _
  unfold M.bind
  have h1 := hm s
  cases hr : m s with
  | ok a s1 => rw [hr] at h1; simp only [Res.state] at h1; rw [← h1]; exact hf a s1
  | threw s1 => rw [hr] at h1; exact h1
  | term s1 => rw [hr] at h1; exact h1
  | ub s1 => rw [hr] at h1; exact h1

theorem tryCatch {m h : M α} (hm : NoCtor m) (hh : NoCtor h) : NoCtor (Ledger.tryCatch m h) := by
  intro s
  unfold Ledger.tryCatch
  have h1 := hm s
  cases hr : m s with
  | ok a s1 => rw [hr] at h1; exact h1
  | threw s1 => rw [hr] at h1; simp only [Res.state] at h1; rw [← h1]; exact hh s1
  | term s1 => rw [hr] at h1; exact h1
  | ub s1 => rw [hr] at h1; exact h1

theorem noexcept {m : M α} (hm : NoCtor m) : NoCtor (Ledger.noexcept m) := by
  intro s
  unfold Ledger.noexcept
  have h1 := hm s
  cases hr : m s with
  | ok a s1 => rw [hr] at h1; exact h1
  | threw s1 => rw [hr] at h1; exact h1
  | term s1 => rw [hr] at h1; exact h1
  | ub s1 => rw [hr] at h1; exact h1

theorem ite {c : Prop} [Decidable c] {m1 m2 : M α} (h1 : NoCtor m1) (h2 : NoCtor m2) : NoCtor (if c then m1 else m2) := by
  split <;> assumption

theorem get : NoCtor Ledger.get := fun _ => rfl
theorem rethrow : NoCtor (Ledger.rethrow : M α) := fun _ => rfl
theorem ub : NoCtor (Ledger.ub : M α) := fun _ => rfl
theorem setSlot (i : Nat) (o : Option Arr) : NoCtor (Ledger.setSlot i o) := fun _ => rfl

theorem tick (k : Step) : NoCtor (Ledger.tick k) := by
  intro s
  unfold Ledger.tick
  cases s.fuel with
  | none => rfl
  | some n => cases n <;> rfl

theorem allocate (a : AllocId) (n : Nat) : NoCtor (Ledger.allocate a n) := by
  intro s
  unfold Ledger.allocate
  split
  · rfl
  · have ht := tick Step.alloc s
    cases hr : Ledger.tick Step.alloc s with
    | ok u s1 =>
      rw [hr] at ht; simp only [Res.state] at ht ⊢
      rw [ctorCount_append]; simp [Event.isCtor, ht]
    | threw s1 => rw [hr] at ht; exact ht
    | term s1 => rw [hr] at ht; exact ht
    | ub s1 => rw [hr] at ht; exact ht

theorem readCells (c : Cfg) (base : Option Nat) (n : Nat) : NoCtor (Ledger.readCells c base n) := by
  intro s
  unfold Ledger.readCells
  split
  · rfl
  · cases base with
    | none => rfl
    | some b =>
      simp only
      cases s.blocks[b]? with
      | none => rfl
      | some blk => simp only; split <;> rfl

theorem assignCell (c : Cfg) (b off : Nat) : NoCtor (Ledger.assignCell c b off) := by
  intro s
  unfold Ledger.assignCell
  cases s.blocks[b]? with
  | none => rfl
  | some blk =>
    simp only
    split
    · rfl
    · have ht : ctorCount (if c.elemThrows = true then Ledger.tick Step.assign s else Res.ok () s).state.log = ctorCount s.log := by
        split
        · exact tick Step.assign s
        · rfl
      cases hr : (if c.elemThrows = true then Ledger.tick Step.assign s else Res.ok () s) with
      | ok u s1 =>
        rw [hr] at ht; simp only [Res.state] at ht ⊢
        show ctorCount (s1.log ++ [Event.assign b off]) = _
        rw [ctorCount_append]; simp [Event.isCtor, ht]
      | threw s1 => rw [hr] at ht; exact ht
      | term s1 => rw [hr] at ht; exact ht
      | ub s1 => rw [hr] at ht; exact ht

theorem assignCells (c : Cfg) (b : Nat) : ∀ offs, NoCtor (Ledger.assignCells c b offs)
  | [] => pure ()
  | o :: rest => bind (assignCell c b o) (fun _ => assignCells c b rest)

theorem assignAll (c : Cfg) (base : Option Nat) (offs : List Nat) : NoCtor (Ledger.assignAll c base offs) := by
  unfold Ledger.assignAll
  cases offs with
  | nil => exact pure ()
  | cons o r =>
    cases base with
    | none => exact ub
    | some b => exact assignCells c b (o :: r)

theorem dtorCell (b off : Nat) : NoCtor (Ledger.dtorCell b off) := by
  intro s
  unfold Ledger.dtorCell
  cases s.blocks[b]? with
  | none => rfl
  | some blk =>
    simp only
    split
    · rfl
    · show ctorCount (s.log ++ [Event.dtor b off]) = _
      rw [ctorCount_append]; simp [Event.isCtor]

theorem destroyBack (b : Nat) : ∀ k, NoCtor (Ledger.destroyBack b k)
  | 0 => pure ()
  | k + 1 => bind (dtorCell b k) (fun _ => destroyBack b k)

theorem destroyAll (c : Cfg) (base : Option Nat) (n : Nat) : NoCtor (Ledger.destroyAll c base n) := by
  unfold Ledger.destroyAll
  split
  · exact pure ()
  · split
    · exact pure ()
    · cases base with
      | none => exact ub
      | some b => exact destroyBack b n

theorem deallocate (c : Cfg) (a : AllocId) (base : Option Nat) (n : Nat) : NoCtor (Ledger.deallocate c a base n) := by
  intro s
  unfold Ledger.deallocate
  split
  · rfl
  · cases base with
    | none => rfl
    | some b =>
      simp only
      cases s.blocks[b]? with
      | none => rfl
      | some blk =>
        simp only
        split
        · rfl
        · show ctorCount (s.log ++ [Event.dealloc b n a]) = _
          rw [ctorCount_append]; simp [Event.isCtor]

/-- `buildSafe` / `build` without the construction stage (trivially default-constructible, no fill value) -/
theorem buildSafe_false (c : Cfg) (a : AllocId) (n : Nat) : NoCtor (Ledger.buildSafe c a n false) := by
  unfold Ledger.buildSafe
  exact bind (allocate a n) (fun p => by simp only [Bool.false_eq_true, if_false]; exact bind (pure ()) (fun _ => pure p))

theorem build_false (c : Cfg) (a : AllocId) (n rowLen : Nat) : NoCtor (Ledger.build c a n false rowLen) := by
  unfold Ledger.build
  split
  · exact buildSafe_false c a n
  · exact bind (allocate a n) (fun p => by simp only [Bool.false_eq_true, if_false]; exact bind (pure ()) (fun _ => pure p))

theorem clearArr (c : Cfg) (i : Nat) (x : Arr) : NoCtor (Ledger.clearArr c i x) := by
  unfold Ledger.clearArr
  exact bind (destroyAll c _ _) (fun _ => bind (deallocate c _ _ _) (fun _ => bind (setSlot i _) (fun _ => pure _)))

end NoCtor

end Ledger
end Multi
