/-
  MultiProofs.LedgerLog — which programs record which kinds of events.  A cell is written by a construction (`ctor`
  event) or an assignment (`assign` event) and by nothing else; storage is obtained by `allocate` (`alloc` event) and by
  nothing else.  A program built only from micro-steps that do not emit events of kind `P` leaves the number of `P`-events
  of the ledger unchanged, whatever its outcome (used by C08.trivial_no_write and C09.no_alloc_when_not_needed).
-/
import MultiProofs.LedgerOps

namespace Multi
namespace Ledger

def Event.isCtor : Event → Bool
  | .ctor .. => true
  | _ => false

def Event.isAlloc : Event → Bool
  | .alloc .. => true
  | _ => false

/-- number of events of kind `P` recorded in a ledger -/
def evCount (P : Event → Bool) (l : List Event) : Nat := l.countP P

def Res.state {α : Type} : Res α → St
  | .ok _ s => s
  | .threw s => s
  | .term s => s
  | .ub s => s

/-- the program records no event of kind `P`, whatever happens -/
def NoEv {α : Type} (P : Event → Bool) (m : M α) : Prop := ∀ s, evCount P (m s).state.log = evCount P s.log

/-- the program performs no element construction -/
abbrev NoCtor {α : Type} (m : M α) : Prop := NoEv Event.isCtor m
/-- the program performs no allocation -/
abbrev NoAlloc {α : Type} (m : M α) : Prop := NoEv Event.isAlloc m

theorem evCount_append (P : Event → Bool) (l : List Event) (e : Event) :
    evCount P (l ++ [e]) = evCount P l + (if P e then 1 else 0) := by
  simp [evCount, List.countP_append, List.countP_cons]

/-- `P` counts none of the events a destruction / deallocation / assignment emits -/
structure Quiet (P : Event → Bool) : Prop where
  assign : ∀ b o, P (.assign b o) = false
  dtor : ∀ b o, P (.dtor b o) = false
  dealloc : ∀ b n a, P (.dealloc b n a) = false

theorem quiet_ctor : Quiet Event.isCtor := ⟨fun _ _ => rfl, fun _ _ => rfl, fun _ _ _ => rfl⟩
theorem quiet_alloc : Quiet Event.isAlloc := ⟨fun _ _ => rfl, fun _ _ => rfl, fun _ _ _ => rfl⟩

namespace NoEv

variable {α β : Type} {P : Event → Bool}

theorem pure (a : α) : NoEv P (Pure.pure a : M α) := fun _ => rfl

theorem bind {m : M α} {f : α → M β} (hm : NoEv P m) (hf : ∀ a, NoEv P (f a)) : NoEv P (m >>= f) := by
  intro s
  show evCount P (M.bind m f s).state.log = _
  unfold M.bind
  have h1 := hm s
  cases hr : m s with
  | ok a s1 => rw [hr] at h1; simp only [Res.state] at h1; rw [← h1]; exact hf a s1
  | threw s1 => rw [hr] at h1; exact h1
  | term s1 => rw [hr] at h1; exact h1
  | ub s1 => rw [hr] at h1; exact h1

theorem tryCatch {m h : M α} (hm : NoEv P m) (hh : NoEv P h) : NoEv P (Ledger.tryCatch m h) := by
  intro s
  unfold Ledger.tryCatch
  have h1 := hm s
  cases hr : m s with
  | ok a s1 => rw [hr] at h1; exact h1
  | threw s1 => rw [hr] at h1; simp only [Res.state] at h1; rw [← h1]; exact hh s1
  | term s1 => rw [hr] at h1; exact h1
  | ub s1 => rw [hr] at h1; exact h1

theorem noexcept {m : M α} (hm : NoEv P m) : NoEv P (Ledger.noexcept m) := by
  intro s
  unfold Ledger.noexcept
  have h1 := hm s
  cases hr : m s with
  | ok a s1 => rw [hr] at h1; exact h1
  | threw s1 => rw [hr] at h1; exact h1
  | term s1 => rw [hr] at h1; exact h1
  | ub s1 => rw [hr] at h1; exact h1

theorem ite {c : Prop} [Decidable c] {m1 m2 : M α} (h1 : NoEv P m1) (h2 : NoEv P m2) : NoEv P (if c then m1 else m2) := by
  split <;> assumption

theorem get : NoEv P Ledger.get := fun _ => rfl
theorem rethrow : NoEv P (Ledger.rethrow : M α) := fun _ => rfl
theorem ub : NoEv P (Ledger.ub : M α) := fun _ => rfl
theorem setSlot (i : Nat) (o : Option Arr) : NoEv P (Ledger.setSlot i o) := fun _ => rfl

theorem tick (k : Step) : NoEv P (Ledger.tick k) := by
  intro s
  unfold Ledger.tick
  cases s.fuel with
  | none => rfl
  | some n => cases n <;> rfl

theorem allocate (hP : ∀ b n a, P (.alloc b n a) = false) (a : AllocId) (n : Nat) : NoEv P (Ledger.allocate a n) := by
  intro s
  unfold Ledger.allocate
  split
  · rfl
  · have ht := tick (P := P) Step.alloc s
    cases hr : Ledger.tick Step.alloc s with
    | ok u s1 =>
      rw [hr] at ht; simp only [Res.state] at ht ⊢
      rw [evCount_append]; simp [hP, ht]
    | threw s1 => rw [hr] at ht; exact ht
    | term s1 => rw [hr] at ht; exact ht
    | ub s1 => rw [hr] at ht; exact ht

theorem readCells (c : Cfg) (base : Option Nat) (n : Nat) : NoEv P (Ledger.readCells c base n) := by
  intro s
  unfold Ledger.readCells
  split
  · rfl
  · cases base with
    | none => rfl
    | some b =>
      simp only
      cases s.blocks[b]? with
      | none => rfl
      | some blk => simp only; split <;> rfl

theorem assignCell (hq : Quiet P) (c : Cfg) (b off : Nat) : NoEv P (Ledger.assignCell c b off) := by
  intro s
  unfold Ledger.assignCell
  cases s.blocks[b]? with
  | none => rfl
  | some blk =>
    simp only
    split
    · rfl
    · have ht : evCount P (if c.elemThrows = true then Ledger.tick Step.assign s else Res.ok () s).state.log = evCount P s.log := by
        split
        · exact tick Step.assign s
        · rfl
      cases hr : (if c.elemThrows = true then Ledger.tick Step.assign s else Res.ok () s) with
      | ok u s1 =>
        rw [hr] at ht; simp only [Res.state] at ht ⊢
        show evCount P (s1.log ++ [Event.assign b off]) = _
        rw [evCount_append]; simp [hq.assign, ht]
      | threw s1 => rw [hr] at ht; exact ht
      | term s1 => rw [hr] at ht; exact ht
      | ub s1 => rw [hr] at ht; exact ht

theorem assignCells (hq : Quiet P) (c : Cfg) (b : Nat) : ∀ offs, NoEv P (Ledger.assignCells c b offs)
  | [] => pure ()
  | o :: rest => bind (assignCell hq c b o) (fun _ => assignCells hq c b rest)

theorem assignAll (hq : Quiet P) (c : Cfg) (base : Option Nat) (offs : List Nat) : NoEv P (Ledger.assignAll c base offs) := by
  unfold Ledger.assignAll
  cases offs with
  | nil => exact pure ()
  | cons o r =>
    cases base with
    | none => exact ub
    | some b => exact assignCells hq c b (o :: r)

theorem dtorCell (hq : Quiet P) (b off : Nat) : NoEv P (Ledger.dtorCell b off) := by
  intro s
  unfold Ledger.dtorCell
  cases s.blocks[b]? with
  | none => rfl
  | some blk =>
    simp only
    split
    · rfl
    · show evCount P (s.log ++ [Event.dtor b off]) = _
      rw [evCount_append]; simp [hq.dtor]

theorem destroyBack (hq : Quiet P) (b : Nat) : ∀ k, NoEv P (Ledger.destroyBack b k)
  | 0 => pure ()
  | k + 1 => bind (dtorCell hq b k) (fun _ => destroyBack hq b k)

theorem destroyAll (hq : Quiet P) (c : Cfg) (base : Option Nat) (n : Nat) : NoEv P (Ledger.destroyAll c base n) := by
  unfold Ledger.destroyAll
  split
  · exact pure ()
  · split
    · exact pure ()
    · cases base with
      | none => exact ub
      | some b => exact destroyBack hq b n

theorem deallocate (hq : Quiet P) (c : Cfg) (a : AllocId) (base : Option Nat) (n : Nat) : NoEv P (Ledger.deallocate c a base n) := by
  intro s
  unfold Ledger.deallocate
  split
  · rfl
  · cases base with
    | none => rfl
    | some b =>
      simp only
      cases s.blocks[b]? with
      | none => rfl
      | some blk =>
        simp only
        split
        · rfl
        · show evCount P (s.log ++ [Event.dealloc b n a]) = _
          rw [evCount_append]; simp [hq.dealloc]

theorem clearArr (hq : Quiet P) (c : Cfg) (i : Nat) (x : Arr) : NoEv P (Ledger.clearArr c i x) := by
  unfold Ledger.clearArr
  exact bind (destroyAll hq c _ _) (fun _ => bind (deallocate hq c _ _ _) (fun _ => bind (setSlot i _) (fun _ => pure _)))

theorem dtorArr (hq : Quiet P) (c : Cfg) (i : Nat) (x : Arr) : NoEv P (Ledger.dtorArr c i x) := by
  unfold Ledger.dtorArr
  exact bind (destroyAll hq c _ _) (fun _ => bind (deallocate hq c _ _ _) (fun _ => setSlot i _))

/-- `buildSafe` / `build` without the construction stage (trivially default-constructible, no fill value) -/
theorem buildSafe_false (hP : ∀ b n a, P (.alloc b n a) = false) (c : Cfg) (a : AllocId) (n : Nat) :
    NoEv P (Ledger.buildSafe c a n false) := by
  unfold Ledger.buildSafe
  exact bind (allocate hP a n) (fun p => by simp only [Bool.false_eq_true, if_false]; exact bind (pure ()) (fun _ => pure p))

theorem build_false (hP : ∀ b n a, P (.alloc b n a) = false) (c : Cfg) (a : AllocId) (n rowLen : Nat) :
    NoEv P (Ledger.build c a n false rowLen) := by
  unfold Ledger.build
  split
  · exact buildSafe_false hP c a n
  · exact bind (allocate hP a n) (fun p => by simp only [Bool.false_eq_true, if_false]; exact bind (pure ()) (fun _ => pure p))

end NoEv

theorem isCtor_alloc : ∀ b n a, Event.isCtor (.alloc b n a) = false := fun _ _ _ => rfl

end Ledger
end Multi
